(* Properties/C16.v — generated ballots follow the documented model distributions.
   Statements only; proofs are in Proofs/C16_laws.v (and Proofs/C14_types.v for [which_bin]).
   Reading: every random kernel of Model/Generators.v is ARGS (the primitive call it reports,
   compared with the implementation's recorded calls on every run) + CORE (a pure function of the
   primitive's result).  The laws of the primitives are the trusted assumptions
   (np.random.choice(p=, replace=False) = successive sampling without replacement [law_pl];
   replace=True = independent categorical draws [law_iid]; choice over a table = [categorical];
   np.random.uniform = U(0,1]; random.shuffle = uniform arrangement).  The theorems give the closed
   forms of these laws, show that the CORE accepts exactly their support and maps the draw to the
   ballot, and verify the Markov kernels of the two MCMC samplers exactly.
   Spec vocabulary (Spec/GenLaws.v): remove_key, law_pl, pl_closed, law_iid, iid_closed,
   pl_ballot_of, law_name_pl, law_cumulative, type_remaining, law_types, bt_stat, own_above,
   own_below, slate_stat, indic, swap_kernel; (Spec/BTSpec.v) bt_weight, slate_weight, enumerates;
   (Model/Laws.v) dist, dret, dbind, mass, prob, categorical, uniform_of. *)
From VK Require Import Base Core GenValidation PrefInterval Generators Laws BTSpec GenSpec GenLaws.
From VK Require Import C14_kernels C14_types C16_laws.
From Coq Require Import Permutation Sorting.Sorted.

(* ====================== B1. Plackett-Luce ====================== *)

Theorem c16_pl_mass : forall k pop,
  (forall c w, In (c, w) pop -> 0 < w) -> (k <= length pop)%nat -> mass (law_pl pop k) == 1.
Proof. exact law_pl_mass. Qed.
Print Assumptions c16_pl_mass.

(* P(order = [c1..ck]) = prod_i w(c_i) / (W - sum_{j<i} w(c_j)) for distinct c_i of the population *)
Theorem c16_pl_prob : forall order pop,
  NoDup (map fst pop) -> NoDup order -> incl order (map fst pop) ->
  prob (list_peqb order) (law_pl pop (length order)) ==
  pl_closed (lookupP pop) (qsum (map snd pop)) order.
Proof. exact law_pl_prob. Qed.
Print Assumptions c16_pl_prob.

(* ... and 0 for anything that is not a k-sample without repetition of the population *)
Theorem c16_pl_prob_invalid : forall k pop order,
  NoDup (map fst pop) -> valid_sample (map fst pop) k order = false ->
  prob (list_peqb order) (law_pl pop k) == 0.
Proof. exact law_pl_prob_invalid. Qed.
Print Assumptions c16_pl_prob_invalid.

(* the model's CORE accepts exactly the support of the law *)
Theorem c16_pl_support_valid : forall k pop order,
  NoDup (map fst pop) -> (forall c w, In (c, w) pop -> 0 < w) ->
  (0 < prob (list_peqb order) (law_pl pop k) <-> valid_sample (map fst pop) k order = true).
Proof. exact law_pl_support_valid. Qed.
Print Assumptions c16_pl_support_valid.

(* name-Plackett-Luce ([iv] is the combined interval, ballot length = number of candidates): the
   kernel's call is GPL (pi_int iv) |pi_int iv|, i.e. successive sampling without replacement over
   the non-zero candidates by the combined supports; the CORE maps the sampled order o to the ballot
   o_1 > ... > o_k > {zero-support candidates}; the draw has the closed-form probability *)
Theorem c16_name_pl : forall iv d b calls,
  NoDup (pi_cands iv) -> (forall c w, In (c, w) (pi_int iv) -> 0 < w) ->
  pl_ballot iv (length (pi_cands iv)) d = inl (b, calls) ->
  hd_error calls = Some (GPL (pi_int iv) (length (pi_int iv))) /\
  ranking_eqb pcand Pos.eqb (rk b) (rk (pl_ballot_of iv (fst d))) = true /\
  wt b == 1 /\ sc b = [] /\
  valid_sample (map fst (pi_int iv)) (length (pi_int iv)) (fst d) = true /\
  prob (list_peqb (fst d)) (law_pl (pi_int iv) (length (pi_int iv))) ==
    pl_closed (lookupP (pi_int iv)) (qsum (map snd (pi_int iv))) (fst d) /\
  0 < prob (list_peqb (fst d)) (law_pl (pi_int iv) (length (pi_int iv))).
Proof. exact name_pl_law. Qed.
Print Assumptions c16_name_pl.

(* the law of one name-PL ballot is the push-forward of [law_pl]; it is a probability law *)
Theorem c16_name_pl_law : forall iv,
  (forall ev : gballot -> bool,
     prob ev (law_name_pl iv) ==
     prob (fun o => ev (pl_ballot_of iv o)) (law_pl (pi_int iv) (length (pi_int iv)))) /\
  ((forall c w, In (c, w) (pi_int iv) -> 0 < w) -> mass (law_name_pl iv) == 1).
Proof. intros iv. split; [exact (law_name_pl_pushforward iv)|exact (law_name_pl_mass iv)]. Qed.
Print Assumptions c16_name_pl_law.

(* ====================== B2. name-Cumulative ====================== *)

Theorem c16_iid : forall pop,
  (forall k, ~ qsum (map snd pop) == 0 -> mass (law_iid pop k) == 1) /\
  (forall draws, NoDup (map fst pop) ->
     prob (list_peqb draws) (law_iid pop (length draws)) ==
     iid_closed (lookupP pop) (qsum (map snd pop)) draws) /\
  (forall k draws, NoDup (map fst pop) -> (forall c w, In (c, w) pop -> 0 < w) -> pop <> [] ->
     (0 < prob (list_peqb draws) (law_iid pop k) <-> valid_iid (map fst pop) k draws = true)).
Proof.
  intros pop. split; [intros k; apply law_iid_mass|]. split.
  - intros draws. apply law_iid_prob.
  - intros k draws. apply law_iid_support_valid.
Qed.
Print Assumptions c16_iid.

(* the kernel's call is GIID (pi_int iv) num_votes (independent draws with replacement by the
   interval); the CORE counts how often each candidate was drawn *)
Theorem c16_cumulative : forall iv nv d b calls,
  NoDup (map fst (pi_int iv)) -> (forall c w, In (c, w) (pi_int iv) -> 0 < w) ->
  cumulative_ballot iv nv d = inl (b, calls) ->
  calls = [GIID (pi_int iv) nv] /\
  b = mkBallot [] 1 (count_scores d []) None None /\
  (forall c v, In (c, v) (sc b) -> v == Qnat (draw_count d c)) /\
  prob (list_peqb d) (law_iid (pi_int iv) nv) ==
    iid_closed (lookupP (pi_int iv)) (qsum (map snd (pi_int iv))) d /\
  (nv <> O -> 0 < prob (list_peqb d) (law_iid (pi_int iv) nv)).
Proof. exact cumulative_law. Qed.
Print Assumptions c16_cumulative.

Theorem c16_cumulative_mass : forall iv nv,
  (forall c w, In (c, w) (pi_int iv) -> 0 < w) -> pi_int iv <> [] -> mass (law_cumulative iv nv) == 1.
Proof. exact law_cumulative_mass. Qed.
Print Assumptions c16_cumulative_mass.

(* ====================== B3. slate-Plackett-Luce ballot types ====================== *)

(* a flip u selects slate i iff v_0 + ... + v_{i-1} < u <= v_0 + ... + v_i: for U uniform on (0,1]
   and values summing to one, slate i is drawn with probability v_i *)
Theorem c16_which_bin : forall values u i,
  Forall (fun v => 0 <= v) values ->
  (which_bin (bins_of values) u 0 = Some i <->
   (i < length values)%nat /\ qsum (firstn i values) < u /\ u <= qsum (firstn (S i) values)) /\
  (forall v, nth_error values i = Some v ->
     qsum (firstn (S i) values) == qsum (firstn i values) + v).
Proof.
  intros values u i H. split; [exact (which_bin_iff values u i H)|exact (psum_S_nth values i)].
Qed.
Print Assumptions c16_which_bin.

(* one iteration: the drawn slate is appended; when it is used up it is removed together with its
   value and the remaining values are divided by their sum; when they are all zero the rest of the
   type is the shuffle of what is left *)
Theorem c16_type_loop_renormalises : forall flip rest blocs values sizes acc sh i b,
  which_bin (bins_of values) flip 0 = Some i -> nth_error blocs i = Some b ->
  type_loop (flip :: rest) blocs values sizes acc sh =
  (if Nat.eqb (count_bloc b (b :: acc)) (size_of sizes b)
   then
     if Qeq_bool (qsum (remove_nth i values)) 0 && nonempty (remove_nth i values)
     then match sh with
          | Some s => ok (rev (b :: acc) ++ s, [GShuffle (type_multiset sizes (remove_nth i blocs))])
          | None => err EScript
          end
     else type_loop rest (remove_nth i blocs)
            (map (fun v => v / qsum (remove_nth i values)) (remove_nth i values)) sizes (b :: acc) sh
   else type_loop rest blocs values sizes (b :: acc) sh).
Proof. exact type_loop_step. Qed.
Print Assumptions c16_type_loop_renormalises.

Theorem c16_renormalised_sum_one : forall values' : list Q,
  ~ qsum values' == 0 -> qsum (map (fun v => v / qsum values') values') == 1.
Proof. exact renormalised_sum_one. Qed.
Print Assumptions c16_renormalised_sum_one.

(* the loop's successive (blocs, values) are those of [law_types]: every type it returns is an
   outcome of positive probability of that law *)
Theorem c16_slate_types : forall sizes flips blocs values acc sh t calls,
  Forall (fun v => 0 <= v) values ->
  (forall pop, In (GShuffle pop) calls -> exists s, sh = Some s /\ Permutation s pop) ->
  type_loop flips blocs values sizes acc sh = inl (t, calls) ->
  exists w, In (t, w) (law_types (length flips) blocs values sizes acc) /\ 0 < w.
Proof. exact law_types_support. Qed.
Print Assumptions c16_slate_types.

(* ====================== B4. exact Bradley-Terry tables ====================== *)

(* the exact name-BT sampler draws ballot indices from the table bt_pdf (pi_int iv), whose entries
   are the C15 pair-product probabilities; the categorical law of the table gives every ranking
   exactly its entry *)
Theorem c16_exact_bt_tables : forall d zero n draws bs calls (x : pcand -> Q) (all : list (list pcand)),
  NoDup (map fst d) ->
  (forall c s, In (c, s) d -> 0 < s) ->
  (forall c s, In (c, s) d -> x c = s) ->
  enumerates all (map fst d) ->
  table_bloc (bt_pdf d) zero n draws = inl (bs, calls) ->
  calls = [GTable (bt_pdf d) n] /\
  qsum (map snd (bt_pdf d)) == 1 /\ mass (categorical (bt_pdf d)) == 1 /\
  (forall r v, In (r, v) (bt_pdf d) ->
     Permutation r (map fst d) /\
     v == bt_weight x r / qsum (map (bt_weight x) all) /\
     prob (list_peqb r) (categorical (bt_pdf d)) == v) /\
  (forall r, In r draws -> 0 < prob (list_peqb r) (categorical (bt_pdf d))).
Proof. exact exact_bt_table_law. Qed.
Print Assumptions c16_exact_bt_tables.

(* the exact slate-BT sampler (two slates with a and b non-zero candidates) draws ballot types from
   slate_bt_pdf, whose entries are the C15 weights c^(own above opp) (1-c)^(opp above own),
   normalised over the distinct arrangements; this is also the MCMC chain's documented weight *)
Theorem c16_exact_slate_bt_table : forall (own opp : bloc) (a b : nat) (sizes : list (bloc * nat)) c all,
  own <> opp ->
  sizes = [(own, a); (opp, b)] \/ sizes = [(opp, b); (own, a)] ->
  0 <= c -> c <= 1 ->
  enumerates all (repeat own a ++ repeat opp b) ->
  qsum (map snd (slate_bt_pdf sizes own opp c)) == 1 /\
  mass (categorical (slate_bt_pdf sizes own opp c)) == 1 /\
  (forall t, Permutation t (repeat own a ++ repeat opp b) ->
     exists v, In (t, v) (slate_bt_pdf sizes own opp c)) /\
  (forall t v, In (t, v) (slate_bt_pdf sizes own opp c) ->
     Permutation t (repeat own a ++ repeat opp b) /\
     v == slate_weight c own opp t / qsum (map (slate_weight c own opp) all) /\
     slate_weight c own opp t = slate_stat own c t /\
     prob (list_peqb t) (categorical (slate_bt_pdf sizes own opp c)) == v).
Proof. exact exact_slate_bt_table_law. Qed.
Print Assumptions c16_exact_slate_bt_table.

(* ====================== B5. name-Bradley-Terry MCMC ====================== *)

(* detailed balance for every state, every position and every size; the proposal is symmetric
   (the same position j proposes the reverse move) *)
Theorem c16_bt_mcmc_db : forall iv x j,
  (forall c, In c x -> 0 < lookupP iv c) ->
  bt_stat iv x * bt_accept iv x j == bt_stat iv (swap_adj j x) * bt_accept iv (swap_adj j x) j /\
  swap_adj j (swap_adj j x) = x /\
  0 <= bt_accept iv x j /\ bt_accept iv x j <= 1.
Proof.
  intros iv x j H. split; [exact (bt_detailed_balance iv x j H)|].
  split; [apply swap_adj_invol|exact (bt_accept_range iv x j H)].
Qed.
Print Assumptions c16_bt_mcmc_db.

(* hence pi K = pi for the chain with m uniformly proposed positions on the rearrangements of seed *)
Theorem c16_bt_mcmc_stationary : forall iv seed m y,
  NoDup seed -> (forall c, In c seed -> 0 < lookupP iv c) -> (0 < m)%nat ->
  Permutation y seed ->
  qsum (map (fun x => bt_stat iv x * swap_kernel list_peqb (bt_accept iv) m x y) (perms pcand seed))
  == bt_stat iv y.
Proof. exact bt_mcmc_stationary. Qed.
Print Assumptions c16_bt_mcmc_stationary.

(* ====================== B6. slate-Bradley-Terry MCMC ====================== *)

(* with the acceptance values as coded (odds = (1-c)/c for own-moves-down, 1 otherwise) the balance
   equation is an algebraic identity for every c <> 0 ... *)
Theorem c16_slate_bt_mcmc_raw : forall own c t j,
  ~ c == 0 ->
  slate_stat own c t * slate_accept own c t j ==
  slate_stat own c (swap_adj j t) * slate_accept own c (swap_adj j t) j.
Proof. exact slate_balance_raw. Qed.
Print Assumptions c16_slate_bt_mcmc_raw.

(* ... but they are probabilities only when odds <= 1: detailed balance of the actual chain
   (acceptance = min(1, value)) holds for every cohesion >= 1/2 *)
Theorem c16_slate_bt_mcmc_db : forall own c t j,
  1 # 2 <= c ->
  slate_stat own c t * Qmin1 (slate_accept own c t j) ==
  slate_stat own c (swap_adj j t) * Qmin1 (slate_accept own c (swap_adj j t) j).
Proof. exact slate_detailed_balance. Qed.
Print Assumptions c16_slate_bt_mcmc_db.

(* 1/2 is the exact threshold *)
Theorem c16_slate_bt_mcmc_threshold : forall own opp c,
  own <> opp -> 0 < c -> c <= 1 ->
  (slate_stat own c [own; opp] * Qmin1 (slate_accept own c [own; opp] 0) ==
   slate_stat own c [opp; own] * Qmin1 (slate_accept own c [opp; own] 0)
   <-> 1 # 2 <= c).
Proof. exact slate_balance_threshold. Qed.
Print Assumptions c16_slate_bt_mcmc_threshold.

Theorem c16_slate_stat_two : forall own opp c t,
  own <> opp -> (forall x, In x t -> x = own \/ x = opp) ->
  slate_stat own c t = slate_weight c own opp t.
Proof. exact slate_stat_two. Qed.
Print Assumptions c16_slate_stat_two.

(* REFUTED below 1/2 (cohesion 1/4, type [own; other]): the acceptance "probability" is 3, the
   balance equation between the actual transition probabilities fails, and the documented weight
   is not stationary *)
Theorem c16_slate_bt_mcmc_db_refuted :
  exists (own : bloc) (c : Q) (t : list bloc) (j : nat),
    0 < c /\ c < 1 /\
    1 < slate_accept own c t j /\
    ~ (slate_stat own c t * Qmin1 (slate_accept own c t j) ==
       slate_stat own c (swap_adj j t) * Qmin1 (slate_accept own c (swap_adj j t) j)) /\
    ~ (qsum (map (fun x => slate_stat own c x * swap_kernel list_peqb (slate_accept own c) 1 x t)
                 (arrangements_ms t)) == slate_stat own c t).
Proof. exact slate_mcmc_refuted. Qed.
Print Assumptions c16_slate_bt_mcmc_db_refuted.

(* ====================== B7. spatial models ====================== *)

(* for EVERY stream: the ballot is the candidate list stably sorted by distance to the voter *)
Theorem c16_spatial_sorted : forall cs dists,
  length cs = length dists ->
  exists sorted : list (pcand * Q),
    sort_by_distance cs dists = map fst sorted /\
    Permutation sorted (combine cs dists) /\
    StronglySorted (fun a b => snd a <= snd b) sorted /\
    (forall q, at_distance q sorted = at_distance q (combine cs dists)) /\
    Permutation (sort_by_distance cs dists) cs.
Proof. exact sort_by_distance_ok. Qed.
Print Assumptions c16_spatial_sorted.

(* ====================== B8. AlternatingCrossover ====================== *)

(* first ballot: population = the interval's own key order, paired with its own supports *)
Theorem c16_ac_first_ballot_pl : forall ivb ivo : list (pcand * Q),
  ac_calls (map fst ivb) (map fst ivo) (map snd ivb) (map snd ivo) =
  [GPL ivb (length ivb); GPL ivo (length ivo)].
Proof. exact ac_first_ballot_pl. Qed.
Print Assumptions c16_ac_first_ballot_pl.

(* REFUTED from the second ballot on: the population is the previous ballot's order, the p vector
   is still in the original order, so a candidate is paired with another candidate's support *)
Theorem c16_ac_internal_pl_refuted :
  exists (ivb ivo : list (pcand * Q)) (draws : list (list pcand * list pcand)) bs calls pop,
    NoDup (map fst ivb) /\ (forall c s, In (c, s) ivb -> 0 < s) /\ qsum (map snd ivb) == 1 /\
    ac_bloc 0 0 (map fst ivb) (map fst ivo) (map snd ivb) (map snd ivo) draws = inl (bs, calls) /\
    nth_error calls 0 = Some (GPL ivb (length ivb)) /\
    nth_error calls 2 = Some (GPL pop (length ivb)) /\
    Permutation (map fst pop) (map fst ivb) /\
    ~ lookupP pop 2%positive == lookupP ivb 2%positive /\
    lookupP pop 2%positive == lookupP ivb 1%positive.
Proof. exact ac_internal_pl_refuted. Qed.
Print Assumptions c16_ac_internal_pl_refuted.

(* ====================== non-vacuity ====================== *)

Local Open Scope positive_scope.

Definition ex_pop : list (pcand * Q) := [(1, (1 # 2)%Q); (2, (1 # 3)%Q); (3, (1 # 6)%Q)].

(* P(2 > 1 > 3) = 1/3 * (1/2)/(2/3) * (1/6)/(1/6) = 1/4 *)
Example ex_pl_prob : prob (list_peqb [2; 1; 3]) (law_pl ex_pop 3) == (1 # 4)%Q.
Proof. vm_compute. reflexivity. Qed.

Example ex_pl_closed : pl_closed (lookupP ex_pop) (qsum (map snd ex_pop)) [2; 1; 3] == (1 # 4)%Q.
Proof. vm_compute. reflexivity. Qed.

Example ex_pl_mass : mass (law_pl ex_pop 2) == 1%Q.
Proof. vm_compute. reflexivity. Qed.

Example ex_iid_prob : prob (list_peqb [2; 2; 1]) (law_iid ex_pop 3) == (1 # 18)%Q.
Proof. vm_compute. reflexivity. Qed.

(* which_bin: values 3/4, 1/4; the flip 4/5 falls into the second bin *)
Example ex_which_bin : which_bin (bins_of [3 # 4; 1 # 4]%Q) (4 # 5)%Q 0 = Some 1%nat.
Proof. vm_compute. reflexivity. Qed.

(* law_types for two slates of sizes 2 and 1 with cohesion 3/4 : 1/4 is a probability law and gives
   the type [1; 2; 1] probability 3/4 * 1/4 * 1 *)
Example ex_law_types :
  mass (law_types 3 [1; 2] [3 # 4; 1 # 4]%Q [(1, 2%nat); (2, 1%nat)] []) == 1%Q /\
  prob (list_peqb [1; 2; 1]) (law_types 3 [1; 2] [3 # 4; 1 # 4]%Q [(1, 2%nat); (2, 1%nat)] [])
  == (3 # 16)%Q.
Proof. split; vm_compute; reflexivity. Qed.

(* name-BT chain on three candidates: a state, its weight and an acceptance strictly inside (0,1) *)
Example ex_bt_chain :
  bt_stat ex_pop [1; 2; 3] == (1 # 12)%Q /\ bt_accept ex_pop [1; 2; 3] 0 == (2 # 3)%Q /\
  bt_stat ex_pop [2; 1; 3] == (1 # 18)%Q /\ bt_accept ex_pop [2; 1; 3] 0 == 1%Q.
Proof. repeat split; vm_compute; reflexivity. Qed.

(* slate chain at cohesion 3/4: own-moves-down is accepted with probability 1/3 *)
Example ex_slate_chain :
  slate_accept 1 (3 # 4)%Q [1; 2] 0 == (1 # 3)%Q /\ slate_stat 1 (3 # 4)%Q [1; 2] == (3 # 4)%Q /\
  slate_stat 1 (3 # 4)%Q [2; 1] == (1 # 4)%Q.
Proof. repeat split; vm_compute; reflexivity. Qed.
