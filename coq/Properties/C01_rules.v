(* Properties/C01_rules.v — C01 at the level of [run_rule] for the rules outside the STV family
   (the STV family is in Properties/C01_stv.v): Plurality / SNTV, Borda, the rating family,
   DominatingSets, CondoBorda, TopTwo, Alaska, RandomDictator / BoostedRandomDictator, PluralityVeto.
   For every script of random draws: on success the number of rounds, the number of winners, the
   partition of the candidates at every recorded round and the permanence of statuses; on failure
   which exceptions can escape for valid input.  Statements only; proofs are in
   Proofs/C01_lib.v, C01_rules.v, C01_composite.v, C01_dictator.v, C01_pv.v, C01_nofuel.v.

   Vocabulary (Spec/RunSpec.v), all in terms of the three Election queries of Model/Rules.v:
     groups_at sts r e m x   get_elected / get_remaining / get_eliminated at round r return e, m, x
     partitions cs sts       at every recorded round flat e ++ flat m ++ flat x rearranges cs
     status_kept sts         elected (eliminated) at round r  =>  elected (eliminated) at r' >= r
     elects_exactly sts k    get_elected(-1) names exactly k candidates, all different
     ranked_profile p        ScoreSpec.wf_profile p and no ballot carries scores
     straddles_seat r m      a group of the ranking r straddles seat m
   and: Anon.wf_rated_profile (rated ballots), RatingSpec.rating_args_ok / score_ballot_ok,
   PairwiseSpec.untied_profile, STVSpec.wf_stv0 / script_ok, TieSpec.one_shot_params / no_tiebreak. *)
From VK Require Import Base Core STV Pairwise Rules PV Election.
From VK.Spec Require Import ScoreSpec EditSpec RatingSpec STVSpec Anon TieSpec PairwiseSpec RunSpec.
From VK.Proofs Require Import STV_final C01_lib C01_rules C01_composite C01_dictator C01_pv.
From Coq Require Import Permutation.

Section C01.
Variable cand : Type.
Variable ceqb : cand -> cand -> bool.
Hypothesis ceqb_spec : forall a b, reflect (a = b) (ceqb a b).

Notation profile := (profile cand).
Notation estate := (estate cand).
Notation mstate := (mstate cand).
Notation cset := (cset cand).
Notation flat := (flat cand).
Notation get_elected := (get_elected cand).
Notation get_remaining := (get_remaining cand).
Notation get_eliminated := (get_eliminated cand).
Notation partitions := (partitions cand).
Notation status_kept := (status_kept cand).
Notation elects_exactly := (elects_exactly cand).
Notation numbered := (numbered cand).
Notation ranked_profile := (ranked_profile cand).
Notation straddles_seat := (straddles_seat cand).
Notation wf_rated_profile := (wf_rated_profile cand).
Notation score_ballot_ok := (score_ballot_ok cand).
Notation untied_profile := (untied_profile cand).
Notation wf_stv0 := (wf_stv0 cand).
Notation script_ok := (script_ok cand).
Notation no_tiebreak := (no_tiebreak cand).
Notation first_place_votes := (first_place_votes cand ceqb).
Notation score_rankings := (score_rankings cand ceqb).
Notation score_from_scores := (score_from_scores cand ceqb).
Notation score_to_ranking := (score_to_ranking cand).
Notation dominating_tiers := (dominating_tiers cand ceqb).
Notation run_rule := (run_rule cand ceqb).
Notation run_rating := (run_rating cand ceqb).
Notation run_toptwo := (run_toptwo cand ceqb).
Notation run_alaska := (run_alaska cand ceqb).
Notation run_stv := (run_stv cand ceqb).
Notation stv_init := (stv_init cand).
Notation stv_replay := (stv_replay cand ceqb).
Notation plurality_stage := (plurality_stage cand ceqb).
Notation round0 := (round0 cand ceqb).
Notation run_dictator := (run_dictator cand ceqb).
Notation rd_step := (rd_step cand ceqb).
Notation brd_step := (brd_step cand ceqb).
Notation run_pv := (run_pv cand ceqb).
Notation pv_step := (pv_step cand ceqb).
Notation pv_loop := (pv_loop cand ceqb).
Notation score_free := (EditSpec.score_free cand).

(* ---------- every rule: statuses are permanent ---------- *)

(* for ANY list of round records (hence for the result of every rule): a candidate that
   get_elected / get_eliminated reports at round r is reported at every later round *)
Theorem c01_rules_status_kept : forall sts : list estate, status_kept sts.
Proof. exact (status_kept_all cand). Qed.

(* ---------- O1: the one-shot rules ---------- *)

(* Plurality / SNTV, Borda, GeneralRating, Limited, BlocPlurality ([one_shot_params r p] gives
   their seat count m): a successful run has exactly the two rounds 0 and 1, 1 <= m <= n,
   get_elected(1) = get_elected(-1) names exactly m distinct candidates, and at both rounds the
   three groups partition the candidates *)
Theorem c01_one_shot_outcome : forall r (p : profile) k m tb (s : mstate) sts s',
  one_shot_params cand r p = Some (k, m, tb) ->
  NoDup (cands p) -> run_rule r p s = inl (sts, s') ->
  exists s0 s1, sts = [s0; s1] /\ rnd s0 = 0%Z /\ rnd s1 = 1%Z /\
    (1 <= m <= Z.of_nat (length (cands p)))%Z /\
    get_elected sts 1 = inl (elected s1) /\ Z.of_nat (length (flat (elected s1))) = m /\
    elects_exactly sts m /\ partitions (cands p) sts.
Proof. exact (one_shot_rule_outcome cand ceqb ceqb_spec). Qed.

(* Plurality on a valid ranked profile.  With d the first-place scores:
   - without a tiebreak rule the run fails exactly when m < 1, m > n or a group of the round-0
     ranking straddles seat m, and then with ValueError; otherwise it succeeds and draws nothing;
   - with any tiebreak option the only errors are ValueError (seat count out of range, the tie
     without a rule, an unknown tiebreak name) and EScript (a replay script of the wrong shape,
     only when a tiebreak rule was given) *)
Theorem c01_plurality_errors : forall m (p : profile), ranked_profile p ->
  exists d, first_place_votes p = inl d /\ map fst d = cands p /\
    (forall s, run_rule (RPlurality m None) p s = inr EValue <->
       (m < 1 \/ Z.of_nat (length (cands p)) < m)%Z \/ straddles_seat (score_to_ranking d true) m) /\
    (forall s e, run_rule (RPlurality m None) p s = inr e -> e = EValue) /\
    (forall s, (exists sts, run_rule (RPlurality m None) p s = inl (sts, s)) \/
               run_rule (RPlurality m None) p s = inr EValue) /\
    (forall tb s e, run_rule (RPlurality m tb) p s = inr e ->
       (e = EValue /\ ((m < 1 \/ Z.of_nat (length (cands p)) < m)%Z \/
                       (tb = None /\ straddles_seat (score_to_ranking d true) m) \/ tb = Some TBInvalid)) \/
       (e = EScript /\ tb <> None)).
Proof. exact (plurality_errors cand ceqb ceqb_spec). Qed.

(* Borda with a valid score vector (the default vector n, n-1, ..., 1 always is) *)
Theorem c01_borda_errors : forall m v (p : profile), ranked_profile p ->
  let vec := match v with Some (x :: l) => x :: l | _ => default_borda cand p end in
  valid_vector vec ->
  exists d, score_rankings p vec = inl d /\ map fst d = cands p /\
    (forall s, run_rule (RBorda m v None) p s = inr EValue <->
       (m < 1 \/ Z.of_nat (length (cands p)) < m)%Z \/ straddles_seat (score_to_ranking d true) m) /\
    (forall s e, run_rule (RBorda m v None) p s = inr e -> e = EValue) /\
    (forall s, (exists sts, run_rule (RBorda m v None) p s = inl (sts, s)) \/
               run_rule (RBorda m v None) p s = inr EValue) /\
    (forall tb s e, run_rule (RBorda m v tb) p s = inr e ->
       (e = EValue /\ ((m < 1 \/ Z.of_nat (length (cands p)) < m)%Z \/
                       (tb = None /\ straddles_seat (score_to_ranking d true) m) \/ tb = Some TBInvalid)) \/
       (e = EScript /\ tb <> None)).
Proof. exact (borda_errors cand ceqb ceqb_spec). Qed.

Theorem c01_borda_default_vector : forall p : profile, valid_vector (default_borda cand p).
Proof. exact (default_borda_valid cand). Qed.

(* hence Plurality and Borda never run out of fuel on valid input *)
Theorem c01_plurality_borda_terminate : forall m tb (p : profile) s, ranked_profile p ->
  run_rule (RPlurality m tb) p s <> inr EFuel /\
  (forall v, valid_vector (match v with Some (x :: l) => x :: l | _ => default_borda cand p end) ->
             run_rule (RBorda m v tb) p s <> inr EFuel).
Proof. exact (plurality_borda_no_fuel cand ceqb ceqb_spec). Qed.

(* the rating family, once GeneralRating has accepted its arguments and every ballot (C05), on
   rated ballots (no ranking, a score list without repeated keys over declared candidates).  The
   first-place / Borda tiebreaks need rankings, so only "no tiebreak" and "random" are covered. *)
Theorem c01_rating_errors : forall m L k (p : profile),
  rating_args_ok m L k -> Forall (score_ballot_ok L k) (ballots p) -> wf_rated_profile p ->
  exists d, score_from_scores p = inl d /\ map fst d = cands p /\
    (forall s, run_rating m L k None p s = inr EValue <->
       (m < 1 \/ Z.of_nat (length (cands p)) < m)%Z \/ straddles_seat (score_to_ranking d true) m) /\
    (forall s e, run_rating m L k None p s = inr e -> e = EValue) /\
    (forall s, (exists sts, run_rating m L k None p s = inl (sts, s)) \/ run_rating m L k None p s = inr EValue) /\
    (forall s e, run_rating m L k (Some TBRandom) p s = inr e -> e = EValue \/ e = EScript).
Proof. exact (rating_errors cand ceqb ceqb_spec). Qed.

(* GeneralRating, Limited and BlocPlurality are [run_rating] *)
Theorem c01_rating_family : forall (p : profile) s,
  (forall m L k tb, run_rule (RRating m L k tb) p s = run_rating m L k tb p s) /\
  (forall m k tb, run_rule (RLimited m k tb) p s =
     if Qlt_bool (inject_Z m) k then inr EValue else run_rating m k (Some k) tb p s) /\
  (forall m k tb, run_rule (RBloc m k tb) p s =
     run_rating m 1 (Some (inject_Z (match k with
                                     | Some x => if Z.eqb x 0 then m else x
                                     | None => m
                                     end))) tb p s).
Proof. exact (rating_family_runs cand ceqb). Qed.

(* ---------- O2: DominatingSets and CondoBorda ---------- *)

(* DominatingSets never fails on an untied profile, draws nothing, has the two rounds 0 and 1,
   elects exactly the top dominating tier (non-empty, no repetition) and partitions the candidates *)
Theorem c01_dominating_run : forall (p : profile) s, untied_profile p ->
  exists top rest s0 s1,
    dominating_tiers p = inl (top :: rest) /\
    run_rule RDominating p s = inl ([s0; s1], s) /\
    rnd s0 = 0%Z /\ rnd s1 = 1%Z /\ top <> [] /\ NoDup top /\
    get_elected [s0; s1] 1 = inl [top] /\ get_elected [s0; s1] (-1) = inl [top] /\
    get_remaining [s0; s1] 1 = inl rest /\
    partitions (cands p) [s0; s1].
Proof. exact (dominating_run cand ceqb ceqb_spec). Qed.

(* CondoBorda: as for the one-shot rules *)
Theorem c01_condoborda_run : forall m (p : profile) s sts s', untied_profile p ->
  run_rule (RCondoBorda m) p s = inl (sts, s') ->
  exists s0 s1, sts = [s0; s1] /\ rnd s0 = 0%Z /\ rnd s1 = 1%Z /\
    (1 <= m <= Z.of_nat (length (cands p)))%Z /\
    get_elected sts 1 = inl (elected s1) /\ Z.of_nat (length (flat (elected s1))) = m /\
    elects_exactly sts m /\ partitions (cands p) sts.
Proof. exact (condoborda_run cand ceqb ceqb_spec). Qed.

(* CondoBorda on untied ballots without scores: ValueError exactly for a seat count out of range
   (ties are always broken: by Borda score, then at random), EScript for a wrong replay script *)
Theorem c01_condoborda_errors : forall m (p : profile) s e, untied_profile p -> score_free (ballots p) ->
  run_rule (RCondoBorda m) p s = inr e ->
  (e = EValue /\ (m < 1 \/ Z.of_nat (length (cands p)) < m)%Z) \/ e = EScript.
Proof. exact (condoborda_errors cand ceqb ceqb_spec). Qed.

(* ---------- O3: TopTwo ---------- *)

(* a successful run has the three rounds 0, 1, 2; there are at least two candidates; nobody is
   elected in rounds 0 and 1; after round 1 exactly two candidates remain and all others are
   eliminated; round 2 elects one of the two, leaves the other remaining and eliminates nobody;
   exactly one candidate is elected; the groups partition the candidates at every round *)
Theorem c01_toptwo_outcome : forall tb (p : profile) s sts s',
  NoDup (cands p) -> run_toptwo tb p s = inl (sts, s') ->
  exists s0 s1 s2, sts = [s0; s1; s2] /\ rnd s0 = 0%Z /\ rnd s1 = 1%Z /\ rnd s2 = 2%Z /\
    (2 <= Z.of_nat (length (cands p)))%Z /\
    elected s0 = [[]] /\ eliminated s0 = [[]] /\ elected s1 = [[]] /\
    Z.of_nat (length (flat (remaining s1))) = 2%Z /\
    Permutation (flat (remaining s1) ++ flat (eliminated s1)) (cands p) /\
    eliminated s2 = [[]] /\
    (exists w l, flat (elected s2) = [w] /\ flat (remaining s2) = [l] /\
                 Permutation [w; l] (flat (remaining s1))) /\
    elects_exactly sts 1 /\ partitions (cands p) sts.
Proof. exact (toptwo_run_outcome cand ceqb ceqb_spec). Qed.

(* on a valid ranked profile only ValueError escapes, or EScript when a tiebreak rule is given
   and the replay script has the wrong shape (so never EFuel, TypeError, KeyError, IndexError) *)
Theorem c01_toptwo_error_kinds : forall tb (p : profile) s e, ranked_profile p ->
  run_toptwo tb p s = inr e -> e = EValue \/ (e = EScript /\ tb <> None).
Proof. exact (toptwo_error_kinds cand ceqb ceqb_spec). Qed.

(* without a tiebreak rule: ValueError exactly when there are fewer than two candidates, a
   first-place tie straddles the second seat, or the two finalists tie on the reduced profile *)
Theorem c01_toptwo_errors_none : forall (p : profile) s, ranked_profile p ->
  exists d0 s0, first_place_votes p = inl d0 /\ round0 SKFpv p = inl s0 /\
    (run_toptwo None p s = inr EValue <->
       (Z.of_nat (length (cands p)) < 2)%Z \/ straddles_seat (score_to_ranking d0 true) 2 \/
       (exists p1 s1 sa a b qa qb, plurality_stage 2 None p s0 s = inl ((p1, s1), sa) /\
          a <> b /\ In (a, qa) (escores s1) /\ In (b, qb) (escores s1) /\ qa == qb)) /\
    (forall e, run_toptwo None p s = inr e -> e = EValue).
Proof. exact (toptwo_errors_none cand ceqb ceqb_spec). Qed.

(* ---------- O4: Alaska ---------- *)

(* a successful run on a valid untied profile: 1 <= m2 <= m1 <= n; rounds numbered 0, 1, 2, ...
   (at least three); nobody elected in rounds 0 and 1; after round 1 the m1 Plurality winners
   remain and the others are eliminated; exactly m2 candidates are elected; the groups partition
   the candidates of the ORIGINAL profile at every round (the Plurality losers stay eliminated
   while the inner STV count partitions the survivors) *)
Theorem c01_alaska_outcome : forall m1 m2 cfg (p : profile) s sts s',
  wf_stv0 p -> (s_transfer cfg = TRandom -> script_ok s) ->
  run_alaska m1 m2 cfg p s = inl (sts, s') ->
  (1 <= m2 <= m1)%Z /\ (m1 <= Z.of_nat (length (cands p)))%Z /\ numbered sts /\
  (exists s0 s1 rest, sts = s0 :: s1 :: rest /\ rest <> [] /\
     elected s0 = [[]] /\ eliminated s0 = [[]] /\ elected s1 = [[]] /\
     Z.of_nat (length (flat (remaining s1))) = m1 /\
     Permutation (flat (remaining s1) ++ flat (eliminated s1)) (cands p)) /\
  elects_exactly sts m2 /\ partitions (cands p) sts.
Proof. exact (alaska_run_outcome cand ceqb ceqb_spec). Qed.

(* the get_profile replay that Alaska makes at the end cannot fail (and draws nothing) when the
   STV stage did not use the random transfer and recorded no tiebreak *)
Theorem c01_alaska_replay_ok : forall cfg (p1 : profile) sa ssts sb t,
  s_transfer cfg <> TRandom ->
  run_stv cfg p1 sa = inl (ssts, sb) -> stv_init cfg p1 = inl t ->
  Forall no_tiebreak ssts ->
  forall s2, exists pf, stv_replay cfg t p1 [] p1 (removelast ssts) s2 = inl (pf, s2).
Proof. exact (alaska_replay_ok cand ceqb). Qed.

(* with the Droop quota and a quota-preserving transfer: ValueError, EScript, TypeError only with
   the random transfer — or an error raised by the final replay of an STV stage that had succeeded
   but had recorded a tiebreak (or used the random transfer): the known finding
   "alaska-replay-redraw", exhibited below *)
Theorem c01_alaska_errors : forall m1 m2 cfg (p : profile) s e,
  wf_stv0 p -> s_quota cfg = QDroop -> s_transfer cfg <> TFullWeight ->
  (s_transfer cfg = TRandom -> script_ok s) ->
  run_alaska m1 m2 cfg p s = inr e ->
  e = EValue \/ e = EScript \/ (s_transfer cfg = TRandom /\ e = EType) \/
  (exists s0 p1 s1 sa ssts sb t,
     plurality_stage m1 (s_tiebreak cfg) p s0 s = inl ((p1, s1), sa) /\
     run_stv (with_m cfg m2) p1 sa = inl (ssts, sb) /\ stv_init (with_m cfg m2) p1 = inl t /\
     stv_replay (with_m cfg m2) t p1 [] p1 (removelast ssts) sb = inr e /\
     (s_transfer cfg = TRandom \/ ~ Forall no_tiebreak ssts)).
Proof. exact (alaska_errors cand ceqb ceqb_spec). Qed.

(* hence Alaska always terminates on such input: the replay contains no loop *)
Theorem c01_alaska_terminates : forall m1 m2 cfg (p : profile) s,
  wf_stv0 p -> s_quota cfg = QDroop -> s_transfer cfg <> TFullWeight ->
  (s_transfer cfg = TRandom -> script_ok s) ->
  run_alaska m1 m2 cfg p s <> inr EFuel.
Proof. exact (alaska_no_fuel cand ceqb ceqb_spec). Qed.

(* ---------- termination of the rules without a loop ---------- *)

(* for EVERY input (valid or not) and every script: Plurality / SNTV, Borda, the rating family,
   DominatingSets, CondoBorda and TopTwo never report non-termination *)
Theorem c01_loop_free_terminate : forall (p : profile) s,
  (forall m tb, run_rule (RPlurality m tb) p s <> inr EFuel) /\
  (forall m v tb, run_rule (RBorda m v tb) p s <> inr EFuel) /\
  (forall m L k tb, run_rule (RRating m L k tb) p s <> inr EFuel) /\
  (forall m k tb, run_rule (RLimited m k tb) p s <> inr EFuel) /\
  (forall m k tb, run_rule (RBloc m k tb) p s <> inr EFuel) /\
  run_rule RDominating p s <> inr EFuel /\
  (forall m, run_rule (RCondoBorda m) p s <> inr EFuel) /\
  (forall tb, run_rule (RTopTwo tb) p s <> inr EFuel).
Proof. exact (loop_free_no_fuel cand ceqb). Qed.

(* ---------- O5: RandomDictator / BoostedRandomDictator ---------- *)

(* a successful run on a valid ranked profile: 1 <= m <= n; m + 1 rounds numbered 0..m; round 0
   elects nobody and every later round elects exactly one candidate; nobody is ever eliminated;
   exactly m distinct candidates are elected; the groups partition the candidates at every round *)
Theorem c01_dictator_outcome : forall (boosted : bool) m (p : profile) s sts s',
  ranked_profile p -> run_dictator boosted m p s = inl (sts, s') ->
  (1 <= m <= Z.of_nat (length (cands p)))%Z /\
  length sts = S (Z.to_nat m) /\ numbered sts /\
  (exists s0 rest, sts = s0 :: rest /\ elected s0 = [[]] /\
     Forall (fun st => exists w, elected st = [[w]]) rest /\
     Forall (fun st => eliminated st = [[]]) sts) /\
  elects_exactly sts m /\ partitions (cands p) sts.
Proof. exact (dictator_run_outcome cand ceqb ceqb_spec). Qed.

(* the loop always ends (each round removes a candidate) *)
Theorem c01_dictator_terminates : forall (boosted : bool) m (p : profile) s,
  ranked_profile p -> run_dictator boosted m p s <> inr EFuel.
Proof. exact (dictator_no_fuel cand ceqb ceqb_spec). Qed.

(* one round of either rule on a valid ranked profile can only fail with IndexError when no ballot
   is left (random.choices on an empty list), with ValueError when the total weight is not positive
   (for the boosted rule also 0/0 probabilities), or with EScript *)
Theorem c01_rd_step_errors : forall (p : profile) prev s e,
  ranked_profile p -> rd_step p prev s = inr e ->
  (e = EIndex /\ ballots p = []) \/
  (e = EValue /\ ballots p <> [] /\ total_wt cand (ballots p) <= 0) \/ e = EScript.
Proof. exact (rd_step_errors cand ceqb ceqb_spec). Qed.

(* boosted: the 0/0 probabilities (numpy "probabilities contain NaN") arise from total weight 0 or,
   for a previous state whose recorded tallies are all zero, from the normaliser of the squares
   being 0.  A run never passes such a state: see c01_dictator_errors (the failing step is played
   on a state holding the first-place tallies of its profile) and c17_brd_step_errors_linked *)
Theorem c01_brd_step_errors : forall (p : profile) prev s e,
  ranked_profile p -> brd_step p prev s = inr e ->
  (e = EIndex /\ ballots p = []) \/
  (e = EValue /\ (total_wt cand (ballots p) <= 0 \/
                  squares_mass cand (escores prev) (total_wt cand (ballots p)) == 0)) \/
  e = EScript.
Proof. exact (brd_step_errors cand ceqb ceqb_spec). Qed.

(* a failed run: ValueError for a seat count out of range, or the error of a round played on some
   reduced profile cur (valid, over candidates of p) from a previous state that holds the
   first-place tallies of cur *)
Theorem c01_dictator_errors : forall (boosted : bool) m (p : profile) s e,
  ranked_profile p -> run_dictator boosted m p s = inr e ->
  (e = EValue /\ ~ (1 <= m <= Z.of_nat (length (cands p)))%Z) \/
  (exists (cur : profile) prev s1, ranked_profile cur /\ incl (cands cur) (cands p) /\
     first_place_votes cur = inl (escores prev) /\
     (if boosted then brd_step cur prev s1 else rd_step cur prev s1) = inr e).
Proof. exact (dictator_run_errors cand ceqb ceqb_spec). Qed.

(* hence only ValueError, IndexError, EScript; and IndexError only when every ballot was exhausted
   before the m seats were filled (the known finding "random-dictator-exhausted") *)
Theorem c01_dictator_error_kinds : forall (boosted : bool) m (p : profile) s e,
  ranked_profile p -> run_dictator boosted m p s = inr e ->
  (e = EValue \/ e = EIndex \/ e = EScript) /\
  (e = EIndex -> exists cur : profile,
     ranked_profile cur /\ incl (cands cur) (cands p) /\ ballots cur = []).
Proof. exact (dictator_error_kinds cand ceqb ceqb_spec). Qed.

(* ---------- O6: PluralityVeto ---------- *)

(* a successful run (any input): 1 <= m <= n; nobody is elected before the last round; the last
   round elects everybody still remaining in the round before it, at least m candidates; the
   final result is that group *)
Theorem c01_pv_success : forall m tb (p : profile) s sts s',
  run_pv m tb p s = inl (sts, s') ->
  (1 <= m <= Z.of_nat (length (cands p)))%Z /\
  exists older prev last, sts = older ++ [prev; last] /\
    Forall (fun st => elected st = [[]]) (older ++ [prev]) /\
    elected last = remaining prev /\ remaining last = [[]] /\ eliminated last = [[]] /\
    (m <= Z.of_nat (length (flat (remaining prev))))%Z /\
    get_elected sts (-1) = inl (real_groups cand (remaining prev)).
Proof. exact (pv_success_shape cand ceqb). Qed.

(* one round: either the candidates still standing number m and all of `remaining` is elected (the
   object is left unchanged), or nobody is elected and a group is eliminated and recorded *)
Theorem c01_pv_step : forall m tb n (o : pv_obj cand) (p : profile) prev s o' np st s',
  pv_step m tb n o p prev s = inl ((o', np, st), s') ->
  rnd st = (rnd prev + 1)%Z /\
  (((Z.of_nat n - Z.of_nat (length (pv_elim cand o)) =? m)%Z = true /\
    o' = o /\ elected st = remaining prev /\ remaining st = [[]] /\ eliminated st = [[]])
   \/
   ((Z.of_nat n - Z.of_nat (length (pv_elim cand o)) =? m)%Z = false /\
    elected st = [[]] /\
    exists elim, eliminated st = [dedup cand ceqb elim] /\
      remove_cand_prof cand ceqb elim false true p = inl np /\
      pv_ballots cand o' = ballots np /\
      pv_elim cand o' = pv_elim cand o ++ set_diff cand ceqb (dedup cand ceqb elim) (pv_elim cand o) /\
      incl (pv_elim cand o) (pv_elim cand o') /\
      (NoDup (pv_elim cand o) -> NoDup (pv_elim cand o')))).
Proof. exact (pv_step_shapes cand ceqb ceqb_spec). Qed.

(* EFuel = non-termination of the real loop: once the candidates still standing number m but the
   group elected from `remaining` is too small to reach m winners, every further round elects the
   empty placeholder and the loop never ends, whatever the fuel (the known finding
   "plurality-veto-nontermination") *)
Theorem c01_pv_nontermination : forall fuel m tb n (o : pv_obj cand) (p : profile) prev older s,
  (Z.of_nat n - Z.of_nat (length (pv_elim cand o)) =? m)%Z = true ->
  (Z.of_nat (length (flat (real_groups cand (remaining prev)))) + count_elected cand (prev :: older) < m)%Z ->
  pv_loop fuel m tb n o p (prev :: older) s = inr EFuel.
Proof. exact (pv_short_elect_never_terminates cand ceqb). Qed.

(* argument errors, and the model's internal "impossible" branch is never taken *)
Theorem c01_pv_args : forall m tb (p : profile) s,
  (m <= 0 \/ Z.of_nat (length (cands p)) < m)%Z -> pv_validate cand p = inl tt ->
  run_pv m tb p s = inr EValue.
Proof. exact (pv_args cand ceqb). Qed.

Theorem c01_pv_no_internal_error : forall m tb (p : profile) s e,
  run_pv m tb p s = inr e -> e <> EOther.
Proof. exact (pv_errors_coarse cand ceqb). Qed.

End C01.

Print Assumptions c01_rules_status_kept.
Print Assumptions c01_one_shot_outcome.
Print Assumptions c01_plurality_errors.
Print Assumptions c01_borda_errors.
Print Assumptions c01_borda_default_vector.
Print Assumptions c01_plurality_borda_terminate.
Print Assumptions c01_rating_errors.
Print Assumptions c01_rating_family.
Print Assumptions c01_dominating_run.
Print Assumptions c01_condoborda_run.
Print Assumptions c01_condoborda_errors.
Print Assumptions c01_toptwo_outcome.
Print Assumptions c01_toptwo_error_kinds.
Print Assumptions c01_toptwo_errors_none.
Print Assumptions c01_alaska_outcome.
Print Assumptions c01_alaska_replay_ok.
Print Assumptions c01_alaska_errors.
Print Assumptions c01_alaska_terminates.
Print Assumptions c01_loop_free_terminate.
Print Assumptions c01_dictator_outcome.
Print Assumptions c01_dictator_terminates.
Print Assumptions c01_rd_step_errors.
Print Assumptions c01_brd_step_errors.
Print Assumptions c01_dictator_errors.
Print Assumptions c01_dictator_error_kinds.
Print Assumptions c01_pv_success.
Print Assumptions c01_pv_step.
Print Assumptions c01_pv_nontermination.
Print Assumptions c01_pv_args.
Print Assumptions c01_pv_no_internal_error.

(* ------------------------------------------------------------------ *)
(* Non-vacuity and the recorded findings, on concrete inputs (cand := positive). *)
Open Scope positive_scope.

Definition rb (r : list (list positive)) (w : Q) : ballot positive := plain_ballot positive r w.
Definition st0 : Core.mstate positive := mkM [] [].
(* what a run reports, round by round: (elected, remaining, eliminated) *)
Definition fields (sts : list (estate positive)) :=
  map (fun st => (elected st, remaining st, eliminated st)) sts.

Ltac ex_nodup := repeat (constructor; [cbn; intuition discriminate|]); constructor.
Ltac ex_incl := let x := fresh "x" in let Hx := fresh "Hx" in intros x Hx; cbn in Hx |- *; intuition.
Ltac ex_wf_ranking :=
  cbn; split; [discriminate|]; split; [repeat (constructor; [discriminate|]); constructor|];
  split; [ex_nodup|ex_incl].
Ltac ex_ranked :=
  split; [split; [cbn; ex_nodup|repeat (constructor; [ex_wf_ranking|]); constructor]
         |repeat constructor].

(* ---- Plurality / Borda: first-place votes 3, 2, 2, 1/2: candidates 2 and 3 tie ---- *)
Definition ex_pl : Core.profile positive :=
  mkProfile [rb [[1];[2;3]] 3; rb [[2];[1]] 2; rb [[3];[4]] (3#2); rb [[3;4];[1]] 1] [1;2;3;4].

Example ex_pl_ranked : ranked_profile positive ex_pl.
Proof. ex_ranked. Qed.

(* one and three seats need no tiebreak; two seats cut the tie {2,3}: ValueError without a rule,
   a recorded random draw with one; five seats: ValueError *)
Example ex_pl_runs :
  (exists sts, run_rule positive Pos.eqb (RPlurality 1 None) ex_pl st0 = inl (sts, st0) /\
     fields sts = [([[]], [[1];[2;3];[4]], [[]]); ([[1]], [[2;3];[4]], [[]])]) /\
  (exists sts, run_rule positive Pos.eqb (RPlurality 3 None) ex_pl st0 = inl (sts, st0) /\
     fields sts = [([[]], [[1];[2;3];[4]], [[]]); ([[1];[2;3]], [[4]], [[]])] /\
     get_elected positive sts (-1) = inl [[1];[2;3]] /\
     get_eliminated positive sts 1 = inl []) /\
  run_rule positive Pos.eqb (RPlurality 2 None) ex_pl st0 = inr EValue /\
  straddles_seat positive [[1];[2;3];[4]] 2 /\
  (exists sts, run_rule positive Pos.eqb (RPlurality 2 (Some TBRandom)) ex_pl (mkM [DPerm [3;2]] [])
               = inl (sts, mkM [] [CSample [2;3]]) /\
     fields sts = [([[]], [[1];[2;3];[4]], [[]]); ([[1];[3]], [[2];[4]], [[]])]) /\
  run_rule positive Pos.eqb (RPlurality 5 None) ex_pl st0 = inr EValue /\
  run_rule positive Pos.eqb (RPlurality 2 (Some TBRandom)) ex_pl st0 = inr EScript.
Proof.
  split; [eexists; split; vm_compute; reflexivity|].
  split; [eexists; split; [vm_compute; reflexivity|repeat split]|].
  split; [vm_compute; reflexivity|].
  split; [exists [[1]], [2;3], [[4]]; repeat split; cbn; reflexivity|].
  split; [eexists; split; vm_compute; reflexivity|].
  split; vm_compute; reflexivity.
Qed.

Example ex_borda_runs :
  valid_vector [3; 1]%Q /\
  (exists sts, run_rule positive Pos.eqb (RBorda 2 None None) ex_pl st0 = inl (sts, st0) /\
     fields sts = [([[]], [[1];[3];[2];[4]], [[]]); ([[1];[3]], [[2];[4]], [[]])]) /\
  (exists sts, run_rule positive Pos.eqb (RBorda 2 (Some [3;1]%Q) None) ex_pl st0 = inl (sts, st0) /\
     fields sts = [([[]], [[1];[3];[2];[4]], [[]]); ([[1];[3]], [[2];[4]], [[]])]).
Proof.
  split; [split; [repeat constructor; discriminate|cbn; repeat split; discriminate]|].
  split; eexists; split; vm_compute; reflexivity.
Qed.

(* FINDING (not a violation of a theorem above: the ballots are outside [ranked_profile]): a ballot
   that carries scores next to its ranking survives the removal of its ranked candidates as a
   ballot without ranking, and Plurality's re-scoring of round 1 raises TypeError *)
Definition ex_scored : Core.profile positive :=
  mkProfile [mkBallot [[1]] 2 [(2, 1%Q)] None None; rb [[2]] 1] [1;2].

Example c01_plurality_scored_ballot_typeerror :
  wf_profile positive ex_scored /\
  run_rule positive Pos.eqb (RPlurality 1 None) ex_scored st0 = inr EType.
Proof.
  split; [split; [cbn; ex_nodup|repeat (constructor; [ex_wf_ranking|]); constructor]|].
  vm_compute. reflexivity.
Qed.

(* ---- the rating family: totals 11/2, 10, 5, 0 ---- *)
Definition sbal (d : list (positive * Q)) (w : Q) : ballot positive := mkBallot [] w d None None.
Definition ex_rt : Core.profile positive :=
  mkProfile [sbal [(1, 3%Q); (2, 2%Q)] (3#2); sbal [(2, 3%Q); (3, (1#2)%Q)] 2; sbal [(3, 3%Q)] 1;
             sbal [(1, 1%Q); (2, 1%Q); (3, 1%Q)] 1] [1;2;3;4].

Example ex_rt_valid :
  wf_rated_profile positive ex_rt /\ rating_args_ok 2 3 (Some 5%Q) /\
  Forall (score_ballot_ok positive 3 (Some 5%Q)) (ballots ex_rt).
Proof.
  split.
  - split; [cbn; ex_nodup|].
    repeat (constructor; [cbn; split; [reflexivity|]; split; [discriminate|]; split; [ex_nodup|ex_incl]|]).
    constructor.
  - split.
    + split; [discriminate|]. split; [reflexivity|]. split; [reflexivity|discriminate].
    + apply Forall_forall. intros b Hb. cbn in Hb.
      repeat (destruct Hb as [Hb|Hb];
        [subst b; split; [discriminate|]; split;
           [intros c q Hin; cbn [sc sbal In] in Hin;
            repeat (destruct Hin as [Hin|Hin]; [inversion Hin; subst; split; discriminate|]);
            destruct Hin
           |vm_compute; discriminate]|]).
      destruct Hb.
Qed.

Example ex_rt_runs :
  (exists sts, run_rule positive Pos.eqb (RRating 2 3 (Some 5%Q) None) ex_rt st0 = inl (sts, st0) /\
     fields sts = [([[]], [[2];[1];[3];[4]], [[]]); ([[2];[1]], [[3];[4]], [[]])]) /\
  run_rule positive Pos.eqb (RRating 5 3 (Some 5%Q) None) ex_rt st0 = inr EValue.
Proof. split; [eexists; split; vm_compute; reflexivity|vm_compute; reflexivity]. Qed.

(* ---- DominatingSets / CondoBorda: a 3-cycle 1 > 2 > 3 > 1 above candidate 4 ---- *)
Definition lb (l : list positive) (w : Q) : ballot positive :=
  plain_ballot positive (Core.singletons positive l) w.
Definition ex_cyc : Core.profile positive :=
  mkProfile [lb [1;2;3] 1; lb [2;3;1] 1; lb [3;1;2] 1; lb [1] (1#2)] [1;2;3;4].

Ltac ex_untied_ballot :=
  split; [discriminate|]; split; [repeat constructor|]; split; [ex_nodup|];
  split; [ex_incl|]; split; [intros x []|reflexivity].

Example ex_cyc_valid : untied_profile positive ex_cyc /\ EditSpec.score_free positive (ballots ex_cyc).
Proof.
  split; [|repeat constructor].
  split; [ex_nodup|]. split; [discriminate|]. repeat (constructor; [ex_untied_ballot|]). constructor.
Qed.

Example ex_cyc_runs :
  (exists sts, run_rule positive Pos.eqb RDominating ex_cyc st0 = inl (sts, st0) /\
     fields sts = [([[]], [[1;2;3;4]], [[]]); ([[1;3;2]], [[4]], [[]])] /\
     get_elected positive sts (-1) = inl [[1;3;2]]) /\
  (exists sts s', run_rule positive Pos.eqb (RCondoBorda 2) ex_cyc (mkM [DPerm [3;2]] []) = inl (sts, s') /\
     get_elected positive sts (-1) = inl [[1];[3]] /\ get_remaining positive sts 1 = inl [[2];[4]]) /\
  run_rule positive Pos.eqb (RCondoBorda 5) ex_cyc st0 = inr EValue /\
  run_rule positive Pos.eqb (RCondoBorda 2) ex_cyc st0 = inr EScript.
Proof.
  split; [eexists; split; [vm_compute; reflexivity|split; reflexivity]|].
  split; [eexists; eexists; split; [vm_compute; reflexivity|split; reflexivity]|].
  split; vm_compute; reflexivity.
Qed.

(* ---- TopTwo: first-place votes 4, 3, 2, 1; candidate 2 wins the runoff 6 : 4 ---- *)
Definition ex_tt : Core.profile positive :=
  mkProfile [rb [[1];[2];[3]] 4; rb [[2];[3];[1]] 3; rb [[3];[2];[1]] 2; rb [[4];[2]] 1] [1;2;3;4].

Example ex_tt_ranked : ranked_profile positive ex_tt.
Proof. ex_ranked. Qed.

Example ex_tt_runs :
  exists sts, run_rule positive Pos.eqb (RTopTwo None) ex_tt st0 = inl (sts, st0) /\
    fields sts = [([[]], [[1];[2];[3];[4]], [[]]); ([[]], [[1];[2]], [[3];[4]]); ([[2]], [[1]], [[]])] /\
    get_elected positive sts (-1) = inl [[2]] /\
    get_eliminated positive sts 2 = inl [[4];[3]] /\ get_remaining positive sts 2 = inl [[1]].
Proof. eexists. split; [vm_compute; reflexivity|repeat split]. Qed.

(* a 3 : 3 runoff tie: ValueError without a tiebreak rule *)
Definition ex_tt_tie : Core.profile positive :=
  mkProfile [rb [[1];[2];[3]] 3; rb [[2];[3];[1]] 3; rb [[3]] 1] [1;2;3].

Example ex_tt_tie_error :
  ranked_profile positive ex_tt_tie /\
  run_rule positive Pos.eqb (RTopTwo None) ex_tt_tie st0 = inr EValue /\
  run_rule positive Pos.eqb (RTopTwo None) (mkProfile [rb [[1]] 1] [1]) st0 = inr EValue.
Proof. split; [ex_ranked|]. split; vm_compute; reflexivity. Qed.

(* ---- Alaska(m1 = 3, m2 = 2) on the TopTwo profile: candidate 4 is dropped, then STV with the
   Droop quota 4 elects 1 and 2 together ---- *)
Definition ex_ak_cfg : stv_cfg := mkStv 1 QDroop true TFractional None.

Example ex_tt_stv_valid : wf_stv0 positive ex_tt.
Proof.
  apply (proj1 (wf_stv_profile_b_ok positive Pos.eqb Pos.eqb_spec ex_tt ltac:(vm_compute; reflexivity))).
Qed.

Example ex_ak_runs :
  exists sts, run_rule positive Pos.eqb (RAlaska 3 2 ex_ak_cfg) ex_tt st0 = inl (sts, st0) /\
    fields sts = [([[]], [[1];[2];[3];[4]], [[]]); ([[]], [[1];[2];[3]], [[4]]); ([[1;2]], [[3]], [[]])] /\
    get_elected positive sts (-1) = inl [[1;2]] /\ get_eliminated positive sts (-1) = inl [[4]].
Proof. eexists. split; [vm_compute; reflexivity|repeat split]. Qed.

(* FINDING "alaska-replay-redraw": A>D, B>G>A, G>D>B, D>A>G>B, three votes each (A,B,G,D = 1,2,3,4),
   m1 = 4, m2 = 2.  All four tie for elimination in the STV stage; the run draws the order 1,2,3,4
   and eliminates 4; the get_profile replay draws again, here 4,3,2,1, eliminates 1 instead, has
   diverged from the recorded states and raises KeyError: an exception type other than ValueError
   escapes on valid input.  With the same order drawn twice the election succeeds. *)
Definition ex_redraw : Core.profile positive :=
  mkProfile [lb [1;4] 3; lb [2;3;1] 3; lb [3;4;2] 3; lb [4;1;3;2] 3] [1;2;3;4].

Example c01_alaska_replay_redraw_keyerror :
  wf_stv0 positive ex_redraw /\
  run_rule positive Pos.eqb (RAlaska 4 2 ex_ak_cfg) ex_redraw (mkM [DPerm [1;2;3;4]; DPerm [4;3;2;1]] [])
  = inr EKey /\
  exists sts, run_rule positive Pos.eqb (RAlaska 4 2 ex_ak_cfg) ex_redraw
                (mkM [DPerm [1;2;3;4]; DPerm [1;2;3;4]] []) = inl (sts, mkM [] [CSample [1;2;3;4]; CSample [1;2;3;4]]) /\
    get_elected positive sts (-1) = inl [[1];[3]] /\ get_eliminated positive sts (-1) = inl [[2];[4]].
Proof.
  split.
  - apply (proj1 (wf_stv_profile_b_ok positive Pos.eqb Pos.eqb_spec ex_redraw ltac:(vm_compute; reflexivity))).
  - split; [vm_compute; reflexivity|]. eexists. split; [vm_compute; reflexivity|split; reflexivity].
Qed.

(* ---- the random dictators (Proofs/C01_dictator.v has the full state lists) ---- *)
Example ex_dictator_runs :
  ranked_profile positive ex_dict /\
  (exists sts s', run_rule positive Pos.eqb (RRandomDictator 2) ex_dict
                    (mkM [DRank [[1;2];[3]]; DPerm [2;1]; DRank [[3];[1]]] []) = inl (sts, s') /\
     fields sts = [([[]], [[1;2;3]], [[]]); ([[2]], [[1];[3]], [[]]); ([[3]], [[1]], [[]])] /\
     get_elected positive sts (-1) = inl [[2];[3]]) /\
  (exists sts s', run_rule positive Pos.eqb (RBoosted 2) ex_dict
                    (mkM [DUnit (3#4); DRank [[2;1];[3]]; DPerm [2;1]; DUnit (1#2); DCand 3] []) = inl (sts, s') /\
     get_elected positive sts (-1) = inl [[2];[3]]).
Proof.
  split; [exact ex_dict_ranked|].
  split; eexists; eexists; (split; [vm_compute; reflexivity|repeat split]).
Qed.

(* FINDING "random-dictator-exhausted": one bullet ballot, two seats: IndexError; the boosted rule
   raises ValueError (0/0 probabilities) when at least two candidates are left *)
Example c01_dictator_exhausted :
  ranked_profile positive ex_bullet /\
  run_rule positive Pos.eqb (RRandomDictator 2) ex_bullet (mkM [DRank [[1]]] []) = inr EIndex /\
  run_rule positive Pos.eqb (RBoosted 2) (mkProfile [mkBallot [[1]] (3#1) [] None None] [1;2;3])
           (mkM [DUnit (1#4); DCand 1; DUnit (1#2)] []) = inr EValue.
Proof. split; [exact ex_bullet_ranked|]. split; vm_compute; reflexivity. Qed.

(* ---- PluralityVeto ---- *)
Example ex_pv_runs :
  exists sts, run_pv positive Pos.eqb 1 None pv_ex_profile pv_ex_script = inl (sts, mkM [] [CShuffle 3]) /\
    fields sts = [([[]], [[1];[2];[3]], [[]]); ([[]], [[1];[2]], [[3]]); ([[]], [[1]], [[2]]);
                  ([[1]], [[]], [[]])] /\
    get_elected positive sts (-1) = inl [[1]].
Proof. eexists. split; [vm_compute; reflexivity|split; reflexivity]. Qed.

(* FINDING "plurality-veto-nontermination": A>B>C x3, two seats: the zero-vote candidates are struck
   in round 1, one candidate is left for two seats and the loop spins *)
Example c01_pv_nontermination_example :
  run_pv positive Pos.eqb 2 None pv_spin_profile (mkM [DIdxs [0; 1; 2]%nat] []) = inr EFuel.
Proof. exact pv_nontermination_example. Qed.
