(* Properties/C15.v — closed-form model probabilities equal their definitions.
   Statements only; proofs are in Proofs/C15_interval.v, C15_bt.v, C15_slate.v.
   Model (Model/PrefInterval.v): mk_interval = PreferenceInterval(...), combine_intervals =
   combine_preference_intervals, bt_pdf = name_BradleyTerry._BT_pdf (numerator make_pow = _make_pow),
   calc_prob = _calc_prob, slate_bt_pdf = slate_BradleyTerry._compute_ballot_type_dist.
   Spec vocabulary (Spec/BTSpec.v):
     qprod l               product of a list of rationals
     ordered_pairs l       all pairs (l_i, l_j) with i < j
     bt_weight x r         product over ordered pairs (a above b) of r of x a / (x a + x b)
     above_pairs u d t     number of ordered pairs of t that are (u, d)
     slate_weight c o p t  c^(above_pairs o p t) * (1-c)^(above_pairs p o t)
     wf_interval i         every share of i is > 0 and the shares sum to 1
     enumerates L l        L lists, without repetition, exactly the rearrangements of l
   All numbers are exact rationals; the model reduces fractions (Qred), conclusions are up to ==. *)
From VK Require Import Base Core GenValidation PrefInterval BTSpec C15_interval C15_bt C15_slate.
From Coq Require Import Permutation Qpower.

(* ====================== I1. PreferenceInterval ====================== *)

(* non-negative supports: zero-support candidates set aside (in order), the others rescaled by the
   total support, shares positive and summing to one *)
Theorem c15_interval_normalised : forall d i,
  (forall c s, In (c, s) d -> 0 <= s) ->
  mk_interval d = inl i ->
  0 < qsum (map snd d) /\
  pi_zero i = map fst (filter (fun p => Qeq_bool (snd p) 0) d) /\
  map fst (pi_int i) = map fst (filter (fun p => Qlt_bool 0 (snd p)) d) /\
  (forall c, In c (pi_zero i) <-> exists s, In (c, s) d /\ s == 0) /\
  (forall c, In c (map fst (pi_int i)) <-> exists s, In (c, s) d /\ 0 < s) /\
  (forall c v, In (c, v) (pi_int i) ->
     exists s, In (c, s) d /\ 0 < s /\ v == s / qsum (map snd d)) /\
  (forall c s, In (c, s) d -> 0 < s ->
     exists v, In (c, v) (pi_int i) /\ v == s / qsum (map snd d)) /\
  (forall c v, In (c, v) (pi_int i) -> 0 < v) /\
  qsum (map snd (pi_int i)) == 1 /\
  (NoDup (map fst d) -> NoDup (map fst (pi_int i)) /\ NoDup (pi_zero i) /\
                        forall c, In c (map fst (pi_int i)) -> ~ In c (pi_zero i)).
Proof. exact interval_normalised. Qed.
Print Assumptions c15_interval_normalised.

(* what mk_interval returns is a well-formed interval (the hypothesis of c15_combine) *)
Theorem c15_interval_wf : forall d i, mk_interval d = inl i -> wf_interval i.
Proof. exact mk_interval_wf. Qed.
Print Assumptions c15_interval_wf.

(* the only error is ZeroDivisionError, raised exactly when no support is positive (any input) *)
Theorem c15_interval_error : forall d e,
  mk_interval d = inr e <-> (e = EZeroDiv /\ forall c s, In (c, s) d -> s <= 0).
Proof. exact interval_error. Qed.
Print Assumptions c15_interval_error.

Theorem c15_interval_error_nonneg : forall d,
  (forall c s, In (c, s) d -> 0 <= s) ->
  (mk_interval d = inr EZeroDiv <-> forall c s, In (c, s) d -> s == 0).
Proof. exact interval_error_nonneg. Qed.
Print Assumptions c15_interval_error_nonneg.

(* ====================== I2. combine_preference_intervals ====================== *)

(* general form: proportions only have to round to one; (i, p) ranges over interval/proportion pairs *)
Theorem c15_combine : forall (is : list pinterval) (props : list Q),
  Forall wf_interval is -> length is = length props -> Forall (fun p => 0 <= p) props ->
  NoDup (concat (map pi_cands is)) ->
  rounds_to_one (qsum props) = true ->
  exists r, combine_intervals is props = inl r /\
    (forall i p c v, In (i, p) (combine is props) -> In (c, v) (pi_int i) -> 0 < p ->
       exists w, In (c, w) (pi_int r) /\ w == p * v / qsum props) /\
    (forall c w, In (c, w) (pi_int r) ->
       exists i p v, In (i, p) (combine is props) /\ In (c, v) (pi_int i) /\ 0 < p /\
                     w == p * v / qsum props) /\
    (forall i p c v, In (i, p) (combine is props) -> In (c, v) (pi_int i) -> p == 0 ->
       In c (pi_zero r)) /\
    (forall i c, In i is -> In c (pi_zero i) -> In c (pi_zero r)) /\
    (forall c, In c (pi_zero r) ->
       (exists i, In i is /\ In c (pi_zero i)) \/
       (exists i p v, In (i, p) (combine is props) /\ In (c, v) (pi_int i) /\ p == 0)) /\
    wf_interval r /\
    NoDup (map fst (pi_int r)) /\ NoDup (pi_zero r).
Proof. exact combine_ok. Qed.
Print Assumptions c15_combine.

(* proportions summing to exactly one: every share is multiplied by its interval's proportion *)
Theorem c15_combine_exact : forall (is : list pinterval) (props : list Q),
  Forall wf_interval is -> length is = length props -> Forall (fun p => 0 <= p) props ->
  NoDup (concat (map pi_cands is)) -> qsum props == 1 ->
  exists r, combine_intervals is props = inl r /\
    (forall i p c v, In (i, p) (combine is props) -> In (c, v) (pi_int i) -> 0 < p ->
       exists w, In (c, w) (pi_int r) /\ w == p * v) /\
    (forall i p c v, In (i, p) (combine is props) -> In (c, v) (pi_int i) -> p == 0 ->
       In c (pi_zero r)) /\
    (forall i c, In i is -> In c (pi_zero i) -> In c (pi_zero r)) /\
    qsum (map snd (pi_int r)) == 1.
Proof. exact combine_exact. Qed.
Print Assumptions c15_combine_exact.

Theorem c15_rounds_to_one : forall q,
  rounds_to_one q = true <-> 1 - (5 # 1000000000) < q /\ q < 1 + (5 # 1000000000).
Proof. exact rounds_to_one_iff. Qed.
Print Assumptions c15_rounds_to_one.

(* errors *)
Theorem c15_combine_error : forall (is : list pinterval) (props : list Q),
  Forall wf_interval is -> length is = length props -> Forall (fun p => 0 <= p) props ->
  forall e, combine_intervals is props = inr e <->
    (e = EValue /\ (~ NoDup (concat (map pi_cands is)) \/ rounds_to_one (qsum props) = false)).
Proof. exact combine_error. Qed.
Print Assumptions c15_combine_error.

Theorem c15_combine_error_overlap : forall is props,
  ~ NoDup (concat (map pi_cands is)) -> combine_intervals is props = inr EValue.
Proof. exact combine_error_overlap. Qed.
Print Assumptions c15_combine_error_overlap.

Theorem c15_combine_error_props : forall is props,
  rounds_to_one (qsum props) = false -> combine_intervals is props = inr EValue.
Proof. exact combine_error_props. Qed.
Print Assumptions c15_combine_error_props.

(* ====================== B. name-Bradley-Terry ====================== *)

(* _calc_prob is the product over ordered pairs (a above b) of x_a / (x_a + x_b) *)
Theorem c15_calc_prob_def : forall d r, calc_prob d r == bt_weight (lookupP d) r.
Proof. exact calc_prob_def. Qed.
Print Assumptions c15_calc_prob_def.

(* ... recursively: the head against every later candidate, times the tail *)
Theorem c15_calc_prob_rec : forall d,
  calc_prob d [] == 1 /\
  forall c r, calc_prob d (c :: r) ==
    qprod (map (fun c' => lookupP d c / (lookupP d c + lookupP d c')) r) * calc_prob d r.
Proof. exact calc_prob_rec. Qed.
Print Assumptions c15_calc_prob_rec.

(* ordered_pairs l is exactly "a occurs strictly before b" *)
Theorem c15_ordered_pairs_spec : forall (A : Type) (l : list A) a b,
  In (a, b) (ordered_pairs l) <-> exists l1 l2 l3, l = l1 ++ a :: l2 ++ b :: l3.
Proof. exact ordered_pairs_spec. Qed.
Print Assumptions c15_ordered_pairs_spec.

(* the model's dictionary access *)
Theorem c15_lookup : forall d c s, NoDup (map fst d) -> In (c, s) d -> lookupP d c = s.
Proof. exact lookupP_spec. Qed.
Print Assumptions c15_lookup.

(* B1: the table has an entry for every permutation of the candidates, and every entry is the
   pair-product weight divided by the sum of the weights of all permutations *)
Theorem c15_bt_pdf : forall d (x : pcand -> Q) (all : list (list pcand)),
  NoDup (map fst d) ->
  (forall c s, In (c, s) d -> 0 < s) ->
  (forall c s, In (c, s) d -> x c = s) ->
  enumerates all (map fst d) ->
  (forall r, Permutation r (map fst d) -> exists v, In (r, v) (bt_pdf d)) /\
  (forall r v, In (r, v) (bt_pdf d) ->
     Permutation r (map fst d) /\
     v == bt_weight x r / qsum (map (bt_weight x) all)).
Proof. exact bt_pdf_correct. Qed.
Print Assumptions c15_bt_pdf.

(* the same against the model's _calc_prob *)
Theorem c15_bt_pdf_calc_prob : forall d,
  (forall c s, In (c, s) d -> 0 < s) ->
  forall r v, In (r, v) (bt_pdf d) ->
    Permutation r (map fst d) /\
    v == calc_prob d r / qsum (map (calc_prob d) (perms pcand (map fst d))).
Proof. exact bt_pdf_calc_prob. Qed.
Print Assumptions c15_bt_pdf_calc_prob.

(* B2 *)
Theorem c15_bt_sums_to_one : forall d,
  (forall c s, In (c, s) d -> 0 < s) ->
  qsum (map snd (bt_pdf d)) == 1 /\
  map fst (bt_pdf d) = perms pcand (map fst d) /\
  length (bt_pdf d) = fact (length d) /\
  (forall r v, In (r, v) (bt_pdf d) -> 0 < v) /\
  (NoDup (map fst d) -> NoDup (map fst (bt_pdf d))).
Proof. exact bt_sums_to_one. Qed.
Print Assumptions c15_bt_sums_to_one.

(* ====================== S. slate-Bradley-Terry ====================== *)

(* S1: the ballot types are exactly the distinct arrangements of the multiset *)
Theorem c15_slate_types : forall l,
  (forall t, In t (arrangements_ms l) <-> Permutation t l) /\ NoDup (arrangements_ms l).
Proof. intros l. split; [exact (arrangements_spec l)|exact (arrangements_NoDup l)]. Qed.
Print Assumptions c15_slate_types.

(* the model's success count is the number of (own above opp) pairs *)
Theorem c15_successes_above_pairs : forall own opp t,
  successes own opp t = above_pairs own opp t.
Proof. exact successes_above_pairs. Qed.
Print Assumptions c15_successes_above_pairs.

(* every entry of the table, any number of blocs *)
Theorem c15_slate_bt_general : forall sizes own opp c t v,
  In (t, v) (slate_bt_pdf sizes own opp c) ->
  let sample := concat (map (fun bn : bloc * nat => repeat (fst bn) (snd bn)) sizes) in
  let total := fold_right Nat.mul 1%nat (map snd sizes) in
  let w := fun t => Qpow' c (above_pairs own opp t) * Qpow' (1 - c) (total - above_pairs own opp t) in
  Permutation t sample /\ v == w t / qsum (map w (arrangements_ms sample)).
Proof.
  intros sizes own opp c t v H. cbv zeta.
  destruct (slate_entry_general sizes own opp c t v H) as [H1 H2]. split; [exact H1|].
  rewrite H2. unfold rw, to_sample, total_cmp. rewrite successes_above_pairs.
  apply Qdiv_comp; [reflexivity|]. apply Lib_sets.qsum_map_ext_in. intros t' _.
  rewrite successes_above_pairs. reflexivity.
Qed.
Print Assumptions c15_slate_bt_general.

(* S2: two blocs with a and b candidates *)
Theorem c15_slate_bt : forall (own opp : bloc) (a b : nat) (sizes : list (bloc * nat)),
  own <> opp ->
  sizes = [(own, a); (opp, b)] \/ sizes = [(opp, b); (own, a)] ->
  forall (c : Q) (all : list (list bloc)),
  enumerates all (repeat own a ++ repeat opp b) ->
  (forall t, Permutation t (repeat own a ++ repeat opp b) ->
     exists v, In (t, v) (slate_bt_pdf sizes own opp c)) /\
  (forall t v, In (t, v) (slate_bt_pdf sizes own opp c) ->
     Permutation t (repeat own a ++ repeat opp b) /\
     (above_pairs own opp t + above_pairs opp own t = a * b)%nat /\
     v == slate_weight c own opp t / qsum (map (slate_weight c own opp) all)).
Proof. exact slate_bt_two. Qed.
Print Assumptions c15_slate_bt.

Theorem c15_slate_bt_sums_to_one : forall (own opp : bloc) (a b : nat) (sizes : list (bloc * nat)),
  own <> opp ->
  sizes = [(own, a); (opp, b)] \/ sizes = [(opp, b); (own, a)] ->
  forall c : Q, 0 <= c -> c <= 1 ->
  qsum (map snd (slate_bt_pdf sizes own opp c)) == 1 /\
  (forall all, enumerates all (repeat own a ++ repeat opp b) ->
     0 < qsum (map (slate_weight c own opp) all)) /\
  NoDup (map fst (slate_bt_pdf sizes own opp c)) /\
  (forall t v, In (t, v) (slate_bt_pdf sizes own opp c) -> 0 <= v).
Proof. exact slate_bt_two_sums_to_one. Qed.
Print Assumptions c15_slate_bt_sums_to_one.

(* at the ends of the cohesion range the weight sits on the two block-sorted arrangements *)
Theorem c15_slate_extremes : forall (own opp : bloc) (a b : nat), own <> opp -> forall c : Q,
  slate_weight c own opp (repeat own a ++ repeat opp b) == Qpow' c (a * b) /\
  slate_weight c own opp (repeat opp b ++ repeat own a) == Qpow' (1 - c) (a * b).
Proof.
  intros own opp a b Hne c.
  exact (slate_weight_extremes own opp a b [(own, a); (opp, b)] Hne (or_introl eq_refl) c).
Qed.
Print Assumptions c15_slate_extremes.

(* the table sums to one whenever the normalising constant is not zero (any sizes, any c) *)
Theorem c15_slate_sum_general : forall sizes own opp c,
  let sample := concat (map (fun bn : bloc * nat => repeat (fst bn) (snd bn)) sizes) in
  let total := fold_right Nat.mul 1%nat (map snd sizes) in
  ~ qsum (map (fun t => Qpow' c (successes own opp t) * Qpow' (1 - c) (total - successes own opp t))
              (arrangements_ms sample)) == 0 ->
  qsum (map snd (slate_bt_pdf sizes own opp c)) == 1.
Proof. exact slate_sum_general. Qed.
Print Assumptions c15_slate_sum_general.

(* the model's power is the standard rational power *)
Theorem c15_Qpow'_Qpower : forall q n, Qpow' q n == q ^ Z.of_nat n.
Proof. exact Qpow'_Qpower. Qed.
Print Assumptions c15_Qpow'_Qpower.

(* ====================== non-vacuity ====================== *)
Open Scope positive_scope.

Definition ex_d3 : list (pcand * Q) := [(1, 1#2); (2, 1#3); (3, 1#6)].

(* hypotheses of c15_bt_pdf hold for ex_d3 with x = lookupP ex_d3 and the model's enumeration *)
Example c15_ex_bt_hyps :
  NoDup (map fst ex_d3) /\ (forall c s, In (c, s) ex_d3 -> (0 < s)%Q) /\
  (forall c s, In (c, s) ex_d3 -> lookupP ex_d3 c = s) /\
  enumerates (perms pcand [1; 2; 3]) (map fst ex_d3).
Proof.
  assert (Hnd : NoDup (map fst ex_d3)).
  { cbn. repeat constructor; cbn; intuition discriminate. }
  split; [exact Hnd|]. split; [|split].
  - intros c s [E|[E|[E|[]]]]; injection E as _ <-; reflexivity.
  - intros c s H. apply lookupP_spec; assumption.
  - split; [apply (C12_expand.perms_NoDup pcand); exact Hnd|].
    intros t. apply (C12_expand.perms_spec pcand).
Qed.

(* the 3-candidate table, entry by entry: explicit values ... *)
Example c15_ex_bt_table :
  bt_pdf ex_d3 =
  [([1; 2; 3], 3 # 8); ([2; 1; 3], 1 # 4); ([2; 3; 1], 1 # 12);
   ([1; 3; 2], 3 # 16); ([3; 1; 2], 1 # 16); ([3; 2; 1], 1 # 24)].
Proof. vm_compute. reflexivity. Qed.

(* ... and against the pair-product formula (whose weights sum to 4/5, not 1, before normalising) *)
Example c15_ex_bt_formula :
  let x := lookupP ex_d3 in
  let all := perms pcand [1; 2; 3] in
  bt_pdf ex_d3 = map (fun r => (r, Qred (bt_weight x r / qsum (map (bt_weight x) all)))) all /\
  Qred (qsum (map (bt_weight x) all)) = (4 # 5) /\
  Qred (bt_weight x [1; 2; 3]) = (3 # 10).
Proof. vm_compute. repeat split. Qed.

(* slate table, two blocs of two candidates, cohesion 3/4 *)
Example c15_ex_slate_table :
  slate_bt_pdf [(1, 2%nat); (2, 2%nat)] 1 2 (3 # 4) =
  [([1; 1; 2; 2], 81 # 130); ([1; 2; 1; 2], 27 # 130); ([2; 1; 1; 2], 9 # 130);
   ([1; 2; 2; 1], 9 # 130); ([2; 1; 2; 1], 3 # 130); ([2; 2; 1; 1], 1 # 130)].
Proof. vm_compute. reflexivity. Qed.

Example c15_ex_slate_formula :
  let c := (3 # 4) in
  let all := arrangements_ms [1; 1; 2; 2] in
  slate_bt_pdf [(1, 2%nat); (2, 2%nat)] 1 2 c =
    map (fun t => (t, Qred (slate_weight c 1 2 t / qsum (map (slate_weight c 1 2) all)))) all /\
  map (fun t => (above_pairs 1 2 t, above_pairs 2 1 t)) all =
    [(4, 0); (3, 1); (2, 2); (2, 2); (1, 3); (0, 4)]%nat /\
  length all = 6%nat.
Proof. vm_compute. repeat split. Qed.

(* cohesion at the ends: all weight on one arrangement, the table still sums to one *)
Example c15_ex_slate_ends :
  slate_bt_pdf [(1, 2%nat); (2, 1%nat)] 1 2 1%Q = [([1; 1; 2], 1%Q); ([1; 2; 1], 0%Q); ([2; 1; 1], 0%Q)] /\
  slate_bt_pdf [(2, 1%nat); (1, 2%nat)] 1 2 0%Q = [([2; 1; 1], 1%Q); ([1; 2; 1], 0%Q); ([1; 1; 2], 0%Q)].
Proof. vm_compute. repeat split. Qed.

(* intervals *)
Example c15_ex_interval :
  mk_interval [(1, 2 # 1); (2, 0%Q); (3, 6 # 1)] = inl (mkPI [(1, 1 # 4); (3, 3 # 4)] [2]) /\
  mk_interval [(1, 0%Q); (2, 0%Q)] = inr EZeroDiv.
Proof. vm_compute. repeat split. Qed.

Definition ex_is : list pinterval :=
  [mkPI [(1, 1 # 4); (3, 3 # 4)] [2]; mkPI [(4, 1 # 1)] []; mkPI [(5, 1 # 2); (6, 1 # 2)] [7]].
Definition ex_props : list Q := [1 # 4; 0%Q; 3 # 4].

Example c15_ex_combine_hyps :
  Forall wf_interval ex_is /\ length ex_is = length ex_props /\
  Forall (fun p => 0 <= p)%Q ex_props /\ NoDup (concat (map pi_cands ex_is)) /\
  (qsum ex_props == 1)%Q.
Proof.
  split; [|split; [reflexivity|split; [|split; [|reflexivity]]]].
  - repeat constructor; cbn [pi_int]; try reflexivity;
      intros c v H; cbn [In] in H; intuition (try match goal with E : (_, _) = (_, _) |- _ => injection E as _ <- end; reflexivity).
  - repeat constructor; discriminate.
  - apply has_dup_pos_false_iff. vm_compute. reflexivity.
Qed.

Example c15_ex_combine :
  combine_intervals ex_is ex_props =
    inl (mkPI [(1, 1 # 16); (3, 3 # 16); (5, 3 # 8); (6, 3 # 8)] [4; 2; 7]) /\
  combine_intervals ex_is [1 # 4; 1 # 4; 1 # 4] = inr EValue /\
  combine_intervals (ex_is ++ [mkPI [(1, 1 # 1)] []]) (ex_props ++ [0%Q]) = inr EValue.
Proof. vm_compute. repeat split. Qed.
