(* Properties/C03.v — surplus transfers (this part) and STV rounds (section at the end, to be
   filled in) conserve votes.  Statements only; proofs are in Proofs/C03_transfer.v.
   Spec vocabulary (Spec/EditSpec.v):
     wtof_rk r bs      weight carried by ranking r in bs (groups compared as sets)
     wt_where p bs     summed weight of the ballots of bs passing test p
     sum_where f p bs  summed value of f over the ballots of bs passing test p
     maps_to rem r' b  := ranking_eqb r' (strip rem (rk b))
     exhausted rem b   := negb (nonempty (strip rem (rk b)))
     score_free bs     every ballot has no scores;  all_pos bs  every weight is > 0
   "b is led by w" is the model's [first_is w b] (first position is the set {w}). *)
From VK Require Import Base Core STV EditSpec Lib_rk Lib_condense12 C12_edit C03_transfer.
From Coq Require Import Permutation.

Section C03.
Variable cand : Type.
Variable ceqb : cand -> cand -> bool.
Hypothesis ceqb_spec : forall a b, reflect (a = b) (ceqb a b).

Notation ranking := (ranking cand).
Notation ballot := (ballot cand).
Notation ranking_eqb := (ranking_eqb cand ceqb).
Notation flat := (flat cand).
Notation strip := (strip cand ceqb).
Notation pos_wt := (pos_wt cand).
Notation first_is := (first_is cand ceqb).
Notation total_wt := (total_wt cand).
Notation wtof_rk := (wtof_rk cand ceqb).
Notation wt_where := (wt_where cand).
Notation sum_where := (sum_where cand).
Notation maps_to := (maps_to cand ceqb).
Notation exhausted := (exhausted cand ceqb).
Notation score_free := (score_free cand).
Notation all_pos := (all_pos cand).
Notation frac_transfer := (frac_transfer cand ceqb).
Notation rand_transfer := (rand_transfer cand ceqb).
Notation full_transfer := (full_transfer cand ceqb).
Notation count_rk := (count_rk cand ceqb).

(* ---------- fractional transfer ---------- *)

(* The output never mentions the winner; every output ranking IS the winner-stripped ranking of
   an input ballot (so the other candidates keep their relative order and grouping, see
   c12_strip_order) whose stripped ranking is non-empty and whose transferred weight is positive;
   output ballots are non-empty, of positive weight and score-free. *)
Theorem c03_frac_no_winner : forall w fpv bs t out,
  frac_transfer w fpv bs t = inl out ->
  forall k, In k out ->
    ~ In w (flat (rk k)) /\ rk k <> [] /\ 0 < wt k /\ sc k = [] /\
    exists b, In b bs /\ rk k = strip [w] (rk b) /\
              0 < (if first_is w b then wt b * ((fpv - t) / fpv) else wt b).
Proof. exact (frac_no_winner cand ceqb ceqb_spec). Qed.

Theorem c03_frac_all_represented : forall w fpv bs t out,
  frac_transfer w fpv bs t = inl out ->
  forall b, In b bs -> strip [w] (rk b) <> [] ->
    0 < (if first_is w b then wt b * ((fpv - t) / fpv) else wt b) ->
    exists k, In k out /\ ranking_eqb (rk k) (strip [w] (rk b)) = true.
Proof. exact (frac_all_represented cand ceqb ceqb_spec). Qed.

(* any weights, any fpv <> 0, any t: ballots whose transferred weight is <= 0 are dropped *)
Theorem c03_frac_weights_gen : forall w fpv bs t out r',
  frac_transfer w fpv bs t = inl out -> nonempty r' = true ->
  wtof_rk r' out ==
  sum_where (fun b => if first_is w b then wt b * ((fpv - t) / fpv) else wt b)
            (fun b => maps_to [w] r' b &&
                      Qlt_bool 0 (if first_is w b then wt b * ((fpv - t) / fpv) else wt b)) bs.
Proof. exact (frac_weights_gen cand ceqb ceqb_spec). Qed.

(* positive weights, tally fpv above the threshold t: each continuing ranking carries exactly
   weight*(tally-threshold)/tally from the winner's ballots, plus the untouched other ballots *)
Theorem c03_frac_weights : forall w fpv bs t out r',
  frac_transfer w fpv bs t = inl out -> all_pos bs -> 0 < fpv -> t < fpv ->
  nonempty r' = true ->
  wtof_rk r' out ==
    sum_where (fun b => wt b * ((fpv - t) / fpv)) (fun b => first_is w b && maps_to [w] r' b) bs
  + wt_where (fun b => negb (first_is w b) && maps_to [w] r' b) bs.
Proof. exact (frac_weights cand ceqb ceqb_spec). Qed.

Theorem c03_frac_weights_scaled : forall (k : Q) (p : ballot -> bool) bs,
  sum_where (fun b => wt b * k) p bs == k * wt_where p bs.
Proof. exact (sum_where_scale cand). Qed.

(* no surplus (tally <= threshold): the winner's ballots vanish *)
Theorem c03_frac_weights_no_surplus : forall w fpv bs t out r',
  frac_transfer w fpv bs t = inl out -> all_pos bs -> 0 < fpv -> fpv <= t ->
  nonempty r' = true ->
  wtof_rk r' out == wt_where (fun b => negb (first_is w b) && maps_to [w] r' b) bs.
Proof. exact (frac_weights_no_surplus cand ceqb ceqb_spec). Qed.

Theorem c03_frac_errors : forall w fpv bs t,
  (frac_transfer w fpv bs t = inr EZeroDiv <-> fpv == 0) /\
  (frac_transfer w fpv bs t = inr EType <-> (~ fpv == 0 /\ exists b, In b bs /\ rk b = [])) /\
  (forall e, frac_transfer w fpv bs t = inr e -> e = EZeroDiv \/ e = EType).
Proof. exact (frac_errors cand ceqb). Qed.

(* ---------- random (Cambridge) transfer ---------- *)

(* One draw (DRanks l) is consumed; l has exactly int(fpv) - int(t) rankings; each of them is the
   stripped ranking of a transferable ballot of the winner; a ranking is drawn at most as many
   times as the winner's ballots carry it; the output is the other ballots plus the drawn ones;
   the winner is never mentioned. *)
Theorem c03_rand_submultiset : forall w fpv bs t s out s',
  rand_transfer w fpv bs t s = inl (out, s') ->
  exists l,
    scr s = DRanks l :: scr s' /\
    Z.of_nat (length l) = (Qtrunc fpv - Qtrunc t)%Z /\
    (forall r, In r l ->
       exists b, In b bs /\ first_is w b = true /\ strip [w] (rk b) <> [] /\
                 ranking_eqb r (strip [w] (rk b)) = true) /\
    (forall r, In r l ->
       inject_Z (count_rk r l) <= wt_where (fun b => first_is w b && maps_to [w] r b) bs) /\
    (forall r', nonempty r' = true ->
       wtof_rk r' out ==
       inject_Z (count_rk r' l) +
       wt_where (fun b => negb (first_is w b) && maps_to [w] r' b && pos_wt b) bs) /\
    (forall k, In k out -> ~ In w (flat (rk k))).
Proof. exact (rand_submultiset cand ceqb ceqb_spec). Qed.

(* the population handed to random.sample: (stripped ranking, weight) of each transferable ballot
   of the winner, in ballot order, and k = int(fpv) - int(t) *)
Theorem c03_rand_population : forall w fpv bs t s out s',
  rand_transfer w fpv bs t s = inl (out, s') ->
  lg s' = CSampleBallots
            (map (fun b => (strip [w] (rk b), wt b))
                 (filter (fun b => first_is w b && nonempty (strip [w] (rk b))) bs))
            (Qtrunc fpv - Qtrunc t) :: lg s.
Proof. exact (rand_population cand ceqb). Qed.

(* closed form, from which the error behaviour can be read off: TypeError first (any ballot with
   a non-integral weight or no ranking), then ValueError when the sample size is negative or
   exceeds the transferable units (the reproduced `random.sample` shortage), then the draw *)
Theorem c03_rand_transfer_eq : forall w fpv bs t s,
  rand_transfer w fpv bs t s =
  if existsb (fun b => negb (is_integral (wt b)) || negb (nonempty (rk b))) bs then inr EType
  else
    let k := (Qtrunc fpv - Qtrunc t)%Z in
    let pop := map (fun b => (strip [w] (rk b), wt b))
                   (filter (fun b => first_is w b && nonempty (strip [w] (rk b))) bs) in
    let avail := fold_right Z.add 0%Z
                   (map (fun b => Qtrunc (wt b))
                        (filter (fun b => first_is w b && nonempty (strip [w] (rk b))) bs)) in
    if ((k <? 0) || (avail <? k))%Z then inr EValue
    else match scr s with
         | DRanks l :: rest =>
             if valid_ballot_sample cand ceqb pop k l
             then inl (condense_bs cand ceqb
                         (filter (keep_ballot cand)
                            (map (fun b => mkBallot (strip [w] (rk b)) (wt b) [] (bid b) (vs b))
                                 (filter (fun b => negb (first_is w b)) bs)
                             ++ map (fun r => plain_ballot cand r 1) l)),
                       mkM rest (CSampleBallots pop k :: lg s))
             else inr EScript
         | _ => inr EScript
         end.
Proof. exact (rand_transfer_eq cand ceqb). Qed.

Theorem c03_rand_errors : forall w fpv bs t s,
  (rand_transfer w fpv bs t s = inr EType <->
     exists b, In b bs /\ (is_integral (wt b) = false \/ rk b = [])) /\
  (rand_transfer w fpv bs t s = inr EValue <->
     (forall b, In b bs -> is_integral (wt b) = true /\ rk b <> []) /\
     (Qtrunc fpv - Qtrunc t < 0 \/
      fold_right Z.add 0%Z
        (map (fun b => Qtrunc (wt b))
             (filter (fun b => first_is w b && nonempty (strip [w] (rk b))) bs))
      < Qtrunc fpv - Qtrunc t)%Z) /\
  (forall e, rand_transfer w fpv bs t s = inr e -> e = EType \/ e = EValue \/ e = EScript).
Proof. exact (rand_errors cand ceqb). Qed.

(* ---------- full-weight transfer (SequentialRCV) = remove_cand [w], condensed ---------- *)

Theorem c03_full_weights : forall w bs out r',
  full_transfer w bs = inl out -> score_free bs -> all_pos bs -> nonempty r' = true ->
  wtof_rk r' out == wt_where (maps_to [w] r') bs.
Proof. exact (full_weights cand ceqb ceqb_spec). Qed.

Theorem c03_full_loss : forall w bs out,
  full_transfer w bs = inl out -> score_free bs -> all_pos bs ->
  total_wt bs - total_wt out == wt_where (exhausted [w]) bs.
Proof. exact (full_loss cand ceqb). Qed.

Theorem c03_full_no_winner : forall w bs out k,
  full_transfer w bs = inl out -> In k out -> ~ In w (flat (rk k)).
Proof. exact (full_no_winner cand ceqb ceqb_spec). Qed.

Theorem c03_full_never_fails : forall w bs, exists out, full_transfer w bs = inl out.
Proof. exact (full_never_fails cand ceqb). Qed.

End C03.

Print Assumptions c03_frac_no_winner.
Print Assumptions c03_frac_all_represented.
Print Assumptions c03_frac_weights_gen.
Print Assumptions c03_frac_weights.
Print Assumptions c03_frac_weights_scaled.
Print Assumptions c03_frac_weights_no_surplus.
Print Assumptions c03_frac_errors.
Print Assumptions c03_rand_submultiset.
Print Assumptions c03_rand_population.
Print Assumptions c03_rand_transfer_eq.
Print Assumptions c03_rand_errors.
Print Assumptions c03_full_weights.
Print Assumptions c03_full_loss.
Print Assumptions c03_full_no_winner.
Print Assumptions c03_full_never_fails.

(* ---------- non-vacuity: concrete inputs (cand := positive) ---------- *)
Section Examples.
Local Open Scope positive_scope.
Let pb (r : list (list positive)) (w : Q) : Core.ballot positive := plain_ballot positive r w.

(* winner 1 with tally 6, threshold 4: a bullet vote, two ballots merging after the transfer, and
   a ballot not led by the winner *)
Let pile1 : list (Core.ballot positive) :=
  [pb [[1];[2];[3]] 3; pb [[1]] 1; pb [[1];[2]] 2; pb [[2];[1];[3]] 5].

Example c03_ex_frac :
  all_pos positive pile1 /\
  exists out, STV.frac_transfer positive Pos.eqb 1 6 pile1 4 = inl out /\
    length out = 2%nat /\
    wtof_rk positive Pos.eqb [[2];[3]] out == 6 /\       (* 3 * (2/6) + 5 *)
    wtof_rk positive Pos.eqb [[2]] out == (2#3).        (* 2 * (2/6) *)
Proof. split; [repeat constructor|]. eexists. repeat split; vm_compute; reflexivity. Qed.

Example c03_ex_frac_errors :
  STV.frac_transfer positive Pos.eqb 1 0 pile1 4 = inr EZeroDiv /\
  STV.frac_transfer positive Pos.eqb 1 6 (pb [] 1 :: pile1) 4 = inr EType.
Proof. split; vm_compute; reflexivity. Qed.

Example c03_ex_rand :
  exists out s',
    STV.rand_transfer positive Pos.eqb 1 6 pile1 4
       (mkM [DRanks [[[2];[3]]; [[2]]]] []) = inl (out, s') /\
    scr s' = [] /\
    lg s' = [CSampleBallots [([[2];[3]], 3%Q); ([[2]], 2%Q)] 2%Z] /\
    wtof_rk positive Pos.eqb [[2];[3]] out == 6 /\       (* one drawn + the 5 untouched *)
    wtof_rk positive Pos.eqb [[2]] out == 1.
Proof. eexists. eexists. repeat split; vm_compute; reflexivity. Qed.

(* the reproduced shortage: tally 6, threshold 0, only 5 transferable units *)
Example c03_ex_rand_shortage :
  STV.rand_transfer positive Pos.eqb 1 6 pile1 0 (mkM [DRanks []] []) = inr EValue.
Proof. vm_compute. reflexivity. Qed.

Example c03_ex_full :
  score_free positive pile1 /\ all_pos positive pile1 /\
  exists out, STV.full_transfer positive Pos.eqb 1 pile1 = inl out /\
    wtof_rk positive Pos.eqb [[2];[3]] out == 8 /\
    total_wt positive pile1 - total_wt positive out == 1.
Proof.
  split; [repeat constructor|]. split; [repeat constructor|].
  eexists. repeat split; vm_compute; reflexivity.
Qed.

End Examples.

(* ====================================================================================== *)
(* ====== STV ROUNDS (c03_stv_monotone, c03_stv_accounting, ...): TO BE ADDED BELOW ====== *)
(* ====================================================================================== *)
