(* Properties/C17_brd.v — C17, BoostedRandomDictator beyond one step.  Statements only; proofs are in
   Proofs/C17_brd.v (on top of Proofs/C17_laws.v and Proofs/Dist.v).  Vocabulary in Spec/BRDSpec.v:
   [brd_next] (the update between two seats, exactly what [elect_one] computes: remove the winner
   with condensing, then re-tally first places), [law_brd_sequence] / [law_brd_run] (the iterated
   one-step law [law_brd_winner] of Model/Laws.v, the score list threaded as the run threads
   [escores prev]), the closed forms [brd_lambda], [brd_closed_form], [sq_share_form],
   [brd_share_form], the products [brd_path_prob], [brd_share_path], the domains [brd_domain],
   [brd_path_ok], [brd_support], [brd_tree_ok], the checkable condition [brd_seats_ok], and the
   run vocabulary [dict_chain], [tally_linked].

   Part S: the multi-seat law.  Part L: the score list the one-step law takes IS, in every state a
   run of [run_dictator] produces, the first-place tally of the current profile; the one-step law
   restated with that instance, the squares branch being the squares of the current first-place
   shares.

   The cases c = 1 and c = 2 of lambda = 1/(c-1): with one candidate left neither Python nor the
   model evaluates 1/(c-1) (the candidate is elected outright: [c17_brd_single] in Properties/C17.v,
   first case of [brd_closed_form] here); with two, lambda = 1 and the step is the pure squares
   rule ([c17_brd_two_candidates]).

   Trusted, not proved: the laws of the primitives, as in Properties/C17.v. *)
From VK Require Import Base Core STV Rules Laws.
From VK.Spec Require Import ScoreSpec EditSpec LawSpec BRDSpec RunSpec.
From VK.Proofs Require Import Lib_sets Dist C17_laws C17_brd.
From Coq Require Import Permutation Lia.

Section C17B.
Variable cand : Type.
Variable ceqb : cand -> cand -> bool.
Hypothesis ceqb_spec : forall a b, reflect (a = b) (ceqb a b).

Notation profile := (profile cand).
Notation scores := (scores cand).
Notation mstate := (mstate cand).
Notation estate := (estate cand).
Notation total_wt := (total_wt cand).
Notation law_brd_winner := (law_brd_winner cand).
Notation law_brd_sequence := (law_brd_sequence cand ceqb).
Notation law_brd_run := (law_brd_run cand ceqb).
Notation rd_closed_form := (rd_closed_form cand ceqb).
Notation squares_closed_form := (squares_closed_form cand ceqb).
Notation list_eqb := (list_eqb cand ceqb).
Notation remove_cand_prof := (remove_cand_prof cand ceqb).
Notation first_place_votes := (first_place_votes cand ceqb).
Notation wf_profile := (wf_profile cand).
Notation rd_step := (rd_step cand ceqb).
Notation brd_step := (brd_step cand ceqb).
Notation brd_next := (brd_next cand ceqb).
Notation brd_lambda := (brd_lambda cand).
Notation brd_closed_form := (brd_closed_form cand ceqb).
Notation sq_share_form := (sq_share_form cand ceqb).
Notation brd_share_path := (brd_share_path cand ceqb).
Notation brd_path_prob := (brd_path_prob cand ceqb).
Notation brd_domain := (brd_domain cand).
Notation brd_path_ok := (brd_path_ok cand ceqb).
Notation brd_support := (brd_support cand).
Notation brd_tree_ok := (brd_tree_ok cand ceqb).
Notation brd_seats_ok := (brd_seats_ok cand).
Notation dict_chain := (dict_chain cand ceqb).
Notation tally_linked := (tally_linked cand ceqb).

(* ================================================================== *)
(** * S. Multi-seat BoostedRandomDictator *)

(* one step over its whole domain (one candidate left, or at least two): total mass 1 and every
   candidate is elected with the closed-form probability — 1 for the only candidate, otherwise
   lambda * d_w^2 / sum_i d_i^2 + (1 - lambda) * (first-place share of w), lambda = 1/(c-1) *)
Theorem c17_brd_step_closed : forall (p : profile) (d : scores), brd_domain p d ->
  mass (law_brd_winner p d) == 1 /\
  forall w, prob (ceqb w) (law_brd_winner p d) == brd_closed_form p d w.
Proof. exact (brd_step_closed cand ceqb ceqb_spec). Qed.

(* who can be elected by one step *)
Theorem c17_brd_step_support : forall (p : profile) (d : scores) w q,
  In (w, q) (law_brd_winner p d) -> brd_support p d w.
Proof. exact (law_brd_winner_support cand). Qed.

(* the recursive equation of the law of the sequence of winners (no hypothesis): first seat by the
   one-step law, the rest from the profile with the winner removed and ITS first-place tally *)
Theorem c17_brd_multiseat : forall k (p : profile) (d : scores) w ws,
  prob (list_eqb (w :: ws)) (law_brd_sequence (S k) p d) ==
  prob (ceqb w) (law_brd_winner p d) *
  match brd_next w p with
  | inl (np, d') => prob (list_eqb ws) (law_brd_sequence k np d')
  | inr _ => 0
  end.
Proof. exact (brd_sequence_rec cand ceqb ceqb_spec). Qed.

(* P(w1, ..., wk) = prod_i brd_closed_form p_i d_i w_i, with (p_{i+1}, d_{i+1}) = brd_next w_i p_i:
   the number of candidates, hence lambda, changes from seat to seat *)
Theorem c17_brd_multiseat_path : forall ws (p : profile) (d : scores), brd_path_ok ws p d ->
  prob (list_eqb ws) (law_brd_sequence (length ws) p d) == brd_path_prob ws p d.
Proof. exact (brd_sequence_path cand ceqb ceqb_spec). Qed.

(* total mass 1 under the invariant that every reachable (profile, score list) stays in the
   domain of a step and the update between seats never fails *)
Theorem c17_brd_multiseat_mass : forall k (p : profile) (d : scores), brd_tree_ok k p d ->
  mass (law_brd_sequence k p d) == 1.
Proof. exact (brd_sequence_mass cand ceqb ceqb_spec). Qed.

(* under the checkable condition the update between seats never fails, whoever is elected, and the
   condition holds again with one seat less *)
Theorem c17_brd_seats_step : forall k (p : profile) w, brd_seats_ok (S k) p ->
  exists np d', brd_next w p = inl (np, d') /\ brd_seats_ok k np.
Proof. exact (seats_ok_step cand ceqb ceqb_spec). Qed.

(* the invariant holds, from the first-place tally of the initial profile, when the profile is
   well formed, score-free, with positive weights, and every ballot ranks at least k candidates *)
Theorem c17_brd_multiseat_invariant : forall k (p : profile) (d : scores),
  brd_seats_ok k p -> first_place_votes p = inl d -> brd_tree_ok k p d.
Proof. exact (seats_ok_brd_tree cand ceqb ceqb_spec). Qed.

Theorem c17_brd_multiseat_mass_seats : forall k (p : profile), brd_seats_ok k p ->
  mass (law_brd_run k p) == 1.
Proof. exact (brd_run_mass_seats cand ceqb ceqb_spec). Qed.

(* the law of the whole run written with first-place shares of the successive profiles only:
   P(w1, ..., wk) = prod_i [ lambda_i * share_i(w_i)^2 / sum_c share_i(c)^2
                             + (1 - lambda_i) * share_i(w_i) ]   (1 if w_i is the only one left) *)
Theorem c17_brd_multiseat_shares : forall ws (p : profile), brd_seats_ok (length ws) p ->
  prob (list_eqb ws) (law_brd_run (length ws) p) == brd_share_path ws p.
Proof. exact (brd_run_share_path cand ceqb ceqb_spec). Qed.

(* electing a listed candidate (at least two left) leaves exactly one candidate less, so the
   next seat mixes with 1/(c-2) *)
Theorem c17_brd_seat_candidates : forall (p np : profile) w, NoDup (cands p) -> In w (cands p) ->
  (2 <= length (cands p))%nat -> remove_cand_prof [w] true false p = inl np ->
  length (cands p) = S (length (cands np)) /\
  brd_lambda np == 1 / (Qnat (length (cands p)) - 2).
Proof.
  intros p np w Hnd Hw Hlen H. split.
  - exact (brd_next_cands cand ceqb ceqb_spec p np w Hnd Hw Hlen H).
  - exact (brd_next_lambda cand ceqb ceqb_spec p np w Hnd Hw Hlen H).
Qed.

(* two candidates left: lambda = 1, the step is the pure proportional-to-squares rule *)
Theorem c17_brd_two_candidates : forall (p : profile) (d : scores) w, length (cands p) = 2%nat ->
  brd_lambda p == 1 /\ brd_closed_form p d w == squares_closed_form d w.
Proof. exact (brd_two_cands cand ceqb). Qed.

(* ================================================================== *)
(** * L. The score list of the law is the first-place tally of the current profile *)

(* the round-0 state of a dictator run carries the first-place tally of the input profile *)
Theorem c17_brd_escores_init : forall (p : profile) (s0 : estate),
  round0 cand ceqb SKFpv p = inl s0 -> first_place_votes p = inl (escores s0).
Proof. exact (round0_escores cand ceqb). Qed.

(* every successful step returns the new profile together with a state whose [escores] is the
   first-place tally of that new profile (no hypothesis on the input) *)
Theorem c17_brd_escores_step : forall (p : profile) (prev : estate) (st st' : mstate) np e,
  brd_step p prev st = inl ((np, e), st') -> first_place_votes np = inl (escores e).
Proof. exact (brd_step_escores cand ceqb). Qed.

Theorem c17_rd_escores_step : forall (p : profile) (prev : estate) (st st' : mstate) np e,
  rd_step p prev st = inl ((np, e), st') -> first_place_votes np = inl (escores e).
Proof. exact (rd_step_escores cand ceqb). Qed.

(* a whole run: the states are the round-0 state s0 of the input profile followed by the states of
   a chain of steps started from (p, s0); the pair (p, s0) and every (profile, state) pair of the
   chain — i.e. every (profile, previous state) a step is ever called with — is linked *)
Theorem c17_brd_escores_run : forall (boosted : bool) m (p : profile) (st st' : mstate) sts,
  run_dictator cand ceqb boosted m p st = inl (sts, st') ->
  exists s0 chain,
    sts = s0 :: map snd chain /\ tally_linked (p, s0) /\
    dict_chain boosted p s0 st chain st' /\ Forall tally_linked chain.
Proof. exact (run_dictator_linked cand ceqb). Qed.

(* on the first-place tally the squares rule is the squares of the first-place shares *)
Theorem c17_brd_squares_of_shares : forall (p : profile) (d : scores) x, wf_profile p ->
  first_place_votes p = inl d -> (1 <= length (cands p))%nat -> 0 < total_wt (ballots p) ->
  squares_closed_form d x == sq_share_form p x.
Proof. exact (squares_fpv_shares cand ceqb ceqb_spec). Qed.

(* the one-step law as the run uses it: the score list is [escores prev], the first-place tally
   of the current profile; c >= 2 candidates, lambda = 1/(c-1):
   P(x) = lambda * share(x)^2 / sum_c share(c)^2 + (1 - lambda) * share(x) *)
Theorem c17_brd_step_run : forall (p : profile) (prev : estate) x, wf_profile p ->
  first_place_votes p = inl (escores prev) ->
  (2 <= length (cands p))%nat -> 0 < total_wt (ballots p) ->
  let lam := 1 / (Qnat (length (cands p)) - 1) in
  mass (law_brd_winner p (escores prev)) == 1 /\
  prob (ceqb x) (law_brd_winner p (escores prev)) ==
    lam * sq_share_form p x + (1 - lam) * rd_closed_form p x.
Proof.
  intros p prev x Hwf Hd Hn Ht lam.
  destruct (brd_step_run_law cand ceqb ceqb_spec p (escores prev) Hwf Hd Hn Ht) as [Hm Hp].
  split; [exact Hm|exact (Hp x)].
Qed.

(* numpy raises "probabilities contain NaN" (model: EValue) when the total weight is 0 or when the
   normaliser of the squares, [squares_mass (escores prev) total], is 0.  On the first-place tally
   of a valid profile with a positive total weight the normaliser is not 0 ... *)
Theorem c17_brd_squares_mass_nonzero : forall (p : profile) (d : scores), wf_profile p ->
  first_place_votes p = inl d -> 0 < total_wt (ballots p) ->
  ~ squares_mass cand d (total_wt (ballots p)) == 0.
Proof. exact (fpv_squares_mass_nonzero cand ceqb ceqb_spec). Qed.

(* ... so from a linked state (every state a run passes to a step: c17_brd_escores_run,
   c01_dictator_errors) a failing boosted step fails with IndexError (no ballot left), ValueError
   (total weight not positive) or EScript, as before the normaliser test was modelled ... *)
Theorem c17_brd_step_errors_linked : forall (p : profile) (prev : estate) (s : mstate) e,
  ranked_profile cand p -> first_place_votes p = inl (escores prev) ->
  brd_step p prev s = inr e ->
  (e = EIndex /\ ballots p = []) \/ (e = EValue /\ total_wt (ballots p) <= 0) \/ e = EScript.
Proof. exact (brd_step_errors_linked cand ceqb ceqb_spec). Qed.

(* ... and a failing boosted run: seat count out of range, or one of these three on a reduced
   profile *)
Theorem c17_brd_run_errors_linked : forall m (p : profile) (s : mstate) e,
  ranked_profile cand p -> run_dictator cand ceqb true m p s = inr e ->
  (e = EValue /\ ~ (1 <= m <= Z.of_nat (length (cands p)))%Z) \/
  (exists cur : profile, ranked_profile cand cur /\ incl (cands cur) (cands p) /\
     ((e = EIndex /\ ballots cur = []) \/ (e = EValue /\ total_wt (ballots cur) <= 0) \/
      e = EScript)).
Proof. exact (brd_run_errors_linked cand ceqb ceqb_spec). Qed.

End C17B.

Print Assumptions c17_brd_squares_mass_nonzero.
Print Assumptions c17_brd_step_errors_linked.
Print Assumptions c17_brd_run_errors_linked.
Print Assumptions c17_brd_step_closed.
Print Assumptions c17_brd_step_support.
Print Assumptions c17_brd_multiseat.
Print Assumptions c17_brd_multiseat_path.
Print Assumptions c17_brd_multiseat_mass.
Print Assumptions c17_brd_seats_step.
Print Assumptions c17_brd_multiseat_invariant.
Print Assumptions c17_brd_multiseat_mass_seats.
Print Assumptions c17_brd_multiseat_shares.
Print Assumptions c17_brd_seat_candidates.
Print Assumptions c17_brd_two_candidates.
Print Assumptions c17_brd_escores_init.
Print Assumptions c17_brd_escores_step.
Print Assumptions c17_rd_escores_step.
Print Assumptions c17_brd_escores_run.
Print Assumptions c17_brd_squares_of_shares.
Print Assumptions c17_brd_step_run.

(* ================================================================== *)
(** * Non-vacuity: concrete inputs (cand := positive) *)
Module C17BrdExamples.
Open Scope positive_scope.

Definition B (r : list (list positive)) (w : Q) : ballot positive := mkBallot r w [] None None.
Definition probc (c : positive) (d : dist positive) : Q := prob (Pos.eqb c) d.
Definition probl (l : list positive) (d : dist (list positive)) : Q :=
  prob (list_eqb positive Pos.eqb l) d.
Definition fpv_of (p : profile positive) : scores positive :=
  match first_place_votes positive Pos.eqb p with inl d => d | inr _ => [] end.
Definition after (w : positive) (p : profile positive) : profile positive :=
  match remove_cand_prof positive Pos.eqb [w] true false p with inl np => np | inr _ => p end.

Ltac nodup := repeat constructor; cbn; intuition discriminate.
Ltac conjs := repeat match goal with |- _ /\ _ => split end.
(* rational equalities are decided through Qeq_bool, so that no large numeral is ever printed *)
Ltac qdec := match goal with
  | |- _ == _ => apply Qeq_bool_eq; vm_compute; reflexivity
  | |- _ => vm_compute; reflexivity
  end.
Ltac groups_ok := repeat (constructor; try discriminate).
Ltac wf_rk := split; [discriminate|split; [groups_ok|split; [nodup|intros x Hx; cbn in *; intuition]]].

(* four candidates, a tied first place, rational weights; total weight 5.
   first-place tallies (ties split): 1 -> 3/4, 2 -> 3/4 + 2 = 11/4, 3 -> 1/2, 4 -> 1;
   shares 3/20, 11/20, 1/10, 1/5; sum of squared tallies 150/16; lambda = 1/3 *)
Definition p4 : profile positive :=
  mkProfile [B [[1;2];[3];[4]] (3#2); B [[2];[1];[3]] 2; B [[3];[1;2]] (1#2); B [[4];[3];[2]] 1]
            [1;2;3;4].

Example c17_ex_brd_seats_ok : brd_seats_ok positive 3 p4.
Proof.
  split; [|split; [|split]].
  - split; [nodup|]. constructor; [wf_rk|]. constructor; [wf_rk|]. constructor; [wf_rk|].
    constructor; [wf_rk|]. constructor.
  - repeat constructor.
  - repeat (constructor; [split; [reflexivity|cbn; lia]|]). constructor.
  - intros _. discriminate.
Qed.

Example c17_ex_brd_tally :
  first_place_votes positive Pos.eqb p4 = inl (fpv_of p4) /\
  map fst (fpv_of p4) = [1;2;3;4] /\
  lookup0 positive Pos.eqb 1 (fpv_of p4) == 3 # 4 /\
  lookup0 positive Pos.eqb 2 (fpv_of p4) == 11 # 4 /\
  lookup0 positive Pos.eqb 3 (fpv_of p4) == 1 # 2 /\
  lookup0 positive Pos.eqb 4 (fpv_of p4) == 1 /\
  total_wt positive (ballots p4) == 5 /\
  brd_lambda positive p4 == 1 # 3.
Proof. conjs; qdec. Qed.

(* one step on the tally: law computed numerically vs the closed forms *)
Example c17_ex_brd_step :
  brd_domain positive p4 (fpv_of p4) /\
  mass (law_brd_winner positive p4 (fpv_of p4)) == 1 /\
  squares_closed_form positive Pos.eqb (fpv_of p4) 2 == 121 # 150 /\
  sq_share_form positive Pos.eqb p4 2 == 121 # 150 /\
  rd_closed_form positive Pos.eqb p4 2 == 11 # 20 /\
  probc 2 (law_brd_winner positive p4 (fpv_of p4)) == (1#3) * (121 # 150) + (2#3) * (11 # 20) /\
  probc 2 (law_brd_winner positive p4 (fpv_of p4)) == 143 # 225 /\
  probc 1 (law_brd_winner positive p4 (fpv_of p4)) == (1#3) * (9 # 150) + (2#3) * (3 # 20) /\
  probc 3 (law_brd_winner positive p4 (fpv_of p4)) == (1#3) * (4 # 150) + (2#3) * (1 # 10) /\
  probc 4 (law_brd_winner positive p4 (fpv_of p4)) == (1#3) * (16 # 150) + (2#3) * (1 # 5).
Proof.
  split.
  - apply (fpv_brd_domain positive Pos.eqb Pos.eqb_spec);
      [exact (proj1 c17_ex_brd_seats_ok)|reflexivity|cbn; lia|reflexivity].
  - conjs; qdec.
Qed.

(* after electing 2: three candidates, lambda = 1/2, tallies 1 -> 7/2, 3 -> 1/2, 4 -> 1;
   after electing 2 then 1: two candidates, lambda = 1, tallies 3 -> 4, 4 -> 1 *)
Example c17_ex_brd_next :
  brd_next positive Pos.eqb 2 p4 = inl (after 2 p4, fpv_of (after 2 p4)) /\
  cands (after 2 p4) = [1;3;4] /\
  total_wt positive (ballots (after 2 p4)) == 5 /\
  lookup0 positive Pos.eqb 1 (fpv_of (after 2 p4)) == 7 # 2 /\
  lookup0 positive Pos.eqb 3 (fpv_of (after 2 p4)) == 1 # 2 /\
  lookup0 positive Pos.eqb 4 (fpv_of (after 2 p4)) == 1 /\
  brd_lambda positive (after 2 p4) == 1 # 2 /\
  cands (after 1 (after 2 p4)) = [3;4] /\
  brd_lambda positive (after 1 (after 2 p4)) == 1 /\
  lookup0 positive Pos.eqb 3 (fpv_of (after 1 (after 2 p4))) == 4 /\
  lookup0 positive Pos.eqb 4 (fpv_of (after 1 (after 2 p4))) == 1.
Proof. conjs; qdec. Qed.

(* two and three seats: total mass 1; sequence probabilities = products of the per-seat closed
   forms with lambda = 1/3, 1/2, 1:
     P(2 first)      = 1/3 * 121/150 + 2/3 * 11/20 = 143/225
     P(1 | 2)        = 1/2 * 49/54 + 1/2 * 7/10    = 217/270
     P(3 | 2, 1)     = 16/17  (pure squares)
     P(4 first)      = 1/3 * 16/150 + 2/3 * 1/5    = 38/225
     P(3 | 4)        = 1/2 * 36/166 + 1/2 * 3/10
                       (tallies after 4: 1 -> 3/4, 2 -> 11/4, 3 -> 3/2; squares 9, 121, 36 over 16) *)
Example c17_ex_brd_multiseat :
  mass (law_brd_run positive Pos.eqb 2 p4) == 1 /\
  mass (law_brd_run positive Pos.eqb 3 p4) == 1 /\
  probl [2;1] (law_brd_run positive Pos.eqb 2 p4) == (143 # 225) * (217 # 270) /\
  probl [2;1] (law_brd_run positive Pos.eqb 2 p4) == brd_share_path positive Pos.eqb [2;1] p4 /\
  probl [2;1] (law_brd_run positive Pos.eqb 2 p4) ==
    brd_path_prob positive Pos.eqb [2;1] p4 (fpv_of p4) /\
  probl [2;1;3] (law_brd_run positive Pos.eqb 3 p4) == (143 # 225) * (217 # 270) * (16 # 17) /\
  probl [2;1;4] (law_brd_run positive Pos.eqb 3 p4) == (143 # 225) * (217 # 270) * (1 # 17) /\
  probl [4;3] (law_brd_run positive Pos.eqb 2 p4) ==
    (38 # 225) * ((1#2) * (36 # 166) + (1#2) * (3 # 10)) /\
  probl [2;2] (law_brd_run positive Pos.eqb 2 p4) == 0.
Proof.
  split; [qdec|]. split.
  - (* three seats: by the theorem, the condition having been checked above *)
    exact (c17_brd_multiseat_mass_seats positive Pos.eqb Pos.eqb_spec 3 p4 c17_ex_brd_seats_ok).
  - conjs; qdec.
Qed.

Example c17_ex_brd_path_ok : brd_path_ok positive Pos.eqb [2;1] p4 (fpv_of p4).
Proof.
  assert (H2 : brd_seats_ok positive 2 (after 2 p4)).
  { destruct (seats_ok_step positive Pos.eqb Pos.eqb_spec 2 p4 2 c17_ex_brd_seats_ok)
      as (np & d' & Hn & Hok).
    assert (E : np = after 2 p4).
    { rewrite (proj1 c17_ex_brd_next) in Hn. injection Hn as <- _. reflexivity. }
    rewrite <- E. exact Hok. }
  cbn [brd_path_ok]. split.
  - exact (proj1 c17_ex_brd_step).
  - rewrite (proj1 c17_ex_brd_next). split.
    + apply (fpv_brd_domain positive Pos.eqb Pos.eqb_spec);
        [exact (proj1 H2)|reflexivity|cbn; lia|reflexivity].
    + destruct (brd_next positive Pos.eqb 1 (after 2 p4)) as [[np d']|e]; exact I.
Qed.

(* a scripted run for two seats: u = 1/4 <= 1/3 draws 2 from the squares population built on the
   round-0 tally; then u = 3/4 > 1/2 is a RandomDictator draw.  The [escores] of the three states
   are the first-place tallies of the three successive profiles, and the numpy population logged
   by the first step is the squares of the tally of the CURRENT profile over its total weight *)
Definition script2 : mstate positive :=
  mkM [DUnit (1#4); DCand 2; DUnit (3#4); DRank [[1];[3];[4]]] [].
Definition states_of (x : res (list (estate positive) * mstate positive)) : list (estate positive) :=
  match x with inl (sts, _) => sts | inr _ => [] end.
Definition log_of {A} (x : res (A * mstate positive)) : list (call positive) :=
  match x with inl (_, s) => lg s | inr _ => [] end.

Example c17_ex_brd_run_link :
  let run := run_dictator positive Pos.eqb true 2 p4 script2 in
  map (@escores positive) (states_of run) = [fpv_of p4; fpv_of (after 2 p4); fpv_of (after 1 (after 2 p4))] /\
  map (@elected positive) (states_of run) = [[[]]; [[2]]; [[1]]] /\
  log_of run = [CChoices (choices_pop positive (after 2 p4)); CUniform;
                CNpChoice (squares positive (fpv_of p4) (total_wt positive (ballots p4))); CUniform].
Proof. intros run. conjs; qdec. Qed.

(* the same link at the level of one step from the round-0 state *)
Definition s0 : estate positive :=
  match round0 positive Pos.eqb SKFpv p4 with inl s => s | inr _ => all_tied_state positive p4 end.

Example c17_ex_brd_step_link :
  round0 positive Pos.eqb SKFpv p4 = inl s0 /\ escores s0 = fpv_of p4 /\
  match brd_step positive Pos.eqb p4 s0 (mkM [DUnit (1#4); DCand 2] []) with
  | inl ((np, e), _) => np = after 2 p4 /\ first_place_votes positive Pos.eqb np = inl (escores e)
  | inr _ => False
  end.
Proof. split; [qdec|]. split; [qdec|]. vm_compute. split; reflexivity. Qed.

(* the hypotheses of [c17_brd_step_run] hold on p4 with the round-0 state as previous state *)
Example c17_ex_brd_step_run_hyps :
  wf_profile positive p4 /\ first_place_votes positive Pos.eqb p4 = inl (escores s0) /\
  (2 <= length (cands p4))%nat /\ (0 < total_wt positive (ballots p4))%Q /\
  probc 2 (law_brd_winner positive p4 (escores s0)) ==
    (1#3) * sq_share_form positive Pos.eqb p4 2 + (1 - (1#3)) * rd_closed_form positive Pos.eqb p4 2.
Proof.
  split; [exact (proj1 c17_ex_brd_seats_ok)|]. split; [qdec|]. split; [cbn; lia|].
  split; [reflexivity|qdec].
Qed.

(* [c17_brd_escores_run] applies to the scripted run: it succeeds with three states *)
Example c17_ex_brd_run_ok :
  exists sts st', run_dictator positive Pos.eqb true 2 p4 script2 = inl (sts, st') /\
                  length sts = 3%nat.
Proof. eexists. eexists. split; [vm_compute; reflexivity|reflexivity]. Qed.

(* The domain hypothesis of the mass theorems cannot be dropped: a well-formed, score-free profile
   with positive weights and m = 2 <= 3 candidates whose only ballot ranks a single candidate.
   After that candidate is elected no ballot is left, the total weight is 0, the squares
   population is 0/0 (numpy: "probabilities contain NaN", ValueError; model: EValue) and, two
   candidates being left, lambda = 1 so that branch is always taken: the two-seat law has mass 0
   and the run raises. *)
Definition p_bullet : profile positive := mkProfile [B [[1]] 1] [1;2;3].

Theorem c17_brd_multiseat_mass_unconditional_refuted :
  exists p : profile positive,
    wf_profile positive p /\ score_free positive (ballots p) /\
    Forall (fun b => (0 < wt b)%Q) (ballots p) /\ (2 <= length (cands p))%nat /\
    mass (law_brd_run positive Pos.eqb 1 p) == 1 /\
    mass (law_brd_run positive Pos.eqb 2 p) == 0 /\
    run_dictator positive Pos.eqb true 2 p (mkM [DUnit 0; DCand 1; DUnit 0] []) = inr EValue /\
    run_dictator positive Pos.eqb true 2 p (mkM [DUnit (3#4); DRank [[1]]; DUnit (9#10)] []) = inr EValue.
Proof.
  exists p_bullet. split.
  - split; [nodup|]. constructor; [wf_rk|]. constructor.
  - split; [repeat constructor|]. split; [repeat constructor|]. split; [cbn; lia|].
    conjs; qdec.
Qed.
Print Assumptions c17_brd_multiseat_mass_unconditional_refuted.

(* The link hypothesis of [c17_brd_step_errors_linked] cannot be dropped: from a previous state
   whose recorded tallies are all zero (a get_profile replay that has diverged from the recorded
   run) the squares branch raises ValueError although the total weight (5) is positive; from the
   linked state the same draw elects candidate 2 *)
Definition zero_state : estate positive :=
  mkState 0%Z [[1;2;3;4]] [[]] [[]] [] [(1, 0%Q); (2, 0%Q); (3, 0%Q); (4, 0%Q)].
Example c17_ex_brd_zero_tallies :
  (0 < total_wt positive (ballots p4))%Q /\
  (squares_mass positive (escores zero_state) (total_wt positive (ballots p4)) == 0)%Q /\
  brd_step positive Pos.eqb p4 zero_state (mkM [DUnit (1#4); DCand 2] []) = inr EValue /\
  (exists s0 x, round0 positive Pos.eqb SKFpv p4 = inl s0 /\
     brd_step positive Pos.eqb p4 s0 (mkM [DUnit (1#4); DCand 2] []) = inl x).
Proof.
  split; [vm_compute; reflexivity|]. split; [vm_compute; reflexivity|].
  split; [vm_compute; reflexivity|]. eexists. eexists. split; vm_compute; reflexivity.
Qed.

End C17BrdExamples.
