(* Properties/C12_pairwise.v — C12, "pairwise totals are unchanged by expanding ties".
   Statements only; proofs are in Proofs/C12_pairwise.v.  Vocabulary: [pair_share], [never_tied] in
   Spec/ExpandPairSpec.v; [prefers], [h2h] are the model's head-to-head test and count
   (Model/Pairwise.v); [expand_tied_ballot] is the model of votekit's expand_tied_ballot.

   The expansion replaces a ballot by all linear orders consistent with it, each with weight
   wt / Π|group|!.  Its head-to-head weight for "a over c" is wt * pair_share: the whole ballot when
   a's position precedes c's (or c is not listed), nothing when it follows (or a is not listed),
   exactly half when a and c share a position.  NOTE: the model's [h2h] applied to the TIED ballot
   itself counts a shared position fully for BOTH directions ([prefers] tests its first argument
   first); the statement below is about the expanded ballots, where every order occurs once. *)
From VK Require Import Base Core Pairwise ExpandPairSpec.
From VK.Proofs Require Import C12_pairwise.
From Coq Require Import Permutation.

Section C12_pairwise.
Variable cand : Type.
Variable ceqb : cand -> cand -> bool.
Hypothesis ceqb_spec : forall a b, reflect (a = b) (ceqb a b).

Notation ranking := (ranking cand).
Notation ballot := (ballot cand).
Notation memb := (memb cand ceqb).
Notation flat := (flat cand).
Notation expand_tied_ballot := (expand_tied_ballot cand).
Notation prefers := (prefers cand ceqb).
Notation h2h := (h2h cand ceqb).
Notation pair_share := (pair_share cand ceqb).
Notation never_tied := (never_tied cand).

(* one ballot: for distinct candidates a, c the expanded ballots give "a over c" the weight
   wt b * pair_share (rk b) a c *)
Theorem c12_expand_preserves_pairwise : forall (b : ballot) out a c,
  expand_tied_ballot b = inl out -> NoDup (flat (rk b)) -> a <> c ->
  h2h out a c == wt b * pair_share (rk b) a c.
Proof. exact (expand_preserves_pairwise cand ceqb ceqb_spec). Qed.

(* the same when only each position is duplicate-free (a candidate may recur further down) *)
Theorem c12_expand_preserves_pairwise_gen : forall (b : ballot) out a c,
  expand_tied_ballot b = inl out -> Forall (@NoDup cand) (rk b) -> a <> c ->
  h2h out a c == wt b * pair_share (rk b) a c.
Proof. exact (expand_preserves_pairwise_gen cand ceqb ceqb_spec). Qed.

(* a whole list of ballots (resolve_profile_ties expands each ballot and concatenates) *)
Theorem c12_expand_all_preserves_pairwise : forall (bs : list ballot) bss a c,
  Forall2 (fun b e => expand_tied_ballot b = inl e) bs bss ->
  Forall (fun b => NoDup (flat (rk b))) bs -> a <> c ->
  h2h (concat bss) a c == qsum (map (fun b => wt b * pair_share (rk b) a c) bs).
Proof. exact (expand_all_preserves_pairwise cand ceqb ceqb_spec). Qed.

(* reading of pair_share at the first position g that contains a or c:
   both -> 1/2;  only a -> 1;  only c -> 0;  neither there nor before -> decided further down;
   neither listed at all -> 0 *)
Theorem c12_pair_share_reading : forall (pre : ranking) g post a c,
  ~ In a (flat pre) -> ~ In c (flat pre) ->
  pair_share (pre ++ g :: post) a c =
  if memb a g then (if memb c g then 1 / 2 else 1)
  else if memb c g then 0 else pair_share post a c.
Proof. exact (pair_share_split cand ceqb ceqb_spec). Qed.

Theorem c12_pair_share_empty : forall a c, pair_share [] a c = 0.
Proof. reflexivity. Qed.

(* the two directions together receive the whole ballot iff one of the two is listed *)
Theorem c12_pair_share_total : forall (r : ranking) a c,
  pair_share r a c + pair_share r c a == if memb a (flat r) || memb c (flat r) then 1 else 0.
Proof. exact (pair_share_total cand ceqb). Qed.

(* for a pair that never shares a position the expansion leaves the model's own head-to-head
   count of the tied ballot unchanged *)
Theorem c12_expand_pairwise_never_tied : forall (b : ballot) out a c,
  expand_tied_ballot b = inl out -> NoDup (flat (rk b)) -> a <> c -> never_tied (rk b) a c ->
  h2h out a c == h2h [b] a c.
Proof. exact (expand_pairwise_never_tied cand ceqb ceqb_spec). Qed.

End C12_pairwise.

Print Assumptions c12_expand_preserves_pairwise.
Print Assumptions c12_expand_preserves_pairwise_gen.
Print Assumptions c12_expand_all_preserves_pairwise.
Print Assumptions c12_pair_share_reading.
Print Assumptions c12_pair_share_empty.
Print Assumptions c12_pair_share_total.
Print Assumptions c12_expand_pairwise_never_tied.

(* ---------- non-vacuity: a concrete tied ballot (cand := positive) ---------- *)
Module C12PairwiseExamples.
Local Open Scope positive_scope.

Definition pb (r : list (list positive)) (w : Q) : Core.ballot positive := plain_ballot positive r w.
Definition b0 : Core.ballot positive := pb [[1;2];[3]] 3.

(* the hypotheses hold: the expansion succeeds with two ballots, the ranking is duplicate-free *)
Example c12pw_ex_hyps :
  exists out, Core.expand_tied_ballot positive b0 = inl out /\ length out = 2%nat /\
    NoDup (Core.flat positive (rk b0)).
Proof.
  eexists. split; [vm_compute; reflexivity|]. split; [reflexivity|].
  repeat (constructor; [cbn; intuition discriminate|]). constructor.
Qed.

(* shares: tied pair 1/2, earlier position 1, later position 0, unlisted opponent 1, unlisted 0 *)
Example c12pw_ex_shares :
  pair_share positive Pos.eqb (rk b0) 1 2 == 1 / 2 /\
  pair_share positive Pos.eqb (rk b0) 1 3 == 1 /\
  pair_share positive Pos.eqb (rk b0) 3 1 == 0 /\
  pair_share positive Pos.eqb (rk b0) 3 4 == 1 /\
  pair_share positive Pos.eqb (rk b0) 4 3 == 0 /\
  pair_share positive Pos.eqb (rk b0) 4 5 == 0.
Proof. repeat split; vm_compute; reflexivity. Qed.

(* and the head-to-head counts of the expansion agree; on the tied ballot itself the model's h2h
   gives the full weight 3 to 1-over-2 AND to 2-over-1, the expansion 3/2 each *)
Example c12pw_ex_counts :
  exists out, Core.expand_tied_ballot positive b0 = inl out /\
    Pairwise.h2h positive Pos.eqb out 1 2 == 3 # 2 /\
    Pairwise.h2h positive Pos.eqb out 2 1 == 3 # 2 /\
    Pairwise.h2h positive Pos.eqb out 1 3 == 3 /\
    Pairwise.h2h positive Pos.eqb out 3 1 == 0 /\
    Pairwise.h2h positive Pos.eqb out 3 4 == 3 /\
    Pairwise.h2h positive Pos.eqb [b0] 1 2 == 3 /\
    Pairwise.h2h positive Pos.eqb [b0] 2 1 == 3.
Proof. eexists. split; [vm_compute; reflexivity|]. repeat split; vm_compute; reflexivity. Qed.

(* an instance of the theorem *)
Example c12pw_ex_instance :
  forall out, Core.expand_tied_ballot positive b0 = inl out ->
    Pairwise.h2h positive Pos.eqb out 1 2 == 3 * (1 / 2).
Proof.
  intros out H.
  rewrite (c12_expand_preserves_pairwise positive Pos.eqb Pos.eqb_spec b0 out 1 2 H).
  - vm_compute. reflexivity.
  - repeat (constructor; [cbn; intuition discriminate|]). constructor.
  - discriminate.
Qed.

End C12PairwiseExamples.
