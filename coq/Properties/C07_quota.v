(* Properties/C07_quota.v — C07 ("STV with the Droop quota ... either built-in transfer rule"):
   (a) the guarantee is specific to the Droop quota: under the Hare quota a solid coalition worth
       two Droop quotas can be left with one seat (witness by computation);
   (b) with the random transfer: the failures that remain possible under the hypotheses of
       c07_droop_pc (Properties/C07.v), exactly; and a condition under which the count returns.
   Statements only; proofs are in Proofs/C07_quota.v.
   Vocabulary: headers of Properties/C07.v, C02.v and C01_live.v ([reached]: the points a count
   passes through), Spec/STVErrSpec.v and Spec/C07QuotaSpec.v:
     seat_tie_failure cfg t pr prev s e   one-by-one mode, the two or more candidates of the top
                        group of the ranking all reach t and are tied: e = ValueError with no /
                        an unknown tiebreak configured, otherwise e = EScript (the replay script
                        did not serve the tiebreak)
     transferable_units pr w   whole votes of the ballots led by w that rank somebody after w
     shortage t pr w    w reaches t and transferable_units pr w < floor(tally w) - floor(t)
                        (random.sample raises ValueError: the recorded random-transfer-shortage)
     no_bullet pr w     every ballot of pr led by w still ranks somebody once w is struck out
     no_bullet_piles cfg p s   no_bullet pr w at every point the count of p with script s passes
                        through with seats still open, for every w reaching the threshold there
     fitting_script cfg p s    no round the count passes through fails with EScript (the model's
                        own error: script exhausted / draw of the wrong kind, size or content) *)
From VK Require Import Base Core STV Rules EditSpec.
From VK.Spec Require Import STVSpec STVErrSpec PCSpec LiveSpec C07QuotaSpec.
From VK.Proofs Require Import STV_final C07_quota.
From Coq Require Import Permutation Lia Qround.

Section C07_quota.
Variable cand : Type.
Variable ceqb : cand -> cand -> bool.
Hypothesis ceqb_spec : forall a b, reflect (a = b) (ceqb a b).

Notation cset := (cset cand).
Notation profile := (profile cand).
Notation estate := (estate cand).
Notation mstate := (mstate cand).
Notation flat := (flat cand).
Notation tally := (tally cand ceqb).
Notation wf_stv0 := (wf_stv0 cand).
Notation wf_stv_profile := (wf_stv_profile cand).
Notation integral_weights := (integral_weights cand).
Notation script_ok := (script_ok cand).
Notation stv_inv := (stv_inv cand ceqb).
Notation stv_init := (stv_init cand).
Notation stv_step := (stv_step cand ceqb).
Notation run_stv := (run_stv cand ceqb).
Notation initial_state := (initial_state cand ceqb).
Notation count_elected := (count_elected cand).
Notation elected_upto := (elected_upto cand).
Notation reached := (reached cand ceqb).
Notation seat_tie_failure := (seat_tie_failure cand ceqb).
Notation shortage := (shortage cand ceqb).
Notation no_bullet := (no_bullet cand ceqb).
Notation no_bullet_piles := (no_bullet_piles cand ceqb).
Notation fitting_script := (fitting_script cand ceqb).

(* ---------- (b) the failures left to c07_droop_pc ---------- *)

(* Hypotheses of c07_droop_pc (valid profile, Droop quota, fractional or random transfer, for the
   random one a script whose ballot samples list single candidates): a run that raises e
   - was refused at construction: m out of range (ValueError), or random transfer and a weight
     that is not a whole number (TypeError); or
   - failed in a round the count passes through with seats still open, and that round
       * was a tie for the single seat of a one-by-one round (ValueError without a usable
         tiebreak, else EScript), or
       * random transfer only: met a SHORTAGE — a candidate reaching the threshold whose
         transferable whole votes number fewer than its surplus (ValueError), or
       * raised EScript (the replay script does not fit; impossible with a live random source).
   No ZeroDivisionError, IndexError, KeyError, non-termination; with the fractional transfer no
   shortage. *)
Theorem c07_droop_run_errors : forall cfg (p : profile) (s : mstate) e,
  wf_stv0 p -> s_quota cfg = QDroop -> s_transfer cfg <> TFullWeight ->
  (s_transfer cfg = TRandom -> script_ok s) ->
  run_stv cfg p s = inr e ->
  (e = EValue /\ ~ (1 <= s_m cfg <= Z.of_nat (length (cands p)))%Z) \/
  (e = EType /\ s_transfer cfg = TRandom /\ ~ integral_weights p) \/
  exists t s0 (pr : profile) prev older (s1 : mstate),
    stv_init cfg p = inl t /\ initial_state p = inl s0 /\
    reached cfg t p p [s0] s pr (prev :: older) s1 /\
    count_elected (prev :: older) <> s_m cfg /\
    stv_step cfg t p (count_elected (prev :: older)) pr prev s1 = inr e /\
    (seat_tie_failure cfg t pr prev s1 e \/
     (s_transfer cfg = TRandom /\ e = EValue /\ exists w, shortage t pr w) \/
     e = EScript).
Proof. exact (droop_run_errors cand ceqb ceqb_spec). Qed.

(* a pile of whole-number weights without bullet votes cannot be short: every vote of it can move *)
Theorem c07_no_bullet_no_shortage : forall t (pr : profile) w,
  0 <= t -> integral_weights pr -> no_bullet pr w -> ~ shortage t pr w.
Proof. exact (no_bullet_no_shortage cand ceqb). Qed.

(* Random transfer, any m in range (in particular m >= 2), whole-number weights, ties for a seat
   breakable: if no pile of a candidate reaching the threshold ever contains a bullet vote and the
   script fits, the count returns *)
Theorem c07_droop_random_live : forall cfg (p : profile) (s : mstate),
  wf_stv0 p -> s_quota cfg = QDroop -> s_transfer cfg = TRandom ->
  script_ok s -> integral_weights p ->
  (1 <= s_m cfg <= Z.of_nat (length (cands p)))%Z ->
  (s_simul cfg = true \/ exists kind, s_tiebreak cfg = Some kind /\ kind <> TBInvalid) ->
  no_bullet_piles cfg p s -> fitting_script cfg p s ->
  exists out s', run_stv cfg p s = inl (out, s').
Proof. exact (droop_random_live cand ceqb ceqb_spec). Qed.

(* ... and the solid coalition gets its min(k, |A|, m) seats: C07 for the random transfer without
   the proviso "if the count returns" *)
Theorem c07_droop_pc_random_live : forall cfg (p : profile) (A : cset) (k : nat) t (s : mstate),
  wf_stv_profile p -> s_quota cfg = QDroop -> s_transfer cfg = TRandom ->
  script_ok s -> integral_weights p ->
  (1 <= s_m cfg <= Z.of_nat (length (cands p)))%Z ->
  (s_simul cfg = true \/ exists kind, s_tiebreak cfg = Some kind /\ kind <> TBInvalid) ->
  NoDup A -> incl A (cands p) -> stv_init cfg p = inl t ->
  Qnat k * t <= coal_wt cand ceqb A (ballots p) ->
  no_bullet_piles cfg p s -> fitting_script cfg p s ->
  exists out s', run_stv cfg p s = inl (out, s') /\
    (Nat.min k (Nat.min (length A) (Z.to_nat (s_m cfg)))
     <= winners_in cand ceqb A (flat (elected_upto out (length out - 1))))%nat.
Proof. exact (droop_pc_random_live cand ceqb ceqb_spec). Qed.

End C07_quota.

Print Assumptions c07_droop_run_errors.
Print Assumptions c07_no_bullet_no_shortage.
Print Assumptions c07_droop_random_live.
Print Assumptions c07_droop_pc_random_live.

(* ---------- (a) the guarantee is specific to the Droop quota ---------- *)
Module C07QuotaExamples.
Open Scope positive_scope.

Definition bal (r : list positive) (w : Q) : ballot positive :=
  mkBallot (map (fun c => [c]) r) w [] None None.
Definition no_script : mstate positive := mkM [] [].
Definition cfg_of (m : Z) (q : quota_kind) (k : transfer_kind) : stv_cfg := mkStv m q true k None.

(* 1>2 x10, 3 x4 ; three candidates, two seats, N = 14.  Droop quota floor(14/3)+1 = 5, Hare
   quota 14/2 = 7.  The coalition solid for A = {1,2} weighs 10 = two Droop quotas.
   Hare count: 1 is elected with 10, keeps 7 and passes 3 on to 2; nobody reaches 7 (2 has 3,
   3 has 4), 2 is eliminated, 3 fills the last seat.  A gets ONE seat < min(2, |A|, m) = 2.
   Droop count: 1 is elected, keeps 5, passes 5 on to 2 who reaches the quota: A gets both seats. *)
Definition hare_p : profile positive := mkProfile [bal [1; 2] 10%Q; bal [3] 4%Q] [1; 2; 3].
Definition hare_A : cset positive := [1; 2].

(* the statement of c07_droop_pc with "the run uses the Hare quota" and the coalition measured in
   Droop quotas (the C07 measure: td = the Droop threshold of the same profile and seats) *)
Theorem c07_hare_pc_refuted :
  exists cfg (p : profile positive) (A : cset positive) (k : nat) td (s s' : mstate positive) out,
    wf_stv_profile positive p /\ s_quota cfg = QHare /\ s_transfer cfg = TFractional /\
    NoDup A /\ incl A (cands p) /\
    stv_init positive (mkStv (s_m cfg) QDroop (s_simul cfg) (s_transfer cfg) (s_tiebreak cfg)) p = inl td /\
    (Qnat k * td <= coal_wt positive Pos.eqb A (ballots p))%Q /\
    run_stv positive Pos.eqb cfg p s = inl (out, s') /\
    (winners_in positive Pos.eqb A (flat positive (elected_upto positive out (length out - 1)))
     < Nat.min k (Nat.min (length A) (Z.to_nat (s_m cfg))))%nat.
Proof.
  destruct (run_stv positive Pos.eqb (cfg_of 2 QHare TFractional) hare_p no_script) as [[out s']|e] eqn:E;
    [|vm_compute in E; discriminate].
  exists (cfg_of 2 QHare TFractional), hare_p, hare_A, 2%nat, 5%Q, no_script, s', out.
  split; [apply (wf_stv_profile_b_ok positive Pos.eqb Pos.eqb_spec); vm_compute; reflexivity|].
  split; [reflexivity|]. split; [reflexivity|].
  split; [unfold hare_A; repeat constructor; cbn; intuition discriminate|].
  split; [intros c [<-|[<-|[]]]; cbn; tauto|].
  split; [vm_compute; reflexivity|]. split; [vm_compute; discriminate|].
  split; [exact E|]. vm_compute in E. injection E as <- <-. vm_compute. lia.
Qed.

(* what the two counts do on that profile *)
Example hare_vs_droop :
  stv_init positive (cfg_of 2 QHare TFractional) hare_p = inl 7%Q /\
  stv_init positive (cfg_of 2 QDroop TFractional) hare_p = inl 5%Q /\
  match run_stv positive Pos.eqb (cfg_of 2 QHare TFractional) hare_p no_script,
        run_stv positive Pos.eqb (cfg_of 2 QDroop TFractional) hare_p no_script with
  | inl (h, _), inl (d, _) =>
      map (fun st => (elected st, eliminated st)) h = [([[]], [[]]); ([[1]], [[]]); ([[]], [[2]]); ([[3]], [[]])] /\
      map (fun st => (elected st, eliminated st)) d = [([[]], [[]]); ([[1]], [[]]); ([[2]], [[]])]
  | _, _ => False
  end.
Proof. vm_compute. repeat split. Qed.

(* measured in thresholds of the Hare count itself the coalition is worth one quota only
   (7 <= 10 < 2 * 7) and it does get one seat: this profile does not contradict the reading
   "k times the threshold actually used" *)
Example hare_one_quota : (Qnat 1 * 7 <= coal_wt positive Pos.eqb hare_A (ballots hare_p))%Q /\
  ~ (Qnat 2 * 7 <= coal_wt positive Pos.eqb hare_A (ballots hare_p))%Q.
Proof. split; [vm_compute; discriminate|]. vm_compute. intros H. apply H. reflexivity. Qed.

(* ---------- (b) non-vacuity ---------- *)

(* the shortage: 1 x6, 2 x3 ; two seats, N = 9, quota 4 : 1 is elected with surplus 2 but none of
   its votes ranks anybody else.  ValueError with the random transfer, fine with the fractional *)
Definition short_p : profile positive := mkProfile [bal [1] 6%Q; bal [2] 3%Q] [1; 2].
Example shortage_happens :
  wf_stv_profile positive short_p /\ integral_weights positive short_p /\
  stv_init positive (cfg_of 2 QDroop TRandom) short_p = inl 4%Q /\
  shortage positive Pos.eqb 4%Q short_p 1 /\ ~ no_bullet positive Pos.eqb short_p 1 /\
  run_stv positive Pos.eqb (cfg_of 2 QDroop TRandom) short_p no_script = inr EValue /\
  (exists out, run_stv positive Pos.eqb (cfg_of 2 QDroop TFractional) short_p no_script = inl (out, no_script)).
Proof.
  split; [apply (wf_stv_profile_b_ok positive Pos.eqb Pos.eqb_spec); vm_compute; reflexivity|].
  split; [repeat constructor|]. split; [vm_compute; reflexivity|].
  split; [split; [split; [cbn; tauto|vm_compute; discriminate]|vm_compute; reflexivity]|].
  split.
  { intros H. specialize (H (bal [1] 6%Q) (or_introl eq_refl) eq_refl). vm_compute in H. discriminate. }
  split; [vm_compute; reflexivity|]. eexists. vm_compute. reflexivity.
Qed.

(* no bullet votes: 1>2>3 x6, 2>1>3 x2, 3>2 x1, 4>3 x1 ; two seats, N = 10, quota 4.
   1 is elected (6), two of its 2>3 votes are drawn; 2 then has exactly 4 and is elected, an empty
   sample is drawn.  Every pile of a winner ranks a surviving candidate after the winner. *)
Definition live_p : profile positive :=
  mkProfile [bal [1; 2; 3] 6%Q; bal [2; 1; 3] 2%Q; bal [3; 2] 1%Q; bal [4; 3] 1%Q] [1; 2; 3; 4].
Definition live_cfg : stv_cfg := cfg_of 2 QDroop TRandom.
Definition live_s : mstate positive := mkM [DRanks [[[2]; [3]]; [[2]; [3]]]; DRanks []] [].

Lemma live_points : forall t s0 pr prev older s1,
  stv_init positive live_cfg live_p = inl t -> initial_state positive Pos.eqb live_p = inl s0 ->
  reached positive Pos.eqb live_cfg t live_p live_p [s0] live_s pr (prev :: older) s1 ->
  count_elected positive (prev :: older) <> s_m live_cfg ->
  (forall w, In w (cands pr) -> no_bullet_b positive Pos.eqb pr w = true) /\
  stv_step positive Pos.eqb live_cfg t live_p (count_elected positive (prev :: older)) pr prev s1 <> inr EScript.
Proof.
  intros t s0 pr prev older s1 Ei E0 Hre Hc.
  vm_compute in Ei. injection Ei as Ei. subst t. vm_compute in E0. injection E0 as E0. subst s0.
  apply (reached_head positive Pos.eqb) in Hre.
  destruct Hre as [(-> & Hs & ->)|(prev1 & older1 & np1 & st1 & s2 & Hs & Hc1 & Hstep1 & Hre)].
  { injection Hs as Hs1 Hs2. subst prev older. split.
    - intros w [<-|[<-|[<-|[<-|[]]]]]; vm_compute; reflexivity.
    - vm_compute. discriminate. }
  injection Hs as Hs1 Hs2. subst prev1 older1. vm_compute in Hstep1. injection Hstep1 as H1 H2 H3. subst np1 st1 s2.
  apply (reached_head positive Pos.eqb) in Hre.
  destruct Hre as [(-> & Hs & ->)|(prev2 & older2 & np2 & st2 & s3 & Hs & Hc2 & Hstep2 & Hre)].
  { injection Hs as Hs1 Hs2. subst prev older. split.
    - intros w [<-|[<-|[<-|[]]]]; vm_compute; reflexivity.
    - vm_compute. discriminate. }
  injection Hs as Hs1 Hs2. subst prev2 older2. vm_compute in Hstep2. injection Hstep2 as H1 H2 H3. subst np2 st2 s3.
  apply (reached_head positive Pos.eqb) in Hre.
  destruct Hre as [(-> & Hs & ->)|(prev3 & older3 & np3 & st3 & s4 & Hs & Hc3 & _)].
  { injection Hs as Hs1 Hs2. subst prev older. exfalso. apply Hc. vm_compute. reflexivity. }
  injection Hs as Hs1 Hs2. subst prev3 older3. exfalso. apply Hc3. vm_compute. reflexivity.
Qed.

Example live_hyps :
  wf_stv_profile positive live_p /\ script_ok positive live_s /\ integral_weights positive live_p /\
  no_bullet_piles positive Pos.eqb live_cfg live_p live_s /\
  fitting_script positive Pos.eqb live_cfg live_p live_s.
Proof.
  split; [apply (wf_stv_profile_b_ok positive Pos.eqb Pos.eqb_spec); vm_compute; reflexivity|].
  split; [repeat constructor|]. split; [repeat constructor|]. split.
  - intros t s0 pr prev older s1 w Ei E0 Hre Hc Hw.
    apply (no_bullet_b_ok positive Pos.eqb).
    apply (proj1 (live_points t s0 pr prev older s1 Ei E0 Hre Hc)). apply Hw.
  - intros t s0 pr prev older s1 Ei E0 Hre Hc.
    apply (proj2 (live_points t s0 pr prev older s1 Ei E0 Hre Hc)).
Qed.

(* the theorem applies: the count returns and the coalition {1,2} (8 = two quotas) gets 2 seats *)
Example live_theorem :
  exists out s', run_stv positive Pos.eqb live_cfg live_p live_s = inl (out, s') /\
    (2 <= winners_in positive Pos.eqb [1%positive; 2%positive] (flat positive (elected_upto positive out (length out - 1))))%nat.
Proof.
  destruct live_hyps as (Hwf & Hscr & Hint & Hnb & Hfit).
  assert (Hm : (1 <= s_m live_cfg <= Z.of_nat (length (cands live_p)))%Z) by (cbn; lia).
  assert (HA : NoDup [1%positive; 2%positive]) by (repeat constructor; cbn; intuition discriminate).
  assert (Hincl : incl [1%positive; 2%positive] (cands live_p)) by (intros c [<-|[<-|[]]]; cbn; tauto).
  assert (Ei : stv_init positive live_cfg live_p = inl 4%Q) by (vm_compute; reflexivity).
  assert (Hcoal : (Qnat 2 * 4 <= coal_wt positive Pos.eqb [1%positive; 2%positive] (ballots live_p))%Q)
    by (vm_compute; discriminate).
  exact (c07_droop_pc_random_live positive Pos.eqb Pos.eqb_spec live_cfg live_p [1; 2] 2%nat 4%Q live_s
           Hwf eq_refl eq_refl Hscr Hint Hm (or_introl eq_refl) HA Hincl Ei Hcoal Hnb Hfit).
Qed.

Example live_run :
  match run_stv positive Pos.eqb live_cfg live_p live_s with
  | inl (sts, s') =>
      map (fun st => (elected st, eliminated st)) sts = [([[]], [[]]); ([[1]], [[]]); ([[2]], [[]])] /\
      scr s' = []
  | inr _ => False
  end.
Proof. vm_compute. repeat split. Qed.

End C07QuotaExamples.
