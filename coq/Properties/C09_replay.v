(* Properties/C09_replay.v — property C09, the multi-round part: for the rules whose
   get_profile(r) REPLAYS the count (the STV family: STV, IRV, SequentialRCV; and TopTwo / Alaska
   through their stages), the profile returned for a round r whose replayed rounds recorded no
   tiebreak is exactly the profile the run had after round r; it contains exactly the candidates
   remaining after round r, re-scoring it reproduces the tallies recorded for round r, and the
   answer is the same from every state of the random source (i.e. after any history of queries),
   consuming nothing.  (Index rules, cumulative queries and the one-shot rules: Properties/C09.v.)

   Subject: [get_profile] of Model/Election.v ([stv_replay] / [replay_steps] of Model/Rules.v)
   against [run_stv], [run_toptwo], [run_alaska], [run_wrule].
   Vocabulary: [stv_trace] (Spec/ReplaySpec.v), [state_of], [step_ctx], [wf_stv0]
   (Spec/STVSpec.v), [in_range], [round_of] (Spec/QuerySpec.v), [no_tiebreak] (Spec/TieSpec.v).
   Scope: transfer rule other than the random (Cambridge) one, whose replay draws afresh.
   "No tiebreak recorded" is what the property calls "involved no random choice": by C10 every draw
   is made inside a recorded tiebreak.  Proofs: Proofs/C09_replay.v. *)
From Coq Require Import List ZArith QArith Bool Permutation.
From VK Require Import Base Core STV Pairwise Rules PV Election.
From VK.Spec Require Import STVSpec QuerySpec TieSpec ReplaySpec.
From VK.Proofs Require Import C09_replay STV_final.
Import ListNotations.

Section C09_replay.
Variable cand : Type.
Variable ceqb : cand -> cand -> bool.
Hypothesis ceqb_spec : forall a b, reflect (a = b) (ceqb a b).

Notation profile := (profile cand).
Notation estate := (estate cand).
Notation mstate := (mstate cand).
Notation flat := (flat cand).
Notation wf_stv0 := (wf_stv0 cand).
Notation state_of := (state_of cand ceqb).
Notation step_ctx := (step_ctx cand ceqb).
Notation stv_trace := (stv_trace cand ceqb).
Notation stv_init := (stv_init cand).
Notation run_stv := (run_stv cand ceqb).
Notation run_wrule := (run_wrule cand ceqb).
Notation run_toptwo := (run_toptwo cand ceqb).
Notation run_alaska := (run_alaska cand ceqb).
Notation get_profile := (get_profile cand ceqb).
Notation first_place_votes := (first_place_votes cand ceqb).
Notation score_to_ranking := (score_to_ranking cand).
Notation remove_cand_prof := (remove_cand_prof cand ceqb).
Notation no_tiebreak := (no_tiebreak cand).

(* ---------- R1: a run is a trace ---------- *)

(* a successful STV run (any configuration, any profile) has a trace: profiles [ps] and
   random-source states [ss], one per recorded round, starting from the input profile and the
   initial state of the source and ending in the final state, such that each record reports the
   tallies of its profile and each round is one [stv_step] that is told, as the number elected so
   far, the count over the records up to the previous round — the call a replay makes *)
Theorem c09_stv_trace : forall cfg (p : profile) (s s' : mstate) sts,
  run_stv cfg p s = inl (sts, s') ->
  exists t ps ss,
    stv_init cfg p = inl t /\ stv_trace cfg t p sts ps ss /\
    nth_error ps 0 = Some p /\ nth_error ss 0 = Some s /\ last ss s = s'.
Proof. exact (stv_run_trace cand ceqb). Qed.

(* for a valid (or empty) input every profile of the trace is valid-or-empty over candidates of
   the input, with its record *)
Theorem c09_stv_trace_valid : forall cfg t (p : profile) sts ps ss,
  s_transfer cfg <> TRandom -> wf_stv0 p ->
  stv_trace cfg t p sts ps ss -> nth_error ps 0 = Some p ->
  forall r pr st, nth_error ps r = Some pr -> nth_error sts r = Some st -> step_ctx p pr st.
Proof. exact (trace_ctx cand ceqb ceqb_spec). Qed.

(* ---------- R2: the replay returns the profile of the trace ---------- *)

(* for every valid index i addressing round r: if the records of rounds 0..r show no tiebreak,
   get_profile(i) returns — from EVERY state s2 of the random source, leaving it untouched — the
   profile the run had after round r.  Hence the answer does not depend on earlier queries, and
   queries leave nothing behind.  (Only rounds up to r matter: later ties are irrelevant.) *)
Theorem c09_stv_replay_is_run : forall cfg t (p : profile) sts ps ss,
  s_transfer cfg <> TRandom -> stv_init cfg p = inl t ->
  stv_trace cfg t p sts ps ss -> nth_error ps 0 = Some p ->
  forall i, in_range (length sts) i ->
  Forall no_tiebreak (firstn (S (round_of (length sts) i)) sts) ->
  exists pr, nth_error ps (round_of (length sts) i) = Some pr /\
    forall s2 : mstate, get_profile (RSTV cfg) p sts i s2 = inl (pr, s2).
Proof. exact (stv_replay_is_run cand ceqb). Qed.

(* ---------- R3: candidates and re-scoring ---------- *)

(* the profile after round r has exactly the candidates remaining after round r (after a default
   election both lists are empty) *)
Theorem c09_stv_profile_cands : forall cfg t (p0 : profile) sts ps ss r pr st,
  stv_trace cfg t p0 sts ps ss -> nth_error ps r = Some pr -> nth_error sts r = Some st ->
  Permutation (cands pr) (flat (remaining st)).
Proof. exact (stv_trace_cands cand ceqb). Qed.

(* its first-place tallies are the scores recorded for round r, and sorting those scores gives
   the recorded remaining-ranking *)
Theorem c09_stv_rescoring : forall cfg t (p0 : profile) sts ps ss r pr st,
  stv_trace cfg t p0 sts ps ss -> nth_error ps r = Some pr -> nth_error sts r = Some st ->
  first_place_votes pr = inl (escores st) /\ score_to_ranking (escores st) true = remaining st.
Proof. exact (stv_trace_fpv cand ceqb). Qed.

(* ---------- the three together, from the run alone ---------- *)

(* STV (fractional or full-weight transfer) on a valid-or-empty profile: for every valid index i
   addressing a round r such that rounds 0..r recorded no tiebreak, get_profile(i) returns from
   every state of the random source, untouched, one and the same profile pr; pr is
   valid-or-empty over candidates of the input, its candidates are exactly those remaining in the
   record st of round r, its first-place tallies are the recorded scores, whose sorting is the
   recorded ranking; after a default election (nobody remaining) pr has no candidate, no ballot *)
Theorem c09_stv_get_profile : forall cfg (p : profile) (s s' : mstate) sts,
  s_transfer cfg <> TRandom -> wf_stv0 p ->
  run_stv cfg p s = inl (sts, s') ->
  forall i, in_range (length sts) i ->
  Forall no_tiebreak (firstn (S (round_of (length sts) i)) sts) ->
  exists pr st,
    nth_error sts (round_of (length sts) i) = Some st /\
    (forall s2 : mstate, get_profile (RSTV cfg) p sts i s2 = inl (pr, s2)) /\
    wf_stv0 pr /\ incl (cands pr) (cands p) /\
    Permutation (cands pr) (flat (remaining st)) /\
    first_place_votes pr = inl (escores st) /\
    score_to_ranking (escores st) true = remaining st /\
    (flat (remaining st) = [] -> cands pr = [] /\ ballots pr = []).
Proof. exact (stv_get_profile cand ceqb ceqb_spec). Qed.

(* ---------- R4: the wrappers ---------- *)

(* any election class that forwards to STV (STV itself, IRV, SequentialRCV) *)
Theorem c09_wrapper_trace : forall w cfg (p : profile) (s s' : mstate) sts,
  expand w = Some (RSTV cfg) ->
  run_wrule w p s = inl (sts, s') ->
  exists t ps ss,
    stv_init cfg p = inl t /\ stv_trace cfg t p sts ps ss /\
    nth_error ps 0 = Some p /\ nth_error ss 0 = Some s /\ last ss s = s'.
Proof. exact (wrapper_run_trace cand ceqb). Qed.

Theorem c09_wrapper_get_profile : forall w cfg (p : profile) (s s' : mstate) sts,
  expand w = Some (RSTV cfg) -> s_transfer cfg <> TRandom -> wf_stv0 p ->
  run_wrule w p s = inl (sts, s') ->
  forall i, in_range (length sts) i ->
  Forall no_tiebreak (firstn (S (round_of (length sts) i)) sts) ->
  exists pr st,
    nth_error sts (round_of (length sts) i) = Some st /\
    (forall s2 : mstate, get_profile (RSTV cfg) p sts i s2 = inl (pr, s2)) /\
    wf_stv0 pr /\ incl (cands pr) (cands p) /\
    Permutation (cands pr) (flat (remaining st)) /\
    first_place_votes pr = inl (escores st) /\
    score_to_ranking (escores st) true = remaining st /\
    (flat (remaining st) = [] -> cands pr = [] /\ ballots pr = []).
Proof. exact (wrapper_get_profile cand ceqb ceqb_spec). Qed.

(* IRV = STV with one seat, simultaneous mode, fractional transfer *)
Theorem c09_irv_get_profile : forall q tb (p : profile) (s s' : mstate) sts,
  wf_stv0 p ->
  run_wrule (WIRV q tb) p s = inl (sts, s') ->
  forall i, in_range (length sts) i ->
  Forall no_tiebreak (firstn (S (round_of (length sts) i)) sts) ->
  exists pr st,
    nth_error sts (round_of (length sts) i) = Some st /\
    (forall s2 : mstate,
       get_profile (RSTV (mkStv 1 q true TFractional tb)) p sts i s2 = inl (pr, s2)) /\
    wf_stv0 pr /\ incl (cands pr) (cands p) /\
    Permutation (cands pr) (flat (remaining st)) /\
    first_place_votes pr = inl (escores st) /\
    score_to_ranking (escores st) true = remaining st /\
    (flat (remaining st) = [] -> cands pr = [] /\ ballots pr = []).
Proof. exact (irv_get_profile cand ceqb ceqb_spec). Qed.

(* SequentialRCV = STV with the full-weight transfer *)
Theorem c09_seqrcv_get_profile : forall m q simul tb (p : profile) (s s' : mstate) sts,
  wf_stv0 p ->
  run_wrule (WSeqRCV m q simul tb) p s = inl (sts, s') ->
  forall i, in_range (length sts) i ->
  Forall no_tiebreak (firstn (S (round_of (length sts) i)) sts) ->
  exists pr st,
    nth_error sts (round_of (length sts) i) = Some st /\
    (forall s2 : mstate,
       get_profile (RSTV (mkStv m q simul TFullWeight tb)) p sts i s2 = inl (pr, s2)) /\
    wf_stv0 pr /\ incl (cands pr) (cands p) /\
    Permutation (cands pr) (flat (remaining st)) /\
    first_place_votes pr = inl (escores st) /\
    score_to_ranking (escores st) true = remaining st /\
    (flat (remaining st) = [] -> cands pr = [] /\ ballots pr = []).
Proof. exact (seqrcv_get_profile cand ceqb ceqb_spec). Qed.

(* ---------- R5: TopTwo and Alaska ---------- *)

(* TopTwo whose three records show no tiebreak: it consumed no draw; the records are
   [s0; s1; s2]; p1 = p without the candidates eliminated in round 1, p2 = p1 without the winner;
   for every valid index, get_profile returns from every state, untouched, the stage profile
   p / p1 / p2 of the round addressed, whose candidates are the recorded remaining ones and whose
   first-place tallies are the recorded scores *)
Theorem c09_toptwo_get_profile : forall tb (p : profile) (s s' : mstate) sts,
  NoDup (cands p) -> run_toptwo tb p s = inl (sts, s') -> Forall no_tiebreak sts ->
  s' = s /\
  exists s0 s1 s2 p1 p2,
    sts = [s0; s1; s2] /\
    remove_cand_prof (flat (eliminated s1)) true false p = inl p1 /\
    remove_cand_prof (flat (elected s2)) true false p1 = inl p2 /\
    forall i, in_range 3 i ->
      exists pr st, nth_error [p; p1; p2] (round_of 3 i) = Some pr /\
        nth_error sts (round_of 3 i) = Some st /\
        (forall sx : mstate, get_profile (RTopTwo tb) p sts i sx = inl (pr, sx)) /\
        first_place_votes pr = inl (escores st) /\
        Permutation (cands pr) (flat (remaining st)).
Proof. exact (toptwo_get_profile cand ceqb ceqb_spec). Qed.

(* Alaska (non-random transfer) whose records show no tiebreak: it consumed no draw; the records
   are s0, s1 and the renumbered records 1.. of the inner STV(m2) run [ssts] on p1 = p without the
   candidates eliminated in round 1; that inner run has a trace [ps] starting at p1; for every
   valid index, get_profile returns from every state, untouched, p for round 0, p1 for round 1 and
   the inner trace profile k-1 for round k >= 2, whose candidates are the recorded remaining ones
   and whose first-place tallies are the recorded scores *)
Theorem c09_alaska_get_profile : forall m1 m2 cfg (p : profile) (s s' : mstate) sts,
  s_transfer cfg <> TRandom -> NoDup (cands p) ->
  run_alaska m1 m2 cfg p s = inl (sts, s') -> Forall no_tiebreak sts ->
  s' = s /\
  exists s0 s1 p1 ssts t ps ss,
    sts = s0 :: s1 :: map (bump cand) (tl ssts) /\
    remove_cand_prof (flat (eliminated s1)) true false p = inl p1 /\
    run_stv (with_m cfg m2) p1 s = inl (ssts, s) /\
    stv_init (with_m cfg m2) p1 = inl t /\
    stv_trace (with_m cfg m2) t p1 ssts ps ss /\ nth_error ps 0 = Some p1 /\
    forall i, in_range (length sts) i ->
      exists pr st, nth_error (p :: ps) (round_of (length sts) i) = Some pr /\
        nth_error sts (round_of (length sts) i) = Some st /\
        (forall sx : mstate, get_profile (RAlaska m1 m2 cfg) p sts i sx = inl (pr, sx)) /\
        first_place_votes pr = inl (escores st) /\
        Permutation (cands pr) (flat (remaining st)).
Proof. exact (alaska_get_profile cand ceqb ceqb_spec). Qed.

End C09_replay.

Print Assumptions c09_stv_trace.
Print Assumptions c09_stv_trace_valid.
Print Assumptions c09_stv_replay_is_run.
Print Assumptions c09_stv_profile_cands.
Print Assumptions c09_stv_rescoring.
Print Assumptions c09_stv_get_profile.
Print Assumptions c09_wrapper_trace.
Print Assumptions c09_wrapper_get_profile.
Print Assumptions c09_irv_get_profile.
Print Assumptions c09_seqrcv_get_profile.
Print Assumptions c09_toptwo_get_profile.
Print Assumptions c09_alaska_get_profile.

(* ---------- non-vacuity ---------- *)
Module C09ReplayExamples.
Open Scope positive_scope.

Definition bal1 (r : list positive) (w : Q) : ballot positive :=
  mkBallot (map (fun c => [c]) r) w [] None None.
Definition no_script : mstate positive := mkM [] [].
Definition states_of (x : res (list (estate positive) * mstate positive)) : list (estate positive) :=
  match x with inl (sts, _) => sts | inr _ => [] end.

(* what get_profile(i) returns (from the empty script), with the record the index addresses *)
Definition answer (r : rule) (p : profile positive) (sts : list (estate positive)) (i : Z)
  : option (profile positive * estate positive) :=
  match get_profile positive Pos.eqb r p sts i no_script,
        nth_error sts (round_of (length sts) i) with
  | inl (pr, _), Some st => Some (pr, st)
  | _, _ => None
  end.
(* the profile returned has the remaining candidates (as a set) and re-scores to the record *)
Definition consistent (a : option (profile positive * estate positive)) : Prop :=
  match a with
  | Some (pr, st) =>
      cset_eqb positive Pos.eqb (cands pr) (flat positive (remaining st)) = true /\
      first_place_votes positive Pos.eqb pr = inl (escores st)
  | None => False
  end.

(* STV, 4 candidates, 3 seats, Droop quota floor(13/4)+1 = 4:
   A>C x6, B x4, C x1, D>C x2.  Round 1 elects A and B (A's surplus 2 goes to C), round 2
   eliminates D, round 3 elects C by default (one candidate left for one seat) and empties the
   profile. *)
Definition ex_p : profile positive :=
  mkProfile [bal1 [1; 3] 6%Q; bal1 [2] 4%Q; bal1 [3] 1%Q; bal1 [4; 3] 2%Q] [1; 2; 3; 4].
Definition ex_cfg : stv_cfg := mkStv 3%Z QDroop true TFractional None.
Definition ex_sts := Eval vm_compute in states_of (run_stv positive Pos.eqb ex_cfg ex_p no_script).

(* the hypotheses of c09_stv_get_profile hold for every index *)
Example ex_hyps :
  wf_stv_profile positive ex_p /\ s_transfer ex_cfg <> TRandom /\
  run_stv positive Pos.eqb ex_cfg ex_p no_script = inl (ex_sts, no_script) /\
  length ex_sts = 4%nat /\ Forall (no_tiebreak positive) ex_sts /\
  map (fun st => (elected st, eliminated st)) ex_sts
    = [([[]], [[]]); ([[1]; [2]], [[]]); ([[]], [[4]]); ([[3]], [[]])].
Proof.
  split; [apply (wf_stv_profile_b_ok positive Pos.eqb Pos.eqb_spec); vm_compute; reflexivity|].
  split; [discriminate|]. split; [vm_compute; reflexivity|]. split; [reflexivity|].
  split; [repeat constructor|reflexivity].
Qed.

(* and the conclusion, computed: rounds 0..3 (and -1 = round 3) *)
Example ex_replay :
  consistent (answer (RSTV ex_cfg) ex_p ex_sts 0) /\
  consistent (answer (RSTV ex_cfg) ex_p ex_sts 1) /\
  consistent (answer (RSTV ex_cfg) ex_p ex_sts 2) /\
  consistent (answer (RSTV ex_cfg) ex_p ex_sts 3) /\
  consistent (answer (RSTV ex_cfg) ex_p ex_sts (-1)) /\
  answer (RSTV ex_cfg) ex_p ex_sts (-4) = answer (RSTV ex_cfg) ex_p ex_sts 0 /\
  map (fun i => match answer (RSTV ex_cfg) ex_p ex_sts i with
                | Some (pr, st) => (cands pr, flat positive (remaining st))
                | None => ([], [])
                end) [0; 1; 2; 3]%Z
    = [([1; 2; 3; 4], [1; 2; 4; 3]); ([3; 4], [3; 4]); ([3], [3]); ([], [])] /\
  (* the final, default-election round leaves the empty profile *)
  (match answer (RSTV ex_cfg) ex_p ex_sts 3 with
   | Some (pr, _) => cands pr = [] /\ ballots pr = []
   | None => False
   end) /\
  get_profile positive Pos.eqb (RSTV ex_cfg) ex_p ex_sts 4 no_script = inr EIndex.
Proof. vm_compute. repeat split. Qed.

(* the general theorem applied to the example, for index -2 (round 2) *)
Example ex_apply :
  exists pr st, nth_error ex_sts 2 = Some st /\
    (forall s2, get_profile positive Pos.eqb (RSTV ex_cfg) ex_p ex_sts (-2) s2 = inl (pr, s2)) /\
    Permutation (cands pr) (flat positive (remaining st)) /\
    first_place_votes positive Pos.eqb pr = inl (escores st).
Proof.
  destruct ex_hyps as [[Hwf _] [Hk [Hrun [_ [Hq _]]]]].
  assert (Hin : in_range (length ex_sts) (-2)) by (unfold in_range; cbn; split; discriminate).
  destruct (c09_stv_get_profile positive Pos.eqb Pos.eqb_spec ex_cfg ex_p no_script no_script ex_sts
              Hk Hwf Hrun (-2)%Z Hin) as [pr [st [Hst [Hget [_ [_ [Hperm [Hd _]]]]]]]].
  { vm_compute. repeat constructor. }
  exists pr, st. repeat split; assumption.
Qed.

(* IRV through its wrapper: A>B x4, B>A x3, C>B x2; C is eliminated, B wins on transfers *)
Definition irv_p : profile positive :=
  mkProfile [bal1 [1; 2] 4%Q; bal1 [2; 1] 3%Q; bal1 [3; 2] 2%Q] [1; 2; 3].
Definition irv_sts :=
  Eval vm_compute in states_of (run_wrule positive Pos.eqb (WIRV QDroop None) irv_p no_script).

Example ex_irv :
  run_wrule positive Pos.eqb (WIRV QDroop None) irv_p no_script = inl (irv_sts, no_script) /\
  Forall (no_tiebreak positive) irv_sts /\ length irv_sts = 3%nat /\
  consistent (answer (RSTV (mkStv 1 QDroop true TFractional None)) irv_p irv_sts 0) /\
  consistent (answer (RSTV (mkStv 1 QDroop true TFractional None)) irv_p irv_sts 1) /\
  consistent (answer (RSTV (mkStv 1 QDroop true TFractional None)) irv_p irv_sts 2).
Proof.
  split; [vm_compute; reflexivity|]. split; [repeat constructor|]. split; [reflexivity|].
  vm_compute. repeat split.
Qed.

(* TopTwo and Alaska(3, 1) on A>C x6, B>A x4, C>B x3, D>C x2 *)
Definition ak_p : profile positive :=
  mkProfile [bal1 [1; 3] 6%Q; bal1 [2; 1] 4%Q; bal1 [3; 2] 3%Q; bal1 [4; 3] 2%Q] [1; 2; 3; 4].
Definition ak_cfg : stv_cfg := mkStv 1%Z QDroop true TFractional None.
Definition tt_sts := Eval vm_compute in states_of (run_toptwo positive Pos.eqb None ak_p no_script).
Definition ak_sts :=
  Eval vm_compute in states_of (run_alaska positive Pos.eqb 3 1 ak_cfg ak_p no_script).

Example ex_toptwo :
  NoDup (cands ak_p) /\
  run_toptwo positive Pos.eqb None ak_p no_script = inl (tt_sts, no_script) /\
  Forall (no_tiebreak positive) tt_sts /\ length tt_sts = 3%nat /\
  consistent (answer (RTopTwo None) ak_p tt_sts 0) /\
  consistent (answer (RTopTwo None) ak_p tt_sts 1) /\
  consistent (answer (RTopTwo None) ak_p tt_sts 2) /\
  consistent (answer (RTopTwo None) ak_p tt_sts (-1)).
Proof.
  split; [repeat constructor; cbn; intuition discriminate|].
  split; [vm_compute; reflexivity|]. split; [repeat constructor|]. split; [reflexivity|].
  vm_compute. repeat split.
Qed.

Example ex_alaska :
  s_transfer ak_cfg <> TRandom /\
  run_alaska positive Pos.eqb 3 1 ak_cfg ak_p no_script = inl (ak_sts, no_script) /\
  Forall (no_tiebreak positive) ak_sts /\ length ak_sts = 4%nat /\
  consistent (answer (RAlaska 3 1 ak_cfg) ak_p ak_sts 0) /\
  consistent (answer (RAlaska 3 1 ak_cfg) ak_p ak_sts 1) /\
  consistent (answer (RAlaska 3 1 ak_cfg) ak_p ak_sts 2) /\
  consistent (answer (RAlaska 3 1 ak_cfg) ak_p ak_sts 3) /\
  consistent (answer (RAlaska 3 1 ak_cfg) ak_p ak_sts (-2)).
Proof.
  split; [discriminate|].
  split; [vm_compute; reflexivity|]. split; [repeat constructor|]. split; [reflexivity|].
  vm_compute. repeat split.
Qed.

End C09ReplayExamples.
