(* Properties/C12_margin.v — C12, "first-place, Borda and pairwise totals are unchanged by expanding
   ties" and "no removed candidate appears", read on what the LIBRARY FUNCTIONS return.
   Statements only; proofs are in Proofs/C12_margin.v.

   Vocabulary: [h2h bs a c] is the model of head2head_count (Model/Pairwise.v): the weight of the
   ballots on which a position containing a comes before any position containing c, a SHARED
   position counting fully for a (and, symmetrically, fully for c in h2h bs c a).
   [first_place_votes], [borda_scores], [mentions], [score_from_scores], [score_rankings] are the
   models of the scoring utilities (Model/Core.v): score dictionaries as lists of (candidate, score),
   keyed by [cands] of the profile; scoring first completes every ballot with add_missing.
   [score_of v bs c] = Σ_b wt b × points of c on b under the vector v.
   [wf_profile] (Spec/ScoreSpec.v): duplicate-free candidate list; every ballot has a non-empty
   ranking without empty positions, without repeated candidates, over the candidate list.

   Already in Properties/C12.v, C12_pairwise.v, C12_profile.v (not repeated here): positional scores
   [score_of v] of the expanded / resolved ballots for every vector v; head-to-head counts of the
   resolved profile as pair shares (1, 1/2, 0); equality of the counts for never-tied pairs. *)
From VK Require Import Base Core Pairwise.
From VK.Spec Require Import ScoreSpec.
From VK.Proofs Require Import C04_scoring C12_expand C12_margin.
From Coq Require Import Permutation.

Section C12_margin.
Variable cand : Type.
Variable ceqb : cand -> cand -> bool.
Hypothesis ceqb_spec : forall a b, reflect (a = b) (ceqb a b).

Notation ballot := (ballot cand).
Notation profile := (profile cand).
Notation scores := (scores cand).
Notation flat := (flat cand).
Notation expand_tied_ballot := (expand_tied_ballot cand).
Notation resolve_profile_ties := (resolve_profile_ties cand ceqb).
Notation remove_cand_prof := (remove_cand_prof cand ceqb).
Notation add_missing_ballot := (add_missing_ballot cand ceqb).
Notation add_missing := (add_missing cand ceqb).
Notation score_of := (score_of cand ceqb).
Notation score_rankings := (score_rankings cand ceqb).
Notation first_place_votes := (first_place_votes cand ceqb).
Notation borda_scores := (borda_scores cand ceqb).
Notation mentions := (mentions cand ceqb).
Notation score_from_scores := (score_from_scores cand ceqb).
Notation h2h := (h2h cand ceqb).
Notation wf_profile := (wf_profile cand).

(* ---------- 1. pairwise: the library's own count ---------- *)

(* the head-to-head MARGIN of every pair is unchanged by resolve_profile_ties, provided no position
   lists a candidate twice (the individual counts are not: c12_counts_invariant_refuted) *)
Theorem c12_margin_invariant : forall (p p' : profile),
  resolve_profile_ties p = inl p' ->
  Forall (fun b => Forall (@NoDup cand) (rk b)) (ballots p) ->
  forall a c,
  h2h (ballots p') a c - h2h (ballots p') c a == h2h (ballots p) a c - h2h (ballots p) c a.
Proof. exact (resolve_margin cand ceqb ceqb_spec). Qed.

(* ---------- 2. the score dictionaries of the resolved profile ---------- *)

(* Since the library fix "resolve_profile_ties keeps the profile's candidate list" the resolved
   profile has the candidate list of the tied one.  (Before the fix the candidates were re-inferred
   from the expanded ballots, a candidate nobody ranked disappeared, and the theorems below needed the
   premise [Permutation (cands p') (cands p)]: see ex_zero_vote_candidate.) *)

(* a non-empty candidate list is returned unchanged: same candidates, same order *)
Theorem c12_resolve_keeps_candidates : forall (p p' : profile),
  resolve_profile_ties p = inl p' -> cands p <> [] -> cands p' = cands p.
Proof. exact (C12_expand.resolve_keeps_candidates cand ceqb ceqb_spec). Qed.

(* (in every successful call both candidate lists are duplicate-free: c12_resolve_cands_NoDup in
   Properties/C12.v) *)

(* an EMPTY candidate list (model of PreferenceProfile(candidates=())) is the one case in which the
   candidates are still inferred: exactly the candidates ranked on a ballot of positive weight,
   together with the score keys of the positive-weight ballots WITHOUT a tie (such a ballot is passed
   on as it is; the expansions of a tied ballot carry no scores) *)
Theorem c12_resolve_inferred_candidates : forall (p p' : profile),
  resolve_profile_ties p = inl p' -> cands p = [] ->
  NoDup (cands p') /\
  forall c, In c (cands p') <->
    exists b, In b (ballots p) /\ 0 < wt b /\
      (In c (flat (rk b)) \/
       (Forall (fun g => length g = 1%nat) (rk b) /\ In c (map fst (sc b)))).
Proof. exact (resolve_inferred_candidates cand ceqb ceqb_spec). Qed.

(* ... but then the tied profile has a score dictionary only if it has no ballot at all (a ballot
   must rank somebody, and nobody is a known candidate: KeyError), and a profile without ballots is
   returned with its candidate list.  Hence: whenever the tied profile can be scored, and whenever
   it is well-formed, the candidate list is kept -- empty or not *)
Theorem c12_resolve_keeps_candidates_scored : forall (p p' : profile),
  resolve_profile_ties p = inl p' ->
  (forall v d, cands p = [] -> score_rankings p v = inl d -> ballots p = []) /\
  (ballots p = [] -> cands p' = cands p /\ ballots p' = []) /\
  (forall v d, score_rankings p v = inl d -> cands p' = cands p) /\
  (forall d, first_place_votes p = inl d -> cands p' = cands p) /\
  (forall d, borda_scores p = inl d -> cands p' = cands p) /\
  (wf_profile p -> cands p' = cands p).
Proof.
  intros p p' H. split; [|split; [|split; [|split; [|split]]]].
  - intros v d. exact (scored_no_cands cand ceqb ceqb_spec p v d).
  - exact (resolve_no_ballots cand ceqb ceqb_spec p p' H).
  - intros v d Hd. exact (resolve_cands_scored cand ceqb ceqb_spec p p' v d H Hd).
  - intros d Hd. exact (resolve_cands_scored cand ceqb ceqb_spec p p' _ d H Hd).
  - intros d Hd. exact (resolve_cands_scored cand ceqb ceqb_spec p p' _ d H Hd).
  - intros Hwf. exact (resolve_cands_wf cand ceqb ceqb_spec p p' Hwf H).
Qed.

(* first_place_votes and borda_scores of the tied and of the resolved profile are the same finite
   maps: same keys, and equal scores wherever both list the candidate.  NO premise on the
   candidates any more (was: Permutation (cands p') (cands p)) *)
Theorem c12_resolve_scores_invariant : forall (p p' : profile),
  resolve_profile_ties p = inl p' ->
  Forall (fun b => Forall (@NoDup cand) (rk b)) (ballots p) ->
  (forall d d', first_place_votes p = inl d -> first_place_votes p' = inl d' ->
     Permutation (map fst d') (map fst d) /\
     forall c q q', In (c, q) d -> In (c, q') d' -> q == q') /\
  (forall d d', borda_scores p = inl d -> borda_scores p' = inl d' ->
     Permutation (map fst d') (map fst d) /\
     forall c q q', In (c, q) d -> In (c, q') d' -> q == q').
Proof. exact (resolve_scores_invariant cand ceqb ceqb_spec). Qed.

(* the keys are even the same LIST *)
Theorem c12_resolve_score_keys : forall (p p' : profile),
  resolve_profile_ties p = inl p' ->
  forall v d d', score_rankings p v = inl d -> score_rankings p' v = inl d' -> map fst d' = map fst d.
Proof.
  intros p p' H v d d' Hd Hd'.
  rewrite (C04_scoring.score_rankings_keys cand ceqb p v d Hd),
          (C04_scoring.score_rankings_keys cand ceqb p' v d' Hd').
  exact (resolve_cands_scored cand ceqb ceqb_spec p p' v d H Hd).
Qed.

(* the same for score_profile_from_rankings with ANY explicitly given score vector *)
Theorem c12_resolve_score_rankings_invariant : forall (p p' : profile),
  resolve_profile_ties p = inl p' ->
  Forall (fun b => Forall (@NoDup cand) (rk b)) (ballots p) ->
  forall v d d', score_rankings p v = inl d -> score_rankings p' v = inl d' ->
    Permutation (map fst d') (map fst d) /\
    forall c q q', In (c, q) d -> In (c, q') d' -> q == q'.
Proof. exact (resolve_score_rankings cand ceqb ceqb_spec). Qed.

(* on a well-formed profile the resolved profile is well-formed again, over the same candidate
   list, and its score dictionaries exist whenever those of the tied profile do *)
Theorem c12_resolve_scores_defined : forall (p p' : profile), wf_profile p ->
  resolve_profile_ties p = inl p' ->
  wf_profile p' /\ cands p' = cands p /\
  (forall d, first_place_votes p = inl d -> exists d', first_place_votes p' = inl d') /\
  (forall d, borda_scores p = inl d -> exists d', borda_scores p' = inl d') /\
  (forall v d, score_rankings p v = inl d -> exists d', score_rankings p' v = inl d').
Proof.
  exact (fun p p' Hwf Hres =>
    conj (resolve_wf cand ceqb ceqb_spec p p' Hwf Hres)
      (conj (resolve_cands_wf cand ceqb ceqb_spec p p' Hwf Hres)
         (conj (proj1 (resolve_fpv_borda_defined cand ceqb ceqb_spec p p' Hwf Hres))
            (conj (proj2 (resolve_fpv_borda_defined cand ceqb ceqb_spec p p' Hwf Hres))
                  (resolve_scores_defined cand ceqb ceqb_spec p p' Hwf Hres))))).
Qed.

(* ---------- 3. remove_cand on a profile: no removed candidate anywhere ---------- *)

(* not among the candidates of the returned profile, not in a ranking, not in a score dictionary of
   one of its ballots *)
Theorem c12_remove_cand_profile_clean : forall removed cf lz (p p' : profile),
  remove_cand_prof removed cf lz p = inl p' ->
  (forall c, In c removed -> ~ In c (cands p')) /\
  (forall b, In b (ballots p') -> forall c, In c removed ->
     ~ In c (flat (rk b)) /\ ~ In c (map fst (sc b))).
Proof. exact (remove_prof_clean cand ceqb ceqb_spec). Qed.

(* every score dictionary computed from the returned profile is keyed by exactly its candidates,
   hence has no removed candidate as key *)
Theorem c12_remove_cand_score_keys : forall removed cf lz (p p' : profile),
  remove_cand_prof removed cf lz p = inl p' ->
  forall d,
    (first_place_votes p' = inl d \/ borda_scores p' = inl d \/ mentions p' = inl d \/
     score_from_scores p' = inl d \/ exists v, score_rankings p' v = inl d) ->
    map fst d = cands p' /\ forall c, In c removed -> ~ In c (map fst d).
Proof. exact (remove_cand_score_keys cand ceqb ceqb_spec). Qed.

(* ---------- 4. per ballot ---------- *)

(* expand_tied_ballot.  (Positional scores of the expanded ballots themselves, for every vector:
   c12_expand_preserves_scores in Properties/C12.v.)  New here:
   - w.r.t. a FIXED candidate list cs: completing every expanded ballot with add_missing_ballot cs
     scores, for every vector v (first-place and Borda vectors of any length included) and every
     candidate, exactly as completing the tied ballot does;
   - the head-to-head margin of every pair is the tied ballot's *)
Theorem c12_expand_scores_preserved : forall (b : ballot) out,
  expand_tied_ballot b = inl out ->
  (forall v cs bm outm c,
     add_missing_ballot cs b = inl bm -> rmap (add_missing_ballot cs) out = inl outm ->
     score_of v outm c == score_of v [bm] c) /\
  (Forall (@NoDup cand) (rk b) -> forall a c,
     h2h out a c - h2h out c a == h2h [b] a c - h2h [b] c a).
Proof. exact (expand_scores_preserved cand ceqb ceqb_spec). Qed.

(* add_missing_ballot cs (the appended last-place tie).  Preserved:
   - every positional score of a candidate listed on the ballot (or outside cs), every vector;
   - the first-place score of EVERY candidate, as soon as the ballot lists somebody;
   - both head-to-head counts of a pair with a member listed on the ballot;
   - the margin of a pair of candidates of cs (or both outside cs).
   Not preserved: c12_add_missing_unlisted_refuted. *)
Theorem c12_add_missing_scores_preserved : forall cs (b b' : ballot),
  add_missing_ballot cs b = inl b' ->
  (forall v c, In c (flat (rk b)) \/ ~ In c cs -> score_of v [b'] c == score_of v [b] c) /\
  (flat (rk b) <> [] -> forall n c,
     score_of (fpv_vector n) [b'] c == score_of (fpv_vector n) [b] c) /\
  (forall a c, In a (flat (rk b)) \/ In c (flat (rk b)) -> h2h [b'] a c == h2h [b] a c) /\
  (forall a c, (In a cs <-> In c cs) ->
     h2h [b'] a c - h2h [b'] c a == h2h [b] a c - h2h [b] c a).
Proof. exact (add_missing_scores_preserved cand ceqb ceqb_spec). Qed.

(* the profile: the scoring utilities complete the ballots themselves, so add_missing_cands changes
   neither first_place_votes nor borda_scores (unlisted candidates included) *)
Theorem c12_add_missing_profile_scores : forall (p q : profile), add_missing p = inl q ->
  NoDup (cands p) -> Forall (fun b => Forall (@NoDup cand) (rk b)) (ballots p) ->
  (forall d d', first_place_votes p = inl d -> first_place_votes q = inl d' ->
     Permutation (map fst d') (map fst d) /\
     forall c x x', In (c, x) d -> In (c, x') d' -> x == x') /\
  (forall d d', borda_scores p = inl d -> borda_scores q = inl d' ->
     Permutation (map fst d') (map fst d) /\
     forall c x x', In (c, x) d -> In (c, x') d' -> x == x').
Proof. exact (add_missing_profile_scores cand ceqb ceqb_spec). Qed.

End C12_margin.

(* ---------- refuted statements (witnesses over cand := positive) ---------- *)

(* the individual head-to-head counts of the library change: profile {1,2} x1, pair (1,2):
   1 before, 1/2 after *)
Theorem c12_counts_invariant_refuted :
  exists (p p' : Core.profile positive) a c,
    Core.resolve_profile_ties positive Pos.eqb p = inl p' /\
    Forall (fun b => Forall (@NoDup positive) (rk b)) (ballots p) /\
    ~ Pairwise.h2h positive Pos.eqb (ballots p') a c == Pairwise.h2h positive Pos.eqb (ballots p) a c.
Proof. exact C12MarginWitness.counts_invariant_refuted. Qed.

(* without the duplicate-free-positions premise the margin changes ([[1;1;2]]: 0 before, 1/3 after);
   model level only, a frozenset cannot hold a candidate twice *)
Theorem c12_margin_dup_position_refuted :
  exists (p p' : Core.profile positive) a c,
    Core.resolve_profile_ties positive Pos.eqb p = inl p' /\
    ~ Pairwise.h2h positive Pos.eqb (ballots p') a c - Pairwise.h2h positive Pos.eqb (ballots p') c a ==
      Pairwise.h2h positive Pos.eqb (ballots p) a c - Pairwise.h2h positive Pos.eqb (ballots p) c a.
Proof. exact C12MarginWitness.margin_dup_position_refuted. Qed.

(* The witness that REFUTED c12_resolve_scores_invariant (without "same candidate set") before the
   library fix "resolve_profile_ties keeps the profile's candidate list": candidates (1,2,3), ballots
   {1,2} x2, 1 x1; candidate 3 has no votes.  resolve_profile_ties used to infer the candidates
   {1,2} from the ballots, the default Borda vector shrank from (3,2,1) to (2,1): Borda 1: 8 -> 5,
   2: 13/2 -> 4, 3: 7/2 -> no key, and first_place_votes lost the key 3.  The former theorem
   c12_resolve_scores_invariant_refuted is now FALSE for the model; on this very witness the candidate
   list is kept and both dictionaries are unchanged: Borda 8, 13/2, 7/2 and first place 2, 1, 0,
   before and after *)
Example ex_zero_vote_candidate :
  exists p' : Core.profile positive,
    Core.resolve_profile_ties positive Pos.eqb
      (mkProfile [plain_ballot positive [[1; 2]] 2; plain_ballot positive [[1]] 1] [1; 2; 3])%positive
      = inl p' /\
    cands p' = [1; 2; 3]%positive /\
    map rk (ballots p') = [[[1]; [2]]; [[2]; [1]]; [[1]]]%positive /\
    (exists d d',
       Core.borda_scores positive Pos.eqb
         (mkProfile [plain_ballot positive [[1; 2]] 2; plain_ballot positive [[1]] 1] [1; 2; 3])%positive
         = inl d /\
       Core.borda_scores positive Pos.eqb p' = inl d' /\
       map fst d = [1; 2; 3]%positive /\ map fst d' = [1; 2; 3]%positive /\
       Forall2 Qeq (map snd d) [8; 13 # 2; 7 # 2] /\
       Forall2 Qeq (map snd d') [8; 13 # 2; 7 # 2]) /\
    (exists d d',
       Core.first_place_votes positive Pos.eqb
         (mkProfile [plain_ballot positive [[1; 2]] 2; plain_ballot positive [[1]] 1] [1; 2; 3])%positive
         = inl d /\
       Core.first_place_votes positive Pos.eqb p' = inl d' /\
       map fst d = [1; 2; 3]%positive /\ map fst d' = [1; 2; 3]%positive /\
       Forall2 Qeq (map snd d) [2; 1; 0] /\
       Forall2 Qeq (map snd d') [2; 1; 0]).
Proof. exact C12MarginWitness.resolve_scores_zero_vote_candidate. Qed.

(* with an EMPTY candidate list the candidates are still inferred ({1,2} here); the tied profile
   cannot be scored (KeyError), the resolved one can: the invariance theorems hold vacuously *)
Example ex_inferred_candidates :
  exists p' d',
    Core.resolve_profile_ties positive Pos.eqb
      (mkProfile [plain_ballot positive [[1; 2]] 2; plain_ballot positive [[1]] 1] [])%positive = inl p' /\
    Permutation (cands p') [1; 2]%positive /\
    Core.borda_scores positive Pos.eqb
      (mkProfile [plain_ballot positive [[1; 2]] 2; plain_ballot positive [[1]] 1] [])%positive = inr EKey /\
    Core.borda_scores positive Pos.eqb p' = inl d' /\ length d' = 2%nat.
Proof. exact C12MarginWitness.resolve_inferred_scores. Qed.

(* add_missing_ballot [1;2;3] on the ballot "1": the unlisted candidate 2 gains Borda points
   (0 -> 3/2), the unlisted pair (2,3) gains a full count (0 -> 1), the margin of 2 against the
   outsider 4 changes (0 -> 1) *)
Theorem c12_add_missing_unlisted_refuted :
  exists cs (b b' : Core.ballot positive),
    Core.add_missing_ballot positive Pos.eqb cs b = inl b' /\
    ~ Core.score_of positive Pos.eqb (borda_vector 3) [b'] 2%positive ==
      Core.score_of positive Pos.eqb (borda_vector 3) [b] 2%positive /\
    ~ Pairwise.h2h positive Pos.eqb [b'] 2%positive 3%positive ==
      Pairwise.h2h positive Pos.eqb [b] 2%positive 3%positive /\
    ~ Pairwise.h2h positive Pos.eqb [b'] 2%positive 4%positive -
      Pairwise.h2h positive Pos.eqb [b'] 4%positive 2%positive ==
      Pairwise.h2h positive Pos.eqb [b] 2%positive 4%positive -
      Pairwise.h2h positive Pos.eqb [b] 4%positive 2%positive.
Proof. exact C12MarginWitness.add_missing_unlisted_refuted. Qed.

Print Assumptions c12_margin_invariant.
Print Assumptions c12_resolve_keeps_candidates.
Print Assumptions c12_resolve_inferred_candidates.
Print Assumptions c12_resolve_keeps_candidates_scored.
Print Assumptions c12_resolve_scores_invariant.
Print Assumptions c12_resolve_score_keys.
Print Assumptions c12_resolve_score_rankings_invariant.
Print Assumptions c12_resolve_scores_defined.
Print Assumptions c12_remove_cand_profile_clean.
Print Assumptions c12_remove_cand_score_keys.
Print Assumptions c12_expand_scores_preserved.
Print Assumptions c12_add_missing_scores_preserved.
Print Assumptions c12_add_missing_profile_scores.
Print Assumptions c12_counts_invariant_refuted.
Print Assumptions c12_margin_dup_position_refuted.
Print Assumptions ex_zero_vote_candidate.
Print Assumptions ex_inferred_candidates.
Print Assumptions c12_add_missing_unlisted_refuted.

(* ---------- non-vacuity (cand := positive) ---------- *)
Module C12MarginExamples.
Local Open Scope positive_scope.

Definition pb (r : list (list positive)) (w : Q) : Core.ballot positive := plain_ballot positive r w.

Ltac nodup_pos := repeat (constructor; [cbn; intuition discriminate|]); constructor.

(* a tied profile in which every candidate receives votes: {1,2}>3 x3, 2>1 x1, 1>2>3 x2 *)
Definition p0 : Core.profile positive :=
  mkProfile [pb [[1; 2]; [3]] 3; pb [[2]; [1]] 1; pb [[1]; [2]; [3]] 2] [1; 2; 3].

(* the hypotheses of c12_margin_invariant / c12_resolve_scores_invariant / _defined hold, the
   candidate list is kept, the counts move (5 -> 7/2 and 4 -> 5/2) while the margin stays 1; both Borda dictionaries exist and
   agree: 1 -> 31/2, 2 -> 29/2, 3 -> 6 *)
Example ex_resolve :
  exists p', Core.resolve_profile_ties positive Pos.eqb p0 = inl p' /\
    cands p' = cands p0 /\
    Forall (fun b => Forall (@NoDup positive) (rk b)) (ballots p0) /\
    ScoreSpec.wf_profile positive p0 /\
    Pairwise.h2h positive Pos.eqb (ballots p0) 1 2 == 5 /\
    Pairwise.h2h positive Pos.eqb (ballots p0) 2 1 == 4 /\
    Pairwise.h2h positive Pos.eqb (ballots p') 1 2 == (7 # 2) /\
    Pairwise.h2h positive Pos.eqb (ballots p') 2 1 == (5 # 2) /\
    (exists d d', Core.borda_scores positive Pos.eqb p0 = inl d /\
                  Core.borda_scores positive Pos.eqb p' = inl d' /\
                  (exists q, In (1, q) d /\ q == 31 # 2) /\ (exists q, In (3, q) d' /\ q == 6) /\
                  length d' = 3%nat) /\
    (exists d d', Core.first_place_votes positive Pos.eqb p0 = inl d /\
                  Core.first_place_votes positive Pos.eqb p' = inl d' /\ length d' = 3%nat).
Proof.
  eexists. split; [vm_compute; reflexivity|]. split.
  { reflexivity. }
  split.
  { repeat (constructor; [repeat (constructor; [nodup_pos|]); constructor|]). constructor. }
  split.
  { split; [nodup_pos|].
    repeat (constructor; [split; [discriminate|]; split;
                          [repeat (constructor; [discriminate|]); constructor|];
                          split; [nodup_pos|intros x Hx; cbn in Hx |- *; tauto]|]).
    constructor. }
  repeat split; try (vm_compute; reflexivity).
  - eexists. eexists. split; [vm_compute; reflexivity|]. split; [vm_compute; reflexivity|].
    split; [eexists; split; [left; reflexivity|vm_compute; reflexivity]|].
    split; [eexists; split; [right; right; left; reflexivity|vm_compute; reflexivity]|reflexivity].
  - eexists. eexists. split; [vm_compute; reflexivity|]. split; [vm_compute; reflexivity|reflexivity].
Qed.

(* an instance of the theorems on p0 *)
Example ex_instance : forall p',
  Core.resolve_profile_ties positive Pos.eqb p0 = inl p' ->
  Pairwise.h2h positive Pos.eqb (ballots p') 1 2 - Pairwise.h2h positive Pos.eqb (ballots p') 2 1 == 1.
Proof.
  intros p' H.
  rewrite (c12_margin_invariant positive Pos.eqb Pos.eqb_spec p0 p' H).
  - vm_compute. reflexivity.
  - repeat (constructor; [repeat (constructor; [nodup_pos|]); constructor|]). constructor.
Qed.

(* remove_cand: candidate 2 removed from a profile with rankings and scores; it is no key of the
   Borda dictionary of the result *)
Definition p1 : Core.profile positive :=
  mkProfile [pb [[1]; [2]; [3]] 2; pb [[2]] 1; mkBallot [[3]; [2]] 1 [(2, 1%Q)] None None] [1; 2; 3].

Example ex_remove :
  exists p' d, Core.remove_cand_prof positive Pos.eqb [2] true false p1 = inl p' /\
    cands p' = [1; 3] /\ length (ballots p') = 2%nat /\
    Core.borda_scores positive Pos.eqb p' = inl d /\ map fst d = [1; 3].
Proof. eexists. eexists. repeat split; vm_compute; reflexivity. Qed.

(* all candidates removed: the candidates are inferred from the (empty) result *)
Example ex_remove_all :
  exists p', Core.remove_cand_prof positive Pos.eqb [1; 2; 3] true false p1 = inl p' /\
    cands p' = [] /\ ballots p' = [].
Proof. eexists. repeat split; vm_compute; reflexivity. Qed.

(* per ballot: {1,2}>3 completed to the candidates 1..4, Borda vector (4,3,2,1): candidate 4 gets
   the last point from the tied ballot and from the completed expansion alike *)
Example ex_expand_completed :
  exists out bm outm,
    Core.expand_tied_ballot positive (pb [[1; 2]; [3]] 3) = inl out /\ length out = 2%nat /\
    Core.add_missing_ballot positive Pos.eqb [1; 2; 3; 4] (pb [[1; 2]; [3]] 3) = inl bm /\
    rmap (Core.add_missing_ballot positive Pos.eqb [1; 2; 3; 4]) out = inl outm /\
    Core.score_of positive Pos.eqb (borda_vector 4) outm 4 == 3 /\
    Core.score_of positive Pos.eqb (borda_vector 4) [bm] 4 == 3 /\
    Core.score_of positive Pos.eqb (borda_vector 4) outm 1 == (21 # 2) /\
    Core.score_of positive Pos.eqb (borda_vector 4) [bm] 1 == (21 # 2).
Proof. eexists. eexists. eexists. repeat split; vm_compute; reflexivity. Qed.

(* add_missing_ballot on 2>1 with candidates 1..4: listed candidates keep their Borda points, first
   place is unchanged for the unlisted 3, the pair (2,3) keeps its counts, the margin of the two
   unlisted candidates 3, 4 stays 0 although both counts rise from 0 to the weight *)
Example ex_add_missing :
  exists b', Core.add_missing_ballot positive Pos.eqb [1; 2; 3; 4] (pb [[2]; [1]] 5) = inl b' /\
    rk b' = [[2]; [1]; [3; 4]] /\
    Core.score_of positive Pos.eqb (borda_vector 4) [b'] 1 == 15 /\
    Core.score_of positive Pos.eqb (borda_vector 4) [pb [[2]; [1]] 5] 1 == 15 /\
    Core.score_of positive Pos.eqb (fpv_vector 4) [b'] 3 == 0 /\
    Pairwise.h2h positive Pos.eqb [b'] 2 3 == 5 /\
    Pairwise.h2h positive Pos.eqb [pb [[2]; [1]] 5] 2 3 == 5 /\
    Pairwise.h2h positive Pos.eqb [b'] 3 4 == 5 /\ Pairwise.h2h positive Pos.eqb [b'] 4 3 == 5 /\
    Pairwise.h2h positive Pos.eqb [pb [[2]; [1]] 5] 3 4 == 0.
Proof. eexists. repeat split; vm_compute; reflexivity. Qed.

(* add_missing at profile level: short ballots, Borda unchanged (candidate 3: 7/2 both times) *)
Definition p2 : Core.profile positive := mkProfile [pb [[1; 2]] 2; pb [[1]] 1] [1; 2; 3].

Example ex_add_missing_profile :
  exists q d d', Core.add_missing positive Pos.eqb p2 = inl q /\
    Core.borda_scores positive Pos.eqb p2 = inl d /\ Core.borda_scores positive Pos.eqb q = inl d' /\
    In (3, 7 # 2) d /\ In (3, 7 # 2) d' /\ NoDup (cands p2).
Proof.
  eexists. eexists. eexists. split; [vm_compute; reflexivity|]. split; [vm_compute; reflexivity|].
  split; [vm_compute; reflexivity|]. split; [right; right; left; reflexivity|].
  split; [right; right; left; reflexivity|nodup_pos].
Qed.

End C12MarginExamples.
