(* Properties/C04.v — C04: positional scores follow the definition exactly; Plurality/SNTV/Borda
   elect the top m.  Statements only; proofs are in Proofs/C04_scoring.v and Proofs/Elect.v.
   Specification vocabulary (wf_profile, valid_vector, entry, span_mean, ballot_alloc,
   tb_profile_ok) is in Spec/ScoreSpec.v. *)
From VK Require Import Base Core.
From VK.Spec Require Import ScoreSpec.
From VK.Proofs Require Import Lib_sets C04_scoring Elect.
From Coq Require Import Permutation.

Section C04.
Variable cand : Type.
Variable ceqb : cand -> cand -> bool.
Hypothesis ceqb_spec : forall a b, reflect (a = b) (ceqb a b).

Notation cset := (cset cand).
Notation ranking := (ranking cand).
Notation ballot := (ballot cand).
Notation profile := (profile cand).
Notation scores := (scores cand).
Notation mstate := (mstate cand).
Notation flat := (flat cand).
Notation memb := (memb cand ceqb).
Notation singletons := (singletons cand).
Notation group_allocs := (group_allocs cand).
Notation alloc_of := (alloc_of cand ceqb).
Notation score_rankings := (score_rankings cand ceqb).
Notation first_place_votes := (first_place_votes cand ceqb).
Notation borda_scores := (borda_scores cand ceqb).
Notation mentions := (mentions cand ceqb).
Notation score_to_ranking := (score_to_ranking cand).
Notation elect_top_m := (elect_top_m cand ceqb).
Notation ballot_alloc := (ballot_alloc cand ceqb).
Notation wf_ranking := (wf_ranking cand).
Notation wf_profile := (wf_profile cand).
Notation tb_profile_ok := (tb_profile_ok cand).

(* validate_score_vector accepts exactly the non-negative, non-increasing vectors *)
Theorem c04_vector_valid : forall v : list Q, validate_vector v = inl tt <-> valid_vector v.
Proof. exact validate_vector_iff. Qed.

(* every well-formed profile is scored with every valid vector (of any length) *)
Theorem c04_scored : forall (p : profile) (v : list Q),
  wf_profile p -> valid_vector v -> exists d, score_rankings p v = inl d.
Proof. exact (c04_scored_proof cand ceqb ceqb_spec). Qed.

(* each candidate's score is the weight-summed allocation of the ORIGINAL ballots, where
   [ballot_alloc] (Spec/ScoreSpec.v) gives a listed candidate the mean of the vector entries its
   position group spans and lets the unlisted candidates share the next entries equally *)
Theorem c04_definition : forall (p : profile) (v : list Q) (d : scores),
  wf_profile p -> score_rankings p v = inl d ->
  map fst d = cands p /\
  forall c q, In (c, q) d ->
    q == qsum (map (fun b => wt b * ballot_alloc (cands p) v (rk b) c) (ballots p)).
Proof. exact (c04_definition_proof cand ceqb ceqb_spec). Qed.

(* exact arithmetic: the points handed out sum to total weight times the vector total over the n
   awarded positions (entries beyond the vector's end count 0 = zero padding) *)
Theorem c04_total : forall (p : profile) (v : list Q) (d : scores),
  wf_profile p -> score_rankings p v = inl d ->
  let n := length (cands p) in
  map fst d = cands p /\
  qsum (map snd d) == total_wt cand (ballots p) * qsum (map (entry v) (seq 0 n)) /\
  qsum (map snd d) == total_wt cand (ballots p) * qsum (firstn n (pad_to n v)).
Proof. exact (c04_total_proof cand ceqb ceqb_spec). Qed.

(* per ballot: the specified allocations of one ballot sum to the vector total; and the model's
   [group_allocs] hands the first |flat r| entries to exactly the candidates of r *)
Theorem c04_ballot_total :
  (forall (cs : cset) (r : ranking) (v : list Q), NoDup cs -> wf_ranking cs r ->
     qsum (map (ballot_alloc cs v r) cs) == qsum (map (entry v) (seq 0 (length cs)))) /\
  (forall (r : ranking) (v : list Q),
     map fst (group_allocs v r) = flat r /\
     qsum (map snd (group_allocs v r)) == qsum (firstn (length (flat r)) v)).
Proof. exact (c04_ballot_total_proof cand ceqb ceqb_spec). Qed.

(* candidates tied in a position receive the same points from the ballot *)
Theorem c04_tied_equal : forall (r : ranking) (g : cset) (c1 c2 : cand),
  NoDup (flat r) -> In g r -> In c1 g -> In c2 g ->
  (forall cs v, ballot_alloc cs v r c1 = ballot_alloc cs v r c2) /\
  (forall v, alloc_of c1 (group_allocs v r) == alloc_of c2 (group_allocs v r)).
Proof. exact (c04_tied_equal_proof cand ceqb ceqb_spec). Qed.

(* on an untied ballot the candidate in position i receives exactly entry i of the vector *)
Theorem c04_untied_full : forall (l : list cand) (i : nat) (c0 : cand),
  NoDup l -> (i < length l)%nat ->
  (forall cs v, ballot_alloc cs v (singletons l) (nth i l c0) == entry v i) /\
  (forall v, alloc_of (nth i l c0) (group_allocs v (singletons l)) == nth i v 0).
Proof. exact (c04_untied_full_proof cand ceqb ceqb_spec). Qed.

(* first-place votes: the vector (1,0,...,0); every ballot gives weight/|first group| to each
   member of its first group and nothing to anybody else *)
Theorem c04_fpv_special : forall (p : profile) (d : scores),
  wf_profile p -> first_place_votes p = inl d ->
  first_place_votes p = score_rankings p (1 :: repeat 0 (length (cands p))) /\
  map fst d = cands p /\
  forall c q, In (c, q) d ->
    q == qsum (map (fun b => if memb c (hd [] (rk b))
                             then wt b / Qnat (length (hd [] (rk b))) else 0) (ballots p)).
Proof. exact (c04_fpv_special_proof cand ceqb ceqb_spec). Qed.

(* Borda: the vector (n, n-1, ..., 1), i.e. entry i is n - i *)
Theorem c04_borda_special : forall (p : profile) (d : scores),
  wf_profile p -> borda_scores p = inl d ->
  let n := length (cands p) in
  (forall i, entry (borda_vector n) i == Qnat (n - i)) /\
  map fst d = cands p /\
  forall c q, In (c, q) d ->
    q == qsum (map (fun b => wt b * ballot_alloc (cands p) (borda_vector n) (rk b) c) (ballots p)).
Proof. exact (c04_borda_special_proof cand ceqb ceqb_spec). Qed.

(* mentions: total weight of the ballots listing the candidate *)
Theorem c04_mentions : forall (p : profile),
  (wf_profile p -> exists d, mentions p = inl d) /\
  (forall d, mentions p = inl d ->
     map fst d = cands p /\
     forall c q, In (c, q) d ->
       q = qsum (map (fun b => if memb c (flat (rk b)) then wt b else 0) (ballots p))).
Proof. exact (c04_mentions_proof cand ceqb ceqb_spec). Qed.

(* score_dict_to_ranking (high to low): a partition of the candidates into non-empty groups,
   same group iff equal score, earlier groups strictly higher than later ones *)
Theorem c04_ranking_groups : forall (d : scores),
  d <> [] -> NoDup (map fst d) ->
  let r := score_to_ranking d true in
  Permutation (flat r) (map fst d) /\
  (forall g, In g r -> g <> []) /\
  (forall c1 c2 q1 q2, In (c1, q1) d -> In (c2, q2) d ->
     ((exists g, In g r /\ In c1 g /\ In c2 g) <-> q1 == q2)) /\
  (forall pre g1 mid g2 post c1 c2 q1 q2,
     r = pre ++ g1 :: mid ++ g2 :: post ->
     In c1 g1 -> In c2 g2 -> In (c1, q1) d -> In (c2, q2) d -> q2 < q1).
Proof. exact (c04_ranking_groups_proof cand). Qed.

(* the Plurality/SNTV/Borda step: electing m seats from the ranking of a score list.
   Whenever it returns: exactly m elected; elected and remaining partition the candidates; no
   elected candidate scores less than a remaining one; groups are reported in descending score
   order (strictly, except inside the one group split by the recorded tie-break); members of a
   reported group have equal scores; candidates of equal score are reported tied unless the
   recorded tie-break separated them; without a recorded tie-break the ranking is unchanged; a
   recorded tie-break is a linear order of one whole group of the ranking. *)
Theorem c04_top_m : forall (d : scores) (m : Z) (p : option profile) (tb : option tb_kind)
    (s s' : mstate) (el rem : ranking) (tbi : option (cset * ranking)),
  d <> [] -> NoDup (map fst d) -> tb_profile_ok p tb (map fst d) ->
  elect_top_m (score_to_ranking d true) m p tb s = inl ((el, rem, tbi), s') ->
  Z.of_nat (length (flat el)) = m /\
  Permutation (flat el ++ flat rem) (map fst d) /\
  (forall c1 c2 q1 q2, In c1 (flat el) -> In c2 (flat rem) -> In (c1, q1) d -> In (c2, q2) d ->
     q2 <= q1) /\
  (forall pre g1 mid g2 post c1 c2 q1 q2,
     el ++ rem = pre ++ g1 :: mid ++ g2 :: post ->
     In c1 g1 -> In c2 g2 -> In (c1, q1) d -> In (c2, q2) d ->
     q2 < q1 \/ (q1 == q2 /\ exists g t, tbi = Some (g, t) /\ In c1 g /\ In c2 g)) /\
  (forall g c1 c2 q1 q2, In g (el ++ rem) -> In c1 g -> In c2 g -> In (c1, q1) d -> In (c2, q2) d ->
     q1 == q2) /\
  (forall c1 c2 q1 q2, In (c1, q1) d -> In (c2, q2) d -> q1 == q2 ->
     (exists g, In g (el ++ rem) /\ In c1 g /\ In c2 g) \/
     (exists g t, tbi = Some (g, t) /\ In c1 g /\ In c2 g)) /\
  (tbi = None -> el ++ rem = score_to_ranking d true) /\
  (forall g t, tbi = Some (g, t) ->
     In g (score_to_ranking d true) /\ exists l, t = singletons l /\ Permutation l g).
Proof. exact (c04_top_m_proof cand ceqb ceqb_spec). Qed.

(* when it does not return: a seat count outside 1..n is a ValueError whatever the tie-break;
   without a tie-break rule the call raises, and then ValueError, exactly when the seat count is
   out of range or candidates tied on score straddle seat m *)
Theorem c04_top_m_errors : forall (d : scores) (m : Z) (p : option profile) (s : mstate),
  d <> [] ->
  (forall tb, (m < 1 \/ Z.of_nat (length d) < m)%Z ->
     elect_top_m (score_to_ranking d true) m p tb s = inr EValue) /\
  (elect_top_m (score_to_ranking d true) m p None s = inr EValue <->
   (m < 1 \/ Z.of_nat (length d) < m \/
    exists pre g post, score_to_ranking d true = pre ++ g :: post /\
      Z.of_nat (length (flat pre)) < m /\ m < Z.of_nat (length (flat pre) + length g))%Z) /\
  (forall e, elect_top_m (score_to_ranking d true) m p None s = inr e -> e = EValue).
Proof. exact (c04_top_m_errors_proof cand ceqb). Qed.

End C04.

Print Assumptions c04_vector_valid.
Print Assumptions c04_scored.
Print Assumptions c04_definition.
Print Assumptions c04_total.
Print Assumptions c04_ballot_total.
Print Assumptions c04_tied_equal.
Print Assumptions c04_untied_full.
Print Assumptions c04_fpv_special.
Print Assumptions c04_borda_special.
Print Assumptions c04_mentions.
Print Assumptions c04_ranking_groups.
Print Assumptions c04_top_m.
Print Assumptions c04_top_m_errors.

(* ------------------------------------------------------------------ *)
(* Non-vacuity: a concrete profile with a 2-way and a 3-way tie, a bullet vote (three unlisted
   candidates), a repeated ballot written in another order (so condensing merges), rational
   weights, and a vector shorter than the candidate list. *)

Definition B (r : Core.ranking positive) (w : Q) := plain_ballot positive r w.
Definition ex_p : Core.profile positive :=
  mkProfile [B [[1;2];[3]]%positive (3#2); B [[3]]%positive 2; B [[2];[1];[4];[3]]%positive 1;
             B [[2;1];[3]]%positive (1#2); B [[4;1;2]]%positive 1] [1;2;3;4]%positive.
Definition ex_v : list Q := [3; 1#2].

Ltac ex_nodup := repeat (constructor; [cbn; intuition discriminate|]); constructor.
Ltac ex_incl := let x := fresh "x" in let Hx := fresh "Hx" in
  intros x Hx; cbn in Hx |- *; intuition.

Example ex_p_wf : wf_profile positive ex_p.
Proof.
  split; [cbn; ex_nodup|].
  repeat (constructor; [cbn; repeat split;
    [discriminate|repeat (constructor; [discriminate|]); constructor|ex_nodup|ex_incl]|]).
  constructor.
Qed.

Example ex_v_valid : valid_vector ex_v.
Proof. split; [repeat constructor; discriminate|cbn; repeat split; discriminate]. Qed.

Example ex_scores : exists d, score_rankings positive Pos.eqb ex_p ex_v = inl d /\
  Forall2 Qeq (map snd d) [11#2; 8; 6; 3#2] /\
  Forall2 Qeq
    (map (fun c => qsum (map (fun b => wt b * ballot_alloc positive Pos.eqb (cands ex_p) ex_v (rk b) c)
                             (ballots ex_p))) (cands ex_p))
    [11#2; 8; 6; 3#2].
Proof.
  eexists. split; [vm_compute; reflexivity|].
  split; repeat constructor; vm_compute; reflexivity.
Qed.

Example ex_fpv_borda_mentions :
  (exists d, first_place_votes positive Pos.eqb ex_p = inl d /\
             Forall2 Qeq (map snd d) [4#3; 7#3; 2; 1#3]) /\
  (exists d, borda_scores positive Pos.eqb ex_p = inl d /\
             Forall2 Qeq (map snd d) [17; 18; 14; 11]) /\
  (exists d, mentions positive Pos.eqb ex_p = inl d /\
             Forall2 Qeq (map snd d) [4; 4; 5; 2]).
Proof.
  repeat split; eexists; (split; [vm_compute; reflexivity|repeat constructor; vm_compute; reflexivity]).
Qed.

(* ranking a score list with ties and a zero-score candidate *)
Definition ex_d : Core.scores positive :=
  [(1%positive, 5#2); (2%positive, 10#4); (3%positive, 7); (4%positive, 1); (5%positive, 1);
   (6%positive, 0)].

Example ex_d_ok : ex_d <> [] /\ NoDup (map fst ex_d) /\
  score_to_ranking positive ex_d true = [[3]; [1;2]; [4;5]; [6]]%positive.
Proof. split; [discriminate|]. split; [cbn; ex_nodup|vm_compute; reflexivity]. Qed.

(* m = 2 cuts the tie {1,2}: error without a tie-break, resolved by a random draw otherwise;
   m = 3 needs no tie-break *)
Example ex_elect :
  elect_top_m positive Pos.eqb (score_to_ranking positive ex_d true) 2 None None
              (mkM [] []) = inr EValue /\
  elect_top_m positive Pos.eqb (score_to_ranking positive ex_d true) 2 None (Some TBRandom)
              (mkM [DPerm [2;1]%positive] [])
  = inl (([[3];[2]]%positive, [[1];[4;5];[6]]%positive, Some ([1;2]%positive, [[2];[1]]%positive)),
         mkM [] [CSample [1;2]%positive]) /\
  elect_top_m positive Pos.eqb (score_to_ranking positive ex_d true) 3 None (Some TBRandom)
              (mkM [] [])
  = inl (([[3];[1;2]]%positive, [[4;5];[6]]%positive, None), mkM [] []) /\
  tb_profile_ok positive None (Some TBRandom) (map fst ex_d).
Proof. repeat split. Qed.

(* a tie broken by Borda scores of the profile: candidates 1 and 2 tie on the given scores,
   Borda (17 vs 18) puts 2 first *)
Definition ex_d2 : Core.scores positive :=
  [(1%positive, 2); (2%positive, 2); (3%positive, 5); (4%positive, 1)].

Example ex_elect_borda :
  tb_profile_ok positive (Some ex_p) (Some TBBorda) (map fst ex_d2) /\
  elect_top_m positive Pos.eqb (score_to_ranking positive ex_d2 true) 2 (Some ex_p) (Some TBBorda)
              (mkM [] [])
  = inl (([[3];[2]]%positive, [[1];[4]]%positive, Some ([1;2]%positive, [[2];[1]]%positive)),
         mkM [] []).
Proof.
  split.
  - intros pr Hpr. inversion Hpr; subst pr. split; [cbn; ex_nodup|cbn; ex_incl].
  - vm_compute. reflexivity.
Qed.
