(* Properties/C17.v — C17: randomised rules and random tiebreaks draw from the documented
   distributions.  Statements only; proofs are in Proofs/Dist.v (finite rational distributions) and
   Proofs/C17_laws.v.  Vocabulary (events [list_eqb], [at_pos], [is_head], [among_first], [is_last];
   domains [first_group_ok], [rd_domain], [nonneg_weights], [some_first]; multi-seat [rd_path_prob],
   [rd_path_ok], [rd_tree_ok], [rd_ballot_ok], [rd_seats_ok]) is in Spec/LawSpec.v; the laws
   themselves ([uperm], [law_random_tiebreak], [law_rd_winner], [law_brd_winner],
   [law_rd_sequence]) and the closed forms ([rd_closed_form], [squares_closed_form]) are in
   Model/Laws.v, built from the very arguments the script reading (Model/Rules.v) hands to the
   primitives.

   Trusted, not proved: the laws of the primitives — random.choices(pop, weights) = [categorical],
   random.sample(S, |S|) = [uperm] (uniform permutation), numpy choice(p) = [categorical],
   random.uniform(0,1) = U[0,1) (so that P(u <= lam) = lam for 0 <= lam <= 1). *)
From VK Require Import Base Core STV Rules Laws.
From VK.Spec Require Import ScoreSpec LawSpec.
From VK.Proofs Require Import Lib_sets Dist C17_laws.
From Coq Require Import Permutation Lia.

(* ================================================================== *)
(** * D. Finite rational distributions (any outcome type) *)

Theorem c17_mass_dret : forall {A} (a : A), mass (dret a) == 1.
Proof. exact @mass_dret. Qed.

(* mass of a bind = sum over the entries (a, w) of w * mass (f a) *)
Theorem c17_mass_dbind : forall {A B} (d : dist A) (f : A -> dist B),
  mass (dbind d f) == qsum (map (fun aw => snd aw * mass (f (fst aw))) d).
Proof. exact @mass_dbind. Qed.

Theorem c17_mass_dbind_one : forall {A B} (d : dist A) (f : A -> dist B),
  (forall a w, In (a, w) d -> mass (f a) == 1) -> mass (dbind d f) == mass d.
Proof. exact @mass_dbind_one. Qed.

(* law of total probability *)
Theorem c17_prob_dbind : forall {A B} (ev : B -> bool) (d : dist A) (f : A -> dist B),
  prob ev (dbind d f) == qsum (map (fun aw => snd aw * prob ev (f (fst aw))) d).
Proof. exact @prob_dbind. Qed.

Theorem c17_mass_categorical : forall {A} (pop : list (A * Q)),
  ~ qsum (map snd pop) == 0 -> mass (categorical pop) == 1.
Proof. exact @mass_categorical. Qed.

(* categorical: P(outcome = a) = (sum of the weights of the entries equal to a) / total *)
Theorem c17_prob_categorical : forall {A} (eqb : A -> A -> bool),
  (forall a b, reflect (a = b) (eqb a b)) ->
  forall (a : A) (pop : list (A * Q)),
  prob (eqb a) (categorical pop) ==
  qsum (map (fun bw => if eqb a (fst bw) then snd bw else 0) pop) / qsum (map snd pop).
Proof. exact @prob_categorical_point. Qed.

Theorem c17_mass_uniform : forall {A} (l : list A), l <> [] -> mass (uniform_of l) == 1.
Proof. exact @mass_uniform_of. Qed.

(* uniform: P(event) = (number of elements satisfying it) / (number of elements) *)
Theorem c17_prob_uniform : forall {A} (ev : A -> bool) (l : list A),
  prob ev (uniform_of l) == Qnat (length (filter ev l)) / Qnat (length l).
Proof. exact @prob_uniform_of. Qed.

Theorem c17_mass_dmix : forall {A} (lam : Q) (d1 d2 : dist A),
  mass (dmix lam d1 d2) == lam * mass d1 + (1 - lam) * mass d2.
Proof. exact @mass_dmix. Qed.

Theorem c17_prob_dmix : forall {A} (ev : A -> bool) (lam : Q) (d1 d2 : dist A),
  prob ev (dmix lam d1 d2) == lam * prob ev d1 + (1 - lam) * prob ev d2.
Proof. exact @prob_dmix. Qed.

Print Assumptions c17_mass_dret.
Print Assumptions c17_mass_dbind.
Print Assumptions c17_mass_dbind_one.
Print Assumptions c17_prob_dbind.
Print Assumptions c17_mass_categorical.
Print Assumptions c17_prob_categorical.
Print Assumptions c17_mass_uniform.
Print Assumptions c17_prob_uniform.
Print Assumptions c17_mass_dmix.
Print Assumptions c17_prob_dmix.

Section C17.
Variable cand : Type.
Variable ceqb : cand -> cand -> bool.
Hypothesis ceqb_spec : forall a b, reflect (a = b) (ceqb a b).

Notation cset := (cset cand).
Notation ranking := (ranking cand).
Notation ballot := (ballot cand).
Notation profile := (profile cand).
Notation scores := (scores cand).
Notation mstate := (mstate cand).
Notation estate := (estate cand).
Notation singletons := (singletons cand).
Notation total_wt := (total_wt cand).
Notation uperm := (uperm cand).
Notation law_random_tiebreak := (law_random_tiebreak cand).
Notation choices_pop := (choices_pop cand).
Notation law_rd_winner := (law_rd_winner cand).
Notation law_brd_winner := (law_brd_winner cand).
Notation law_rd_sequence := (law_rd_sequence cand ceqb).
Notation rd_closed_form := (rd_closed_form cand ceqb).
Notation squares_closed_form := (squares_closed_form cand ceqb).
Notation squares := (squares cand).
Notation list_eqb := (list_eqb cand ceqb).
Notation at_pos := (at_pos cand ceqb).
Notation is_head := (is_head cand ceqb).
Notation among_first := (among_first cand ceqb).
Notation is_last := (is_last cand ceqb).
Notation rd_domain := (rd_domain cand).
Notation nonneg_weights := (nonneg_weights cand).
Notation rd_path_prob := (rd_path_prob cand ceqb).
Notation rd_path_ok := (rd_path_ok cand ceqb).
Notation rd_tree_ok := (rd_tree_ok cand ceqb).
Notation rd_seats_ok := (rd_seats_ok cand).
Notation wf_profile := (wf_profile cand).
Notation first_place_votes := (first_place_votes cand ceqb).
Notation tiebreak_set := (tiebreak_set cand ceqb).
Notation draw_ballot := (draw_ballot cand ceqb).
Notation elect_one := (elect_one cand ceqb).
Notation rd_step := (rd_step cand ceqb).
Notation brd_step := (brd_step cand ceqb).
Notation remove_cand_prof := (remove_cand_prof cand ceqb).

(* ================================================================== *)
(** * T. A random tiebreak orders the tied candidates uniformly *)

(* the script reading of tiebreak_set(S, "random"): one random.sample call whose population is
   exactly the tied set S, answered by a permutation l of S which becomes the resolution order —
   the outcome space of [law_random_tiebreak S] = [uperm S] *)
Theorem c17_tiebreak_is_call : forall (s : cset) (po : option profile) (st st' : mstate) t,
  tiebreak_set s po TBRandom st = inl (t, st') ->
  exists l, t = singletons l /\ Permutation l s /\ NoDup l /\
            scr st = DPerm l :: scr st' /\ lg st' = CSample s :: lg st.
Proof. exact (random_tiebreak_call cand ceqb ceqb_spec). Qed.

Theorem c17_uperm_mass : forall s : cset, mass (law_random_tiebreak s) == 1.
Proof. exact (uperm_mass cand). Qed.

(* every order of the tied set has probability 1/n! ... *)
Theorem c17_tiebreak_uniform_order : forall (s : cset) (p : list cand),
  NoDup s -> Permutation p s ->
  prob (list_eqb p) (law_random_tiebreak s) == 1 / Qnat (fact (length s)).
Proof. exact (uperm_order_perm cand ceqb ceqb_spec). Qed.

(* ... and nothing else can come out *)
Theorem c17_tiebreak_uniform_order_only : forall (s : cset) (p : list cand),
  NoDup s -> ~ Permutation p s -> prob (list_eqb p) (law_random_tiebreak s) == 0.
Proof. exact (uperm_order_not_perm cand ceqb ceqb_spec). Qed.

(* each tied candidate heads the order (takes the single contested seat) with probability 1/n *)
Theorem c17_tiebreak_first_uniform : forall (s : cset) c, NoDup s -> In c s ->
  prob (is_head c) (law_random_tiebreak s) == 1 / Qnat (length s).
Proof. exact (uperm_first cand ceqb ceqb_spec). Qed.

(* general form: each tied candidate stands at each position with probability 1/n *)
Theorem c17_tiebreak_position_uniform : forall (s : cset) c i,
  NoDup s -> In c s -> (i < length s)%nat ->
  prob (at_pos c i) (law_random_tiebreak s) == 1 / Qnat (length s).
Proof. exact (uperm_position cand ceqb ceqb_spec). Qed.

(* with k contested seats, each tied candidate takes one with probability k/n *)
Theorem c17_tiebreak_seat : forall (s : cset) c k,
  NoDup s -> In c s -> (k <= length s)%nat ->
  prob (among_first k c) (law_random_tiebreak s) == Qnat k / Qnat (length s).
Proof. exact (uperm_seat cand ceqb ceqb_spec). Qed.

(* each tied candidate is the last of the order (the one eliminated) with probability 1/n *)
Theorem c17_tiebreak_eliminated : forall (s : cset) c, NoDup s -> In c s ->
  prob (is_last c) (law_random_tiebreak s) == 1 / Qnat (length s).
Proof. exact (uperm_last cand ceqb ceqb_spec). Qed.

(* ================================================================== *)
(** * R. One RandomDictator step *)

(* the population of the law IS the logged argument of the random.choices call *)
Theorem c17_rd_pop_is_call : forall (p : profile) (st st' : mstate) r,
  draw_ballot p st = inl (r, st') -> lg st' = CChoices (choices_pop p) :: lg st.
Proof. exact (draw_ballot_call cand ceqb). Qed.

(* any successful step: random.choices on [choices_pop p] is its FIRST primitive call (at most a
   random.sample on the tied first position follows); the total weight is positive; the winner w
   is listed first on a positive-weight ballot, is recorded as elected, and the next profile is
   the current one with w removed *)
Theorem c17_rd_step_calls : forall (p : profile) (prev : estate) (st st' : mstate) np e,
  rd_step p prev st = inl ((np, e), st') ->
  exists w, elected e = [[w]] /\ remove_cand_prof [w] true false p = inl np /\
    0 < total_wt (ballots p) /\
    (exists later, lg st' = later ++ CChoices (choices_pop p) :: lg st /\
       (later = [] \/ exists s, later = [CSample s])) /\
    exists b s r', In b (ballots p) /\ 0 < wt b /\ rk b = s :: r' /\ In w s.
Proof. exact (rd_step_inv cand ceqb ceqb_spec). Qed.

(* the law of the winner: total mass 1, and each candidate is elected with probability
   sum_b wt b * [c in first b] / |first b|  /  sum_b wt b *)
Theorem c17_rd_step : forall p : profile, rd_domain p ->
  mass (law_rd_winner p) == 1 /\
  forall c, prob (ceqb c) (law_rd_winner p) == rd_closed_form p c.
Proof. exact (rd_step_law cand ceqb ceqb_spec). Qed.

(* with non-negative weights all the entries of the law are non-negative: 0 <= P(ev) <= mass *)
Theorem c17_rd_step_nonneg : forall (p : profile) (ev : cand -> bool), nonneg_weights p ->
  0 <= prob ev (law_rd_winner p) /\ prob ev (law_rd_winner p) <= mass (law_rd_winner p).
Proof. exact (rd_step_prob_range cand). Qed.

(* the closed form is c's share of the current first-place tally (ties split evenly), as computed
   by first_place_votes *)
Theorem c17_rd_closed_form_is_fpv_share : forall (p : profile) (d : scores) c q,
  wf_profile p -> first_place_votes p = inl d -> In (c, q) d ->
  rd_closed_form p c == q / total_wt (ballots p).
Proof. exact (rd_closed_form_fpv cand ceqb ceqb_spec). Qed.

(* script reading vs law: a candidate elected by some script has positive probability ... *)
Theorem c17_rd_core_consistent : forall (p : profile) (prev : estate) (st st' : mstate) np e,
  rd_domain p -> nonneg_weights p ->
  rd_step p prev st = inl ((np, e), st') ->
  exists w, elected e = [[w]] /\ 0 < prob (ceqb w) (law_rd_winner p).
Proof. exact (rd_script_sound cand ceqb ceqb_spec). Qed.

(* ... and every candidate of positive probability is elected by some valid script: on it
   rd_step reduces to [elect_one c], which makes no draw *)
Theorem c17_rd_core_complete : forall (p : profile) c (l0 : list (call cand)),
  rd_domain p -> 0 < prob (ceqb c) (law_rd_winner p) ->
  exists sc tbs st2, forall prev, rd_step p prev (mkM sc l0) = elect_one c tbs p prev st2.
Proof. exact (rd_script_complete cand ceqb ceqb_spec). Qed.

(* ================================================================== *)
(** * B. One BoostedRandomDictator step *)

(* numpy choice(p = squares): P(x) = d_x^2 / sum_i d_i^2; the /total normalisation cancels *)
Theorem c17_squares_law : forall (d : scores) (t : Q) x,
  NoDup (map fst d) -> ~ t == 0 -> ~ qsum (map (fun q => snd q * snd q) d) == 0 ->
  mass (categorical (squares d t)) == 1 /\
  prob (ceqb x) (categorical (squares d t)) == squares_closed_form d x.
Proof. exact (squares_law cand ceqb ceqb_spec). Qed.

(* c >= 2 remaining candidates: mixture of the squares rule (weight 1/(c-1)) and RandomDictator
   (weight 1 - 1/(c-1)) *)
Theorem c17_brd_step : forall (p : profile) (d : scores) x,
  rd_domain p -> (2 <= length (cands p))%nat ->
  NoDup (map fst d) -> 0 < qsum (map (fun q => snd q * snd q) d) ->
  let lam := 1 / (Qnat (length (cands p)) - 1) in
  mass (law_brd_winner p d) == 1 /\
  prob (ceqb x) (law_brd_winner p d) ==
    lam * squares_closed_form d x + (1 - lam) * rd_closed_form p x.
Proof. exact (brd_step_law cand ceqb ceqb_spec). Qed.

(* one candidate left: elected with probability 1; the script reading elects it whatever u *)
Theorem c17_brd_single : forall (p : profile) (d : scores) c,
  cands p = [c] ->
  mass (law_brd_winner p d) == 1 /\ prob (ceqb c) (law_brd_winner p d) == 1 /\
  forall (prev : estate) (st : mstate) u rest, scr st = DUnit u :: rest ->
    brd_step p prev st = elect_one c [] p prev (mkM rest (CUniform :: lg st)).
Proof. exact (brd_single cand ceqb ceqb_spec). Qed.

(* every successful step consumes a DUnit first and logs random.uniform as its first call *)
Theorem c17_brd_threshold_is_call : forall (p : profile) (prev : estate) (st st' : mstate) np e,
  brd_step p prev st = inl ((np, e), st') ->
  exists u rest later, scr st = DUnit u :: rest /\ lg st' = later ++ CUniform :: lg st.
Proof. exact (brd_step_log cand ceqb ceqb_spec). Qed.

(* the branch condition is u <= 1/(c-1), the very lam of the law.  Above it the step IS a
   RandomDictator step ... *)
Theorem c17_brd_threshold_else : forall (p : profile) (prev : estate) (st : mstate) u rest,
  scr st = DUnit u :: rest -> (forall c, cands p <> [c]) ->
  Qle_bool u (1 / (Qnat (length (cands p)) - 1)) = false ->
  brd_step p prev st = rd_step p prev (mkM rest (CUniform :: lg st)).
Proof. exact (brd_else_branch cand ceqb). Qed.

(* ... at or below it the next call is numpy choice on exactly [squares (scores of the previous
   round) (total weight)], the population of the law *)
Theorem c17_brd_threshold_squares : forall (p : profile) (prev : estate) (st st' : mstate) u rest np e,
  scr st = DUnit u :: rest -> (forall c, cands p <> [c]) ->
  Qle_bool u (1 / (Qnat (length (cands p)) - 1)) = true ->
  brd_step p prev st = inl ((np, e), st') ->
  ~ total_wt (ballots p) == 0 /\
  ~ squares_mass cand (escores prev) (total_wt (ballots p)) == 0 /\
  exists w rest', rest = DCand w :: rest' /\ In w (map fst (escores prev)) /\
    elected e = [[w]] /\ remove_cand_prof [w] true false p = inl np /\
    st' = mkM rest' (CNpChoice (squares (escores prev) (total_wt (ballots p))) :: CUniform :: lg st).
Proof. exact (brd_squares_branch cand ceqb ceqb_spec). Qed.

End C17.

(* for c >= 2 the threshold 1/(c-1) lies in (0, 1]: under the trusted law U[0,1) of
   random.uniform the event u <= 1/(c-1) has probability exactly 1/(c-1) *)
Theorem c17_brd_lambda_range : forall n, (2 <= n)%nat ->
  0 < 1 / (Qnat n - 1) /\ 1 / (Qnat n - 1) <= 1.
Proof. exact brd_lambda_range. Qed.

Section C17M.
Variable cand : Type.
Variable ceqb : cand -> cand -> bool.
Hypothesis ceqb_spec : forall a b, reflect (a = b) (ceqb a b).

Notation profile := (profile cand).
Notation law_rd_winner := (law_rd_winner cand).
Notation law_rd_sequence := (law_rd_sequence cand ceqb).
Notation list_eqb := (list_eqb cand ceqb).
Notation rd_path_prob := (rd_path_prob cand ceqb).
Notation rd_path_ok := (rd_path_ok cand ceqb).
Notation rd_tree_ok := (rd_tree_ok cand ceqb).
Notation rd_seats_ok := (rd_seats_ok cand).
Notation remove_cand_prof := (remove_cand_prof cand ceqb).

(* ================================================================== *)
(** * M. Multi-seat RandomDictator *)

(* the recursive equation of the law of the sequence of winners (no hypothesis): first seat by
   the one-step law, the rest from the profile with the winner removed *)
Theorem c17_rd_multiseat : forall k (p : profile) w ws,
  prob (list_eqb (w :: ws)) (law_rd_sequence (S k) p) ==
  prob (ceqb w) (law_rd_winner p) *
  match remove_cand_prof [w] true false p with
  | inl np => prob (list_eqb ws) (law_rd_sequence k np)
  | inr _ => 0
  end.
Proof. exact (rd_sequence_rec cand ceqb ceqb_spec). Qed.

(* P(w1, ..., wk) = prod_i rd_closed_form p_i w_i with p_{i+1} = remove_cand w_i p_i, whenever
   the profiles met along the way are in the domain of a step *)
Theorem c17_rd_multiseat_path : forall ws (p : profile), rd_path_ok ws p ->
  prob (list_eqb ws) (law_rd_sequence (length ws) p) == rd_path_prob ws p.
Proof. exact (rd_sequence_path cand ceqb ceqb_spec). Qed.

(* total mass 1 under the invariant that every reachable profile stays in the domain *)
Theorem c17_rd_multiseat_mass : forall k (p : profile), rd_tree_ok k p ->
  mass (law_rd_sequence k p) == 1.
Proof. exact (rd_sequence_mass cand ceqb ceqb_spec). Qed.

(* the invariant holds when every ballot ranks at least k candidates (score-free, positive
   weights, no repeated candidate, no empty position, duplicate-free candidate list) *)
Theorem c17_rd_multiseat_invariant : forall k (p : profile), rd_seats_ok k p -> rd_tree_ok k p.
Proof. exact (seats_ok_tree cand ceqb ceqb_spec). Qed.

Theorem c17_rd_multiseat_mass_seats : forall k (p : profile), rd_seats_ok k p ->
  mass (law_rd_sequence k p) == 1.
Proof. exact (rd_sequence_mass_seats cand ceqb ceqb_spec). Qed.

End C17M.

Print Assumptions c17_tiebreak_is_call.
Print Assumptions c17_uperm_mass.
Print Assumptions c17_tiebreak_uniform_order.
Print Assumptions c17_tiebreak_uniform_order_only.
Print Assumptions c17_tiebreak_first_uniform.
Print Assumptions c17_tiebreak_position_uniform.
Print Assumptions c17_tiebreak_seat.
Print Assumptions c17_tiebreak_eliminated.
Print Assumptions c17_rd_pop_is_call.
Print Assumptions c17_rd_step_calls.
Print Assumptions c17_rd_step.
Print Assumptions c17_rd_step_nonneg.
Print Assumptions c17_rd_closed_form_is_fpv_share.
Print Assumptions c17_rd_core_consistent.
Print Assumptions c17_rd_core_complete.
Print Assumptions c17_squares_law.
Print Assumptions c17_brd_step.
Print Assumptions c17_brd_single.
Print Assumptions c17_brd_threshold_is_call.
Print Assumptions c17_brd_threshold_else.
Print Assumptions c17_brd_threshold_squares.
Print Assumptions c17_brd_lambda_range.
Print Assumptions c17_rd_multiseat.
Print Assumptions c17_rd_multiseat_path.
Print Assumptions c17_rd_multiseat_mass.
Print Assumptions c17_rd_multiseat_invariant.
Print Assumptions c17_rd_multiseat_mass_seats.

(* ================================================================== *)
(** * Non-vacuity: concrete inputs (cand := positive) *)
Module C17Examples.
Open Scope positive_scope.

Definition B (r : list (list positive)) (w : Q) : ballot positive := mkBallot r w [] None None.
Definition probc (c : positive) (d : dist positive) : Q := prob (Pos.eqb c) d.
Definition probl (l : list positive) (d : dist (list positive)) : Q :=
  prob (list_eqb positive Pos.eqb l) d.

Ltac nodup := repeat constructor; cbn; intuition discriminate.
Ltac fg_ok := eexists; eexists; split; [reflexivity|split; [discriminate|nodup]].

(* (a) three candidates, a tied first place, rational weights; total weight 4.
   first-place tallies (ties split): 1 -> 3/4, 2 -> 3/4 + 2 = 11/4, 3 -> 1/2 *)
Definition p3 : profile positive :=
  mkProfile [B [[1;2];[3]] (3#2); B [[2];[1];[3]] 2; B [[3];[1;2]] (1#2)] [1;2;3].

Ltac groups_ok := repeat (constructor; try discriminate).
Ltac wf_rk := split; [discriminate|split; [groups_ok|split; [nodup|intros x Hx; cbn in *; intuition]]].
Ltac ballot_ok := split; [reflexivity|split; [reflexivity|split; [nodup|split; [groups_ok|cbn; lia]]]].

Example c17_ex_rd_domain : rd_domain positive p3 /\ nonneg_weights positive p3 /\
  wf_profile positive p3 /\ rd_seats_ok positive 3 p3.
Proof.
  split; [|split; [|split]].
  - split; [|reflexivity]. constructor; [fg_ok|]. constructor; [fg_ok|]. constructor; [fg_ok|].
    constructor.
  - constructor; [discriminate|]. constructor; [discriminate|]. constructor; [discriminate|].
    constructor.
  - split; [nodup|]. constructor; [wf_rk|]. constructor; [wf_rk|]. constructor; [wf_rk|].
    constructor.
  - intros _. split; [nodup|]. split; [discriminate|].
    constructor; [ballot_ok|]. constructor; [ballot_ok|]. constructor; [ballot_ok|]. constructor.
Qed.

(* the law computed numerically agrees with the closed form: 3/16, 11/16, 1/8 *)
Example c17_ex_rd_law :
  mass (law_rd_winner positive p3) == 1 /\
  probc 1 (law_rd_winner positive p3) == 3 # 16 /\
  probc 2 (law_rd_winner positive p3) == 11 # 16 /\
  probc 3 (law_rd_winner positive p3) == 1 # 8 /\
  rd_closed_form positive Pos.eqb p3 1 == 3 # 16 /\
  rd_closed_form positive Pos.eqb p3 2 == 11 # 16 /\
  rd_closed_form positive Pos.eqb p3 3 == 1 # 8.
Proof. repeat split; vm_compute; reflexivity. Qed.

(* ... and is the share of the first-place tally computed by first_place_votes (total weight 4) *)
Definition fpv3 : scores positive := Eval vm_compute in
  match first_place_votes positive Pos.eqb p3 with inl d => d | inr _ => [] end.

Example c17_ex_rd_fpv :
  first_place_votes positive Pos.eqb p3 = inl fpv3 /\ map fst fpv3 = [1;2;3] /\
  lookup0 positive Pos.eqb 1 fpv3 == 3 # 4 /\
  lookup0 positive Pos.eqb 2 fpv3 == 11 # 4 /\
  lookup0 positive Pos.eqb 3 fpv3 == 1 # 2 /\
  total_wt positive (ballots p3) == 4 /\
  rd_closed_form positive Pos.eqb p3 2 == lookup0 positive Pos.eqb 2 fpv3 / 4.
Proof. repeat split; vm_compute; reflexivity. Qed.

(* a script electing 2 through the tied ballot: the calls logged (newest first) are
   random.sample on the tied set, after random.choices on exactly the law's population *)
Definition prev0 : estate positive := mkState 0 [] [[]] [[]] [] [(1, 3#4); (2, 11#4); (3, 1#2)].
Definition log_of {A} (x : res (A * mstate positive)) : list (call positive) :=
  match x with inl (_, s) => lg s | inr _ => [] end.
Definition elected_of (x : res ((profile positive * estate positive) * mstate positive)) :=
  match x with inl ((_, e), _) => elected e | inr _ => [] end.

Example c17_ex_rd_script :
  let run := rd_step positive Pos.eqb p3 prev0 (mkM [DRank [[1;2];[3]]; DPerm [2;1]] []) in
  elected_of run = [[2]] /\
  log_of run = [CSample [1;2]; CChoices (choices_pop positive p3)] /\
  choices_pop positive p3 = [([[1;2];[3]], 3#2); ([[2];[1];[3]], 2#1); ([[3];[1;2]], 1#2)].
Proof. repeat split; vm_compute; reflexivity. Qed.

(* (b) uniform tiebreak on three candidates: orders, positions, seats, elimination *)
Example c17_ex_uperm :
  mass (uperm positive [1;2;3]) == 1 /\
  probl [3;1;2] (uperm positive [1;2;3]) == 1 # 6 /\
  probl [3;1;1] (uperm positive [1;2;3]) == 0 /\
  prob (at_pos positive Pos.eqb 2 0) (uperm positive [1;2;3]) == 1 # 3 /\
  prob (at_pos positive Pos.eqb 2 1) (uperm positive [1;2;3]) == 1 # 3 /\
  prob (at_pos positive Pos.eqb 2 2) (uperm positive [1;2;3]) == 1 # 3 /\
  prob (among_first positive Pos.eqb 2 1) (uperm positive [1;2;3]) == 2 # 3 /\
  prob (is_last positive Pos.eqb 3) (uperm positive [1;2;3]) == 1 # 3 /\
  prob (is_head positive Pos.eqb 4) (uperm positive [1;2;3]) == 0.
Proof. repeat split; vm_compute; reflexivity. Qed.

(* (c) Boosted step on p3 with the previous round's tallies: lam = 1/2, sum of squares 134/16 *)
Definition d3 : scores positive := [(1, 3#4); (2, 11#4); (3, 1#2)].

Example c17_ex_brd_law :
  (2 <= length (cands p3))%nat /\ NoDup (map fst d3) /\
  (0 < qsum (map (fun q => snd q * snd q) d3))%Q /\
  mass (law_brd_winner positive p3 d3) == 1 /\
  squares_closed_form positive Pos.eqb d3 2 == 121 # 134 /\
  probc 2 (law_brd_winner positive p3 d3) == (1#2) * (121 # 134) + (1#2) * (11 # 16) /\
  probc 2 (law_brd_winner positive p3 d3) == 1705 # 2144 /\
  probc 1 (law_brd_winner positive p3 d3) == (1#2) * (9 # 134) + (1#2) * (3 # 16) /\
  probc 3 (law_brd_winner positive p3 d3) == (1#2) * (4 # 134) + (1#2) * (1 # 8).
Proof.
  split; [cbn; lia|]. split; [nodup|]. split; [reflexivity|].
  repeat split; vm_compute; reflexivity.
Qed.

(* the two branches of the script reading: u = 1/4 <= 1/2 draws from the squares population,
   u = 3/4 > 1/2 is a RandomDictator step *)
Example c17_ex_brd_script :
  let run_sq := brd_step positive Pos.eqb p3 prev0 (mkM [DUnit (1#4); DCand 3] []) in
  let run_rd := brd_step positive Pos.eqb p3 prev0 (mkM [DUnit (3#4); DRank [[2];[1];[3]]] []) in
  elected_of run_sq = [[3]] /\
  log_of run_sq = [CNpChoice (squares positive d3 (total_wt positive (ballots p3))); CUniform] /\
  elected_of run_rd = [[2]] /\
  log_of run_rd = [CChoices (choices_pop positive p3); CUniform].
Proof. repeat split; vm_compute; reflexivity. Qed.

(* (d) two seats on p3: the sequence law has mass 1 and the path probabilities are the products
   of the one-step closed forms on the successive profiles *)
Example c17_ex_multiseat :
  mass (law_rd_sequence positive Pos.eqb 2 p3) == 1 /\
  rd_path_ok positive Pos.eqb [2;1] p3 /\
  probl [2;1] (law_rd_sequence positive Pos.eqb 2 p3) == rd_path_prob positive Pos.eqb [2;1] p3 /\
  probl [2;1] (law_rd_sequence positive Pos.eqb 2 p3) == (11 # 16) * (7 # 8) /\
  probl [1;2] (law_rd_sequence positive Pos.eqb 2 p3) == (3 # 16) * (7 # 8) /\
  probl [2;2] (law_rd_sequence positive Pos.eqb 2 p3) == 0.
Proof.
  split; [vm_compute; reflexivity|]. split.
  - split; [exact (proj1 c17_ex_rd_domain)|].
    vm_compute. split; [|exact I]. split; [repeat constructor; fg_ok|reflexivity].
  - repeat split; vm_compute; reflexivity.
Qed.

End C17Examples.
