(* Properties/C11_fields.v — property C11: "a profile's ballot count, total weight and
   cast-candidate set always equal what its ballots imply", the total weight under condensing,
   and independent characterisations of the two comparisons ([ranking_eqb], [scores_eqb]) on which
   the content vocabulary of Properties/C11.v ([same_content], [wtof]) rests.
   Proofs: Proofs/C11_fields.v.  Vocabulary: Spec/FieldsSpec.v, Spec/Content.v.

   WHICH DERIVED FIELDS ARE STORED.  Python's PreferenceProfile has six fields: ballots,
   candidates, df, candidates_cast, num_ballots, total_ballot_wt; the last four are filled by
   model validators at construction (pref_profile.py:53-118), candidates also when it was given
   empty.  The model's record (Model/Core.v, [profile]) stores only TWO: [ballots] and [cands].
   - num_ballots, total_ballot_wt, candidates_cast are DEFINITIONAL in the model: they are not
     record fields but the functions [length (ballots p)], [total_wt (ballots p)],
     [cast_cands (ballots p)] of the stored ballot list, evaluated when a profile is observed
     (Model/Dispatch.v op 51; named [num_ballots], [total_ballot_wt], [candidates_cast] in
     Spec/FieldsSpec.v).  They cannot disagree with the ballots, for ANY profile value, however it
     was produced.  [c11_fields_definitional] gives their unfolding equations, including the exact
     role of weights: a ballot of weight 0 (or < 0) counts in num_ballots and in the total but
     contributes no candidate to candidates_cast (Python: `if ballot.weight > 0`), and score keys
     count as well as ranked candidates.  That the Python validators compute the same three values
     is checked by the differential harness (C11 kind "profile"), not provable here.
   - candidates ([cands]) is STORED.  [c11_constructor_fields] proves, for every profile returned
     by the model's constructor [mk_profile], that it is the given tuple when that is non-empty and
     otherwise equals candidates_cast, and that it is duplicate-free; [c11_add_fields] and
     [c11_condense_profile_fields] do the same for the two C11 operations that build a profile
     ([profile_add] goes through [mk_profile]; [condense] copies [cands]).
   - df (the pandas view) is not modelled.
   Nothing is proved about a raw record [mkProfile bs cs] with arbitrary [cs]: such a value is not
   the result of the constructor.

   Already in Properties/C11.v and not repeated: [c11_derived_fields] (ballots/cands of
   [mk_profile]), [c11_cast_cands], [c11_total_wt] (additivity/permutation), per-content weights
   [c11_condense_weights]. *)
From Coq Require Import List ZArith QArith Bool Permutation.
From VK Require Import Base Core.
From VK.Spec Require Import Content FieldsSpec.
From VK.Proofs Require Import C11_fields.
Import ListNotations.

Section C11_fields.
Variable cand : Type.
Variable ceqb : cand -> cand -> bool.
Hypothesis ceqb_spec : forall a b, reflect (a = b) (ceqb a b).

(* ================= 1. condensing and the totals ================= *)

(* condensing never changes the total weight: for ALL ballot lists (any weights, also zero and
   negative ones, any ids, scores, rankings) and any [ceqb] whatsoever.  The model's condense
   drops nothing: a content of total weight 0 stays as a weight-0 ballot. *)
Theorem c11_condense_total :
  forall bs : list (ballot cand),
    total_wt cand (condense_bs cand ceqb bs) == total_wt cand bs.
Proof. exact (condense_total cand ceqb). Qed.

(* the number of ballots can only go down, and not to zero *)
Theorem c11_condense_count :
  forall bs : list (ballot cand),
    (length (condense_bs cand ceqb bs) <= length bs)%nat /\
    (bs <> [] -> condense_bs cand ceqb bs <> []).
Proof. exact (condense_count cand ceqb). Qed.

(* profile level: condense keeps the stored candidates and the total weight *)
Theorem c11_condense_profile_fields :
  forall p : profile cand,
    cands (condense cand ceqb p) = cands p /\
    total_ballot_wt cand (condense cand ceqb p) == total_ballot_wt cand p /\
    (num_ballots cand (condense cand ceqb p) <= num_ballots cand p)%nat /\
    (num_ballots cand p = 0%nat <-> num_ballots cand (condense cand ceqb p) = 0%nat).
Proof. exact (condense_profile_fields cand ceqb). Qed.

(* the cast-candidate SET survives condensing when no weight is negative (a zero-weight ballot
   may be merged into a positive one of the same content: same candidates) ... *)
Theorem c11_condense_cast :
  forall bs : list (ballot cand),
    (forall b, In b bs -> 0 <= wt b) ->
    forall c, In c (cast_cands cand ceqb (condense_bs cand ceqb bs)) <->
              In c (cast_cands cand ceqb bs).
Proof. exact (condense_cast cand ceqb ceqb_spec). Qed.

Theorem c11_condense_profile_cast :
  forall p : profile cand,
    (forall b, In b (ballots p) -> 0 <= wt b) ->
    forall c, In c (candidates_cast cand ceqb (condense cand ceqb p)) <->
              In c (candidates_cast cand ceqb p).
Proof. exact (condense_profile_cast cand ceqb ceqb_spec). Qed.

(* ================= 2. the two comparisons, characterised independently ================= *)

(* rankings: same length and position-wise equality AS SETS.  Order and repetition of the
   candidates inside a position are irrelevant, empty positions count as positions.  No
   hypothesis on the rankings. *)
Theorem c11_ranking_eqb_spec :
  forall r1 r2 : ranking cand,
    ranking_eqb cand ceqb r1 r2 = true <->
    Forall2 (fun s1 s2 : list cand => forall c, In c s1 <-> In c s2) r1 r2.
Proof. exact (ranking_eqb_spec cand ceqb ceqb_spec). Qed.

Theorem c11_ranking_eqb_reflect :
  forall r1 r2 : ranking cand,
    reflect (Forall2 (fun s1 s2 : list cand => forall c, In c s1 <-> In c s2) r1 r2)
            (ranking_eqb cand ceqb r1 r2).
Proof. exact (ranking_eqb_reflect cand ceqb ceqb_spec). Qed.

(* the same without Forall2: equal lengths and the i-th positions have the same members *)
Theorem c11_ranking_eqb_nth :
  forall r1 r2 : ranking cand,
    ranking_eqb cand ceqb r1 r2 = true <->
    length r1 = length r2 /\ forall i c, In c (nth i r1 []) <-> In c (nth i r2 []).
Proof. exact (ranking_eqb_nth cand ceqb ceqb_spec). Qed.

(* scores, with no hypothesis at all: the two association lists contain the same
   (candidate, value) entries, values up to ==.  Order and repetition of entries are irrelevant;
   a zero score is an entry like any other (it is NOT identified with absence; the Ballot
   constructor never stores one, see c11_scores_exact_zero_dropped). *)
Theorem c11_scores_eqb_spec :
  forall d1 d2 : scores cand,
    scores_eqb cand ceqb d1 d2 = true <->
    (forall c v, In (c, v) d1 -> exists v', In (c, v') d2 /\ v == v') /\
    (forall c v, In (c, v) d2 -> exists v', In (c, v') d1 /\ v == v').
Proof. exact (scores_eqb_pairs cand ceqb ceqb_spec). Qed.

Theorem c11_scores_eqb_reflect :
  forall d1 d2 : scores cand,
    reflect ((forall c v, In (c, v) d1 -> exists v', In (c, v') d2 /\ v == v') /\
             (forall c v, In (c, v) d2 -> exists v', In (c, v') d1 /\ v == v'))
            (scores_eqb cand ceqb d1 d2).
Proof. exact (scores_eqb_reflect cand ceqb ceqb_spec). Qed.

(* scores as finite maps.  [lookup c d] is the value of the FIRST entry with key c ([None] when
   there is none).  When both lists are functional (one value per key up to ==; implied by
   duplicate-free keys, which every Python dict has) the comparison is exactly equality of the
   denoted maps.  Both hypotheses are needed for <-, one suffices for -> (examples below). *)
Theorem c11_scores_eqb_lookup :
  forall d1 d2 : scores cand,
    functional_scores cand d1 -> functional_scores cand d2 ->
    (scores_eqb cand ceqb d1 d2 = true <->
     forall c, opt_Qeq (lookup cand ceqb c d1) (lookup cand ceqb c d2)).
Proof. exact (scores_eqb_lookup cand ceqb ceqb_spec). Qed.

Theorem c11_scores_eqb_lookup_fwd :
  forall d1 d2 : scores cand,
    functional_scores cand d1 \/ functional_scores cand d2 ->
    scores_eqb cand ceqb d1 d2 = true ->
    (functional_scores cand d1 /\ functional_scores cand d2) /\
    (forall c, opt_Qeq (lookup cand ceqb c d1) (lookup cand ceqb c d2)) /\
    (forall c, lookup0 cand ceqb c d1 == lookup0 cand ceqb c d2).
Proof. exact (scores_eqb_lookup_fwd_full cand ceqb ceqb_spec). Qed.

Theorem c11_scores_nodup_keys_functional :
  forall d : scores cand, NoDup (map fst d) -> functional_scores cand d.
Proof. exact (NoDup_keys_functional cand). Qed.

(* with absent = 0 ([lookup0], the reading used by the score tallies): exact when, in addition,
   no zero value is stored — which holds for every ballot made by the constructor *)
Theorem c11_scores_eqb_lookup0 :
  forall d1 d2 : scores cand,
    functional_scores cand d1 -> functional_scores cand d2 ->
    Forall (fun p => ~ snd p == 0) d1 -> Forall (fun p => ~ snd p == 0) d2 ->
    (scores_eqb cand ceqb d1 d2 = true <->
     forall c, lookup0 cand ceqb c d1 == lookup0 cand ceqb c d2).
Proof. exact (scores_eqb_lookup0 cand ceqb ceqb_spec). Qed.

(* ================= 3. derived fields ================= *)

(* the three definitional fields, for EVERY profile value: unfolding equations.  Zero- and
   negative-weight ballots count in num_ballots and total_ballot_wt, only ballots of weight > 0
   contribute to candidates_cast, through their ranking positions and their score keys. *)
Theorem c11_fields_definitional :
  forall p : profile cand,
    num_ballots cand p = length (ballots p) /\
    total_ballot_wt cand p == qsum (map wt (ballots p)) /\
    NoDup (candidates_cast cand ceqb p) /\
    (forall c, In c (candidates_cast cand ceqb p) <->
       exists b, In b (ballots p) /\ 0 < wt b /\
                 ((exists g, In g (rk b) /\ In c g) \/ (exists s, In (c, s) (sc b)))).
Proof. exact (fields_definitional cand ceqb ceqb_spec). Qed.

(* ... literally: removing the ballots of weight <= 0 does not change candidates_cast; and the
   set depends neither on the order of the ballots nor on how they are split *)
Theorem c11_cast_ignores_nonpositive :
  forall bs : list (ballot cand),
    cast_cands cand ceqb bs = cast_cands cand ceqb (filter (pos_wt cand) bs).
Proof. exact (cast_cands_filter_pos cand ceqb). Qed.

Theorem c11_cast_order_indep :
  forall (bs bs' : list (ballot cand)) (c : cand),
    (Permutation bs bs' -> (In c (cast_cands cand ceqb bs) <-> In c (cast_cands cand ceqb bs'))) /\
    (In c (cast_cands cand ceqb (bs ++ bs')) <->
     In c (cast_cands cand ceqb bs) \/ In c (cast_cands cand ceqb bs')).
Proof. exact (cast_order_indep cand ceqb ceqb_spec). Qed.

(* the constructor: every field of PreferenceProfile(ballots=bs, candidates=cs), the stored
   [cands] included, is what bs (and cs) imply *)
Theorem c11_constructor_fields :
  forall (bs : list (ballot cand)) (cs : list cand) (p : profile cand),
    mk_profile cand ceqb bs cs = inl p ->
    ballots p = bs /\
    num_ballots cand p = length bs /\
    total_ballot_wt cand p == qsum (map wt bs) /\
    candidates_cast cand ceqb p = cast_cands cand ceqb bs /\
    NoDup (cands p) /\
    (cs <> [] -> cands p = cs) /\
    (cs = [] -> cands p = candidates_cast cand ceqb p) /\
    (forall c, In c (cands p) <->
       In c cs \/ (cs = [] /\ exists b, In b bs /\ 0 < wt b /\
                     ((exists g, In g (rk b) /\ In c g) \/ (exists s, In (c, s) (sc b))))).
Proof. exact (mk_profile_fields cand ceqb ceqb_spec). Qed.

(* __add__: counts and totals add, the cast sets are united, and the stored candidates are the
   cast candidates of the sum *)
Theorem c11_add_fields :
  forall p q r : profile cand,
    profile_add cand ceqb p q = inl r ->
    num_ballots cand r = (num_ballots cand p + num_ballots cand q)%nat /\
    total_ballot_wt cand r == total_ballot_wt cand p + total_ballot_wt cand q /\
    cands r = candidates_cast cand ceqb r /\
    NoDup (cands r) /\
    (forall c, In c (candidates_cast cand ceqb r) <->
               In c (candidates_cast cand ceqb p) \/ In c (candidates_cast cand ceqb q)).
Proof. exact (profile_add_fields cand ceqb ceqb_spec). Qed.

End C11_fields.

Print Assumptions c11_condense_total.
Print Assumptions c11_condense_count.
Print Assumptions c11_condense_profile_fields.
Print Assumptions c11_condense_cast.
Print Assumptions c11_condense_profile_cast.
Print Assumptions c11_ranking_eqb_spec.
Print Assumptions c11_ranking_eqb_reflect.
Print Assumptions c11_ranking_eqb_nth.
Print Assumptions c11_scores_eqb_spec.
Print Assumptions c11_scores_eqb_reflect.
Print Assumptions c11_scores_eqb_lookup.
Print Assumptions c11_scores_eqb_lookup_fwd.
Print Assumptions c11_scores_nodup_keys_functional.
Print Assumptions c11_scores_eqb_lookup0.
Print Assumptions c11_fields_definitional.
Print Assumptions c11_cast_ignores_nonpositive.
Print Assumptions c11_cast_order_indep.
Print Assumptions c11_constructor_fields.
Print Assumptions c11_add_fields.

(* ---------- the hypothesis of c11_condense_cast is needed: a negative weight can cancel a
   content, whose candidates then leave candidates_cast ---------- *)
Example c11_condense_cast_negative_weight :
  cast_cands positive Pos.eqb
    [mkBallot [[1%positive]] 1 [] None None; mkBallot [[1%positive]] (-1) [] None None] = [1%positive] /\
  cast_cands positive Pos.eqb
    (condense_bs positive Pos.eqb
       [mkBallot [[1%positive]] 1 [] None None; mkBallot [[1%positive]] (-1) [] None None]) = [].
Proof. exact condense_cast_negative_example. Qed.

(* ---------- non-vacuity and boundary cases (cand := positive) ---------- *)
Section Examples.
Open Scope positive_scope.
Let B (r : list (list positive)) (w : Q) (s : list (positive * Q)) : ballot positive :=
  mkBallot r w s None None.

(* ranked, zero-weight scored+ranked, score-only, tied and repeated ballots *)
Let bsF : list (ballot positive) :=
  [ B [[1]; [2]] 1 []; B [[3]] 0 [(4, 1%Q)]; B [] 2 [(5, 2%Q)]; B [[2; 1]] (1#2) []; B [[1]; [2]] 1 [] ].

(* the constructor with an empty candidate tuple: candidates 3 and 4 appear only on the
   weight-0 ballot and are not cast; candidate 5 is cast through a score key *)
Let pF : profile positive := mkProfile bsF [5; 1; 2].
Example ex_constructor :
  mk_profile positive Pos.eqb bsF [] = inl pF /\
  num_ballots positive pF = 5%nat /\
  (total_ballot_wt positive pF == 9 # 2)%Q /\
  candidates_cast positive Pos.eqb pF = [5; 1; 2].
Proof. repeat split; vm_compute; reflexivity. Qed.

(* a given candidate tuple is stored as it is, whatever was cast *)
Example ex_constructor_given :
  mk_profile positive Pos.eqb bsF [7; 1] = inl (mkProfile bsF [7; 1]) /\
  candidates_cast positive Pos.eqb (mkProfile bsF [7; 1]) = [5; 1; 2].
Proof. split; vm_compute; reflexivity. Qed.

(* condensing: 5 ballots become 4, total unchanged, hypothesis of c11_condense_cast holds *)
Example ex_condense_fields :
  length (condense_bs positive Pos.eqb bsF) = 4%nat /\
  (total_wt positive (condense_bs positive Pos.eqb bsF) == 9 # 2)%Q /\
  (forall b, In b bsF -> (0 <= wt b)%Q) /\
  cast_cands positive Pos.eqb (condense_bs positive Pos.eqb bsF) = [5; 2; 1].
Proof.
  split; [vm_compute; reflexivity|]. split; [vm_compute; reflexivity|]. split; [|vm_compute; reflexivity].
  intros b Hb. cbn in Hb.
  repeat (destruct Hb as [<-|Hb]; [vm_compute; discriminate|]). destruct Hb.
Qed.

Example ex_add_fields :
  profile_add positive Pos.eqb (mkProfile bsF [1; 2]) (mkProfile [B [[3]] 1 []] [3])
  = inl (mkProfile (bsF ++ [B [[3]] 1 []]) [5; 1; 2; 3]).
Proof. vm_compute. reflexivity. Qed.

(* rankings: repetition and order inside a position do not matter; positions do *)
Example ex_ranking_eqb :
  ranking_eqb positive Pos.eqb [[1; 2; 2]; [3]] [[2; 1]; [3; 3]] = true /\
  ranking_eqb positive Pos.eqb [[1]; [2]] [[1; 2]] = false /\
  ranking_eqb positive Pos.eqb [[1]; []] [[1]] = false /\
  ranking_eqb positive Pos.eqb [[1]; [2]] [[2]; [1]] = false.
Proof. repeat split; vm_compute; reflexivity. Qed.

Example ex_ranking_spec_instance :
  Forall2 (fun s1 s2 : list positive => forall c, In c s1 <-> In c s2) [[1; 2; 2]; [3]] [[2; 1]; [3; 3]].
Proof. apply (c11_ranking_eqb_spec positive Pos.eqb Pos.eqb_spec). vm_compute. reflexivity. Qed.

(* scores: order, repetition and the representative of a value do not matter *)
Example ex_scores_eqb :
  scores_eqb positive Pos.eqb [(1, 1%Q); (2, (1#2)%Q)] [(2, (2#4)%Q); (1, 1%Q); (1, (3#3)%Q)] = true /\
  scores_eqb positive Pos.eqb [(1, 1%Q)] [(1, 2%Q)] = false /\
  scores_eqb positive Pos.eqb [(1, 1%Q)] [(2, 1%Q)] = false.
Proof. repeat split; vm_compute; reflexivity. Qed.

(* a stored zero score is not the same as no score, although [lookup0] cannot tell them apart:
   the no-zero hypothesis of c11_scores_eqb_lookup0 is needed *)
Let dZ : scores positive := [(1, 0%Q)].
Example ex_scores_zero_is_an_entry :
  scores_eqb positive Pos.eqb dZ [] = false /\
  (forall c, lookup0 positive Pos.eqb c dZ == lookup0 positive Pos.eqb c [])%Q.
Proof.
  split; [vm_compute; reflexivity|]. intro c. unfold lookup0, lookup, dZ. cbn [find fst snd].
  destruct (Pos.eqb c 1); reflexivity.
Qed.

(* duplicate keys with different values: equal as entry sets, different as first-match maps
   (so -> of c11_scores_eqb_lookup needs a functional side) ... *)
Example ex_scores_dup_keys_fwd :
  scores_eqb positive Pos.eqb [(1, 1%Q); (1, 2%Q)] [(1, 2%Q); (1, 1%Q)] = true /\
  lookup positive Pos.eqb 1 [(1, 1%Q); (1, 2%Q)] = Some 1%Q /\
  lookup positive Pos.eqb 1 [(1, 2%Q); (1, 1%Q)] = Some 2%Q.
Proof. repeat split; vm_compute; reflexivity. Qed.

(* ... and the same first-match map, different entry sets (so <- needs both sides functional) *)
Example ex_scores_dup_keys_bwd :
  scores_eqb positive Pos.eqb [(1, 1%Q); (1, 2%Q)] [(1, 1%Q)] = false /\
  functional_scores positive [(1, 1%Q)] /\
  (forall c, opt_Qeq (lookup positive Pos.eqb c [(1, 1%Q); (1, 2%Q)])
                     (lookup positive Pos.eqb c [(1, 1%Q)])).
Proof.
  split; [vm_compute; reflexivity|]. split.
  - apply c11_scores_nodup_keys_functional. repeat constructor. intros [].
  - intro c. unfold lookup. cbn [find fst snd]. destruct (Pos.eqb c 1); cbn; reflexivity.
Qed.

(* the hypotheses of the finite-map reading hold for ordinary score dicts *)
Example ex_functional :
  functional_scores positive [(1, 1%Q); (2, (1#2)%Q)] /\
  Forall (fun p : positive * Q => ~ (snd p == 0)%Q) [(1, 1%Q); (2, (1#2)%Q)].
Proof.
  split.
  - apply c11_scores_nodup_keys_functional. cbn [map fst].
    constructor; [intros [H|[]]; discriminate H|]. constructor; [intros []|constructor].
  - repeat constructor; cbn [snd]; intro H; discriminate H.
Qed.
End Examples.
