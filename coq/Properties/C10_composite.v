(* Properties/C10_composite.v — C10 for the composite rules TopTwo and Alaska: the meaning of a
   recorded tiebreak in each of their rounds.  Statements only; proofs are in
   Proofs/C10_composite.v.  (Properties/C10.v covers the one-shot rules, CondoBorda, STV and
   [tiebreak_set] itself; Properties/C10_closed.v the STV rounds at full strength.)

   TopTwo  = [s0; s1; s2]: s0 = round 0 of p (first-place votes of p), s1 = the Plurality(2) stage
             (survivors in [remaining], losers in [eliminated]), s2 = Plurality(1) on the reduced
             profile p1 (p with the losers removed), whose first-place votes are [escores s1].
   Alaska  = s0 :: s1 :: rest: s0, s1 as above with the Plurality(m1) stage and the tiebreak option
             of the STV configuration; rest = the rounds 1.. of STV(m2) on p1, renumbered.

   Vocabulary: [tied_on], [tied_at], [big], [rebuild], [no_tiebreak] from Spec/TieSpec.v,
   [wf_stv_profile] from Spec/STVSpec.v; [scored_reading] below. *)
From VK Require Import Base Core STV Pairwise Rules.
From VK.Spec Require Import ScoreSpec TieSpec STVSpec.
From VK.Proofs Require Import C10_composite STV_final.
From Coq Require Import Permutation.

Section C10_composite.
Variable cand : Type.
Variable ceqb : cand -> cand -> bool.
Hypothesis ceqb_spec : forall a b, reflect (a = b) (ceqb a b).

Notation cset := (cset cand).
Notation ranking := (ranking cand).
Notation profile := (profile cand).
Notation scores := (scores cand).
Notation mstate := (mstate cand).
Notation estate := (estate cand).
Notation flat := (flat cand).
Notation singletons := (singletons cand).
Notation score_to_ranking := (score_to_ranking cand).
Notation memb := (memb cand ceqb).
Notation tied_at := (tied_at cand).
Notation tied_on := (tied_on cand).
Notation no_tiebreak := (no_tiebreak cand).
Notation big := (big cand).
Notation rebuild := (rebuild cand).
Notation no_group := (no_group cand).
Notation wf_stv_profile := (wf_stv_profile cand).
Notation tiebreak_set := (tiebreak_set cand ceqb).
Notation first_place_votes := (first_place_votes cand ceqb).
Notation borda_scores := (borda_scores cand ceqb).
Notation remove_cand_prof := (remove_cand_prof cand ceqb).
Notation run_toptwo := (run_toptwo cand ceqb).
Notation run_alaska := (run_alaska cand ceqb).
Notation stv_init := (stv_init cand).
Notation run_stv := (run_stv cand ceqb).
Notation bump := (bump cand).

(* ================================================================== *)
(** * 1. TopTwo, round 1: the Plurality(2) stage *)

(* a recorded pair (g, t) of s1 is the only one of the round; g is a whole group of the round-0
   ranking of p — duplicate-free candidates of p, tied on the first-place votes of p (the scores
   of s0), at least two of them — and seat 2 falls strictly inside it (fewer than 2 candidates rank
   above g, more than 2 are reached with it); t was returned by [tiebreak_set g] on the profile p
   with the configured tiebreak, from the monad state the run started in; t is a strict order
   [kept ++ dropped] of exactly the members of g; the survivors of round 1 are the groups above g
   followed by [kept], the eliminated candidates are [dropped] followed by the groups below g:
   the members of g that survive are exactly the prefix [kept] of the order, those eliminated
   exactly the rest, and both parts are non-empty (the order mattered). *)
Theorem c10_toptwo_round1 : forall tb (p : profile) (s s' : mstate) s0 s1 s2 g t,
  NoDup (cands p) ->
  run_toptwo tb p s = inl ([s0; s1; s2], s') ->
  In (g, t) (tiebreaks s1) ->
  exists pre post kind (sa : mstate) kept dropped,
    tb = Some kind /\ tiebreaks s1 = [(g, t)] /\
    first_place_votes p = inl (escores s0) /\
    remaining s0 = pre ++ g :: post /\ tied_on (escores s0) g /\ (2 <= length g)%nat /\
    NoDup g /\ incl g (cands p) /\
    (Z.of_nat (length (flat pre)) < 2 < Z.of_nat (length (flat pre) + length g))%Z /\
    tiebreak_set g (Some p) kind s = inl (t, sa) /\
    t = singletons (kept ++ dropped) /\ Permutation (kept ++ dropped) g /\ NoDup (kept ++ dropped) /\
    Z.of_nat (length (flat pre) + length kept) = 2%Z /\ kept <> [] /\ dropped <> [] /\
    remaining s1 = pre ++ singletons kept /\ eliminated s1 = singletons dropped ++ post /\
    elected s1 = no_group /\
    (forall c, In c g -> (In c (flat (remaining s1)) <-> In c kept) /\
                        (In c (flat (eliminated s1)) <-> In c dropped)).
Proof. exact (c10_toptwo_round1_proof cand ceqb ceqb_spec). Qed.

(* ================================================================== *)
(** * 2. TopTwo, round 2: Plurality(1) on the reduced profile *)

(* a recorded pair (g, t) of s2 is the only one of the round; the deciding tally is the
   first-place votes of the reduced profile p1 (= the scores of s1); its ranking is the single
   group g: the two finalists (the candidates of p1, the survivors of round 1), tied head to head,
   so seat 1 falls strictly inside g; t was returned by [tiebreak_set g] on the REDUCED profile p1;
   it is a strict order [[w];[x]] of the two finalists; w is elected and x remains. *)
Theorem c10_toptwo_round2 : forall tb (p : profile) (s s' : mstate) s0 s1 s2 g t,
  NoDup (cands p) ->
  run_toptwo tb p s = inl ([s0; s1; s2], s') ->
  In (g, t) (tiebreaks s2) ->
  exists (p1 : profile) kind (sa sb : mstate) w x,
    tb = Some kind /\ tiebreaks s2 = [(g, t)] /\
    remove_cand_prof (flat (eliminated s1)) true false p = inl p1 /\
    first_place_votes p1 = inl (escores s1) /\
    score_to_ranking (escores s1) true = [g] /\ tied_on (escores s1) g /\ length g = 2%nat /\
    NoDup g /\ Permutation g (cands p1) /\ Permutation g (flat (remaining s1)) /\
    tiebreak_set g (Some p1) kind sa = inl (t, sb) /\
    t = [[w]; [x]] /\ Permutation [w; x] g /\ w <> x /\
    elected s2 = [[w]] /\ remaining s2 = [[x]] /\ eliminated s2 = no_group.
Proof. exact (c10_toptwo_round2_proof cand ceqb ceqb_spec). Qed.

(* ================================================================== *)
(** * 3. Alaska, round 1: the Plurality(m1) stage with the tiebreak option of the configuration *)

Theorem c10_alaska_round1 : forall m1 m2 cfg (p : profile) (s s' : mstate) s0 s1 rest g t,
  NoDup (cands p) ->
  run_alaska m1 m2 cfg p s = inl (s0 :: s1 :: rest, s') ->
  In (g, t) (tiebreaks s1) ->
  exists pre post kind (sa : mstate) kept dropped,
    s_tiebreak cfg = Some kind /\ tiebreaks s1 = [(g, t)] /\
    first_place_votes p = inl (escores s0) /\
    remaining s0 = pre ++ g :: post /\ tied_on (escores s0) g /\ (2 <= length g)%nat /\
    NoDup g /\ incl g (cands p) /\
    (Z.of_nat (length (flat pre)) < m1 < Z.of_nat (length (flat pre) + length g))%Z /\
    tiebreak_set g (Some p) kind s = inl (t, sa) /\
    t = singletons (kept ++ dropped) /\ Permutation (kept ++ dropped) g /\ NoDup (kept ++ dropped) /\
    Z.of_nat (length (flat pre) + length kept) = m1 /\ kept <> [] /\ dropped <> [] /\
    remaining s1 = pre ++ singletons kept /\ eliminated s1 = singletons dropped ++ post /\
    elected s1 = no_group /\
    (forall c, In c g -> (In c (flat (remaining s1)) <-> In c kept) /\
                        (In c (flat (eliminated s1)) <-> In c dropped)).
Proof. exact (c10_alaska_round1_proof cand ceqb ceqb_spec). Qed.

(* ================================================================== *)
(** * 4. Alaska, rounds >= 2: the rounds of the inner STV(m2) run on the reduced profile *)

(* on a valid profile, with the fractional or full-weight transfer: the run is s0 :: s1 :: rest;
   p1 is p with the losers of round 1 removed, its candidates are the survivors, its first-place
   votes are the scores of s1, t is the STV threshold of p1 for m2 seats; rest is the list of
   rounds 1.. of the run [inner] of STV(m2) on p1, renumbered by [bump], which keeps every other
   field — so the pairs recorded in round k+1 of the Alaska run are those of round k of [inner].  For every round
   prev -> st after round 1 (prev = s1 or later) a recorded pair (g, tt) is the only one of its
   round; g is duplicate-free, made of candidates of p1, with at least two members.  The deciding
   ranking rk of the round is [remaining prev], EXCEPT in the first STV round, where it is the
   ranking by first-place votes of p1 ([remaining s1] lists the survivors in the order of the
   round-1 tiebreak instead); the deciding tallies are [escores prev].  Either
   - (one-by-one election) g is the top group of rk, its members share the tally k, the largest,
     which reaches the threshold; tt was returned by [tiebreak_set g] on the current profile with
     the configured tiebreak, is a strict order of g, and its first entry is the elected group; or
   - (elimination) nobody reaches the threshold, g is the last group of rk, its members share the
     smallest tally k; tt was returned by the first-place tiebreak on p1 (the STV run's initial
     profile, NOT p), is a strict order of g, and its last entry x is the eliminated candidate. *)
Theorem c10_alaska_stv_rounds : forall m1 m2 cfg (p : profile) (s s' : mstate) out,
  s_transfer cfg <> TRandom -> wf_stv_profile p ->
  run_alaska m1 m2 cfg p s = inl (out, s') ->
  exists s0 s1 rest (p1 : profile) t inner (sa sb : mstate),
    out = s0 :: s1 :: rest /\
    remove_cand_prof (flat (eliminated s1)) true false p = inl p1 /\
    first_place_votes p1 = inl (escores s1) /\
    Permutation (cands p1) (flat (remaining s1)) /\
    stv_init (with_m cfg m2) p1 = inl t /\
    run_stv (with_m cfg m2) p1 sa = inl (inner, sb) /\ rest = map bump (tl inner) /\
    forall l1 prev st l2 g tt, s1 :: rest = l1 ++ prev :: st :: l2 -> In (g, tt) (tiebreaks st) ->
      let rk := match l1 with
                | [] => score_to_ranking (escores s1) true
                | _ :: _ => remaining prev
                end in
      tiebreaks st = [(g, tt)] /\ (2 <= length g)%nat /\ NoDup g /\ incl g (cands p1) /\
      ((exists (pc : profile) (sa sb : mstate) post kind k,
          s_simul cfg = false /\ s_tiebreak cfg = Some kind /\ rk = g :: post /\
          tied_at (escores prev) g k /\ t <= k /\
          (forall c q, In (c, q) (escores prev) -> q <= k) /\
          tiebreak_set g (Some pc) kind sa = inl (tt, sb) /\
          elected st = firstn 1 tt /\ eliminated st = no_group /\
          exists l, tt = singletons l /\ Permutation l g /\ NoDup l)
       \/
       (exists (sa sb : mstate) rest' x k l l',
          filter (fun q => Qle_bool t (snd q)) (escores prev) = [] /\
          rev rk = g :: rest' /\
          tied_at (escores prev) g k /\ (forall c q, In (c, q) (escores prev) -> k <= q) /\
          tiebreak_set g (Some p1) TBFirstPlace sa = inl (tt, sb) /\
          eliminated st = [[x]] /\ elected st = no_group /\
          tt = singletons l /\ Permutation l g /\ NoDup l /\ l = l' ++ [x])).
Proof.
  exact (fun m1 m2 cfg p s s' out Hk Hwf =>
           c10_alaska_stv_rounds_proof cand ceqb ceqb_spec m1 m2 cfg p s s' out Hk (proj1 Hwf)).
Qed.

(* ================================================================== *)
(** * 5. Scored tiebreaks in the stages: by the score of the profile handed to the stage *)

(* the reading of the answer [t = singletons l] of a 'first_place' / 'borda' tiebreak of g by the
   score list d, computed from monad state s to sa:
   - a candidate of g with a strictly higher score precedes one with a lower score in l;
   - with r = the members of g ranked by d: exactly one [random.sample] is made per group of r
     with two or more members, in the order of r, each answer a duplicate-free permutation of its
     group; nothing else is consumed from the script; t is r with those groups replaced by the
     drawn orders;
   - the groups of r partition g, two members of g share a group of r exactly when their scores
     are equal: only candidates still tied on the score are ordered by a draw. *)
Definition scored_reading (g : cset) (d : scores) (s sa : mstate) (t : ranking) (l : list cand)
  : Prop :=
  (forall a b qa qb, In a g -> In b g -> In (a, qa) d -> In (b, qb) d -> qb < qa ->
     exists x y z, l = x ++ a :: y ++ b :: z) /\
  (exists ls : list (list cand),
     scr s = map DPerm ls ++ scr sa /\
     lg sa = rev (map CSample
                    (filter big (score_to_ranking (filter (fun q => memb (fst q) g) d) true))) ++ lg s /\
     Forall2 (fun l0 sg => Permutation l0 sg /\ NoDup l0) ls
       (filter big (score_to_ranking (filter (fun q => memb (fst q) g) d) true)) /\
     t = rebuild (score_to_ranking (filter (fun q => memb (fst q) g) d) true) ls) /\
  Permutation (flat (score_to_ranking (filter (fun q => memb (fst q) g) d) true)) g /\
  (forall c1 c2 q1 q2, In c1 g -> In c2 g -> In (c1, q1) d -> In (c2, q2) d ->
     ((exists sg, In sg (score_to_ranking (filter (fun q => memb (fst q) g) d) true) /\
                  In c1 sg /\ In c2 sg) <-> q1 == q2)).

(* TopTwo round 1: the score is that of the input profile p; the tiebreak starts from the monad
   state the run started in *)
Theorem c10_toptwo_round1_scored :
  forall kind (p : profile) (s s' : mstate) s0 s1 s2 g t (d : scores),
  NoDup (cands p) ->
  run_toptwo (Some kind) p s = inl ([s0; s1; s2], s') ->
  In (g, t) (tiebreaks s1) ->
  (kind = TBFirstPlace /\ first_place_votes p = inl d) \/
  (kind = TBBorda /\ borda_scores p = inl d) ->
  exists (sa : mstate) l,
    tiebreak_set g (Some p) kind s = inl (t, sa) /\ t = singletons l /\ Permutation l g /\
    scored_reading g d s sa t l.
Proof. exact (c10_toptwo_round1_scored_proof cand ceqb ceqb_spec). Qed.

(* TopTwo round 2: the score is that of the REDUCED profile p1 *)
Theorem c10_toptwo_round2_scored :
  forall kind (p p1 : profile) (s s' : mstate) s0 s1 s2 g t (d : scores),
  NoDup (cands p) ->
  run_toptwo (Some kind) p s = inl ([s0; s1; s2], s') ->
  In (g, t) (tiebreaks s2) ->
  remove_cand_prof (flat (eliminated s1)) true false p = inl p1 ->
  (kind = TBFirstPlace /\ first_place_votes p1 = inl d) \/
  (kind = TBBorda /\ borda_scores p1 = inl d) ->
  exists (sa sb : mstate) w x,
    tiebreak_set g (Some p1) kind sa = inl (t, sb) /\ t = [[w]; [x]] /\ Permutation [w; x] g /\
    scored_reading g d sa sb t [w; x].
Proof. exact (c10_toptwo_round2_scored_proof cand ceqb ceqb_spec). Qed.

(* Alaska round 1: the score is that of the input profile p *)
Theorem c10_alaska_round1_scored :
  forall m1 m2 cfg kind (p : profile) (s s' : mstate) s0 s1 rest g t (d : scores),
  NoDup (cands p) -> s_tiebreak cfg = Some kind ->
  run_alaska m1 m2 cfg p s = inl (s0 :: s1 :: rest, s') ->
  In (g, t) (tiebreaks s1) ->
  (kind = TBFirstPlace /\ first_place_votes p = inl d) \/
  (kind = TBBorda /\ borda_scores p = inl d) ->
  exists (sa : mstate) l,
    tiebreak_set g (Some p) kind s = inl (t, sa) /\ t = singletons l /\ Permutation l g /\
    scored_reading g d s sa t l.
Proof. exact (c10_alaska_round1_scored_proof cand ceqb ceqb_spec). Qed.

(* 'first_place' in a Plurality stage is a plain random tiebreak: the tiebreak score is the
   deciding tally itself, so the whole set is still tied on it.  With 'first_place' or 'random'
   the recorded order is the answer l of exactly ONE draw [random.sample sg], sg a listing of g,
   made first thing in the run (round 1) *)
Theorem c10_toptwo_round1_random :
  forall kind (p : profile) (s s' : mstate) s0 s1 s2 g t,
  NoDup (cands p) ->
  run_toptwo (Some kind) p s = inl ([s0; s1; s2], s') ->
  In (g, t) (tiebreaks s1) ->
  kind = TBFirstPlace \/ kind = TBRandom ->
  exists (sa : mstate) l sg,
    tiebreak_set g (Some p) kind s = inl (t, sa) /\
    Permutation sg g /\ scr s = DPerm l :: scr sa /\ lg sa = CSample sg :: lg s /\
    t = singletons l /\ Permutation l g /\ NoDup l.
Proof. exact (c10_toptwo_round1_random_proof cand ceqb ceqb_spec). Qed.

Theorem c10_toptwo_round2_random :
  forall kind (p : profile) (s s' : mstate) s0 s1 s2 g t,
  NoDup (cands p) ->
  run_toptwo (Some kind) p s = inl ([s0; s1; s2], s') ->
  In (g, t) (tiebreaks s2) ->
  kind = TBFirstPlace \/ kind = TBRandom ->
  exists (p1 : profile) (sa sb : mstate) l sg,
    remove_cand_prof (flat (eliminated s1)) true false p = inl p1 /\
    tiebreak_set g (Some p1) kind sa = inl (t, sb) /\
    Permutation sg g /\ scr sa = DPerm l :: scr sb /\ lg sb = CSample sg :: lg sa /\
    t = singletons l /\ Permutation l g /\ NoDup l.
Proof. exact (c10_toptwo_round2_random_proof cand ceqb ceqb_spec). Qed.

Theorem c10_alaska_round1_random :
  forall m1 m2 cfg kind (p : profile) (s s' : mstate) s0 s1 rest g t,
  NoDup (cands p) -> s_tiebreak cfg = Some kind ->
  run_alaska m1 m2 cfg p s = inl (s0 :: s1 :: rest, s') ->
  In (g, t) (tiebreaks s1) ->
  kind = TBFirstPlace \/ kind = TBRandom ->
  exists (sa : mstate) l sg,
    tiebreak_set g (Some p) kind s = inl (t, sa) /\
    Permutation sg g /\ scr s = DPerm l :: scr sa /\ lg sa = CSample sg :: lg s /\
    t = singletons l /\ Permutation l g /\ NoDup l.
Proof. exact (c10_alaska_round1_random_proof cand ceqb ceqb_spec). Qed.

(* ================================================================== *)
(** * 6. No tiebreak option: nothing is recorded; a tiebreak option: every straddling tie is *)

(* TopTwo without a tiebreak option: a successful run records no tiebreak in any round and
   consumes no draw (a tie straddling seat 2, or between the finalists, is a ValueError instead:
   Properties/C13.v c13_toptwo_tie, Properties/C01 error theorems) *)
Theorem c10_toptwo_none : forall (p : profile) (s s' : mstate) sts,
  run_toptwo None p s = inl (sts, s') -> Forall no_tiebreak sts /\ s' = s.
Proof. exact (c10_toptwo_none_proof cand ceqb). Qed.

(* Alaska without a tiebreak option: rounds 0 and 1 record nothing (the STV rounds can still
   record elimination ties, which never use the option: see c10_alaska_stv_rounds) *)
Theorem c10_alaska_stage_none : forall m1 m2 cfg (p : profile) (s s' : mstate) s0 s1 rest,
  s_tiebreak cfg = None ->
  run_alaska m1 m2 cfg p s = inl (s0 :: s1 :: rest, s') ->
  tiebreaks s0 = [] /\ tiebreaks s1 = [].
Proof. exact (c10_alaska_none_proof cand ceqb). Qed.

(* conversely, every order-dependent decision of the stages is recorded: in a successful TopTwo
   run a group of the round-0 ranking straddling seat 2 is recorded in round 1, and a group of the
   first-place ranking of the reduced profile straddling seat 1 is recorded in round 2 *)
Theorem c10_toptwo_recorded : forall tb (p : profile) (s s' : mstate) s0 s1 s2,
  run_toptwo tb p s = inl ([s0; s1; s2], s') ->
  (forall pre g post, remaining s0 = pre ++ g :: post ->
     (length (flat pre) < 2 < length (flat pre) + length g)%nat ->
     exists t, tiebreaks s1 = [(g, t)]) /\
  (forall pre g post, score_to_ranking (escores s1) true = pre ++ g :: post ->
     (length (flat pre) < 1 < length (flat pre) + length g)%nat ->
     exists t, tiebreaks s2 = [(g, t)]).
Proof. exact (c10_toptwo_recorded_proof cand ceqb). Qed.

Theorem c10_alaska_recorded : forall m1 m2 cfg (p : profile) (s s' : mstate) s0 s1 rest,
  run_alaska m1 m2 cfg p s = inl (s0 :: s1 :: rest, s') ->
  forall pre g post, remaining s0 = pre ++ g :: post ->
    (Z.of_nat (length (flat pre)) < m1 < Z.of_nat (length (flat pre) + length g))%Z ->
    exists t, tiebreaks s1 = [(g, t)].
Proof. exact (c10_alaska_recorded_proof cand ceqb). Qed.

End C10_composite.

Print Assumptions c10_toptwo_round1.
Print Assumptions c10_toptwo_round2.
Print Assumptions c10_alaska_round1.
Print Assumptions c10_alaska_stv_rounds.
Print Assumptions c10_toptwo_round1_scored.
Print Assumptions c10_toptwo_round2_scored.
Print Assumptions c10_alaska_round1_scored.
Print Assumptions c10_toptwo_round1_random.
Print Assumptions c10_toptwo_round2_random.
Print Assumptions c10_alaska_round1_random.
Print Assumptions c10_toptwo_none.
Print Assumptions c10_alaska_stage_none.
Print Assumptions c10_toptwo_recorded.
Print Assumptions c10_alaska_recorded.

(* ================================================================== *)
(** * Non-vacuity: concrete runs (cand := positive) with a recorded tiebreak in rounds 1 and 2 *)
Module C10CompositeExamples.
Open Scope positive_scope.

Definition B (l : list positive) (w : Q) : ballot positive :=
  plain_ballot positive (Core.singletons positive l) w.

Ltac solve_nodup :=
  repeat (constructor; [cbn; intuition discriminate|]); constructor.

(* first-place votes 1: 3, 2: 2, 3: 2 — candidates 2 and 3 straddle seat 2; when 3 survives, the
   reduced profile gives 3 votes to candidate 1 and 3 to candidate 3 (the ballot 2 > 3 moves to
   3): a head-to-head tie in round 2.
   Borda scores of p (3, 2, 1; unranked share the rest): 1: 14.5, 2: 13.5, 3: 14. *)
Definition p2 : profile positive := mkProfile [B [1] 3; B [2;3] 1; B [2] 1; B [3] 2] [1;2;3].

Definition toptwo tb s := Rules.run_toptwo positive Pos.eqb tb p2 s.
Definition alaska cfg s := Rules.run_alaska positive Pos.eqb 2 1 cfg p2 s.
Definition cfgR : stv_cfg := mkStv 1 QDroop true TFractional (Some TBRandom).
Definition cfgB : stv_cfg := mkStv 1 QDroop true TFractional (Some TBBorda).

(* (a) TopTwo, random tiebreak: round 1 draws [3;2] (3 survives, 2 is eliminated), round 2 draws
   [3;1] (3 wins); the third draw is consumed by the get_profile replay and discarded *)
Example c10x_toptwo_random :
  NoDup (cands p2) /\
  exists s0 s1 s2,
    toptwo (Some TBRandom) (mkM [DPerm [3;2]; DPerm [3;1]; DPerm [1;3]] [])
      = inl ([s0; s1; s2], mkM [] [CSample [1;3]; CSample [1;3]; CSample [2;3]]) /\
    remaining s0 = [[1]; [2;3]] /\
    In ([2;3], [[3];[2]]) (tiebreaks s1) /\ remaining s1 = [[1];[3]] /\ eliminated s1 = [[2]] /\
    In ([1;3], [[3];[1]]) (tiebreaks s2) /\ elected s2 = [[3]] /\ remaining s2 = [[1]].
Proof.
  split; [solve_nodup|]. vm_compute. do 3 eexists. split; [reflexivity|].
  repeat split; try reflexivity; left; reflexivity.
Qed.

(* (b) TopTwo, borda tiebreak: round 1 needs no draw (3 has the higher Borda score in p and
   precedes 2); in round 2 the finalists are tied on the Borda score of the reduced profile too,
   and one recorded draw [1;3] decides (the second draw is the replay's) *)
Example c10x_toptwo_borda :
  NoDup (cands p2) /\
  (exists d q2 q3, Core.borda_scores positive Pos.eqb p2 = inl d /\
     In (2, q2) d /\ In (3, q3) d /\ (q2 < q3)%Q) /\
  exists s0 s1 s2,
    toptwo (Some TBBorda) (mkM [DPerm [1;3]; DPerm [1;3]] [])
      = inl ([s0; s1; s2], mkM [] [CSample [1;3]; CSample [1;3]]) /\
    In ([2;3], [[3];[2]]) (tiebreaks s1) /\ remaining s1 = [[1];[3]] /\ eliminated s1 = [[2]] /\
    In ([1;3], [[1];[3]]) (tiebreaks s2) /\ elected s2 = [[1]] /\ remaining s2 = [[3]].
Proof.
  split; [solve_nodup|]. split.
  { vm_compute. do 3 eexists. split; [reflexivity|].
    split; [right; left; reflexivity|]. split; [right; right; left; reflexivity|reflexivity]. }
  vm_compute. do 3 eexists. split; [reflexivity|].
  repeat split; try reflexivity; left; reflexivity.
Qed.

(* (c) Alaska(m1 = 2, m2 = 1), random tiebreak: the hypotheses of c10_alaska_stv_rounds hold;
   round 1 draws [3;2]; in round 2 (the first STV round on the reduced profile, threshold 4)
   nobody reaches the threshold, 1 and 3 tie for elimination with 3 votes each — also tied on the
   first-place votes of the reduced profile — and the recorded draw [3;1] eliminates 1 *)
Example c10x_alaska_random :
  s_transfer cfgR <> TRandom /\ STVSpec.wf_stv_profile positive p2 /\
  exists s0 s1 s2 s3,
    alaska cfgR (mkM [DPerm [3;2]; DPerm [3;1]; DPerm [1;3]] [])
      = inl ([s0; s1; s2; s3], mkM [] [CSample [1;3]; CSample [1;3]; CSample [2;3]]) /\
    In ([2;3], [[3];[2]]) (tiebreaks s1) /\ remaining s1 = [[1];[3]] /\ eliminated s1 = [[2]] /\
    In ([1;3], [[3];[1]]) (tiebreaks s2) /\ eliminated s2 = [[1]] /\ remaining s2 = [[3]] /\
    elected s3 = [[3]].
Proof.
  split; [discriminate|].
  split; [apply (wf_stv_profile_b_ok positive Pos.eqb Pos.eqb_spec); vm_compute; reflexivity|].
  vm_compute. do 4 eexists. split; [reflexivity|].
  repeat split; try reflexivity; left; reflexivity.
Qed.

(* (d) Alaska, borda tiebreak: round 1 is decided by the Borda scores of p without a draw *)
Example c10x_alaska_borda :
  s_tiebreak cfgB = Some TBBorda /\ NoDup (cands p2) /\
  exists s0 s1 s2 s3,
    alaska cfgB (mkM [DPerm [3;1]; DPerm [1;3]] [])
      = inl ([s0; s1; s2; s3], mkM [] [CSample [1;3]; CSample [1;3]]) /\
    In ([2;3], [[3];[2]]) (tiebreaks s1) /\ remaining s1 = [[1];[3]] /\ eliminated s1 = [[2]] /\
    In ([1;3], [[3];[1]]) (tiebreaks s2) /\ eliminated s2 = [[1]].
Proof.
  split; [reflexivity|]. split; [solve_nodup|].
  vm_compute. do 4 eexists. split; [reflexivity|].
  repeat split; try reflexivity; left; reflexivity.
Qed.

(* (e) without a tiebreak option the same profile is refused (the tie straddles seat 2) *)
Example c10x_toptwo_none_refused : toptwo None (mkM [] []) = inr EValue.
Proof. vm_compute. reflexivity. Qed.

End C10CompositeExamples.
