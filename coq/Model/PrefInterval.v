(* Model/PrefInterval.v — pref_interval.py (PreferenceInterval, combine_preference_intervals) and the
   closed-form probability tables of ballot_generator.py (name_BradleyTerry._BT_pdf / _calc_prob,
   slate_BradleyTerry._compute_ballot_type_dist), in exact rationals.  Candidates and blocs are
   numbered (positive).  Executable, code-shaped, no proofs. *)
From VK Require Import Base Core GenValidation.

Definition pcand := positive.
Record pinterval := mkPI { pi_int : list (pcand * Q); pi_zero : list pcand }.

(* PreferenceInterval(interval): zero-support candidates set aside, the rest rescaled to sum 1 *)
Definition mk_interval (d : list (pcand * Q)) : res pinterval :=
  let zero := map fst (filter (fun p => Qeq_bool (snd p) 0) d) in
  let pos := filter (fun p => Qlt_bool 0 (snd p)) d in
  let s := qsum (map snd pos) in
  if Qeq_bool s 0 then err EZeroDiv
  else ok (mkPI (map (fun p => (fst p, Qred (snd p / s))) pos) zero).

Definition pi_cands (i : pinterval) : list pcand := map fst (pi_int i) ++ pi_zero i.

(* combine_preference_intervals(intervals, proportions) *)
Definition combine_intervals (is : list pinterval) (props : list Q) : res pinterval :=
  let! _ := combine_checks (map pi_cands is) props in
  let scaled := concat (map (fun ip => map (fun p => (fst p, snd p * snd ip)) (pi_int (fst ip)))
                            (combine is props)) in
  let! s := mk_interval scaled in
  let zero := concat (map pi_zero is) in
  ok (mkPI (pi_int s)
           (pi_zero s ++ filter (fun c => negb (existsb (Pos.eqb c) (pi_zero s))) zero)).

(* ---------- name-Bradley-Terry ---------- *)
Definition lookupP (d : list (pcand * Q)) (c : pcand) : Q :=
  match find (fun p => Pos.eqb c (fst p)) d with Some p => snd p | None => 0 end.

(* _make_pow: prod_i val_i ^ (m - i - 1) *)
Fixpoint Qpow' (q : Q) (n : nat) : Q := match n with O => 1 | S n' => q * Qpow' q n' end.
Fixpoint make_pow (l : list Q) : Q :=
  match l with
  | [] => 1
  | x :: l' => Qpow' x (length l') * make_pow l'
  end.

(* _BT_pdf(dct): over every permutation of the keys, normalised *)
Definition bt_pdf (d : list (pcand * Q)) : list (list pcand * Q) :=
  let ps := perms pcand (map fst d) in
  let raw := map (fun p => (p, Qred (make_pow (map (lookupP d) p)))) ps in
  let s := Qred (qsum (map snd raw)) in
  map (fun pw => (fst pw, Qred (snd pw / s))) raw.

(* _calc_prob for one ranking: prod_{i<j} x_i / (x_i + x_j), unnormalised *)
Fixpoint calc_prob (d : list (pcand * Q)) (r : list pcand) : Q :=
  match r with
  | [] => 1
  | c :: r' =>
      fold_right (fun c' acc => (lookupP d c / (lookupP d c + lookupP d c')) * acc) 1 r'
      * calc_prob d r'
  end.

(* ---------- slate-Bradley-Terry ballot-type table ----------
   sizes: every bloc with the number of its non-zero candidates in the voter bloc's intervals;
   a ballot type is a sequence of bloc names with those multiplicities *)
Definition bloc := positive.
Fixpoint insert_everywhere (x : bloc) (l : list bloc) : list (list bloc) :=
  match l with
  | [] => [[x]]
  | y :: l' => (x :: l) :: map (cons y) (insert_everywhere x l')
  end.
Definition type_eqb (a b : list bloc) : bool := if list_eq_dec Pos.eq_dec a b then true else false.
Definition dedup_types (l : list (list bloc)) : list (list bloc) :=
  fold_right (fun t acc => if existsb (type_eqb t) acc then acc else t :: acc) [] l.
(* all distinct arrangements of a multiset given as a list *)
Fixpoint arrangements_ms (l : list bloc) : list (list bloc) :=
  match l with
  | [] => [[]]
  | x :: l' => dedup_types (concat (map (insert_everywhere x) (arrangements_ms l')))
  end.

Definition count_bloc (b : bloc) (l : list bloc) : nat := length (filter (Pos.eqb b) l).
(* own-above-other pairs *)
Fixpoint successes (own opp : bloc) (t : list bloc) : nat :=
  match t with
  | [] => O
  | b :: t' => ((if Pos.eqb b own then count_bloc opp t' else O) + successes own opp t')%nat
  end.

Definition slate_bt_pdf (sizes : list (bloc * nat)) (own opp : bloc) (cohesion : Q)
  : list (list bloc * Q) :=
  let to_sample := concat (map (fun bn => repeat (fst bn) (snd bn)) sizes) in
  let total := fold_right Nat.mul 1%nat (map snd sizes) in
  let raw := map (fun t => let s := successes own opp t in
                           (t, Qred (Qpow' cohesion s * Qpow' (1 - cohesion) (total - s))))
                 (arrangements_ms to_sample) in
  let z := Qred (qsum (map snd raw)) in
  map (fun tw => (fst tw, Qred (snd tw / z))) raw.
