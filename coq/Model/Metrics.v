(* Model/Metrics.v — metrics/distances.py (lp_dist, profiles_to_ndarrys), pref_profile.py
   (to_ranking_dict) and graphs/ballot_graph.py (build_graph, _relabel, from_profile,
   fix_short_ballot).  Exact rationals; the implementation's floats are compared within a
   tolerance by the harness.  Executable, code-shaped, no proofs. *)
From VK Require Import Base Core.

Section WithCand.
Variable cand : Type.
Variable ceqb : cand -> cand -> bool.

Notation ranking := (ranking cand).
Notation ballot := (ballot cand).
Notation profile := (profile cand).

(* to_ranking_dict(standardize): ranking -> summed weight (/ total); a ballot without ranking
   is filed under the one-empty-group ranking *)
Definition rk_or_empty (b : ballot) : ranking := match rk b with [] => [[]] | r => r end.
Fixpoint rd_add (acc : list (ranking * Q)) (r : ranking) (w : Q) : list (ranking * Q) :=
  match acc with
  | [] => [(r, w)]
  | (r', w') :: acc' =>
      if ranking_eqb cand ceqb r' r then (r', w' + w) :: acc' else (r', w') :: rd_add acc' r w
  end.
Definition to_ranking_dict (p : profile) (standardize : bool) : res (list (ranking * Q)) :=
  let tot := total_wt cand (ballots p) in
  if standardize && Qeq_bool tot 0 && nonempty (ballots p) then err EZeroDiv
  else ok (fold_left (fun acc b => rd_add acc (rk_or_empty b)
                                          (if standardize then wt b / tot else wt b))
                     (ballots p) []).

Definition rd_lookup (d : list (ranking * Q)) (r : ranking) : Q :=
  match find (fun x => ranking_eqb cand ceqb (fst x) r) d with Some x => snd x | None => 0 end.

(* the union of the keys, in first-appearance order *)
Definition key_union (d1 d2 : list (ranking * Q)) : list ranking :=
  map fst d1 ++ filter (fun r => negb (existsb (fun r' => ranking_eqb cand ceqb r' r) (map fst d1)))
                       (map fst d2).

Definition Qabs' (q : Q) : Q := if Qle_bool 0 q then q else - q.
Fixpoint Qpow (q : Q) (n : nat) : Q := match n with O => 1 | S n' => q * Qpow q n' end.
Definition Qmax' (a b : Q) : Q := if Qle_bool a b then b else a.

(* the vector of absolute differences of the two normalised distributions *)
Definition diff_vector (p1 p2 : profile) : res (list Q) :=
  let! d1 := to_ranking_dict p1 true in
  let! d2 := to_ranking_dict p2 true in
  ok (map (fun r => Qabs' (rd_lookup d1 r - rd_lookup d2 r)) (key_union d1 d2)).

(* lp_dist(pp1, pp2, p)^p for an integer p >= 1 (the p-th root is taken by the harness) *)
Definition lp_sum (p1 p2 : profile) (p : nat) : res Q :=
  let! v := diff_vector p1 p2 in
  match p with
  | O => err EZeroDiv
  | _ => ok (qsum (map (fun x => Qpow x p) v))
  end.
(* lp_dist(pp1, pp2, 'inf') *)
Definition linf (p1 p2 : profile) : res Q :=
  let! v := diff_vector p1 p2 in
  match v with
  | [] => err EValue                       (* max() of an empty sequence *)
  | x :: l => ok (fold_left Qmax' l x)
  end.

End WithCand.

(* ---------- the ballot graph on n candidates: nodes are tuples of numbers 1..n ---------- *)
Local Open Scope nat_scope.
Definition node := list nat.
Definition node_eqb (a b : node) : bool := if list_eq_dec Nat.eq_dec a b then true else false.
Definition gedge := (node * node)%type.

Definition add_node (ns : list node) (x : node) : list node :=
  if existsb (node_eqb x) ns then ns else ns ++ [x].
Definition edge_eqb (e f : gedge) : bool :=
  (node_eqb (fst e) (fst f) && node_eqb (snd e) (snd f)) ||
  (node_eqb (fst e) (snd f) && node_eqb (snd e) (fst f)).
Definition add_edge (es : list gedge) (e : gedge) : list gedge :=
  if existsb (edge_eqb e) es then es else es ++ [e].

(* _relabel(gr, new_label, num_cands): k |-> (new_label, new_label + y  mod  num_cands ...) *)
Definition shift (i n y : nat) : nat := if Nat.ltb n (i + y) then i + y - n else i + y.
Definition relabel_node (i n : nat) (k : node) : node := i :: map (shift i n) k.

Record graph := mkGraph { g_nodes : list node; g_edges : list gedge }.

Fixpoint build_graph (n : nat) : graph :=
  match n with
  | O => mkGraph [] []
  | S O => mkGraph [[1]] []                               (* the int 1, rendered as (1,) *)
  | S (S O) => mkGraph [[1; 2]; [2; 1]] [([1; 2], [2; 1])]
  | S n' =>
      let prev := build_graph n' in
      let per_corner (g : graph) (i : nat) : graph :=
          let corner_nodes := map (relabel_node i n) (g_nodes prev) in
          let corner_edges := map (fun e => (relabel_node i n (fst e), relabel_node i n (snd e)))
                                  (g_edges prev) in
          let ns := fold_left add_node ([i] :: corner_nodes) (g_nodes g) in
          let es := fold_left add_edge corner_edges (g_edges g) in
          let bullet := filter (fun k => Nat.eqb n 3 || Nat.eqb (length k) 2) corner_nodes in
          let es' := fold_left add_edge (map (fun k => (k, [i])) bullet) es in
          mkGraph ns es' in
      let g1 := fold_left per_corner (seq 1 n) (mkGraph [] []) in
      let swaps := concat (map (fun b => match b with
                                         | x :: y :: rest => [(b, y :: x :: rest)]
                                         | _ => []
                                         end) (g_nodes g1)) in
      mkGraph (g_nodes g1) (fold_left add_edge swaps (g_edges g1))
  end.

(* the specification: every ranking of length 1..n except n-1 *)
Fixpoint arrangements (k : nat) (pool : list nat) : list node :=
  match k with
  | O => [[]]
  | S k' => concat (map (fun x => map (cons x) (arrangements k' (filter (fun y => negb (Nat.eqb x y)) pool)))
                        pool)
  end.
Definition spec_nodes (n : nat) : list node :=
  concat (map (fun k => if Nat.eqb k (n - 1) && negb (Nat.eqb n 1) then [] else arrangements k (seq 1 n))
              (seq 1 n)).
(* adjacent transposition at position j *)
Fixpoint swap_at (j : nat) (l : node) : option node :=
  match j, l with
  | O, x :: y :: rest => Some (y :: x :: rest)
  | S j', x :: rest => match swap_at j' rest with Some r => Some (x :: r) | None => None end
  | _, _ => None
  end.
Definition is_swap (a b : node) : bool :=
  existsb (fun j => match swap_at j a with Some c => node_eqb c b | None => false end)
          (seq 0 (length a)).
Definition is_extension (n : nat) (a b : node) : bool :=
  (* b = a plus one more ranked candidate at the end; n-2 -> n by completing with both missing *)
  (Nat.eqb (length b) (S (length a)) && node_eqb (firstn (length a) b) a) ||
  (Nat.eqb (length a) (n - 2) && Nat.eqb (length b) n && Nat.leb 2 n && node_eqb (firstn (length a) b) a).
Definition spec_adjacent (n : nat) (a b : node) : bool :=
  is_swap a b || is_extension n a b || is_extension n b a.

Section Weights.
Variable cand : Type.
Variable ceqb : cand -> cand -> bool.

Fixpoint index_of (c : cand) (l : list cand) (i : nat) : option nat :=
  match l with
  | [] => None
  | x :: l' => if ceqb c x then Some i else index_of c l' (S i)
  end.

(* from_profile: each ballot's weight goes to its node (a ballot of length n-1 is completed) *)
Definition ballot_node (cs : list cand) (fix_short : bool) (b : ballot cand) : res node :=
  match rk b with
  | [] => err EType
  | r =>
      if existsb (fun s => Nat.ltb 1 (length s)) r then err EValue
      else
        let! nums := rmap (fun c => match index_of c cs 1 with Some i => ok i | None => err EKey end)
                          (flat cand r) in
        let n := length cs in
        if Nat.eqb (length nums) (n - 1) && fix_short
        then ok (nums ++ filter (fun i => negb (existsb (Nat.eqb i) nums)) (seq 1 n))
        else ok nums
  end.

Fixpoint nw_add (acc : list (node * Q)) (k : node) (w : Q) : list (node * Q) :=
  match acc with
  | [] => [(k, w)]
  | (k', w') :: acc' => if node_eqb k' k then (k', (w' + w)%Q) :: acc' else (k', w') :: nw_add acc' k w
  end.

(* node weights restricted to nodes of the graph (other ballots are silently skipped) *)
Definition node_weights (p : profile cand) (fix_short : bool) : res (list (node * Q)) :=
  let g := build_graph (length (cands p)) in
  let! ks := rmap (fun b => let! k := ballot_node (cands p) fix_short b in ok (k, wt b)) (ballots p) in
  ok (fold_left (fun acc kw => if existsb (node_eqb (fst kw)) (g_nodes g)
                               then nw_add acc (fst kw) (snd kw) else acc) ks []).
End Weights.
