(* Model/GenValidation.v — the up-front argument checks of ballot_generator.BallotGenerator.__init__
   and pref_interval.combine_preference_intervals.  Blocs and candidates are numbered.
   `round(x, 8) != 1` is modelled as |x - 1| >= 5e-9 (the harness keeps clear of the boundary).
   Executable, code-shaped, no proofs. *)
From VK Require Import Base.

Definition rounds_to_one (q : Q) : bool :=
  Qlt_bool (1 - (5 # 1000000000)) q && Qlt_bool q (1 + (5 # 1000000000)).

Definition pos_subset (a b : list positive) : bool := forallb (fun x => existsb (Pos.eqb x) b) a.
Definition same_keys (a b : list positive) : bool := pos_subset a b && pos_subset b a.

(* BallotGenerator.__init__ when the bloc parameters are given: proportions, the bloc names of the
   three dictionaries, every bloc's cohesion row *)
Definition bloc_checks (props : list (positive * Q)) (interval_keys : list positive)
           (cohesion : list (positive * list (positive * Q))) : res unit :=
  if negb (rounds_to_one (qsum (map snd props))) then err EValue
  else if negb (same_keys (map fst props) interval_keys) then err EValue
  else if negb (same_keys (map fst props) (map fst cohesion)) then err EValue
  else if negb (same_keys interval_keys (map fst cohesion)) then err EValue
  else rfirst_err (fun row => if rounds_to_one (qsum (map snd (snd row))) then ok tt else err EValue)
                  cohesion.

(* combine_preference_intervals(intervals, proportions): disjoint candidate sets, proportions sum *)
Fixpoint has_dup_pos (l : list positive) : bool :=
  match l with [] => false | x :: l' => existsb (Pos.eqb x) l' || has_dup_pos l' end.
Definition combine_checks (interval_cands : list (list positive)) (proportions : list Q) : res unit :=
  if has_dup_pos (concat interval_cands) then err EValue
  else if negb (rounds_to_one (qsum proportions)) then err EValue
  else ok tt.
