(* Model/BallotCtor.v — Ballot construction (ballot.py): weight and score conversion with
   Fraction(x).limit_denominator(), a Gallina port of CPython 3.12's algorithm.  No proofs. *)
From VK Require Import Base Core.

Definition max_den : Z := 1000000.

(* the continued-fraction loop; all quantities are integers; d > 0 throughout *)
Fixpoint ld_loop (fuel : nat) (p0 q0 p1 q1 n d : Z) : Z * Z * Z * Z * Z :=
  match fuel with
  | O => (p0, q0, p1, q1, d)
  | S fuel' =>
      let a := (n / d)%Z in
      let q2 := (q0 + a * q1)%Z in
      if (max_den <? q2)%Z then (p0, q0, p1, q1, d)
      else ld_loop fuel' p1 q1 (p0 + a * p1)%Z q2 d (n - a * d)%Z
  end.

(* Fraction(q).limit_denominator(): q is first put in lowest terms, as Fraction does *)
Definition limit_den (q : Q) : Q :=
  let r := Qred q in
  let n0 := Qnum r in
  let d0 := Zpos (Qden r) in
  if (d0 <=? max_den)%Z then r
  else
    match ld_loop (2 * Pos.size_nat (Qden r) + 4) 0 1 1 0 n0 d0 with
    | (p0, q0, p1, q1, d) =>
        let k := ((max_den - q0) / q1)%Z in
        if (2 * d * (q0 + k * q1) <=? d0)%Z
        then Qmake p1 (Z.to_pos q1)
        else Qmake (p0 + k * p1) (Z.to_pos (q0 + k * q1))
    end.

(* a numeric argument as the caller wrote it *)
Inductive pynum := PInt (z : Z) | PFrac (q : Q) | PFloat (q : Q) (* exact dyadic value *).
Definition pynum_val (x : pynum) : Q :=
  match x with PInt z => inject_Z z | PFrac q => q | PFloat q => q end.

(* convert_weight_to_fraction: Fractions are kept as they are *)
Definition conv_weight (x : pynum) : Q :=
  match x with
  | PFrac q => q
  | _ => limit_den (pynum_val x)
  end.

Section WithCand.
Variable cand : Type.

(* convert_scores_to_fraction (after the repair recorded in known_findings.json: zero is
   tested after the conversion; the original tested before it and could store a zero score) *)
Definition conv_scores (d : list (cand * pynum)) : list (cand * Q) :=
  filter (fun p => negb (Qeq_bool (snd p) 0))
         (map (fun p => (fst p, limit_den (pynum_val (snd p)))) d).

Definition make_ballot (r : ranking cand) (w : pynum) (d : list (cand * pynum))
           (i : option positive) (v : option (list positive)) : ballot cand :=
  mkBallot r (conv_weight w) (conv_scores d) i v.
End WithCand.
