(* Model/Election2.v — models.py: Election.get_step(round_number) =
   (self.get_profile(round_number), self.election_states[round_number]).
   The profile replay runs first (its range check and its draws come first), then the recorded
   state is fetched by Python list indexing (negative indices allowed, IndexError out of range).
   Executable, code-shaped, no proofs. *)
From VK Require Import Base Core STV Pairwise Rules PV Election.

Section WithCand.
Variable cand : Type.
Variable ceqb : cand -> cand -> bool.

Definition get_step (r : rule) (p : profile cand) (sts : list (estate cand)) (i : Z)
  : M cand (profile cand * estate cand) :=
  fun s =>
    match get_profile cand ceqb r p sts i s with
    | inr e => inr e
    | inl (np, s') =>
        match norm_index (length sts) i with
        | inr e => inr e
        | inl k =>
            match nth_error sts k with
            | Some st => inl ((np, st), s')
            | None => inr EIndex
            end
        end
    end.

End WithCand.
