(* Model/Generators.v — ballot_generator.py: the per-ballot kernels and the per-bloc assembly of
   name/short-name Plackett-Luce, name-Cumulative, the table samplers (BallotSimplex from a point,
   exact name-Bradley-Terry), slate-Plackett-Luce (sample_cohesion_ballot_types), exact
   slate-Bradley-Terry, AlternatingCrossover, the spatial models, and the common tail
   (condense per bloc, add up, ballot_pool_to_profile).

   Every kernel is factored into ARGS (exactly what the code hands to the numpy/random primitive:
   population, p, size, replace) and CORE (a pure function of the primitive's result).  The functions
   below take the recorded results as arguments, check them against the args (a result that the
   primitive could not have returned is EScript) and return the generated ballots together with the
   list of primitive calls they correspond to, which the harness compares with the recorded calls.
   Candidates and blocs are numbered.  Executable, code-shaped, no proofs. *)
From VK Require Import Base Core GenValidation PrefInterval.

Notation gballot := (ballot pcand).
Notation gprofile := (profile pcand).

Inductive gcall :=
| GPL (pop : list (pcand * Q)) (k : nat)             (* np.random.choice(cands, k, p=p, replace=False) *)
| GUniSub (pop : list pcand) (k : nat)               (* np.random.choice(cands, k, replace=False) *)
| GIID (pop : list (pcand * Q)) (k : nat)            (* np.random.choice(cands, k, p=p, replace=True) *)
| GTable (tbl : list (list pcand * Q)) (n : nat)     (* np.random.choice(len(table), size=n, p=probs) *)
| GTypeTable (tbl : list (list bloc * Q)) (n : nat)
| GUniforms (n : nat)                                (* np.random.uniform(size=n) *)
| GShuffle (pop : list bloc).                        (* random.shuffle *)

Definition peqb := Pos.eqb.
Definition pmem (c : pcand) (l : list pcand) : bool := existsb (Pos.eqb c) l.
Fixpoint pnodup (l : list pcand) : bool :=
  match l with [] => true | x :: l' => negb (pmem x l') && pnodup l' end.
Definition psubset (a b : list pcand) : bool := forallb (fun x => pmem x b) a.

(* a possible result of sampling k items without replacement from pop *)
Definition valid_sample (pop : list pcand) (k : nat) (r : list pcand) : bool :=
  Nat.eqb (length r) k && pnodup r && psubset r pop.
(* with positive-probability support only (numpy never returns a p = 0 item before the others are
   exhausted; intervals hold only positive values) *)
Definition valid_iid (pop : list pcand) (k : nat) (r : list pcand) : bool :=
  Nat.eqb (length r) k && psubset r pop.

Definition rank_of (order : list pcand) (tail : list pcand) : ranking pcand :=
  singletons pcand order ++ match tail with [] => [] | _ => [tail] end.
Definition unit_ballot (r : ranking pcand) : gballot := plain_ballot pcand r 1.

(* ---------- short_name_PlackettLuce / name_PlackettLuce : one bloc ---------- *)
Definition pl_counts (iv : pinterval) (ballot_length : nat) : nat * nat :=
  let nz := length (pi_int iv) in
  if Nat.ltb nz ballot_length then (nz, (ballot_length - nz)%nat) else (ballot_length, O).

Definition pl_ballot (iv : pinterval) (ballot_length : nat) (d : list pcand * list pcand)
  : res (gballot * list gcall) :=
  let '(k, tied) := pl_counts iv ballot_length in
  if negb (valid_sample (map fst (pi_int iv)) k (fst d)) then err EScript
  else
    match tied with
    | O => ok (unit_ballot (rank_of (fst d) []), [GPL (pi_int iv) k])
    | _ =>
        if Nat.ltb (length (pi_zero iv)) tied then err EValue     (* larger sample than population *)
        else if negb (valid_sample (pi_zero iv) tied (snd d)) then err EScript
        else ok (unit_ballot (rank_of (fst d) (snd d)), [GPL (pi_int iv) k; GUniSub (pi_zero iv) tied])
    end.

Definition collect {A} (l : list (res (A * list gcall))) : res (list A * list gcall) :=
  let! xs := rmap (fun x => x) l in ok (map fst xs, concat (map snd xs)).

Definition pl_bloc (iv : pinterval) (ballot_length : nat) (draws : list (list pcand * list pcand))
  : res (list gballot * list gcall) := collect (map (pl_ballot iv ballot_length) draws).

(* ---------- name_Cumulative : one bloc ---------- *)
Fixpoint count_scores (l : list pcand) (acc : list (pcand * Q)) : list (pcand * Q) :=
  match l with
  | [] => acc
  | c :: l' =>
      count_scores l' (if pmem c (map fst acc)
                       then map (fun p => if Pos.eqb c (fst p) then (fst p, snd p + 1) else p) acc
                       else acc ++ [(c, 1)])
  end.
Definition cumulative_ballot (iv : pinterval) (num_votes : nat) (d : list pcand)
  : res (gballot * list gcall) :=
  if negb (valid_iid (map fst (pi_int iv)) num_votes d) then err EScript
  else ok (mkBallot [] 1 (count_scores d []) None None, [GIID (pi_int iv) num_votes]).
Definition cumulative_bloc (iv : pinterval) (num_votes : nat) (draws : list (list pcand))
  : res (list gballot * list gcall) := collect (map (cumulative_ballot iv num_votes) draws).

(* ---------- table samplers: BallotSimplex.from_point, exact name-Bradley-Terry ---------- *)
Definition list_peqb (a b : list pcand) : bool := if list_eq_dec Pos.eq_dec a b then true else false.
Definition table_bloc (tbl : list (list pcand * Q)) (zero : list pcand) (n : nat) (draws : list (list pcand))
  : res (list gballot * list gcall) :=
  if negb (Nat.eqb (length draws) n) then err EScript
  else if negb (forallb (fun r => existsb (fun e => list_peqb (fst e) r && Qlt_bool 0 (snd e)) tbl) draws)
  then err EScript
  else ok (map (fun r => unit_ballot (rank_of r zero)) draws, [GTable tbl n]).

(* BallotSimplex from a point: probability of a ranking proportional to the product of its
   candidates' point values (every full ranking has the same product; kept as coded) *)
Definition point_table (cands : list pcand) (point : list (pcand * Q)) : list (list pcand * Q) :=
  let raw := map (fun r => (r, fold_left (fun acc c => acc * lookupP point c) r 1)) (perms pcand cands) in
  let s := qsum (map snd raw) in
  map (fun rw => (fst rw, Qred (snd rw / s))) raw.

(* ---------- sample_cohesion_ballot_types (slate-Plackett-Luce) ---------- *)
Fixpoint which_bin (bins : list Q) (flip : Q) (i : nat) : option nat :=
  match bins with
  | lo :: ((hi :: _) as rest) =>
      if Qlt_bool lo flip && Qle_bool flip hi then Some i else which_bin rest flip (S i)
  | _ => None
  end.
Fixpoint prefix_sums (l : list Q) (acc : Q) : list Q :=
  match l with [] => [] | x :: l' => (acc + x) :: prefix_sums l' (acc + x) end.
Definition bins_of (values : list Q) : list Q := 0 :: prefix_sums values 0.
Fixpoint remove_nth {A} (n : nat) (l : list A) : list A :=
  match n, l with
  | O, _ :: l' => l'
  | S n', x :: l' => x :: remove_nth n' l'
  | _, [] => []
  end.

(* one ballot type from its coin flips; [slate_size b] = number of non-zero candidates of slate b.
   Returns the type and whether a shuffle of the remaining blocs was needed (then its result is
   taken from [shuffled]). *)
Fixpoint type_loop (flips : list Q) (blocs : list bloc) (values : list Q) (sizes : list (bloc * nat))
         (acc : list bloc) (shuffled : option (list bloc)) : res (list bloc * list gcall) :=
  match flips with
  | [] => ok (rev acc, [])
  | flip :: rest =>
      match which_bin (bins_of values) flip 0 with
      | None => err EType                    (* blocs[None]: TypeError *)
      | Some i =>
          match nth_error blocs i with
          | None => err EIndex
          | Some b =>
              let acc' := b :: acc in
              let size := match find (fun x => Pos.eqb b (fst x)) sizes with Some x => snd x | None => O end in
              if Nat.eqb (count_bloc b acc') size
              then
                let blocs' := remove_nth i blocs in
                let values' := remove_nth i values in
                let tot := qsum values' in
                if Qeq_bool tot 0 && nonempty values'
                then
                  let remaining := concat (map (fun b' => repeat b' (match find (fun x => Pos.eqb b' (fst x)) sizes
                                                                      with Some x => snd x | None => O end)) blocs') in
                  match shuffled with
                  | Some sh => ok (rev acc' ++ sh, [GShuffle remaining])
                  | None => err EScript
                  end
                else type_loop rest blocs' (map (fun v => v / tot) values') sizes acc' shuffled
              else type_loop rest blocs values sizes acc' shuffled
          end
      end
  end.

(* ---------- slate ballots: fill a ballot type with per-slate Plackett-Luce orders ---------- *)
Fixpoint fill_type (t : list bloc) (orders : list (bloc * list pcand)) : res (list pcand) :=
  match t with
  | [] => ok []
  | b :: t' =>
      match find (fun x => Pos.eqb b (fst x)) orders with
      | None => err EKey
      | Some (_, []) => err EIndex
      | Some (_, c :: more) =>
          let orders' := map (fun x => if Pos.eqb b (fst x) then (fst x, more) else x) orders in
          let! rest := fill_type t' orders' in ok (c :: rest)
      end
  end.

(* intervals: the voter bloc's interval for every slate (in blocs order) *)
Definition slate_ballot (intervals : list (bloc * pinterval)) (zero : list pcand) (t : list bloc)
           (orders : list (bloc * list pcand)) : res (gballot * list gcall) :=
  let nonempty_iv := filter (fun x => nonempty (pi_int (snd x))) intervals in
  if negb (forallb (fun x => match find (fun o => Pos.eqb (fst x) (fst o)) orders with
                             | Some o => valid_sample (map fst (pi_int (snd x))) (length (pi_int (snd x))) (snd o)
                             | None => false end) nonempty_iv) then err EScript
  else
    let! r := fill_type t orders in
    ok (unit_ballot (rank_of r zero),
        map (fun x => GPL (pi_int (snd x)) (length (pi_int (snd x)))) nonempty_iv).

(* ---------- AlternatingCrossover : one ballot ----------
   the populations handed to the two Plackett-Luce draws are the PREVIOUS draws' results (the loop
   overwrites bloc_cands / opposing_cands), the p vectors stay in the original order *)
Fixpoint interleave (a b : list pcand) : list pcand :=
  match a, b with
  | x :: a', y :: b' => x :: y :: interleave a' b'
  | _, _ => []
  end.
Definition ac_ballot (cross : bool) (bloc_order opp_order : list pcand) : gballot :=
  unit_ballot (singletons pcand (if cross then interleave opp_order bloc_order else bloc_order ++ opp_order)).
(* populations and probabilities as the code passes them for ballot i, given the previous orders *)
Definition ac_calls (prev_bloc prev_opp : list pcand) (p_bloc p_opp : list Q) : list gcall :=
  [GPL (combine prev_bloc p_bloc) (length prev_bloc); GPL (combine prev_opp p_opp) (length prev_opp)].
Fixpoint ac_bloc (n_cross : nat) (i : nat) (prev_bloc prev_opp : list pcand) (p_bloc p_opp : list Q)
         (draws : list (list pcand * list pcand)) : res (list gballot * list gcall) :=
  match draws with
  | [] => ok ([], [])
  | (bo, oo) :: rest =>
      if negb (valid_sample prev_bloc (length prev_bloc) bo && valid_sample prev_opp (length prev_opp) oo)
      then err EScript
      else
        let! (bs, cs) := ac_bloc n_cross (S i) bo oo p_bloc p_opp rest in
        ok (ac_ballot (Nat.ltb i n_cross) bo oo :: bs, ac_calls prev_bloc prev_opp p_bloc p_opp ++ cs)
  end.

(* ---------- spatial models: rank by increasing distance (stable, in candidate order) ---------- *)
Fixpoint insert_by (x : pcand * Q) (l : list (pcand * Q)) : list (pcand * Q) :=
  match l with
  | [] => [x]
  | y :: l' => if Qle_bool (snd x) (snd y) then x :: l else y :: insert_by x l'
  end.
(* stable, like Python's sorted: equal keys keep candidate order (elements are inserted from the
   right, and an element goes in front of the equal keys already placed) *)
Definition sort_by_distance (cands : list pcand) (dists : list Q) : list pcand :=
  map fst (fold_right insert_by [] (combine cands dists)).

(* ---------- common tails ---------- *)
(* ballot_pool_to_profile(pool, candidates): count equal rankings in first-occurrence order *)
Fixpoint pool_add (acc : list (list pcand * nat)) (r : list pcand) : list (list pcand * nat) :=
  match acc with
  | [] => [(r, 1%nat)]
  | (r', n) :: acc' => if list_peqb r' r then (r', S n) :: acc' else (r', n) :: pool_add acc' r
  end.
Definition pool_to_profile (pool : list (list pcand)) (cands : list pcand) : res gprofile :=
  let counted := fold_left pool_add pool [] in
  mk_profile pcand Pos.eqb
    (map (fun rn => plain_ballot pcand (singletons pcand (fst rn)) (Qnat (snd rn))) counted) cands.

(* per bloc: PreferenceProfile(ballots=pool).condense_ballots(); aggregate: pp = PreferenceProfile();
   for profile in by_bloc: pp += profile *)
Definition bloc_profile (pool : list gballot) : res gprofile :=
  let! p := mk_profile pcand Pos.eqb pool [] in ok (condense pcand Pos.eqb p).
Definition finish_blocs (pools : list (bloc * list gballot)) : res (list (bloc * gprofile) * gprofile) :=
  let! by_bloc := rmap (fun bp => let! p := bloc_profile (snd bp) in ok (fst bp, p)) pools in
  let! start := mk_profile pcand Pos.eqb [] [] in
  let! agg := fold_left (fun acc bp => let! a := acc in profile_add pcand Pos.eqb a (snd bp)) by_bloc (ok start) in
  ok (by_bloc, agg).

(* ---------- MCMC samplers (name_BradleyTerry._BT_mcmc, slate_BradleyTerry._sample_ballot_types_MCMC) *)
Fixpoint swap_adj {A} (j : nat) (l : list A) : list A :=
  match j, l with
  | O, x :: y :: rest => y :: x :: rest
  | S j', x :: rest => x :: swap_adj j' rest
  | _, _ => l
  end.
Definition Qmin1 (q : Q) : Q := if Qle_bool 1 q then 1 else q.

(* name-BT chain: propose the adjacent transposition at j, accept with min(1, x_{j+1} / x_j) *)
Definition bt_accept (iv : list (pcand * Q)) (cur : list pcand) (j : nat) : Q :=
  match nth_error cur j, nth_error cur (S j) with
  | Some a, Some b => Qmin1 (lookupP iv b / lookupP iv a)
  | _, _ => 0
  end.
Definition bt_mcmc_step (iv : list (pcand * Q)) (cur : list pcand) (ju : nat * Q) : list pcand :=
  if Qlt_bool (snd ju) (bt_accept iv cur (fst ju)) then swap_adj (fst ju) cur else cur.
(* the chain's states after each step (the ballots emitted), from the seed ranking *)
Fixpoint bt_mcmc_run (iv : list (pcand * Q)) (cur : list pcand) (steps : list (nat * Q)) : list (list pcand) :=
  match steps with
  | [] => []
  | s :: rest => let nxt := bt_mcmc_step iv cur s in nxt :: bt_mcmc_run iv nxt rest
  end.
Definition bt_mcmc_bloc (iv : pinterval) (seed : list pcand) (steps : list (nat * Q)) : res (list gballot) :=
  if negb (valid_sample (map fst (pi_int iv)) (length (pi_int iv)) seed) then err EScript
  else if negb (forallb (fun s => Nat.ltb (S (fst s)) (length seed)) steps) then err EScript
  else ok (map (fun r => unit_ballot (rank_of r (pi_zero iv))) (bt_mcmc_run (pi_int iv) seed steps)).

(* slate-BT chain on ballot types: a swap that moves the voter's own bloc DOWN is accepted with
   odds = (1 - c)/c, every other proposal with probability 1 (as coded) *)
Definition slate_accept (own : bloc) (cohesion : Q) (cur : list bloc) (j : nat) : Q :=
  match nth_error cur j, nth_error cur (S j) with
  | Some a, Some b => if negb (Pos.eqb a b) && Pos.eqb a own then (1 - cohesion) / cohesion else 1
  | _, _ => 1
  end.
Definition slate_mcmc_step (own : bloc) (cohesion : Q) (cur : list bloc) (ju : nat * Q) : list bloc :=
  if Qlt_bool (snd ju) (slate_accept own cohesion cur (fst ju)) then swap_adj (fst ju) cur else cur.
Fixpoint slate_mcmc_run (own : bloc) (cohesion : Q) (cur : list bloc) (steps : list (nat * Q)) : list (list bloc) :=
  match steps with
  | [] => []
  | s :: rest => let nxt := slate_mcmc_step own cohesion cur s in nxt :: slate_mcmc_run own cohesion nxt rest
  end.
