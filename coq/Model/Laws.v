(* Model/Laws.v — the distribution reading of the random kernels (DESIGN.md §5.3): finite rational
   distributions and the laws of RandomDictator / BoostedRandomDictator steps and of the random
   tiebreak, built from the SAME arguments the script reading hands to the primitives
   (draw_ballot's CChoices population, squares, the tied set).  The laws of the primitives
   themselves (random.choices = categorical by weights, random.sample(S, |S|) = uniform permutation,
   random.uniform = U[0,1), numpy choice(p) = categorical) are the trusted assumptions.
   Executable, no proofs. *)
From VK Require Import Base Core STV Rules.

(* ---------- finite distributions over a type, as weighted lists (not normalised, not merged) *)
Definition dist (A : Type) := list (A * Q).
Definition dret {A} (a : A) : dist A := [(a, 1)].
Definition dbind {A B} (d : dist A) (f : A -> dist B) : dist B :=
  concat (map (fun aw => map (fun bw => (fst bw, snd aw * snd bw)) (f (fst aw))) d).
Definition mass {A} (d : dist A) : Q := qsum (map snd d).
Definition prob {A} (ev : A -> bool) (d : dist A) : Q :=
  qsum (map snd (filter (fun aw => ev (fst aw)) d)).
Definition dscale {A} (k : Q) (d : dist A) : dist A := map (fun aw => (fst aw, k * snd aw)) d.
Definition dmix {A} (lam : Q) (d1 d2 : dist A) : dist A := dscale lam d1 ++ dscale (1 - lam) d2.

(* the primitives' laws *)
Definition categorical {A} (pop : list (A * Q)) : dist A :=
  let tot := qsum (map snd pop) in map (fun aw => (fst aw, snd aw / tot)) pop.
Definition uniform_of {A} (l : list A) : dist A :=
  map (fun a => (a, 1 / Qnat (length l))) l.

Section WithCand.
Variable cand : Type.
Variable ceqb : cand -> cand -> bool.

Notation cset := (cset cand).
Notation ranking := (ranking cand).
Notation profile := (profile cand).
Notation scores := (scores cand).

(* random.sample(list(S), len(S)): a uniformly random permutation *)
Definition uperm (s : cset) : dist (list cand) := uniform_of (perms cand s).

(* tiebreak_set(S, tiebreak="random"): the resolution order *)
Definition law_random_tiebreak (s : cset) : dist (list cand) := uperm s.

(* random.choices(ballots, weights=[b.weight ...]): the chosen ballot's ranking.  The population
   is literally the argument of the CChoices call that draw_ballot logs. *)
Definition choices_pop (p : profile) : list (ranking * Q) := map (fun b => (rk b, wt b)) (ballots p).
Definition law_draw_ballot (p : profile) : dist ranking := categorical (choices_pop p).

(* the winner given the drawn ballot: its first position, a tie broken by a uniform permutation *)
Definition law_pick (r : ranking) : dist cand :=
  match r with
  | [] => []
  | s :: _ =>
      match s with
      | [] => []
      | [c] => dret c
      | _ => dbind (uperm s) (fun l => match l with c :: _ => dret c | [] => [] end)
      end
  end.

(* one RandomDictator step: who is elected *)
Definition law_rd_winner (p : profile) : dist cand := dbind (law_draw_ballot p) law_pick.

(* the closed form the property states: share of first-place weight, ties split evenly *)
Definition first_share (c : cand) (r : ranking) : Q :=
  match r with
  | s :: _ => if memb cand ceqb c s then 1 / Qnat (length s) else 0
  | [] => 0
  end.
Definition rd_closed_form (p : profile) (c : cand) : Q :=
  qsum (map (fun b => wt b * first_share c (rk b)) (ballots p)) / total_wt cand (ballots p).

(* BoostedRandomDictator: with probability 1/(c-1) the proportional-to-squares rule on the previous
   round's tallies, otherwise RandomDictator; a single remaining candidate is elected outright.
   [squares] is literally the population of the CNpChoice call that brd_step logs. *)
Definition law_brd_winner (p : profile) (prev_scores : scores) : dist cand :=
  match cands p with
  | [c] => dret c
  | cs =>
      let lam := 1 / (Qnat (length cs) - 1) in
      dmix lam (categorical (squares cand prev_scores (total_wt cand (ballots p)))) (law_rd_winner p)
  end.
Definition squares_closed_form (d : scores) (c : cand) : Q :=
  (lookup0 cand ceqb c d * lookup0 cand ceqb c d) / qsum (map (fun q => snd q * snd q) d).

(* multi-seat RandomDictator: the law of the sequence of winners (fuel = seats) *)
Fixpoint law_rd_sequence (seats : nat) (p : profile) : dist (list cand) :=
  match seats with
  | O => dret []
  | S k =>
      dbind (law_rd_winner p) (fun w =>
        match remove_cand_prof cand ceqb [w] true false p with
        | inl np => dbind (law_rd_sequence k np) (fun l => dret (w :: l))
        | inr _ => []
        end)
  end.

End WithCand.
