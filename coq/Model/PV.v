(* Model/PV.v — elections/election_types/ranking/plurality_veto.py, as coded (after the
   store_states indentation repair).  The object's mutable fields (random_order, ballot_list,
   eliminated_dict) are threaded explicitly.  Executable, code-shaped, no proofs. *)
From VK Require Import Base Core STV Rules.

Section WithCand.
Variable cand : Type.
Variable ceqb : cand -> cand -> bool.

Notation cset := (cset cand).
Notation ranking := (ranking cand).
Notation ballot := (ballot cand).
Notation profile := (profile cand).
Notation scores := (scores cand).
Notation estate := (estate cand).
Notation M := (M cand).

Record pv_obj := mkPV {
  pv_order : list nat;            (* self.random_order *)
  pv_ballots : list ballot;       (* self.ballot_list *)
  pv_elim : cset                  (* candidates whose eliminated_dict entry is True *)
}.

Definition pv_validate (p : profile) : res unit :=
  rfirst_err (fun b => match rk b with
                       | [] => err EType
                       | _ => if is_integral (wt b) then ok tt else err EType
                       end) (ballots p).

Definition has_tie (b : ballot) : bool := existsb (fun s => Nat.ltb 1 (length s)) (rk b).

Definition decondense (bs : list ballot) : list ballot :=
  concat (map (fun b => repeat (plain_ballot cand (rk b) 1) (Z.to_nat (Qtrunc (wt b)))) bs).

Definition is_perm_nat (l : list nat) (n : nat) : bool :=
  Nat.eqb (length l) n && forallb (fun i => existsb (Nat.eqb i) l) (seq 0 n).

(* score_dict_to_ranking(fpv(PreferenceProfile(ballots = the ballots that still have a ranking))) *)
Definition pv_scores (bs : list ballot) : res scores :=
  let! sp := mk_profile cand ceqb (filter (has_ranking cand) bs) [] in
  first_place_votes cand ceqb sp.

Definition dec (c : cand) (d : scores) : res scores :=
  match lookup cand ceqb c d with
  | None => err EKey
  | Some _ => ok (map (fun q => if ceqb c (fst q) then (fst q, snd q - 1) else q) d)
  end.

(* the veto loop over random_order; returns (index reached, eliminated candidate if any, tiebreaks) *)
Fixpoint veto_loop (order : list nat) (idx : nat) (bs : list ballot) (p : profile)
         (tb : option tb_kind) (d : scores) (tbs : list (cset * ranking))
  : M (nat * option cand * list (cset * ranking)) :=
  match order with
  | [] => mret (idx, None, tbs)
  | bi :: rest =>
      match nth_error bs bi with
      | None => mfail EIndex
      | Some b =>
          match rev (rk b) with
          | [] => veto_loop rest (S idx) bs p tb d tbs       (* preference_index < 0 *)
          | lastg :: _ =>
              do! (t, tbs') :=
                (match lastg with
                 | _ :: _ :: _ =>
                     match tb with
                     | Some k => do! t := tiebreak_set cand ceqb lastg (Some p) k in
                                 mret (t, [(lastg, t)])
                     | None => mfail EUnbound
                     end
                 | _ => mret ([lastg], tbs)
                 end) in
              match rev t with
              | (c :: _) :: _ =>
                  do! d' := mlift (dec c d) in
                  if Qle_bool (lookup0 cand ceqb c d') 0
                  then mret (idx, Some c, tbs')
                  else veto_loop rest (S idx) bs p tb d' tbs'
              | _ => mfail EIndex
              end
          end
      end
  end.

Definition rotate (l : list nat) (k : nat) : list nat := skipn (S k) l ++ firstn (S k) l.

Definition pv_step (m : Z) (tb : option tb_kind) (n_cands : nat) (o : pv_obj) (p : profile)
           (prev : estate) : M (pv_obj * profile * estate) :=
  let remaining_count := (Z.of_nat n_cands - Z.of_nat (length (pv_elim o)))%Z in
  if Z.eqb remaining_count m
  then mret (o, empty_profile cand,
             mkState (rnd prev + 1) (no_group cand) (remaining prev) (no_group cand) [] [])
  else
    let zero := if Z.eqb (rnd prev) 0
                then map fst (filter (fun q => Qle_bool (snd q) 0) (escores prev)) else [] in
    match pv_order o with
    | [] => mfail EUnbound                                  (* rand_index never bound *)
    | _ =>
        do! (idx, hit, tbs) := veto_loop (pv_order o) 0 (pv_ballots o) p tb (escores prev) [] in
        let idx' := match hit with Some _ => idx | None => (length (pv_order o) - 1)%nat end in
        let elim := zero ++ match hit with Some c => [c] | None => [] end in
        do! np := mlift (remove_cand_prof cand ceqb elim false true p) in
        do! d := mlift (pv_scores (ballots np)) in
        let o' := mkPV (rotate (pv_order o) idx') (ballots np)
                       (pv_elim o ++ set_diff cand ceqb (dedup cand ceqb elim) (pv_elim o)) in
        mret (o', np, mkState (rnd prev + 1) (score_to_ranking cand d true) (no_group cand)
                              [dedup cand ceqb elim] tbs d)
    end.

Fixpoint pv_loop (fuel : nat) (m : Z) (tb : option tb_kind) (n_cands : nat) (o : pv_obj)
         (p : profile) (sts : list estate) : M (list estate) :=
  if (m <=? count_elected cand sts)%Z then mret (rev sts)
  else
    match fuel with
    | O => mfail EFuel
    | S fuel' =>
        match sts with
        | [] => mfail EOther
        | prev :: _ =>
            do! (o', np, st) := pv_step m tb n_cands o p prev in
            pv_loop fuel' m tb n_cands o' np (st :: sts)
        end
    end.

Definition run_pv (m : Z) (tb : option tb_kind) (p : profile) : M (list estate) :=
  do! _ := mlift (pv_validate p) in
  if (m <=? 0)%Z then mfail EValue
  else if (Z.of_nat (length (cands p)) <? m)%Z then mfail EValue
  else
    do! _ := (match tb with
              | None => if existsb has_tie (ballots p) then mfail EAttr else mret tt
              | Some _ => mret tt
              end) in
    let bs := decondense (ballots p) in
    do! dp := mlift (mk_profile cand ceqb bs (cands p)) in
    do! d0 := next_draw cand (CShuffle (length bs)) in
    match d0 with
    | DIdxs order =>
        if negb (is_perm_nat order (length bs)) then mfail EScript
        else
          do! _ := mlift (ranking_validate cand dp) in
          do! s0 := mlift (round0 cand ceqb SKFpv dp) in
          (* each productive round eliminates a candidate; fuel beyond that means the real
             loop spins forever *)
          pv_loop (2 * length (cands dp) + 4) m tb (length (cands dp))
                  (mkPV order bs []) dp [s0]
    | _ => mfail EScript
    end.

End WithCand.
