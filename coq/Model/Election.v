(* Model/Election.v — the wrapper classes (IRV, SequentialRCV, SNTV, Rating, Approval,
   Cumulative), PluralityVeto, and Election.get_profile / get_step replays for every rule.
   Executable, code-shaped, no proofs. *)
From VK Require Import Base Core STV Pairwise Rules PV.

Section WithCand.
Variable cand : Type.
Variable ceqb : cand -> cand -> bool.

Notation cset := (cset cand).
Notation ranking := (ranking cand).
Notation ballot := (ballot cand).
Notation profile := (profile cand).
Notation estate := (estate cand).
Notation M := (M cand).

(* every public election class *)
Inductive wrule :=
| WBase (r : rule)
| WIRV (q : quota_kind) (tb : option tb_kind)
| WSeqRCV (m : Z) (q : quota_kind) (simul : bool) (tb : option tb_kind)
| WSNTV (m : Z) (tb : option tb_kind)
| WRating (m : Z) (L : Q) (tb : option tb_kind)
| WApproval (m : Z) (tb : option tb_kind)
| WCumulative (m : Z) (tb : option tb_kind)
| WPV (m : Z) (tb : option tb_kind).

(* hand-written reading of what each wrapper forwards to its parent (tied to the source by the
   theorems over Generated/Wiring.v) *)
Definition expand (w : wrule) : option rule :=
  match w with
  | WBase r => Some r
  | WIRV q tb => Some (RSTV (mkStv 1 q true TFractional tb))
  | WSeqRCV m q simul tb => Some (RSTV (mkStv m q simul TFullWeight tb))
  | WSNTV m tb => Some (RPlurality m tb)
  | WRating m L tb => Some (RRating m L None tb)
  | WApproval m tb => Some (RRating m 1 None tb)
  | WCumulative m tb => Some (RLimited m (inject_Z m) tb)
  | WPV _ _ => None
  end.

Definition run_wrule (w : wrule) (p : profile) : M (list estate) :=
  match w with
  | WPV m tb => run_pv cand ceqb m tb p
  | _ => match expand w with
         | Some r => run_rule cand ceqb r p
         | None => mfail EOther
         end
  end.

(* ---------- get_profile(r): replay the first r steps with store_states = False ---------- *)
Definition one_shot_kind (r : rule) (p : profile) : option (score_kind * Z * option tb_kind) :=
  match r with
  | RPlurality m tb => Some (SKFpv, m, tb)
  | RBorda m v tb =>
      Some (SKVector (match v with Some (x :: l) => x :: l | _ => default_borda cand p end), m, tb)
  | RRating m _ _ tb => Some (SKBallotScores, m, tb)
  | RLimited m _ tb => Some (SKBallotScores, m, tb)
  | RBloc m _ tb => Some (SKBallotScores, m, tb)
  | _ => None
  end.

(* one _run_step of rule r (not STV / Alaska round >= 2) applied to (p, prev) *)
Definition replay_step (r : rule) (p0 p : profile) (prev : estate) : M profile :=
  match one_shot_kind r p0 with
  | Some (k, m, tb) =>
      do! (el, _, _) := elect_top_m cand ceqb (remaining prev) m (Some p) tb in
      mlift (remove_cand_prof cand ceqb (flat cand el) true false p)
  | None =>
      match r with
      | RDominating =>
          do! t := mlift (dominating_tiers cand ceqb p) in
          match t with
          | [] => mfail EIndex
          | top :: _ => mlift (remove_cand_prof cand ceqb top true false p)
          end
      | RCondoBorda m =>
          do! t := mlift (dominating_tiers cand ceqb p) in
          do! (el, _, _) := elect_top_m cand ceqb t m (Some p) (Some TBBorda) in
          mlift (remove_cand_prof cand ceqb (flat cand el) true false p)
      | RTopTwo tb =>
          if Z.eqb (rnd prev) 0
          then do! (np, _) := plurality_stage cand ceqb 2 tb p prev in mret np
          else
            do! sts := run_plurality cand ceqb 1 tb p in
            match sts with
            | q0 :: _ => do! (np, _) := one_shot_step cand ceqb SKFpv 1 tb p q0 in mret np
            | [] => mfail EOther
            end
      | RAlaska m1 _ cfg =>
          do! (np, _) := plurality_stage cand ceqb m1 (s_tiebreak cfg) p prev in mret np
      | RRandomDictator _ => do! (np, _) := rd_step cand ceqb p prev in mret np
      | RBoosted _ => do! (np, _) := brd_step cand ceqb p prev in mret np
      | _ => mfail EOther
      end
  end.

Fixpoint replay_steps (r : rule) (p0 p : profile) (sts : list estate) : M profile :=
  match sts with
  | [] => mret p
  | prev :: rest => do! np := replay_step r p0 p prev in replay_steps r p0 np rest
  end.

Definition get_profile (r : rule) (p : profile) (sts : list estate) (i : Z) : M profile :=
  do! k := mlift (norm_index (length sts) i) in
  match r with
  | RSTV cfg =>
      do! t := mlift (stv_init cand cfg p) in
      stv_replay cand ceqb cfg t p [] p (firstn k sts)
  | RAlaska m1 m2 cfg =>
      match k with
      | O | S O => replay_steps r p p (firstn k sts)
      | _ =>
          do! p1 := replay_steps r p p (firstn 1 sts) in
          let c2 := with_m cfg m2 in
          do! t := mlift (stv_init cand c2 p1) in
          do! ssts := run_stv cand ceqb c2 p1 in
          (* stv.get_profile(k - 1) with its own range check *)
          do! j := mlift (norm_index (length ssts) (Z.of_nat k - 1)) in
          stv_replay cand ceqb c2 t p1 [] p1 (firstn j ssts)
      end
  | _ => replay_steps r p p (firstn k sts)
  end.

End WithCand.
