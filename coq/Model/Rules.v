(* Model/Rules.v — the remaining election classes (Plurality, SNTV, Borda, GeneralRating family,
   DominatingSets, CondoBorda, TopTwo, Alaska, RandomDictator, BoostedRandomDictator), the generic
   Election object queries of models.py and the get_profile replay.  Executable, code-shaped,
   no proofs. *)
From VK Require Import Base Core STV Pairwise.

Section WithCand.
Variable cand : Type.
Variable ceqb : cand -> cand -> bool.

Notation cset := (cset cand).
Notation ranking := (ranking cand).
Notation ballot := (ballot cand).
Notation profile := (profile cand).
Notation scores := (scores cand).
Notation estate := (estate cand).
Notation M := (M cand).

(* ---------- rule configurations ---------- *)
Inductive score_kind := SKFpv | SKBorda | SKVector (v : list Q) | SKBallotScores.

Definition score_fn (k : score_kind) (p : profile) : res scores :=
  match k with
  | SKFpv => first_place_votes cand ceqb p
  | SKBorda => borda_scores cand ceqb p
  | SKVector v => score_rankings cand ceqb p v
  | SKBallotScores => score_from_scores cand ceqb p
  end.

Inductive rule :=
| RSTV (cfg : stv_cfg)
| RPlurality (m : Z) (tb : option tb_kind)
| RBorda (m : Z) (v : option (list Q)) (tb : option tb_kind)
| RRating (m : Z) (L : Q) (k : option Q) (tb : option tb_kind)   (* GeneralRating *)
| RLimited (m : Z) (k : Q) (tb : option tb_kind)
| RBloc (m : Z) (k : option Z) (tb : option tb_kind)
| RDominating
| RCondoBorda (m : Z)
| RTopTwo (tb : option tb_kind)
| RAlaska (m1 m2 : Z) (cfg : stv_cfg)            (* cfg carries quota/simul/transfer/tiebreak; s_m unused *)
| RRandomDictator (m : Z)
| RBoosted (m : Z).

(* ---------- one-shot rules: elect the top m of the round-0 ranking ---------- *)
Definition one_shot_step (k : score_kind) (m : Z) (tb : option tb_kind) (p : profile) (prev : estate)
  : M (profile * estate) :=
  do! (el, rem, t) := elect_top_m cand ceqb (remaining prev) m (Some p) tb in
  do! np := mlift (remove_cand_prof cand ceqb (flat cand el) true false p) in
  do! d := mlift (score_fn k np) in
  mret (np, mkState 1 rem el (no_group cand) (match t with Some x => [x] | None => [] end) d).

Definition round0 (k : score_kind) (p : profile) : res estate :=
  let! d := score_fn k p in ok (state_of_scores cand 0 (no_group cand) (no_group cand) [] d).

Definition run_one_shot (k : score_kind) (m : Z) (tb : option tb_kind) (p : profile)
  : M (list estate) :=
  do! s0 := mlift (round0 k p) in
  do! (_, s1) := one_shot_step k m tb p s0 in
  mret [s0; s1].

(* GeneralRating.__init__ argument checks, then _validate_profile *)
Definition rating_args (m : Z) (L : Q) (k : option Q) : res unit :=
  if (m <=? 0)%Z then err EValue
  else if Qle_bool L 0 then err EValue
  else match k with
       | None => ok tt
       | Some k' =>
           if Qle_bool k' 0 then err EValue
           else if Qlt_bool k' L then err EValue
           else ok tt
       end.
Definition rating_validate (L : Q) (k : option Q) (p : profile) : res unit :=
  rfirst_err (fun b =>
    match sc b with
    | [] => err EType
    | d =>
        if existsb (fun q => Qlt_bool L (snd q)) d then err EType
        else if existsb (fun q => Qlt_bool (snd q) 0) d then err EType
        else match k with
             | Some k' => if Qlt_bool k' (qsum (map snd d)) then err EType else ok tt
             | None => ok tt
             end
    end) (ballots p).
Definition run_rating (m : Z) (L : Q) (k : option Q) (tb : option tb_kind) (p : profile)
  : M (list estate) :=
  do! _ := mlift (rating_args m L k) in
  do! _ := mlift (rating_validate L k p) in
  run_one_shot SKBallotScores m tb p.

(* ---------- DominatingSets / CondoBorda ---------- *)
Definition all_tied_state (p : profile) : estate :=
  mkState 0 [cands p] (no_group cand) (no_group cand) [] [].

Definition run_dominating (p : profile) : M (list estate) :=
  do! _ := mlift (ranking_validate cand p) in
  do! t := mlift (dominating_tiers cand ceqb p) in
  match t with
  | [] => mfail EIndex
  | top :: rest =>
      do! _ := mlift (remove_cand_prof cand ceqb top true false p) in
      mret [all_tied_state p; mkState 1 rest [top] (no_group cand) [] []]
  end.

Definition condo_step (m : Z) (p : profile) : M (profile * estate) :=
  do! t := mlift (dominating_tiers cand ceqb p) in
  do! (el, rem, tb) := elect_top_m cand ceqb t m (Some p) (Some TBBorda) in
  do! np := mlift (remove_cand_prof cand ceqb (flat cand el) true false p) in
  do! d := mlift (borda_scores cand ceqb np) in
  mret (np, mkState 1 rem el (no_group cand) (match tb with Some x => [x] | None => [] end) d).

Definition run_condo (m : Z) (p : profile) : M (list estate) :=
  do! _ := mlift (ranking_validate cand p) in
  do! s0 := mlift (round0 SKBorda p) in
  do! (_, s1) := condo_step m p in
  mret [s0; s1].

(* ---------- Plurality as a sub-election of TopTwo / Alaska ---------- *)
Definition run_plurality (m : Z) (tb : option tb_kind) (p : profile) : M (list estate) :=
  do! _ := mlift (ranking_validate cand p) in
  run_one_shot SKFpv m tb p.

(* the first stage shared by TopTwo (m = 2) and Alaska (m = m_1) *)
Definition plurality_stage (m : Z) (tb : option tb_kind) (p : profile) (prev : estate)
  : M (profile * estate) :=
  do! sts := run_plurality m tb p in
  match sts with
  | [_; s1] =>
      let keep := real_groups cand (elected s1) in
      let elim := remaining s1 in
      do! np := mlift (remove_cand_prof cand ceqb (flat cand elim) true false p) in
      do! d := mlift (first_place_votes cand ceqb np) in
      mret (np, mkState (rnd prev + 1) keep (no_group cand) elim (tiebreaks s1) d)
  | _ => mfail EOther
  end.

Definition run_toptwo (tb : option tb_kind) (p : profile) : M (list estate) :=
  do! _ := mlift (ranking_validate cand p) in
  do! s0 := mlift (round0 SKFpv p) in
  do! (p1, s1) := plurality_stage 2 tb p s0 in
  do! sts := run_plurality 1 tb p1 in
  match sts with
  | [q0; q1] =>
      (* plurality.get_profile(): the Plurality step is replayed (and may draw again) *)
      do! _ := one_shot_step SKFpv 1 tb p1 q0 in
      mret [s0; s1; mkState 2 (remaining q1) (elected q1) (eliminated q1) (tiebreaks q1) (escores q1)]
  | _ => mfail EOther
  end.

(* get_profile(r) of a finished STV object: replay r steps; each step sees the winners elected
   up to its previous round ([done] = the states before [prev], oldest first) *)
Fixpoint stv_replay (cfg : stv_cfg) (t : Q) (p0 : profile) (done : list estate) (p : profile)
         (sts : list estate) : M profile :=
  match sts with
  | [] => mret p
  | prev :: rest =>
      do! (np, _) := stv_step cand ceqb cfg t p0 (count_elected cand (done ++ [prev])) p prev in
      stv_replay cfg t p0 (done ++ [prev]) np rest
  end.

Definition bump (s : estate) : estate :=
  mkState (rnd s + 1) (remaining s) (elected s) (eliminated s) (tiebreaks s) (escores s).

Definition alaska_args (m1 m2 : Z) : res unit :=
  if (m1 <=? 0)%Z then err EValue
  else if (m2 <=? 0)%Z then err EValue
  else if (m1 <? m2)%Z then err EValue else ok tt.

Definition with_m (cfg : stv_cfg) (m : Z) : stv_cfg :=
  mkStv m (s_quota cfg) (s_simul cfg) (s_transfer cfg) (s_tiebreak cfg).

Definition run_alaska (m1 m2 : Z) (cfg : stv_cfg) (p : profile) : M (list estate) :=
  do! _ := mlift (alaska_args m1 m2) in
  do! _ := mlift (ranking_validate cand p) in
  do! s0 := mlift (round0 SKFpv p) in
  do! (p1, s1) := plurality_stage m1 (s_tiebreak cfg) p s0 in
  let c2 := with_m cfg m2 in
  do! t := mlift (stv_init cand c2 p1) in
  do! sts := run_stv cand ceqb c2 p1 in
  (* stv.get_profile(): replay of every STV round against the finished STV object *)
  do! _ := stv_replay c2 t p1 [] p1 (removelast sts) in
  mret (s0 :: s1 :: map bump (tl sts)).

(* ---------- RandomDictator / BoostedRandomDictator ---------- *)
Definition dictator_args (m : Z) (p : profile) : res unit :=
  if (m <=? 0)%Z then err EValue
  else if (Z.of_nat (length (cands p)) <? m)%Z then err EValue else ok tt.

(* random.choices(ballots, weights=weights, k=1)[0], the draw recorded by ranking *)
Definition draw_ballot (p : profile) : M ranking :=
  match ballots p with
  | [] => mfail EIndex
  | bs =>
      if Qle_bool (total_wt cand bs) 0 then mfail EValue
      else
        do! d := next_draw cand (CChoices (map (fun b => (rk b, wt b)) bs)) in
        match d with
        | DRank r =>
            if existsb (fun b => ranking_eqb cand ceqb r (rk b) && pos_wt cand b) bs
            then mret r else mfail EScript
        | _ => mfail EScript
        end
  end.

(* winner from the first position of the drawn ballot, with the recorded tiebreak if tied *)
Definition dictator_pick (r : ranking) : M (cand * list (cset * ranking)) :=
  match r with
  | [] => mfail EOther
  | s :: _ =>
      match s with
      | [] => mfail EIndex
      | [c] => mret (c, [])
      | _ =>
          do! t := tiebreak_set cand ceqb s None TBRandom in
          match t with
          | (c :: _) :: _ => mret (c, [(s, t)])
          | _ => mfail EIndex
          end
      end
  end.

Definition elect_one (w : cand) (tbs : list (cset * ranking)) (p : profile) (prev : estate)
  : M (profile * estate) :=
  do! np := mlift (remove_cand_prof cand ceqb [w] true false p) in
  do! d := mlift (first_place_votes cand ceqb np) in
  mret (np, state_of_scores cand (rnd prev + 1) [[w]] (no_group cand) tbs d).

Definition rd_step (p : profile) (prev : estate) : M (profile * estate) :=
  do! r := draw_ballot p in
  do! (w, tbs) := dictator_pick r in
  elect_one w tbs p prev.

Definition squares (d : scores) (total : Q) : scores :=
  let sq := map (fun q => (fst q, (snd q / total) * (snd q / total))) d in
  let z := qsum (map snd sq) in
  map (fun q => (fst q, snd q / z)) sq.

Definition squares_mass (d : scores) (total : Q) : Q :=
  qsum (map (fun q => (snd q / total) * (snd q / total)) d).

Definition brd_step (p : profile) (prev : estate) : M (profile * estate) :=
  do! du := next_draw cand CUniform in
  match du with
  | DUnit u =>
      match cands p with
      | [c] => elect_one c [] p prev
      | cs =>
          if Qle_bool u (1 / (Qnat (length cs) - 1))
          then
            (* 0/0 = nan probabilities: numpy raises ValueError *)
            if Qeq_bool (total_wt cand (ballots p)) 0 then mfail EValue else
            (* all recorded tallies zero (only reachable in a get_profile replay that has diverged
               from the recorded run): np.sum(p) = 0, again 0/0 *)
            if Qeq_bool (squares_mass (escores prev) (total_wt cand (ballots p))) 0 then mfail EValue else
            let pop := squares (escores prev) (total_wt cand (ballots p)) in
            do! dc := next_draw cand (CNpChoice pop) in
            match dc with
            | DCand w => if memb cand ceqb w (map fst (escores prev))
                         then elect_one w [] p prev else mfail EScript
            | _ => mfail EScript
            end
          else
            do! r := draw_ballot p in
            do! (w, tbs) := dictator_pick r in
            elect_one w tbs p prev
      end
  | _ => mfail EScript
  end.

Fixpoint dictator_loop (fuel : nat) (boosted : bool) (m : Z) (p : profile) (sts : list estate)
  : M (list estate) :=
  if (m <=? count_elected cand sts)%Z then mret (rev sts)
  else
    match fuel with
    | O => mfail EFuel
    | S fuel' =>
        match sts with
        | [] => mfail EOther
        | prev :: _ =>
            do! (np, st) := (if boosted then brd_step p prev else rd_step p prev) in
            dictator_loop fuel' boosted m np (st :: sts)
        end
    end.

Definition run_dictator (boosted : bool) (m : Z) (p : profile) : M (list estate) :=
  do! _ := mlift (dictator_args m p) in
  do! _ := mlift (ranking_validate cand p) in
  do! s0 := mlift (round0 SKFpv p) in
  dictator_loop (length (cands p) + 2) boosted m p [s0].

(* ---------- all rules ---------- *)
Definition default_borda (p : profile) : list Q := borda_vector (length (cands p)).

Definition run_rule (r : rule) (p : profile) : M (list estate) :=
  match r with
  | RSTV cfg => run_stv cand ceqb cfg p
  | RPlurality m tb => run_plurality m tb p
  | RBorda m v tb =>
      let v' := match v with Some (x :: l) => x :: l | _ => default_borda p end in
      do! _ := mlift (validate_vector v') in
      do! _ := mlift (ranking_validate cand p) in
      run_one_shot (SKVector v') m tb p
  | RRating m L k tb => run_rating m L k tb p
  | RLimited m k tb =>
      if Qlt_bool (inject_Z m) k then mfail EValue else run_rating m k (Some k) tb p
  | RBloc m k tb =>
      let k' := match k with Some x => if Z.eqb x 0 then m else x | None => m end in
      run_rating m 1 (Some (inject_Z k')) tb p
  | RDominating => run_dominating p
  | RCondoBorda m => run_condo m p
  | RTopTwo tb => run_toptwo tb p
  | RAlaska m1 m2 cfg => run_alaska m1 m2 cfg p
  | RRandomDictator m => run_dictator false m p
  | RBoosted m => run_dictator true m p
  end.

(* ---------- Election object queries (models.py) ---------- *)
Definition norm_index (n : nat) (i : Z) : res nat :=
  if ((i <? - Z.of_nat n) || (Z.of_nat n - 1 <? i))%Z then err EIndex
  else ok (Z.to_nat (i mod Z.of_nat n)).

Definition get_elected (sts : list estate) (i : Z) : res ranking :=
  let! r := norm_index (length sts) i in
  ok (concat (map (fun s => real_groups cand (elected s)) (firstn (S r) sts))).

Definition get_eliminated (sts : list estate) (i : Z) : res ranking :=
  let! r := norm_index (length sts) i in
  ok (concat (map (fun s => rev (real_groups cand (eliminated s))) (rev (firstn (S r) sts)))).

(* self.election_states[round_number]: plain Python indexing *)
Definition get_remaining (sts : list estate) (i : Z) : res ranking :=
  let! r := norm_index (length sts) i in
  match nth_error sts r with Some s => ok (remaining s) | None => err EIndex end.

Definition get_ranking (sts : list estate) (i : Z) : res ranking :=
  let! e := get_elected sts i in
  let! r := get_remaining sts i in
  let! x := get_eliminated sts i in
  ok (filter nonempty (e ++ r ++ x)).

(* status of each candidate after round r: (candidate, status code, round) with
   1 = Remaining, 2 = Elected, 3 = Eliminated; last writer wins, as in get_status_df *)
Fixpoint status_scan (sts : list estate) (i : Z) (c : cand) (acc : Z * Z) : Z * Z :=
  match sts with
  | [] => acc
  | s :: rest =>
      let acc1 := if memb cand ceqb c (flat cand (elected s)) then (2, i) else acc in
      let acc2 := if memb cand ceqb c (flat cand (eliminated s)) then (3, i) else acc1 in
      let acc3 := if memb cand ceqb c (flat cand (remaining s)) then (fst acc2, i) else acc2 in
      status_scan rest (i + 1) c acc3
  end%Z.
Definition get_status (cs : cset) (sts : list estate) (i : Z) : res (list (cand * (Z * Z))) :=
  let! r := norm_index (length sts) i in
  let! order := get_ranking sts i in
  ok (map (fun c => (c, status_scan (firstn r (tl sts)) 1 c (1, 0)%Z)) (flat cand order)).

(* get_profile(r): replay the first r steps against the finished object *)
Definition replay_profile (ru : rule) (p : profile) (sts : list estate) (r : nat) : M profile :=
  match ru with
  | RSTV cfg =>
      do! t := mlift (stv_init cand cfg p) in
      stv_replay cfg t p [] p (firstn r sts)
  | _ =>
      match r with
      | O => mret p
      | S _ => mfail EOther        (* other rules: see Election.v additions *)
      end
  end.

End WithCand.
