(* Model/STV.v — elections/transfers.py, election_state.py and the STV family
   (elections/election_types/ranking/stv.py).  Executable, code-shaped, no proofs. *)
From VK Require Import Base Core.

Section WithCand.
Variable cand : Type.
Variable ceqb : cand -> cand -> bool.

Notation cset := (cset cand).
Notation ranking := (ranking cand).
Notation ballot := (ballot cand).
Notation profile := (profile cand).
Notation scores := (scores cand).
Notation M := (M cand).

Record estate := mkState {
  rnd : Z;
  remaining : ranking;
  elected : ranking;
  eliminated : ranking;
  tiebreaks : list (cset * ranking);
  escores : scores
}.
Definition no_group : ranking := [[]].           (* (frozenset(),) *)

(* ---------- transfers ---------- *)
Inductive transfer_kind := TFractional | TRandom | TFullWeight.

Definition keep_ballot (b : ballot) : bool := nonempty (rk b) && pos_wt cand b.

(* fractional_transfer(winner, fpv, ballots, threshold) *)
Definition frac_transfer (w : cand) (fpv : Q) (bs : list ballot) (t : Q) : res (list ballot) :=
  if Qeq_bool fpv 0 then err EZeroDiv
  else
    let tv := (fpv - t) / fpv in
    let! moved := rmap (fun b =>
        match rk b with
        | [] => err EType
        | r => ok (mkBallot (strip cand ceqb [w] r)
                            (if first_is cand ceqb w b then wt b * tv else wt b)
                            [] (bid b) (vs b))
        end) bs in
    ok (condense_bs cand ceqb (filter keep_ballot moved)).

(* int(x) for a Fraction: truncation towards zero *)
Definition Qtrunc (q : Q) : Z := Z.quot (Qnum q) (Zpos (Qden q)).
Definition is_integral (q : Q) : bool := Qeq_bool (inject_Z (Qtrunc q)) q.

Fixpoint count_rk (r : ranking) (l : list ranking) : Z :=
  match l with
  | [] => 0
  | r' :: l' => ((if ranking_eqb cand ceqb r r' then 1 else 0) + count_rk r l')%Z
  end.
Definition units_of (r : ranking) (pop : list (ranking * Q)) : Z :=
  fold_right Z.add 0%Z
    (map (fun p => if ranking_eqb cand ceqb r (fst p) then Qtrunc (snd p) else 0%Z) pop).
Definition valid_ballot_sample (pop : list (ranking * Q)) (k : Z) (l : list ranking) : bool :=
  Z.eqb (Z.of_nat (length l)) k &&
  forallb (fun r => (count_rk r l <=? units_of r pop)%Z) l.

(* random_transfer(winner, fpv, ballots, threshold) *)
Definition rand_transfer (w : cand) (fpv : Q) (bs : list ballot) (t : Q) : M (list ballot) :=
  do! _ := mlift (rfirst_err (fun b =>
              if negb (is_integral (wt b)) then err EType
              else match rk b with [] => err EType | _ => ok tt end) bs) in
  let winners := filter (first_is cand ceqb w) bs in
  let others := filter (fun b => negb (first_is cand ceqb w b)) bs in
  let others' := map (fun b => mkBallot (strip cand ceqb [w] (rk b)) (wt b) [] (bid b) (vs b)) others in
  let pop := filter (fun p => nonempty (fst p))
                    (map (fun b => (strip cand ceqb [w] (rk b), wt b)) winners) in
  let k := (Qtrunc fpv - Qtrunc t)%Z in
  let avail := fold_right Z.add 0%Z (map (fun p => Qtrunc (snd p)) pop) in
  if ((k <? 0) || (avail <? k))%Z then mfail EValue
  else
    do! d := next_draw cand (CSampleBallots pop k) in
    match d with
    | DRanks l =>
        if valid_ballot_sample pop k l
        then mret (condense_bs cand ceqb
                     (filter keep_ballot (others' ++ map (fun r => plain_ballot cand r 1) l)))
        else mfail EScript
    | _ => mfail EScript
    end.

(* SequentialRCV: lambda winner, fpv, ballots, threshold: remove_cand(winner, tuple(ballots)) *)
Definition full_transfer (w : cand) (bs : list ballot) : res (list ballot) :=
  ok (remove_cand_bs cand ceqb [w] true false bs).

Definition do_transfer (k : transfer_kind) (w : cand) (fpv : Q) (bs : list ballot) (t : Q)
  : M (list ballot) :=
  match k with
  | TFractional => mlift (frac_transfer w fpv bs t)
  | TRandom => rand_transfer w fpv bs t
  | TFullWeight => mlift (full_transfer w bs)
  end.

(* ---------- STV ---------- *)
Inductive quota_kind := QDroop | QHare | QBad.
Record stv_cfg := mkStv {
  s_m : Z;
  s_quota : quota_kind;
  s_simul : bool;
  s_transfer : transfer_kind;
  s_tiebreak : option tb_kind
}.

Definition stv_validate (p : profile) : res unit :=
  rfirst_err (fun b => match rk b with
                       | [] => err EType
                       | r => if existsb (fun s => Nat.ltb 1 (length s)) r then err EType else ok tt
                       end) (ballots p).

Definition threshold (q : quota_kind) (m : Z) (total : Q) : res Q :=
  match q with
  | QDroop => ok (inject_Z (Qtrunc (total / inject_Z (m + 1) + 1)))
  | QHare => ok (inject_Z (Qtrunc (total / inject_Z m)))
  | QBad => err EValue
  end.

Definition state_of_scores (r : Z) (el elim : ranking) (tb : list (cset * ranking)) (d : scores)
  : estate := mkState r (score_to_ranking cand d true) el elim tb d.

Definition initial_state (p : profile) : res estate :=
  let! d := first_place_votes cand ceqb p in
  ok (state_of_scores 0 no_group no_group [] d).

Definition score_ge (d : scores) (t : Q) (c : cand) : bool := Qle_bool t (lookup0 cand ceqb c d).

(* leading groups of the ranking whose (common) tally reaches the threshold *)
Fixpoint quota_groups (r : ranking) (d : scores) (t : Q) : res ranking :=
  match r with
  | [] => ok []
  | s :: r' =>
      match s with
      | [] => err EIndex                 (* list(s)[0] on an empty set *)
      | c :: _ => if score_ge d t c
                  then let! rest := quota_groups r' d t in ok (s :: rest)
                  else ok []
      end
  end.

Fixpoint transfer_all (k : transfer_kind) (ws : list cand) (p : profile) (d : scores) (t : Q)
  : M (list ballot) :=
  match ws with
  | [] => mret []
  | w :: ws' =>
      (* ballots_by_fpv[w]: a KeyError when w is not a candidate of the profile (only possible in
         a get_profile replay that has diverged from the recorded states) *)
      if negb (memb cand ceqb w (cands p)) then mfail EKey else
      do! a := do_transfer k w (lookup0 cand ceqb w d) (pile cand ceqb p w) t in
      do! rest := transfer_all k ws' p d t in
      mret (a ++ rest)
  end.

Definition has_ranking (b : ballot) : bool := nonempty (rk b).

Definition simultaneous_elect (cfg : stv_cfg) (t : Q) (p : profile) (prev : estate)
  : M (ranking * profile) :=
  do! el := mlift (quota_groups (remaining prev) (escores prev) t) in
  do! _ := mlift (ballots_by_first_check cand ceqb p) in
  let winners := flat cand el in
  do! moved := transfer_all (s_transfer cfg) winners p (escores prev) t in
  let others := set_diff cand ceqb (flat cand (remaining prev)) winners in
  if negb (subsetb cand ceqb others (cands p)) then mfail EKey else
  let rest := concat (map (pile cand ceqb p) others) in
  let cleaned := remove_cand_bs cand ceqb winners true false (filter has_ranking (moved ++ rest)) in
  do! np := mlift (mk_profile cand ceqb cleaned (set_diff cand ceqb (cands p) winners)) in
  mret (el, np).

Definition single_elect (cfg : stv_cfg) (t : Q) (p : profile) (prev : estate)
  : M (ranking * list (cset * ranking) * profile) :=
  do! (el, rem, tb) := elect_top_m cand ceqb (remaining prev) 1 (Some p) (s_tiebreak cfg) in
  let tbs := match tb with Some x => [x] | None => [] end in
  do! _ := mlift (ballots_by_first_check cand ceqb p) in
  match el with
  | (w :: _) :: _ =>
      if negb (memb cand ceqb w (cands p)) then mfail EKey else
      do! moved := do_transfer (s_transfer cfg) w (lookup0 cand ceqb w (escores prev))
                               (pile cand ceqb p w) t in
      if negb (subsetb cand ceqb (flat cand rem) (cands p)) then mfail EKey else
      let rest := concat (map (pile cand ceqb p) (flat cand rem)) in
      let cleaned := remove_cand_bs cand ceqb [w] true false (filter has_ranking (moved ++ rest)) in
      do! np := mlift (mk_profile cand ceqb cleaned (set_diff cand ceqb (cands p) (flat cand el))) in
      mret (el, tbs, np)
  | _ => mfail EIndex
  end.

Definition empty_profile : profile := mkProfile [] [].

(* One _run_step.  [n_elected] is the number of candidates elected up to the previous round
   (self.get_elected(prev_state.round_number), after the repair recorded in known_findings.json;
   the original consulted the FINAL winners, which broke get_profile replays).
   [p0] is the initial profile (used by the elimination tiebreak). *)
Definition stv_step (cfg : stv_cfg) (t : Q) (p0 : profile) (n_elected : Z)
           (p : profile) (prev : estate) : M (profile * estate) :=
  let above := filter (fun q => Qle_bool t (snd q)) (escores prev) in
  do! (el, elim, tbs, np) :=
    (match above with
     | _ :: _ =>
         if s_simul cfg
         then do! (el, np) := simultaneous_elect cfg t p prev in mret (el, no_group, [], np)
         else do! (el, tbs, np) := single_elect cfg t p prev in mret (el, no_group, tbs, np)
     | [] =>
         if Z.eqb (Z.of_nat (length (cands p))) (s_m cfg - n_elected)
         then mret (remaining prev, no_group, [], empty_profile)
         else
           match rev (remaining prev) with
           | [] => mfail EIndex
           | lowest :: _ =>
               do! (x, tbs) :=
                 (match lowest with
                  | [] => mfail EIndex
                  | [c] => mret (c, [])
                  | _ =>
                      do! tb := tiebreak_set cand ceqb lowest (Some p0) TBFirstPlace in
                      match rev tb with
                      | (c :: _) :: _ => mret (c, [(lowest, tb)])
                      | _ => mfail EIndex
                      end
                  end) in
               do! np := mlift (remove_cand_prof cand ceqb [x] true false p) in
               mret (no_group, [[x]], tbs, np)
           end
     end) in
  do! d := mlift (first_place_votes cand ceqb np) in
  mret (np, state_of_scores (rnd prev + 1) el elim tbs d).

Definition real_groups (r : ranking) : ranking :=
  match r with [[]] => [] | _ => r end.
Definition count_elected (sts : list estate) : Z :=
  Z.of_nat (length (flat cand (concat (map (fun s => real_groups (elected s)) sts)))).

(* the while-not-finished loop; states accumulated newest first *)
Fixpoint stv_loop (fuel : nat) (cfg : stv_cfg) (t : Q) (p0 p : profile) (sts : list estate)
  : M (list estate) :=
  if Z.eqb (count_elected sts) (s_m cfg) then mret (rev sts)
  else
    match fuel with
    | O => mfail EFuel
    | S fuel' =>
        match sts with
        | [] => mfail EOther
        | prev :: _ =>
            do! (np, st) := stv_step cfg t p0 (count_elected sts) p prev in
            stv_loop fuel' cfg t p0 np (st :: sts)
        end
    end.

Definition ranking_validate (p : profile) : res unit :=
  rfirst_err (fun b => match rk b with [] => err EType | _ => ok tt end) (ballots p).

(* STV.__init__: the profile is validated (rankings, no ties), then — since the fix "random transfer
   refuses non-integer weights up front" — every weight must be integral when the transfer is the
   random one, then the seat count, then the threshold (quota name) *)
Definition is_trandom (t : transfer_kind) : bool :=
  match t with TRandom => true | _ => false end.
Definition stv_init (cfg : stv_cfg) (p : profile) : res Q :=
  let! _ := stv_validate p in
  if is_trandom (s_transfer cfg) && negb (forallb (fun b => is_integral (wt b)) (ballots p)) then err EType else
  if ((s_m cfg <=? 0) || (Z.of_nat (length (cands p)) <? s_m cfg))%Z then err EValue
  else threshold (s_quota cfg) (s_m cfg) (total_wt cand (ballots p)).

Definition run_stv (cfg : stv_cfg) (p : profile) : M (list estate) :=
  do! t := mlift (stv_init cfg p) in
  do! s0 := mlift (initial_state p) in
  stv_loop (length (cands p) + 2) cfg t p p [s0].

End WithCand.

Arguments mkState {cand}.
Arguments rnd {cand}.
Arguments remaining {cand}.
Arguments elected {cand}.
Arguments eliminated {cand}.
Arguments tiebreaks {cand}.
Arguments escores {cand}.
