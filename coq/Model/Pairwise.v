(* Model/Pairwise.v — graphs/pairwise_comparison_graph.py: ballot_fill, head2head_count,
   compute_pairwise_dict, the beats-or-ties digraph and dominating_tiers.  No proofs. *)
From VK Require Import Base Core.

Section WithCand.
Variable cand : Type.
Variable ceqb : cand -> cand -> bool.

Notation cset := (cset cand).
Notation ranking := (ranking cand).
Notation ballot := (ballot cand).
Notation profile := (profile cand).

(* ballot_fill(profile, ballot_length = len(candidates)) : a ballot shorter than the number of
   candidates is replaced by all completions with the candidates whose singleton is not one of its
   positions, each with weight w / k! *)
Definition missing_singletons (cs : cset) (r : ranking) : cset :=
  filter (fun c => negb (existsb (fun s => cset_eqb cand ceqb s [c]) r)) cs.

Definition fill_ballot (cs : cset) (b : ballot) : res (list ballot) :=
  match rk b with
  | [] => err EType
  | r =>
      if Nat.ltb (length r) (length cs)
      then
        let miss := missing_singletons cs r in
        let ps := perms cand miss in
        ok (map (fun o => plain_ballot cand (r ++ singletons cand o) (wt b / Qnat (length ps))) ps)
      else ok [b]
  end.

Definition ballot_fill (p : profile) : res profile :=
  let! bss := rmap (fill_ballot (cands p)) (ballots p) in
  mk_profile cand ceqb (concat bss) [].

(* head2head_count(cand1, cand2): weight of ballots on which cand1's position comes strictly
   before any position containing cand2 (a shared position counts for cand1: it is tested first) *)
Fixpoint prefers (a b : cand) (r : ranking) : bool :=
  match r with
  | [] => false
  | s :: r' => if memb cand ceqb a s then true
               else if memb cand ceqb b s then false
               else prefers a b r'
  end.
Definition h2h (bs : list ballot) (a b : cand) : Q :=
  qsum (map (fun x => if prefers a b (rk x) then wt x else 0) bs).

(* compute_pairwise_dict: over combinations(candidates, 2) *)
Fixpoint pairs (l : list cand) : list (cand * cand) :=
  match l with
  | [] => []
  | a :: l' => map (fun b => (a, b)) l' ++ pairs l'
  end.
Definition pairwise_entries (bs : list ballot) (cs : cset) : list (cand * cand * Q) :=
  concat (map (fun ab =>
    let a := fst ab in let b := snd ab in
    let x := h2h bs a b in let y := h2h bs b a in
    if Qeq_bool (x - y) 0 then [(a, b, 0); (b, a, 0)]
    else if Qlt_bool y x then [(a, b, x - y)] else [(b, a, y - x)]) (pairs cs)).

(* the digraph: an edge a -> b for every key (a, b) of the dictionary *)
Definition edge (es : list (cand * cand * Q)) (a b : cand) : bool :=
  existsb (fun e => ceqb a (fst (fst e)) && ceqb b (snd (fst e))) es.

(* nodes reachable from a start set in at most [n] steps *)
Definition step_reach (es : list (cand * cand * Q)) (cs : cset) (cur : cset) : cset :=
  filter (fun y => memb cand ceqb y cur || existsb (fun x => edge es x y) cur) cs.
Fixpoint reach_iter (n : nat) (es : list (cand * cand * Q)) (cs : cset) (cur : cset) : cset :=
  match n with
  | O => cur
  | S n' => reach_iter n' es cs (step_reach es cs cur)
  end.
(* nx.has_path(G, a, b) for nodes of the graph *)
Definition has_path (es : list (cand * cand * Q)) (cs : cset) (a b : cand) : bool :=
  memb cand ceqb b (reach_iter (length cs) es cs (filter (ceqb a) cs)).

Definition beat_size (es : list (cand * cand * Q)) (cs : cset) (c : cand) : nat :=
  length (filter (fun o => negb (ceqb c o) && has_path es cs c o) cs).

Fixpoint insert_desc_nat (x : nat) (l : list nat) : list nat :=
  match l with
  | [] => [x]
  | y :: l' => if Nat.eqb x y then l else if Nat.ltb y x then x :: l else y :: insert_desc_nat x l'
  end.

Definition tiers_of (es : list (cand * cand * Q)) (cs : cset) : ranking :=
  let sizes := fold_right insert_desc_nat [] (map (beat_size es cs) cs) in
  map (fun k => filter (fun c => Nat.eqb (beat_size es cs c) k) cs) sizes.

(* PairwiseComparisonGraph(profile): filled profile, dictionary, tiers *)
Record pwc := mkPwc { pw_cands : cset; pw_dict : list (cand * cand * Q); pw_tiers : ranking }.

Definition pairwise_graph (p : profile) : res pwc :=
  let! fp := ballot_fill p in
  let es := pairwise_entries (ballots fp) (cands fp) in
  ok (mkPwc (cands fp) es (tiers_of es (cands fp))).

Definition dominating_tiers (p : profile) : res ranking :=
  let! g := pairwise_graph p in ok (pw_tiers g).

Definition has_condorcet_winner (p : profile) : res bool :=
  let! t := dominating_tiers p in
  match t with
  | s :: _ => ok (Nat.eqb (length s) 1)
  | [] => err EIndex
  end.

End WithCand.

Arguments pw_cands {cand}.
Arguments pw_dict {cand}.
Arguments pw_tiers {cand}.
