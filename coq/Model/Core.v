(* Model/Core.v — ballots, profiles and the functions of votekit/utils.py, ballot.py and
   pref_profile.py that the elections are built on.  Executable Gallina, shaped like the
   Python code, including its error paths.  No proofs in this file.

   Conventions (DESIGN.md §5):
   - a frozenset of candidates is a duplicate-free list, ORDER IRRELEVANT; candidates are used
     only through the equality test [ceqb];
   - [rk b = []] stands for "no ranking" (None or the empty tuple);
   - [sc b = []] stands for "no scores" (None or the empty dict);
   - weights and scores are exact rationals compared with Qeq_bool / Qle_bool. *)
From VK Require Import Base.

Section WithCand.
Variable cand : Type.
Variable ceqb : cand -> cand -> bool.

Definition cset := list cand.
Definition ranking := list cset.

Record ballot := mkBallot {
  rk : ranking;
  wt : Q;
  sc : list (cand * Q);
  bid : option positive;
  vs : option (list positive)
}.

Record profile := mkProfile { ballots : list ballot; cands : list cand }.

(* ---------- sets of candidates ---------- *)
Definition memb (c : cand) (s : cset) : bool := existsb (ceqb c) s.
Definition subsetb (a b : cset) : bool := forallb (fun c => memb c b) a.
Definition cset_eqb (a b : cset) : bool := subsetb a b && subsetb b a.
Fixpoint ranking_eqb (r1 r2 : ranking) : bool :=
  match r1, r2 with
  | [], [] => true
  | s1 :: r1', s2 :: r2' => cset_eqb s1 s2 && ranking_eqb r1' r2'
  | _, _ => false
  end.
Fixpoint dedup (l : cset) : cset :=
  match l with
  | [] => []
  | c :: l' => if memb c l' then dedup l' else c :: dedup l'
  end.
Definition set_diff (a b : cset) : cset := filter (fun c => negb (memb c b)) a.
Definition flat (r : ranking) : cset := concat r.
Definition nonempty {A} (l : list A) : bool := match l with [] => false | _ => true end.
Definition has_dup (l : cset) : bool :=
  negb (Nat.eqb (length (dedup l)) (length l)).

(* score dictionaries as association lists *)
Definition scores := list (cand * Q).
Definition lookup (c : cand) (d : scores) : option Q :=
  match find (fun p => ceqb c (fst p)) d with Some p => Some (snd p) | None => None end.
Definition lookup0 (c : cand) (d : scores) : Q :=
  match lookup c d with Some q => q | None => 0 end.
Definition pair_in (p : cand * Q) (d : scores) : bool :=
  existsb (fun p' => ceqb (fst p) (fst p') && Qeq_bool (snd p) (snd p')) d.
Definition scores_eqb (d1 d2 : scores) : bool :=
  forallb (fun p => pair_in p d2) d1 && forallb (fun p => pair_in p d1) d2.

(* ---------- Ballot construction: zero scores are dropped ---------- *)
Definition clean_scores (d : scores) : scores :=
  filter (fun p => negb (Qeq_bool (snd p) 0)) d.
Definition plain_ballot (r : ranking) (w : Q) : ballot := mkBallot r w [] None None.
Definition empty_ballot : ballot := plain_ballot [] 1.    (* Ballot() *)

(* ---------- PreferenceProfile construction ---------- *)
Definition ballot_cands (b : ballot) : cset := flat (rk b) ++ map fst (sc b).
Definition cast_cands (bs : list ballot) : cset :=
  dedup (concat (map (fun b => if Qlt_bool 0 (wt b) then ballot_cands b else []) bs)).
Definition total_wt (bs : list ballot) : Q := qsum (map wt bs).

(* PreferenceProfile(ballots=bs, candidates=cs): duplicates rejected, empty candidate tuple
   replaced by the candidates cast on positive-weight ballots *)
Definition mk_profile (bs : list ballot) (cs : list cand) : res profile :=
  if has_dup cs then err EValue
  else ok (mkProfile bs (match cs with [] => cast_cands bs | _ => cs end)).

(* ---------- condense_ballots ----------
   A dict keyed by the (ranking, scores) content of the ballots, in first-occurrence order
   (after the repair recorded in known_findings.json: the original keyed on Ballot objects, whose
   __eq__ treats the stored key's missing scores as a wild-card). *)
Definition key_match (stored new : ballot) : bool :=
  ranking_eqb (rk stored) (rk new) && scores_eqb (sc stored) (sc new).

Fixpoint acc_add (acc : list ballot) (b : ballot) : list ballot :=
  match acc with
  | [] => [mkBallot (rk b) (wt b) (sc b) None None]
  | k :: acc' =>
      if key_match k b then mkBallot (rk k) (wt k + wt b) (sc k) None None :: acc'
      else k :: acc_add acc' b
  end.
Definition condense_bs (bs : list ballot) : list ballot := fold_left acc_add bs [].
Definition condense (p : profile) : profile := mkProfile (condense_bs (ballots p)) (cands p).

(* ---------- remove_cand ---------- *)
Definition strip (removed : cset) (r : ranking) : ranking :=
  filter nonempty (map (fun s => filter (fun c => negb (memb c removed)) s) r).
Definition strip_scores (removed : cset) (d : scores) : scores :=
  filter (fun p => negb (memb (fst p) removed)) d.
Definition scrub (removed : cset) (b : ballot) : ballot :=
  let r := strip removed (rk b) in
  let d := strip_scores removed (sc b) in
  match r, d with
  | [], [] => mkBallot [] 0 [] None None
  | _, _ => mkBallot r (wt b) d None None
  end.
Definition pos_wt (b : ballot) : bool := Qlt_bool 0 (wt b).

Definition remove_cand_bs (removed : cset) (condense_flag leave_zero : bool) (bs : list ballot)
  : list ballot :=
  let scrubbed := map (scrub removed) bs in
  let kept := if leave_zero then scrubbed else filter pos_wt scrubbed in
  if condense_flag then condense_bs kept else kept.

Definition remove_cand_prof (removed : cset) (condense_flag leave_zero : bool) (p : profile)
  : res profile :=
  let bs := remove_cand_bs removed condense_flag leave_zero (ballots p) in
  mk_profile bs (set_diff (cands p) removed).

(* remove_cand on a single Ballot returns the scrubbed ballot (after the repair recorded in
   known_findings.json; the original indexed an emptied tuple and raised IndexError) *)
Definition remove_cand_ballot (removed : cset) (condense_flag leave_zero : bool) (b : ballot)
  : res ballot := ok (scrub removed b).

(* ---------- add_missing_cands ---------- *)
Definition add_missing_ballot (cs : cset) (b : ballot) : res ballot :=
  match rk b with
  | [] => err EType
  | r =>
      let missing := set_diff cs (flat r) in
      ok (mkBallot (match missing with [] => r | _ => r ++ [missing] end) (wt b) [] (bid b) (vs b))
  end.
Definition add_missing (p : profile) : res profile :=
  let! bs := rmap (add_missing_ballot (cands p)) (ballots p) in
  ok (mkProfile (condense_bs bs) (cands p)).

(* ---------- score vectors ---------- *)
Fixpoint validate_vector_from (prev : option Q) (v : list Q) : res unit :=
  match v with
  | [] => ok tt
  | x :: v' =>
      if Qlt_bool x 0 then err EValue
      else match prev with
           | Some p => if Qlt_bool p x then err EValue else validate_vector_from (Some x) v'
           | None => validate_vector_from (Some x) v'
           end
  end.
Definition validate_vector (v : list Q) : res unit := validate_vector_from None v.

Fixpoint pad_to (n : nat) (v : list Q) : list Q :=
  match n, v with
  | O, _ => v
  | S n', [] => 0 :: pad_to n' []
  | S n', x :: v' => x :: pad_to n' v'
  end.

(* points each candidate of a ranking receives: a position group of size k starting at offset i
   shares the mean of v[i..i+k) *)
Fixpoint group_allocs (v : list Q) (r : ranking) : scores :=
  match r with
  | [] => []
  | s :: r' =>
      let k := length s in
      let a := qsum (firstn k v) / Qnat k in
      map (fun c => (c, a)) s ++ group_allocs (skipn k v) r'
  end.
Definition alloc_of (c : cand) (l : scores) : Q :=
  qsum (map snd (filter (fun p => ceqb c (fst p)) l)).
Definition score_of (v : list Q) (bs : list ballot) (c : cand) : Q :=
  qsum (map (fun b => wt b * alloc_of c (group_allocs v (rk b))) bs).

Definition all_known (cs : cset) (bs : list ballot) : bool :=
  forallb (fun b => subsetb (flat (rk b)) cs) bs.

Definition score_rankings (p : profile) (v : list Q) : res scores :=
  let! _ := validate_vector v in
  let v' := pad_to (length (cands p)) v in
  let! p' := add_missing p in
  if existsb (fun b => existsb (fun s => negb (nonempty s)) (rk b)) (ballots p') then err EType
  else if negb (all_known (cands p') (ballots p')) then err EKey
  else ok (map (fun c => (c, score_of v' (ballots p') c)) (cands p')).

Definition fpv_vector (n : nat) : list Q := 1 :: repeat 0 n.
Fixpoint borda_vector (n : nat) : list Q :=
  match n with O => [] | S n' => Qnat n :: borda_vector n' end.
Definition first_place_votes (p : profile) : res scores :=
  score_rankings p (fpv_vector (length (cands p))).
Definition borda_scores (p : profile) : res scores :=
  score_rankings p (borda_vector (length (cands p))).

Definition mentions (p : profile) : res scores :=
  if existsb (fun b => negb (nonempty (rk b))) (ballots p) then err EType
  else if negb (all_known (cands p) (ballots p)) then err EKey
  else ok (map (fun c => (c, qsum (map (fun b => if memb c (flat (rk b)) then wt b else 0)
                                      (ballots p)))) (cands p)).

(* score_profile_from_ballot_scores *)
Definition score_from_scores (p : profile) : res scores :=
  if existsb (fun b => negb (nonempty (sc b))) (ballots p) then err EType
  else if negb (forallb (fun b => subsetb (map fst (sc b)) (cands p)) (ballots p)) then err EKey
  else ok (map (fun c => (c, qsum (map (fun b => lookup0 c (sc b) * wt b) (ballots p))))
               (cands p)).

(* ---------- score_dict_to_ranking ---------- *)
Fixpoint insert_desc (x : Q) (l : list Q) : list Q :=
  match l with
  | [] => [x]
  | y :: l' => if Qeq_bool x y then l
               else if Qlt_bool y x then x :: l else y :: insert_desc x l'
  end.
Definition distinct_desc (l : list Q) : list Q := fold_right insert_desc [] l.
Definition score_to_ranking (d : scores) (high_low : bool) : ranking :=
  match d with
  | [] => [[]]
  | _ =>
      let keys := distinct_desc (map snd d) in
      let keys' := if high_low then keys else rev keys in
      map (fun k => map fst (filter (fun p => Qeq_bool (snd p) k) d)) keys'
  end.

(* ---------- randomness: scripts of primitive draw results, log of primitive calls ---------- *)
Inductive draw :=
| DPerm (l : list cand)        (* random.sample(list(S), len(S)) : the returned order *)
| DRank (r : ranking)          (* random.choices(ballots, weights): ranking of the chosen ballot *)
| DRanks (l : list ranking)    (* random.sample(unit ballots, k): rankings of the chosen ones *)
| DUnit (q : Q)                (* random.uniform(0,1) *)
| DCand (c : cand)             (* numpy.random.choice(cands, p=...) *)
| DIdxs (l : list nat).        (* numpy.random.shuffle(range n): the resulting order *)

Inductive call :=
| CSample (pop : cset)
| CChoices (pop : list (ranking * Q))
| CSampleBallots (pop : list (ranking * Q)) (k : Z)
| CUniform
| CNpChoice (pop : scores)
| CShuffle (n : nat).

Record mstate := mkM { scr : list draw; lg : list call }.
Definition M (A : Type) : Type := mstate -> res (A * mstate).
Definition mret {A} (a : A) : M A := fun s => ok (a, s).
Definition mbind {A B} (x : M A) (f : A -> M B) : M B :=
  fun s => match x s with inl (a, s') => f a s' | inr e => inr e end.
Definition mlift {A} (r : res A) : M A := fun s => match r with inl a => ok (a, s) | inr e => inr e end.
Definition mfail {A} (e : exn) : M A := fun _ => err e.
Definition next_draw (c : call) : M draw :=
  fun s => match scr s with
           | [] => err EScript
           | d :: rest => ok (d, mkM rest (c :: lg s))
           end.

Declare Scope m_scope_local.
Notation "'do!' x ':=' e1 'in' e2" := (mbind e1 (fun x => e2))
  (at level 200, x pattern, e1 at level 100, e2 at level 200) : m_scope_local.
Open Scope m_scope_local.

Definition is_perm_of (l s : cset) : bool :=
  Nat.eqb (length l) (length s) && subsetb l s && subsetb s l && negb (has_dup l).

(* random.sample(list(s), k=len(s)) *)
Definition draw_perm (s : cset) : M (list cand) :=
  do! d := next_draw (CSample s) in
  match d with
  | DPerm l => if is_perm_of l s then mret l else mfail EScript
  | _ => mfail EScript
  end.

Inductive tb_kind := TBRandom | TBFirstPlace | TBBorda | TBInvalid.

Definition singletons (l : list cand) : ranking := map (fun c => [c]) l.

(* tiebroken_ranking(r, profile, "random") *)
Fixpoint random_break (r : ranking) : M ranking :=
  match r with
  | [] => mret []
  | s :: r' =>
      match s with
      | _ :: _ :: _ =>
          do! l := draw_perm s in
          do! rest := random_break r' in
          mret (singletons l ++ rest)
      | _ => do! rest := random_break r' in mret (s :: rest)
      end
  end.

Definition tiebreak_set (s : cset) (p : option profile) (tb : tb_kind) : M ranking :=
  match tb with
  | TBRandom =>
      (* even a singleton or empty set goes through random.sample *)
      do! l := draw_perm s in mret (singletons l)
  | TBFirstPlace | TBBorda =>
      match p with
      | None => mfail EValue
      | Some pr =>
          do! d := mlift (match tb with TBBorda => borda_scores pr | _ => first_place_votes pr end) in
          let d' := filter (fun q => memb (fst q) s) d in
          let r := score_to_ranking d' true in
          if existsb (fun g => Nat.ltb 1 (length g)) r then random_break r else mret r
      end
  | TBInvalid => mfail EValue
  end.

(* ---------- elect_cands_from_set_ranking ---------- *)
Definition ranking_size (r : ranking) : nat := length (flat r).

(* the while loop: [need] seats still to fill, walking down the ranking *)
Fixpoint elect_loop (r : ranking) (need : nat) (acc : ranking) (p : option profile)
         (tb : option tb_kind) : M (ranking * ranking * option (cset * ranking)) :=
  match need with
  | O => mret (rev acc, r, None)
  | S _ =>
      match r with
      | [] => mfail EIndex
      | s :: r' =>
          if Nat.leb (length s) need
          then elect_loop r' (need - length s) (s :: acc) p tb
          else match tb with
               | None => mfail EValue
               | Some k =>
                   do! t := tiebreak_set s p k in
                   mret (rev acc ++ firstn need t, skipn need t ++ r', Some (s, t))
               end
      end
  end.

Definition elect_top_m (r : ranking) (m : Z) (p : option profile) (tb : option tb_kind)
  : M (ranking * ranking * option (cset * ranking)) :=
  if (m <? 1)%Z then mfail EValue
  else if (Z.of_nat (ranking_size r) <? m)%Z then mfail EValue
  else elect_loop r (Z.to_nat m) [] p tb.

(* ---------- expand_tied_ballot / resolve_profile_ties ---------- *)
Fixpoint insert_all (x : cand) (l : list cand) : list (list cand) :=
  match l with
  | [] => [[x]]
  | y :: l' => (x :: l) :: map (cons y) (insert_all x l')
  end.
Fixpoint perms (l : list cand) : list (list cand) :=
  match l with
  | [] => [[]]
  | x :: l' => concat (map (insert_all x) (perms l'))
  end.
Fixpoint fact (n : nat) : nat := match n with O => 1%nat | S n' => (n * fact n')%nat end.

(* all linear refinements of a ranking together with the weight divisor *)
Fixpoint expand_ranking (r : ranking) : list ranking :=
  match r with
  | [] => [[]]
  | s :: r' =>
      let tails := expand_ranking r' in
      concat (map (fun o => map (fun t => singletons o ++ t) tails) (perms s))
  end.
Fixpoint tie_divisor (r : ranking) : nat :=
  match r with [] => 1%nat | s :: r' => (fact (length s) * tie_divisor r')%nat end.

Definition expand_tied_ballot (b : ballot) : res (list ballot) :=
  match rk b with
  | [] => err EType
  | r =>
      if forallb (fun s => Nat.eqb (length s) 1) r then ok [b]
      else ok (map (fun r' => mkBallot r' (wt b / Qnat (tie_divisor r)) [] (bid b) (vs b))
                   (expand_ranking r))
  end.

Definition resolve_profile_ties (p : profile) : res profile :=
  let! bss := rmap expand_tied_ballot (ballots p) in
  (* since the fix "resolve_profile_ties keeps the profile's candidate list" *)
  let! q := mk_profile (concat bss) (cands p) in
  ok (condense q).

(* ---------- ballots_by_first_cand ---------- *)
Definition first_is (c : cand) (b : ballot) : bool :=
  match rk b with s :: _ => cset_eqb s [c] | [] => false end.
Definition ballots_by_first_check (p : profile) : res unit :=
  rfirst_err (fun b => match rk b with
                       | [] => err EType
                       | s :: _ => match s with
                                   | [c] => if memb c (cands p) then ok tt else err EKey
                                   | [] => err EIndex
                                   | _ => err EValue
                                   end
                       end) (ballots p).
Definition pile (p : profile) (c : cand) : list ballot := filter (first_is c) (ballots p).

(* ---------- profile equality and addition, as coded ---------- *)
Definition ballot_eq (a b : ballot) : bool :=
  (match bid a with Some i => match bid b with Some j => Pos.eqb i j | None => false end | None => true end)
  && ranking_eqb (rk a) (rk b)
  && Qeq_bool (wt a) (wt b)
  && (match vs a with
      | Some x => match vs b with
                  | Some y => forallb (fun i => existsb (Pos.eqb i) y) x && forallb (fun i => existsb (Pos.eqb i) x) y
                  | None => false end
      | None => true end)
  && (match sc a with [] => true | d => scores_eqb d (sc b) end).
(* PreferenceProfile.__eq__ (after the repair recorded in known_findings.json): the condensed
   profiles must give every (ranking, scores) content of non-zero weight the same weight *)
Definition content_in (b : ballot) (bs : list ballot) : bool :=
  existsb (fun b' => key_match b b' && Qeq_bool (wt b) (wt b')) bs.
Definition nonzero_wt (b : ballot) : bool := negb (Qeq_bool (wt b) 0).
Definition profile_eq (p q : profile) : bool :=
  let bp := filter nonzero_wt (condense_bs (ballots p)) in
  let bq := filter nonzero_wt (condense_bs (ballots q)) in
  forallb (fun b => content_in b bq) bp && forallb (fun b => content_in b bp) bq.
(* __add__: candidates recomputed from the cast ballots; the condensed copy is discarded *)
Definition profile_add (p q : profile) : res profile := mk_profile (ballots p ++ ballots q) [].

End WithCand.

Arguments mkBallot {cand}.
Arguments mkProfile {cand}.
Arguments rk {cand}.
Arguments wt {cand}.
Arguments sc {cand}.
Arguments bid {cand}.
Arguments vs {cand}.
Arguments ballots {cand}.
Arguments cands {cand}.
Arguments DPerm {cand}.
Arguments DRank {cand}.
Arguments DRanks {cand}.
Arguments DUnit {cand}.
Arguments DCand {cand}.
Arguments DIdxs {cand}.
Arguments mkM {cand}.
Arguments scr {cand}.
Arguments lg {cand}.
Arguments mret {cand A}.
Arguments mbind {cand A B}.
Arguments mlift {cand A}.
Arguments mfail {cand A}.

Declare Scope m_scope.
Notation "'do!' x ':=' e1 'in' e2" := (mbind e1 (fun x => e2))
  (at level 200, x pattern, e1 at level 100, e2 at level 200) : m_scope.
Open Scope m_scope.
Arguments CSample {cand}.
Arguments CChoices {cand}.
Arguments CSampleBallots {cand}.
Arguments CUniform {cand}.
Arguments CNpChoice {cand}.
Arguments CShuffle {cand}.
