(* Model/Dispatch.v — one entry point for the harness: op code + encoded argument -> encoded
   result.  Op codes are listed in harness/ops.py.  Glue, no proofs. *)
From VK Require Import Base Core STV Pairwise Rules PV Election Election2 BallotCtor Cleaning Metrics Loaders GenValidation PrefInterval Generators Generators2 Codec.

Definition op_remove_cand (v : val) : val :=
  match v with
  | VL [rm; cf; lz; p] =>
      eRes eProfile (let! rm' := dCset rm in let! cf' := dB cf in let! lz' := dB lz in
                     let! p' := dProfile p in remove_cand_prof cand ceqb rm' cf' lz' p')
  | _ => VE EScript
  end.
Definition op_remove_cand_bs (v : val) : val :=
  match v with
  | VL [rm; cf; lz; bs] =>
      eRes eBallots (let! rm' := dCset rm in let! cf' := dB cf in let! lz' := dB lz in
                     let! bs' := dList dBallot bs in ok (remove_cand_bs cand ceqb rm' cf' lz' bs'))
  | _ => VE EScript
  end.
Definition op_remove_cand_ballot (v : val) : val :=
  match v with
  | VL [rm; cf; lz; b] =>
      eRes eBallot (let! rm' := dCset rm in let! cf' := dB cf in let! lz' := dB lz in
                    let! b' := dBallot b in remove_cand_ballot cand ceqb rm' cf' lz' b')
  | _ => VE EScript
  end.
Definition op_score_rankings (v : val) : val :=
  match v with
  | VL [p; vec] =>
      eRes eScores (let! p' := dProfile p in let! vec' := dList dQ vec in
                    score_rankings cand ceqb p' vec')
  | _ => VE EScript
  end.
Definition op_fpv (v : val) : val :=
  eRes eScores (let! p := dProfile v in first_place_votes cand ceqb p).
Definition op_borda (v : val) : val :=
  eRes eScores (let! p := dProfile v in borda_scores cand ceqb p).
Definition op_mentions (v : val) : val :=
  eRes eScores (let! p := dProfile v in mentions cand ceqb p).
Definition op_score_to_ranking (v : val) : val :=
  match v with
  | VL [d; hl] => eRes eRanking (let! d' := dScores d in let! hl' := dB hl in
                                 ok (score_to_ranking cand d' hl'))
  | _ => VE EScript
  end.
Definition eElect (x : ranking * ranking * option (cset * ranking)) : val :=
  match x with
  | (el, rem, tb) => VL [eRanking el; eRanking rem;
                         eOpt (fun t => VL [eCset (fst t); eRanking (snd t)]) tb]
  end.
Definition op_elect (v : val) : val :=
  match v with
  | VL [r; m; p; tb; script] =>
      match (let! r' := dRanking r in let! m' := dZ m in let! p' := dOpt dProfile p in
             let! tb' := dTb tb in let! s := dScript script in ok (r', m', p', tb', s)) with
      | inl (r', m', p', tb', s) => runM eElect (elect_top_m cand ceqb r' m' p' tb') s
      | inr e => VE e
      end
  | _ => VE EScript
  end.
Definition op_condense (v : val) : val :=
  eRes eBallotsOrdered (let! bs := dList dBallot v in ok (condense_bs cand ceqb bs)).
Definition op_transfer (v : val) : val :=
  match v with
  | VL [k; w; fpv; bs; t; script] =>
      match (let! k' := dZ k in let! w' := dPos w in let! f := dQ fpv in let! bs' := dList dBallot bs in
             let! t' := dQ t in let! s := dScript script in ok (k', w', f, bs', t', s)) with
      | inl (k', w', f, bs', t', s) =>
          runM eBallots (do_transfer cand ceqb
                           (if Z.eqb k' 1 then TFractional else if Z.eqb k' 2 then TRandom else TFullWeight)
                           w' f bs' t') s
      | inr e => VE e
      end
  | _ => VE EScript
  end.
Definition op_stv (v : val) : val :=
  match v with
  | VL [cfg; p; script] =>
      match (let! c := dStvCfg cfg in let! p' := dProfile p in let! s := dScript script in
             ok (c, p', s)) with
      | inl (c, p', s) => runM eStates (run_stv cand ceqb c p') s
      | inr e => VE e
      end
  | _ => VE EScript
  end.

Definition op_rule (v : val) : val :=
  match v with
  | VL [r; p; script] =>
      match (let! r' := dRule r in let! p' := dProfile p in let! s := dScript script in
             ok (r', p', s)) with
      | inl (r', p', s) => runM eStates (run_rule cand ceqb r' p') s
      | inr e => VE e
      end
  | _ => VE EScript
  end.
Definition op_pairwise (v : val) : val :=
  eRes ePwc (let! p := dProfile v in pairwise_graph cand ceqb p).
Definition eStatus (l : list (cand * (Z * Z))) : val :=
  VL (map (fun x => VL [ePos (fst x); VZ (fst (snd x)); VZ (snd (snd x))]) l).
(* queries on recorded states: [states-producing rule, profile, script, list of (query, index)] *)
Definition run_query (cs : cset) (sts : list estate) (q : val) : val :=
  match q with
  | VL [VZ 1; VZ i] => eRes eRanking (get_elected cand sts i)
  | VL [VZ 2; VZ i] => eRes eRanking (get_eliminated cand sts i)
  | VL [VZ 3; VZ i] => eRes eRanking (get_remaining cand sts i)
  | VL [VZ 4; VZ i] => eRes eRanking (get_ranking cand sts i)
  | VL [VZ 5; VZ i] => eRes eStatus (get_status cand ceqb cs sts i)
  | _ => VE EScript
  end.
Definition op_queries (v : val) : val :=
  match v with
  | VL [r; p; script; qs] =>
      match (let! r' := dRule r in let! p' := dProfile p in let! s := dScript script in
             let! qs' := dL qs in ok (r', p', s, qs')) with
      | inl (r', p', s, qs') =>
          match run_rule cand ceqb r' p' (mkM s []) with
          | inl (sts, _) => VL (map (run_query (cands p') sts) qs')
          | inr e => VE e
          end
      | inr e => VE e
      end
  | _ => VE EScript
  end.

Definition op_wrule (v : val) : val :=
  match v with
  | VL [r; p; script] =>
      match (let! r' := dWRule r in let! p' := dProfile p in let! s := dScript script in
             ok (r', p', s)) with
      | inl (r', p', s) => runM eStates (run_wrule cand ceqb r' p') s
      | inr e => VE e
      end
  | _ => VE EScript
  end.

(* a history of queries on a finished election; get_profile queries thread the script *)
Fixpoint run_history (r : option rule) (p : profile) (sts : list estate) (qs : list val)
         (s : mstate cand) : list val :=
  match qs with
  | [] => []
  | VL [VZ 6; VZ i] :: rest =>
      match r with
      | Some r' =>
          match get_profile cand ceqb r' p sts i s with
          | inl (np, s') => eProfile np :: run_history r p sts rest s'
          | inr e => VE e :: run_history r p sts rest s
          end
      | None => VE EOther :: run_history r p sts rest s
      end
  | VL [VZ 7; VZ i] :: rest =>
      match r with
      | Some r' =>
          match get_step cand ceqb r' p sts i s with
          | inl ((np, st), s') => VL [eProfile np; eState st] :: run_history r p sts rest s'
          | inr e => VE e :: run_history r p sts rest s
          end
      | None => VE EOther :: run_history r p sts rest s
      end
  | q :: rest => run_query (cands p) sts q :: run_history r p sts rest s
  end.
Definition op_history (v : val) : val :=
  match v with
  | VL [r; p; script; qs] =>
      match (let! r' := dWRule r in let! p' := dProfile p in let! s := dScript script in
             let! qs' := dL qs in ok (r', p', s, qs')) with
      | inl (r', p', s, qs') =>
          match run_wrule cand ceqb r' p' (mkM s []) with
          | inl (sts, s') => VL [eStates sts; VL (run_history (expand r') p' sts qs' s')]
          | inr e => VE e
          end
      | inr e => VE e
      end
  | _ => VE EScript
  end.

Definition dPynum (v : val) : res pynum :=
  match v with
  | VL [VZ 1; VZ z] => ok (PInt z)
  | VL [VZ 2; q] => let! q' := dQ q in ok (PFrac q')
  | VL [VZ 3; q] => let! q' := dQ q in ok (PFloat q')
  | _ => err EScript
  end.
Definition op_make_ballot (v : val) : val :=
  match v with
  | VL [r; w; d; i; vset] =>
      eRes eBallot (let! r' := dRanking r in let! w' := dPynum w in
                    let! d' := dList (dPair dPos dPynum) d in
                    let! i' := dOpt dPos i in let! v' := dOpt (dList dPos) vset in
                    ok (make_ballot cand r' w' d' i' v'))
  | _ => VE EScript
  end.
Definition op_mk_profile (v : val) : val :=
  match v with
  | VL [bs; cs] =>
      eRes (fun p => VL [eProfile p; eNat (length (ballots p)); VQ (total_wt cand (ballots p));
                         eCset (cast_cands cand ceqb (ballots p))])
           (let! bs' := dList dBallot bs in let! cs' := dCset cs in mk_profile cand ceqb bs' cs')
  | _ => VE EScript
  end.
Definition op_profile_eq (v : val) : val :=
  match v with
  | VL [p; q] => eRes VB (let! p' := dProfile p in let! q' := dProfile q in
                          ok (profile_eq cand ceqb p' q'))
  | _ => VE EScript
  end.
Definition op_profile_add (v : val) : val :=
  match v with
  | VL [p; q] => eRes eProfile (let! p' := dProfile p in let! q' := dProfile q in
                                profile_add cand ceqb p' q')
  | _ => VE EScript
  end.
Definition op_add_missing (v : val) : val :=
  eRes eProfile (let! p := dProfile v in add_missing cand ceqb p).
Definition op_expand_tied (v : val) : val :=
  eRes eBallots (let! b := dBallot v in expand_tied_ballot cand b).
Definition op_resolve_ties (v : val) : val :=
  eRes eProfile (let! p := dProfile v in resolve_profile_ties cand ceqb p).

Definition op_remove_empty (v : val) : val :=
  match v with
  | VL [p; k] => eRes eProfile (let! p' := dProfile p in let! k' := dB k in
                                remove_empty_ballots cand ceqb p' k')
  | _ => VE EScript
  end.
Definition eProfileOrdered (p : profile) : val := VL [eBallotsOrdered (ballots p); eCset (cands p)].
Definition op_dedup (v : val) : val :=
  eRes eProfileOrdered (let! p := dProfile v in deduplicate_profiles cand ceqb p).
Definition op_remove_noncands (v : val) : val :=
  match v with
  | VL [p; non] => eRes eProfileOrdered (let! p' := dProfile p in let! n := dCset non in
                                         remove_noncands cand ceqb p' n)
  | _ => VE EScript
  end.

Definition dCell (v : val) : res (cell cand) :=
  match v with
  | VN => ok (CBlank cand)
  | VL [VZ 1; c] => let! c' := dPos c in ok (CStr cand c')
  | VL [VZ 2; q] => let! q' := dQ q in ok (CNum cand q')
  | VL [VZ 3; i] => let! i' := dPos i in ok (CId cand i')
  | _ => err EScript
  end.
Definition op_load_csv (v : val) : val :=
  match v with
  | VL [bl; nc; rows; rc; wc; ic] =>
      eRes eProfile (let! bl' := dPos bl in let! nc' := dNat nc in
                     let! rows' := dList (dList dCell) rows in let! rc' := dList dNat rc in
                     let! wc' := dOpt dNat wc in let! ic' := dOpt dNat ic in
                     load_csv cand ceqb bl' nc' rows' rc' wc' ic')
  | _ => VE EScript
  end.
Definition dTok (v : val) : res (tok cand) :=
  match v with
  | VN => ok (TEmpty cand)
  | VL [VZ 1; VZ z] => ok (TNum cand z)
  | VL [VZ 2; c; b] => let! c' := dPos c in let! b' := dB b in ok (TStr cand c' b')
  | _ => err EScript
  end.
Definition eTok (t : tok cand) : val :=
  match t with
  | TEmpty _ => VN
  | TNum _ z => VL [VZ 1; VZ z]
  | TStr _ c b => VL [VZ 2; ePos c; VB b]
  end.
Definition op_load_scottish (v : val) : val :=
  eRes (fun s => VL [eProfile (sc_profile cand s); eTok (sc_seats cand s);
                     VL (map ePos (sc_cands cand s));
                     VS (map (fun x => VL [ePos (fst x); eTok (snd x)]) (sc_party cand s));
                     eTok (sc_ward cand s)])
       (let! rows := dList (dList dTok) v in load_scottish cand ceqb rows).
Definition op_to_csv (v : val) : val :=
  eRes (fun rows => VL (map (fun r => VL [VQ (fst (fst r)); eRanking (snd (fst r)); eScores (snd r)]) rows))
       (let! p := dProfile v in ok (to_csv_rows cand p)).
Definition op_lp_sum (v : val) : val :=
  match v with
  | VL [p1; p2; p] => eRes VQ (let! a := dProfile p1 in let! b := dProfile p2 in let! n := dNat p in
                               lp_sum cand ceqb a b n)
  | _ => VE EScript
  end.
Definition op_linf (v : val) : val :=
  match v with
  | VL [p1; p2] => eRes VQ (let! a := dProfile p1 in let! b := dProfile p2 in linf cand ceqb a b)
  | _ => VE EScript
  end.
Definition eNode (k : node) : val := VL (map eNat k).
Definition op_graph (v : val) : val :=
  eRes (fun g => VL [VS (map eNode (g_nodes g));
                     VS (map (fun e => VS [eNode (fst e); eNode (snd e)]) (g_edges g))])
       (let! n := dNat v in ok (build_graph n)).
Definition op_node_weights (v : val) : val :=
  match v with
  | VL [p; fs] => eRes (fun ws => VS (map (fun x => VL [eNode (fst x); VQ (snd x)]) ws))
                       (let! p' := dProfile p in let! fs' := dB fs in node_weights cand ceqb p' fs')
  | _ => VE EScript
  end.

Definition op_bloc_checks (v : val) : val :=
  match v with
  | VL [props; ik; coh] =>
      eRes (fun _ => VN) (let! p := dList (dPair dPos dQ) props in let! k := dList dPos ik in
                          let! c := dList (dPair dPos (dList (dPair dPos dQ))) coh in bloc_checks p k c)
  | _ => VE EScript
  end.
Definition op_combine_checks (v : val) : val :=
  match v with
  | VL [ics; props] =>
      eRes (fun _ => VN) (let! i := dList (dList dPos) ics in let! p := dList dQ props in combine_checks i p)
  | _ => VE EScript
  end.

Definition ePI (i : pinterval) : val :=
  VL [VS (map (fun p => VL [ePos (fst p); VQ (snd p)]) (pi_int i)); VS (map ePos (pi_zero i))].
Definition dPI (v : val) : res pinterval :=
  match v with
  | VL [i; z] => let! i' := dList (dPair dPos dQ) i in let! z' := dList dPos z in ok (mkPI i' z')
  | _ => err EScript
  end.
Definition op_mk_interval (v : val) : val :=
  eRes ePI (let! d := dList (dPair dPos dQ) v in mk_interval d).
Definition op_combine_intervals (v : val) : val :=
  match v with
  | VL [is; ps] => eRes ePI (let! i := dList dPI is in let! p := dList dQ ps in combine_intervals i p)
  | _ => VE EScript
  end.
Definition op_bt_pdf (v : val) : val :=
  eRes (fun t => VS (map (fun x => VL [VL (map ePos (fst x)); VQ (snd x)]) t))
       (let! d := dList (dPair dPos dQ) v in ok (bt_pdf d)).
Definition op_calc_prob (v : val) : val :=
  match v with
  | VL [d; r] => eRes VQ (let! d' := dList (dPair dPos dQ) d in let! r' := dList dPos r in ok (calc_prob d' r'))
  | _ => VE EScript
  end.
Definition op_slate_bt_pdf (v : val) : val :=
  match v with
  | VL [sizes; own; opp; coh] =>
      eRes (fun t => VS (map (fun x => VL [VL (map ePos (fst x)); VQ (snd x)]) t))
           (let! sz := dList (dPair dPos dNat) sizes in let! a := dPos own in let! b := dPos opp in
            let! c := dQ coh in ok (slate_bt_pdf sz a b c))
  | _ => VE EScript
  end.

(* ---------- generators ---------- *)
Definition ePop (l : list (pcand * Q)) : val := VS (map (fun p => VL [ePos (fst p); VQ (snd p)]) l).
Definition eGcall (c : gcall) : val :=
  match c with
  | GPL pop k => VL [VZ 1; ePop pop; eNat k]
  | GUniSub pop k => VL [VZ 2; VS (map ePos pop); eNat k]
  | GIID pop k => VL [VZ 3; ePop pop; eNat k]
  | GTable tbl n => VL [VZ 4; VS (map (fun x => VL [VL (map ePos (fst x)); VQ (snd x)]) tbl); eNat n]
  | GTypeTable tbl n => VL [VZ 5; VS (map (fun x => VL [VL (map ePos (fst x)); VQ (snd x)]) tbl); eNat n]
  | GUniforms n => VL [VZ 6; eNat n]
  | GShuffle pop => VL [VZ 7; VS (map ePos pop)]
  end.
Definition eGen (x : list (bloc * gprofile) * gprofile * list gcall) : val :=
  match x with
  | (by_bloc, agg, calls) =>
      VL [VS (map (fun bp => VL [ePos (fst bp); eProfile (snd bp)]) by_bloc); eProfile agg; VL (map eGcall calls)]
  end.
Definition gen_finish (pools : list (bloc * (list gballot * list gcall)))
  : res (list (bloc * gprofile) * gprofile * list gcall) :=
  let! r := finish_blocs (map (fun x => (fst x, fst (snd x))) pools) in
  ok (fst r, snd r, concat (map (fun x => snd (snd x)) pools)).
Definition dCands (v : val) : res (list pcand) := dList dPos v.

Definition op_gen_pl (v : val) : val :=
  match v with
  | VL [bl; blocs] =>
      eRes eGen (let! bl' := dNat bl in
                 let! pools := dList (fun b => match b with
                     | VL [bid; iv; draws] =>
                         let! bid' := dPos bid in let! iv' := dPI iv in
                         let! ds := dList (dPair dCands dCands) draws in
                         let! r := pl_bloc iv' bl' ds in ok (bid', r)
                     | _ => err EScript end) blocs in
                 gen_finish pools)
  | _ => VE EScript
  end.
Definition op_gen_cumulative (v : val) : val :=
  match v with
  | VL [nv; blocs] =>
      eRes eGen (let! nv' := dNat nv in
                 let! pools := dList (fun b => match b with
                     | VL [bid; iv; draws] =>
                         let! bid' := dPos bid in let! iv' := dPI iv in
                         let! ds := dList dCands draws in
                         let! r := cumulative_bloc iv' nv' ds in ok (bid', r)
                     | _ => err EScript end) blocs in
                 gen_finish pools)
  | _ => VE EScript
  end.
Definition op_gen_bt (v : val) : val :=
  eRes eGen (let! pools := dList (fun b => match b with
                 | VL [bid; iv; n; draws] =>
                     let! bid' := dPos bid in let! iv' := dPI iv in let! n' := dNat n in
                     let! ds := dList dCands draws in
                     let! r := table_bloc (bt_pdf (pi_int iv')) (pi_zero iv') n' ds in ok (bid', r)
                 | _ => err EScript end) v in
             gen_finish pools).
Definition op_gen_point (v : val) : val :=
  match v with
  | VL [cs; point; n; draws] =>
      eRes (fun x => VL [eProfile (fst x); VL (map eGcall (snd x))])
           (let! cs' := dCands cs in let! pt := dList (dPair dPos dQ) point in let! n' := dNat n in
            let! ds := dList dCands draws in
            let! r := table_bloc (point_table cs' pt) [] n' ds in
            let! p := pool_to_profile ds cs' in ok (p, snd r))
  | _ => VE EScript
  end.
Definition dSlateIv (v : val) : res (list (bloc * pinterval)) := dList (dPair dPos dPI) v.
Definition op_gen_slate_pl (v : val) : val :=
  eRes eGen (let! pools := dList (fun b => match b with
      | VL [bid; ivs; sizes; coh; zero; ballots] =>
          let! bid' := dPos bid in let! ivs' := dSlateIv ivs in
          let! sz := dList (dPair dPos dNat) sizes in let! coh' := dList (dPair dPos dQ) coh in
          let! zero' := dCands zero in
          let ncand := fold_right Nat.add O (map snd sz) in
          let! bs := dList (fun x => match x with
              | VL [flips; sh; orders] =>
                  let! fl := dList dQ flips in let! sh' := dOpt dCands sh in
                  let! os := dList (dPair dPos dCands) orders in
                  let! tc := type_loop fl (map fst coh') (map snd coh') sz [] sh' in
                  let! bc := slate_ballot ivs' zero' (fst tc) os in
                  ok (fst bc, (snd tc, snd bc))
              | _ => err EScript end) ballots in
          (* all ballot types of the bloc are sampled first (uniforms, shuffles), then the per-ballot
             Plackett-Luce orders *)
          ok (bid', (map fst bs, GUniforms (ncand * length bs) :: concat (map (fun x => fst (snd x)) bs)
                                   ++ concat (map (fun x => snd (snd x)) bs)))
      | _ => err EScript end) v in
    gen_finish pools).
Definition op_gen_slate_bt (v : val) : val :=
  eRes eGen (let! pools := dList (fun b => match b with
      | VL [bid; ivs; sizes; own; opp; coh; zero; ballots] =>
          let! bid' := dPos bid in let! ivs' := dSlateIv ivs in
          let! sz := dList (dPair dPos dNat) sizes in let! own' := dPos own in let! opp' := dPos opp in
          let! coh' := dQ coh in let! zero' := dCands zero in
          let tbl := slate_bt_pdf sz own' opp' coh' in
          let! bs := dList (fun x => match x with
              | VL [t; orders] =>
                  let! t' := dCands t in let! os := dList (dPair dPos dCands) orders in
                  if negb (existsb (fun e => type_eqb (fst e) t' && Qlt_bool 0 (snd e)) tbl) then err EScript
                  else slate_ballot ivs' zero' t' os
              | _ => err EScript end) ballots in
          ok (bid', (map fst bs, GTypeTable tbl (length bs) :: concat (map snd bs)))
      | _ => err EScript end) v in
    gen_finish pools).
Definition op_gen_ac (v : val) : val :=
  eRes eGen (let! pools := dList (fun b => match b with
      | VL [bid; ncross; bc; oc; pb; po; draws] =>
          let! bid' := dPos bid in let! nc := dNat ncross in let! bc' := dCands bc in let! oc' := dCands oc in
          let! pb' := dList dQ pb in let! po' := dList dQ po in
          let! ds := dList (dPair dCands dCands) draws in
          let! r := ac_bloc nc O bc' oc' pb' po' ds in ok (bid', r)
      | _ => err EScript end) v in
    gen_finish pools).
(* ---- Generators2: Dirichlet-table BallotSimplex (IC / IAC) and CambridgeSampler ---- *)
Definition op_gen_alpha (v : val) : val :=
  match v with
  | VL [cs; tbl; n; draws] =>
      eRes (fun x => VL [eProfile (fst x); VL (map eGcall (snd x))])
           (let! cs' := dCands cs in let! tb := dList (dPair dCands dQ) tbl in let! n' := dNat n in
            let! ds := dList dCands draws in
            alpha_profile cs' tb n' ds)
  | _ => VE EScript
  end.
Definition eCamcall (c : camcall) : val :=
  match c with
  | CamChoices tbl k => VL [VZ 8; VS (map (fun x => VL [VL (map ePos (fst x)); VQ (snd x)]) tbl); eNat k]
  | CamPL pop k => VL [VZ 1; ePop pop; eNat k]
  end.
Definition op_gen_cambridge (v : val) : val :=
  match v with
  | VL [freqs; blocs] =>
      eRes (fun x => match x with (by_bloc, agg, calls) =>
              VL [VS (map (fun bp => VL [ePos (fst bp); eProfile (snd bp)]) by_bloc); eProfile agg; VL (map eCamcall calls)] end)
        (let! fr := dList (dPair (dList dPos) dQ) freqs in
         let! pools := dList (fun b => match b with
            | VL [bid; iv; own; opp; so; sp; nb; nc; draws] =>
                let! bid' := dPos bid in let! iv' := dPI iv in let! own' := dPos own in let! opp' := dPos opp in
                let! so' := dCands so in let! sp' := dCands sp in let! nb' := dNat nb in let! nc' := dNat nc in
                let! ds := dList (dPair (dList dPos) dCands) draws in
                let! r := cam_bloc fr iv' own' opp' so' sp' nb' nc' ds in ok (bid', r)
            | _ => err EScript end) blocs in
         let! r := finish_blocs (map (fun x => (fst x, fst (snd x))) pools) in
         ok (fst r, snd r, concat (map (fun x => snd (snd x)) pools)))
  | _ => VE EScript
  end.
Definition op_gen_bt_mcmc (v : val) : val :=
  eRes eGen (let! pools := dList (fun b => match b with
      | VL [bid; iv; seed; steps] =>
          let! bid' := dPos bid in let! iv' := dPI iv in let! sd := dCands seed in
          let! st := dList (dPair dNat dQ) steps in
          let! bs := bt_mcmc_bloc iv' sd st in ok (bid', (bs, []))
      | _ => err EScript end) v in
    gen_finish pools).
Definition op_gen_slate_mcmc (v : val) : val :=
  eRes eGen (let! pools := dList (fun b => match b with
      | VL [bid; ivs; own; coh; zero; seed; steps; orders] =>
          let! bid' := dPos bid in let! ivs' := dSlateIv ivs in let! own' := dPos own in let! coh' := dQ coh in
          let! zero' := dCands zero in let! sd := dCands seed in let! st := dList (dPair dNat dQ) steps in
          let! os := dList (dList (dPair dPos dCands)) orders in
          if negb (forallb (fun s => Nat.ltb (S (fst s)) (length sd)) st) then err EScript else
          let types := slate_mcmc_run own' coh' sd st in
          if negb (Nat.eqb (length types) (length os)) then err EScript else
          let! bs := rmap (fun to => slate_ballot ivs' zero' (fst to) (snd to)) (combine types os) in
          ok (bid', (map fst bs, concat (map snd bs)))
      | _ => err EScript end) v in
    gen_finish pools).
Definition op_gen_spatial (v : val) : val :=
  match v with
  | VL [cs; dists] =>
      eRes eProfile (let! cs' := dCands cs in let! ds := dList (dList dQ) dists in
                     pool_to_profile (map (sort_by_distance cs') ds) cs')
  | _ => VE EScript
  end.

Definition dispatch (op : Z) (v : val) : val :=
  match op with
  | 1 => op_remove_cand v
  | 2 => op_remove_cand_bs v
  | 3 => op_remove_cand_ballot v
  | 4 => op_score_rankings v
  | 5 => op_fpv v
  | 6 => op_borda v
  | 7 => op_mentions v
  | 8 => op_score_to_ranking v
  | 9 => op_elect v
  | 10 => op_condense v
  | 11 => op_transfer v
  | 12 => op_add_missing v
  | 13 => op_expand_tied v
  | 14 => op_resolve_ties v
  | 20 => op_stv v
  | 21 => op_rule v
  | 22 => op_wrule v
  | 41 => op_history v
  | 50 => op_make_ballot v
  | 60 => op_remove_empty v
  | 65 => op_bloc_checks v
  | 66 => op_combine_checks v
  | 70 => op_load_csv v
  | 71 => op_load_scottish v
  | 72 => op_to_csv v
  | 80 => op_lp_sum v
  | 90 => op_mk_interval v
  | 95 => op_gen_pl v
  | 96 => op_gen_cumulative v
  | 97 => op_gen_bt v
  | 98 => op_gen_point v
  | 99 => op_gen_slate_pl v
  | 100 => op_gen_slate_bt v
  | 101 => op_gen_ac v
  | 102 => op_gen_spatial v
  | 103 => op_gen_bt_mcmc v
  | 104 => op_gen_slate_mcmc v
  | 105 => op_gen_alpha v
  | 106 => op_gen_cambridge v
  | 91 => op_combine_intervals v
  | 92 => op_bt_pdf v
  | 93 => op_calc_prob v
  | 94 => op_slate_bt_pdf v
  | 81 => op_linf v
  | 82 => op_graph v
  | 83 => op_node_weights v
  | 61 => op_dedup v
  | 62 => op_remove_noncands v
  | 51 => op_mk_profile v
  | 52 => op_profile_eq v
  | 53 => op_profile_add v
  | 30 => op_pairwise v
  | 40 => op_queries v
  | _ => VE EOther
  end%Z.
