(* Model/Loaders.v — cvr_loaders.py (load_csv, load_scottish) from the PARSED table, and
   PreferenceProfile.to_csv rows.  pandas.read_csv / csv.reader themselves are not modelled:
   the harness generates files, the implementation parses them, the model receives the table the
   generator wrote.  Executable, code-shaped, no proofs. *)
From VK Require Import Base Core.

Section WithCand.
Variable cand : Type.
Variable ceqb : cand -> cand -> bool.
Variable blank : cand.          (* the candidate standing for Python's None in {None} *)

Notation ranking := (ranking cand).
Notation ballot := (ballot cand).
Notation profile := (profile cand).

Inductive cell := CBlank | CStr (c : cand) | CNum (q : Q) | CId (i : positive).

Definition cell_eqb (a b : cell) : bool :=
  match a, b with
  | CBlank, CBlank => true
  | CStr x, CStr y => ceqb x y
  | CNum x, CNum y => Qeq_bool x y
  | CId x, CId y => Pos.eqb x y
  | _, _ => false
  end.
Fixpoint row_eqb (a b : list cell) : bool :=
  match a, b with
  | [], [] => true
  | x :: a', y :: b' => cell_eqb x y && row_eqb a' b'
  | _, _ => false
  end.

Definition nth_cell (r : list cell) (i : nat) : res cell :=
  match nth_error r i with Some c => ok c | None => err EIndex end.

Definition cell_cand (c : cell) : res cand :=
  match c with
  | CBlank => ok blank
  | CStr x => ok x
  | _ => err EOther              (* numeric / id cells are not candidate names (out of domain) *)
  end.

(* one ballot per distinct pattern of the rank columns, first-occurrence order *)
Fixpoint group_rows (acc : list (list cell * list (list cell))) (key : list cell) (row : list cell)
  : list (list cell * list (list cell)) :=
  match acc with
  | [] => [(key, [row])]
  | (k, rs) :: acc' =>
      if row_eqb k key then (k, rs ++ [row]) :: acc' else (k, rs) :: group_rows acc' key row
  end.

Definition has_dup_cells (l : list cell) : bool :=
  (fix go (l : list cell) : bool :=
     match l with
     | [] => false
     | x :: l' => existsb (cell_eqb x) l' || go l'
     end) l.

Definition load_csv (ncols : nat) (rows : list (list cell)) (rank_cols : list nat)
           (weight_col id_col : option nat) : res profile :=
  match rows with
  | [] => err EEmptyData
  | _ =>
      let! _ := match id_col with
                | None => ok tt
                | Some i =>
                    let! ids := rmap (fun r => nth_cell r i) rows in
                    if existsb (fun c => match c with CBlank => true | _ => false end) ids then err EValue
                    else if has_dup_cells ids then err EData else ok tt
                end in
      let! _ := match weight_col with
                | Some w => if Nat.ltb w ncols then ok tt else err EIndex
                | None => ok tt
                end in
      let! ranks := match rank_cols with
                    | [] => ok (filter (fun i => negb (match id_col with Some j => Nat.eqb i j | None => false end)
                                                 && negb (match weight_col with Some j => Nat.eqb i j | None => false end))
                                       (seq 0 ncols))
                    | l => if forallb (fun i => Nat.ltb i ncols) l then ok l else err EIndex
                    end in
      let! keyed := rmap (fun r => let! k := rmap (nth_cell r) ranks in ok (k, r)) rows in
      let groups := fold_left (fun acc kr => group_rows acc (fst kr) (snd kr)) keyed [] in
      let! bs := rmap (fun g =>
          let! rk' := rmap (fun c => let! x := cell_cand c in ok [x]) (fst g) in
          let! w := match weight_col with
                    | None => ok (Qnat (length (snd g)))
                    | Some wc =>
                        let! ws := rmap (fun r => let! c := nth_cell r wc in
                                                  match c with CNum q => ok q | _ => err EType end) (snd g) in
                        ok (qsum ws)
                    end in
          let! voters := match id_col with
                         | None => ok None
                         | Some i =>
                             let! ids := rmap (fun r => let! c := nth_cell r i in
                                                        match c with CId x => ok x | _ => err EOther end) (snd g) in
                             ok (Some ids)
                         end in
          ok (mkBallot rk' w [] None voters)) groups in
      mk_profile cand ceqb bs []
  end.

(* ---------- load_scottish, from the rows csv.reader produced ---------- *)
Inductive tok := TEmpty | TNum (z : Z) | TStr (s : cand) (has_candidate_word : bool).

Definition tok_has_word (t : tok) : bool :=
  match t with TStr _ b => b | _ => false end.

(* Python slice l[a:b] with negative indices *)
Definition py_norm (n : Z) (i : Z) : Z :=
  let j := if (i <? 0)%Z then (n + i)%Z else i in
  if (j <? 0)%Z then 0%Z else if (n <? j)%Z then n else j.
Definition py_slice {A} (l : list A) (a b : Z) : list A :=
  let n := Z.of_nat (length l) in
  let a' := py_norm n a in let b' := py_norm n b in
  firstn (Z.to_nat (b' - a')) (skipn (Z.to_nat a') l).

Record scot := mkScot {
  sc_profile : profile; sc_seats : tok; sc_cands : list cand;
  sc_party : list (cand * tok); sc_ward : tok }.

Definition load_scottish (raw : list (list tok)) : res scot :=
  let data := filter (fun r => nonempty r)
                     (map (filter (fun t => match t with TEmpty => false | _ => true end)) raw) in
  match data with
  | [] => err EIndex
  | first :: _ =>
      match first with
      | [cn; seats] =>
          let n := Z.of_nat (length data) in
          let! ward := match last data [] with w :: _ => ok w | [] => err EIndex end in
          let counted := length (filter (fun r => match r with t :: _ => tok_has_word t | [] => false end) data) in
          match cn with
          | TNum k =>
              if negb (Z.eqb (Z.of_nat counted) k) then err EData
              else
                let cand_lines := py_slice data (n - (k + 1)) (-1) in
                let! entries := rmap (fun line =>
                    match line with
                    | TNum _ :: _ => err EType              (* "Candidate" not in <int> *)
                    | t :: rest =>
                        if negb (tok_has_word t) then err EData
                        else match rest with
                             | TStr c _ :: party :: _ => ok (c, party)
                             | TNum _ :: _ :: _ => err EOther      (* numeric candidate name: out of domain *)
                             | _ => err EIndex
                             end
                    | [] => err EIndex
                    end) cand_lines in
                let names := map fst entries in
                let! bs := rmap (fun line =>
                    match line with
                    | TNum w :: order =>
                        let! r := rmap (fun t => match t with
                                                 | TNum i => match nth_error names (Z.to_nat (i - 1)) with
                                                             | Some c => if (1 <=? i)%Z then ok [c] else err EKey
                                                             | None => err EKey
                                                             end
                                                 | _ => err EKey
                                                 end) order in
                        ok (plain_ballot cand r (inject_Z w))
                    | _ => err EValue                       (* Fraction("abc") *)
                    end) (py_slice data 1 (n - (k + 1))) in
                let! p := mk_profile cand ceqb bs (dedup cand ceqb names) in
                ok (mkScot (condense cand ceqb p) seats (dedup cand ceqb names) entries ward)
          | _ => err EData                  (* an int never equals a str *)
          end
      | _ => err EData
      end
  end.

(* to_csv: one row per ballot: weight, ranking, scores (in ballot order) *)
Definition to_csv_rows (p : profile) : list (Q * ranking * list (cand * Q)) :=
  map (fun b => (wt b, rk b, sc b)) (ballots p).

End WithCand.
