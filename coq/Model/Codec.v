(* Model/Codec.v — instance of the model at cand := positive and the val <-> model codecs.
   Glue, not model: no proofs. *)
From VK Require Import Base Core STV Pairwise Rules PV Election.

Definition cand := positive.
Definition ceqb := Pos.eqb.

Notation cset := (Core.cset cand).
Notation ranking := (Core.ranking cand).
Notation ballot := (Core.ballot cand).
Notation profile := (Core.profile cand).
Notation scores := (Core.scores cand).
Notation estate := (STV.estate cand).

(* ---- decode ---- *)
Definition dCset (v : val) : res cset := dList dPos v.
Definition dRanking (v : val) : res ranking := dList dCset v.
Definition dScores (v : val) : res scores := dList (dPair dPos dQ) v.
Definition dBallot (v : val) : res ballot :=
  match v with
  | VL [r; w; s; i; vset] =>
      let! r' := dRanking r in
      let! w' := dQ w in
      let! s' := dScores s in
      let! i' := dOpt dPos i in
      let! v' := dOpt (dList dPos) vset in
      ok (mkBallot r' w' s' i' v')
  | _ => err EScript
  end.
Definition dProfile (v : val) : res profile :=
  match v with
  | VL [bs; cs] =>
      let! bs' := dList dBallot bs in
      let! cs' := dCset cs in
      ok (mkProfile bs' cs')
  | _ => err EScript
  end.
Definition dTb (v : val) : res (option tb_kind) :=
  match v with
  | VN => ok None
  | VZ 1 => ok (Some TBRandom)
  | VZ 2 => ok (Some TBFirstPlace)
  | VZ 3 => ok (Some TBBorda)
  | VZ _ => ok (Some TBInvalid)
  | _ => err EScript
  end.
Definition dDraw (v : val) : res (draw cand) :=
  match v with
  | VL [VZ 1; l] => let! l' := dCset l in ok (DPerm l')
  | VL [VZ 2; r] => let! r' := dRanking r in ok (DRank r')
  | VL [VZ 3; l] => let! l' := dList dRanking l in ok (DRanks l')
  | VL [VZ 4; q] => let! q' := dQ q in ok (DUnit q')
  | VL [VZ 5; c] => let! c' := dPos c in ok (DCand c')
  | VL [VZ 6; l] => let! l' := dList dNat l in ok (DIdxs l')
  | _ => err EScript
  end.
Definition dScript (v : val) : res (list (draw cand)) := dList dDraw v.

(* ---- encode ---- *)
Definition eCset (s : cset) : val := VS (map ePos s).
Definition eRanking (r : ranking) : val := VL (map eCset r).
Definition eScores (d : scores) : val := VS (map (fun p => VL [ePos (fst p); VQ (snd p)]) d).
Definition eBallot (b : ballot) : val :=
  VL [eRanking (rk b); VQ (wt b); eScores (sc b); eOpt ePos (bid b);
      eOpt (fun l => VS (map ePos l)) (vs b)].
Definition eBallots (bs : list ballot) : val := VS (map eBallot bs).      (* a multiset *)
Definition eBallotsOrdered (bs : list ballot) : val := VL (map eBallot bs).
Definition eProfile (p : profile) : val := VL [eBallots (ballots p); eCset (cands p)].
Definition eState (s : estate) : val :=
  VL [VZ (rnd s); eRanking (remaining s); eRanking (elected s); eRanking (eliminated s);
      VS (map (fun t => VL [eCset (fst t); eRanking (snd t)]) (tiebreaks s));
      eScores (escores s)].
Definition eStates (l : list estate) : val := VL (map eState l).
Definition eRkQ (p : ranking * Q) : val := VL [eRanking (fst p); VQ (snd p)].
Definition eCall (c : call cand) : val :=
  match c with
  | CSample pop => VL [VZ 1; eCset pop]
  | CChoices pop => VL [VZ 2; VS (map eRkQ pop)]
  | CSampleBallots pop k => VL [VZ 3; VS (map eRkQ pop); VZ k]
  | CUniform => VL [VZ 4]
  | CNpChoice pop => VL [VZ 5; eScores pop]
  | CShuffle n => VL [VZ 6; eNat n]
  end.

(* run an M computation on a decoded script: [result; log of primitive calls; unused draws] *)
Definition runM {A} (f : A -> val) (x : M cand A) (script : list (draw cand)) : val :=
  match x (mkM script []) with
  | inl (a, s) => VL [f a; VL (map eCall (rev (lg s))); eNat (length (scr s))]
  | inr e => VE e
  end.

Definition dStvCfg (v : val) : res stv_cfg :=
  match v with
  | VL [m; q; sim; tr; tb] =>
      let! m' := dZ m in
      let! q' := dZ q in
      let! sim' := dB sim in
      let! tr' := dZ tr in
      let! tb' := dTb tb in
      ok (mkStv m'
            (if Z.eqb q' 1 then QDroop else if Z.eqb q' 2 then QHare else QBad)
            sim'
            (if Z.eqb tr' 1 then TFractional else if Z.eqb tr' 2 then TRandom else TFullWeight)
            tb')
  | _ => err EScript
  end.

Definition dRule (v : val) : res rule :=
  match v with
  | VL [VZ 1; cfg] => let! c := dStvCfg cfg in ok (RSTV c)
  | VL [VZ 2; m; tb] => let! m' := dZ m in let! tb' := dTb tb in ok (RPlurality m' tb')
  | VL [VZ 3; m; vec; tb] =>
      let! m' := dZ m in let! v' := dOpt (dList dQ) vec in let! tb' := dTb tb in ok (RBorda m' v' tb')
  | VL [VZ 4; m; L; k; tb] =>
      let! m' := dZ m in let! L' := dQ L in let! k' := dOpt dQ k in let! tb' := dTb tb in
      ok (RRating m' L' k' tb')
  | VL [VZ 5; m; k; tb] =>
      let! m' := dZ m in let! k' := dQ k in let! tb' := dTb tb in ok (RLimited m' k' tb')
  | VL [VZ 6; m; k; tb] =>
      let! m' := dZ m in let! k' := dOpt dZ k in let! tb' := dTb tb in ok (RBloc m' k' tb')
  | VL [VZ 7] => ok RDominating
  | VL [VZ 8; m] => let! m' := dZ m in ok (RCondoBorda m')
  | VL [VZ 9; tb] => let! tb' := dTb tb in ok (RTopTwo tb')
  | VL [VZ 10; m1; m2; cfg] =>
      let! a := dZ m1 in let! b := dZ m2 in let! c := dStvCfg cfg in ok (RAlaska a b c)
  | VL [VZ 11; m] => let! m' := dZ m in ok (RRandomDictator m')
  | VL [VZ 12; m] => let! m' := dZ m in ok (RBoosted m')
  | _ => err EScript
  end.

Definition ePwc (g : pwc cand) : val :=
  VL [eCset (pw_cands g);
      VS (map (fun e => VL [ePos (fst (fst e)); ePos (snd (fst e)); VQ (snd e)]) (pw_dict g));
      eRanking (pw_tiers g)].

Definition dWRule (v : val) : res (wrule) :=
  match v with
  | VL [VZ 101; q; tb] =>
      let! q' := dZ q in let! tb' := dTb tb in
      ok (WIRV (if Z.eqb q' 1 then QDroop else if Z.eqb q' 2 then QHare else QBad) tb')
  | VL [VZ 102; m; q; sim; tb] =>
      let! m' := dZ m in let! q' := dZ q in let! sim' := dB sim in let! tb' := dTb tb in
      ok (WSeqRCV m' (if Z.eqb q' 1 then QDroop else if Z.eqb q' 2 then QHare else QBad) sim' tb')
  | VL [VZ 103; m; tb] => let! m' := dZ m in let! tb' := dTb tb in ok (WSNTV m' tb')
  | VL [VZ 104; m; L; tb] =>
      let! m' := dZ m in let! L' := dQ L in let! tb' := dTb tb in ok (WRating m' L' tb')
  | VL [VZ 105; m; tb] => let! m' := dZ m in let! tb' := dTb tb in ok (WApproval m' tb')
  | VL [VZ 106; m; tb] => let! m' := dZ m in let! tb' := dTb tb in ok (WCumulative m' tb')
  | VL [VZ 107; m; tb] => let! m' := dZ m in let! tb' := dTb tb in ok (WPV m' tb')
  | _ => let! r := dRule v in ok (WBase r)
  end.
