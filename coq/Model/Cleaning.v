(* Model/Cleaning.v — cleaning.py: remove_empty_ballots, clean_profile / merge_ballots,
   deduplicate_profiles, remove_noncands.  These act on WHOLE positions of a ranking.
   Executable, code-shaped, no proofs. *)
From VK Require Import Base Core.

Section WithCand.
Variable cand : Type.
Variable ceqb : cand -> cand -> bool.

Notation cset := (cset cand).
Notation ranking := (ranking cand).
Notation ballot := (ballot cand).
Notation profile := (profile cand).

Definition remove_empty_ballots (p : profile) (keep_candidates : bool) : res profile :=
  mk_profile cand ceqb (filter (fun b => nonempty (rk b)) (ballots p))
             (if keep_candidates then cands p else []).

(* itertools.groupby(cleaned, key=ballot.ranking): maximal runs of ADJACENT equal rankings *)
Fixpoint group_adjacent (bs : list ballot) : list (list ballot) :=
  match bs with
  | [] => []
  | b :: rest =>
      match group_adjacent rest with
      | (b' :: g) :: gs =>
          if ranking_eqb cand ceqb (rk b) (rk b') then (b :: b' :: g) :: gs
          else [b] :: (b' :: g) :: gs
      | gs => [b] :: gs
      end
  end.

Fixpoint union_pos (a b : list positive) : list positive :=
  match b with
  | [] => a
  | x :: b' => if existsb (Pos.eqb x) a then union_pos a b' else union_pos (a ++ [x]) b'
  end.

(* merge_ballots *)
Definition merge_ballots (g : list ballot) : res ballot :=
  match g with
  | [] => err EIndex
  | b0 :: _ =>
      let sets := concat (map (fun b => match vs b with Some (x :: l) => [x :: l] | _ => [] end) g) in
      let voters := match sets with
                    | [] => None
                    | s :: rest => Some (fold_left union_pos rest s)
                    end in
      ok (mkBallot (rk b0) (qsum (map wt g)) [] None voters)
  end.

Definition merge_adjacent (bs : list ballot) : res profile :=
  let! merged := rmap merge_ballots (group_adjacent bs) in
  mk_profile cand ceqb merged [].

(* keep the first occurrence of every position *)
Fixpoint dedup_positions (seen : ranking) (r : ranking) : ranking :=
  match r with
  | [] => []
  | s :: r' =>
      if existsb (fun t => cset_eqb cand ceqb t s) seen then dedup_positions seen r'
      else s :: dedup_positions (seen ++ [s]) r'
  end.

Definition deduplicate_ballot (b : ballot) : res ballot :=
  match rk b with
  | [] => err EType
  | r => ok (mkBallot (dedup_positions [] r) (wt b) [] (bid b) (vs b))
  end.

Definition deduplicate_profiles (p : profile) : res profile :=
  let! bs := rmap deduplicate_ballot (ballots p) in merge_adjacent bs.

(* remove_noncands: drop every position that is exactly {x} for a listed non-candidate x, and
   repeated positions *)
Definition remove_noncands_ballot (non : cset) (b : ballot) : res ballot :=
  match rk b with
  | [] => err EType
  | r =>
      let kept := filter (fun s => negb (existsb (fun x => cset_eqb cand ceqb s [x]) non)) r in
      ok (mkBallot (dedup_positions [] kept) (wt b) [] (bid b) (vs b))
  end.

Definition remove_noncands (p : profile) (non : cset) : res profile :=
  let! bs := rmap (remove_noncands_ballot non) (ballots p) in
  merge_adjacent (filter (fun b => nonempty (rk b)) bs).

End WithCand.
