(* Model/Generators2.v — ballot_generator.py, the three generators Generators.v leaves out:
   BallotSimplex with a Dirichlet-drawn table (ImpartialCulture, ImpartialAnonymousCulture) and
   CambridgeSampler.  Same factoring as Generators.v: the functions take the recorded results of
   the primitives, check them against what the primitive could have returned (EScript otherwise)
   and return the ballots together with the primitive calls they correspond to.
   Executable, code-shaped, no proofs. *)
From VK Require Import Base Core GenValidation PrefInterval Generators.

(* ---------- BallotSimplex(alpha): the table is the Dirichlet draw laid over
   itertools.permutations(candidates) ---------- *)
Fixpoint rankings_nodup (l : list (list pcand)) : bool :=
  match l with
  | [] => true
  | r :: l' => negb (existsb (list_peqb r) l') && rankings_nodup l'
  end.
(* [tbl] lists every permutation of [cands] exactly once *)
Definition full_table (cands : list pcand) (tbl : list (list pcand * Q)) : bool :=
  Nat.eqb (length tbl) (fact (length cands)) &&
  forallb (fun e => valid_sample cands (length cands) (fst e)) tbl &&
  rankings_nodup (map fst tbl).
Definition alpha_profile (cands : list pcand) (tbl : list (list pcand * Q)) (n : nat)
           (draws : list (list pcand)) : res (gprofile * list gcall) :=
  if negb (pnodup cands) then err EScript
  else if negb (full_table cands tbl) then err EScript
  else
    let! r := table_bloc tbl [] n draws in
    let! p := pool_to_profile draws cands in
    ok (p, snd r).

(* ---------- CambridgeSampler ---------- *)
(* historical ballot types are sequences of bloc labels; frequencies are counts *)
Definition btype := list bloc.
Definition btype_eqb (a b : btype) : bool := if list_eq_dec Pos.eq_dec a b then true else false.
Definition starts_with (l : bloc) (t : btype) : bool :=
  match t with x :: _ => Pos.eqb x l | [] => false end.

Inductive camcall :=
| CamChoices (tbl : list (btype * Q)) (k : nat)   (* random.choices(types, weights=probs, k=k) *)
| CamPL (pop : list (pcand * Q)) (k : nat).       (* np.random.choice(cands, k, p=p, replace=False) *)

(* prob_ballot_given_X_first: the types that start with [l], each with freq / (sum of those freqs) *)
Definition cond_table (freqs : list (btype * Q)) (l : bloc) : list (btype * Q) :=
  let sel := filter (fun e => starts_with l (fst e)) freqs in
  let tot := qsum (map snd sel) in
  map (fun e => (fst e, snd e / tot)) sel.

(* fill the slots of a historical type with the voter's own / opposing candidates in drawn order;
   a slot whose slate is used up is skipped; every label other than the voter's own historical
   label counts as the opposing bloc (as coded) *)
Fixpoint cam_fill (own : bloc) (t : btype) (ob oo : list pcand) : list pcand :=
  match t with
  | [] => []
  | b :: t' =>
      if Pos.eqb b own then
        match ob with c :: ob' => c :: cam_fill own t' ob' oo | [] => cam_fill own t' [] oo end
      else
        match oo with c :: oo' => c :: cam_fill own t' ob oo' | [] => cam_fill own t' ob [] end
  end.

(* one voter: historical type [t] (already drawn) and a Plackett-Luce order of ALL supported
   candidates of the voter's combined interval *)
Definition cam_ballot (iv : pinterval) (own : bloc) (slate_own slate_opp : list pcand)
           (d : btype * list pcand) : res (gballot * list camcall) :=
  let k := length (pi_int iv) in
  if negb (valid_sample (map fst (pi_int iv)) k (snd d)) then err EScript
  else
    let ob := filter (fun c => pmem c slate_own) (snd d) in
    let oo := filter (fun c => pmem c slate_opp) (snd d) in
    ok (unit_ballot (singletons pcand (cam_fill own (fst d) ob oo)), [CamPL (pi_int iv) k]).

Definition cam_collect (l : list (res (gballot * list camcall))) : res (list gballot * list camcall) :=
  let! xs := rmap (fun x => x) l in ok (map fst xs, concat (map snd xs)).

(* one bloc: [n_bloc] voters whose type starts with the own historical label, then [n_cross] voters
   whose type starts with the opposing one *)
Definition cam_bloc (freqs : list (btype * Q)) (iv : pinterval) (own opp : bloc)
           (slate_own slate_opp : list pcand) (n_bloc n_cross : nat)
           (draws : list (btype * list pcand)) : res (list gballot * list camcall) :=
  let t_own := cond_table freqs own in
  let t_opp := cond_table freqs opp in
  let in_tbl (tbl : list (btype * Q)) (t : btype) :=
      existsb (fun e => btype_eqb (fst e) t && Qlt_bool 0 (snd e)) tbl in
  if negb (Nat.eqb (length draws) (n_bloc + n_cross)) then err EScript
  else if negb (forallb (fun d => in_tbl t_own (fst d)) (firstn n_bloc draws)) then err EScript
  else if negb (forallb (fun d => in_tbl t_opp (fst d)) (skipn n_bloc draws)) then err EScript
  else
    let! r := cam_collect (map (cam_ballot iv own slate_own slate_opp) draws) in
    ok (fst r, CamChoices t_own n_bloc :: CamChoices t_opp n_cross :: snd r).
