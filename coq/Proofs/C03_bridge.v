(* Proofs/C03_bridge.v — C03, three bridges found missing by an audit:
   (1) the law theorems of Proofs/C03_law.v speak about the Spec object [usample]; here the model's
       [rand_transfer] is shown to BE the function [transfer_of_positions] of the selected unit
       positions (Spec/TransferLawSpec.v), so that the law of its output is the push-forward
       [law_rand_transfer], whose expected weights are those of [rand_expected_weight];
   (2) per-output-ballot statements for the random and the full-weight transfer, in the style of
       [frac_no_winner];
   (3) the per-round losses of [round_accounting] telescoped over a whole run. *)
From Coq Require Import List ZArith QArith Bool Permutation Lia Lqa Setoid Morphisms.
From VK Require Import Base Core STV Rules Laws EditSpec.
From VK.Spec Require Import STVSpec LawSpec SampleSpec ReplaySpec STVRunSpec TransferLawSpec.
From VK.Proofs Require Import Lib_sets Lib_rk Dist Lib_condense12 C12_edit C09_replay
  C03_transfer C03_law C03_trace.
Import ListNotations.

(* ====================== generic list / sum facts ====================== *)

Lemma Forall2_eq_of : forall {A} (R : A -> A -> Prop) (l l' : list A),
  Forall2 R l l' -> (forall x y, In x l -> In y l' -> R x y -> x = y) -> l = l'.
Proof.
  intros A R l l' H. induction H as [|x y l l' Hxy _ IH]; intros Heq; [reflexivity|].
  f_equal.
  - apply Heq; [left; reflexivity|left; reflexivity|exact Hxy].
  - apply IH. intros a b Ha Hb. apply Heq; right; assumption.
Qed.

Lemma Forall2_same_length : forall {A B} (R : A -> B -> Prop) l l',
  Forall2 R l l' -> length l = length l'.
Proof. intros A B R l l' H. induction H; cbn [length]; congruence. Qed.

Lemma telescope : forall (f : nat -> Q) n,
  qsum (map (fun r => f r - f (S r)) (seq 0 n)) == f 0%nat - f n.
Proof.
  intros f n. induction n as [|n IH].
  - cbn [seq map]. rewrite qsum_nil. ring.
  - rewrite seq_S, map_app, qsum_app, IH. cbn [plus map]. rewrite qsum_cons, qsum_nil. ring.
Qed.

Lemma last_nth_pred : forall {A} (l : list A) d, last l d = nth (length l - 1) l d.
Proof.
  intros A l d. induction l as [|a l IH]; [reflexivity|].
  destruct l as [|b l]; [reflexivity|].
  change (last (a :: b :: l) d) with (last (b :: l) d). rewrite IH.
  replace (length (a :: b :: l) - 1)%nat with (S (length (b :: l) - 1)) by (cbn [length]; lia).
  reflexivity.
Qed.

Lemma qsum_as_nth : forall l : list Q, qsum l == qsum (map (fun r => nth r l 0) (seq 0 (length l))).
Proof. intros l. rewrite (map_nth_seq 0 l). reflexivity. Qed.

(* a finite choice of two rationals per index *)
Lemma list_choice2 : forall (P : nat -> Q -> Q -> Prop) n,
  (forall r, (r < n)%nat -> exists a b, P r a b) ->
  exists la lb : list Q, length la = n /\ length lb = n /\
    forall r, (r < n)%nat -> P r (nth r la 0) (nth r lb 0).
Proof.
  intros P n. induction n as [|n IH]; intros H.
  - exists [], []. split; [reflexivity|]. split; [reflexivity|]. intros r Hr. lia.
  - destruct IH as (la & lb & Ha & Hb & Hall); [intros r Hr; apply H; lia|].
    destruct (H n ltac:(lia)) as (a & b & Hab).
    exists (la ++ [a]), (lb ++ [b]).
    split; [rewrite app_length, Ha; cbn [length]; lia|].
    split; [rewrite app_length, Hb; cbn [length]; lia|].
    intros r Hr. destruct (Nat.eq_dec r n) as [->|Hne].
    + rewrite !app_nth2 by lia. rewrite Ha, Hb, Nat.sub_diag. exact Hab.
    + rewrite !app_nth1 by lia. apply Hall. lia.
Qed.

Lemma Qtrunc_pos_inv : forall q, (0 < Qtrunc q)%Z -> 0 < q.
Proof.
  intros [a b] H. unfold Qtrunc in H. cbn [Qnum Qden] in H.
  unfold Qlt. cbn [Qnum Qden]. rewrite Z.mul_1_r, Z.mul_0_l.
  destruct (Z.lt_ge_cases 0 a) as [Hpos|Hneg]; [exact Hpos|exfalso].
  assert (E : Z.quot a (Zpos b) = (- Z.quot (- a) (Zpos b))%Z).
  { rewrite Z.quot_opp_l by lia. lia. }
  pose proof (Z.quot_pos (- a) (Zpos b) ltac:(lia) ltac:(lia)). lia.
Qed.

(* ====================== distributions ====================== *)

Lemma dbind_dret_Forall2 : forall {A B C} (d : dist A) (g : A -> B) (h : B -> C),
  Forall2 (fun x y => fst x = h (fst y) /\ snd x == snd y)
          (dbind d (fun a => dret (h (g a)))) (dbind d (fun a => dret (g a))).
Proof.
  intros A B C d g h. induction d as [|aw d IH]; [constructor|].
  rewrite !dbind_cons. unfold dret, dscale. cbn [map app fst snd].
  constructor; [split; reflexivity|exact IH].
Qed.

Lemma dbind_dret_Forall2_src : forall {A C} (d : dist A) (h : A -> C),
  Forall2 (fun x y => fst x = h (fst y) /\ snd x == snd y) (dbind d (fun a => dret (h a))) d.
Proof.
  intros A C d h. induction d as [|aw d IH]; [constructor|].
  rewrite dbind_cons. unfold dret, dscale. cbn [map app fst snd].
  constructor; [split; [reflexivity|cbn [fst snd]; apply Qmult_1_r]|exact IH].
Qed.

Section WithCand.
Variable cand : Type.
Variable ceqb : cand -> cand -> bool.
Hypothesis ceqb_spec : forall a b, reflect (a = b) (ceqb a b).

Notation cset := (cset cand).
Notation ranking := (ranking cand).
Notation ballot := (ballot cand).
Notation profile := (profile cand).
Notation estate := (estate cand).
Notation mstate := (mstate cand).
Notation ranking_eqb := (ranking_eqb cand ceqb).
Notation flat := (flat cand).
Notation strip := (strip cand ceqb).
Notation first_is := (first_is cand ceqb).
Notation pos_wt := (pos_wt cand).
Notation total_wt := (total_wt cand).
Notation wt_where := (wt_where cand).
Notation wtof_rk := (wtof_rk cand ceqb).
Notation maps_to := (maps_to cand ceqb).
Notation score_free := (score_free cand).
Notation all_pos := (all_pos cand).
Notation keep_ballot := (keep_ballot cand).
Notation rand_transfer := (rand_transfer cand ceqb).
Notation full_transfer := (full_transfer cand ceqb).
Notation count_rk := (count_rk cand ceqb).
Notation units_of := (units_of cand ceqb).
Notation valid_ballot_sample := (valid_ballot_sample cand ceqb).
Notation units := (units cand).
Notation law_sample_ballots := (law_sample_ballots cand).
Notation untied := (untied cand).
Notation transfer_pop := (transfer_pop cand ceqb).
Notation transfer_units := (transfer_units cand ceqb).
Notation transfer_of_sample := (transfer_of_sample cand ceqb).
Notation transfer_of_positions := (transfer_of_positions cand ceqb).
Notation law_rand_transfer := (law_rand_transfer cand ceqb).
Notation transferable := (transferable cand ceqb).
Notation rt_pop := (rt_pop cand ceqb).
Notation rt_out := (rt_out cand ceqb).
Notation rt_others := (rt_others cand ceqb).

(* the Spec vocabulary is the proof vocabulary of Proofs/C03_transfer.v *)
Lemma transfer_pop_eq : forall w bs, transfer_pop w bs = rt_pop w bs.
Proof. reflexivity. Qed.
Lemma transfer_of_sample_eq : forall w bs l, transfer_of_sample w bs l = rt_out w bs l.
Proof. reflexivity. Qed.

(* ====================== untied rankings ====================== *)

Lemma untied_eqb_eq : forall r r' : ranking,
  ranking_eqb r r' = true -> untied r -> untied r' -> r = r'.
Proof.
  intros r r' H. apply (Lib_rk.ranking_eqb_equiv cand ceqb ceqb_spec) in H.
  unfold EditSpec.rk_equiv in H. induction H as [|g g' r r' Hg _ IH]; intros Hu Hu'; [reflexivity|].
  inversion Hu as [|x1 l1 Hg1 Hr1]; subst. inversion Hu' as [|x2 l2 Hg2 Hr2]; subst.
  f_equal; [|apply IH; assumption].
  destruct g as [|a [|a' g]]; try discriminate Hg1.
  destruct g' as [|b [|b' g']]; try discriminate Hg2.
  destruct (proj1 (Hg a) (or_introl eq_refl)) as [E|[]]. rewrite E. reflexivity.
Qed.

Lemma untied_strip : forall W (r : ranking), untied r -> untied (strip W r).
Proof.
  intros W r H. unfold TransferLawSpec.untied, Core.strip in *.
  induction H as [|g r Hg _ IH]; cbn [map filter]; [constructor|].
  destruct g as [|a [|a' g]]; try discriminate Hg. cbn [filter].
  destruct (negb (memb cand ceqb a W)); cbn [nonempty]; [constructor; [reflexivity|exact IH]|exact IH].
Qed.

Lemma in_units : forall (pop : list (ranking * Q)) r, In r (units pop) ->
  exists p, In p pop /\ r = fst p /\ (0 < Qtrunc (snd p))%Z.
Proof.
  intros pop r H. unfold SampleSpec.units in H. apply in_concat in H.
  destruct H as (x & Hx & Hr). apply in_map_iff in Hx. destruct Hx as (p & <- & Hp).
  exists p. split; [exact Hp|]. split; [apply (repeat_spec _ _ _ Hr)|].
  destruct (Z.to_nat (Qtrunc (snd p))) eqn:E; [destruct Hr|]. lia.
Qed.

(* every unit ballot is the continuation of a transferable ballot of the winner, of positive
   weight *)
Lemma in_transfer_units : forall w bs r, In r (transfer_units w bs) ->
  exists b, In b bs /\ first_is w b = true /\ r = strip [w] (rk b) /\ r <> [] /\ 0 < wt b.
Proof.
  intros w bs r H. apply in_units in H. destruct H as (p & Hp & -> & Hpos).
  unfold TransferLawSpec.transfer_pop in Hp. apply in_map_iff in Hp. destruct Hp as (b & <- & Hb).
  apply filter_In in Hb. destruct Hb as [Hb Ht]. apply andb_true_iff in Ht. destruct Ht as [Hf Hn].
  cbn [fst snd] in *. exists b. split; [exact Hb|]. split; [exact Hf|]. split; [reflexivity|].
  split; [apply nonempty_true_iff; exact Hn|apply Qtrunc_pos_inv; exact Hpos].
Qed.

Lemma in_pick : forall (us : list ranking) idxs r,
  (forall i, In i idxs -> (i < length us)%nat) -> In r (pick [] us idxs) -> In r us.
Proof.
  intros us idxs r Hr H. unfold pick in H. apply in_map_iff in H. destruct H as (i & <- & Hi).
  apply nth_In. apply Hr. exact Hi.
Qed.

Lemma ranking_eqb_compat_r : forall x r r' : ranking,
  ranking_eqb r r' = true -> ranking_eqb x r = ranking_eqb x r'.
Proof.
  intros x r r' H. destruct (ranking_eqb x r') eqn:E'.
  - rewrite (Lib_rk.ranking_eqb_sym cand ceqb ceqb_spec) in H.
    apply (Lib_sets.ranking_eqb_trans cand ceqb ceqb_spec x r' r E' H).
  - destruct (ranking_eqb x r) eqn:E; [|reflexivity].
    rewrite (Lib_sets.ranking_eqb_trans cand ceqb ceqb_spec x r r' E H) in E'. discriminate.
Qed.

Lemma count_rk_Forall2 : forall x (l l' : list ranking),
  Forall2 (fun r r' => ranking_eqb r r' = true) l l' -> count_rk x l = count_rk x l'.
Proof.
  intros x l l' H. induction H as [|r r' l l' Hr _ IH]; [reflexivity|].
  cbn [STV.count_rk]. rewrite IH, (ranking_eqb_compat_r x r r' Hr). reflexivity.
Qed.

(* ====================== (1) the bridge ====================== *)

(* soundness: whatever the script provides, a successful call returns [transfer_of_sample] of the
   draw, and the draw is — position by position up to the order inside a tied position — a
   selection of distinct unit positions; the output then carries the same weights as
   [transfer_of_positions], and IS [transfer_of_positions] when no ranking has a tied position *)
Theorem rand_transfer_bridge : forall w fpv (bs : list ballot) t (s s' : mstate) out,
  rand_transfer w fpv bs t s = inl (out, s') ->
  exists l idxs,
    scr s = DRanks l :: scr s' /\
    out = transfer_of_sample w bs l /\
    NoDup idxs /\ (forall i, In i idxs -> (i < length (transfer_units w bs))%nat) /\
    Z.of_nat (length idxs) = (Qtrunc fpv - Qtrunc t)%Z /\
    Forall2 (fun r r' => ranking_eqb r r' = true) l (pick [] (transfer_units w bs) idxs) /\
    (forall r', nonempty r' = true ->
       wtof_rk r' out == wtof_rk r' (transfer_of_positions w bs idxs)) /\
    (Forall untied l -> Forall (fun b => untied (rk b)) bs ->
       l = pick [] (transfer_units w bs) idxs /\ out = transfer_of_positions w bs idxs).
Proof.
  intros w fpv bs t s s' out H. apply rand_ok_inv in H.
  destruct H as (Hgood & Hk & l & Hs & Hlg & Hv & ->).
  destruct (sample_sound_idx cand ceqb ceqb_spec _ _ _ Hv) as (Hlen & idxs & Hnd & Hr & HF).
  exists l, idxs. split; [exact Hs|]. split; [reflexivity|]. split; [exact Hnd|].
  split; [exact Hr|]. split.
  { rewrite <- Hlen, (Forall2_same_length _ _ _ HF), pick_length. reflexivity. }
  split; [exact HF|]. split.
  - intros r' Hne. unfold TransferLawSpec.transfer_of_positions.
    change (wtof_rk r' (rt_out w bs l) == wtof_rk r' (rt_out w bs (pick [] (transfer_units w bs) idxs))).
    rewrite !(rt_out_wtof cand ceqb ceqb_spec) by exact Hne.
    rewrite (count_rk_Forall2 r' _ _ HF). reflexivity.
  - intros Hul Hub.
    assert (E : l = pick [] (transfer_units w bs) idxs).
    { apply (Forall2_eq_of _ _ _ HF). intros x y Hx Hy Hxy. apply (untied_eqb_eq x y Hxy).
      - rewrite Forall_forall in Hul. apply Hul. exact Hx.
      - apply (in_pick _ _ _ Hr) in Hy. apply in_transfer_units in Hy.
        destruct Hy as (b & Hb & _ & -> & _). apply untied_strip.
        rewrite Forall_forall in Hub. apply Hub. exact Hb. }
    split; [exact E|]. unfold TransferLawSpec.transfer_of_positions. rewrite <- E. reflexivity.
Qed.

(* completeness: EVERY selection of distinct unit positions of the right size is a draw on which
   the call succeeds, and it returns [transfer_of_positions] of the selection *)
Theorem rand_transfer_bridge_positions : forall w fpv (bs : list ballot) t (s : mstate) rest idxs,
  (forall b, In b bs -> is_integral (wt b) = true /\ rk b <> []) ->
  (forall b, In b bs -> first_is w b && nonempty (strip [w] (rk b)) = true -> 0 <= wt b) ->
  NoDup idxs -> (forall i, In i idxs -> (i < length (transfer_units w bs))%nat) ->
  Z.of_nat (length idxs) = (Qtrunc fpv - Qtrunc t)%Z ->
  scr s = DRanks (pick [] (transfer_units w bs) idxs) :: rest ->
  rand_transfer w fpv bs t s =
  inl (transfer_of_positions w bs idxs,
       mkM rest (CSampleBallots (transfer_pop w bs) (Qtrunc fpv - Qtrunc t) :: lg s)).
Proof.
  intros w fpv bs t s rest idxs Hgood Hnn Hnd Hr Hlen Hs.
  destruct (pick_submultiset [] (transfer_units w bs) idxs Hnd Hr) as [extra HP].
  apply (rand_transfer_complete cand ceqb w fpv bs t s _ rest extra Hgood Hnn Hs).
  - rewrite pick_length. exact Hlen.
  - exact HP.
Qed.

(* the law of the output is the push-forward, by [transfer_of_sample], of the law of the sample,
   and by [transfer_of_positions] of the law of the positions *)
Theorem law_rand_transfer_pushforward : forall w (bs : list ballot) k,
  Forall2 (fun x y => fst x = transfer_of_sample w bs (fst y) /\ snd x == snd y)
          (law_rand_transfer w bs k) (law_sample_ballots (transfer_pop w bs) k) /\
  Forall2 (fun x y => fst x = transfer_of_positions w bs (fst y) /\ snd x == snd y)
          (law_rand_transfer w bs k) (usample (length (transfer_units w bs)) k) /\
  (forall f : list ballot -> Q,
     expect f (law_rand_transfer w bs k) ==
     expect (fun l => f (transfer_of_sample w bs l)) (law_sample_ballots (transfer_pop w bs) k)) /\
  mass (law_rand_transfer w bs k) == 1.
Proof.
  intros w bs k. split; [|split; [|split]].
  - exact (dbind_dret_Forall2 (usample (length (transfer_units w bs)) k)
             (pick [] (transfer_units w bs)) (transfer_of_sample w bs)).
  - exact (dbind_dret_Forall2_src (usample (length (transfer_units w bs)) k)
             (transfer_of_positions w bs)).
  - intros f. unfold TransferLawSpec.law_rand_transfer, SampleSpec.law_sample_ballots.
    fold (transfer_units w bs). rewrite !expect_dbind_dret. reflexivity.
  - unfold TransferLawSpec.law_rand_transfer. rewrite mass_dbind_one; [apply usample_mass|].
    intros a q _. apply mass_dret.
Qed.

Section Law.
Variables (w : cand) (fpv : Q) (bs : list ballot) (t : Q).
Hypothesis Hgood : forall b, In b bs -> is_integral (wt b) = true /\ rk b <> [].
Hypothesis Hnn : forall b, In b bs -> first_is w b && nonempty (strip [w] (rk b)) = true -> 0 <= wt b.
Hypothesis Hk0 : (0 <= Qtrunc fpv - Qtrunc t)%Z.
Hypothesis HkT : inject_Z (Qtrunc fpv - Qtrunc t) <=
                 wt_where (fun b => first_is w b && nonempty (strip [w] (rk b))) bs.

Lemma sample_size_ok :
  Z.of_nat (Z.to_nat (Qtrunc fpv - Qtrunc t)) = (Qtrunc fpv - Qtrunc t)%Z /\
  (Z.to_nat (Qtrunc fpv - Qtrunc t) <= length (transfer_units w bs))%nat.
Proof.
  split; [apply Z2Nat.id; exact Hk0|].
  pose proof (units_length_weight cand ceqb w bs Hgood Hnn) as HT.
  assert (HkT' : inject_Z (Qtrunc fpv - Qtrunc t) <= Qnat (length (transfer_units w bs))).
  { unfold TransferLawSpec.transfer_units. rewrite transfer_pop_eq, HT. exact HkT. }
  unfold Qnat in HkT'. rewrite <- Zle_Qle in HkT'. lia.
Qed.

(* every outcome of the law is the model's output on the corresponding draw *)
Theorem law_rand_transfer_support : forall out q,
  In (out, q) (law_rand_transfer w bs (Z.to_nat (Qtrunc fpv - Qtrunc t))) ->
  0 < q /\
  exists idxs, NoDup idxs /\ (forall i, In i idxs -> (i < length (transfer_units w bs))%nat) /\
    Z.of_nat (length idxs) = (Qtrunc fpv - Qtrunc t)%Z /\
    out = transfer_of_positions w bs idxs /\
    rand_transfer w fpv bs t (mkM [DRanks (pick [] (transfer_units w bs) idxs)] []) =
    inl (out, mkM [] [CSampleBallots (transfer_pop w bs) (Qtrunc fpv - Qtrunc t)]).
Proof.
  intros out q Hin. destruct sample_size_ok as [Ek Hk].
  unfold TransferLawSpec.law_rand_transfer in Hin. apply dbind_support in Hin.
  destruct Hin as (idxs & wi & q' & Hi & Ho & ->). destruct Ho as [E|[]]. injection E as <- <-.
  destruct (usample_support _ _ _ _ Hi) as (Hnd & Hlen & Hr & Hw).
  rewrite Nat.min_l in Hlen by exact Hk. split; [lra|].
  exists idxs. split; [exact Hnd|]. split; [exact Hr|].
  assert (Hl : Z.of_nat (length idxs) = (Qtrunc fpv - Qtrunc t)%Z) by (rewrite Hlen; exact Ek).
  split; [exact Hl|]. split; [reflexivity|].
  exact (rand_transfer_bridge_positions w fpv bs t (mkM [DRanks _] []) [] idxs
           Hgood Hnn Hnd Hr Hl eq_refl).
Qed.

(* the expected weight of a continuation in the MODEL's output, the selected positions following
   [usample] *)
Theorem rand_expected_weight_model : forall r', nonempty r' = true ->
  expect (fun out => wtof_rk r' out) (law_rand_transfer w bs (Z.to_nat (Qtrunc fpv - Qtrunc t))) ==
  wt_where (fun b => first_is w b && maps_to [w] r' b) bs *
    (inject_Z (Qtrunc fpv - Qtrunc t) /
     wt_where (fun b => first_is w b && nonempty (strip [w] (rk b))) bs) +
  wt_where (fun b => negb (first_is w b) && maps_to [w] r' b && pos_wt b) bs.
Proof.
  intros r' Hne. destruct sample_size_ok as [Ek Hk].
  destruct (law_rand_transfer_pushforward w bs (Z.to_nat (Qtrunc fpv - Qtrunc t)))
    as (_ & _ & Hpush & _).
  rewrite (Hpush (fun out => wtof_rk r' out)).
  rewrite <- (rand_expected_weight cand ceqb ceqb_spec w fpv bs t r' Hgood Hnn Hk0 HkT Hne).
  rewrite transfer_pop_eq. apply expect_ext_in. intros l q Hin.
  assert (Hpn : nonneg_pop cand (rt_pop w bs)) by (apply (rt_pop_nonneg cand ceqb); exact Hnn).
  destruct (law_support_valid cand ceqb _ _ l q Hpn Hk Hin) as [Hv _]. rewrite Ek in Hv.
  rewrite (rand_transfer_run cand ceqb w fpv bs t (mkM [DRanks l] []) l [] Hgood);
    [reflexivity| |reflexivity|exact Hv].
  rewrite (rt_avail_units cand ceqb w bs Hnn). unfold TransferLawSpec.transfer_units in Hk.
  rewrite transfer_pop_eq in Hk. lia.
Qed.

End Law.

(* ====================== (2) per-output-ballot statements ====================== *)

Lemma units_of_pos_matches : forall r (pop : list (ranking * Q)),
  (0 < units_of r pop)%Z ->
  exists p, In p pop /\ ranking_eqb r (fst p) = true /\ (0 < Qtrunc (snd p))%Z.
Proof.
  intros r pop. unfold STV.units_of. induction pop as [|p pop IH]; cbn [map fold_right]; [lia|].
  intros H. destruct (ranking_eqb r (fst p)) eqn:E.
  - destruct (Z.lt_ge_cases 0 (Qtrunc (snd p))) as [Hp|Hp].
    + exists p. split; [left; reflexivity|]. split; assumption.
    + destruct IH as (p' & Hp' & Hm & Hq); [lia|]. exists p'. split; [right; exact Hp'|]. split; assumption.
  - destruct IH as (p' & Hp' & Hm & Hq); [lia|]. exists p'. split; [right; exact Hp'|]. split; assumption.
Qed.

Lemma rt_out_basic : forall w (bs : list ballot) l k, In k (rt_out w bs l) ->
  0 < wt k /\ sc k = [] /\ rk k <> [] /\
  ((exists b, In b bs /\ first_is w b = false /\ rk k = strip [w] (rk b) /\ 0 < wt b) \/ In (rk k) l).
Proof.
  intros w bs l k Hk. unfold C03_transfer.rt_out in Hk.
  set (inp := filter keep_ballot (rt_others w bs ++ map (fun r => plain_ballot cand r 1) l)) in *.
  assert (Hsf : score_free inp).
  { apply (filter_sf cand). apply (app_sf cand); [apply (rt_others_sf cand ceqb)|apply (plain_sf cand)]. }
  assert (Hpos : all_pos inp).
  { unfold EditSpec.all_pos. apply Forall_forall. intros x Hx. apply filter_In in Hx.
    destruct Hx as [_ Hx]. apply (keep_ballot_iff cand) in Hx. apply Hx. }
  pose proof (condense_sf cand ceqb _ Hsf) as Hsf'. pose proof (condense_pos cand ceqb _ Hpos) as Hpos'.
  unfold EditSpec.score_free in Hsf'. unfold EditSpec.all_pos in Hpos'.
  rewrite Forall_forall in Hsf', Hpos'.
  split; [apply Hpos'; exact Hk|]. split; [apply Hsf'; exact Hk|].
  destruct (condense_rk_in cand ceqb _ k Hk) as (b' & Hb' & Hrk).
  apply filter_In in Hb'. destruct Hb' as [Hb' Hkeep]. apply (keep_ballot_iff cand) in Hkeep.
  destruct Hkeep as [Hne Hw]. split; [rewrite Hrk; exact Hne|].
  apply in_app_or in Hb'. destruct Hb' as [Hb'|Hb'].
  - left. unfold C03_transfer.rt_others in Hb'. apply in_map_iff in Hb'.
    destruct Hb' as (b & <- & Hb). apply filter_In in Hb. destruct Hb as [Hb Hf].
    apply negb_true_iff in Hf. cbn [rk wt] in *. exists b. repeat split; assumption.
  - right. apply in_map_iff in Hb'. destruct Hb' as (r & <- & Hr). rewrite Hrk. exact Hr.
Qed.

Lemma strip_untouched : forall w (b : ballot),
  ~ In w (flat (rk b)) -> Forall (fun g => g <> []) (rk b) -> strip [w] (rk b) = rk b.
Proof.
  intros w b Hw Hne. apply (strip_absent cand ceqb ceqb_spec); [|exact Hne].
  intros c [<-|[]]. exact Hw.
Qed.

(* the random transfer, any script: each output ballot is of positive weight, non-empty, score-free,
   never mentions the winner, and is either a ballot not led by the winner with the winner struck
   out (untouched when it does not mention him), or one of the sampled rankings, which is — up to
   the order inside a tied position, exactly when nothing is tied — the continuation of a
   positive-weight ballot led by the winner *)
Theorem rand_no_winner : forall w fpv (bs : list ballot) t (s s' : mstate) out,
  rand_transfer w fpv bs t s = inl (out, s') ->
  forall k, In k out ->
    ~ In w (flat (rk k)) /\ rk k <> [] /\ 0 < wt k /\ sc k = [] /\
    ((exists b, In b bs /\ first_is w b = false /\ rk k = strip [w] (rk b) /\ 0 < wt b /\
                (~ In w (flat (rk b)) -> Forall (fun g => g <> []) (rk b) -> rk k = rk b))
     \/
     (exists l b, scr s = DRanks l :: scr s' /\ In (rk k) l /\
                  In b bs /\ first_is w b = true /\ 0 < wt b /\
                  ranking_eqb (rk k) (strip [w] (rk b)) = true /\
                  (untied (rk k) -> untied (rk b) -> rk k = strip [w] (rk b)))).
Proof.
  intros w fpv bs t s s' out H k Hk.
  pose proof (rand_submultiset cand ceqb ceqb_spec _ _ _ _ _ _ _ H) as (_ & _ & _ & _ & _ & _ & Hnw).
  apply rand_ok_inv in H. destruct H as (Hgood & _ & l & Hs & _ & Hv & ->).
  destruct (rt_out_basic w bs l k Hk) as (Hw & Hsc & Hne & Hsrc).
  split; [apply Hnw; exact Hk|]. split; [exact Hne|]. split; [exact Hw|]. split; [exact Hsc|].
  destruct Hsrc as [(b & Hb & Hf & Hrk & Hwb)|Hin].
  - left. exists b. repeat split; try assumption.
    intros Hnw' Hne'. rewrite Hrk. apply strip_untouched; assumption.
  - right.
    destruct (valid_sample_spec cand ceqb ceqb_spec w bs _ l Hv) as (_ & Hcnt & _).
    pose proof (Hcnt _ Hin) as Hc. pose proof (count_rk_in cand ceqb ceqb_spec _ _ Hin) as Hc1.
    destruct (units_of_pos_matches (rk k) (rt_pop w bs) ltac:(lia)) as (p & Hp & Hm & Hq).
    unfold C03_transfer.rt_pop in Hp. apply in_map_iff in Hp. destruct Hp as (b & <- & Hb).
    apply filter_In in Hb. destruct Hb as [Hb Ht]. unfold C03_transfer.transferable in Ht.
    apply andb_true_iff in Ht. destruct Ht as [Hf _]. cbn [fst snd] in *.
    exists l, b. split; [exact Hs|]. split; [exact Hin|]. split; [exact Hb|]. split; [exact Hf|].
    split; [apply Qtrunc_pos_inv; exact Hq|]. split; [exact Hm|].
    intros Hu Hub. apply (untied_eqb_eq _ _ Hm Hu). apply untied_strip. exact Hub.
Qed.

(* the random transfer as a function of the selected unit positions (every genuine outcome of
   random.sample): each output ranking IS the winner-stripped ranking of a positive-weight input
   ballot *)
Theorem rand_no_winner_positions : forall w (bs : list ballot) idxs,
  (forall i, In i idxs -> (i < length (transfer_units w bs))%nat) ->
  forall k, In k (transfer_of_positions w bs idxs) ->
    ~ In w (flat (rk k)) /\ rk k <> [] /\ 0 < wt k /\ sc k = [] /\
    exists b, In b bs /\ rk k = strip [w] (rk b) /\ 0 < wt b /\
              (~ In w (flat (rk b)) -> Forall (fun g => g <> []) (rk b) -> rk k = rk b).
Proof.
  intros w bs idxs Hr k Hk. unfold TransferLawSpec.transfer_of_positions in Hk.
  rewrite transfer_of_sample_eq in Hk.
  destruct (rt_out_basic w bs _ k Hk) as (Hw & Hsc & Hne & Hsrc).
  assert (Hex : exists b, In b bs /\ rk k = strip [w] (rk b) /\ 0 < wt b).
  { destruct Hsrc as [(b & Hb & _ & Hrk & Hwb)|Hin].
    - exists b. repeat split; assumption.
    - apply (in_pick _ _ _ Hr) in Hin. apply in_transfer_units in Hin.
      destruct Hin as (b & Hb & _ & Hrk & _ & Hwb). exists b. repeat split; assumption. }
  destruct Hex as (b & Hb & Hrk & Hwb).
  split.
  { rewrite Hrk. intros Hin. apply (strip_no_removed cand ceqb ceqb_spec) in Hin. apply Hin. left. reflexivity. }
  split; [exact Hne|]. split; [exact Hw|]. split; [exact Hsc|].
  exists b. repeat split; try assumption.
  intros Hnw' Hne'. rewrite Hrk. apply strip_untouched; assumption.
Qed.

(* the full-weight transfer (SequentialRCV): each output ballot is of positive weight, never
   mentions the winner, and its ranking IS the winner-stripped ranking of a positive-weight input
   ballot (untouched when that ballot does not mention the winner); it is non-empty as soon as that
   ballot carries no scores *)
Theorem full_no_winner_strong : forall w (bs : list ballot) out,
  full_transfer w bs = inl out ->
  forall k, In k out ->
    ~ In w (flat (rk k)) /\ 0 < wt k /\
    (exists b, In b bs /\ rk k = strip [w] (rk b) /\ 0 < wt b /\ (sc b = [] -> rk k <> []) /\
               (~ In w (flat (rk b)) -> Forall (fun g => g <> []) (rk b) -> rk k = rk b)) /\
    (score_free bs -> rk k <> [] /\ sc k = []).
Proof.
  intros w bs out H k Hk. apply (full_transfer_inv cand ceqb) in H. subst out.
  rewrite (remove_cand_bs_unfold cand ceqb) in Hk. cbn [kept_of] in Hk.
  set (inp := filter pos_wt (map (scrub cand ceqb [w]) bs)) in *.
  assert (Hpos : all_pos inp).
  { unfold EditSpec.all_pos. apply Forall_forall. intros x Hx. apply filter_In in Hx.
    apply (pos_wt_iff cand). apply Hx. }
  pose proof (condense_pos cand ceqb _ Hpos) as Hpos'. unfold EditSpec.all_pos in Hpos'.
  rewrite Forall_forall in Hpos'.
  destruct (condense_rk_in cand ceqb _ k Hk) as (b' & Hb' & Hrk).
  apply filter_In in Hb'. destruct Hb' as [Hb' Hpw]. apply in_map_iff in Hb'.
  destruct Hb' as (b & <- & Hb). rewrite (scrub_pos cand ceqb) in Hpw.
  apply andb_true_iff in Hpw. destruct Hpw as [Hwb Hleft]. apply (pos_wt_iff cand) in Hwb.
  rewrite (scrub_rk cand ceqb) in Hrk.
  assert (Hscne : sc b = [] -> rk k <> []).
  { intros Esc. rewrite Esc in Hleft. cbn [Core.strip_scores filter nonempty] in Hleft.
    rewrite orb_false_r in Hleft. rewrite Hrk. apply nonempty_true_iff. exact Hleft. }
  split.
  { rewrite Hrk. intros Hin. apply (strip_no_removed cand ceqb ceqb_spec) in Hin. apply Hin. left. reflexivity. }
  split; [apply Hpos'; exact Hk|]. split.
  - exists b. split; [exact Hb|]. split; [exact Hrk|]. split; [exact Hwb|]. split; [exact Hscne|].
    intros Hnw' Hne'. rewrite Hrk. apply strip_untouched; assumption.
  - intros Hsf. split.
    + apply Hscne. unfold EditSpec.score_free in Hsf. rewrite Forall_forall in Hsf. apply Hsf. exact Hb.
    + assert (Hsfi : score_free inp) by (apply (filter_sf cand), (map_scrub_sf cand ceqb); exact Hsf).
      pose proof (condense_sf cand ceqb _ Hsfi) as Hsf'. unfold EditSpec.score_free in Hsf'.
      rewrite Forall_forall in Hsf'. apply Hsf'. exact Hk.
Qed.

(* ====================== (3) the losses of a whole run, telescoped ====================== *)

Notation wf_stv0 := (wf_stv0 cand).
Notation script_ok := (script_ok cand).
Notation stv_trace := (stv_trace cand ceqb).
Notation stv_init := (stv_init cand).
Notation run_stv := (run_stv cand ceqb).
Notation count_elected := (count_elected cand).
Notation round_accounting := (round_accounting cand ceqb).
Notation round_split := (round_split cand ceqb).

(* one round: the loss stated by [round_accounting] is a quota part plus an exhausted part, both
   non-negative *)
Lemma split_of_accounting : forall cfg t n (pr pr' : profile) (st' : estate) (sa sb : mstate),
  round_accounting cfg t n pr pr' st' sa sb ->
  0 <= t -> total_wt (ballots pr') <= total_wt (ballots pr) ->
  exists quota exh,
    round_split cfg t n pr pr' st' sa sb quota exh /\
    total_wt (ballots pr) - total_wt (ballots pr') == quota + exh /\
    0 <= quota /\ 0 <= exh.
Proof.
  intros cfg t n pr pr' st' sa sb H Ht Hle.
  unfold STVRunSpec.round_accounting in H. unfold TransferLawSpec.round_split. cbv zeta in *.
  assert (Hq : 0 <= t * Qnat (length (flat (elected st')))).
  { apply Qmult_le_0_compat; [exact Ht|apply Qnat_nonneg]. }
  destruct H as [(Hreach & Hnr & Hrand)|[(Hlt & Hcnt & Hb & Hex & Hloss)|(Hlt & Hcnt & x & Hx & Hloss)]].
  - destruct (s_transfer cfg) eqn:Ek.
    + destruct (Hnr ltac:(discriminate)) as [Hl Hnn].
      eexists. eexists. split; [left; split; [exact Hreach|]; split; [reflexivity|]; split;
        [intros _; reflexivity|intros E; discriminate E]|].
      split; [exact Hl|]. split; [exact Hq|exact Hnn].
    + destruct (Hrand eq_refl) as (pre & ls & Hscr & HF & Hl).
      exists (t * Qnat (length (flat (elected st')))),
             (Qnat (samples_dead cand ceqb (flat (elected st')) ls)).
      split; [left; split; [exact Hreach|]; split; [reflexivity|]; split;
        [intros E; contradiction E; reflexivity|intros _; exists pre, ls; repeat split; assumption]|].
      split; [exact Hl|]. split; [exact Hq|apply Qnat_nonneg].
    + destruct (Hnr ltac:(discriminate)) as [Hl Hnn].
      eexists. eexists. split; [left; split; [exact Hreach|]; split; [reflexivity|]; split;
        [intros _; reflexivity|intros E; discriminate E]|].
      split; [exact Hl|]. split; [apply Qle_refl|exact Hnn].
  - exists 0, (wt_where (exhausted cand ceqb (flat (elected st'))) (ballots pr)).
    split; [right; left; repeat split; try assumption; reflexivity|].
    split; [rewrite Hloss; ring|]. split; [apply Qle_refl|]. rewrite <- Hloss. lra.
  - exists 0, (wt_where (exhausted cand ceqb [x]) (ballots pr)).
    split; [right; right; split; [exact Hlt|]; split; [exact Hcnt|]; exists x;
            repeat split; try assumption; reflexivity|].
    split; [rewrite Hloss; ring|]. split; [apply Qle_refl|]. rewrite <- Hloss. lra.
Qed.

Theorem run_loss_telescoped : forall cfg (p : profile) (s s' : mstate) sts,
  wf_stv0 p -> (s_transfer cfg = TRandom -> script_ok s) ->
  run_stv cfg p s = inl (sts, s') ->
  exists t ps ss (quotas exhs : list Q),
    stv_init cfg p = inl t /\ stv_trace cfg t p sts ps ss /\
    nth_error ps 0 = Some p /\ nth_error ss 0 = Some s /\ last ss s = s' /\
    length quotas = (length ps - 1)%nat /\ length exhs = (length ps - 1)%nat /\
    (forall r pr pr' st' sa sb,
       nth_error ps r = Some pr -> nth_error ps (S r) = Some pr' ->
       nth_error sts (S r) = Some st' ->
       nth_error ss r = Some sa -> nth_error ss (S r) = Some sb ->
       round_accounting cfg t (count_elected (firstn (S r) sts)) pr pr' st' sa sb /\
       round_split cfg t (count_elected (firstn (S r) sts)) pr pr' st' sa sb
                   (nth r quotas 0) (nth r exhs 0) /\
       total_wt (ballots pr) - total_wt (ballots pr') == nth r quotas 0 + nth r exhs 0 /\
       0 <= nth r quotas 0 /\ 0 <= nth r exhs 0) /\
    qsum (map (fun r => total_wt (ballots (nth r ps p)) - total_wt (ballots (nth (S r) ps p)))
              (seq 0 (length ps - 1)))
      == total_wt (ballots p) - total_wt (ballots (last ps p)) /\
    total_wt (ballots p) - total_wt (ballots (last ps p)) == qsum quotas + qsum exhs.
Proof.
  intros cfg p s s' sts Hwf Hscr H.
  destruct (run_conservation cand ceqb ceqb_spec cfg p s s' sts Hwf Hscr H)
    as (t & ps & ss & Ht & Htr & Hp0 & Hs0 & Hlast & Ht0 & _ & Hmono & Hacc & _).
  pose proof Htr as (Hlp & Hls & _ & _).
  set (n := (length ps - 1)%nat).
  assert (Hpt : forall r, (r < n)%nat -> exists qa ex,
            forall pr pr' st' sa sb,
              nth_error ps r = Some pr -> nth_error ps (S r) = Some pr' ->
              nth_error sts (S r) = Some st' ->
              nth_error ss r = Some sa -> nth_error ss (S r) = Some sb ->
              round_split cfg t (count_elected (firstn (S r) sts)) pr pr' st' sa sb qa ex /\
              total_wt (ballots pr) - total_wt (ballots pr') == qa + ex /\ 0 <= qa /\ 0 <= ex).
  { intros r Hr. unfold n in Hr.
    destruct (nth_error_ex ps r ltac:(lia)) as [pr Hpr].
    destruct (nth_error_ex ps (S r) ltac:(lia)) as [pr' Hpr'].
    destruct (nth_error_ex sts (S r) ltac:(lia)) as [st' Hst'].
    destruct (nth_error_ex ss r ltac:(lia)) as [sa Hsa].
    destruct (nth_error_ex ss (S r) ltac:(lia)) as [sb Hsb].
    pose proof (Hacc r pr pr' st' sa sb Hpr Hpr' Hst' Hsa Hsb) as Hra.
    pose proof (Hmono r (S r) pr pr' ltac:(lia) Hpr Hpr') as Hle.
    destruct (split_of_accounting _ _ _ _ _ _ _ _ Hra Ht0 Hle) as (qa & ex & Hsp).
    exists qa, ex. intros pr2 pr2' st2' sa2 sb2 H1 H2 H3 H4 H5.
    rewrite Hpr in H1. rewrite Hpr' in H2. rewrite Hst' in H3. rewrite Hsa in H4. rewrite Hsb in H5.
    injection H1 as <-. injection H2 as <-. injection H3 as <-. injection H4 as <-. injection H5 as <-.
    exact Hsp. }
  destruct (list_choice2 _ n Hpt) as (quotas & exhs & Hlq & Hle & Hall).
  exists t, ps, ss, quotas, exhs.
  split; [exact Ht|]. split; [exact Htr|]. split; [exact Hp0|]. split; [exact Hs0|].
  split; [exact Hlast|]. split; [exact Hlq|]. split; [exact Hle|].
  assert (Hf0 : nth 0 ps p = p).
  { destruct ps as [|p1 ps']; [discriminate Hp0|]. cbn [nth_error] in Hp0. injection Hp0 as ->. reflexivity. }
  assert (Htel :
    qsum (map (fun r => total_wt (ballots (nth r ps p)) - total_wt (ballots (nth (S r) ps p)))
              (seq 0 n))
    == total_wt (ballots p) - total_wt (ballots (last ps p))).
  { rewrite (telescope (fun r => total_wt (ballots (nth r ps p))) n). cbv beta.
    rewrite Hf0, (last_nth_pred ps p). reflexivity. }
  split; [|split; [exact Htel|]].
  - intros r pr pr' st' sa sb H1 H2 H3 H4 H5.
    split; [exact (Hacc r pr pr' st' sa sb H1 H2 H3 H4 H5)|].
    pose proof (nth_error_lt _ _ _ H2) as Hlt.
    apply (Hall r ltac:(unfold n; lia) pr pr' st' sa sb H1 H2 H3 H4 H5).
  - rewrite <- Htel.
    rewrite (qsum_as_nth quotas), (qsum_as_nth exhs), Hlq, Hle, <- qsum_map_plus.
    apply qsum_map_ext_in. intros r Hr. apply in_seq in Hr.
    assert (Hr' : (r < n)%nat) by lia. unfold n in Hr'.
    pose proof (nth_error_nth' ps p (n := r) ltac:(lia)) as H1.
    pose proof (nth_error_nth' ps p (n := S r) ltac:(lia)) as H2.
    destruct (nth_error_ex sts (S r) ltac:(lia)) as [st' H3].
    destruct (nth_error_ex ss r ltac:(lia)) as [sa H4].
    destruct (nth_error_ex ss (S r) ltac:(lia)) as [sb H5].
    destruct (Hall r ltac:(unfold n; lia) _ _ _ _ _ H1 H2 H3 H4 H5) as (_ & Hl & _).
    exact Hl.
Qed.

End WithCand.
