(* Proofs/Elect.v — elect_cands_from_set_ranking ([elect_loop]/[elect_top_m]) and [tiebreak_set]:
   the shared lemma [elect_top_m_spec] of DESIGN.md (C01), used by C04, C05, ... *)
From VK Require Import Base Core.
From VK.Proofs Require Import Lib_sets C04_scoring.
From VK.Spec Require Import ScoreSpec.
From Coq Require Import Permutation Lia Lqa Sorting.Sorted.

Section Elect.
Variable cand : Type.
Variable ceqb : cand -> cand -> bool.
Hypothesis ceqb_spec : forall a b, reflect (a = b) (ceqb a b).

Notation cset := (cset cand).
Notation ranking := (ranking cand).
Notation profile := (profile cand).
Notation scores := (scores cand).
Notation mstate := (mstate cand).
Notation flat := (flat cand).
Notation singletons := (singletons cand).
Notation draw_perm := (draw_perm cand ceqb).
Notation random_break := (random_break cand ceqb).
Notation tiebreak_set := (tiebreak_set cand ceqb).
Notation elect_loop := (elect_loop cand ceqb).
Notation elect_top_m := (elect_top_m cand ceqb).
Notation score_to_ranking := (score_to_ranking cand).
Notation memb := (memb cand ceqb).

(* ------------------------------------------------------------------ *)
(** * singletons *)

Lemma singletons_all_single : forall l, Forall (fun g : cset => length g = 1%nat) (singletons l).
Proof.
  intros l. unfold Core.singletons. apply Forall_forall. intros g Hg.
  apply in_map_iff in Hg. destruct Hg as [c [<- _]]. reflexivity.
Qed.

Lemma all_single_singletons : forall t : ranking,
  Forall (fun g => length g = 1%nat) t -> t = singletons (flat t).
Proof.
  intros t H. induction H as [|g t Hg _ IH]; [reflexivity|].
  destruct g as [|c [|c' g]]; try discriminate.
  rewrite flat_cons. cbn [app]. unfold Core.singletons in *. cbn [map]. f_equal. exact IH.
Qed.

Lemma singletons_app : forall l1 l2, singletons (l1 ++ l2) = singletons l1 ++ singletons l2.
Proof. intros l1 l2. unfold Core.singletons. apply map_app. Qed.

Lemma singletons_length : forall l, length (singletons l) = length l.
Proof. intros l. unfold Core.singletons. apply map_length. Qed.

Lemma firstn_singletons : forall k l, firstn k (singletons l) = singletons (firstn k l).
Proof. intros k l. unfold Core.singletons. apply firstn_map. Qed.

Lemma skipn_singletons : forall k l, skipn k (singletons l) = singletons (skipn k l).
Proof. intros k l. unfold Core.singletons. apply skipn_map. Qed.

(* ------------------------------------------------------------------ *)
(** * draw_perm, random_break, tiebreak_set *)

Lemma draw_perm_inv : forall s (st st' : mstate) l,
  draw_perm s st = inl (l, st') ->
  Permutation l s /\ NoDup l /\
  exists rest, scr st = DPerm l :: rest /\ st' = mkM rest (CSample s :: lg st).
Proof.
  intros s st st' l H. unfold Core.draw_perm, mbind, Core.next_draw in H.
  destruct (scr st) as [|d rest] eqn:Hscr; [discriminate|]. unfold ok in H.
  destruct d as [l0| | | | |]; try discriminate.
  destruct (is_perm_of cand ceqb l0 s) eqn:Hperm; [|discriminate].
  unfold mret, ok in H. inversion H; subst.
  destruct (is_perm_of_perm cand ceqb ceqb_spec l s Hperm) as [Hp Hnd].
  split; [exact Hp|]. split; [exact Hnd|]. exists rest. split; reflexivity.
Qed.

(* random_break keeps groups of size 0 and 1 and replaces every larger group by a drawn order *)
Lemma random_break_inv : forall r (st st' : mstate) t,
  random_break r st = inl (t, st') ->
  Permutation (flat t) (flat r) /\
  (Forall (fun g => g <> []) r -> Forall (fun g => length g = 1%nat) t).
Proof.
  induction r as [|g r IH]; intros st st' t H.
  - cbn [Core.random_break] in H. unfold mret, ok in H. inversion H; subst.
    split; [constructor|]. intros _. constructor.
  - cbn [Core.random_break] in H.
    destruct g as [|c [|c' g']].
    + unfold mbind in H. destruct (random_break r st) as [[rest st1]|e] eqn:Hr; [|discriminate].
      unfold mret, ok in H. inversion H; subst.
      destruct (IH st st' rest Hr) as [Hp Hs]. split.
      * rewrite !flat_cons. cbn [app]. exact Hp.
      * intros Hne. inversion Hne as [|x l Hx _]; subst. contradiction.
    + unfold mbind in H. destruct (random_break r st) as [[rest st1]|e] eqn:Hr; [|discriminate].
      unfold mret, ok in H. inversion H; subst.
      destruct (IH st st' rest Hr) as [Hp Hs]. split.
      * rewrite !flat_cons. apply Permutation_app_head. exact Hp.
      * intros Hne. inversion Hne as [|x l _ Hne']; subst. constructor; [reflexivity|].
        apply Hs. exact Hne'.
    + unfold mbind in H.
      destruct (draw_perm (c :: c' :: g') st) as [[l st1]|e] eqn:Hd; [|discriminate].
      destruct (random_break r st1) as [[rest st2]|e] eqn:Hr; [|discriminate].
      unfold mret, ok in H. inversion H; subst.
      destruct (draw_perm_inv _ _ _ _ Hd) as [Hpl _].
      destruct (IH st1 st' rest Hr) as [Hp Hs]. split.
      * rewrite flat_app, flat_singletons, flat_cons. apply Permutation_app; assumption.
      * intros Hne. inversion Hne as [|x l0 _ Hne']; subst. apply Forall_app. split.
        -- apply singletons_all_single.
        -- apply Hs. exact Hne'.
Qed.

(* outcome of tie-breaking the set [s] by the scores [d] of a profile *)
Definition tb_scored (s : cset) (d : scores) (t : ranking) : Prop :=
  let d' := filter (fun q => memb (fst q) s) d in
  (d' = [] /\ t = [[]]) \/
  (d' <> [] /\ exists l, t = singletons l /\ Permutation l (map fst d')).

Lemma tiebreak_scored_inv : forall s (d : scores) (st st' : mstate) t,
  (let d' := filter (fun q => memb (fst q) s) d in
   let r := score_to_ranking d' true in
   if existsb (fun g => Nat.ltb 1 (length g)) r then random_break r else mret r) st = inl (t, st') ->
  tb_scored s d t.
Proof.
  intros s d st st' t H. cbv zeta in H. unfold tb_scored. cbv zeta.
  set (d' := filter (fun q => memb (fst q) s) d) in *.
  destruct d' as [|q0 d0] eqn:Hd'.
  - left. cbn in H. unfold mret, ok in H. inversion H. split; reflexivity.
  - right. split; [discriminate|]. rewrite <- Hd' in *.
    assert (Hne : d' <> []) by (rewrite Hd'; discriminate).
    assert (Hgroups : Forall (fun g => g <> []) (score_to_ranking d' true)).
    { apply Forall_forall. intros g Hg. eapply score_to_ranking_nonempty_groups; eassumption. }
    destruct (existsb (fun g => Nat.ltb 1 (length g)) (score_to_ranking d' true)) eqn:Hex.
    + destruct (random_break_inv _ _ _ _ H) as [Hp Hs].
      exists (flat t). split.
      * apply all_single_singletons. apply Hs. exact Hgroups.
      * eapply Permutation_trans; [exact Hp|]. apply score_to_ranking_flat_perm. exact Hne.
    + unfold mret, ok in H. inversion H; subst t st'.
      exists (flat (score_to_ranking d' true)). split.
      * apply all_single_singletons. apply Forall_forall. intros g Hg.
        rewrite Forall_forall in Hgroups. specialize (Hgroups g Hg).
        assert (Hlt : Nat.ltb 1 (length g) = false).
        { destruct (Nat.ltb 1 (length g)) eqn:Hl; [|reflexivity].
          assert (Hex' : existsb (fun g => Nat.ltb 1 (length g)) (score_to_ranking d' true) = true).
          { apply existsb_exists. exists g. split; assumption. }
          congruence. }
        apply Nat.ltb_ge in Hlt. destruct g as [|c g]; [contradiction|]. cbn [length] in *. lia.
      * apply score_to_ranking_flat_perm. exact Hne.
Qed.

Theorem tiebreak_set_inv : forall s p tb (st st' : mstate) t,
  tiebreak_set s p tb st = inl (t, st') ->
  match tb with
  | TBRandom => exists l, t = singletons l /\ Permutation l s /\ NoDup l
  | TBFirstPlace =>
      exists pr d, p = Some pr /\ first_place_votes cand ceqb pr = inl d /\ tb_scored s d t
  | TBBorda =>
      exists pr d, p = Some pr /\ borda_scores cand ceqb pr = inl d /\ tb_scored s d t
  | TBInvalid => False
  end.
Proof.
  intros s p tb st st' t H. destruct tb; cbn [Core.tiebreak_set] in H.
  - unfold mbind in H. destruct (draw_perm s st) as [[l st1]|e] eqn:Hd; [|discriminate].
    unfold mret, ok in H. inversion H; subst.
    destruct (draw_perm_inv _ _ _ _ Hd) as [Hp [Hnd _]]. exists l. repeat split; assumption.
  - destruct p as [pr|]; [|discriminate]. unfold mbind, mlift in H.
    destruct (first_place_votes cand ceqb pr) as [d|e] eqn:Hs; [|discriminate].
    unfold ok in H. exists pr, d. split; [reflexivity|]. split; [exact Hs|].
    eapply tiebreak_scored_inv. exact H.
  - destruct p as [pr|]; [|discriminate]. unfold mbind, mlift in H.
    destruct (borda_scores cand ceqb pr) as [d|e] eqn:Hs; [|discriminate].
    unfold ok in H. exists pr, d. split; [reflexivity|]. split; [exact Hs|].
    eapply tiebreak_scored_inv. exact H.
  - discriminate.
Qed.

Lemma tb_scored_perm : forall s d t, NoDup s -> NoDup (map fst d) -> incl s (map fst d) -> s <> [] ->
  tb_scored s d t -> exists l, t = singletons l /\ Permutation l s.
Proof.
  intros s d t Hs Hd Hincl Hne H. unfold tb_scored in H. cbv zeta in H.
  assert (Hkeys : map fst (filter (fun q => memb (fst q) s) d)
                  = filter (fun c => memb c s) (map fst d)).
  { clear. induction d as [|q d IH]; [reflexivity|]. cbn [filter map].
    destruct (memb (fst q) s); cbn [map]; rewrite IH; reflexivity. }
  assert (Hperm : Permutation (map fst (filter (fun q => memb (fst q) s) d)) s).
  { rewrite Hkeys. apply NoDup_Permutation.
    - apply NoDup_filter. exact Hd.
    - exact Hs.
    - intros x. rewrite filter_In, (memb_In cand ceqb ceqb_spec). split.
      + intros [_ Hx]. exact Hx.
      + intros Hx. split; [apply Hincl; exact Hx|exact Hx]. }
  destruct H as [[Hnil _]|[_ [l [Ht Hl]]]].
  - rewrite Hnil in Hperm. cbn [map] in Hperm. apply Permutation_nil in Hperm. contradiction.
  - exists l. split; [exact Ht|]. eapply Permutation_trans; eassumption.
Qed.

(* When tie-breaking succeeds on a duplicate-free non-empty set of candidates — for the scored
   methods: candidates of a duplicate-free profile — the result is a linear order of the set. *)
Theorem tiebreak_set_linear : forall s p kind (st st' : mstate) t,
  NoDup s -> s <> [] -> tb_profile_ok cand p (Some kind) s ->
  tiebreak_set s p kind st = inl (t, st') ->
  exists l, t = singletons l /\ Permutation l s.
Proof.
  intros s p kind st st' t Hnd Hne Hok H. pose proof (tiebreak_set_inv _ _ _ _ _ _ H) as Hinv.
  destruct kind.
  - destruct Hinv as [l [Ht [Hp _]]]. exists l. split; assumption.
  - destruct Hinv as [pr [d [Hp [Hsc Htb]]]]. cbn [tb_profile_ok] in Hok.
    destruct (Hok pr Hp) as [Hndc Hincl].
    unfold Core.first_place_votes in Hsc. apply score_rankings_keys in Hsc.
    apply (tb_scored_perm s d t); try assumption; rewrite Hsc; assumption.
  - destruct Hinv as [pr [d [Hp [Hsc Htb]]]]. cbn [tb_profile_ok] in Hok.
    destruct (Hok pr Hp) as [Hndc Hincl].
    unfold Core.borda_scores in Hsc. apply score_rankings_keys in Hsc.
    apply (tb_scored_perm s d t); try assumption; rewrite Hsc; assumption.
  - destruct Hinv.
Qed.

(* ---------- order of a scored tie-break: never a lower scorer before a higher one ---------- *)

Lemma random_break_sorted : forall (R : cset -> cset -> Prop),
  (forall x y x' y', incl x' x -> incl y' y -> R x y -> R x' y') ->
  forall r (st st' : mstate) t,
  random_break r st = inl (t, st') ->
  StronglySorted R r ->
  (forall g a b, In g r -> In a g -> In b g -> R [a] [b]) ->
  StronglySorted R t /\ (forall y, In y t -> exists g, In g r /\ incl y g).
Proof.
  intros R Hher. induction r as [|g r IH]; intros st st' t H Hs Hin.
  - cbn [Core.random_break] in H. unfold mret, ok in H. inversion H; subst.
    split; [constructor|intros y []].
  - apply StronglySorted_inv in Hs. destruct Hs as [Hs Hall]. rewrite Forall_forall in Hall.
    assert (Hin' : forall g0 a b, In g0 r -> In a g0 -> In b g0 -> R [a] [b]).
    { intros g0 a b Hg0. apply Hin. right. exact Hg0. }
    assert (Hkeep : forall rest st0 st1, random_break r st0 = inl (rest, st1) ->
              StronglySorted R (g :: rest) /\
              (forall y, In y (g :: rest) -> exists g0, In g0 (g :: r) /\ incl y g0)).
    { intros rest st0 st1 Hr. destruct (IH st0 st1 rest Hr Hs Hin') as [Hsr Hsub]. split.
      - constructor; [exact Hsr|]. apply Forall_forall. intros y Hy.
        destruct (Hsub y Hy) as [g0 [Hg0 Hincl]].
        apply (Hher g g0 g y); [apply incl_refl|exact Hincl|apply Hall; exact Hg0].
      - intros y [<-|Hy].
        + exists g. split; [left; reflexivity|apply incl_refl].
        + destruct (Hsub y Hy) as [g0 [Hg0 Hincl]]. exists g0. split; [right; exact Hg0|exact Hincl]. }
    cbn [Core.random_break] in H. destruct g as [|c [|c' g']].
    + unfold mbind in H. destruct (random_break r st) as [[rest st1]|e] eqn:Hr; [|discriminate].
      unfold mret, ok in H. inversion H; subst. eapply Hkeep. exact Hr.
    + unfold mbind in H. destruct (random_break r st) as [[rest st1]|e] eqn:Hr; [|discriminate].
      unfold mret, ok in H. inversion H; subst. eapply Hkeep. exact Hr.
    + unfold mbind in H.
      destruct (draw_perm (c :: c' :: g') st) as [[l st1]|e] eqn:Hd; [|discriminate].
      destruct (random_break r st1) as [[rest st2]|e] eqn:Hr; [|discriminate].
      unfold mret, ok in H. inversion H; subst.
      destruct (draw_perm_inv _ _ _ _ Hd) as [Hpl _].
      destruct (IH st1 st' rest Hr Hs Hin') as [Hsr Hsub].
      set (g := c :: c' :: g') in *.
      assert (Hsing : forall x, In x (singletons l) -> exists a, x = [a] /\ In a g).
      { intros x Hx. unfold Core.singletons in Hx. apply in_map_iff in Hx. destruct Hx as [a [<- Ha]].
        exists a. split; [reflexivity|]. eapply Permutation_in; eassumption. }
      split.
      * apply SS_app_iff. repeat split.
        -- assert (Hany : forall t0 : ranking, (forall x, In x t0 -> exists a, x = [a] /\ In a g) ->
                     StronglySorted R t0).
           { induction t0 as [|x t0 IHt]; intros Ht; [constructor|]. constructor.
             - apply IHt. intros y Hy. apply Ht. right. exact Hy.
             - apply Forall_forall. intros y Hy.
               destruct (Ht x (or_introl eq_refl)) as [a [-> Ha]].
               destruct (Ht y (or_intror Hy)) as [b [-> Hb]].
               apply (Hin g a b); [left; reflexivity|exact Ha|exact Hb]. }
           apply Hany. exact Hsing.
        -- exact Hsr.
        -- intros x y Hx Hy. destruct (Hsing x Hx) as [a [-> Ha]].
           destruct (Hsub y Hy) as [g0 [Hg0 Hincl]].
           apply (Hher g g0 [a] y); [|exact Hincl|apply Hall; exact Hg0].
           intros z [<-|[]]. exact Ha.
      * intros y Hy. apply in_app_or in Hy. destruct Hy as [Hy|Hy].
        -- destruct (Hsing y Hy) as [a [-> Ha]]. exists g. split; [left; reflexivity|].
           intros z [<-|[]]. exact Ha.
        -- destruct (Hsub y Hy) as [g0 [Hg0 Hincl]]. exists g0. split; [right; exact Hg0|exact Hincl].
Qed.

Lemma map_fst_filter_memb : forall (s : cset) (d : scores),
  map fst (filter (fun q => memb (fst q) s) d) = filter (fun c => memb c s) (map fst d).
Proof.
  intros s d. induction d as [|q d IH]; [reflexivity|]. cbn [filter map].
  destruct (memb (fst q) s); cbn [map]; rewrite IH; reflexivity.
Qed.

(* in the answer of a first-place / Borda tie-break, a candidate never precedes one with a
   strictly higher tie-break score *)
Theorem tiebreak_scored_order : forall s (d : scores) (st st' : mstate) t,
  NoDup (map fst d) ->
  (let d' := filter (fun q => memb (fst q) s) d in
   let r := score_to_ranking d' true in
   if existsb (fun g => Nat.ltb 1 (length g)) r then random_break r else mret r) st = inl (t, st') ->
  forall l pre a mid b post qa qb, t = singletons l -> l = pre ++ a :: mid ++ b :: post ->
    In (a, qa) d -> In (b, qb) d -> qb <= qa.
Proof.
  intros s d st st' t Hnd H l pre a mid b post qa qb Ht Hl Ha Hb.
  pose proof (tiebreak_scored_inv s d st st' t H) as Hsc. cbv zeta in H.
  set (d' := filter (fun q => memb (fst q) s) d) in *.
  assert (Hnd' : NoDup (map fst d')).
  { unfold d'. rewrite map_fst_filter_memb. apply NoDup_filter. exact Hnd. }
  assert (Hsub : forall x, In x d' -> In x d) by (intros x Hx; apply filter_In in Hx; apply Hx).
  destruct d' as [|q0 d0] eqn:Hd'.
  { (* no member of the set is a candidate: t = [[]] is not a list of singletons containing a, b *)
    unfold tb_scored in Hsc. cbv zeta in Hsc. fold d' in Hsc.
    cbn in H. unfold mret, ok in H. inversion H as [[Ht0 Hst0]].
    rewrite <- Ht0, Hl in Ht. unfold Core.singletons in Ht. destruct pre; cbn in Ht; inversion Ht. }
  rewrite <- Hd' in *.
  assert (Hne : d' <> []) by (rewrite Hd'; discriminate).
  set (R := fun x y : cset => forall c1 c2 q1 q2, In c1 x -> In c2 y ->
                 In (c1, q1) d' -> In (c2, q2) d' -> q2 <= q1).
  assert (Hher : forall x y x' y', incl x' x -> incl y' y -> R x y -> R x' y').
  { intros x y x' y' Hx Hy HR c1 c2 q1 q2 H1 H2. apply HR; [apply Hx; exact H1|apply Hy; exact H2]. }
  assert (Hsorted : StronglySorted R (score_to_ranking d' true)).
  { eapply SS_impl_in; [|apply score_to_ranking_sorted; assumption].
    intros x y _ _ Hxy c1 c2 q1 q2 H1 H2 H3 H4. apply Qlt_le_weak. eapply Hxy; eassumption. }
  assert (Hwithin : forall g x y, In g (score_to_ranking d' true) -> In x g -> In y g -> R [x] [y]).
  { intros g x y Hg Hx Hy c1 c2 q1 q2 [<-|[]] [<-|[]] H3 H4.
    assert (Heq : q1 == q2).
    { apply (score_to_ranking_same_group_iff cand d' x y q1 q2 Hne Hnd' H3 H4).
      exists g. repeat split; assumption. }
    rewrite Heq. apply Qle_refl. }
  assert (Ht_sorted : StronglySorted R t).
  { destruct (existsb (fun g => Nat.ltb 1 (length g)) (score_to_ranking d' true)).
    - destruct (random_break_sorted R Hher _ _ _ _ H Hsorted Hwithin) as [Hs _]. exact Hs.
    - unfold mret, ok in H. inversion H as [[Ht0 Hst0]]. exact Hsorted. }
  (* a and b are keys of d', with the same scores as in d *)
  assert (Hflat : Permutation (flat t) (map fst d')).
  { unfold tb_scored in Hsc. cbv zeta in Hsc. fold d' in Hsc.
    destruct Hsc as [[Hnil _]|[_ [l0 [Ht0 Hp0]]]]; [contradiction|].
    rewrite Ht0, flat_singletons. exact Hp0. }
  assert (Hind' : forall c q, In c l -> In (c, q) d -> In (c, q) d').
  { intros c q Hc Hcd.
    assert (Hk : In c (map fst d')).
    { eapply Permutation_in; [exact Hflat|]. rewrite Ht, flat_singletons. exact Hc. }
    apply in_map_iff in Hk. destruct Hk as [[c' q'] [Hc' Hin']]. cbn [fst] in Hc'. subst c'.
    rewrite (NoDup_keys_functional cand d c q q' Hnd Hcd (Hsub _ Hin')). exact Hin'. }
  assert (Hsplit : singletons (pre ++ a :: mid ++ b :: post)
                   = singletons pre ++ [a] :: singletons mid ++ [b] :: singletons post).
  { unfold Core.singletons. rewrite map_app. cbn [map]. rewrite map_app. reflexivity. }
  rewrite Ht, Hl, Hsplit in Ht_sorted.
  apply SS_pair in Ht_sorted.
  apply (Ht_sorted a b qa qb); try (left; reflexivity).
  - apply Hind'; [|exact Ha]. rewrite Hl. apply in_or_app. right. left. reflexivity.
  - apply Hind'; [|exact Hb]. rewrite Hl. apply in_or_app. right. right. apply in_or_app. right. left. reflexivity.
Qed.

Theorem tiebreak_set_order : forall s pr kind (st st' : mstate) t (d : scores),
  (kind = TBFirstPlace /\ first_place_votes cand ceqb pr = inl d) \/
  (kind = TBBorda /\ borda_scores cand ceqb pr = inl d) ->
  NoDup (cands pr) ->
  tiebreak_set s (Some pr) kind st = inl (t, st') ->
  forall l pre a mid b post qa qb, t = singletons l -> l = pre ++ a :: mid ++ b :: post ->
    In (a, qa) d -> In (b, qb) d -> qb <= qa.
Proof.
  intros s pr kind st st' t d Hkind Hnd H.
  assert (Hkeys : NoDup (map fst d)).
  { destruct Hkind as [[_ Hsc]|[_ Hsc]].
    - unfold Core.first_place_votes in Hsc. rewrite (score_rankings_keys cand ceqb pr _ d Hsc). exact Hnd.
    - unfold Core.borda_scores in Hsc. rewrite (score_rankings_keys cand ceqb pr _ d Hsc). exact Hnd. }
  destruct Hkind as [[-> Hsc]|[-> Hsc]]; cbn [Core.tiebreak_set] in H; unfold mbind, mlift in H;
    rewrite Hsc in H; unfold ok in H; intros l pre a mid b post qa qb;
    apply (tiebreak_scored_order s d st st' t Hkeys H).
Qed.

(* ------------------------------------------------------------------ *)
(** * elect_loop *)

Definition straddles (r : ranking) (need : nat) : Prop :=
  exists pre g post, r = pre ++ g :: post /\
    (length (flat pre) < need)%nat /\ (need < length (flat pre) + length g)%nat.

Lemma elect_loop_inv : forall r need acc p tb (s s' : mstate) el rem tbi,
  elect_loop r need acc p tb s = inl ((el, rem, tbi), s') ->
  (tbi = None /\ s' = s /\
     exists el', el = rev acc ++ el' /\ el' ++ rem = r /\ length (flat el') = need)
  \/
  (exists pre g post t kind k,
     tb = Some kind /\ r = pre ++ g :: post /\
     (k + length (flat pre) = need)%nat /\ (0 < k)%nat /\ (k < length g)%nat /\
     tiebreak_set g p kind s = inl (t, s') /\
     el = rev acc ++ pre ++ firstn k t /\ rem = skipn k t ++ post /\ tbi = Some (g, t)).
Proof.
  induction r as [|g r IH]; intros need acc p tb s s' el rem tbi H.
  - destruct need as [|n]; cbn [Core.elect_loop] in H.
    + unfold mret, ok in H. inversion H; subst. left. repeat split.
      exists []. rewrite app_nil_r. repeat split.
    + discriminate.
  - destruct need as [|n]; cbn [Core.elect_loop] in H.
    + unfold mret, ok in H. inversion H; subst. left. repeat split.
      exists []. rewrite app_nil_r. repeat split.
    + destruct (Nat.leb (length g) (S n)) eqn:Hle.
      * apply Nat.leb_le in Hle. apply IH in H. destruct H as [H|H].
        -- destruct H as [Htbi [Hs [el' [Hel [Hr Hlen]]]]]. left. repeat split; try assumption.
           exists (g :: el'). repeat split.
           ++ rewrite Hel. cbn [rev]. rewrite <- app_assoc. reflexivity.
           ++ rewrite <- app_comm_cons, Hr. reflexivity.
           ++ rewrite flat_cons, app_length, Hlen. lia.
        -- destruct H as [pre [g0 [post [t [kind [k [Htb [Hr [Hk [Hk0 [Hkg [Ht [Hel [Hrem Htbi]]]]]]]]]]]]]].
           right. exists (g :: pre), g0, post, t, kind, k. repeat split; try assumption.
           ++ rewrite Hr. reflexivity.
           ++ rewrite flat_cons, app_length. lia.
           ++ rewrite Hel. cbn [rev]. rewrite <- !app_assoc. reflexivity.
      * apply Nat.leb_gt in Hle. destruct tb as [kind|]; [|discriminate].
        unfold mbind in H. destruct (tiebreak_set g p kind s) as [[t s1]|e] eqn:Ht; [|discriminate].
        unfold mret, ok in H. inversion H; subst.
        right. exists [], g, r, t, kind, (S n). repeat split; try assumption; try lia.
        cbn [flat Core.flat concat length]. lia.
Qed.

(* walking over a prefix that does not reach the seat count *)
Lemma elect_loop_skip : forall pre r need acc p tb (s : mstate),
  (length (flat pre) < need)%nat ->
  elect_loop (pre ++ r) need acc p tb s
  = elect_loop r (need - length (flat pre)) (rev pre ++ acc) p tb s.
Proof.
  induction pre as [|g pre IH]; intros r need acc p tb s Hlt.
  - cbn [app rev Core.flat concat length]. rewrite Nat.sub_0_r. reflexivity.
  - rewrite flat_cons, app_length in Hlt. destruct need as [|n]; [lia|].
    rewrite <- app_comm_cons. cbn [Core.elect_loop].
    assert (Hle : Nat.leb (length g) (S n) = true) by (apply Nat.leb_le; lia).
    rewrite Hle. rewrite IH by lia. rewrite flat_cons, app_length.
    cbn [rev]. rewrite <- app_assoc. cbn [app].
    replace (S n - length g - length (flat pre))%nat with (S n - (length g + length (flat pre)))%nat by lia.
    reflexivity.
Qed.

(* at a straddling group the tie-break decides (or the call fails without one) *)
Lemma elect_loop_straddle : forall pre g post need acc p tb (s : mstate),
  (length (flat pre) < need)%nat -> (need < length (flat pre) + length g)%nat ->
  elect_loop (pre ++ g :: post) need acc p tb s =
  match tb with
  | None => inr EValue
  | Some kind =>
      match tiebreak_set g p kind s with
      | inl (t, s') =>
          inl ((rev acc ++ pre ++ firstn (need - length (flat pre)) t,
                skipn (need - length (flat pre)) t ++ post, Some (g, t)), s')
      | inr e => inr e
      end
  end.
Proof.
  intros pre g post need acc p tb s H1 H2. rewrite elect_loop_skip by exact H1.
  remember (need - length (flat pre))%nat as k eqn:Hk.
  destruct k as [|k]; [lia|]. cbn [Core.elect_loop].
  assert (Hle : Nat.leb (length g) (S k) = false) by (apply Nat.leb_gt; lia).
  rewrite Hle. destruct tb as [kind|]; [|reflexivity].
  unfold mbind. destruct (tiebreak_set g p kind s) as [[t s1]|e]; [|reflexivity].
  unfold mret, ok. rewrite rev_app_distr, rev_involutive, <- app_assoc. reflexivity.
Qed.

Lemma elect_loop_err_none : forall r need acc p (s : mstate) e,
  elect_loop r need acc p None s = inr e ->
  (e = EIndex /\ (length (flat r) < need)%nat) \/ (e = EValue /\ straddles r need).
Proof.
  induction r as [|g r IH]; intros need acc p s e H.
  - destruct need as [|n]; cbn [Core.elect_loop] in H; [discriminate|].
    unfold mfail, err in H. inversion H; subst. left. split; [reflexivity|]. cbn. lia.
  - destruct need as [|n]; cbn [Core.elect_loop] in H; [discriminate|].
    destruct (Nat.leb (length g) (S n)) eqn:Hle.
    + apply Nat.leb_le in Hle. apply IH in H. destruct H as [[He Hlen]|[He Hstr]].
      * left. split; [exact He|]. rewrite flat_cons, app_length. lia.
      * right. split; [exact He|]. destruct Hstr as [pre [g0 [post [Hr [H1 H2]]]]].
        exists (g :: pre), g0, post. rewrite flat_cons, app_length. repeat split.
        -- rewrite Hr. reflexivity.
        -- lia.
        -- lia.
    + apply Nat.leb_gt in Hle. unfold mfail, err in H. inversion H; subst.
      right. split; [reflexivity|]. exists [], g, r. repeat split.
      * cbn. lia.
      * cbn [Core.flat concat length]. lia.
Qed.

(* ------------------------------------------------------------------ *)
(** * elect_top_m *)

Lemma elect_top_m_unfold : forall r m p tb (s : mstate),
  (1 <= m)%Z -> (m <= Z.of_nat (length (flat r)))%Z ->
  elect_top_m r m p tb s = elect_loop r (Z.to_nat m) [] p tb s.
Proof.
  intros r m p tb s H1 H2. unfold Core.elect_top_m, Core.ranking_size.
  assert (Ha : (m <? 1)%Z = false) by (apply Z.ltb_ge; lia).
  assert (Hb : (Z.of_nat (length (flat r)) <? m)%Z = false) by (apply Z.ltb_ge; lia).
  rewrite Ha, Hb. reflexivity.
Qed.

(* (1) seat counts outside 1..n are rejected *)
Theorem elect_top_m_range : forall r m p tb (s : mstate),
  (m < 1 \/ Z.of_nat (length (flat r)) < m)%Z -> elect_top_m r m p tb s = inr EValue.
Proof.
  intros r m p tb s H. unfold Core.elect_top_m, Core.ranking_size.
  destruct (m <? 1)%Z eqn:Ha; [reflexivity|]. apply Z.ltb_ge in Ha.
  destruct (Z.of_nat (length (flat r)) <? m)%Z eqn:Hb; [reflexivity|]. apply Z.ltb_ge in Hb. lia.
Qed.

Lemma elect_top_m_ok_range : forall r m p tb (s : mstate) x,
  elect_top_m r m p tb s = inl x -> (1 <= m <= Z.of_nat (length (flat r)))%Z.
Proof.
  intros r m p tb s x H.
  destruct (Z_lt_le_dec m 1) as [Hlt|Hge].
  - rewrite elect_top_m_range in H by (left; exact Hlt). discriminate.
  - destruct (Z_lt_le_dec (Z.of_nat (length (flat r))) m) as [Hlt|Hle].
    + rewrite elect_top_m_range in H by (right; exact Hlt). discriminate.
    + split; assumption.
Qed.

(* (2) shape of a successful result: either the first groups of [r] hold exactly m candidates and
   nothing else happens, or the group [g] straddling seat m was handed to the tie-break, whose
   answer [t] is cut after the k seats still open *)
Theorem elect_top_m_shape : forall r m p tb (s s' : mstate) el rem tbi,
  elect_top_m r m p tb s = inl ((el, rem, tbi), s') ->
  (1 <= m <= Z.of_nat (length (flat r)))%Z /\
  ((tbi = None /\ s' = s /\ el ++ rem = r /\ Z.of_nat (length (flat el)) = m)
   \/
   (exists pre g post t kind k,
      tb = Some kind /\ r = pre ++ g :: post /\
      (Z.of_nat (k + length (flat pre)) = m) /\ (0 < k)%nat /\ (k < length g)%nat /\
      tiebreak_set g p kind s = inl (t, s') /\
      el = pre ++ firstn k t /\ rem = skipn k t ++ post /\ tbi = Some (g, t))).
Proof.
  intros r m p tb s s' el rem tbi H.
  pose proof (elect_top_m_ok_range _ _ _ _ _ _ H) as Hrange. split; [exact Hrange|].
  rewrite elect_top_m_unfold in H by lia. apply elect_loop_inv in H. destruct H as [H|H].
  - left. destruct H as [Htbi [Hs [el' [Hel [Hr Hlen]]]]]. cbn [rev app] in Hel. subst el'.
    repeat split; try assumption. rewrite Hlen. lia.
  - right. destruct H as [pre [g [post [t [kind [k [Htb [Hr [Hk [Hk0 [Hkg [Ht [Hel [Hrem Htbi]]]]]]]]]]]]]].
    exists pre, g, post, t, kind, k. cbn [rev app] in Hel. repeat split; try assumption.
    rewrite Hk. lia.
Qed.

Definition straddlesZ (r : ranking) (m : Z) : Prop :=
  exists pre g post, r = pre ++ g :: post /\
    (Z.of_nat (length (flat pre)) < m)%Z /\ (m < Z.of_nat (length (flat pre) + length g))%Z.

(* (3) without a tie-break rule the call fails, with ValueError, exactly when the seat count is
   out of range or a group straddles seat m; no other exception escapes *)
Theorem elect_top_m_none_error_iff : forall r m p (s : mstate),
  elect_top_m r m p None s = inr EValue <->
  (m < 1 \/ Z.of_nat (length (flat r)) < m \/ straddlesZ r m)%Z.
Proof.
  intros r m p s. split.
  - intros H. destruct (Z_lt_le_dec m 1) as [Hlt|Hge]; [left; exact Hlt|].
    destruct (Z_lt_le_dec (Z.of_nat (length (flat r))) m) as [Hlt|Hle]; [right; left; exact Hlt|].
    right. right. rewrite elect_top_m_unfold in H by lia.
    apply elect_loop_err_none in H. destruct H as [[He _]|[_ Hstr]]; [discriminate|].
    destruct Hstr as [pre [g [post [Hr [H1 H2]]]]]. exists pre, g, post. repeat split; [exact Hr|lia|lia].
  - intros [H|[H|H]].
    + apply elect_top_m_range. left. exact H.
    + apply elect_top_m_range. right. exact H.
    + destruct (Z_lt_le_dec m 1) as [Hlt|Hge]; [apply elect_top_m_range; left; exact Hlt|].
      destruct (Z_lt_le_dec (Z.of_nat (length (flat r))) m) as [Hlt|Hle];
        [apply elect_top_m_range; right; exact Hlt|].
      rewrite elect_top_m_unfold by lia.
      destruct H as [pre [g [post [Hr [H1 H2]]]]]. rewrite Hr.
      etransitivity; [apply elect_loop_straddle; lia|reflexivity].
Qed.

Theorem elect_top_m_none_only_EValue : forall r m p (s : mstate) e,
  elect_top_m r m p None s = inr e -> e = EValue.
Proof.
  intros r m p s e H.
  destruct (Z_lt_le_dec m 1) as [Hlt|Hge].
  { rewrite elect_top_m_range in H by (left; exact Hlt). inversion H. reflexivity. }
  destruct (Z_lt_le_dec (Z.of_nat (length (flat r))) m) as [Hlt|Hle].
  { rewrite elect_top_m_range in H by (right; exact Hlt). inversion H. reflexivity. }
  rewrite elect_top_m_unfold in H by lia. apply elect_loop_err_none in H.
  destruct H as [[_ Hlen]|[He _]]; [lia|exact He].
Qed.

(* with a tie-break rule, a straddling group is resolved by it: the recorded tie-break is present
   exactly when a group straddled (see also elect_top_m_shape) *)
Theorem elect_top_m_straddle_some : forall pre g post m p kind (s : mstate),
  (Z.of_nat (length (flat pre)) < m)%Z -> (m < Z.of_nat (length (flat pre) + length g))%Z ->
  elect_top_m (pre ++ g :: post) m p (Some kind) s =
  match tiebreak_set g p kind s with
  | inl (t, s') =>
      let k := (Z.to_nat m - length (flat pre))%nat in
      inl ((pre ++ firstn k t, skipn k t ++ post, Some (g, t)), s')
  | inr e => inr e
  end.
Proof.
  intros pre g post m p kind s H1 H2.
  rewrite elect_top_m_unfold.
  - etransitivity; [apply elect_loop_straddle; lia|reflexivity].
  - lia.
  - rewrite flat_app, flat_cons, !app_length. lia.
Qed.

(* (4) counting and partition, when the tie-break answers with a linear order of the tied set *)
Theorem elect_top_m_count_perm : forall r m p tb (s s' : mstate) el rem tbi,
  NoDup (flat r) -> Forall (fun g => g <> []) r -> tb_profile_ok cand p tb (flat r) ->
  elect_top_m r m p tb s = inl ((el, rem, tbi), s') ->
  Z.of_nat (length (flat el)) = m /\ Permutation (flat el ++ flat rem) (flat r) /\
  (forall g t, tbi = Some (g, t) -> exists l, t = singletons l /\ Permutation l g).
Proof.
  intros r m p tb s s' el rem tbi Hnd Hne Hok H.
  apply elect_top_m_shape in H. destruct H as [Hrange [H|H]].
  - destruct H as [Htbi [_ [Hr Hlen]]]. split; [exact Hlen|]. split.
    + rewrite <- flat_app, Hr. apply Permutation_refl.
    + intros g t Hgt. rewrite Htbi in Hgt. discriminate.
  - destruct H as [pre [g [post [t [kind [k [Htb [Hr [Hk [Hk0 [Hkg [Ht [Hel [Hrem Htbi]]]]]]]]]]]]]].
    assert (Hlin : exists l, t = singletons l /\ Permutation l g).
    { apply (tiebreak_set_linear g p kind s s' t).
      - rewrite Hr, flat_app, flat_cons in Hnd.
        apply NoDup_app_inv in Hnd. destruct Hnd as [_ [Hnd _]].
        apply NoDup_app_inv in Hnd. destruct Hnd as [Hnd _]. exact Hnd.
      - destruct g; [cbn [length] in Hkg; lia|discriminate].
      - rewrite Htb in Hok. destruct kind; cbn [tb_profile_ok] in *; try exact I;
          intros pr Hpr; destruct (Hok pr Hpr) as [Ha Hb]; (split; [exact Ha|]);
          intros x Hx; apply Hb; rewrite Hr, flat_app, flat_cons;
          apply in_or_app; right; apply in_or_app; left; exact Hx.
      - exact Ht. }
    destruct Hlin as [l [Htl Hpl]].
    assert (Hll : length l = length g) by (apply Permutation_length; exact Hpl).
    split; [|split].
    + rewrite Hel, Htl, firstn_singletons, flat_app, flat_singletons, app_length, firstn_length.
      rewrite <- Hk. lia.
    + rewrite Hel, Hrem, Htl, firstn_singletons, skipn_singletons, !flat_app, !flat_singletons.
      rewrite Hr, flat_app, flat_cons. rewrite <- app_assoc. apply Permutation_app_head.
      rewrite app_assoc, firstn_skipn. apply Permutation_app_tail. exact Hpl.
    + intros g' t' Hgt. rewrite Htbi in Hgt. inversion Hgt; subst. exists l. split; [reflexivity|exact Hpl].
Qed.

(* all of the above in one statement *)
Theorem elect_top_m_spec : forall r m p tb (s : mstate),
  (* range errors *)
  ((m < 1 \/ Z.of_nat (length (flat r)) < m)%Z -> elect_top_m r m p tb s = inr EValue) /\
  (* shape of a successful result *)
  (forall el rem tbi s', elect_top_m r m p tb s = inl ((el, rem, tbi), s') ->
     (1 <= m <= Z.of_nat (length (flat r)))%Z /\
     ((tbi = None /\ s' = s /\ el ++ rem = r /\ Z.of_nat (length (flat el)) = m)
      \/
      (exists pre g post t kind k,
         tb = Some kind /\ r = pre ++ g :: post /\
         (Z.of_nat (k + length (flat pre)) = m) /\ (0 < k)%nat /\ (k < length g)%nat /\
         tiebreak_set g p kind s = inl (t, s') /\
         el = pre ++ firstn k t /\ rem = skipn k t ++ post /\ tbi = Some (g, t)))) /\
  (* count and partition *)
  (NoDup (flat r) -> Forall (fun g => g <> []) r -> tb_profile_ok cand p tb (flat r) ->
   forall el rem tbi s', elect_top_m r m p tb s = inl ((el, rem, tbi), s') ->
     Z.of_nat (length (flat el)) = m /\ Permutation (flat el ++ flat rem) (flat r) /\
     (forall g t, tbi = Some (g, t) -> exists l, t = singletons l /\ Permutation l g)) /\
  (* without a tie-break: ValueError exactly on bad range or a straddling group, nothing else *)
  (tb = None ->
     (elect_top_m r m p tb s = inr EValue <->
      (m < 1 \/ Z.of_nat (length (flat r)) < m \/ straddlesZ r m)%Z) /\
     (forall e, elect_top_m r m p tb s = inr e -> e = EValue)).
Proof.
  intros r m p tb s. split; [apply elect_top_m_range|]. split; [intros; apply elect_top_m_shape; assumption|].
  split; [intros H1 H2 H3 el rem tbi s' H; eapply elect_top_m_count_perm; eassumption|].
  intros ->. split; [apply elect_top_m_none_error_iff|apply elect_top_m_none_only_EValue].
Qed.

(* ------------------------------------------------------------------ *)
(** * electing the top m of a score list (Plurality / SNTV / Borda step) *)

Lemma tb_profile_ok_incl : forall p tb (cs cs' : cset),
  incl cs' cs -> tb_profile_ok cand p tb cs -> tb_profile_ok cand p tb cs'.
Proof.
  intros p tb cs cs' Hincl H. destruct tb as [[| | |]|]; cbn [tb_profile_ok] in *; try exact I;
    intros pr Hpr; destruct (H pr Hpr) as [Ha Hb]; (split; [exact Ha|]);
    intros x Hx; apply Hb; apply Hincl; exact Hx.
Qed.

Section TopM.
Variable d : scores.
Hypothesis Hd : d <> [].
Hypothesis Hnd : NoDup (map fst d).

Let r := score_to_ranking d true.

(* [g1] is reported before [g2]: strictly larger scores, or both come from the tie-broken group *)
Let before (tied : cset) (g1 g2 : cset) : Prop :=
  forall c1 c2 q1 q2, In c1 g1 -> In c2 g2 -> In (c1, q1) d -> In (c2, q2) d ->
    q2 < q1 \/ (In c1 tied /\ In c2 tied).

Lemma refined_sorted : forall pre g post l, r = pre ++ g :: post -> Permutation l g ->
  StronglySorted (before g) (pre ++ singletons l ++ post).
Proof.
  intros pre g post l Hr Hl.
  pose proof (score_to_ranking_sorted cand d Hd Hnd) as Hs. fold r in Hs. rewrite Hr in Hs.
  apply SS_app_iff in Hs. destruct Hs as [Hpre [Hgpost Hcross]].
  apply StronglySorted_inv in Hgpost. destruct Hgpost as [Hpost Hgall]. rewrite Forall_forall in Hgall.
  assert (Hweak : forall x y, group_gt cand d x y -> before g x y).
  { intros x y H c1 c2 q1 q2 H1 H2 H3 H4. left. eapply H; eassumption. }
  assert (Hsing : forall x, In x (singletons l) -> exists a, x = [a] /\ In a g).
  { intros x Hx. unfold Core.singletons in Hx. apply in_map_iff in Hx. destruct Hx as [a [<- Ha]].
    exists a. split; [reflexivity|]. eapply Permutation_in; eassumption. }
  apply SS_app_iff. repeat split.
  - eapply SS_impl_in; [|exact Hpre]. intros x y _ _. apply Hweak.
  - apply SS_app_iff. repeat split.
    + assert (Hany : forall t : ranking, (forall x, In x t -> exists a, x = [a] /\ In a g) ->
                StronglySorted (before g) t).
      { induction t as [|x t IH]; intros Ht; [constructor|]. constructor.
        - apply IH. intros y Hy. apply Ht. right. exact Hy.
        - apply Forall_forall. intros y Hy.
          destruct (Ht x (or_introl eq_refl)) as [a [-> Ha]].
          destruct (Ht y (or_intror Hy)) as [b [-> Hb]].
          intros c1 c2 q1 q2 [<-|[]] [<-|[]] _ _. right. split; assumption. }
      apply Hany. exact Hsing.
    + eapply SS_impl_in; [|exact Hpost]. intros x y _ _. apply Hweak.
    + intros x y Hx Hy. destruct (Hsing x Hx) as [a [-> Ha]].
      intros c1 c2 q1 q2 [<-|[]] H2 H3 H4. left.
      apply (Hgall y Hy a c2 q1 q2); assumption.
  - intros x y Hx Hy. apply in_app_or in Hy. destruct Hy as [Hy|Hy].
    + destruct (Hsing y Hy) as [a [-> Ha]].
      intros c1 c2 q1 q2 H1 [<-|[]] H3 H4. left.
      apply (Hcross x g Hx (or_introl eq_refl) c1 a q1 q2); assumption.
    + apply Hweak. apply Hcross; [exact Hx|right; exact Hy].
Qed.

Theorem top_m_of_scores : forall m p tb (s s' : mstate) el rem tbi,
  tb_profile_ok cand p tb (map fst d) ->
  elect_top_m r m p tb s = inl ((el, rem, tbi), s') ->
  (* exactly m winners; winners and the rest partition the candidates *)
  Z.of_nat (length (flat el)) = m /\
  Permutation (flat el ++ flat rem) (map fst d) /\
  (* no winner has a lower score than a non-winner *)
  (forall c1 c2 q1 q2, In c1 (flat el) -> In c2 (flat rem) -> In (c1, q1) d -> In (c2, q2) d ->
     q2 <= q1) /\
  (* groups are reported in descending score order: strictly, except inside the tie-broken group *)
  (forall pre g1 mid g2 post c1 c2 q1 q2,
     el ++ rem = pre ++ g1 :: mid ++ g2 :: post ->
     In c1 g1 -> In c2 g2 -> In (c1, q1) d -> In (c2, q2) d ->
     q2 < q1 \/ (q1 == q2 /\ exists g t, tbi = Some (g, t) /\ In c1 g /\ In c2 g)) /\
  (* members of one reported group have equal scores *)
  (forall g c1 c2 q1 q2, In g (el ++ rem) -> In c1 g -> In c2 g -> In (c1, q1) d -> In (c2, q2) d ->
     q1 == q2) /\
  (* candidates with equal scores are reported tied, unless the recorded tie-break separated them *)
  (forall c1 c2 q1 q2, In (c1, q1) d -> In (c2, q2) d -> q1 == q2 ->
     (exists g, In g (el ++ rem) /\ In c1 g /\ In c2 g) \/
     (exists g t, tbi = Some (g, t) /\ In c1 g /\ In c2 g)) /\
  (* without a recorded tie-break the ranking is reported unchanged *)
  (tbi = None -> el ++ rem = r) /\
  (* a recorded tie-break is a linear order of one whole group of the ranking *)
  (forall g t, tbi = Some (g, t) -> In g r /\ exists l, t = singletons l /\ Permutation l g).
Proof.
  intros m p tb s s' el rem tbi Hok H.
  pose proof (score_to_ranking_flat_perm cand d Hd) as Hperm. fold r in Hperm.
  assert (Hndr : NoDup (flat r)) by (apply score_to_ranking_NoDup; assumption).
  assert (Hne : Forall (fun g => g <> []) r).
  { apply Forall_forall. intros g Hg. eapply score_to_ranking_nonempty_groups; eassumption. }
  assert (Hok' : tb_profile_ok cand p tb (flat r)).
  { eapply tb_profile_ok_incl; [|exact Hok]. intros x Hx. eapply Permutation_in; eassumption. }
  destruct (elect_top_m_count_perm r m p tb s s' el rem tbi Hndr Hne Hok' H) as [Hcount [Hpart Hlin]].
  pose proof (elect_top_m_shape r m p tb s s' el rem tbi H) as [_ Hshape].
  (* a uniform description of the reported ranking *)
  assert (Hrep : exists tied, StronglySorted (before tied) (el ++ rem) /\
            (forall g, In g (el ++ rem) -> In g r \/ exists a, g = [a]) /\
            (forall g, In g r -> In g (el ++ rem) \/ (g = tied /\ exists t, tbi = Some (g, t))) /\
            (forall c, In c tied -> exists t, tbi = Some (tied, t)) /\
            (forall c1 c2, In c1 tied -> In c2 tied -> In tied r)).
  { destruct Hshape as [[Htbi [_ [Hr _]]]|Hshape].
    - exists []. rewrite Hr. repeat split.
      + eapply SS_impl_in; [|apply score_to_ranking_sorted; assumption].
        intros x y _ _ Hxy c1 c2 q1 q2 H1 H2 H3 H4. left. eapply Hxy; eassumption.
      + intros g Hg. left. exact Hg.
      + intros g Hg. left. exact Hg.
      + intros c [].
      + intros c1 c2 [].
    - destruct Hshape as [pre [g [post [t [kind [k [Htb [Hr [Hk [Hk0 [Hkg [Ht [Hel [Hrem Htbi]]]]]]]]]]]]]].
      destruct (Hlin g t Htbi) as [l [Htl Hpl]].
      assert (Heq : el ++ rem = pre ++ singletons l ++ post).
      { rewrite Hel, Hrem, <- app_assoc. f_equal. rewrite app_assoc, firstn_skipn, Htl. reflexivity. }
      exists g. rewrite Heq. repeat split.
      + apply refined_sorted; assumption.
      + intros g' Hg'. apply in_app_or in Hg'. destruct Hg' as [Hg'|Hg'].
        * left. rewrite Hr. apply in_or_app. left. exact Hg'.
        * apply in_app_or in Hg'. destruct Hg' as [Hg'|Hg'].
          -- right. unfold Core.singletons in Hg'. apply in_map_iff in Hg'.
             destruct Hg' as [a [<- _]]. exists a. reflexivity.
          -- left. rewrite Hr. apply in_or_app. right. right. exact Hg'.
      + intros g' Hg'. rewrite Hr in Hg'. apply in_app_or in Hg'. destruct Hg' as [Hg'|[<-|Hg']].
        * left. apply in_or_app. left. exact Hg'.
        * right. split; [reflexivity|]. exists t. exact Htbi.
        * left. apply in_or_app. right. apply in_or_app. right. exact Hg'.
      + intros c _. exists t. exact Htbi.
      + intros c1 c2 _ _. rewrite Hr. apply in_or_app. right. left. reflexivity. }
  destruct Hrep as [tied [Hsorted [Hsub [Hsup [Htied Htied_in]]]]].
  assert (Hsame : forall g c1 c2 q1 q2, In g r -> In c1 g -> In c2 g ->
            In (c1, q1) d -> In (c2, q2) d -> q1 == q2).
  { intros g c1 c2 q1 q2 Hg H1 H2 H3 H4.
    apply (score_to_ranking_same_group_iff cand d c1 c2 q1 q2 Hd Hnd H3 H4).
    exists g. repeat split; assumption. }
  assert (Horder : forall pre g1 mid g2 post c1 c2 q1 q2,
     el ++ rem = pre ++ g1 :: mid ++ g2 :: post ->
     In c1 g1 -> In c2 g2 -> In (c1, q1) d -> In (c2, q2) d ->
     q2 < q1 \/ (q1 == q2 /\ exists g t, tbi = Some (g, t) /\ In c1 g /\ In c2 g)).
  { intros pre g1 mid g2 post c1 c2 q1 q2 Heq H1 H2 H3 H4. rewrite Heq in Hsorted.
    apply SS_pair in Hsorted. destruct (Hsorted c1 c2 q1 q2 H1 H2 H3 H4) as [Hlt|[Ht1 Ht2]].
    - left. exact Hlt.
    - right. split.
      + apply (Hsame tied c1 c2 q1 q2); try assumption. apply (Htied_in c1 c2); assumption.
      + destruct (Htied c1 Ht1) as [t Ht]. exists tied, t. repeat split; assumption. }
  split; [exact Hcount|]. split; [eapply Permutation_trans; eassumption|].
  split; [|split; [exact Horder|]].
  - intros c1 c2 q1 q2 H1 H2 H3 H4.
    apply in_concat_iff in H1. destruct H1 as [g1 [Hg1 Hc1]].
    apply in_concat_iff in H2. destruct H2 as [g2 [Hg2 Hc2]].
    apply in_split in Hg1. destruct Hg1 as [a [b Hel]].
    apply in_split in Hg2. destruct Hg2 as [a' [b' Hrem]].
    assert (Heq : el ++ rem = a ++ g1 :: (b ++ a') ++ g2 :: b').
    { rewrite Hel, Hrem, <- !app_assoc. reflexivity. }
    destruct (Horder a g1 (b ++ a') g2 b' c1 c2 q1 q2 Heq Hc1 Hc2 H3 H4) as [Hlt|[Heq' _]].
    + apply Qlt_le_weak. exact Hlt.
    + rewrite Heq'. apply Qle_refl.
  - split; [|split; [|split]].
    + intros g c1 c2 q1 q2 Hg H1 H2 H3 H4. destruct (Hsub g Hg) as [Hgr|[a ->]].
      * exact (Hsame g c1 c2 q1 q2 Hgr H1 H2 H3 H4).
      * destruct H1 as [<-|[]]. destruct H2 as [<-|[]].
        rewrite (NoDup_keys_functional cand d a q1 q2 Hnd H3 H4). reflexivity.
    + intros c1 c2 q1 q2 H1 H2 Heq.
      apply (score_to_ranking_same_group_iff cand d c1 c2 q1 q2 Hd Hnd H1 H2) in Heq.
      destruct Heq as [g [Hg [Hc1 Hc2]]]. fold r in Hg. destruct (Hsup g Hg) as [Hin|[-> [t Ht]]].
      * left. exists g. repeat split; assumption.
      * right. exists tied, t. repeat split; assumption.
    + intros Htbi. destruct Hshape as [[_ [_ [Hr _]]]|Hshape]; [exact Hr|].
      destruct Hshape as [pre [g [post [t [kind [k [_ [_ [_ [_ [_ [_ [_ [_ Hsome]]]]]]]]]]]]]]. congruence.
    + intros g t Hgt. split; [|apply (Hlin g t Hgt)].
      destruct Hshape as [[Htbi _]|Hshape]; [congruence|].
      destruct Hshape as [pre [g' [post [t' [kind [k [_ [Hr [_ [_ [_ [_ [_ [_ Hsome]]]]]]]]]]]]]].
      rewrite Hsome in Hgt. inversion Hgt; subst. rewrite Hr. apply in_or_app. right. left. reflexivity.
Qed.

End TopM.

(* ---------- statements as exported to Properties/C04.v ---------- *)

Theorem c04_top_m_proof : forall (d : scores) (m : Z) (p : option profile) (tb : option tb_kind)
    (s s' : mstate) (el rem : ranking) (tbi : option (cset * ranking)),
  d <> [] -> NoDup (map fst d) -> tb_profile_ok cand p tb (map fst d) ->
  elect_top_m (score_to_ranking d true) m p tb s = inl ((el, rem, tbi), s') ->
  Z.of_nat (length (flat el)) = m /\
  Permutation (flat el ++ flat rem) (map fst d) /\
  (forall c1 c2 q1 q2, In c1 (flat el) -> In c2 (flat rem) -> In (c1, q1) d -> In (c2, q2) d ->
     q2 <= q1) /\
  (forall pre g1 mid g2 post c1 c2 q1 q2,
     el ++ rem = pre ++ g1 :: mid ++ g2 :: post ->
     In c1 g1 -> In c2 g2 -> In (c1, q1) d -> In (c2, q2) d ->
     q2 < q1 \/ (q1 == q2 /\ exists g t, tbi = Some (g, t) /\ In c1 g /\ In c2 g)) /\
  (forall g c1 c2 q1 q2, In g (el ++ rem) -> In c1 g -> In c2 g -> In (c1, q1) d -> In (c2, q2) d ->
     q1 == q2) /\
  (forall c1 c2 q1 q2, In (c1, q1) d -> In (c2, q2) d -> q1 == q2 ->
     (exists g, In g (el ++ rem) /\ In c1 g /\ In c2 g) \/
     (exists g t, tbi = Some (g, t) /\ In c1 g /\ In c2 g)) /\
  (tbi = None -> el ++ rem = score_to_ranking d true) /\
  (forall g t, tbi = Some (g, t) ->
     In g (score_to_ranking d true) /\ exists l, t = singletons l /\ Permutation l g).
Proof.
  intros d m p tb s s' el rem tbi Hd Hnd Hok H.
  exact (top_m_of_scores d Hd Hnd m p tb s s' el rem tbi Hok H).
Qed.

Theorem c04_top_m_errors_proof : forall (d : scores) (m : Z) (p : option profile) (s : mstate),
  d <> [] ->
  (forall tb, (m < 1 \/ Z.of_nat (length d) < m)%Z ->
     elect_top_m (score_to_ranking d true) m p tb s = inr EValue) /\
  (elect_top_m (score_to_ranking d true) m p None s = inr EValue <->
   (m < 1 \/ Z.of_nat (length d) < m \/
    exists pre g post, score_to_ranking d true = pre ++ g :: post /\
      Z.of_nat (length (flat pre)) < m /\ m < Z.of_nat (length (flat pre) + length g))%Z) /\
  (forall e, elect_top_m (score_to_ranking d true) m p None s = inr e -> e = EValue).
Proof.
  intros d m p s Hd.
  assert (Hlen : length (flat (score_to_ranking d true)) = length d).
  { rewrite (Permutation_length (score_to_ranking_flat_perm cand d Hd)). apply map_length. }
  split; [|split].
  - intros tb H. apply elect_top_m_range. rewrite Hlen. exact H.
  - rewrite elect_top_m_none_error_iff, Hlen. unfold straddlesZ. reflexivity.
  - apply elect_top_m_none_only_EValue.
Qed.

End Elect.
