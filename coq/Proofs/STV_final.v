(* Proofs/STV_final.v — the round-level weight laws (C02 transfer law, C03 accounting) restated
   directly on the result of [stv_step], in the exact shape used by Properties/C02.v and
   Properties/C03_rounds.v. *)
From VK Require Import Base Core STV EditSpec ScoreSpec STVSpec.
From VK.Proofs Require Import Lib_sets Lib_rk Lib_condense Lib_condense12 C12_edit C03_transfer
  C04_scoring Elect STV_lib STV_wsum STV_tb STV_step STV_round STV_threshold STV_weights STV_inv
  STV_cases.
From Coq Require Import Permutation Lia Lqa Setoid Morphisms.

Section WithCand.
Variable cand : Type.
Variable ceqb : cand -> cand -> bool.
Hypothesis ceqb_spec : forall a b, reflect (a = b) (ceqb a b).

Notation cset := (cset cand).
Notation ranking := (ranking cand).
Notation ballot := (ballot cand).
Notation profile := (profile cand).
Notation mstate := (mstate cand).
Notation estate := (estate cand).
Notation flat := (flat cand).
Notation strip := (strip cand ceqb).
Notation total_wt := (total_wt cand).
Notation wtof_rk := (wtof_rk cand ceqb).
Notation wt_where := (wt_where cand).
Notation maps_to := (maps_to cand ceqb).
Notation exhausted := (exhausted cand ceqb).
Notation tally := (tally cand ceqb).
Notation wf_stv0 := (wf_stv0 cand).
Notation wf_stv_profile := (wf_stv_profile cand).
Notation step_ctx := (step_ctx cand ceqb).
Notation script_ok := (script_ok cand).
Notation reaches := (reaches cand ceqb).
Notation keep_share := (keep_share cand ceqb).
Notation moved_to := (moved_to cand ceqb).
Notation exhausted_wt := (exhausted_wt cand ceqb).
Notation stv_step := (stv_step cand ceqb).

Section Step.
Variable cfg : stv_cfg.
Variable t : Q.
Variables p0 p : profile.
Variable prev : estate.
Variable n : Z.
Variables s s' : mstate.
Variable np : profile.
Variable st : estate.
Hypothesis Hctx : step_ctx p0 p prev.
Hypothesis Hstep : stv_step cfg t p0 n p prev s = inl ((np, st), s').

Let k := s_transfer cfg.
Let bs := ballots p.
Let Hwf : wf_stv0 p := ctx_wf cand ceqb p0 p prev Hctx.

Lemma not_both : (exists c, reaches t p c) -> (forall c, In c (cands p) -> tally c bs < t) -> False.
Proof. intros (c & Hc & Hct) H. apply (Qlt_not_le _ _ (H c Hc)). exact Hct. Qed.

(* ---------- C02: the transfer law ---------- *)

Theorem round_weights_elect : forall r', k <> TRandom -> (exists c, reaches t p c) ->
  nonempty r' = true ->
  wtof_rk r' (ballots np) ==
  moved_to (flat (elected st)) (keep_share k (flat (elected st)) t bs) r' bs.
Proof.
  intros r' Hk Hsome Hne.
  assert (Hscr : k = TRandom -> script_ok s) by (intros E; contradiction).
  destruct (stv_step_ok_inv cand ceqb ceqb_spec cfg t p0 p prev Hctx n s s' np st Hscr Hstep)
    as [[_ (W & others & mvs & s1 & Hr)]|[(Hnone & _)|(Hnone & _)]];
    [|exfalso; apply (not_both Hsome Hnone)|exfalso; apply (not_both Hsome Hnone)].
  rewrite (er_W _ _ _ _ _ _ _ _ _ _ _ _ _ _ Hr).
  apply (elect_round_weights cand ceqb ceqb_spec cfg t p0 p prev st np s s' W others mvs s1 Hctx Hr r' Hk Hne).
Qed.

Theorem round_weights_elim : (k = TRandom -> script_ok s) ->
  (forall c, In c (cands p) -> tally c bs < t) -> Z.of_nat (length (cands p)) <> (s_m cfg - n)%Z ->
  exists x, eliminated st = [[x]] /\
    forall r', nonempty r' = true -> wtof_rk r' (ballots np) == wt_where (maps_to [x] r') bs.
Proof.
  intros Hscr Hnone Hcnt.
  destruct (stv_step_ok_inv cand ceqb ceqb_spec cfg t p0 p prev Hctx n s s' np st Hscr Hstep)
    as [[Hsome _]|[(_ & Hc & _)|(_ & _ & x & Hx)]];
    [exfalso; apply (not_both Hsome Hnone)|contradiction|].
  exists x. split; [apply (xr_elim _ _ _ _ _ _ _ _ _ _ Hx)|]. intros r' Hne.
  apply (elim_round_weights cand ceqb ceqb_spec p0 p prev st np s s' x Hwf Hx r' Hne).
Qed.

(* ---------- C03: the total weight ---------- *)

Theorem round_monotone : 0 <= t -> (k = TRandom -> script_ok s /\ is_integral t = true) ->
  total_wt (ballots np) <= total_wt bs.
Proof.
  intros Ht Hrand.
  assert (Hscr : k = TRandom -> script_ok s) by (intros E; apply (Hrand E)).
  destruct (stv_step_ok_inv cand ceqb ceqb_spec cfg t p0 p prev Hctx n s s' np st Hscr Hstep)
    as [[_ (W & others & mvs & s1 & Hr)]|[(_ & _ & _ & Hd)|(_ & _ & x & Hx)]].
  - apply (elect_round_monotone cand ceqb ceqb_spec cfg t p0 p prev st np s s' W others mvs s1 Hctx Hr Ht Hrand).
  - destruct Hd as [-> _ _ _ _ _ _]. apply (total_wt_nonneg cand p Hwf).
  - apply (elim_round_monotone cand ceqb p0 p prev st np s s' x Hwf Hx).
Qed.

Theorem round_accounting_elect : k <> TRandom -> (exists c, reaches t p c) ->
  total_wt bs - total_wt (ballots np) ==
  match k with TFractional => t * Qnat (length (flat (elected st))) | _ => 0 end
  + exhausted_wt (flat (elected st)) (keep_share k (flat (elected st)) t bs) bs
  /\ 0 <= exhausted_wt (flat (elected st)) (keep_share k (flat (elected st)) t bs) bs.
Proof.
  intros Hk Hsome.
  assert (Hscr : k = TRandom -> script_ok s) by (intros E; contradiction).
  destruct (stv_step_ok_inv cand ceqb ceqb_spec cfg t p0 p prev Hctx n s s' np st Hscr Hstep)
    as [[_ (W & others & mvs & s1 & Hr)]|[(Hnone & _)|(Hnone & _)]];
    [|exfalso; apply (not_both Hsome Hnone)|exfalso; apply (not_both Hsome Hnone)].
  rewrite (er_W _ _ _ _ _ _ _ _ _ _ _ _ _ _ Hr). split.
  - apply (elect_round_total cand ceqb ceqb_spec cfg t p0 p prev st np s s' W others mvs s1 Hctx Hr Hk).
  - apply (exhausted_wt_nonneg cand ceqb ceqb_spec cfg t p0 p prev st np s s' W others mvs s1 Hctx Hr).
Qed.

Theorem round_quota_bound : k <> TFullWeight ->
  (k = TRandom -> script_ok s /\ is_integral t = true) -> (exists c, reaches t p c) ->
  total_wt (ballots np) <= total_wt bs - t * Qnat (length (flat (elected st))).
Proof.
  intros Hk Hrand Hsome.
  assert (Hscr : k = TRandom -> script_ok s) by (intros E; apply (Hrand E)).
  destruct (stv_step_ok_inv cand ceqb ceqb_spec cfg t p0 p prev Hctx n s s' np st Hscr Hstep)
    as [[_ (W & others & mvs & s1 & Hr)]|[(Hnone & _)|(Hnone & _)]];
    [|exfalso; apply (not_both Hsome Hnone)|exfalso; apply (not_both Hsome Hnone)].
  rewrite (er_W _ _ _ _ _ _ _ _ _ _ _ _ _ _ Hr).
  apply (elect_round_bound cand ceqb ceqb_spec cfg t p0 p prev st np s s' W others mvs s1 Hctx Hr Hk Hrand).
Qed.

Theorem round_accounting_elim : (k = TRandom -> script_ok s) ->
  (forall c, In c (cands p) -> tally c bs < t) -> Z.of_nat (length (cands p)) <> (s_m cfg - n)%Z ->
  exists x, eliminated st = [[x]] /\
    total_wt bs - total_wt (ballots np) == wt_where (exhausted [x]) bs.
Proof.
  intros Hscr Hnone Hcnt.
  destruct (stv_step_ok_inv cand ceqb ceqb_spec cfg t p0 p prev Hctx n s s' np st Hscr Hstep)
    as [[Hsome _]|[(_ & Hc & _)|(_ & _ & x & Hx)]];
    [exfalso; apply (not_both Hsome Hnone)|contradiction|].
  exists x. split; [apply (xr_elim _ _ _ _ _ _ _ _ _ _ Hx)|].
  apply (elim_round_total cand ceqb p0 p prev st np s s' x Hwf Hx).
Qed.

(* default election: every remaining candidate is elected, no ballot has a surviving choice *)
Theorem round_accounting_default : (k = TRandom -> script_ok s) ->
  (forall c, In c (cands p) -> tally c bs < t) -> Z.of_nat (length (cands p)) = (s_m cfg - n)%Z ->
  ballots np = [] /\ forall b, In b bs -> exhausted (flat (elected st)) b = true.
Proof.
  intros Hscr Hnone Hcnt.
  destruct (stv_step_ok_inv cand ceqb ceqb_spec cfg t p0 p prev Hctx n s s' np st Hscr Hstep)
    as [[Hsome _]|[(_ & _ & _ & Hd)|(_ & Hc & _)]];
    [exfalso; apply (not_both Hsome Hnone)| |contradiction].
  destruct Hd as [-> Hel _ _ _ _ _]. split; [reflexivity|]. intros b Hb.
  unfold EditSpec.exhausted. apply negb_true_iff. apply nonempty_false_iff.
  destruct (strip (flat (elected st)) (rk b)) as [|g r0] eqn:E; [reflexivity|]. exfalso.
  pose proof (strip_no_empty cand ceqb (flat (elected st)) (rk b)) as Hne. rewrite E in Hne.
  inversion Hne as [|x l Hg _]; subst. destruct g as [|c g]; [apply Hg; reflexivity|].
  assert (Hc : In c (Core.flat cand (strip (flat (elected st)) (rk b)))).
  { rewrite E. unfold Core.flat. cbn [concat]. left. reflexivity. }
  apply (strip_keeps cand ceqb ceqb_spec) in Hc. destruct Hc as [Hin Hnot]. apply Hnot.
  rewrite Hel. apply (ctx_flat_in cand ceqb p0 p prev Hctx).
  destruct Hwf as [_ Hwfb]. rewrite Forall_forall in Hwfb.
  destruct (Hwfb b Hb) as (_ & _ & _ & Hincl & _). apply Hincl. exact Hin.
Qed.

End Step.

(* ====================== a boolean test for validity (used by the examples) ====================== *)

Definition wf_ballot_b (cs : cset) (b : ballot) : bool :=
  nonempty (rk b) && forallb (fun g => Nat.eqb (length g) 1) (rk b) &&
  negb (has_dup cand ceqb (flat (rk b))) && subsetb cand ceqb (flat (rk b)) cs &&
  Qlt_bool 0 (wt b) && negb (nonempty (sc b)).

Definition wf_stv_profile_b (p : profile) : bool :=
  negb (has_dup cand ceqb (cands p)) && forallb (wf_ballot_b (cands p)) (ballots p) &&
  nonempty (cands p) && nonempty (ballots p).

Lemma wf_stv_profile_b_ok : forall p, wf_stv_profile_b p = true -> wf_stv_profile p.
Proof.
  intros p H. unfold wf_stv_profile_b in H. rewrite !andb_true_iff in H.
  destruct H as [[[H1 H2] H3] H4]. apply negb_true_iff in H1.
  apply (Lib_rk.has_dup_false_iff cand ceqb ceqb_spec) in H1.
  split; [|split; apply nonempty_true_iff; assumption]. split; [exact H1|].
  apply Forall_forall. intros b Hb. rewrite forallb_forall in H2. specialize (H2 b Hb).
  unfold wf_ballot_b in H2. rewrite !andb_true_iff in H2.
  destruct H2 as [[[[[A B] C] D] E] F]. unfold STVSpec.wf_stv_ballot.
  split; [apply nonempty_true_iff; exact A|]. split.
  { apply Forall_forall. intros g Hg. rewrite forallb_forall in B. apply Nat.eqb_eq. apply B. exact Hg. }
  split; [apply (Lib_rk.has_dup_false_iff cand ceqb ceqb_spec); apply negb_true_iff; exact C|].
  split; [apply (Lib_rk.subsetb_incl cand ceqb ceqb_spec); exact D|].
  split; [apply Lib_rk.Qlt_bool_iff; exact E|].
  apply negb_true_iff in F. apply nonempty_false_iff. exact F.
Qed.

End WithCand.
