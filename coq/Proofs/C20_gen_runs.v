(* Proofs/C20_gen_runs.v — the C20 link between construction-time validation and generator runs:
   a name model whose parameters violate a documented precondition produces no profile at all,
   whatever the random stream; when the constructor accepts, the run theorems of C14 apply with
   their interval hypotheses discharged by the construction. *)
From VK Require Import Base Core GenValidation PrefInterval Generators.
From VK.Spec Require Import Content BTSpec BlocSpec GenSpec GenRunSpec GenConstructSpec GenPipelineSpec.
From VK.Proofs Require Import Lib_rk Lib_sets C14_wf C14_runs C20_blocs C20_gen.
From Coq Require Import Permutation Lia.

Lemma pipeline_refused : forall props intervals cohesion bl draws e,
  gen_construct props intervals cohesion = inr e ->
  name_pl_pipeline props intervals cohesion bl draws = inr e.
Proof. intros props intervals cohesion bl draws e H. unfold name_pl_pipeline. rewrite H. reflexivity. Qed.

Lemma cum_pipeline_refused : forall props intervals cohesion nv draws e,
  gen_construct props intervals cohesion = inr e ->
  name_cumulative_pipeline props intervals cohesion nv draws = inr e.
Proof. intros props intervals cohesion nv draws e H. unfold name_cumulative_pipeline. rewrite H. reflexivity. Qed.

(* each documented precondition, for all inputs violating it and every stream *)
Theorem pipeline_refuses_parameters : forall props intervals cohesion bl draws,
  (~ props_ok props \/ ~ names_pi_ok props (map fst intervals) \/ ~ names_coh_ok props cohesion \/
   (exists row, In row cohesion /\ ~ row_ok row)) ->
  name_pl_pipeline props intervals cohesion bl draws = inr EValue.
Proof.
  intros props intervals cohesion bl draws H. apply pipeline_refused.
  destruct (gen_refuses_parameters props intervals cohesion) as (H1 & H2 & H3 & H4).
  destruct H as [H|[H|[H|H]]]; [apply H1|apply H2|apply H3|apply H4]; exact H.
Qed.

Theorem pipeline_refuses_overlap : forall props intervals cohesion bl draws b is,
  intervals_wf intervals -> cohesion_nonneg cohesion ->
  rows_cover intervals (map fst props) -> rows_cover cohesion (map fst props) ->
  In b (map fst props) -> bloc_intervals intervals (map fst props) b = inl is ->
  (self_repeating (map pi_cands is) \/ overlapping (map pi_cands is)) ->
  name_pl_pipeline props intervals cohesion bl draws = inr EValue.
Proof.
  intros props intervals cohesion bl draws b is Hw Hn Hc1 Hc2 Hb His Hov. apply pipeline_refused.
  apply (gen_refuses_overlap props intervals cohesion b is); assumption.
Qed.

Lemma with_draws_in : forall (D : Type) ivs (draws : list D) x,
  In x (with_draws ivs draws) -> In (fst (fst x), snd (fst x)) ivs.
Proof.
  intros D ivs draws x H. unfold with_draws in H. apply in_map_iff in H.
  destruct H as ([[b r] d] & <- & Hin). cbn [fst snd]. apply (in_combine_l _ _ _ _ Hin).
Qed.

(* acceptance: the run is a run on constructed intervals, and every ballot is duplicate-free and
   uses only the voter bloc's declared candidates *)
Theorem pipeline_accepts : forall props intervals cohesion bl draws by_bloc agg calls,
  intervals_wf intervals -> cohesion_nonneg cohesion ->
  name_pl_pipeline props intervals cohesion bl draws = inl (by_bloc, agg, calls) ->
  exists ivs,
    gen_construct props intervals cohesion = inl ivs /\ map fst ivs = map fst props /\
    gen_pl_run bl (with_draws ivs draws) = inl (by_bloc, agg, calls) /\
    run_wf pl_bid pl_size (pl_shape_of bl) (with_draws ivs draws) by_bloc agg /\
    forall b, In b (ballots agg) ->
      NoDup (flat pcand (rk b)) /\ length (flat pcand (rk b)) = bl /\
      exists bid r is, In (bid, r) ivs /\
        bloc_intervals intervals (map fst props) bid = inl is /\
        incl (flat pcand (rk b)) (concat (map pi_cands is)).
Proof.
  intros props intervals cohesion bl draws by_bloc agg calls Hw Hn H. unfold name_pl_pipeline in H.
  apply rbind_inl in H. destruct H as (ivs & Hc & Hr). exists ivs.
  destruct (gen_success props intervals cohesion ivs Hw Hn Hc) as (Hk & Hs).
  split; [exact Hc|]. split; [exact Hk|]. split; [exact Hr|].
  pose proof (gen_pl_wf _ _ _ _ _ Hr) as W. split; [exact W|].
  destruct W as (_ & _ & _ & _ & _ & Hshape & _).
  intros b Hb. destruct (Hshape b Hb) as (x & Hx & (_ & Hlen & Hincl & Hnd & _)).
  apply with_draws_in in Hx. destruct (Hs _ _ Hx) as (_ & is & ps & Hbi & _ & _ & _ & _ & _ & _ & _ & _ & _ & _ & Hndc & _ & P).
  split; [apply Hnd; exact Hndc|]. split; [exact Hlen|].
  exists (fst (fst x)), (snd (fst x)), is. split; [exact Hx|]. split; [exact Hbi|].
  intros c Hin. apply (Permutation_in _ P). apply Hincl. exact Hin.
Qed.
