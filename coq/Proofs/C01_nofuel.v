(* Proofs/C01_nofuel.v — the error [EFuel] ("the real code would not terminate") is produced only
   by the fuel-bounded loops.  Purely syntactic: every primitive below either succeeds or fails
   with an error constructor different from [EFuel], and the monadic glue preserves that.  No
   well-formedness assumption on the inputs, no hypothesis on [ceqb].
   N1 [stv_step_no_fuel], N2 [stv_replay_no_fuel], N3 the loop-free rules. *)
From VK Require Import Base Core STV Pairwise Rules.

Section NoFuel.
Variable cand : Type.
Variable ceqb : cand -> cand -> bool.

Notation cset := (cset cand).
Notation ranking := (ranking cand).
Notation ballot := (ballot cand).
Notation profile := (profile cand).
Notation scores := (scores cand).
Notation estate := (estate cand).
Notation mstate := (mstate cand).
Notation M := (M cand).

(* ------------------------------------------------------------------ *)
(** * combinators *)

Definition rnf {A} (r : res A) : Prop := r <> inr EFuel.
Definition nf {A} (x : M A) : Prop := forall s : mstate, x s <> inr EFuel.

Lemma rnf_inl : forall A (a : A), rnf (inl a).
Proof. intros A a H. discriminate. Qed.

Lemma rnf_ok : forall A (a : A), rnf (ok a).
Proof. intros A a. apply rnf_inl. Qed.

Lemma rnf_err : forall A e, e <> EFuel -> rnf (@err A e).
Proof. intros A e Hne H. unfold err in H. injection H as He. exact (Hne He). Qed.

Lemma rnf_bind : forall A B (r : res A) (f : A -> res B),
  rnf r -> (forall a, rnf (f a)) -> rnf (rbind r f).
Proof.
  intros A B r f Hr Hf H. destruct r as [a|e]; cbn [rbind] in H.
  - exact (Hf a H).
  - injection H as He. subst e. apply Hr. reflexivity.
Qed.

Lemma rnf_rmap : forall A B (f : A -> res B) (l : list A), (forall a, rnf (f a)) -> rnf (rmap f l).
Proof.
  intros A B f l Hf. induction l as [|a l IH]; cbn [rmap]; [apply rnf_ok|].
  apply rnf_bind; [apply Hf|]. intros b. apply rnf_bind; [exact IH|]. intros bs. apply rnf_ok.
Qed.

Lemma rnf_rfirst_err : forall A (f : A -> res unit) (l : list A),
  (forall a, rnf (f a)) -> rnf (rfirst_err f l).
Proof.
  intros A f l Hf. induction l as [|a l IH]; cbn [rfirst_err]; [apply rnf_ok|].
  apply rnf_bind; [apply Hf|]. intros _. exact IH.
Qed.

Lemma nf_ret : forall A (a : A), nf (mret a).
Proof. intros A a s H. unfold mret, ok in H. discriminate. Qed.

Lemma nf_fail : forall A e, e <> EFuel -> nf (@mfail cand A e).
Proof. intros A e Hne s H. unfold mfail, err in H. injection H as He. exact (Hne He). Qed.

Lemma nf_lift : forall A (r : res A), rnf r -> nf (mlift r).
Proof.
  intros A r Hr s H. unfold mlift in H. destruct r as [a|e]; [unfold ok in H; discriminate|].
  injection H as He. subst e. apply Hr. reflexivity.
Qed.

Lemma nf_bind : forall A B (x : M A) (k : A -> M B),
  nf x -> (forall a, nf (k a)) -> nf (mbind x k).
Proof.
  intros A B x k Hx Hk s H. unfold mbind in H. destruct (x s) as [[a s1]|e] eqn:E.
  - exact (Hk a s1 H).
  - injection H as He. subst e. exact (Hx s E).
Qed.

Ltac nff := apply nf_fail; discriminate.
Ltac rnfe := apply rnf_err; discriminate.

(* ------------------------------------------------------------------ *)
(** * Model/Core.v *)

Lemma rnf_mk_profile : forall bs cs, rnf (mk_profile cand ceqb bs cs).
Proof. intros bs cs. unfold Core.mk_profile. destruct (has_dup cand ceqb cs); [rnfe|apply rnf_ok]. Qed.

Lemma rnf_validate_vector_from : forall v prev, rnf (validate_vector_from prev v).
Proof.
  induction v as [|x v IH]; intros prev; cbn [validate_vector_from]; [apply rnf_ok|].
  destruct (Qlt_bool x 0); [rnfe|]. destruct prev as [q|]; [|apply IH].
  destruct (Qlt_bool q x); [rnfe|apply IH].
Qed.

Lemma rnf_add_missing : forall p : profile, rnf (add_missing cand ceqb p).
Proof.
  intros p. unfold Core.add_missing. apply rnf_bind; [|intros bs; apply rnf_ok].
  apply rnf_rmap. intros b. unfold Core.add_missing_ballot.
  destruct (rk b) as [|g r]; [rnfe|apply rnf_ok].
Qed.

Lemma rnf_score_rankings : forall (p : profile) v, rnf (score_rankings cand ceqb p v).
Proof.
  intros p v. unfold Core.score_rankings. apply rnf_bind.
  - unfold Core.validate_vector. apply rnf_validate_vector_from.
  - intros _. cbv zeta. apply rnf_bind; [apply rnf_add_missing|]. intros p'.
    destruct (existsb _ (ballots p')); [rnfe|].
    destruct (negb _); [rnfe|apply rnf_ok].
Qed.

Lemma rnf_first_place_votes : forall p : profile, rnf (first_place_votes cand ceqb p).
Proof. intros p. unfold Core.first_place_votes. apply rnf_score_rankings. Qed.

Lemma rnf_borda_scores : forall p : profile, rnf (borda_scores cand ceqb p).
Proof. intros p. unfold Core.borda_scores. apply rnf_score_rankings. Qed.

Lemma rnf_score_from_scores : forall p : profile, rnf (score_from_scores cand ceqb p).
Proof.
  intros p. unfold Core.score_from_scores.
  destruct (existsb _ (ballots p)); [rnfe|]. destruct (negb _); [rnfe|apply rnf_ok].
Qed.

Lemma rnf_remove_cand_prof : forall removed cf lz (p : profile),
  rnf (remove_cand_prof cand ceqb removed cf lz p).
Proof. intros removed cf lz p. unfold Core.remove_cand_prof. cbv zeta. apply rnf_mk_profile. Qed.

Lemma rnf_ballots_by_first_check : forall p : profile, rnf (ballots_by_first_check cand ceqb p).
Proof.
  intros p. unfold Core.ballots_by_first_check. apply rnf_rfirst_err. intros b.
  destruct (rk b) as [|g r]; [rnfe|].
  destruct g as [|c [|c' g]]; [rnfe| |rnfe].
  destruct (memb cand ceqb c (cands p)); [apply rnf_ok|rnfe].
Qed.

Lemma nf_next_draw : forall c, nf (next_draw cand c).
Proof.
  intros c s H. unfold Core.next_draw in H. destruct (scr s) as [|d rest].
  - unfold err in H. discriminate.
  - unfold ok in H. discriminate.
Qed.

Lemma nf_draw_perm : forall g : cset, nf (draw_perm cand ceqb g).
Proof.
  intros g. unfold Core.draw_perm. apply nf_bind; [apply nf_next_draw|]. intros d.
  destruct d as [l|r|l|q|c|l]; try nff.
  destruct (is_perm_of cand ceqb l g); [apply nf_ret|nff].
Qed.

Lemma nf_random_break : forall r : ranking, nf (random_break cand ceqb r).
Proof.
  induction r as [|g r IH]; cbn [random_break]; [apply nf_ret|].
  destruct g as [|c [|c' g]].
  - apply nf_bind; [exact IH|intros rest; apply nf_ret].
  - apply nf_bind; [exact IH|intros rest; apply nf_ret].
  - apply nf_bind; [apply nf_draw_perm|]. intros l.
    apply nf_bind; [exact IH|intros rest; apply nf_ret].
Qed.

Lemma nf_tiebreak_set : forall (g : cset) (p : option profile) k, nf (tiebreak_set cand ceqb g p k).
Proof.
  intros g p k. unfold Core.tiebreak_set. destruct k.
  - apply nf_bind; [apply nf_draw_perm|intros l; apply nf_ret].
  - destruct p as [pr|]; [|nff].
    apply nf_bind; [apply nf_lift; apply rnf_first_place_votes|]. intros d. cbv zeta.
    destruct (existsb _ _); [apply nf_random_break|apply nf_ret].
  - destruct p as [pr|]; [|nff].
    apply nf_bind; [apply nf_lift; apply rnf_borda_scores|]. intros d. cbv zeta.
    destruct (existsb _ _); [apply nf_random_break|apply nf_ret].
  - nff.
Qed.

Lemma nf_elect_loop : forall (r : ranking) need acc (p : option profile) tb,
  nf (elect_loop cand ceqb r need acc p tb).
Proof.
  induction r as [|g r IH]; intros need acc p tb; destruct need as [|need]; cbn [elect_loop].
  - apply nf_ret.
  - nff.
  - apply nf_ret.
  - destruct (Nat.leb (length g) (S need)); [apply IH|].
    destruct tb as [k|]; [|nff].
    apply nf_bind; [apply nf_tiebreak_set|intros t; apply nf_ret].
Qed.

Lemma nf_elect_top_m : forall (r : ranking) m (p : option profile) tb,
  nf (elect_top_m cand ceqb r m p tb).
Proof.
  intros r m p tb. unfold Core.elect_top_m. destruct (m <? 1)%Z; [nff|].
  destruct (Z.of_nat (ranking_size cand r) <? m)%Z; [nff|apply nf_elect_loop].
Qed.

(* ------------------------------------------------------------------ *)
(** * Model/STV.v *)

Lemma rnf_frac_transfer : forall w fpv (bs : list ballot) t, rnf (frac_transfer cand ceqb w fpv bs t).
Proof.
  intros w fpv bs t. unfold STV.frac_transfer. destruct (Qeq_bool fpv 0); [rnfe|]. cbv zeta.
  apply rnf_bind; [|intros moved; apply rnf_ok].
  apply rnf_rmap. intros b. destruct (rk b) as [|g r]; [rnfe|apply rnf_ok].
Qed.

Lemma nf_rand_transfer : forall w fpv (bs : list ballot) t, nf (rand_transfer cand ceqb w fpv bs t).
Proof.
  intros w fpv bs t. unfold STV.rand_transfer. apply nf_bind.
  { apply nf_lift. apply rnf_rfirst_err. intros b.
    destruct (negb (is_integral (wt b))); [rnfe|]. destruct (rk b) as [|g r]; [rnfe|apply rnf_ok]. }
  intros _. cbv zeta. destruct (orb _ _); [nff|].
  apply nf_bind; [apply nf_next_draw|]. intros d.
  destruct d as [l|r|l|q|c|l]; try nff.
  destruct (valid_ballot_sample cand ceqb _ _ l); [apply nf_ret|nff].
Qed.

Lemma nf_do_transfer : forall k w fpv (bs : list ballot) t, nf (do_transfer cand ceqb k w fpv bs t).
Proof.
  intros k w fpv bs t. destruct k; cbn [do_transfer].
  - apply nf_lift. apply rnf_frac_transfer.
  - apply nf_rand_transfer.
  - apply nf_lift. unfold STV.full_transfer. apply rnf_ok.
Qed.

Lemma rnf_quota_groups : forall (r : ranking) (d : scores) t, rnf (quota_groups cand ceqb r d t).
Proof.
  induction r as [|g r IH]; intros d t; cbn [quota_groups]; [apply rnf_ok|].
  destruct g as [|c g]; [rnfe|]. destruct (score_ge cand ceqb d t c); [|apply rnf_ok].
  apply rnf_bind; [apply IH|intros rest; apply rnf_ok].
Qed.

Lemma nf_transfer_all : forall k ws (p : profile) (d : scores) t,
  nf (transfer_all cand ceqb k ws p d t).
Proof.
  intros k ws p d t. induction ws as [|w ws IH]; cbn [transfer_all]; [apply nf_ret|].
  destruct (negb (memb cand ceqb w (cands p))); [nff|].
  apply nf_bind; [apply nf_do_transfer|]. intros a.
  apply nf_bind; [exact IH|intros rest; apply nf_ret].
Qed.

Lemma nf_simultaneous_elect : forall cfg t (p : profile) (prev : estate),
  nf (simultaneous_elect cand ceqb cfg t p prev).
Proof.
  intros cfg t p prev. unfold STV.simultaneous_elect.
  apply nf_bind; [apply nf_lift; apply rnf_quota_groups|]. intros el.
  apply nf_bind; [apply nf_lift; apply rnf_ballots_by_first_check|]. intros _. cbv zeta.
  apply nf_bind; [apply nf_transfer_all|]. intros moved.
  destruct (negb _); [nff|].
  apply nf_bind; [apply nf_lift; apply rnf_mk_profile|]. intros np. apply nf_ret.
Qed.

Lemma nf_single_elect : forall cfg t (p : profile) (prev : estate),
  nf (single_elect cand ceqb cfg t p prev).
Proof.
  intros cfg t p prev. unfold STV.single_elect.
  apply nf_bind; [apply nf_elect_top_m|]. intros [[el rem] tb]. cbv beta iota zeta.
  apply nf_bind; [apply nf_lift; apply rnf_ballots_by_first_check|]. intros _.
  destruct el as [|[|w g] el']; [nff|nff|].
  destruct (negb (memb cand ceqb w (cands p))); [nff|].
  apply nf_bind; [apply nf_do_transfer|]. intros moved.
  destruct (negb _); [nff|].
  apply nf_bind; [apply nf_lift; apply rnf_mk_profile|]. intros np. apply nf_ret.
Qed.

Lemma nf_stv_step : forall cfg t (p0 : profile) n (p : profile) (prev : estate),
  nf (stv_step cand ceqb cfg t p0 n p prev).
Proof.
  intros cfg t p0 n p prev. unfold STV.stv_step. cbv zeta. apply nf_bind.
  - destruct (filter _ (escores prev)) as [|q above].
    + destruct (Z.of_nat (length (cands p)) =? s_m cfg - n)%Z; [apply nf_ret|].
      destruct (rev (remaining prev)) as [|lowest others]; [nff|].
      apply nf_bind.
      * destruct lowest as [|c [|c' g]]; [nff|apply nf_ret|].
        apply nf_bind; [apply nf_tiebreak_set|]. intros tb.
        destruct (rev tb) as [|[|c0 g0] r0]; [nff|nff|apply nf_ret].
      * intros [x tbs]. apply nf_bind; [apply nf_lift; apply rnf_remove_cand_prof|].
        intros np. apply nf_ret.
    + destruct (s_simul cfg).
      * apply nf_bind; [apply nf_simultaneous_elect|]. intros [el np]. apply nf_ret.
      * apply nf_bind; [apply nf_single_elect|]. intros [[el tbs] np]. apply nf_ret.
  - intros [[[el elim] tbs] np].
    apply nf_bind; [apply nf_lift; apply rnf_first_place_votes|]. intros d. apply nf_ret.
Qed.

(* N1 *)
Theorem stv_step_no_fuel : forall cfg t (p0 : profile) n (p : profile) (prev : estate) (s : mstate),
  stv_step cand ceqb cfg t p0 n p prev s <> inr EFuel.
Proof. intros cfg t p0 n p prev s. apply nf_stv_step. Qed.

Lemma rnf_ranking_validate : forall p : profile, rnf (ranking_validate cand p).
Proof.
  intros p. unfold STV.ranking_validate. apply rnf_rfirst_err. intros b.
  destruct (rk b) as [|g r]; [rnfe|apply rnf_ok].
Qed.

(* ------------------------------------------------------------------ *)
(** * Model/Rules.v: the get_profile replay *)

Lemma nf_stv_replay : forall cfg t (p0 : profile) (sts done : list estate) (p : profile),
  nf (stv_replay cand ceqb cfg t p0 done p sts).
Proof.
  intros cfg t p0 sts. induction sts as [|prev rest IH]; intros done p; cbn [stv_replay];
    [apply nf_ret|].
  apply nf_bind; [apply nf_stv_step|]. intros [np st]. apply IH.
Qed.

(* N2 *)
Theorem stv_replay_no_fuel : forall cfg t (p0 : profile) (sts done : list estate) (p : profile)
                                    (s : mstate),
  stv_replay cand ceqb cfg t p0 done p sts s <> inr EFuel.
Proof. intros cfg t p0 sts done p s. apply nf_stv_replay. Qed.

(* ------------------------------------------------------------------ *)
(** * N3: the rules without a fuel-bounded loop *)

Lemma rnf_score_fn : forall k (p : profile), rnf (score_fn cand ceqb k p).
Proof.
  intros k p. destruct k; cbn [score_fn].
  - apply rnf_first_place_votes.
  - apply rnf_borda_scores.
  - apply rnf_score_rankings.
  - apply rnf_score_from_scores.
Qed.

Lemma nf_one_shot_step : forall k m tb (p : profile) (prev : estate),
  nf (one_shot_step cand ceqb k m tb p prev).
Proof.
  intros k m tb p prev. unfold Rules.one_shot_step.
  apply nf_bind; [apply nf_elect_top_m|]. intros [[el rem] t].
  apply nf_bind; [apply nf_lift; apply rnf_remove_cand_prof|]. intros np.
  apply nf_bind; [apply nf_lift; apply rnf_score_fn|]. intros d. apply nf_ret.
Qed.

Lemma rnf_round0 : forall k (p : profile), rnf (round0 cand ceqb k p).
Proof.
  intros k p. unfold Rules.round0. apply rnf_bind; [apply rnf_score_fn|]. intros d. apply rnf_ok.
Qed.

Lemma nf_run_one_shot : forall k m tb (p : profile), nf (run_one_shot cand ceqb k m tb p).
Proof.
  intros k m tb p. unfold Rules.run_one_shot.
  apply nf_bind; [apply nf_lift; apply rnf_round0|]. intros s0.
  apply nf_bind; [apply nf_one_shot_step|]. intros [np s1]. apply nf_ret.
Qed.

Theorem one_shot_no_fuel : forall k m tb (p : profile) (s : mstate),
  run_one_shot cand ceqb k m tb p s <> inr EFuel.
Proof. intros k m tb p s. apply nf_run_one_shot. Qed.

Lemma nf_run_plurality : forall m tb (p : profile), nf (run_plurality cand ceqb m tb p).
Proof.
  intros m tb p. unfold Rules.run_plurality.
  apply nf_bind; [apply nf_lift; apply rnf_ranking_validate|]. intros _. apply nf_run_one_shot.
Qed.

Theorem run_plurality_no_fuel : forall m tb (p : profile) (s : mstate),
  run_plurality cand ceqb m tb p s <> inr EFuel.
Proof. intros m tb p s. apply nf_run_plurality. Qed.

Lemma rnf_rating_args : forall m L k, rnf (rating_args m L k).
Proof.
  intros m L k. unfold Rules.rating_args. destruct (m <=? 0)%Z; [rnfe|].
  destruct (Qle_bool L 0); [rnfe|]. destruct k as [k'|]; [|apply rnf_ok].
  destruct (Qle_bool k' 0); [rnfe|]. destruct (Qlt_bool k' L); [rnfe|apply rnf_ok].
Qed.

Lemma rnf_rating_validate : forall L k (p : profile), rnf (rating_validate cand L k p).
Proof.
  intros L k p. unfold Rules.rating_validate. apply rnf_rfirst_err. intros b.
  destruct (sc b) as [|q d]; [rnfe|].
  destruct (existsb (fun q0 => Qlt_bool L (snd q0)) (q :: d)); [rnfe|].
  destruct (existsb (fun q0 => Qlt_bool (snd q0) 0) (q :: d)); [rnfe|].
  destruct k as [k'|]; [|apply rnf_ok].
  destruct (Qlt_bool k' _); [rnfe|apply rnf_ok].
Qed.

Lemma nf_run_rating : forall m L k tb (p : profile), nf (run_rating cand ceqb m L k tb p).
Proof.
  intros m L k tb p. unfold Rules.run_rating.
  apply nf_bind; [apply nf_lift; apply rnf_rating_args|]. intros _.
  apply nf_bind; [apply nf_lift; apply rnf_rating_validate|]. intros _. apply nf_run_one_shot.
Qed.

Theorem run_rating_no_fuel : forall m L k tb (p : profile) (s : mstate),
  run_rating cand ceqb m L k tb p s <> inr EFuel.
Proof. intros m L k tb p s. apply nf_run_rating. Qed.

(* Model/Pairwise.v *)
Lemma rnf_ballot_fill : forall p : profile, rnf (ballot_fill cand ceqb p).
Proof.
  intros p. unfold Pairwise.ballot_fill. apply rnf_bind; [|intros bss; apply rnf_mk_profile].
  apply rnf_rmap. intros b. unfold Pairwise.fill_ballot.
  destruct (rk b) as [|g r]; [rnfe|]. cbv zeta.
  destruct (Nat.ltb _ _); apply rnf_ok.
Qed.

Lemma rnf_dominating_tiers : forall p : profile, rnf (dominating_tiers cand ceqb p).
Proof.
  intros p. unfold Pairwise.dominating_tiers, Pairwise.pairwise_graph.
  apply rnf_bind; [|intros g; apply rnf_ok].
  apply rnf_bind; [apply rnf_ballot_fill|]. intros fp. cbv zeta. apply rnf_ok.
Qed.

Lemma nf_run_dominating : forall p : profile, nf (run_dominating cand ceqb p).
Proof.
  intros p. unfold Rules.run_dominating.
  apply nf_bind; [apply nf_lift; apply rnf_ranking_validate|]. intros _.
  apply nf_bind; [apply nf_lift; apply rnf_dominating_tiers|]. intros t.
  destruct t as [|top rest]; [nff|].
  apply nf_bind; [apply nf_lift; apply rnf_remove_cand_prof|]. intros np. apply nf_ret.
Qed.

Theorem run_dominating_no_fuel : forall (p : profile) (s : mstate),
  run_dominating cand ceqb p s <> inr EFuel.
Proof. intros p s. apply nf_run_dominating. Qed.

Lemma nf_condo_step : forall m (p : profile), nf (condo_step cand ceqb m p).
Proof.
  intros m p. unfold Rules.condo_step.
  apply nf_bind; [apply nf_lift; apply rnf_dominating_tiers|]. intros t.
  apply nf_bind; [apply nf_elect_top_m|]. intros [[el rem] tb].
  apply nf_bind; [apply nf_lift; apply rnf_remove_cand_prof|]. intros np.
  apply nf_bind; [apply nf_lift; apply rnf_borda_scores|]. intros d. apply nf_ret.
Qed.

Lemma nf_run_condo : forall m (p : profile), nf (run_condo cand ceqb m p).
Proof.
  intros m p. unfold Rules.run_condo.
  apply nf_bind; [apply nf_lift; apply rnf_ranking_validate|]. intros _.
  apply nf_bind; [apply nf_lift; apply rnf_round0|]. intros s0.
  apply nf_bind; [apply nf_condo_step|]. intros [np s1]. apply nf_ret.
Qed.

Theorem run_condo_no_fuel : forall m (p : profile) (s : mstate),
  run_condo cand ceqb m p s <> inr EFuel.
Proof. intros m p s. apply nf_run_condo. Qed.

Lemma nf_plurality_stage : forall m tb (p : profile) (prev : estate),
  nf (plurality_stage cand ceqb m tb p prev).
Proof.
  intros m tb p prev. unfold Rules.plurality_stage.
  apply nf_bind; [apply nf_run_plurality|]. intros sts.
  destruct sts as [|q0 [|q1 [|q2 l]]]; [nff|nff| |nff]. cbv zeta.
  apply nf_bind; [apply nf_lift; apply rnf_remove_cand_prof|]. intros np.
  apply nf_bind; [apply nf_lift; apply rnf_first_place_votes|]. intros d. apply nf_ret.
Qed.

Lemma nf_run_toptwo : forall tb (p : profile), nf (run_toptwo cand ceqb tb p).
Proof.
  intros tb p. unfold Rules.run_toptwo.
  apply nf_bind; [apply nf_lift; apply rnf_ranking_validate|]. intros _.
  apply nf_bind; [apply nf_lift; apply rnf_round0|]. intros s0.
  apply nf_bind; [apply nf_plurality_stage|]. intros [p1 s1].
  apply nf_bind; [apply nf_run_plurality|]. intros sts.
  destruct sts as [|q0 [|q1 [|q2 l]]]; [nff|nff| |nff].
  apply nf_bind; [apply nf_one_shot_step|]. intros x. apply nf_ret.
Qed.

Theorem run_toptwo_no_fuel : forall tb (p : profile) (s : mstate),
  run_toptwo cand ceqb tb p s <> inr EFuel.
Proof. intros tb p s. apply nf_run_toptwo. Qed.

End NoFuel.
