(* Proofs/C09_queries.v — C09: the round-by-round queries of models.py (Model/Rules.v:
   norm_index, get_elected, get_eliminated, get_remaining, get_ranking, status_scan, get_status;
   Model/Election.v: get_profile) on an ARBITRARY list of round records. *)
From Coq Require Import List ZArith QArith Bool Lia Permutation.
From VK Require Import Base Core STV Pairwise Rules PV Election.
From VK.Spec Require Import QuerySpec.
From VK.Proofs Require Import Lib_sets Elect C04_scoring C10_script.
Import ListNotations.

(* ------------------------------------------------------------------ *)
(** * Generic list facts *)

Lemma snoc_case : forall {A} (l : list A), l = [] \/ exists l' x, l = l' ++ [x].
Proof.
  intros A l. destruct (rev l) as [|x l'] eqn:E.
  - left. rewrite <- (rev_involutive l), E. reflexivity.
  - right. exists (rev l'), x. rewrite <- (rev_involutive l), E. reflexivity.
Qed.

Lemma firstn_le_app : forall {A} (l : list A) i j, (i <= j)%nat ->
  firstn j l = firstn i l ++ skipn i (firstn j l).
Proof.
  intros A l i j Hij. rewrite <- (firstn_skipn i (firstn j l)) at 1.
  rewrite firstn_firstn, Nat.min_l by exact Hij. reflexivity.
Qed.

Lemma firstn_S_nth_error : forall {A} (l : list A) r s,
  nth_error l r = Some s -> firstn (S r) l = firstn r l ++ [s].
Proof.
  intros A l. induction l as [|a l IH]; intros r s H.
  - destruct r; discriminate.
  - destruct r as [|r].
    + cbn in H. inversion H; subst. reflexivity.
    + cbn [nth_error] in H. change (firstn (S (S r)) (a :: l)) with (a :: firstn (S r) l).
      rewrite (IH r s H). reflexivity.
Qed.

Lemma nth_error_firstn_lt : forall {A} (l : list A) r j, (j < r)%nat ->
  nth_error (firstn r l) j = nth_error l j.
Proof.
  intros A l. induction l as [|a l IH]; intros r j H.
  - rewrite firstn_nil. reflexivity.
  - destruct r as [|r]; [lia|]. destruct j as [|j]; [reflexivity|].
    cbn [firstn nth_error]. apply IH. lia.
Qed.

Lemma concat_filter_nonempty : forall {A} (l : list (list A)),
  concat (filter nonempty l) = concat l.
Proof.
  intros A l. induction l as [|g l IH]; [reflexivity|].
  destruct g as [|a g]; cbn [filter nonempty concat app]; rewrite IH; reflexivity.
Qed.

(* ------------------------------------------------------------------ *)
(** * Index normalisation *)

Lemma norm_index_out : forall n i,
  (i < - Z.of_nat n \/ Z.of_nat n - 1 < i)%Z -> norm_index n i = inr EIndex.
Proof.
  intros n i H. unfold norm_index.
  destruct (Z.ltb_spec i (- Z.of_nat n)); destruct (Z.ltb_spec (Z.of_nat n - 1) i);
    cbn [orb]; try reflexivity; lia.
Qed.

Lemma norm_index_in : forall n i, in_range n i ->
  norm_index n i = inl (round_of n i) /\ (round_of n i < n)%nat.
Proof.
  intros n i [H1 H2]. unfold norm_index, round_of.
  destruct (Z.ltb_spec i (- Z.of_nat n)); [lia|].
  destruct (Z.ltb_spec (Z.of_nat n - 1) i); [lia|]. cbn [orb].
  destruct (Z.ltb_spec i 0) as [Hneg|Hpos].
  - assert (E : (i mod Z.of_nat n = Z.of_nat n + i)%Z).
    { symmetry. apply (Z.mod_unique i (Z.of_nat n) (-1)); lia. }
    rewrite E. split; [reflexivity|lia].
  - rewrite Z.mod_small by lia. split; [reflexivity|lia].
Qed.

Lemma in_range_dec : forall n i, in_range n i \/ (i < - Z.of_nat n \/ Z.of_nat n - 1 < i)%Z.
Proof. intros n i. unfold in_range. lia. Qed.

Lemma norm_index_err_iff : forall n i,
  norm_index n i = inr EIndex <-> (i < - Z.of_nat n \/ Z.of_nat n - 1 < i)%Z.
Proof.
  intros n i. split; [|apply norm_index_out].
  intros H. destruct (in_range_dec n i) as [Hin|Hout]; [|exact Hout].
  destruct (norm_index_in n i Hin) as [E _]. rewrite E in H. discriminate.
Qed.

Lemma norm_index_nat : forall n r, (r < n)%nat -> norm_index n (Z.of_nat r) = inl r.
Proof.
  intros n r H. assert (Hin : in_range n (Z.of_nat r)) by (unfold in_range; lia).
  destruct (norm_index_in n _ Hin) as [E _]. rewrite E. unfold round_of.
  destruct (Z.ltb_spec (Z.of_nat r) 0); [lia|]. rewrite Nat2Z.id. reflexivity.
Qed.

Lemma norm_index_canon : forall n i, in_range n i ->
  norm_index n i = norm_index n (Z.of_nat (round_of n i)).
Proof.
  intros n i Hin. destruct (norm_index_in n i Hin) as [E Hlt].
  rewrite E, norm_index_nat by exact Hlt. reflexivity.
Qed.

Lemma norm_index_neg : forall n i, (0 < i <= Z.of_nat n)%Z ->
  norm_index n (- i) = norm_index n (Z.of_nat n - i).
Proof.
  intros n i H.
  assert (H1 : in_range n (- i)) by (unfold in_range; lia).
  assert (H2 : in_range n (Z.of_nat n - i)) by (unfold in_range; lia).
  rewrite (proj1 (norm_index_in n _ H1)), (proj1 (norm_index_in n _ H2)).
  unfold round_of. destruct (Z.ltb_spec (- i) 0); [|lia].
  destruct (Z.ltb_spec (Z.of_nat n - i) 0); [lia|]. reflexivity.
Qed.

Lemma round_of_nat : forall n r, round_of n (Z.of_nat r) = r.
Proof.
  intros n r. unfold round_of. destruct (Z.ltb_spec (Z.of_nat r) 0); [lia|]. apply Nat2Z.id.
Qed.

(* ------------------------------------------------------------------ *)
(** * The queries *)

Section Queries.
Variable cand : Type.
Variable ceqb : cand -> cand -> bool.
Hypothesis ceqb_spec : forall a b, reflect (a = b) (ceqb a b).

Notation cset := (cset cand).
Notation ranking := (ranking cand).
Notation profile := (profile cand).
Notation estate := (estate cand).
Notation mstate := (mstate cand).
Notation M := (M cand).
Notation flat := (flat cand).
Notation memb := (memb cand ceqb).
Notation real_groups := (real_groups cand).
Notation get_elected := (get_elected cand).
Notation get_eliminated := (get_eliminated cand).
Notation get_remaining := (get_remaining cand).
Notation get_ranking := (get_ranking cand).
Notation get_status := (get_status cand ceqb).
Notation status_scan := (status_scan cand ceqb).
Notation get_profile := (get_profile cand ceqb).
Notation elected_upto := (elected_upto cand).
Notation eliminated_upto := (eliminated_upto cand).
Notation is_sentinel := (is_sentinel cand).
Notation in_elected := (in_elected cand).
Notation in_eliminated := (in_eliminated cand).
Notation in_remaining := (in_remaining cand).
Notation touched := (touched cand).
Notation seen := (seen cand).
Notation last_with := (last_with cand).
Notation settled_once := (settled_once cand).

(** ** B1: negative indices, and every in-range index is answered as its canonical round *)

Theorem queries_index_eq : forall (sts : list estate) (i j : Z),
  norm_index (length sts) i = norm_index (length sts) j ->
  get_elected sts i = get_elected sts j /\
  get_eliminated sts i = get_eliminated sts j /\
  get_remaining sts i = get_remaining sts j /\
  get_ranking sts i = get_ranking sts j /\
  (forall cs, get_status cs sts i = get_status cs sts j) /\
  (forall r p, get_profile r p sts i = get_profile r p sts j).
Proof.
  intros sts i j H.
  assert (He : get_elected sts i = get_elected sts j) by (unfold Rules.get_elected; rewrite H; reflexivity).
  assert (Hx : get_eliminated sts i = get_eliminated sts j)
    by (unfold Rules.get_eliminated; rewrite H; reflexivity).
  assert (Hr : get_remaining sts i = get_remaining sts j)
    by (unfold Rules.get_remaining; rewrite H; reflexivity).
  assert (Hk : get_ranking sts i = get_ranking sts j)
    by (unfold Rules.get_ranking; rewrite He, Hx, Hr; reflexivity).
  repeat split; try assumption.
  - intros cs. unfold Rules.get_status. rewrite H, Hk. reflexivity.
  - intros r p. unfold Election.get_profile. rewrite H. reflexivity.
Qed.

Theorem negative_index : forall (sts : list estate) (i : Z),
  (0 < i <= Z.of_nat (length sts))%Z ->
  get_elected sts (- i) = get_elected sts (Z.of_nat (length sts) - i) /\
  get_eliminated sts (- i) = get_eliminated sts (Z.of_nat (length sts) - i) /\
  get_remaining sts (- i) = get_remaining sts (Z.of_nat (length sts) - i) /\
  get_ranking sts (- i) = get_ranking sts (Z.of_nat (length sts) - i) /\
  (forall cs, get_status cs sts (- i) = get_status cs sts (Z.of_nat (length sts) - i)) /\
  (forall r p, get_profile r p sts (- i) = get_profile r p sts (Z.of_nat (length sts) - i)).
Proof. intros sts i H. apply queries_index_eq. apply norm_index_neg. exact H. Qed.

Theorem canonical_index : forall (sts : list estate) (i : Z),
  in_range (length sts) i ->
  let j := Z.of_nat (round_of (length sts) i) in
  get_elected sts i = get_elected sts j /\
  get_eliminated sts i = get_eliminated sts j /\
  get_remaining sts i = get_remaining sts j /\
  get_ranking sts i = get_ranking sts j /\
  (forall cs, get_status cs sts i = get_status cs sts j) /\
  (forall r p, get_profile r p sts i = get_profile r p sts j).
Proof. intros sts i H j. apply queries_index_eq. apply norm_index_canon. exact H. Qed.

(** ** Closed forms at a round number *)

Lemma real_groups_sentinel : forall g : ranking,
  real_groups g = if is_sentinel g then [] else g.
Proof. intros g. destruct g as [|[|a s] [|s' g]]; reflexivity. Qed.

Lemma flat_real_groups : forall g : ranking, flat (real_groups g) = flat g.
Proof. intros g. destruct g as [|[|a s] [|s' g]]; reflexivity. Qed.

Lemma concat_real_filter : forall {X} (f : X -> ranking) (h : ranking -> ranking) (l : list X),
  h [] = [] ->
  concat (map (fun s => h (real_groups (f s))) l) =
  concat (map (fun s => h (f s)) (filter (fun s => negb (is_sentinel (f s))) l)).
Proof.
  intros X f h l Hh. induction l as [|s l IH]; [reflexivity|].
  cbn [map filter concat]. rewrite real_groups_sentinel.
  destruct (is_sentinel (f s)); cbn [negb map concat]; rewrite IH; [rewrite Hh|]; reflexivity.
Qed.

Lemma elected_model_spec : forall (sts : list estate) r,
  concat (map (fun s => real_groups (elected s)) (firstn (S r) sts)) = elected_upto sts r.
Proof.
  intros sts r. unfold QuerySpec.elected_upto.
  exact (concat_real_filter (fun s : estate => elected s) (fun g => g) _ eq_refl).
Qed.

Lemma eliminated_model_spec : forall (sts : list estate) r,
  concat (map (fun s => rev (real_groups (eliminated s))) (rev (firstn (S r) sts)))
  = eliminated_upto sts r.
Proof.
  intros sts r. unfold QuerySpec.eliminated_upto.
  exact (concat_real_filter (fun s : estate => eliminated s) (@rev cset) _ eq_refl).
Qed.

Theorem get_elected_at : forall (sts : list estate) r, (r < length sts)%nat ->
  get_elected sts (Z.of_nat r) = inl (elected_upto sts r).
Proof.
  intros sts r H. unfold Rules.get_elected. rewrite norm_index_nat by exact H.
  cbn [rbind]. unfold ok. rewrite elected_model_spec. reflexivity.
Qed.

Theorem get_eliminated_at : forall (sts : list estate) r, (r < length sts)%nat ->
  get_eliminated sts (Z.of_nat r) = inl (eliminated_upto sts r).
Proof.
  intros sts r H. unfold Rules.get_eliminated. rewrite norm_index_nat by exact H.
  cbn [rbind]. unfold ok. rewrite eliminated_model_spec. reflexivity.
Qed.

Theorem get_remaining_at : forall (sts : list estate) r s, nth_error sts r = Some s ->
  get_remaining sts (Z.of_nat r) = inl (remaining s).
Proof.
  intros sts r s H. assert (Hlt : (r < length sts)%nat) by (apply nth_error_Some; congruence).
  unfold Rules.get_remaining. rewrite norm_index_nat by exact Hlt. cbn [rbind]. rewrite H. reflexivity.
Qed.

Theorem get_ranking_at : forall (sts : list estate) r s, nth_error sts r = Some s ->
  get_ranking sts (Z.of_nat r) =
  inl (filter nonempty (elected_upto sts r ++ remaining s ++ eliminated_upto sts r)).
Proof.
  intros sts r s H. assert (Hlt : (r < length sts)%nat) by (apply nth_error_Some; congruence).
  unfold Rules.get_ranking.
  rewrite (get_elected_at sts r Hlt), (get_remaining_at sts r s H), (get_eliminated_at sts r Hlt).
  reflexivity.
Qed.

Theorem get_status_at : forall cs (sts : list estate) r s, nth_error sts r = Some s ->
  get_status cs sts (Z.of_nat r) =
  inl (map (fun c => (c, status_scan (firstn r (tl sts)) 1%Z c (1, 0)%Z))
           (flat (filter nonempty (elected_upto sts r ++ remaining s ++ eliminated_upto sts r)))).
Proof.
  intros cs sts r s H. assert (Hlt : (r < length sts)%nat) by (apply nth_error_Some; congruence).
  unfold Rules.get_status. rewrite norm_index_nat by exact Hlt. cbn [rbind].
  rewrite (get_ranking_at sts r s H). reflexivity.
Qed.

(** ** B2: IndexError exactly out of range *)

Theorem out_of_range : forall (sts : list estate) (i : Z),
  let n := length sts in
  let out := (i < - Z.of_nat n \/ Z.of_nat n - 1 < i)%Z in
  (get_elected sts i = inr EIndex <-> out) /\
  (get_eliminated sts i = inr EIndex <-> out) /\
  (get_remaining sts i = inr EIndex <-> out) /\
  (get_ranking sts i = inr EIndex <-> out) /\
  (forall cs, get_status cs sts i = inr EIndex <-> out) /\
  (out -> forall r p s, get_profile r p sts i s = inr EIndex) /\
  (in_range n i ->
     (exists e, get_elected sts i = inl e) /\ (exists x, get_eliminated sts i = inl x) /\
     (exists m, get_remaining sts i = inl m) /\ (exists k, get_ranking sts i = inl k) /\
     (forall cs, exists t, get_status cs sts i = inl t)).
Proof.
  intros sts i n out. subst n.
  assert (Hout : out ->
    get_elected sts i = inr EIndex /\ get_eliminated sts i = inr EIndex /\
    get_remaining sts i = inr EIndex /\ get_ranking sts i = inr EIndex /\
    (forall cs, get_status cs sts i = inr EIndex) /\
    (forall r p s, get_profile r p sts i s = inr EIndex)).
  { intros H. pose proof (norm_index_out (length sts) i H) as E.
    assert (He : get_elected sts i = inr EIndex) by (unfold Rules.get_elected; rewrite E; reflexivity).
    repeat split.
    - exact He.
    - unfold Rules.get_eliminated. rewrite E. reflexivity.
    - unfold Rules.get_remaining. rewrite E. reflexivity.
    - unfold Rules.get_ranking. rewrite He. reflexivity.
    - intros cs. unfold Rules.get_status. rewrite E. reflexivity.
    - intros r p s. unfold Election.get_profile. rewrite E. reflexivity. }
  assert (Hin : in_range (length sts) i ->
     (exists e, get_elected sts i = inl e) /\ (exists x, get_eliminated sts i = inl x) /\
     (exists m, get_remaining sts i = inl m) /\ (exists k, get_ranking sts i = inl k) /\
     (forall cs, exists t, get_status cs sts i = inl t)).
  { intros H. destruct (canonical_index sts i H) as [E1 [E2 [E3 [E4 [E5 _]]]]].
    destruct (norm_index_in (length sts) i H) as [_ Hlt].
    destruct (nth_error sts (round_of (length sts) i)) as [s|] eqn:Hnth;
      [|apply nth_error_None in Hnth; lia].
    rewrite E1, E2, E3, E4.
    rewrite (get_elected_at sts _ Hlt), (get_eliminated_at sts _ Hlt),
      (get_remaining_at sts _ s Hnth), (get_ranking_at sts _ s Hnth).
    repeat split; try (eexists; reflexivity).
    intros cs. rewrite E5, (get_status_at cs sts _ s Hnth). eexists; reflexivity. }
  assert (Hiff : forall A (x : res A),
            (out -> x = inr EIndex) -> (in_range (length sts) i -> exists a, x = inl a) ->
            (x = inr EIndex <-> out)).
  { intros A x H1 H2. split; [|exact H1]. intros E.
    destruct (in_range_dec (length sts) i) as [Hi|Ho]; [|exact Ho].
    destruct (H2 Hi) as [a Ha]. congruence. }
  split.
  { apply Hiff; intros H; [destruct (Hout H) as [X _]; exact X|destruct (Hin H) as [X _]; exact X]. }
  split.
  { apply Hiff; intros H;
      [destruct (Hout H) as [_ [X _]]; exact X|destruct (Hin H) as [_ [X _]]; exact X]. }
  split.
  { apply Hiff; intros H;
      [destruct (Hout H) as [_ [_ [X _]]]; exact X|destruct (Hin H) as [_ [_ [X _]]]; exact X]. }
  split.
  { apply Hiff; intros H;
      [destruct (Hout H) as [_ [_ [_ [X _]]]]; exact X|destruct (Hin H) as [_ [_ [_ [X _]]]]; exact X]. }
  split.
  { intros cs. apply Hiff; intros H;
      [destruct (Hout H) as [_ [_ [_ [_ [X _]]]]]; apply X|destruct (Hin H) as [_ [_ [_ [_ X]]]]; apply X]. }
  split.
  { intros H. destruct (Hout H) as [_ [_ [_ [_ [_ X]]]]]. exact X. }
  exact Hin.
Qed.

(** ** B3: cumulative answers *)

Theorem elected_upto_step : forall (sts : list estate) r s, nth_error sts (S r) = Some s ->
  elected_upto sts (S r) = elected_upto sts r ++ (if is_sentinel (elected s) then [] else elected s).
Proof.
  intros sts r s H. unfold QuerySpec.elected_upto.
  rewrite (firstn_S_nth_error sts (S r) s H), filter_app, map_app, concat_app.
  cbn [filter]. destruct (is_sentinel (elected s)); cbn [negb map concat]; rewrite ?app_nil_r; reflexivity.
Qed.

Theorem eliminated_upto_step : forall (sts : list estate) r s, nth_error sts (S r) = Some s ->
  eliminated_upto sts (S r) =
  (if is_sentinel (eliminated s) then [] else rev (eliminated s)) ++ eliminated_upto sts r.
Proof.
  intros sts r s H. unfold QuerySpec.eliminated_upto.
  rewrite (firstn_S_nth_error sts (S r) s H), rev_app_distr. cbn [rev app filter].
  destruct (is_sentinel (eliminated s)); cbn [negb map concat]; reflexivity.
Qed.

Theorem upto_zero : forall (s0 : estate) (rest : list estate),
  elected_upto (s0 :: rest) 0 = (if is_sentinel (elected s0) then [] else elected s0) /\
  eliminated_upto (s0 :: rest) 0 = (if is_sentinel (eliminated s0) then [] else rev (eliminated s0)).
Proof.
  intros s0 rest. unfold QuerySpec.elected_upto, QuerySpec.eliminated_upto. cbn [firstn rev app filter].
  destruct (is_sentinel (elected s0)); destruct (is_sentinel (eliminated s0));
    cbn [negb map concat]; rewrite ?app_nil_r; split; reflexivity.
Qed.

Theorem upto_monotone : forall (sts : list estate) i j, (i <= j)%nat ->
  (exists l, elected_upto sts j = elected_upto sts i ++ l) /\
  (exists l, eliminated_upto sts j = l ++ eliminated_upto sts i).
Proof.
  intros sts i j Hij. unfold QuerySpec.elected_upto, QuerySpec.eliminated_upto.
  rewrite (firstn_le_app sts (S i) (S j)) by lia. set (t := skipn (S i) (firstn (S j) sts)). split.
  - rewrite filter_app, map_app, concat_app. eexists; reflexivity.
  - rewrite rev_app_distr, filter_app, map_app, concat_app. eexists; reflexivity.
Qed.

(* membership in the cumulative lists = membership in the field of some round up to r *)
Lemma in_flat_groups : forall {X} (f h : X -> ranking) (l : list X) (c : cand),
  (forall s, In c (flat (h s)) <-> In c (flat (f s))) ->
  In c (flat (concat (map h (filter (fun s => negb (is_sentinel (f s))) l)))) <->
  exists s, In s l /\ In c (flat (f s)).
Proof.
  intros X f h l c Hh. unfold Core.flat. rewrite in_concat_iff. split.
  - intros [g [Hg Hc]]. apply in_concat_iff in Hg. destruct Hg as [gs [Hgs Hg]].
    apply in_map_iff in Hgs. destruct Hgs as [s [Ehs Hs]]. apply filter_In in Hs.
    exists s. split; [exact (proj1 Hs)|]. apply Hh. unfold Core.flat. apply in_concat_iff.
    exists g. subst gs. split; assumption.
  - intros [s [Hs Hc]].
    assert (Hns : is_sentinel (f s) = false).
    { destruct (f s) as [|[|a g0] [|g1 gs]]; try reflexivity. cbn in Hc. contradiction. }
    apply Hh in Hc. unfold Core.flat in Hc. apply in_concat_iff in Hc. destruct Hc as [g [Hg Hc]].
    exists g. split; [|exact Hc]. apply in_concat_iff. exists (h s). split; [|exact Hg].
    apply in_map_iff. exists s. split; [reflexivity|]. apply filter_In. split; [exact Hs|].
    rewrite Hns. reflexivity.
Qed.

Lemma in_elected_upto : forall (sts : list estate) r c,
  In c (flat (elected_upto sts r)) <-> exists s, In s (firstn (S r) sts) /\ in_elected c s.
Proof.
  intros sts r c. unfold QuerySpec.elected_upto.
  apply (in_flat_groups (fun s : estate => elected s) (fun s => elected s)). intros s. reflexivity.
Qed.

Lemma in_flat_rev : forall (g : ranking) c, In c (flat (rev g)) <-> In c (flat g).
Proof.
  intros g c. unfold Core.flat. rewrite !in_concat_iff.
  split; intros [x [Hx Hc]]; exists x; (split; [|exact Hc]); [apply in_rev|apply -> in_rev]; exact Hx.
Qed.

Lemma in_eliminated_upto : forall (sts : list estate) r c,
  In c (flat (eliminated_upto sts r)) <-> exists s, In s (firstn (S r) sts) /\ in_eliminated c s.
Proof.
  intros sts r c. unfold QuerySpec.eliminated_upto.
  rewrite (in_flat_groups (fun s : estate => eliminated s) (fun s => rev (eliminated s)))
    by (intros s; apply in_flat_rev).
  split; intros [s [Hs Hc]]; exists s; (split; [|exact Hc]); [apply in_rev|apply -> in_rev]; exact Hs.
Qed.

(** ** Status: the exact fold *)

Definition status_step (s : estate) (i : Z) (c : cand) (acc : Z * Z) : Z * Z :=
  let acc1 := if memb c (flat (elected s)) then (2, i)%Z else acc in
  let acc2 := if memb c (flat (eliminated s)) then (3, i)%Z else acc1 in
  if memb c (flat (remaining s)) then (fst acc2, i) else acc2.

Lemma status_scan_cons : forall s rest i c acc,
  status_scan (s :: rest) i c acc = status_scan rest (i + 1)%Z c (status_step s i c acc).
Proof. reflexivity. Qed.

Lemma status_scan_snoc : forall l s i c acc,
  status_scan (l ++ [s]) i c acc
  = status_step s (i + Z.of_nat (length l))%Z c (status_scan l i c acc).
Proof.
  induction l as [|a l IH]; intros s i c acc.
  - cbn [app length]. rewrite status_scan_cons. cbn [Rules.status_scan Z.of_nat].
    rewrite Z.add_0_r. reflexivity.
  - rewrite <- app_comm_cons, !status_scan_cons, IH. f_equal. cbn [length]. lia.
Qed.

Lemma step_code : forall s i c acc,
  (in_eliminated c s -> fst (status_step s i c acc) = 3%Z) /\
  (~ in_eliminated c s -> in_elected c s -> fst (status_step s i c acc) = 2%Z) /\
  (~ touched c s -> fst (status_step s i c acc) = fst acc).
Proof.
  intros s i c acc. unfold status_step, QuerySpec.touched, QuerySpec.in_eliminated, QuerySpec.in_elected.
  destruct (memb_reflect cand ceqb ceqb_spec c (flat (elected s))) as [H1|H1];
  destruct (memb_reflect cand ceqb ceqb_spec c (flat (eliminated s))) as [H2|H2];
  destruct (memb_reflect cand ceqb ceqb_spec c (flat (remaining s))) as [H3|H3];
  cbn [fst snd]; repeat split; intros; first [reflexivity|exfalso; tauto].
Qed.

Lemma step_round : forall s i c acc,
  (seen c s -> snd (status_step s i c acc) = i) /\
  (~ seen c s -> snd (status_step s i c acc) = snd acc).
Proof.
  intros s i c acc. unfold status_step, QuerySpec.seen, QuerySpec.touched, QuerySpec.in_eliminated,
    QuerySpec.in_elected, QuerySpec.in_remaining.
  destruct (memb_reflect cand ceqb ceqb_spec c (flat (elected s))) as [H1|H1];
  destruct (memb_reflect cand ceqb ceqb_spec c (flat (eliminated s))) as [H2|H2];
  destruct (memb_reflect cand ceqb ceqb_spec c (flat (remaining s))) as [H3|H3];
  cbn [fst snd]; repeat split; intros; first [reflexivity|exfalso; tauto].
Qed.

Lemma in_elected_dec : forall c s, in_elected c s \/ ~ in_elected c s.
Proof.
  intros c s. unfold QuerySpec.in_elected.
  destruct (memb_reflect cand ceqb ceqb_spec c (flat (elected s))); [left|right]; assumption.
Qed.
Lemma in_eliminated_dec : forall c s, in_eliminated c s \/ ~ in_eliminated c s.
Proof.
  intros c s. unfold QuerySpec.in_eliminated.
  destruct (memb_reflect cand ceqb ceqb_spec c (flat (eliminated s))); [left|right]; assumption.
Qed.
Lemma in_remaining_dec : forall c s, in_remaining c s \/ ~ in_remaining c s.
Proof.
  intros c s. unfold QuerySpec.in_remaining.
  destruct (memb_reflect cand ceqb ceqb_spec c (flat (remaining s))); [left|right]; assumption.
Qed.

(* decomposing "the last round with Q, nothing with P after it" at the right end *)
Lemma last_with_snoc : forall (P Q : estate -> Prop) l s0 l1 s,
  last_with P Q (l ++ [s0]) l1 s <->
  (l1 = l /\ s = s0 /\ Q s0) \/ (~ P s0 /\ last_with P Q l l1 s).
Proof.
  intros P Q l s0 l1 s. unfold QuerySpec.last_with. split.
  - intros [l2 [E [HQ HF]]]. destruct (snoc_case l2) as [->|[l2' [x ->]]].
    + apply app_inj_tail in E. destruct E as [E1 E2]. subst. left. repeat split. exact HQ.
    + rewrite app_comm_cons, app_assoc in E. apply app_inj_tail in E. destruct E as [E1 E2]. subst x.
      apply Forall_app in HF. destruct HF as [HF1 HF2]. right. split.
      * inversion HF2; assumption.
      * exists l2'. repeat split; assumption.
  - intros [[E1 [E2 HQ]]|[HP [l2 [E [HQ HF]]]]].
    + subst. exists []. repeat split; [exact HQ|constructor].
    + exists (l2 ++ [s0]). split; [rewrite E, <- app_assoc; reflexivity|]. split; [exact HQ|].
      apply Forall_app. split; [exact HF|]. constructor; [exact HP|constructor].
Qed.

Lemma last_with_nil : forall (P Q : estate -> Prop) l1 s, ~ last_with P Q [] l1 s.
Proof. intros P Q l1 s [l2 [E _]]. destruct l1; discriminate. Qed.

Section Status.
Variable c : cand.

Definition st_of (l : list estate) : Z * Z := status_scan l 1%Z c (1, 0)%Z.

Lemma st_of_snoc : forall l s,
  st_of (l ++ [s]) = status_step s (Z.of_nat (S (length l))) c (st_of l).
Proof.
  intros l s. unfold st_of. rewrite status_scan_snoc. f_equal. lia.
Qed.

Theorem status_code_spec : forall l : list estate,
  (fst (st_of l) = 1%Z <-> Forall (fun s => ~ touched c s) l) /\
  (fst (st_of l) = 2%Z <->
     exists l1 s, last_with (touched c) (fun s => in_elected c s /\ ~ in_eliminated c s) l l1 s) /\
  (fst (st_of l) = 3%Z <-> exists l1 s, last_with (touched c) (in_eliminated c) l l1 s).
Proof.
  induction l as [|s0 l IH] using rev_ind.
  - cbn [st_of fst]. unfold st_of. cbn [Rules.status_scan fst]. split; [|split].
    + split; intros _; [constructor|reflexivity].
    + split; [discriminate|]. intros [l1 [s H]]. exfalso. exact (last_with_nil _ _ _ _ H).
    + split; [discriminate|]. intros [l1 [s H]]. exfalso. exact (last_with_nil _ _ _ _ H).
  - destruct IH as [IH1 [IH2 IH3]]. rewrite st_of_snoc.
    destruct (step_code s0 (Z.of_nat (S (length l))) c (st_of l)) as [C3 [C2 C1]].
    assert (Hsn : forall Q : estate -> Prop,
              (exists l1 s, last_with (touched c) Q (l ++ [s0]) l1 s) <->
              (Q s0 \/ (~ touched c s0 /\ exists l1 s, last_with (touched c) Q l l1 s))).
    { intros Q. split.
      - intros [l1 [s H]]. apply last_with_snoc in H. destruct H as [[_ [_ HQ]]|[HP H]].
        + left. exact HQ.
        + right. split; [exact HP|]. exists l1, s. exact H.
      - intros [HQ|[HP [l1 [s H]]]].
        + exists l, s0. apply last_with_snoc. left. repeat split. exact HQ.
        + exists l1, s. apply last_with_snoc. right. split; assumption. }
    rewrite !Hsn, <- IH2, <- IH3, Forall_app, <- IH1.
    assert (HF1 : Forall (fun s => ~ touched c s) [s0] <-> ~ touched c s0).
    { split; intros H; [inversion H; assumption|constructor; [exact H|constructor]]. }
    rewrite HF1.
    destruct (in_eliminated_dec c s0) as [He|He].
    + rewrite (C3 He). unfold QuerySpec.touched. intuition lia.
    + destruct (in_elected_dec c s0) as [Hl|Hl].
      * rewrite (C2 He Hl). unfold QuerySpec.touched. intuition lia.
      * assert (Hnt : ~ touched c s0) by (unfold QuerySpec.touched; tauto).
        rewrite (C1 Hnt). intuition lia.
Qed.

Lemma status_code_range : forall l : list estate,
  fst (st_of l) = 1%Z \/ fst (st_of l) = 2%Z \/ fst (st_of l) = 3%Z.
Proof.
  induction l as [|s0 l IH] using rev_ind; [left; reflexivity|].
  rewrite st_of_snoc.
  destruct (step_code s0 (Z.of_nat (S (length l))) c (st_of l)) as [C3 [C2 C1]].
  destruct (in_eliminated_dec c s0) as [He|He]; [right; right; exact (C3 He)|].
  destruct (in_elected_dec c s0) as [Hl|Hl]; [right; left; exact (C2 He Hl)|].
  rewrite C1 by (unfold QuerySpec.touched; tauto). exact IH.
Qed.

Lemma seen_dec : forall s, seen c s \/ ~ seen c s.
Proof.
  intros s. unfold QuerySpec.seen, QuerySpec.touched.
  destruct (in_elected_dec c s); destruct (in_eliminated_dec c s); destruct (in_remaining_dec c s); tauto.
Qed.

Theorem status_round_spec : forall l : list estate,
  (snd (st_of l) = 0%Z <-> Forall (fun s => ~ seen c s) l) /\
  (forall l1 s, last_with (seen c) (seen c) l l1 s -> snd (st_of l) = Z.of_nat (S (length l1))).
Proof.
  induction l as [|s0 l IH] using rev_ind.
  - unfold st_of. cbn [Rules.status_scan snd]. split.
    + split; intros _; [constructor|reflexivity].
    + intros l1 s H. exfalso. exact (last_with_nil _ _ _ _ H).
  - destruct IH as [IH1 IH2]. rewrite st_of_snoc.
    destruct (step_round s0 (Z.of_nat (S (length l))) c (st_of l)) as [R1 R0].
    destruct (seen_dec s0) as [Hs|Hs].
    + rewrite (R1 Hs). split.
      * split; [lia|]. intros HF. apply Forall_app in HF. destruct HF as [_ HF].
        inversion HF; contradiction.
      * intros l1 s H. apply last_with_snoc in H. destruct H as [[E _]|[Hn _]]; [subst; reflexivity|contradiction].
    + rewrite (R0 Hs). split.
      * rewrite Forall_app, IH1. split; [intros H; split; [exact H|constructor; [exact Hs|constructor]]|tauto].
      * intros l1 s H. apply last_with_snoc in H. destruct H as [[_ [_ HQ]]|[_ H]]; [contradiction|].
        exact (IH2 l1 s H).
Qed.

(* under the partition invariant *)
Theorem status_settled : forall l : list estate, settled_once c l ->
  (fst (st_of l) = 2%Z <-> exists s, In s l /\ in_elected c s) /\
  (fst (st_of l) = 3%Z <-> exists s, In s l /\ in_eliminated c s) /\
  (fst (st_of l) = 1%Z <-> forall s, In s l -> ~ touched c s) /\
  (forall l1 s l2, l = l1 ++ s :: l2 -> touched c s -> snd (st_of l) = Z.of_nat (S (length l1))).
Proof.
  intros l Hinv. destruct (status_code_spec l) as [S1 [S2 S3]].
  assert (Hweak : forall l2 : list estate,
            Forall (fun s' => ~ seen c s') l2 -> Forall (fun s' => ~ touched c s') l2).
  { intros l2 H. eapply Forall_impl; [|exact H]. intros a Ha Ht. apply Ha. left. exact Ht. }
  split; [|split; [|split]].
  - rewrite S2. split.
    + intros [l1 [s [l2 [E [[Hel _] _]]]]]. exists s. split; [|exact Hel].
      rewrite E. apply in_or_app. right. left. reflexivity.
    + intros [s [Hin Hel]]. apply in_split in Hin. destruct Hin as [l1 [l2 E]].
      destruct (Hinv l1 s l2 E (or_introl Hel)) as [Hboth [_ HF]].
      exists l1, s, l2. split; [exact E|]. split; [split; [exact Hel|tauto]|apply Hweak; exact HF].
  - rewrite S3. split.
    + intros [l1 [s [l2 [E [Hx _]]]]]. exists s. split; [|exact Hx].
      rewrite E. apply in_or_app. right. left. reflexivity.
    + intros [s [Hin Hx]]. apply in_split in Hin. destruct Hin as [l1 [l2 E]].
      destruct (Hinv l1 s l2 E (or_intror Hx)) as [_ [_ HF]].
      exists l1, s, l2. split; [exact E|]. split; [exact Hx|apply Hweak; exact HF].
  - rewrite S1. apply Forall_forall.
  - intros l1 s l2 E Ht. destruct (Hinv l1 s l2 E Ht) as [_ [_ HF]].
    apply (proj2 (status_round_spec l) l1 s). exists l2. split; [exact E|]. split; [left; exact Ht|exact HF].
Qed.

End Status.


(** ** The closed forms at an arbitrary in-range index *)

Theorem cumulative_at_index : forall (sts : list estate) (i : Z),
  in_range (length sts) i ->
  let r := round_of (length sts) i in
  exists s, nth_error sts r = Some s /\
    get_elected sts i = inl (elected_upto sts r) /\
    get_eliminated sts i = inl (eliminated_upto sts r) /\
    get_remaining sts i = inl (remaining s) /\
    get_ranking sts i =
      inl (filter nonempty (elected_upto sts r ++ remaining s ++ eliminated_upto sts r)) /\
    forall cs, get_status cs sts i =
      inl (map (fun c => (c, status_scan (firstn r (tl sts)) 1%Z c (1, 0)%Z))
               (flat (filter nonempty (elected_upto sts r ++ remaining s ++ eliminated_upto sts r)))).
Proof.
  intros sts i H r. destruct (canonical_index sts i H) as [E1 [E2 [E3 [E4 [E5 _]]]]].
  destruct (norm_index_in (length sts) i H) as [_ Hlt]. fold r in E1, E2, E3, E4, E5, Hlt.
  destruct (nth_error sts r) as [s|] eqn:Hnth; [|apply nth_error_None in Hnth; lia].
  exists s. split; [reflexivity|]. rewrite E1, E2, E3, E4.
  rewrite (get_elected_at sts _ Hlt), (get_eliminated_at sts _ Hlt),
    (get_remaining_at sts _ s Hnth), (get_ranking_at sts _ s Hnth).
  repeat split. intros cs. rewrite E5. apply get_status_at. exact Hnth.
Qed.

(* the status table lists the candidates of get_ranking, in that order *)
Theorem status_listing : forall cs (sts : list estate) (i : Z) order t,
  get_ranking sts i = inl order -> get_status cs sts i = inl t ->
  map fst t = flat order /\
  Forall (fun e => snd e = status_scan (firstn (round_of (length sts) i) (tl sts)) 1%Z (fst e) (1, 0)%Z) t.
Proof.
  intros cs sts i order t Hk Ht.
  destruct (in_range_dec (length sts) i) as [Hin|Hout].
  - destruct (cumulative_at_index sts i Hin) as [s [_ [_ [_ [_ [Ek Es]]]]]].
    rewrite Ek in Hk. inversion Hk; subst order. rewrite (Es cs) in Ht. inversion Ht; subst t.
    split.
    + rewrite map_map. cbn [fst]. apply map_id.
    + apply Forall_forall. intros e He. apply in_map_iff in He. destruct He as [c [Ec _]].
      subst e. reflexivity.
  - exfalso. destruct (out_of_range sts i) as [_ [_ [_ [Hr _]]]]. apply Hr in Hout. congruence.
Qed.

(** ** Status and the cumulative lists, under the partition invariant *)

Lemma status_last_remaining : forall c (l' : list estate) s, in_remaining c s ->
  snd (st_of c (l' ++ [s])) = Z.of_nat (length (l' ++ [s])).
Proof.
  intros c l' s H. rewrite app_length. cbn [length]. rewrite Nat.add_1_r.
  apply (proj2 (status_round_spec c (l' ++ [s])) l' s). exists []. split; [reflexivity|].
  split; [right; exact H|constructor].
Qed.

Theorem status_partition : forall c (s0 : estate) (rest : list estate) r sr,
  flat (elected s0) = [] -> flat (eliminated s0) = [] ->
  nth_error (s0 :: rest) r = Some sr ->
  settled_once c (firstn r rest) ->
  let sts := s0 :: rest in
  let st := status_scan (firstn r rest) 1%Z c (1, 0)%Z in
  (fst st = 2%Z <-> In c (flat (elected_upto sts r))) /\
  (fst st = 3%Z <-> In c (flat (eliminated_upto sts r))) /\
  (In c (flat (remaining sr)) -> fst st = 1%Z /\ snd st = Z.of_nat r) /\
  (fst st = 1%Z ->
   In c (flat (filter nonempty (elected_upto sts r ++ remaining sr ++ eliminated_upto sts r))) ->
   In c (flat (remaining sr))) /\
  (forall j s, (1 <= j <= r)%nat -> nth_error sts j = Some s -> touched c s ->
               snd st = Z.of_nat j).
Proof.
  intros c s0 rest r sr He0 Hx0 Hnth Hinv sts st.
  set (L := firstn r rest) in *. change st with (st_of c L).
  destruct (status_settled c L Hinv) as [T2 [T3 [T1 TR]]].
  assert (Hfirst : firstn (S r) sts = s0 :: L) by reflexivity.
  assert (C2 : fst (st_of c L) = 2%Z <-> In c (flat (elected_upto sts r))).
  { rewrite T2, in_elected_upto, Hfirst. split.
    - intros [s [Hs Hc]]. exists s. split; [right; exact Hs|exact Hc].
    - intros [s [[Hs|Hs] Hc]]; [|exists s; split; assumption].
      subst s. unfold QuerySpec.in_elected in Hc. rewrite He0 in Hc. contradiction. }
  assert (C3 : fst (st_of c L) = 3%Z <-> In c (flat (eliminated_upto sts r))).
  { rewrite T3, in_eliminated_upto, Hfirst. split.
    - intros [s [Hs Hc]]. exists s. split; [right; exact Hs|exact Hc].
    - intros [s [[Hs|Hs] Hc]]; [|exists s; split; assumption].
      subst s. unfold QuerySpec.in_eliminated in Hc. rewrite Hx0 in Hc. contradiction. }
  split; [exact C2|]. split; [exact C3|]. split; [|split].
  - intros Hrem. destruct r as [|r'].
    + subst L. cbn [firstn]. split; reflexivity.
    + cbn [nth_error] in Hnth.
      assert (EL : L = firstn r' rest ++ [sr]) by (apply firstn_S_nth_error; exact Hnth).
      split.
      * apply T1. intros s Hs Ht. apply in_split in Hs. destruct Hs as [l1 [l2 E]].
        destruct (Hinv l1 s l2 E Ht) as [_ [Hnr HF]].
        rewrite EL in E. destruct (snoc_case l2) as [->|[l2' [x ->]]].
        -- apply app_inj_tail in E. destruct E as [_ E]. subst s. contradiction.
        -- rewrite app_comm_cons, app_assoc in E. apply app_inj_tail in E. destruct E as [_ E]. subst x.
           apply Forall_app in HF. destruct HF as [_ HF]. inversion HF as [|? ? Hns _]; subst.
           apply Hns. right. exact Hrem.
      * rewrite EL, (status_last_remaining c _ sr Hrem), <- EL. f_equal. unfold L.
        apply firstn_length_le. assert (r' < length rest)%nat by (apply nth_error_Some; congruence). lia.
  - intros H1 Hin. unfold Core.flat in Hin. rewrite concat_filter_nonempty in Hin.
    change (In c (flat (elected_upto sts r ++ remaining sr ++ eliminated_upto sts r))) in Hin.
    rewrite !flat_app in Hin. apply in_app_or in Hin. destruct Hin as [Hin|Hin].
    + apply C2 in Hin. lia.
    + apply in_app_or in Hin. destruct Hin as [Hin|Hin]; [exact Hin|]. apply C3 in Hin. lia.
  - intros j s Hj Hs Ht. destruct j as [|j']; [lia|]. cbn [nth_error] in Hs.
    assert (HL : nth_error L j' = Some s) by (unfold L; rewrite nth_error_firstn_lt by lia; exact Hs).
    apply nth_error_split in HL. destruct HL as [l1 [l2 [E Hlen]]].
    rewrite (TR l1 s l2 E Ht), Hlen. reflexivity.
Qed.

(* ------------------------------------------------------------------ *)
(** * B4: get_profile looks at the random script only through next_draw *)

Ltac local_step :=
  first
    [ assumption
    | apply Local_ret
    | apply Local_lift
    | apply Local_fail
    | apply Local_next_draw
    | apply Local_bind; [|intros ?]
    | match goal with
      | |- Local _ (if ?b then _ else _) => destruct b
      | |- Local _ (match ?x with _ => _ end) => destruct x
      end ].
Ltac local := repeat local_step.

Lemma Local_replay_step : forall r p0 p prev, Local cand (replay_step cand ceqb r p0 p prev).
Proof.
  intros r p0 p prev. unfold Election.replay_step.
  assert (Hone : forall m tb,
            Local cand (do! (el, _, _) := elect_top_m cand ceqb (remaining prev) m (Some p) tb in
                        mlift (remove_cand_prof cand ceqb (Core.flat cand el) true false p))).
  { intros m tb. apply Local_bind; [apply Local_elect_top_m|]. intros [[el rem] t]. apply Local_lift. }
  destruct r; cbn [one_shot_kind]; try apply Hone; try apply Local_fail.
  - apply Local_bind; [apply Local_lift|]. intros t. destruct t; [apply Local_fail|apply Local_lift].
  - apply Local_bind; [apply Local_lift|]. intros t.
    apply Local_bind; [apply Local_elect_top_m|]. intros [[el rem] tb]. apply Local_lift.
  - destruct (Z.eqb (rnd prev) 0).
    + apply Local_bind; [apply Local_plurality_stage|]. intros [np st]. apply Local_ret.
    + apply Local_bind; [apply Local_run_plurality|]. intros sts. destruct sts; [apply Local_fail|].
      apply Local_bind; [apply Local_one_shot_step|]. intros [np st]. apply Local_ret.
  - apply Local_bind; [apply Local_plurality_stage|]. intros [np st]. apply Local_ret.
  - apply Local_bind; [apply Local_rd_step|]. intros [np st]. apply Local_ret.
  - apply Local_bind; [apply Local_brd_step|]. intros [np st]. apply Local_ret.
Qed.

Lemma Local_replay_steps : forall r p0 sts p, Local cand (replay_steps cand ceqb r p0 p sts).
Proof.
  intros r p0. induction sts as [|prev rest IH]; intros p; cbn [Election.replay_steps].
  - apply Local_ret.
  - apply Local_bind; [apply Local_replay_step|]. intros np. apply IH.
Qed.

Theorem Local_get_profile : forall r p sts i, Local cand (get_profile r p sts i).
Proof.
  intros r p sts i. unfold Election.get_profile. apply Local_bind; [apply Local_lift|]. intros k.
  destruct r; try apply Local_replay_steps.
  - apply Local_bind; [apply Local_lift|]. intros t. apply Local_stv_replay.
  - destruct k as [|[|k]]; try apply Local_replay_steps.
    apply Local_bind; [apply Local_replay_steps|]. intros p1. cbv zeta.
    apply Local_bind; [apply Local_lift|]. intros t.
    apply Local_bind; [apply Local_run_stv|]. intros ssts.
    apply Local_bind; [apply Local_lift|]. intros j. apply Local_stv_replay.
Qed.

(* a replay that consumed no draw left the generator state alone and gives the same profile from
   every state: in particular from the state left behind by any sequence of earlier queries *)
Theorem get_profile_no_draw : forall r p sts i (s : mstate) a s',
  get_profile r p sts i s = inl (a, s') -> scr s' = scr s ->
  s' = s /\ forall s2 : mstate, get_profile r p sts i s2 = inl (a, s2).
Proof.
  intros r p sts i s a s' H Hscr. split.
  - exact (local_quiet_state cand _ _ (Local_get_profile r p sts i) s a s' H Hscr).
  - exact (local_no_draw cand _ _ (Local_get_profile r p sts i) s a s' H Hscr).
Qed.

(* in general the answer is a function of the draws it consumes, whatever happened before *)
Theorem get_profile_prefix : forall r p sts i (s : mstate) a s',
  get_profile r p sts i s = inl (a, s') ->
  exists used calls,
    scr s = used ++ scr s' /\ lg s' = calls ++ lg s /\ length calls = length used /\
    forall (s2 : mstate) rest, scr s2 = used ++ rest ->
      get_profile r p sts i s2 = inl (a, mkM rest (calls ++ lg s2)).
Proof.
  intros r p sts i s a s' H.
  exact (local_prefix cand _ _ (Local_get_profile r p sts i) s a s' H).
Qed.

(* ------------------------------------------------------------------ *)
(** * B5: one-shot rules *)

Lemma mbind_lift_inv : forall A B (x : res A) (f : A -> M B) (s : mstate) y,
  mbind (mlift x) f s = inl y -> exists a, x = inl a /\ f a s = inl y.
Proof.
  intros A B x f s y H. unfold mbind, mlift in H. destruct x as [a|e]; [|discriminate].
  exists a. split; [reflexivity|exact H].
Qed.

Notation run_rule := (run_rule cand ceqb).
Notation one_shot_step := (one_shot_step cand ceqb).
Notation round0 := (round0 cand ceqb).
Notation score_fn := (score_fn cand ceqb).

Lemma run_one_shot_inv : forall k m tb p (s s' : mstate) sts,
  run_one_shot cand ceqb k m tb p s = inl (sts, s') ->
  exists s0 np s1, sts = [s0; s1] /\ round0 k p = inl s0 /\
                   one_shot_step k m tb p s0 s = inl ((np, s1), s').
Proof.
  intros k m tb p s s' sts H. unfold Rules.run_one_shot in H.
  apply mbind_lift_inv in H. destruct H as [s0 [H0 H]]. unfold mbind in H.
  destruct (one_shot_step k m tb p s0 s) as [[[np s1] s1']|e] eqn:E; [|discriminate].
  unfold mret, ok in H. inversion H; subst. exists s0, np, s1. repeat split; assumption.
Qed.

Lemma run_rule_one_shot_inv : forall r p k m tb (s s' : mstate) sts,
  one_shot_kind cand r p = Some (k, m, tb) ->
  run_rule r p s = inl (sts, s') ->
  exists s0 np s1, sts = [s0; s1] /\ round0 k p = inl s0 /\
                   one_shot_step k m tb p s0 s = inl ((np, s1), s').
Proof.
  intros r p k m tb s s' sts Hk H.
  destruct r; cbn [one_shot_kind] in Hk; try discriminate; inversion Hk; subst; clear Hk;
    cbn [Rules.run_rule] in H.
  - unfold Rules.run_plurality in H. apply mbind_lift_inv in H. destruct H as [u [_ H]].
    apply run_one_shot_inv. exact H.
  - cbv zeta in H. apply mbind_lift_inv in H. destruct H as [u [_ H]].
    apply mbind_lift_inv in H. destruct H as [u' [_ H]]. apply run_one_shot_inv. exact H.
  - unfold Rules.run_rating in H. apply mbind_lift_inv in H. destruct H as [u [_ H]].
    apply mbind_lift_inv in H. destruct H as [u' [_ H]]. apply run_one_shot_inv. exact H.
  - destruct (Qlt_bool (inject_Z m) k0); [discriminate|].
    unfold Rules.run_rating in H. apply mbind_lift_inv in H. destruct H as [u [_ H]].
    apply mbind_lift_inv in H. destruct H as [u' [_ H]]. apply run_one_shot_inv. exact H.
  - cbv zeta in H. unfold Rules.run_rating in H. apply mbind_lift_inv in H. destruct H as [u [_ H]].
    apply mbind_lift_inv in H. destruct H as [u' [_ H]]. apply run_one_shot_inv. exact H.
Qed.

Lemma one_shot_step_inv : forall k m tb p prev (s s' : mstate) np s1,
  one_shot_step k m tb p prev s = inl ((np, s1), s') ->
  exists el rem t d,
    elect_top_m cand ceqb (remaining prev) m (Some p) tb s = inl ((el, rem, t), s') /\
    remove_cand_prof cand ceqb (flat el) true false p = inl np /\
    score_fn k np = inl d /\
    s1 = mkState 1 rem el (no_group cand) (match t with Some x => [x] | None => [] end) d.
Proof.
  intros k m tb p prev s s' np s1 H. unfold Rules.one_shot_step, mbind, mlift, mret, ok in H.
  destruct (elect_top_m cand ceqb (remaining prev) m (Some p) tb s) as [[[[el rem] t] s2]|e]; [|discriminate].
  cbv beta iota in H.
  destruct (remove_cand_prof cand ceqb (flat el) true false p) as [np'|e] eqn:Er; [|discriminate].
  cbv beta iota in H.
  destruct (score_fn k np') as [d|e] eqn:Ed; [|discriminate].
  cbv beta iota in H. inversion H; subst. exists el, rem, t, d.
  split; [reflexivity|]. split; [exact Er|]. split; [exact Ed|reflexivity].
Qed.

Lemma score_fn_keys : forall k (p : profile) d, score_fn k p = inl d -> map fst d = cands p.
Proof.
  intros k p d H. destruct k; cbn [Rules.score_fn] in H.
  - exact (score_rankings_keys cand ceqb p _ d H).
  - exact (score_rankings_keys cand ceqb p _ d H).
  - exact (score_rankings_keys cand ceqb p _ d H).
  - unfold Core.score_from_scores in H.
    destruct (existsb _ (ballots p)); [discriminate|]. destruct (negb _); [discriminate|].
    unfold ok in H. inversion H; subst. rewrite map_map. cbn [fst]. apply map_id.
Qed.

Theorem oneshot_replay : forall r p k m tb (s s' : mstate) s0 s1,
  one_shot_kind cand r p = Some (k, m, tb) ->
  run_rule r p s = inl ([s0; s1], s') ->
  tiebreaks s1 = [] ->
  s' = s /\
  (forall s2 : mstate, get_profile r p [s0; s1] 0 s2 = inl (p, s2)) /\
  exists np,
    (forall s2 : mstate, get_profile r p [s0; s1] 1 s2 = inl (np, s2)) /\
    (forall s2 : mstate, get_profile r p [s0; s1] (-1) s2 = inl (np, s2)) /\
    score_fn k np = inl (escores s1) /\
    (NoDup (cands p) -> flat (remaining s1) <> [] ->
     Permutation (cands np) (flat (remaining s1)) /\ NoDup (cands np)).
Proof.
  intros r p k m tb s s' s0 s1 Hk Hrun Htb.
  destruct (run_rule_one_shot_inv r p k m tb s s' _ Hk Hrun) as [s0' [np [s1' [E [H0 Hstep]]]]].
  inversion E; subst s0' s1'. clear E.
  destruct (one_shot_step_inv _ _ _ _ _ _ _ _ _ Hstep) as [el [rem [t [d [Hel [Hnp [Hd Hs1]]]]]]].
  assert (Ht : t = None).
  { rewrite Hs1 in Htb. cbn [tiebreaks] in Htb. destruct t; [discriminate|reflexivity]. }
  subst t. destruct (elect_top_m_shape cand ceqb _ _ _ _ _ _ _ _ _ Hel) as [_ [Hshape|Hshape]].
  2:{ destruct Hshape as [pre [g [post [t [kind [k' [_ [_ [_ [_ [_ [_ [_ [_ Hc]]]]]]]]]]]]]]. discriminate. }
  destruct Hshape as [_ [Hss [Hsplit _]]]. subst s'.
  assert (Hnot : forall sts i, get_profile r p sts i
                 = do! j := mlift (norm_index (length sts) i) in replay_steps cand ceqb r p p (firstn j sts)).
  { intros sts i. unfold Election.get_profile.
    destruct r; cbn [one_shot_kind] in Hk; try discriminate; reflexivity. }
  split; [reflexivity|]. split.
  - intros s2. rewrite Hnot. reflexivity.
  - exists np.
    assert (H1 : forall s2 : mstate, get_profile r p [s0; s1] 1 s2 = inl (np, s2)).
    { assert (Hs : get_profile r p [s0; s1] 1 s = inl (np, s)).
      { rewrite Hnot. cbn [length]. change (norm_index 2 1) with (@inl nat exn 1%nat).
        unfold mbind at 1, mlift, ok. cbv beta iota. cbn [firstn Election.replay_steps].
        unfold Election.replay_step. rewrite Hk. unfold mbind. rewrite Hel. cbv beta iota.
        unfold mlift. rewrite Hnp. reflexivity. }
      exact (proj2 (get_profile_no_draw r p _ 1 s np s Hs eq_refl)). }
    split; [exact H1|]. split.
    { intros s2. destruct (negative_index [s0; s1] 1 ltac:(cbn; lia)) as [_ [_ [_ [_ [_ Hp]]]]].
      change (- 1)%Z with (-1)%Z in Hp. rewrite Hp. cbn [length]. exact (H1 s2). }
    split; [rewrite Hs1; exact Hd|].
    intros Hnd Hne. rewrite Hs1 in Hne |- *. cbn [remaining] in Hne |- *.
    (* the round-0 ranking lists exactly the candidates of p *)
    unfold Rules.round0 in H0. destruct (score_fn k p) as [d0|e] eqn:Ed0; [|discriminate].
    cbn [rbind] in H0. unfold ok in H0. inversion H0 as [Es0]. clear H0.
    assert (Hperm : Permutation (flat el ++ flat rem) (cands p)).
    { rewrite <- flat_app, Hsplit, <- Es0. cbn [remaining STV.state_of_scores].
      rewrite <- (score_fn_keys k p d0 Ed0). apply score_to_ranking_flat_perm_all. }
    assert (Hnd2 : NoDup (flat el ++ flat rem)).
    { eapply Permutation_NoDup; [apply Permutation_sym; exact Hperm|exact Hnd]. }
    apply NoDup_app_inv in Hnd2. destruct Hnd2 as [Hndel [Hndrem Hdisj]].
    assert (Hiff : forall c, In c (set_diff cand ceqb (cands p) (flat el)) <-> In c (flat rem)).
    { intros c. rewrite (set_diff_In cand ceqb ceqb_spec). split.
      - intros [Hc Hn]. apply (Permutation_in _ (Permutation_sym Hperm)) in Hc.
        apply in_app_or in Hc. destruct Hc as [Hc|Hc]; [contradiction|exact Hc].
      - intros Hc. split.
        + apply (Permutation_in _ Hperm). apply in_or_app. right. exact Hc.
        + intros Hc'. exact (Hdisj c Hc' Hc). }
    unfold Core.remove_cand_prof, Core.mk_profile in Hnp.
    destruct (has_dup cand ceqb (set_diff cand ceqb (cands p) (flat el))) eqn:Hdup; [discriminate|].
    unfold ok in Hnp. inversion Hnp as [Enp]. cbn [cands].
    destruct (set_diff cand ceqb (cands p) (flat el)) as [|c0 cs] eqn:Esd.
    + exfalso. destruct (flat rem) as [|c rm] eqn:Erm; [apply Hne; reflexivity|].
      apply (proj2 (Hiff c)). left. reflexivity.
    + assert (Hnd3 : NoDup (c0 :: cs)).
      { rewrite <- Esd. apply set_diff_NoDup; assumption. }
      split; [|exact Hnd3]. apply NoDup_Permutation; [exact Hnd3|exact Hndrem|exact Hiff].
Qed.

End Queries.
