(* Proofs/C08_neutral2.v — property C08, neutrality, second file: the utilities and entry points
   that Proofs/C08_neutral.v leaves out — has_condorcet_winner / get_condorcet_winner, the tiebreak
   utilities (draw_perm, random_break, tiebreak_set), get_status, get_profile / get_step for every
   rule, PluralityVeto (run_pv and each of its helpers) and the wrapper classes (run_wrule).
   Same method: each lemma instantiates the relational free theorem [f_R] produced by Paramcoq
   (Proofs/ParamModel.v, Proofs/C08_neutral2_param.v) at the graph of the renaming and converts it
   with the bridging lemmas of Proofs/ParamBridge.v (plus the few bridges added here). *)
From Param Require Import Param.
From VK Require Import Base Core STV Pairwise Rules PV Election Election2
  ParamArith ParamModel ParamBridge.
From VK.Spec Require Import CondorcetWinnerFn Rename Rename2.
From VK.Proofs Require Import C08_neutral C08_neutral2_param.

(* ---- bridges for the new types ---- *)
Lemma rn_res_id : forall X (r : res X), rn_res (fun x => x) r = r.
Proof. intros X [x|e]; reflexivity. Qed.

Lemma bridges_wrule : bridges wrule_R (fun x => x).
Proof.
  pose proof bridges_Z as [Zi Ze]. pose proof bridges_Q as [Qi Qe].
  pose proof bridges_bool as [Bi Be]. pose proof bridges_rule as [Ri Re].
  pose proof bridges_quota_kind as [Ki Ke].
  pose proof (bridges_option_id _ _ bridges_tb_kind) as [Ti Te].
  apply bridges_ground.
  - intros [r|q tb|m q b tb|m tb|m L tb|m tb|m tb|m tb]; constructor;
      first [apply Zi|apply Qi|apply Bi|apply Ri|apply Ki|apply Ti].
  - intros r r' H; destruct H;
      repeat match goal with
      | H : Z_R _ _ |- _ => apply Ze in H
      | H : Q_R _ _ |- _ => apply Qe in H
      | H : bool_R _ _ |- _ => apply Be in H
      | H : rule_R _ _ |- _ => apply Re in H
      | H : quota_kind_R _ _ |- _ => apply Ke in H
      | H : option_R tb_kind _ _ _ _ |- _ => apply Te in H
      end; subst; reflexivity.
Qed.

Section Model2.
Variables A B : Type.
Variable f : A -> B.
Notation Gf := (G f).

Lemma bridges_status :
  bridges (list_R _ _ (prod_R A B Gf _ _ (prod_R Z Z Z_R Z Z Z_R))) (rn_status f).
Proof.
  apply bridges_list.
  apply (bridges_prod _ _ _ _ _ _ _ _ (bridges_G _ _ f)
           (bridges_prod_id _ _ _ _ bridges_Z bridges_Z)).
Qed.

Lemma bridges_step :
  bridges (prod_R _ _ (profile_R A B Gf) _ _ (estate_R A B Gf)) (rn_step f).
Proof. apply bridges_prod; [apply bridges_profile|apply bridges_state]. Qed.

Lemma bridges_pv_obj : bridges (pv_obj_R A B Gf) (rn_pv_obj f).
Proof.
  pose proof (bridges_list_id _ _ bridges_nat) as [Ni Ne].
  pose proof (bridges_ballots A B f) as [Bi Be]. pose proof (bridges_cset A B f) as [Ci Ce].
  split.
  - intros [o bs el]. unfold rn_pv_obj; cbn [pv_order pv_ballots pv_elim].
    constructor; [apply Ni|apply Bi|apply Ci].
  - intros o o' H. destruct H as [o o' Ho bs bs' Hb el el' He].
    unfold rn_pv_obj; cbn [pv_order pv_ballots pv_elim].
    rewrite <- (Ne _ _ Ho), (Be _ _ Hb), (Ce _ _ He). reflexivity.
Qed.

Lemma bridges_pv_step :
  bridges (prod_R _ _ (prod_R _ _ (pv_obj_R A B Gf) _ _ (profile_R A B Gf))
             _ _ (estate_R A B Gf)) (rn_pv_step f).
Proof.
  apply (bridges_prod _ _ _ _ _ _ _ _
           (bridges_prod _ _ _ _ _ _ _ _ bridges_pv_obj (bridges_profile A B f))
           (bridges_state A B f)).
Qed.

Lemma bridges_veto :
  bridges (prod_R _ _ (prod_R nat nat nat_R _ _ (option_R A B Gf)) _ _
             (list_R _ _ (prod_R _ _ (cset_R A B Gf) _ _ (ranking_R A B Gf)))) (rn_veto f).
Proof.
  apply (bridges_prod _ _ _ _ _ _ _ _
           (bridges_prod _ _ _ _ _ _ _ _ bridges_nat (bridges_option _ _ _ _ (bridges_G _ _ f)))
           (bridges_list _ _ _ _ (bridges_tiebreak A B f))).
Qed.

End Model2.

Section Neutral2.
Variables A B : Type.
Variable ea : A -> A -> bool.
Variable eb : B -> B -> bool.
Variable f : A -> B.
Hypothesis f_eqb : forall x y, eb (f x) (f y) = ea x y.

Let HC := ceqb_G A B ea eb f f_eqb.

Let Ip := fst (bridges_profile A B f).
Let Iop := fst (bridges_option _ _ _ _ (bridges_profile A B f)).
Let Is := fst (bridges_mstate A B f).
Let Ib := fst (bridges_ballot A B f).
Let Ibs := fst (bridges_ballots A B f).
Let Icset := fst (bridges_cset A B f).
Let Irk := fst (bridges_ranking A B f).
Let Isc := fst (bridges_scores A B f).
Let Ist := fst (bridges_state A B f).
Let Ists := fst (bridges_states A B f).
Let Itbs := fst (bridges_list _ _ _ _ (bridges_tiebreak A B f)).
Let Iotb := fst (bridges_option_id _ _ bridges_tb_kind).
Let Itb := fst bridges_tb_kind.
Let Irule := fst bridges_rule.

(* ---------- 1. Condorcet winner ---------- *)
Lemma has_condorcet_winner_rename : forall p,
  has_condorcet_winner B eb (rn_profile f p) = has_condorcet_winner A ea p.
Proof.
  intros p. rewrite <- (rn_res_id _ (has_condorcet_winner A ea p)).
  apply (snd (bridges_res _ _ _ _ bridges_bool)).
  apply (has_condorcet_winner_R A B (G f) ea eb HC); apply Ip.
Qed.
Lemma get_condorcet_winner_rename : forall p,
  get_condorcet_winner B eb (rn_profile f p) = rn_res f (get_condorcet_winner A ea p).
Proof.
  intros p. apply (snd (bridges_res _ _ _ _ (bridges_G A B f))).
  apply (get_condorcet_winner_R A B (G f) ea eb HC); apply Ip.
Qed.

(* ---------- 2. the tiebreak utilities, script renamed along ---------- *)
Lemma draw_perm_rename : forall g s,
  draw_perm B eb (rn_cset f g) (rn_mstate f s) = rn_mres f (rn_cset f) (draw_perm A ea g s).
Proof.
  intros g s. apply (snd (bridges_mres A B f _ _ _ _ (bridges_cset A B f))).
  apply (draw_perm_R A B (G f) ea eb HC); [apply Icset|apply Is].
Qed.
Lemma random_break_rename : forall r s,
  random_break B eb (rn_ranking f r) (rn_mstate f s)
  = rn_mres f (rn_ranking f) (random_break A ea r s).
Proof.
  intros r s. apply (snd (bridges_mres A B f _ _ _ _ (bridges_ranking A B f))).
  apply (random_break_R A B (G f) ea eb HC); [apply Irk|apply Is].
Qed.
Lemma tiebreak_set_rename : forall g p tb s,
  tiebreak_set B eb (rn_cset f g) (option_map (rn_profile f) p) tb (rn_mstate f s)
  = rn_mres f (rn_ranking f) (tiebreak_set A ea g p tb s).
Proof.
  intros g p tb s. apply (snd (bridges_mres A B f _ _ _ _ (bridges_ranking A B f))).
  apply (tiebreak_set_R A B (G f) ea eb HC); [apply Icset|apply Iop|apply Itb|apply Is].
Qed.

(* ---------- 3. the status table ---------- *)
Lemma status_scan_rename : forall sts i c acc,
  status_scan B eb (rn_states f sts) i (f c) acc = status_scan A ea sts i c acc.
Proof.
  intros sts i c acc. apply (snd (bridges_prod_id _ _ _ _ bridges_Z bridges_Z)).
  apply (status_scan_R A B (G f) ea eb HC);
    [apply Ists|apply Z_R_refl|reflexivity
    |apply (fst (bridges_prod_id _ _ _ _ bridges_Z bridges_Z))].
Qed.
Lemma get_status_rename : forall cs sts i,
  get_status B eb (rn_cset f cs) (rn_states f sts) i
  = rn_res (rn_status f) (get_status A ea cs sts i).
Proof.
  intros cs sts i. apply (snd (bridges_res _ _ _ _ (bridges_status A B f))).
  apply (get_status_R A B (G f) ea eb HC); [apply Icset|apply Ists|apply Z_R_refl].
Qed.

(* ---------- 4. get_profile / get_step ---------- *)
Lemma replay_step_rename : forall r p0 p prev s,
  replay_step B eb r (rn_profile f p0) (rn_profile f p) (rn_state f prev) (rn_mstate f s)
  = rn_mres f (rn_profile f) (replay_step A ea r p0 p prev s).
Proof.
  intros r p0 p prev s. apply (snd (bridges_mres A B f _ _ _ _ (bridges_profile A B f))).
  apply (replay_step_R A B (G f) ea eb HC); [apply Irule|apply Ip|apply Ip|apply Ist|apply Is].
Qed.
Lemma replay_steps_rename : forall r p0 p sts s,
  replay_steps B eb r (rn_profile f p0) (rn_profile f p) (rn_states f sts) (rn_mstate f s)
  = rn_mres f (rn_profile f) (replay_steps A ea r p0 p sts s).
Proof.
  intros r p0 p sts s. apply (snd (bridges_mres A B f _ _ _ _ (bridges_profile A B f))).
  apply (replay_steps_R A B (G f) ea eb HC); [apply Irule|apply Ip|apply Ip|apply Ists|apply Is].
Qed.
Lemma get_profile_rename : forall r p sts i s,
  get_profile B eb r (rn_profile f p) (rn_states f sts) i (rn_mstate f s)
  = rn_mres f (rn_profile f) (get_profile A ea r p sts i s).
Proof.
  intros r p sts i s. apply (snd (bridges_mres A B f _ _ _ _ (bridges_profile A B f))).
  apply (get_profile_R A B (G f) ea eb HC);
    [apply Irule|apply Ip|apply Ists|apply Z_R_refl|apply Is].
Qed.
Lemma get_step_rename : forall r p sts i s,
  get_step B eb r (rn_profile f p) (rn_states f sts) i (rn_mstate f s)
  = rn_mres f (rn_step f) (get_step A ea r p sts i s).
Proof.
  intros r p sts i s. apply (snd (bridges_mres A B f _ _ _ _ (bridges_step A B f))).
  apply (get_step_R A B (G f) ea eb HC);
    [apply Irule|apply Ip|apply Ists|apply Z_R_refl|apply Is].
Qed.

(* ---------- 5. PluralityVeto ---------- *)
Lemma pv_validate_rename : forall p, pv_validate B (rn_profile f p) = pv_validate A p.
Proof.
  intros p. rewrite <- (rn_res_id _ (pv_validate A p)).
  apply (snd (bridges_res _ _ _ _ bridges_unit)).
  apply (pv_validate_R A B (G f)); apply Ip.
Qed.
Lemma has_tie_rename : forall b, has_tie B (rn_ballot f b) = has_tie A b.
Proof.
  intros b. apply (snd bridges_bool). apply (has_tie_R A B (G f)); apply Ib.
Qed.
Lemma decondense_rename : forall bs,
  decondense B (rn_ballots f bs) = rn_ballots f (decondense A bs).
Proof.
  intros bs. apply (snd (bridges_ballots A B f)). apply (decondense_R A B (G f)); apply Ibs.
Qed.
Lemma pv_scores_rename : forall bs,
  pv_scores B eb (rn_ballots f bs) = rn_res (rn_scores f) (pv_scores A ea bs).
Proof.
  intros bs. apply (snd (bridges_res _ _ _ _ (bridges_scores A B f))).
  apply (pv_scores_R A B (G f) ea eb HC); apply Ibs.
Qed.
Lemma dec_rename : forall c d,
  dec B eb (f c) (rn_scores f d) = rn_res (rn_scores f) (dec A ea c d).
Proof.
  intros c d. apply (snd (bridges_res _ _ _ _ (bridges_scores A B f))).
  apply (dec_R A B (G f) ea eb HC); [reflexivity|apply Isc].
Qed.
Lemma veto_loop_rename : forall order idx bs p tb d tbs s,
  veto_loop B eb order idx (rn_ballots f bs) (rn_profile f p) tb (rn_scores f d)
    (map (rn_tiebreak f) tbs) (rn_mstate f s)
  = rn_mres f (rn_veto f) (veto_loop A ea order idx bs p tb d tbs s).
Proof.
  intros order idx bs p tb d tbs s.
  apply (snd (bridges_mres A B f _ _ _ _ (bridges_veto A B f))).
  apply (veto_loop_R A B (G f) ea eb HC);
    [apply (fst (bridges_list_id _ _ bridges_nat))|apply nat_R_refl|apply Ibs|apply Ip
    |apply Iotb|apply Isc|apply Itbs|apply Is].
Qed.
Lemma pv_step_rename : forall m tb n o p prev s,
  pv_step B eb m tb n (rn_pv_obj f o) (rn_profile f p) (rn_state f prev) (rn_mstate f s)
  = rn_mres f (rn_pv_step f) (pv_step A ea m tb n o p prev s).
Proof.
  intros m tb n o p prev s.
  apply (snd (bridges_mres A B f _ _ _ _ (bridges_pv_step A B f))).
  apply (pv_step_R A B (G f) ea eb HC);
    [apply Z_R_refl|apply Iotb|apply nat_R_refl|apply (fst (bridges_pv_obj A B f))
    |apply Ip|apply Ist|apply Is].
Qed.
Lemma pv_loop_rename : forall fuel m tb n o p sts s,
  pv_loop B eb fuel m tb n (rn_pv_obj f o) (rn_profile f p) (rn_states f sts) (rn_mstate f s)
  = rn_mres f (rn_states f) (pv_loop A ea fuel m tb n o p sts s).
Proof.
  intros fuel m tb n o p sts s.
  apply (snd (bridges_mres A B f _ _ _ _ (bridges_states A B f))).
  apply (pv_loop_R A B (G f) ea eb HC);
    [apply nat_R_refl|apply Z_R_refl|apply Iotb|apply nat_R_refl
    |apply (fst (bridges_pv_obj A B f))|apply Ip|apply Ists|apply Is].
Qed.
Lemma run_pv_rename : forall m tb p s,
  run_pv B eb m tb (rn_profile f p) (rn_mstate f s)
  = rn_mres f (rn_states f) (run_pv A ea m tb p s).
Proof.
  intros m tb p s. apply (snd (bridges_mres A B f _ _ _ _ (bridges_states A B f))).
  apply (run_pv_R A B (G f) ea eb HC); [apply Z_R_refl|apply Iotb|apply Ip|apply Is].
Qed.

(* ---------- every public election class (wrappers and PluralityVeto included) ---------- *)
Lemma run_wrule_rename : forall w p s,
  run_wrule B eb w (rn_profile f p) (rn_mstate f s)
  = rn_mres f (rn_states f) (run_wrule A ea w p s).
Proof.
  intros w p s. apply (snd (bridges_mres A B f _ _ _ _ (bridges_states A B f))).
  apply (run_wrule_R A B (G f) ea eb HC); [apply (fst bridges_wrule)|apply Ip|apply Is].
Qed.

End Neutral2.
