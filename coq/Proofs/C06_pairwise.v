(* Proofs/C06_pairwise.v — C06 part 1: ballot_fill, head-to-head counts, the pairwise dictionary.
   h2h on the filled profile equals the specification [pref_weight] on the original ballots
   (halving lemma on [perms]); shape of [pairwise_entries]; [edge] characterisation. *)
From VK Require Import Base Core Pairwise PairwiseSpec.
From VK.Proofs Require Import C12_expand Lib_rk Lib_sets.
From Coq Require Import Permutation Lia Lqa Setoid Morphisms.

(* ------------------------------------------------------------------ *)
(** * Generic list facts *)

Lemma map_inj_NoDup : forall {A B} (f : A -> B) (l : list A),
  (forall a b, f a = f b -> a = b) -> NoDup l -> NoDup (map f l).
Proof.
  intros A B f l Hinj Hnd. induction Hnd as [|a l Hnotin _ IH].
  - constructor.
  - cbn [map]. constructor; [|exact IH].
    intros Hin. apply in_map_iff in Hin. destruct Hin as [b [Hb Hbl]].
    apply Hinj in Hb. subst b. contradiction.
Qed.

Lemma qsum_concat_map : forall {A B} (g : B -> Q) (f : A -> list B) (l : list A),
  qsum (map g (concat (map f l))) == qsum (map (fun a => qsum (map g (f a))) l).
Proof.
  intros A B g f l. induction l as [|a l IH].
  - reflexivity.
  - cbn [map concat]. rewrite map_app, qsum_app, qsum_cons, IH. reflexivity.
Qed.

Lemma qsum_ite_const : forall {A} (f : A -> bool) (w : Q) (l : list A),
  qsum (map (fun x => if f x then w else 0) l) == Qnat (length (filter f l)) * w.
Proof.
  intros A f w l. induction l as [|a l IH].
  - cbn [map filter length]. rewrite qsum_nil, Qnat_0. ring.
  - cbn [map filter]. rewrite qsum_cons, IH. destruct (f a).
    + cbn [length]. rewrite Qnat_S. ring.
    + ring.
Qed.

Section Pairwise.
Variable cand : Type.
Variable ceqb : cand -> cand -> bool.
Hypothesis ceqb_spec : forall a b, reflect (a = b) (ceqb a b).

Notation cset := (cset cand).
Notation ranking := (ranking cand).
Notation ballot := (ballot cand).
Notation profile := (profile cand).
Notation memb := (memb cand ceqb).
Notation flat := (flat cand).
Notation singletons := (singletons cand).
Notation perms := (perms cand).
Notation before := (before cand ceqb).
Notation prefers := (prefers cand ceqb).
Notation listing := (listing cand).
Notation pref_share := (pref_share cand ceqb).
Notation pref_weight := (pref_weight cand ceqb).
Notation margin := (margin cand ceqb).
Notation h2h := (h2h cand ceqb).
Notation fill_ballot := (fill_ballot cand ceqb).
Notation ballot_fill := (ballot_fill cand ceqb).
Notation missing_singletons := (missing_singletons cand ceqb).
Notation untied_ballot := (untied_ballot cand).
Notation untied_profile := (untied_profile cand).
Notation pairs := (pairs cand).
Notation pairwise_entries := (pairwise_entries cand ceqb).
Notation edge := (edge cand ceqb).

Local Notation ceqb_refl := (ceqb_refl cand ceqb ceqb_spec).
Local Notation ceqb_true_iff := (ceqb_true_iff cand ceqb ceqb_spec).
Local Notation ceqb_false_iff := (ceqb_false_iff cand ceqb ceqb_spec).
Local Notation memb_In := (memb_In cand ceqb ceqb_spec).
Local Notation memb_false_iff := (memb_false_iff cand ceqb ceqb_spec).

(* ------------------------------------------------------------------ *)
(** * [before]: the declarative reading, and elementary facts *)

Lemma before_true_iff : forall a b l,
  before a b l = true <-> exists l1 l2, l = l1 ++ a :: l2 /\ ~ In a l1 /\ ~ In b l1.
Proof.
  intros a b l. induction l as [|x l IH]; cbn [PairwiseSpec.before].
  - split; [discriminate|]. intros [l1 [l2 [H _]]]. destruct l1; discriminate.
  - destruct (ceqb_spec a x) as [<-|Hax].
    + split; [|reflexivity]. intros _. exists [], l. repeat split; intros [].
    + destruct (ceqb_spec b x) as [<-|Hbx].
      * split; [discriminate|]. intros [l1 [l2 [H [_ Hb]]]]. destruct l1 as [|y l1].
        -- cbn [app] in H. injection H as H _. congruence.
        -- cbn [app] in H. injection H as H _. subst y. exfalso. apply Hb. left. reflexivity.
      * rewrite IH. split.
        -- intros [l1 [l2 [-> [Ha Hb]]]]. exists (x :: l1), l2. repeat split.
           ++ intros [H|H]; [congruence|contradiction].
           ++ intros [H|H]; [congruence|contradiction].
        -- intros [l1 [l2 [H [Ha Hb]]]]. destruct l1 as [|y l1].
           ++ cbn [app] in H. injection H as H _. congruence.
           ++ cbn [app] in H. injection H as -> ->. exists l1, l2. repeat split.
              ** intros H. apply Ha. right. exact H.
              ** intros H. apply Hb. right. exact H.
Qed.

Lemma before_In : forall a b l, before a b l = true -> In a l.
Proof.
  intros a b l H. apply before_true_iff in H. destruct H as [l1 [l2 [-> _]]].
  apply in_or_app. right. left. reflexivity.
Qed.

Lemma before_notin : forall a b l, ~ In a l -> before a b l = false.
Proof.
  intros a b l H. destruct (before a b l) eqn:E; [|reflexivity].
  exfalso. apply H. eapply before_In. exact E.
Qed.

Lemma before_only_a : forall a b l, In a l -> ~ In b l -> before a b l = true.
Proof.
  intros a b l. induction l as [|x l IH]; intros Ha Hb; [destruct Ha|].
  cbn [PairwiseSpec.before]. destruct (ceqb_spec a x) as [|Hax]; [reflexivity|].
  destruct (ceqb_spec b x) as [->|Hbx].
  - exfalso. apply Hb. left. reflexivity.
  - apply IH.
    + destruct Ha as [Ha|Ha]; [congruence|exact Ha].
    + intros H. apply Hb. right. exact H.
Qed.

Lemma before_app : forall a b l1 l2,
  before a b (l1 ++ l2) = if memb a l1 || memb b l1 then before a b l1 else before a b l2.
Proof.
  intros a b l1 l2. induction l1 as [|x l1 IH].
  - reflexivity.
  - cbn [app PairwiseSpec.before Core.memb existsb].
    destruct (ceqb a x); [reflexivity|]. destruct (ceqb b x).
    + rewrite orb_true_r. reflexivity.
    + cbn [orb]. exact IH.
Qed.

(* for two distinct candidates, one of which occurs, exactly one direction holds *)
Lemma before_antisym : forall a b l, a <> b -> In a l \/ In b l ->
  before b a l = negb (before a b l).
Proof.
  intros a b l Hab. induction l as [|x l IH]; intros Hin.
  - destruct Hin as [[]|[]].
  - cbn [PairwiseSpec.before]. destruct (ceqb_spec a x) as [<-|Hax].
    + destruct (ceqb_spec b a) as [->|_]; [congruence|reflexivity].
    + destruct (ceqb_spec b x) as [<-|Hbx]; [reflexivity|].
      apply IH. destruct Hin as [[H|H]|[H|H]]; try congruence; [left|right]; exact H.
Qed.

(* [prefers] on an untied ranking is [before] on its listing *)
Lemma prefers_singletons : forall a b (r : ranking),
  Forall (fun g => length g = 1%nat) r -> prefers a b r = before a b (flat r).
Proof.
  intros a b r H. induction H as [|g r Hg _ IH].
  - reflexivity.
  - destruct g as [|x [|y g]]; try discriminate.
    cbn [Pairwise.prefers Core.memb existsb]. rewrite flat_cons. cbn [app PairwiseSpec.before].
    rewrite !orb_false_r. rewrite IH. reflexivity.
Qed.

Lemma singletons_all_single : forall l : list cand, Forall (fun g => length g = 1%nat) (singletons l).
Proof.
  intros l. induction l as [|x l IH]; cbn [Core.singletons map]; constructor; [reflexivity|exact IH].
Qed.

(* ------------------------------------------------------------------ *)
(** * The halving lemma on [perms] *)

Definition swapc (a b x : cand) : cand := if ceqb x a then b else if ceqb x b then a else x.

Lemma swapc_invol : forall a b x, swapc a b (swapc a b x) = x.
Proof.
  intros a b x. unfold swapc.
  destruct (ceqb_spec x a) as [->|Hxa].
  - destruct (ceqb_spec b a) as [->|Hba]; [reflexivity|]. rewrite ceqb_refl. reflexivity.
  - destruct (ceqb_spec x b) as [->|Hxb].
    + rewrite ceqb_refl. reflexivity.
    + destruct (ceqb_spec x a); [contradiction|]. destruct (ceqb_spec x b); [contradiction|reflexivity].
Qed.

Lemma swapc_inj : forall a b x y, swapc a b x = swapc a b y -> x = y.
Proof.
  intros a b x y H. rewrite <- (swapc_invol a b x), <- (swapc_invol a b y). f_equal. exact H.
Qed.

Lemma map_swapc_invol : forall a b l, map (swapc a b) (map (swapc a b) l) = l.
Proof.
  intros a b l. rewrite map_map. rewrite <- (map_id l) at 2. apply map_ext. apply swapc_invol.
Qed.

Lemma swapc_in : forall a b l x, In a l -> In b l -> In x l -> In (swapc a b x) l.
Proof.
  intros a b l x Ha Hb Hx. unfold swapc. destruct (ceqb x a); [exact Hb|].
  destruct (ceqb x b); [exact Ha|exact Hx].
Qed.

Lemma map_swapc_perm : forall a b l, NoDup l -> In a l -> In b l -> Permutation (map (swapc a b) l) l.
Proof.
  intros a b l Hnd Ha Hb. apply NoDup_Permutation.
  - apply map_inj_NoDup; [apply swapc_inj|exact Hnd].
  - exact Hnd.
  - intros x. split.
    + intros H. apply in_map_iff in H. destruct H as [y [<- Hy]]. apply swapc_in; assumption.
    + intros H. apply in_map_iff. exists (swapc a b x). split; [apply swapc_invol|].
      apply swapc_in; assumption.
Qed.

Lemma before_swapc : forall a b l, a <> b -> before a b (map (swapc a b) l) = before b a l.
Proof.
  intros a b l Hab. induction l as [|x l IH].
  - reflexivity.
  - cbn [map PairwiseSpec.before]. unfold swapc at 1 2.
    destruct (ceqb_spec x a) as [->|Hxa].
    + (* x = a: swapped to b *)
      destruct (ceqb_spec a b) as [|_]; [contradiction|]. rewrite !ceqb_refl.
      destruct (ceqb_spec b a) as [E|_]; [congruence|reflexivity].
    + destruct (ceqb_spec x b) as [->|Hxb].
      * rewrite !ceqb_refl. reflexivity.
      * destruct (ceqb_spec a x) as [E|_]; [congruence|].
        destruct (ceqb_spec b x) as [E|_]; [congruence|]. exact IH.
Qed.

Lemma perms_swapc_perm : forall a b l, NoDup l -> In a l -> In b l ->
  Permutation (map (map (swapc a b)) (perms l)) (perms l).
Proof.
  intros a b l Hnd Ha Hb. apply NoDup_Permutation.
  - apply map_inj_NoDup; [|apply perms_NoDup; exact Hnd].
    intros x y H. rewrite <- (map_swapc_invol a b x), <- (map_swapc_invol a b y). f_equal. exact H.
  - apply perms_NoDup. exact Hnd.
  - intros o. rewrite in_map_iff. split.
    + intros [o' [<- Ho']]. apply perms_spec in Ho'. apply perms_spec.
      eapply Permutation_trans; [apply Permutation_map; exact Ho'|].
      apply map_swapc_perm; assumption.
    + intros Ho. apply perms_spec in Ho. exists (map (swapc a b) o). split; [apply map_swapc_invol|].
      apply perms_spec. eapply Permutation_trans; [apply Permutation_map; exact Ho|].
      apply map_swapc_perm; assumption.
Qed.

Definition ind_sum (a b : cand) (w : Q) (L : list (list cand)) : Q :=
  qsum (map (fun o => if before a b o then w else 0) L).

Lemma ind_sum_sym : forall a b w l, NoDup l -> In a l -> In b l -> a <> b ->
  ind_sum a b w (perms l) == ind_sum b a w (perms l).
Proof.
  intros a b w l Hnd Ha Hb Hab. unfold ind_sum.
  transitivity (qsum (map (fun o => if before a b o then w else 0) (map (map (swapc a b)) (perms l)))).
  - apply qsum_perm. apply Permutation_map. apply Permutation_sym. apply perms_swapc_perm; assumption.
  - rewrite map_map. apply qsum_map_ext_in. intros o _. rewrite before_swapc by exact Hab. reflexivity.
Qed.

Lemma ind_sum_total : forall a b w l, In a l -> a <> b ->
  ind_sum a b w (perms l) + ind_sum b a w (perms l) == Qnat (length (perms l)) * w.
Proof.
  intros a b w l Ha Hab. unfold ind_sum. rewrite <- qsum_map_plus.
  rewrite <- (qsum_map_const w (perms l)). apply qsum_map_ext_in. intros o Ho.
  apply perms_spec in Ho. rewrite (before_antisym a b o Hab).
  - destruct (before a b o); cbn [negb]; ring.
  - left. eapply Permutation_in; [apply Permutation_sym; exact Ho|exact Ha].
Qed.

(* among all orders of a duplicate-free list, a precedes b in exactly half (by weight) *)
Lemma perms_half : forall a b w l, NoDup l -> In a l -> In b l -> a <> b ->
  ind_sum a b w (perms l) == Qnat (length (perms l)) * w / 2.
Proof.
  intros a b w l Hnd Ha Hb Hab.
  pose proof (ind_sum_sym a b w l Hnd Ha Hb Hab) as Hs.
  pose proof (ind_sum_total a b w l Ha Hab) as Ht.
  rewrite <- Hs in Ht. rewrite <- Ht. field.
Qed.

(* ------------------------------------------------------------------ *)
(** * [fill_ballot] on one untied ballot *)

Lemma existsb_singleton_memb : forall c (r : ranking), Forall (fun g => length g = 1%nat) r ->
  existsb (fun s => cset_eqb cand ceqb s [c]) r = memb c (flat r).
Proof.
  intros c r H. induction H as [|g r Hg _ IH].
  - reflexivity.
  - destruct g as [|x [|y g]]; try discriminate.
    cbn [existsb]. rewrite flat_cons. cbn [app Core.memb existsb]. fold (memb c (flat r)).
    rewrite IH. f_equal. unfold cset_eqb, subsetb. cbn [forallb Core.memb existsb].
    rewrite !orb_false_r, !andb_true_r.
    destruct (ceqb_spec x c) as [->|Hxc].
    + rewrite ceqb_refl. reflexivity.
    + destruct (ceqb_spec c x) as [E|_]; [congruence|reflexivity].
Qed.

Definition miss_of (cs : cset) (x : ballot) : cset :=
  filter (fun c => negb (memb c (listing x))) cs.

Lemma missing_singletons_spec : forall cs (x : ballot),
  Forall (fun g => length g = 1%nat) (rk x) -> missing_singletons cs (rk x) = miss_of cs x.
Proof.
  intros cs x H. unfold Pairwise.missing_singletons, miss_of, PairwiseSpec.listing.
  apply filter_ext. intros c. rewrite existsb_singleton_memb by exact H. reflexivity.
Qed.

Lemma miss_of_In : forall cs x c, In c (miss_of cs x) <-> In c cs /\ ~ In c (listing x).
Proof.
  intros cs x c. unfold miss_of. rewrite filter_In, negb_true_iff, memb_false_iff. tauto.
Qed.

Lemma miss_of_NoDup : forall cs x, NoDup cs -> NoDup (miss_of cs x).
Proof. intros cs x H. apply NoDup_filter. exact H. Qed.

(* the total function computed by [fill_ballot] on ballots that have a ranking *)
Definition fill_fn (cs : cset) (x : ballot) : list ballot :=
  if Nat.ltb (length (rk x)) (length cs)
  then map (fun o => plain_ballot cand (rk x ++ singletons o)
                       (wt x / Qnat (length (perms (miss_of cs x))))) (perms (miss_of cs x))
  else [x].

Lemma fill_ballot_fn : forall cs x, rk x <> [] -> Forall (fun g => length g = 1%nat) (rk x) ->
  fill_ballot cs x = inl (fill_fn cs x).
Proof.
  intros cs x Hne Hs. unfold Pairwise.fill_ballot, fill_fn.
  destruct (rk x) as [|g r] eqn:Er; [congruence|]. rewrite <- Er in *.
  rewrite missing_singletons_spec by exact Hs. destruct (Nat.ltb _ _); reflexivity.
Qed.

Lemma perms_length_pos : forall l : list cand, (0 < length (perms l))%nat.
Proof. intros l. rewrite perms_length. apply fact_pos. Qed.

Lemma listing_length : forall x : ballot, Forall (fun g => length g = 1%nat) (rk x) ->
  length (listing x) = length (rk x).
Proof. intros x H. unfold PairwiseSpec.listing, Core.flat. apply length_concat_le_one. exact H. Qed.

(* a ballot as long as the candidate list lists every candidate *)
Lemma full_ballot_lists_all : forall cs x, untied_ballot cs x ->
  Nat.ltb (length (rk x)) (length cs) = false -> incl cs (listing x).
Proof.
  intros cs x [_ [Hs [Hnd [Hincl _]]]] Hlt. apply Nat.ltb_ge in Hlt.
  apply NoDup_length_incl; [exact Hnd| |exact Hincl].
  rewrite listing_length by exact Hs. exact Hlt.
Qed.

Definition h2h_term (a b : cand) (y : ballot) : Q := if prefers a b (rk y) then wt y else 0.

Lemma fill_h2h : forall cs x a b, NoDup cs -> untied_ballot cs x -> In a cs -> In b cs -> a <> b ->
  qsum (map (h2h_term a b) (fill_fn cs x)) == pref_share a b x.
Proof.
  intros cs x a b Hcs Hx Ha Hb Hab. pose proof Hx as [Hne [Hs [Hnd [Hincl [_ Hw]]]]].
  unfold fill_fn. destruct (Nat.ltb (length (rk x)) (length cs)) eqn:Hlt.
  - (* partial ballot: all completions *)
    rewrite map_map. unfold h2h_term. cbn [rk wt Core.plain_ballot].
    set (ms := miss_of cs x). set (w := wt x / Qnat (length (perms ms))).
    assert (Hk : ~ Qnat (length (perms ms)) == 0) by (apply Qnat_neq0, perms_length_pos).
    assert (Hpre : forall o, prefers a b (rk x ++ singletons o) =
              if memb a (listing x) || memb b (listing x) then before a b (listing x) else before a b o).
    { intros o. rewrite prefers_singletons.
      - rewrite flat_app, flat_singletons. apply before_app.
      - apply Forall_app. split; [exact Hs|apply singletons_all_single]. }
    unfold PairwiseSpec.pref_share. cbv zeta.
    destruct (memb a (listing x)) eqn:Hma; [|destruct (memb b (listing x)) eqn:Hmb].
    + transitivity (qsum (map (fun _ : list cand => if before a b (listing x) then w else 0) (perms ms))).
      * apply qsum_map_ext_in. intros o _. rewrite Hpre. cbn [orb]. reflexivity.
      * rewrite qsum_map_const. destruct (before a b (listing x)); [|ring].
        unfold w. field. exact Hk.
    + transitivity (qsum (map (fun _ : list cand => 0) (perms ms))).
      * apply qsum_map_ext_in. intros o _. rewrite Hpre. cbn [orb].
        rewrite before_notin; [reflexivity|]. apply memb_false_iff. exact Hma.
      * rewrite qsum_map_const. ring.
    + transitivity (ind_sum a b w (perms ms)).
      * unfold ind_sum. apply qsum_map_ext_in. intros o _. rewrite Hpre. cbn [orb]. reflexivity.
      * rewrite perms_half.
        -- unfold w. field. exact Hk.
        -- apply miss_of_NoDup. exact Hcs.
        -- apply miss_of_In. split; [exact Ha|apply memb_false_iff; exact Hma].
        -- apply miss_of_In. split; [exact Hb|apply memb_false_iff; exact Hmb].
        -- exact Hab.
  - (* complete ballot: kept *)
    pose proof (full_ballot_lists_all cs x Hx Hlt) as Hall.
    cbn [map]. rewrite qsum_cons, qsum_nil. unfold h2h_term, PairwiseSpec.pref_share. cbv zeta.
    rewrite prefers_singletons by exact Hs. fold (listing x).
    assert (Hma : memb a (listing x) = true) by (apply memb_In, Hall, Ha).
    rewrite Hma. destruct (before a b (listing x)); ring.
Qed.

(* every ballot produced by filling has positive weight and mentions exactly the candidates *)
Lemma fill_fn_props : forall cs x y, NoDup cs -> untied_ballot cs x -> In y (fill_fn cs x) ->
  0 < wt y /\ incl (ballot_cands cand y) cs /\ incl cs (ballot_cands cand y).
Proof.
  intros cs x y Hcs Hx Hy. pose proof Hx as [Hne [Hs [Hnd [Hincl [Hsc Hw]]]]].
  unfold fill_fn in Hy. destruct (Nat.ltb (length (rk x)) (length cs)) eqn:Hlt.
  - apply in_map_iff in Hy. destruct Hy as [o [<- Ho]]. apply perms_spec in Ho.
    cbn [wt Core.plain_ballot]. split; [|split].
    + apply Qlt_shift_div_l; [apply Qnat_pos, perms_length_pos|]. rewrite Qmult_0_l. exact Hw.
    + unfold Core.ballot_cands. cbn [rk sc Core.plain_ballot map]. rewrite app_nil_r.
      rewrite flat_app, flat_singletons. intros c Hc. apply in_app_or in Hc. destruct Hc as [Hc|Hc].
      * apply Hincl. exact Hc.
      * apply (Permutation_in _ Ho) in Hc. apply miss_of_In in Hc. tauto.
    + unfold Core.ballot_cands. cbn [rk sc Core.plain_ballot map]. rewrite app_nil_r.
      rewrite flat_app, flat_singletons. intros c Hc. apply in_or_app.
      destruct (memb c (listing x)) eqn:Hm.
      * left. apply memb_In. exact Hm.
      * right. apply (Permutation_in _ (Permutation_sym Ho)). apply miss_of_In. split; [exact Hc|].
        apply memb_false_iff. exact Hm.
  - destruct Hy as [<-|[]]. split; [exact Hw|split].
    + unfold Core.ballot_cands. intros c Hc. apply in_app_or in Hc. destruct Hc as [Hc|Hc].
      * apply Hincl. exact Hc.
      * apply Hsc. exact Hc.
    + intros c Hc. unfold Core.ballot_cands. apply in_or_app. left.
      apply (full_ballot_lists_all cs x Hx Hlt). exact Hc.
Qed.

Lemma fill_fn_nonempty : forall cs x, fill_fn cs x <> [].
Proof.
  intros cs x. unfold fill_fn. destruct (Nat.ltb _ _); [|discriminate].
  pose proof (perms_length_pos (miss_of cs x)) as H.
  destruct (perms (miss_of cs x)); [cbn in H; lia|discriminate].
Qed.

(* ------------------------------------------------------------------ *)
(** * [ballot_fill] on an untied profile *)

Definition filled_ballots (p : profile) : list ballot :=
  concat (map (fill_fn (cands p)) (ballots p)).

Theorem ballot_fill_ok : forall p, untied_profile p ->
  ballot_fill p = inl (mkProfile (filled_ballots p) (cast_cands cand ceqb (filled_ballots p))).
Proof.
  intros p [Hcs [Hne Hall]]. unfold Pairwise.ballot_fill.
  rewrite (rmap_total _ _ (fill_ballot (cands p)) (fill_fn (cands p))).
  - reflexivity.
  - intros x Hx. rewrite Forall_forall in Hall. destruct (Hall x Hx) as [H1 [H2 _]].
    apply fill_ballot_fn; assumption.
Qed.

Theorem filled_h2h : forall p a b, untied_profile p -> In a (cands p) -> In b (cands p) -> a <> b ->
  h2h (filled_ballots p) a b == pref_weight (ballots p) a b.
Proof.
  intros p a b [Hcs [Hne Hall]] Ha Hb Hab. unfold Pairwise.h2h, filled_ballots, PairwiseSpec.pref_weight.
  fold (h2h_term a b). rewrite qsum_concat_map. apply qsum_map_ext_in. intros x Hx.
  rewrite Forall_forall in Hall. apply fill_h2h; auto.
Qed.

Theorem filled_cands_perm : forall p, untied_profile p ->
  Permutation (cast_cands cand ceqb (filled_ballots p)) (cands p).
Proof.
  intros p [Hcs [Hne Hall]]. rewrite Forall_forall in Hall. unfold Core.cast_cands.
  apply NoDup_Permutation; [apply dedup_NoDup; exact ceqb_spec|exact Hcs|].
  intros c. rewrite (dedup_In cand ceqb ceqb_spec). rewrite in_concat_iff. split.
  - intros [g [Hg Hc]]. apply in_map_iff in Hg. destruct Hg as [y [<- Hy]].
    unfold filled_ballots in Hy. apply in_concat_iff in Hy. destruct Hy as [ys [Hys Hy]].
    apply in_map_iff in Hys. destruct Hys as [x [<- Hx]].
    destruct (fill_fn_props (cands p) x y Hcs (Hall x Hx) Hy) as [Hw [Hi _]].
    destruct (Qlt_bool 0 (wt y)); [apply Hi; exact Hc|destruct Hc].
  - intros Hc.
    assert (Hex : exists x, In x (ballots p)).
    { destruct (ballots p) as [|x bs]; [congruence|]. exists x. left. reflexivity. }
    destruct Hex as [x Hx].
    pose proof (fill_fn_nonempty (cands p) x) as Hfn.
    destruct (fill_fn (cands p) x) as [|y ys] eqn:Ef; [congruence|].
    assert (Hy : In y (fill_fn (cands p) x)) by (rewrite Ef; left; reflexivity).
    destruct (fill_fn_props (cands p) x y Hcs (Hall x Hx) Hy) as [Hw [_ Hi]].
    exists (if Qlt_bool 0 (wt y) then ballot_cands cand y else []). split.
    + apply in_map_iff. exists y. split; [reflexivity|].
      unfold filled_ballots. apply in_concat_iff. exists (fill_fn (cands p) x). split; [|exact Hy].
      apply in_map. exact Hx.
    + apply Lib_rk.Qlt_bool_iff in Hw. rewrite Hw. apply Hi. exact Hc.
Qed.

(* the statements in terms of the result of [ballot_fill] *)
Theorem c06_margin_proof : forall p fp a b, untied_profile p -> ballot_fill p = inl fp ->
  In a (cands p) -> In b (cands p) -> a <> b ->
  h2h (ballots fp) a b == pref_weight (ballots p) a b.
Proof.
  intros p fp a b Hp Hfp Ha Hb Hab. rewrite ballot_fill_ok in Hfp by exact Hp.
  injection Hfp as <-. cbn [ballots]. apply filled_h2h; assumption.
Qed.

Theorem c06_fill_cands_proof : forall p fp, untied_profile p -> ballot_fill p = inl fp ->
  Permutation (cands fp) (cands p).
Proof.
  intros p fp Hp Hfp. rewrite ballot_fill_ok in Hfp by exact Hp.
  injection Hfp as <-. cbn [cands]. apply filled_cands_perm. exact Hp.
Qed.

Theorem c06_fill_total_proof : forall p, untied_profile p -> exists fp, ballot_fill p = inl fp.
Proof. intros p Hp. eexists. apply ballot_fill_ok. exact Hp. Qed.

(* ------------------------------------------------------------------ *)
(** * [pairs]: every unordered pair of a duplicate-free list exactly once *)

Lemma pairs_cons_In : forall x l a b,
  In (a, b) (pairs (x :: l)) <-> (a = x /\ In b l) \/ In (a, b) (pairs l).
Proof.
  intros x l a b. cbn [Pairwise.pairs]. rewrite in_app_iff, in_map_iff. split.
  - intros [[b' [E Hb']]|H]; [|right; exact H]. injection E as <- <-. left. split; [reflexivity|exact Hb'].
  - intros [[-> Hb]|H]; [|right; exact H]. left. exists b. split; [reflexivity|exact Hb].
Qed.

Lemma pairs_sub : forall l a b, In (a, b) (pairs l) -> In a l /\ In b l.
Proof.
  intros l. induction l as [|x l IH]; intros a b H; [destruct H|].
  apply pairs_cons_In in H. destruct H as [[-> Hb]|H].
  - split; [left; reflexivity|right; exact Hb].
  - apply IH in H. destruct H as [Ha Hb]. split; right; assumption.
Qed.

Lemma pairs_neq : forall l a b, NoDup l -> In (a, b) (pairs l) -> a <> b /\ ~ In (b, a) (pairs l).
Proof.
  intros l a b Hnd. induction Hnd as [|x l Hx _ IH]; intros H; [destruct H|].
  apply pairs_cons_In in H. destruct H as [[-> Hb]|H].
  - split; [intros ->; contradiction|]. intros H. apply pairs_cons_In in H.
    destruct H as [[-> _]|H]; [contradiction|]. apply pairs_sub in H. destruct H as [_ H]. contradiction.
  - destruct (IH H) as [Hab Hno]. split; [exact Hab|]. intros H'. apply pairs_cons_In in H'.
    destruct H' as [[-> _]|H']; [|contradiction]. apply pairs_sub in H. destruct H as [_ H]. contradiction.
Qed.

Lemma pairs_total : forall l a b, In a l -> In b l -> a <> b ->
  In (a, b) (pairs l) \/ In (b, a) (pairs l).
Proof.
  intros l. induction l as [|x l IH]; intros a b Ha Hb Hab; [destruct Ha|].
  rewrite !pairs_cons_In. destruct Ha as [<-|Ha].
  - destruct Hb as [Hb|Hb]; [congruence|]. left. left. split; [reflexivity|exact Hb].
  - destruct Hb as [<-|Hb].
    + right. left. split; [reflexivity|exact Ha].
    + destruct (IH a b Ha Hb Hab) as [H|H]; [left|right]; right; exact H.
Qed.

Lemma pairs_NoDup : forall l, NoDup l -> NoDup (pairs l).
Proof.
  intros l Hnd. induction Hnd as [|x l Hx Hnd IH]; [constructor|].
  cbn [Pairwise.pairs]. apply NoDup_app_intro.
  - apply map_inj_NoDup; [|exact Hnd]. intros a b E. injection E as E. exact E.
  - exact IH.
  - intros [a b] H1 H2. apply in_map_iff in H1. destruct H1 as [b' [E _]]. injection E as <- <-.
    apply pairs_sub in H2. destruct H2 as [H2 _]. contradiction.
Qed.

(* ------------------------------------------------------------------ *)
(** * [pairwise_entries] and [edge] for an arbitrary list of ballots *)

Section Entries.
Variable bs : list ballot.
Variable cs : cset.
Hypothesis Hcs : NoDup cs.

Let H (a b : cand) : Q := h2h bs a b.

Definition entry_block (ab : cand * cand) : list (cand * cand * Q) :=
  let a := fst ab in let b := snd ab in
  let x := h2h bs a b in let y := h2h bs b a in
  if Qeq_bool (x - y) 0 then [(a, b, 0); (b, a, 0)]
  else if Qlt_bool y x then [(a, b, x - y)] else [(b, a, y - x)].

Lemma entries_unfold : pairwise_entries bs cs = concat (map entry_block (pairs cs)).
Proof. reflexivity. Qed.

Lemma entry_block_sound : forall c d a b v, In (a, b, v) (entry_block (c, d)) ->
  ((a, b) = (c, d) \/ (a, b) = (d, c)) /\ v == H a b - H b a /\ 0 <= H a b - H b a.
Proof.
  intros c d a b v. unfold entry_block. cbn [fst snd]. fold (H c d) (H d c).
  destruct (Qeq_bool (H c d - H d c) 0) eqn:E0.
  - apply Qeq_bool_iff in E0. intros [E|[E|[]]]; injection E as <- <- <-.
    + split; [left; reflexivity|]. split; lra.
    + split; [right; reflexivity|]. split; lra.
  - destruct (Qlt_bool (H d c) (H c d)) eqn:Elt.
    + apply Lib_rk.Qlt_bool_iff in Elt. intros [E|[]]. injection E as <- <- <-.
      split; [left; reflexivity|]. split; lra.
    + apply Lib_rk.Qlt_bool_false_iff in Elt. intros [E|[]]. injection E as <- <- <-.
      split; [right; reflexivity|]. split; lra.
Qed.

Lemma entry_block_keys : forall c d, c <> d ->
  NoDup (map fst (entry_block (c, d))) /\
  (forall k, In k (map fst (entry_block (c, d))) -> k = (c, d) \/ k = (d, c)).
Proof.
  intros c d Hcd. unfold entry_block. cbn [fst snd].
  destruct (Qeq_bool _ 0); [|destruct (Qlt_bool _ _)]; cbn [map fst]; split.
  - constructor; [|constructor; [intros []|constructor]].
    intros [E|[]]. injection E as E1 E2. congruence.
  - intros k [<-|[<-|[]]]; [left|right]; reflexivity.
  - constructor; [intros []|constructor].
  - intros k [<-|[]]. left. reflexivity.
  - constructor; [intros []|constructor].
  - intros k [<-|[]]. right. reflexivity.
Qed.

Theorem entries_sound : forall a b v, In (a, b, v) (pairwise_entries bs cs) ->
  In a cs /\ In b cs /\ a <> b /\ v == H a b - H b a /\ 0 <= H a b - H b a.
Proof.
  intros a b v Hin. rewrite entries_unfold in Hin. apply in_concat_iff in Hin.
  destruct Hin as [g [Hg Hin]]. apply in_map_iff in Hg. destruct Hg as [[c d] [<- Hcd]].
  apply entry_block_sound in Hin. destruct Hin as [Hk [Hv Hm]].
  destruct (pairs_neq cs c d Hcs Hcd) as [Hne _]. destruct (pairs_sub cs c d Hcd) as [Hc Hd].
  destruct Hk as [E|E]; injection E as -> ->; repeat split; auto.
Qed.

Theorem entries_complete : forall a b, In a cs -> In b cs -> a <> b -> 0 <= H a b - H b a ->
  exists v, In (a, b, v) (pairwise_entries bs cs) /\ v == H a b - H b a.
Proof.
  intros a b Ha Hb Hab Hm. rewrite entries_unfold.
  destruct (pairs_total cs a b Ha Hb Hab) as [Hp|Hp].
  - assert (Hblk : exists v, In (a, b, v) (entry_block (a, b)) /\ v == H a b - H b a).
    { unfold entry_block. cbn [fst snd]. fold (H a b) (H b a).
      destruct (Qeq_bool (H a b - H b a) 0) eqn:E0.
      - apply Qeq_bool_iff in E0. exists 0. split; [left; reflexivity|lra].
      - apply Lib_rk.Qeq_bool_false_iff in E0.
        assert (Hlt : Qlt_bool (H b a) (H a b) = true).
        { apply Lib_rk.Qlt_bool_iff. destruct (Qlt_le_dec (H b a) (H a b)) as [L|L]; [exact L|].
          exfalso. apply E0. lra. }
        rewrite Hlt. exists (H a b - H b a). split; [left; reflexivity|reflexivity]. }
    destruct Hblk as [v [Hv Hveq]]. exists v. split; [|exact Hveq].
    apply in_concat_iff. exists (entry_block (a, b)). split; [|exact Hv]. apply in_map. exact Hp.
  - assert (Hblk : exists v, In (a, b, v) (entry_block (b, a)) /\ v == H a b - H b a).
    { unfold entry_block. cbn [fst snd]. fold (H a b) (H b a).
      destruct (Qeq_bool (H b a - H a b) 0) eqn:E0.
      - apply Qeq_bool_iff in E0. exists 0. split; [right; left; reflexivity|lra].
      - apply Lib_rk.Qeq_bool_false_iff in E0.
        assert (Hlt : Qlt_bool (H a b) (H b a) = false).
        { apply Lib_rk.Qlt_bool_false_iff. lra. }
        rewrite Hlt. exists (H a b - H b a). split; [left; reflexivity|reflexivity]. }
    destruct Hblk as [v [Hv Hveq]]. exists v. split; [|exact Hveq].
    apply in_concat_iff. exists (entry_block (b, a)). split; [|exact Hv]. apply in_map. exact Hp.
Qed.

Theorem entries_keys_NoDup : NoDup (map fst (pairwise_entries bs cs)).
Proof.
  rewrite entries_unfold, concat_map, map_map.
  apply C12_expand.NoDup_concat_map.
  - apply pairs_NoDup. exact Hcs.
  - intros [c d] Hcd. apply entry_block_keys. apply (pairs_neq cs c d Hcs Hcd).
  - intros [c d] [c' d'] k Hcd Hcd' Hk Hk'.
    destruct (pairs_neq cs c d Hcs Hcd) as [Hne Hno].
    destruct (pairs_neq cs c' d' Hcs Hcd') as [Hne' _].
    apply (proj2 (entry_block_keys c d Hne)) in Hk. apply (proj2 (entry_block_keys c' d' Hne')) in Hk'.
    destruct Hk as [-> | ->]; destruct Hk' as [E|E]; injection E as <- <-; try reflexivity; contradiction.
Qed.

Theorem edge_iff_entry : forall a b,
  edge (pairwise_entries bs cs) a b = true <-> exists v, In (a, b, v) (pairwise_entries bs cs).
Proof.
  intros a b. unfold Pairwise.edge. rewrite existsb_exists. split.
  - intros [[[c d] v] [Hin Hk]]. cbn [fst snd] in Hk. apply andb_true_iff in Hk. destruct Hk as [H1 H2].
    apply ceqb_true_iff in H1. apply ceqb_true_iff in H2. subst c d. exists v. exact Hin.
  - intros [v Hin]. exists (a, b, v). split; [exact Hin|]. cbn [fst snd]. rewrite !ceqb_refl. reflexivity.
Qed.

Theorem edge_iff_h2h : forall a b,
  edge (pairwise_entries bs cs) a b = true <->
  In a cs /\ In b cs /\ a <> b /\ H b a <= H a b.
Proof.
  intros a b. rewrite edge_iff_entry. split.
  - intros [v Hin]. apply entries_sound in Hin. destruct Hin as [Ha [Hb [Hab [_ Hm]]]].
    repeat split; auto. lra.
  - intros [Ha [Hb [Hab Hm]]]. destruct (entries_complete a b Ha Hb Hab) as [v [Hv _]]; [lra|].
    exists v. exact Hv.
Qed.

End Entries.

(* ------------------------------------------------------------------ *)
(** * The dictionary and the digraph of an untied profile *)

Section OfProfile.
Variable p fp : profile.
Hypothesis Hp : untied_profile p.
Hypothesis Hfp : ballot_fill p = inl fp.

Let es := pairwise_entries (ballots fp) (cands fp).

Lemma fp_cands_NoDup : NoDup (cands fp).
Proof.
  eapply Permutation_NoDup; [apply Permutation_sym; apply (c06_fill_cands_proof p fp Hp Hfp)|].
  apply Hp.
Qed.

Lemma fp_cands_In : forall c, In c (cands fp) <-> In c (cands p).
Proof.
  intros c. pose proof (c06_fill_cands_proof p fp Hp Hfp) as HP. split; intros Hc.
  - eapply Permutation_in; [exact HP|exact Hc].
  - eapply Permutation_in; [apply Permutation_sym; exact HP|exact Hc].
Qed.

Theorem c06_dict_sound_proof : forall a b v, In (a, b, v) es ->
  In a (cands p) /\ In b (cands p) /\ a <> b /\
  v == margin (ballots p) a b /\ 0 <= margin (ballots p) a b.
Proof.
  intros a b v Hin. apply (entries_sound _ _ fp_cands_NoDup) in Hin.
  destruct Hin as [Ha [Hb [Hab [Hv Hm]]]]. apply fp_cands_In in Ha. apply fp_cands_In in Hb.
  unfold PairwiseSpec.margin.
  rewrite <- (c06_margin_proof p fp a b Hp Hfp Ha Hb Hab).
  rewrite <- (c06_margin_proof p fp b a Hp Hfp Hb Ha (not_eq_sym Hab)).
  repeat split; assumption.
Qed.

Theorem c06_dict_complete_proof : forall a b, In a (cands p) -> In b (cands p) -> a <> b ->
  0 <= margin (ballots p) a b ->
  exists v, In (a, b, v) es /\ v == margin (ballots p) a b.
Proof.
  intros a b Ha Hb Hab Hm. unfold PairwiseSpec.margin in *.
  pose proof (c06_margin_proof p fp a b Hp Hfp Ha Hb Hab) as E1.
  pose proof (c06_margin_proof p fp b a Hp Hfp Hb Ha (not_eq_sym Hab)) as E2.
  destruct (entries_complete (ballots fp) (cands fp) a b) as [v [Hv Hveq]].
  - apply fp_cands_In. exact Ha.
  - apply fp_cands_In. exact Hb.
  - exact Hab.
  - rewrite E1, E2. exact Hm.
  - exists v. split; [exact Hv|]. rewrite Hveq, E1, E2. reflexivity.
Qed.

Theorem c06_dict_keys_proof : NoDup (map fst es).
Proof. apply entries_keys_NoDup. exact fp_cands_NoDup. Qed.

Theorem c06_edge_iff_proof : forall a b,
  edge es a b = true <->
  In a (cands p) /\ In b (cands p) /\ a <> b /\ pref_weight (ballots p) b a <= pref_weight (ballots p) a b.
Proof.
  intros a b. unfold es. rewrite (edge_iff_h2h _ _ fp_cands_NoDup). rewrite !fp_cands_In. split.
  - intros [Ha [Hb [Hab Hm]]]. repeat split; auto.
    rewrite <- (c06_margin_proof p fp a b Hp Hfp Ha Hb Hab).
    rewrite <- (c06_margin_proof p fp b a Hp Hfp Hb Ha (not_eq_sym Hab)). exact Hm.
  - intros [Ha [Hb [Hab Hm]]]. repeat split; auto.
    rewrite (c06_margin_proof p fp a b Hp Hfp Ha Hb Hab).
    rewrite (c06_margin_proof p fp b a Hp Hfp Hb Ha (not_eq_sym Hab)). exact Hm.
Qed.

Theorem c06_dict_entries_proof :
  (forall a b v, In (a, b, v) es ->
     In a (cands p) /\ In b (cands p) /\ a <> b /\
     v == margin (ballots p) a b /\ 0 <= margin (ballots p) a b) /\
  (forall a b, In a (cands p) -> In b (cands p) -> a <> b -> 0 <= margin (ballots p) a b ->
     exists v, In (a, b, v) es /\ v == margin (ballots p) a b) /\
  NoDup (map fst es).
Proof.
  split; [exact c06_dict_sound_proof|]. split; [exact c06_dict_complete_proof|exact c06_dict_keys_proof].
Qed.

Lemma margin_antisym : forall a b, margin (ballots p) b a == - margin (ballots p) a b.
Proof. intros a b. unfold PairwiseSpec.margin. ring. Qed.

(* the two cases of the property text: a non-zero margin is recorded once, for the winner;
   a zero margin is recorded in both directions with value 0 *)
Theorem c06_dict_cases_proof : forall a b, In a (cands p) -> In b (cands p) -> a <> b ->
  (0 < margin (ballots p) a b ->
     (exists v, In (a, b, v) es /\ v == margin (ballots p) a b) /\ (forall v, ~ In (b, a, v) es)) /\
  (margin (ballots p) a b == 0 ->
     (exists v, In (a, b, v) es /\ v == 0) /\ (exists v, In (b, a, v) es /\ v == 0)).
Proof.
  intros a b Ha Hb Hab. pose proof (margin_antisym a b) as Hanti. split.
  - intros Hpos. split.
    + apply c06_dict_complete_proof; auto. apply Qlt_le_weak. exact Hpos.
    + intros v Hin. apply c06_dict_sound_proof in Hin. destruct Hin as [_ [_ [_ [_ Hm]]]]. lra.
  - intros Hz. split.
    + destruct (c06_dict_complete_proof a b Ha Hb Hab) as [v [Hv Hveq]]; [lra|].
      exists v. split; [exact Hv|lra].
    + destruct (c06_dict_complete_proof b a Hb Ha (not_eq_sym Hab)) as [v [Hv Hveq]]; [lra|].
      exists v. split; [exact Hv|lra].
Qed.

End OfProfile.

End Pairwise.
