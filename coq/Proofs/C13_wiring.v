(* Proofs/C13_wiring.v — the thin wrapper classes (IRV, SequentialRCV, SNTV, Rating, Approval,
   Limited, Cumulative, BlocPlurality), the STV constructor defaults and the quota formulas:
   the hand-written model ([Election.expand], [Rules.run_rule], [STV.threshold]) agrees with what
   harness/wiring_gen.py reads off the CURRENT Python source into Generated/Wiring.v.
   Every statement here mentions a generated definition, so a change of what a wrapper forwards
   to its parent (or of a default, a guard, a quota formula) changes Generated/Wiring.v and
   breaks the corresponding proof below. *)
From VK Require Import Base Core STV Pairwise Rules PV Election.
From VK.Generated Require Import Wiring.
From Coq Require Import Lia.

(* ---------- W1: alias classes ---------- *)

Lemma c13_irv_proof : forall q tb,
  expand (WIRV q tb) = Some (wire_IRV q tb) /\ guard_IRV q tb = false /\
  wire_IRV q tb = RSTV (mkStv 1 q true TFractional tb).
Proof. intros q tb. repeat split. Qed.

Lemma c13_seqrcv_proof : forall m q simul tb,
  expand (WSeqRCV m q simul tb) = Some (wire_SequentialRCV m q simul tb) /\
  guard_SequentialRCV m q simul tb = false /\
  wire_SequentialRCV m q simul tb = RSTV (mkStv m q simul TFullWeight tb).
Proof. intros m q simul tb. repeat split. Qed.

Lemma c13_sntv_proof : forall m tb,
  expand (WSNTV m tb) = Some (wire_SNTV m tb) /\ guard_SNTV m tb = false /\
  wire_SNTV m tb = RPlurality m tb.
Proof. intros m tb. repeat split. Qed.

Lemma c05_wiring_rating_proof : forall m L tb,
  expand (WRating m L tb) = Some (wire_Rating m L tb) /\ guard_Rating m L tb = false /\
  wire_Rating m L tb = RRating m L None tb.
Proof. intros m L tb. repeat split. Qed.

Lemma c05_wiring_approval_proof : forall m tb,
  expand (WApproval m tb) = Some (wire_Approval m tb) /\ guard_Approval m tb = false /\
  wire_Approval m tb = RRating m 1 None tb.
Proof. intros m tb. repeat split. Qed.

Lemma c05_wiring_cumulative_proof : forall m tb,
  expand (WCumulative m tb) = Some (wire_Cumulative m tb) /\ guard_Cumulative m tb = false /\
  wire_Cumulative m tb = RLimited m (inject_Z m) tb.
Proof. intros m tb. repeat split. Qed.

(* ---------- W3: quota formulas and STV defaults ---------- *)

Lemma c02_threshold_wired_proof : forall q m total, threshold q m total = wired_threshold q m total.
Proof. intros q m total. destruct q; reflexivity. Qed.

Lemma c13_stv_defaults_proof :
  default_STV_m = 1%Z /\ default_STV_transfer = TFractional /\ default_STV_quota = QDroop /\
  default_STV_simultaneous = true /\ default_STV_tiebreak = None.
Proof. repeat split. Qed.

(* IRV / SequentialRCV / SNTV keep their parent's defaults for the parameters they expose *)
Lemma c13_alias_defaults_proof :
  default_IRV_quota = default_STV_quota /\ default_IRV_tiebreak = default_STV_tiebreak /\
  default_SequentialRCV_m = default_STV_m /\ default_SequentialRCV_quota = default_STV_quota /\
  default_SequentialRCV_simultaneous = default_STV_simultaneous /\
  default_SequentialRCV_tiebreak = default_STV_tiebreak /\
  wire_IRV default_IRV_quota default_IRV_tiebreak
  = RSTV (mkStv default_STV_m default_STV_quota default_STV_simultaneous default_STV_transfer
                default_STV_tiebreak).
Proof. repeat split. Qed.

Section WithCand.
Variable cand : Type.
Variable ceqb : cand -> cand -> bool.

Notation profile := (profile cand).
Notation mstate := (mstate cand).
Notation run_rule := (run_rule cand ceqb).
Notation run_wrule := (run_wrule cand ceqb).
Notation run_rating := (run_rating cand ceqb).
Notation run_stv := (run_stv cand ceqb).
Notation run_plurality := (run_plurality cand ceqb).

(* ---------- W1, run form: the wrapper runs exactly what the generated wiring says ---------- *)

Lemma c13_irv_run_proof : forall q tb (p : profile),
  run_wrule (WIRV q tb) p = run_rule (wire_IRV q tb) p /\
  run_wrule (WIRV q tb) p = run_stv (mkStv 1 q true TFractional tb) p.
Proof. intros q tb p. split; reflexivity. Qed.

Lemma c13_seqrcv_run_proof : forall m q simul tb (p : profile),
  run_wrule (WSeqRCV m q simul tb) p = run_rule (wire_SequentialRCV m q simul tb) p /\
  run_wrule (WSeqRCV m q simul tb) p = run_stv (mkStv m q simul TFullWeight tb) p.
Proof. intros m q simul tb p. split; reflexivity. Qed.

Lemma c13_sntv_run_proof : forall m tb (p : profile),
  run_wrule (WSNTV m tb) p = run_rule (wire_SNTV m tb) p /\
  run_wrule (WSNTV m tb) p = run_plurality m tb p.
Proof. intros m tb p. split; reflexivity. Qed.

Lemma c05_wiring_rating_run_proof : forall m L tb (p : profile),
  run_wrule (WRating m L tb) p = run_rule (wire_Rating m L tb) p /\
  run_wrule (WRating m L tb) p = run_rating m L None tb p.
Proof. intros m L tb p. split; reflexivity. Qed.

Lemma c05_wiring_approval_run_proof : forall m tb (p : profile),
  run_wrule (WApproval m tb) p = run_rule (wire_Approval m tb) p /\
  run_wrule (WApproval m tb) p = run_rating m 1 None tb p.
Proof. intros m tb p. split; reflexivity. Qed.

Lemma c05_wiring_cumulative_run_proof : forall m tb (p : profile),
  run_wrule (WCumulative m tb) p = run_rule (wire_Cumulative m tb) p.
Proof. intros m tb p. reflexivity. Qed.

(* ---------- W2: Limited, BlocPlurality, Cumulative against GeneralRating ---------- *)

Lemma c05_wiring_limited_proof : forall m k tb (p : profile),
  run_rule (RLimited m k tb) p
  = (if guard_Limited m k tb then mfail EValue else run_rule (wire_Limited m k tb) p) /\
  guard_Limited m k tb = Qlt_bool (inject_Z m) k /\
  wire_Limited m k tb = RRating m k (Some k) tb.
Proof. intros m k tb p. repeat split. Qed.

Lemma c05_wiring_bloc_proof : forall m k tb (p : profile),
  run_rule (RBloc m k tb) p = run_rule (wire_BlocPlurality m k tb) p /\
  guard_BlocPlurality m k tb = false /\
  wire_BlocPlurality m k tb
  = RRating m 1 (Some (inject_Z (match k with
                                 | Some x => if Z.eqb x 0 then m else x
                                 | None => m
                                 end))) tb.
Proof. intros m k tb p. repeat split. Qed.

Lemma Qlt_bool_irrefl : forall a, Qlt_bool a a = false.
Proof.
  intros a. unfold Qlt_bool.
  assert (H : Qle_bool a a = true) by (apply Qle_bool_iff; apply Qle_refl).
  rewrite H. reflexivity.
Qed.

(* Cumulative(m) = Limited(m, k = m) = GeneralRating(m, L = m, k = m): the Limited guard k > m
   can never fire *)
Lemma c05_wiring_cumulative_full_proof : forall m tb (p : profile),
  guard_Limited m (inject_Z m) tb = false /\
  run_wrule (WCumulative m tb) p = run_rule (RLimited m (inject_Z m) tb) p /\
  run_wrule (WCumulative m tb) p = run_rule (wire_Limited m (inject_Z m) tb) p /\
  run_wrule (WCumulative m tb) p = run_rating m (inject_Z m) (Some (inject_Z m)) tb p.
Proof.
  intros m tb p.
  assert (Hg : guard_Limited m (inject_Z m) tb = false) by apply Qlt_bool_irrefl.
  split; [exact Hg|]. split; [reflexivity|].
  assert (H : run_wrule (WCumulative m tb) p = run_rule (wire_Limited m (inject_Z m) tb) p).
  { change (run_wrule (WCumulative m tb) p)
      with (if guard_Limited m (inject_Z m) tb then mfail EValue
            else run_rule (wire_Limited m (inject_Z m) tb) p).
    rewrite Hg. reflexivity. }
  split; [exact H|]. rewrite H. reflexivity.
Qed.

End WithCand.
