(* Proofs/C13_alaska2.v — C13, content for the three wrapper theorems of Properties/C13.v
   (c13_seqrcv_run / c13_irv_run / c13_sntv_run are reflexivity):
   - SequentialRCV: in every election round of a run through the wrapper every ballot moves on at
     FULL weight to its next surviving choice (per ranking class, per candidate tally, in total);
   - IRV: exactly one winner, elected in the last round; every earlier round eliminates one;
   - SNTV: the top-m theorem of Plurality through the wrapper.
   (The Alaska quiet-path theorems are in Proofs/C13_alaska2_lib.v.) *)
From Coq Require Import List ZArith QArith Bool Permutation Lia Lqa.
From VK Require Import Base Core STV Pairwise Rules PV Election EditSpec.
From VK.Spec Require Import ScoreSpec TopMSpec STVSpec ReplaySpec TieSpec STVRunSpec RunSpec OneShotSpec
  SeqRCVSpec.
From VK.Proofs Require Import Lib_sets Lib_rk C09_replay STV_lib STV_wsum STV_step STV_round STV_weights
  STV_inv STV_cases STV_final C03_transfer C02_run C03_trace C02_tallies C01_lib C04_rules.
From VK.Proofs Require C10_quiet.
From VK.Generated Require Import Wiring.
Import ListNotations.

Section Wrappers.
Variable cand : Type.
Variable ceqb : cand -> cand -> bool.
Hypothesis ceqb_spec : forall a b, reflect (a = b) (ceqb a b).

Notation cset := (cset cand).
Notation ranking := (ranking cand).
Notation ballot := (ballot cand).
Notation profile := (profile cand).
Notation estate := (estate cand).
Notation mstate := (mstate cand).
Notation flat := (flat cand).
Notation strip := (strip cand ceqb).
Notation memb := (memb cand ceqb).
Notation cset_eqb := (cset_eqb cand ceqb).
Notation first_is := (first_is cand ceqb).
Notation total_wt := (total_wt cand).
Notation wtof_rk := (wtof_rk cand ceqb).
Notation wt_where := (wt_where cand).
Notation maps_to := (maps_to cand ceqb).
Notation exhausted := (exhausted cand ceqb).
Notation tally := (tally cand ceqb).
Notation wf_stv0 := (wf_stv0 cand).
Notation step_ctx := (step_ctx cand ceqb).
Notation script_ok := (script_ok cand).
Notation stv_trace := (stv_trace cand ceqb).
Notation stv_init := (stv_init cand).
Notation stv_step := (stv_step cand ceqb).
Notation run_stv := (run_stv cand ceqb).
Notation run_wrule := (run_wrule cand ceqb).
Notation count_elected := (count_elected cand).
Notation real_groups := (real_groups cand).
Notation elected_in := (elected_in cand).
Notation eliminated_in := (eliminated_in cand).
Notation led_by := (led_by cand ceqb).
Notation next_is := (next_is cand ceqb).
Notation keep_share := (keep_share cand ceqb).
Notation moved_to := (moved_to cand ceqb).
Notation exhausted_wt := (exhausted_wt cand ceqb).
Notation cls := (cls cand ceqb).
Notation wsumr := (wsumr cand).
Notation after := (after cand ceqb).
Notation get_elected := (get_elected cand).
Notation elects_exactly := (elects_exactly cand).

Let memb_In := Lib_rk.memb_In cand ceqb ceqb_spec.
Let memb_false_iff := Lib_rk.memb_false_iff cand ceqb ceqb_spec.

(* ------------------------------------------------------------------ *)
(** * SequentialRCV: one election round at full weight *)

Lemma keep_share_full : forall W t bs b, keep_share TFullWeight W t bs b = 1.
Proof. intros W t bs b. unfold STVSpec.keep_share. destruct (head_cand cand b); reflexivity. Qed.

Lemma flat_real_groups : forall r : ranking, flat (real_groups r) = flat r.
Proof.
  intros r. unfold STV.real_groups. destruct r as [|g r]; [reflexivity|].
  destruct g as [|c g]; [|reflexivity]. destruct r; reflexivity.
Qed.

(* the class function "the first position is {c}" *)
Definition lead_ind (c : cand) (r : ranking) : Q :=
  match r with g :: _ => if cset_eqb g [c] then 1 else 0 | [] => 0 end.

Lemma lead_ind_cls : forall c, cls (lead_ind c).
Proof.
  intros c a b H. destruct a as [|ga a]; destruct b as [|gb b]; cbn [Core.ranking_eqb] in H;
    try discriminate; [reflexivity|].
  apply andb_true_iff in H. destruct H as [Hg _]. unfold lead_ind.
  destruct (cset_eqb ga [c]) eqn:Ea; destruct (cset_eqb gb [c]) eqn:Eb; try reflexivity; exfalso.
  - rewrite (Lib_sets.cset_eqb_sym cand ceqb) in Hg.
    rewrite (Lib_sets.cset_eqb_trans cand ceqb ceqb_spec gb ga [c] Hg Ea) in Eb. discriminate.
  - rewrite (Lib_sets.cset_eqb_trans cand ceqb ceqb_spec ga gb [c] Hg Eb) in Ea. discriminate.
Qed.

Lemma wsumr_lead : forall c (bs : list ballot), wsumr (lead_ind c) bs == tally c bs.
Proof.
  intros c bs. rewrite (tally_as_ite cand ceqb). unfold STV_wsum.wsumr.
  apply Lib_sets.qsum_map_ext_in. intros b _. unfold lead_ind, Core.first_is.
  destruct (rk b) as [|g r]; [ring|]. destruct (cset_eqb g [c]); ring.
Qed.

Lemma cset_eqb_single : forall h c, cset_eqb [h] [c] = true -> h = c.
Proof.
  intros h c H. apply (Lib_sets.cset_eqb_iff cand ceqb ceqb_spec) in H. destruct H as [H _].
  destruct (H h (or_introl eq_refl)) as [E|[]]. symmetry. exact E.
Qed.

(* what one election round of SequentialRCV does to the ballots *)
Theorem full_weight_step : forall cfg t (p0 p : profile) prev n (s s' : mstate) np st,
  step_ctx p0 p prev -> s_transfer cfg = TFullWeight ->
  stv_step cfg t p0 n p prev s = inl ((np, st), s') ->
  flat (elected st) <> [] ->
  let W := flat (elected st) in
  NoDup W /\ incl W (cands p) /\
  (forall c, In c (cands np) <-> In c (cands p) /\ ~ In c W) /\
  (forall r' : ranking, nonempty r' = true ->
     wtof_rk r' (ballots np) == wt_where (maps_to W r') (ballots p)) /\
  (forall c, In c (cands np) ->
     tally c (ballots np) ==
     tally c (ballots p) + wt_where (fun b => led_by W b && next_is W c b) (ballots p)) /\
  total_wt (ballots p) - total_wt (ballots np) == wt_where (exhausted W) (ballots p) /\
  0 <= wt_where (exhausted W) (ballots p).
Proof.
  intros cfg t p0 p prev n s s' np st Hctx Hk Hstep Hne W.
  assert (Hscr : s_transfer cfg = TRandom -> script_ok s) by (rewrite Hk; discriminate).
  assert (HkR : s_transfer cfg <> TRandom) by (rewrite Hk; discriminate).
  pose proof (ctx_wf cand ceqb p0 p prev Hctx) as Hwf.
  destruct (stv_step_wf cand ceqb ceqb_spec cfg t p0 p prev Hctx n s s' np st Hscr Hstep)
    as [_ [_ [Hnd [Hincl [_ [Hcands _]]]]]].
  assert (Hmoved : forall r' : ranking,
            moved_to W (keep_share (s_transfer cfg) W t (ballots p)) r' (ballots p)
            == wt_where (maps_to W r') (ballots p)).
  { intros r'. unfold STVSpec.moved_to, EditSpec.sum_where, EditSpec.wt_where.
    apply Lib_sets.qsum_map_ext_in. intros b _. rewrite Hk, keep_share_full. ring. }
  assert (Hexh : exhausted_wt W (keep_share (s_transfer cfg) W t (ballots p)) (ballots p)
                 == wt_where (exhausted W) (ballots p)).
  { unfold STVSpec.exhausted_wt, EditSpec.sum_where, EditSpec.wt_where.
    apply Lib_sets.qsum_map_ext_in. intros b _. rewrite Hk, keep_share_full. ring. }
  destruct (stv_step_ok_inv cand ceqb ceqb_spec cfg t p0 p prev Hctx n s s' np st Hscr Hstep)
    as [[Hsome (W0 & others & mvs & s1 & Hr)]|[(Hnone & Hcnt & _ & Hd)|(_ & _ & x & Hxr)]].
  - (* somebody reaches the threshold *)
    assert (Hsome' : exists c, reaches cand ceqb t p c) by exact Hsome.
    assert (HW : elected_in st ++ eliminated_in st = W).
    { unfold STVSpec.eliminated_in. rewrite (er_elim _ _ _ _ _ _ _ _ _ _ _ _ _ _ Hr).
      cbn. rewrite app_nil_r. unfold STVSpec.elected_in. apply flat_real_groups. }
    rewrite HW in Hnd, Hincl, Hcands.
    split; [exact Hnd|]. split; [exact Hincl|]. split; [exact Hcands|].
    split.
    { intros r' Hr'.
      rewrite (round_weights_elect cand ceqb ceqb_spec cfg t p0 p prev n s s' np st Hctx Hstep r' HkR
                 Hsome' Hr'). apply Hmoved. }
    split.
    { intros c Hc. apply Hcands in Hc. destruct Hc as [_ HcW].
      pose proof (er_W _ _ _ _ _ _ _ _ _ _ _ _ _ _ Hr) as EW. fold W in EW.
      pose proof (elect_round_law cand ceqb ceqb_spec cfg t p0 p prev st np s s' W0 others mvs s1 Hctx Hr
                    (lead_ind c) HkR (lead_ind_cls c)) as Hlaw.
      rewrite <- EW in Hlaw. rewrite <- (wsumr_lead c (ballots np)), Hlaw.
      rewrite (tally_as_ite cand ceqb). unfold EditSpec.wt_where. rewrite Lib_rk.qsum_filter_as_ite.
      rewrite <- Lib_sets.qsum_map_plus. apply Lib_sets.qsum_map_ext_in. intros b Hb.
      rewrite Hk, keep_share_full.
      destruct Hwf as [_ Hwfb]. rewrite Forall_forall in Hwfb.
      destruct (wf_ballot_head cand _ b (Hwfb b Hb)) as (h & rest & Hrk & _ & Hh).
      unfold STV_wsum.after, STVRunSpec.led_by, SeqRCVSpec.next_is, Core.first_is.
      rewrite Hh, Hrk, (strip_cons_single cand ceqb).
      destruct (memb h W) eqn:Em.
      - assert (Ehc : cset_eqb [h] [c] = false).
        { destruct (cset_eqb [h] [c]) eqn:E; [|reflexivity]. exfalso. apply HcW.
          apply cset_eqb_single in E. subst h. apply memb_In. exact Em. }
        rewrite Ehc. cbn [andb]. destruct (strip W rest) as [|g rr]; cbn [nonempty lead_ind]; [ring|].
        destruct (cset_eqb g [c]); ring.
      - cbn [nonempty lead_ind andb]. destruct (cset_eqb [h] [c]); ring. }
    destruct (round_accounting_elect cand ceqb ceqb_spec cfg t p0 p prev n s s' np st Hctx Hstep HkR Hsome')
      as [Hacc Hpos].
    fold W in Hacc, Hpos. rewrite Hk in Hacc at 1. rewrite Hexh in Hacc, Hpos.
    split; [rewrite Hacc; ring|exact Hpos].
  - (* default election: nothing is left, no ballot had a surviving choice *)
    assert (HW : elected_in st ++ eliminated_in st = W).
    { unfold STVSpec.eliminated_in. rewrite (dr_elim _ _ _ _ Hd).
      cbn. rewrite app_nil_r. unfold STVSpec.elected_in. apply flat_real_groups. }
    rewrite HW in Hnd, Hincl, Hcands.
    split; [exact Hnd|]. split; [exact Hincl|]. split; [exact Hcands|].
    destruct (round_accounting_default cand ceqb ceqb_spec cfg t p0 p prev n s s' np st Hctx Hstep
                Hscr Hnone Hcnt) as [Hb Hall].
    fold W in Hall.
    split.
    { intros r' Hr'. rewrite Hb. unfold EditSpec.wtof_rk, EditSpec.wt_where. cbn [filter map].
      rewrite (Lib_sets.filter_all_false (maps_to W r') (ballots p)); [reflexivity|].
      intros b Hb0. specialize (Hall b Hb0). unfold EditSpec.exhausted in Hall.
      unfold EditSpec.maps_to. destruct (strip W (rk b)) as [|g rr]; [|discriminate].
      destruct r'; [discriminate|reflexivity]. }
    split.
    { intros c Hc. rewrite (dr_np _ _ _ _ Hd) in Hc. destruct Hc. }
    rewrite Hb, (wt_where_all cand _ _ Hall). unfold Core.total_wt at 2. cbn [map].
    rewrite Lib_sets.qsum_nil. split; [ring|apply (total_wt_nonneg cand p Hwf)].
  - exfalso. apply Hne. rewrite (xr_el _ _ _ _ _ _ _ _ _ _ Hxr). reflexivity.
Qed.

(* ------------------------------------------------------------------ *)
(** * SequentialRCV through the wrapper: every election round of the run *)

Theorem seqrcv_full_weight_run : forall m q simul tb (p : profile) (s s' : mstate) sts,
  wf_stv0 p ->
  run_wrule (WSeqRCV m q simul tb) p s = inl (sts, s') ->
  exists t ps ss,
    stv_init (mkStv m q simul TFullWeight tb) p = inl t /\
    stv_trace (mkStv m q simul TFullWeight tb) t p sts ps ss /\
    nth_error ps 0 = Some p /\ nth_error ss 0 = Some s /\ last ss s = s' /\
    forall r pr pr' st',
      nth_error ps r = Some pr -> nth_error ps (S r) = Some pr' -> nth_error sts (S r) = Some st' ->
      flat (elected st') <> [] ->
      NoDup (flat (elected st')) /\ incl (flat (elected st')) (cands pr) /\
      (forall c, In c (cands pr') <-> In c (cands pr) /\ ~ In c (flat (elected st'))) /\
      (forall r' : ranking, nonempty r' = true ->
         wtof_rk r' (ballots pr') == wt_where (maps_to (flat (elected st')) r') (ballots pr)) /\
      (forall c, In c (cands pr') ->
         tally c (ballots pr') ==
         tally c (ballots pr)
         + wt_where (fun b => led_by (flat (elected st')) b && next_is (flat (elected st')) c b)
                    (ballots pr)) /\
      total_wt (ballots pr) - total_wt (ballots pr')
        == wt_where (exhausted (flat (elected st'))) (ballots pr) /\
      0 <= wt_where (exhausted (flat (elected st'))) (ballots pr).
Proof.
  intros m q simul tb p s s' sts Hwf H.
  change (run_wrule (WSeqRCV m q simul tb) p s) with (run_stv (mkStv m q simul TFullWeight tb) p s) in H.
  set (cfg := mkStv m q simul TFullWeight tb) in *.
  assert (Hscr : s_transfer cfg = TRandom -> script_ok s) by discriminate.
  destruct (run_trace_inv cand ceqb ceqb_spec cfg p s s' sts Hwf Hscr H)
    as [t [ps [ss [s0 [Ht [Htr [Hp0 [Hs0 [Hlast [H0 [Hst0 Hall]]]]]]]]]]].
  exists t, ps, ss. split; [exact Ht|]. split; [exact Htr|]. split; [exact Hp0|].
  split; [exact Hs0|]. split; [exact Hlast|].
  pose proof Htr as [Hlp [Hls [Hso Hstep]]].
  intros r pr pr' st' Hp Hp' Hr' Hne.
  pose proof (nth_error_lt _ _ _ Hp') as Hlt.
  destruct (nth_error_ex sts r ltac:(lia)) as [st Hr].
  destruct (nth_error_ex ss r ltac:(lia)) as [sa Hsa].
  destruct (nth_error_ex ss (S r) ltac:(lia)) as [sb Hsb].
  destruct (Hall r pr st sa Hp Hr Hsa) as [_ [Hctx _]].
  pose proof (Hstep r pr st sa pr' st' sb Hp Hr Hsa Hp' Hr' Hsb) as Hs.
  exact (full_weight_step cfg t p pr st _ sa sb pr' st' Hctx eq_refl Hs Hne).
Qed.

(* the transfer that the wrapper's STV applies to a winner's pile is [full_transfer] of
   Properties/C03.v, whatever the tally and the threshold: no draw, no failure, and the C03 laws *)
Theorem seqrcv_transfer_is_full : forall m q simul tb cfg,
  wire_SequentialRCV m q simul tb = RSTV cfg ->
  s_transfer cfg = TFullWeight /\
  forall w fpv (bs : list ballot) t (s : mstate),
    exists out, do_transfer cand ceqb (s_transfer cfg) w fpv bs t s = inl (out, s) /\
      full_transfer cand ceqb w bs = inl out /\
      (score_free cand bs -> all_pos cand bs ->
         (forall r' : ranking, nonempty r' = true ->
            wtof_rk r' out == wt_where (maps_to [w] r') bs) /\
         total_wt bs - total_wt out == wt_where (exhausted [w]) bs) /\
      (forall k, In k out -> ~ In w (flat (rk k))).
Proof.
  intros m q simul tb cfg Hw. unfold wire_SequentialRCV in Hw. injection Hw as <-.
  split; [reflexivity|]. intros w fpv bs t s.
  destruct (full_never_fails cand ceqb w bs) as [out Hout]. exists out.
  split; [cbn [s_transfer STV.do_transfer]; rewrite Hout; reflexivity|].
  split; [exact Hout|]. split.
  - intros Hsf Hpos. split.
    + intros r' Hr'. exact (full_weights cand ceqb ceqb_spec w bs out r' Hout Hsf Hpos Hr').
    + exact (full_loss cand ceqb w bs out Hout Hsf Hpos).
  - intros k Hk. exact (full_no_winner cand ceqb ceqb_spec w bs out k Hout Hk).
Qed.

(* ------------------------------------------------------------------ *)
(** * IRV through the wrapper: one winner, elected last; earlier rounds eliminate *)

Lemma nth_in_firstn : forall {A} (l : list A) i n x,
  nth_error l i = Some x -> (i < n)%nat -> In x (firstn n l).
Proof.
  intros A l. induction l as [|a l IH]; intros i n x H Hlt; [destruct i; discriminate|].
  destruct n as [|n]; [lia|]. cbn [firstn]. destruct i as [|i]; cbn [nth_error] in H.
  - inversion H. left. reflexivity.
  - right. apply (IH i); [exact H|lia].
Qed.

Lemma count_nonneg : forall l : list estate, (0 <= count_elected l)%Z.
Proof. intros l. unfold STV.count_elected. lia. Qed.

(* the loop went on after every proper prefix of the recorded states *)
Lemma steps_prefix_count : forall cfg t p0 p sts (s s' : mstate) newer,
  C10_quiet.steps cand ceqb cfg t p0 p sts s newer s' ->
  forall k, (k < length newer)%nat -> count_elected (rev sts ++ firstn k newer) <> s_m cfg.
Proof.
  intros cfg t p0 p sts s s' newer H.
  induction H as [p sts s Hc|p prev sts s np st s1 newer s' Hc Hs Hrest IH]; intros k Hk.
  - cbn [length] in Hk. lia.
  - destruct k as [|k].
    + cbn [firstn]. rewrite app_nil_r, (C10_quiet.count_elected_rev cand).
      apply Z.eqb_neq. exact Hc.
    + cbn [firstn]. cbn [length] in Hk.
      replace (rev (prev :: sts) ++ st :: firstn k newer)
        with (rev (st :: prev :: sts) ++ firstn k newer)
        by (cbn [rev]; rewrite <- !app_assoc; reflexivity).
      apply IH. lia.
Qed.

Lemma count_zero_elected : forall l : list estate, count_elected l = 0%Z ->
  forall st, In st l -> flat (elected st) = [].
Proof.
  induction l as [|x l IH]; intros H st Hst; [destruct Hst|].
  change (x :: l) with ([x] ++ l) in H. rewrite (C10_quiet.count_elected_app cand) in H.
  pose proof (count_nonneg [x]) as H1. pose proof (count_nonneg l) as H2.
  destruct Hst as [<-|Hst]; [|apply IH; [lia|exact Hst]].
  assert (Hx : count_elected [x] = 0%Z) by lia.
  unfold STV.count_elected in Hx. cbn [map concat] in Hx. rewrite app_nil_r, flat_real_groups in Hx.
  destruct (flat (elected x)); [reflexivity|cbn [length] in Hx; lia].
Qed.

Lemma concat_rg_nil : forall l : list estate, (forall st, In st l -> elected st = [[]]) ->
  concat (map (fun s => real_groups (elected s)) l) = [].
Proof.
  induction l as [|x l IH]; intros H; [reflexivity|]. cbn [map concat].
  rewrite (H x (or_introl eq_refl)). cbn. apply IH. intros st Hst. apply H. right. exact Hst.
Qed.

Lemma one_group : forall r : ranking, Forall (fun g => g <> []) r -> length (flat r) = 1%nat ->
  exists c, r = [[c]].
Proof.
  intros r Hne Hlen. destruct r as [|g r]; [discriminate|].
  inversion Hne as [|x l Hg Hr]; subst.
  destruct g as [|c g]; [contradiction Hg; reflexivity|].
  unfold Core.flat in Hlen. cbn [concat app length] in Hlen. rewrite app_length in Hlen.
  destruct g as [|c' g]; [|cbn [length] in Hlen; lia].
  destruct r as [|g2 r]; [exists c; reflexivity|].
  inversion Hr as [|x l Hg2 _]; subst. destruct g2 as [|c2 g2]; [contradiction Hg2; reflexivity|].
  cbn [concat app length] in Hlen. lia.
Qed.

Theorem irv_wrapper_outcome : forall q tb (p : profile) (s s' : mstate) sts,
  wf_stv0 p -> run_wrule (WIRV q tb) p s = inl (sts, s') ->
  (2 <= length sts)%nat /\
  (forall i st, nth_error sts i = Some st -> (S i < length sts)%nat -> elected st = [[]]) /\
  (forall i st, nth_error sts i = Some st -> (1 <= i)%nat -> (S i < length sts)%nat ->
     exists x, eliminated st = [[x]] /\ In x (cands p)) /\
  exists w st, nth_error sts (length sts - 1) = Some st /\
    elected st = [[w]] /\ eliminated st = [[]] /\ In w (cands p) /\
    get_elected sts (-1) = inl [[w]].
Proof.
  intros q tb p s s' sts Hwf H.
  change (run_wrule (WIRV q tb) p s) with (run_stv (mkStv 1 q true TFractional tb) p s) in H.
  set (cfg := mkStv 1 q true TFractional tb) in *.
  assert (Hscr : s_transfer cfg = TRandom -> script_ok s) by discriminate.
  destruct (run_stv_count cand ceqb ceqb_spec cfg p s s' sts Hwf Hscr H) as [Hcount _].
  change (s_m cfg) with 1%Z in Hcount.
  destruct (C10_quiet.run_stv_inv cand ceqb cfg p s s' sts H) as [t0 [q0 [newer [_ [Hq0 [Hsts Hsteps]]]]]].
  pose proof (steps_prefix_count _ _ _ _ _ _ _ _ Hsteps) as Hpre. cbn [rev app] in Hpre.
  change (s_m cfg) with 1%Z in Hpre.
  (* every proper prefix has elected nobody *)
  assert (HA : forall i, (i < length newer)%nat -> count_elected (firstn (S i) sts) = 0%Z).
  { intros i Hi. specialize (Hpre i Hi).
    assert (E : count_elected sts
                = (count_elected (q0 :: firstn i newer) + count_elected (skipn i newer))%Z).
    { rewrite Hsts. rewrite <- (firstn_skipn i newer) at 1.
      change (q0 :: firstn i newer ++ skipn i newer) with ((q0 :: firstn i newer) ++ skipn i newer).
      apply (C10_quiet.count_elected_app cand). }
    rewrite Hsts. cbn [firstn].
    pose proof (count_nonneg (q0 :: firstn i newer)). pose proof (count_nonneg (skipn i newer)). lia. }
  assert (Hlen : length sts = S (length newer)) by (rewrite Hsts; reflexivity).
  assert (Hq0e : elected q0 = [[]]).
  { unfold STV.initial_state in Hq0. destruct (first_place_votes cand ceqb p) as [d|e]; [|discriminate].
    cbn [rbind] in Hq0. unfold ok in Hq0. inversion Hq0. reflexivity. }
  assert (Hnewer : newer <> []).
  { intros E. rewrite Hsts, E in Hcount. unfold STV.count_elected in Hcount. cbn [map concat] in Hcount.
    rewrite Hq0e in Hcount. cbn in Hcount. lia. }
  assert (HL : (1 <= length newer)%nat) by (destruct newer; [contradiction Hnewer; reflexivity|cbn; lia]).
  (* the trace and its legal rounds *)
  destruct (run_legal cand ceqb ceqb_spec cfg p s s' sts Hwf Hscr H)
    as [t [ps [ss [Ht [Htr [Hp0 [Hs0 [Hlast [_ [Hctx [_ Hcases]]]]]]]]]]].
  pose proof Htr as [Hlp [Hls _]].
  (* what a round (r -> S r) that elects nobody / somebody looks like *)
  assert (Hround : forall r st', nth_error sts (S r) = Some st' ->
            (flat (elected st') = [] -> exists x, elected st' = [[]] /\ eliminated st' = [[x]] /\ In x (cands p)) /\
            (length (flat (elected st')) = 1%nat ->
               exists w, elected st' = [[w]] /\ eliminated st' = [[]] /\ In w (cands p))).
  { intros r st' Hr'.
    pose proof (nth_error_lt _ _ _ Hr') as Hlt.
    destruct (nth_error_ex sts r ltac:(lia)) as [st Hr].
    destruct (nth_error_ex ps r ltac:(lia)) as [pr Hp].
    destruct (nth_error_ex ps (S r) ltac:(lia)) as [pr' Hp'].
    pose proof (Hctx r pr st Hp Hr) as Hc.
    pose proof (ctx_wf cand ceqb p pr st Hc) as Hwfr.
    destruct (state_of_tallies cand ceqb ceqb_spec pr st Hwfr (ctx_st cand ceqb _ _ _ Hc))
      as [_ [_ [Hperm [_ [Hgne _]]]]].
    pose proof (ctx_sub cand ceqb _ _ _ Hc) as Hsub.
    assert (Hn0 : count_elected (firstn (S r) sts) = 0%Z) by (apply HA; lia).
    destruct (Hcases r pr st pr' st' Hp Hr Hp' Hr')
      as [[[c [Hc1 Hc2]] [Hx [Hne [_ [Hreach [_ Hsim]]]]]]|[[_ [Hcnt [Hel [Hx _]]]]|[_ [_ [x [low [[Hxin _] [Hel [Hx _]]]]]]]]].
    - (* election *)
      split; [intros E; contradiction|]. intros Hone.
      cbn [s_simul cfg] in Hsim. destruct Hsim as [_ [_ [rest Hrem]]].
      assert (Hg : Forall (fun g => g <> []) (elected st')).
      { apply Forall_forall. intros g Hg. apply Hgne.
        - intros E. rewrite E in Hc1. destruct Hc1.
        - rewrite Hrem. apply in_or_app. left. exact Hg. }
      destruct (one_group _ Hg Hone) as [w Hw]. exists w. split; [exact Hw|]. split; [exact Hx|].
      apply Hsub. apply (Hreach w). rewrite Hw. left. reflexivity.
    - (* default election *)
      rewrite Hn0 in Hcnt. change (s_m cfg - 0)%Z with 1%Z in Hcnt.
      assert (Hcne : cands pr <> []) by (intros E; rewrite E in Hcnt; cbn in Hcnt; lia).
      assert (Hone : length (flat (elected st')) = 1%nat).
      { rewrite Hel, (Permutation_length Hperm). lia. }
      split; [intros E; rewrite E in Hone; discriminate|]. intros _.
      assert (Hg : Forall (fun g => g <> []) (elected st')).
      { apply Forall_forall. intros g Hg. apply (Hgne Hcne). rewrite <- Hel. exact Hg. }
      destruct (one_group _ Hg Hone) as [w Hw]. exists w. split; [exact Hw|]. split; [exact Hx|].
      apply Hsub. apply (Permutation_in w Hperm). rewrite <- Hel, Hw. left. reflexivity.
    - (* elimination *)
      split; [|intros Hone; rewrite Hel in Hone; discriminate].
      intros _. exists x. split; [exact Hel|]. split; [exact Hx|]. apply Hsub. exact Hxin. }
  split; [lia|]. split.
  { intros i st Hi Hlt. destruct i as [|r].
    - rewrite Hsts in Hi. cbn [nth_error] in Hi. inversion Hi; subst st. exact Hq0e.
    - assert (Hz : flat (elected st) = []).
      { apply (count_zero_elected (firstn (S (S r)) sts)); [apply HA; lia|].
        apply (nth_in_firstn sts (S r)); [exact Hi|lia]. }
      destruct (Hround r st Hi) as [Hno _]. destruct (Hno Hz) as [x [He _]]. exact He. }
  split.
  { intros i st Hi H1 Hlt. destruct i as [|r]; [lia|].
    assert (Hz : flat (elected st) = []).
    { apply (count_zero_elected (firstn (S (S r)) sts)); [apply HA; lia|].
      apply (nth_in_firstn sts (S r)); [exact Hi|lia]. }
    destruct (Hround r st Hi) as [Hno _]. destruct (Hno Hz) as [x [_ [Hx Hin]]].
    exists x. split; assumption. }
  (* the last round *)
  assert (Hne : sts <> []) by (rewrite Hsts; discriminate).
  destruct (exists_last Hne) as [front [lastst Efront]].
  assert (Hfl : length front = length newer).
  { rewrite Efront, app_length in Hlen. cbn [length] in Hlen. lia. }
  assert (Hnl : nth_error sts (length sts - 1) = Some lastst).
  { rewrite Efront at 1. rewrite nth_error_app2 by lia.
    replace (length sts - 1 - length front)%nat with 0%nat by lia. reflexivity. }
  assert (Hfront0 : count_elected front = 0%Z).
  { specialize (HA (length newer - 1)%nat ltac:(lia)).
    replace (S (length newer - 1)) with (length front) in HA by lia.
    rewrite Efront, firstn_app, Nat.sub_diag, firstn_all in HA. cbn [firstn] in HA.
    rewrite app_nil_r in HA. exact HA. }
  assert (Hone : length (flat (elected lastst)) = 1%nat).
  { rewrite Efront, (C10_quiet.count_elected_app cand), Hfront0 in Hcount.
    unfold STV.count_elected in Hcount. cbn [map concat] in Hcount.
    rewrite app_nil_r, flat_real_groups in Hcount. lia. }
  assert (Hidx : (length sts - 1 = S (length newer - 1))%nat) by lia.
  rewrite Hidx in Hnl.
  destruct (Hround _ _ Hnl) as [_ Hyes]. destruct (Hyes Hone) as [w [Hw [Hx Hin]]].
  exists w, lastst. rewrite Hidx. split; [exact Hnl|]. split; [exact Hw|]. split; [exact Hx|].
  split; [exact Hin|].
  rewrite (get_elected_last cand ceqb sts Hne). unfold STVSpec.elected_upto.
  replace (S (length sts - 1)) with (length sts) by lia. rewrite firstn_all.
  rewrite Efront, map_app, concat_app. cbn [map concat]. rewrite Hw. cbn [STV.real_groups app].
  rewrite concat_rg_nil; [reflexivity|].
  intros st Hst. apply In_nth_error in Hst. destruct Hst as [i Hi].
  assert (Hi' : nth_error sts i = Some st).
  { rewrite Efront, nth_error_app1; [exact Hi|]. apply nth_error_lt in Hi. exact Hi. }
  apply nth_error_lt in Hi.
  destruct i as [|r].
  - rewrite Hsts in Hi'. cbn [nth_error] in Hi'. inversion Hi'; subst st. exact Hq0e.
  - assert (Hz : flat (elected st) = []).
    { apply (count_zero_elected front Hfront0). rewrite Efront in Hi'.
      rewrite nth_error_app1 in Hi' by lia. apply nth_error_In in Hi'. exact Hi'. }
    destruct (Hround r st Hi') as [Hno _]. destruct (Hno Hz) as [x [He _]]. exact He.
Qed.

(* ------------------------------------------------------------------ *)
(** * SNTV through the wrapper: the top-m theorem of Plurality *)

Theorem sntv_wrapper_top_m : forall m tb (p : profile) (s : mstate) sts s',
  wf_profile cand p -> run_wrule (WSNTV m tb) p s = inl (sts, s') ->
  exists s0 s1, sts = [s0; s1] /\
    first_place_votes cand ceqb p = inl (escores s0) /\
    map fst (escores s0) = cands p /\
    (forall c q, In (c, q) (escores s0) -> q == fpv_score cand ceqb p c) /\
    rnd s0 = 0%Z /\ elected s0 = [[]] /\ eliminated s0 = [[]] /\ tiebreaks s0 = [] /\
    remaining s0 = score_to_ranking cand (escores s0) true /\
    rnd s1 = 1%Z /\ eliminated s1 = [[]] /\
    (1 <= m <= Z.of_nat (length (cands p)))%Z /\
    top_m_by cand (fpv_score cand ceqb p) (cands p) m (remaining s0) (elected s1) (remaining s1)
             (tiebreaks s1) /\
    (exists np, remove_cand_prof cand ceqb (flat (elected s1)) true false p = inl np /\
                first_place_votes cand ceqb np = inl (escores s1)).
Proof. intros m tb p s sts s' Hwf H. exact (plurality_top_m cand ceqb ceqb_spec m tb p s sts s' Hwf H). Qed.

Theorem sntv_wrapper_top_m_facts : forall m tb (p : profile) (s : mstate) sts s',
  NoDup (cands p) -> run_wrule (WSNTV m tb) p s = inl (sts, s') ->
  exists d s0 s1, sts = [s0; s1] /\
    first_place_votes cand ceqb p = inl d /\ map fst d = cands p /\
    escores s0 = d /\ remaining s0 = score_to_ranking cand d true /\
    (1 <= m <= Z.of_nat (length (cands p)))%Z /\
    exists tbi, tiebreaks s1 = match tbi with Some x => [x] | None => [] end /\
                top_m_facts cand d m (elected s1) (remaining s1) tbi.
Proof.
  intros m tb p s sts s' Hnd H.
  destruct (one_shot_rule_top_m cand ceqb ceqb_spec (RPlurality m tb) p SKFpv m tb s sts s' eq_refl Hnd H)
    as [d [s0 [s1 [Hsts [Hd [Hk [_ [_ [_ [_ [Hes [Hrem [_ [_ [Hm [Htb _]]]]]]]]]]]]]]]].
  exists d, s0, s1. repeat (split; [assumption|]). exact Htb.
Qed.

End Wrappers.
