(* Proofs/C09_drawfree_rules.v — C09 with a draw-free premise, part 2: the one-shot rules (every m,
   m = number of candidates included, every valid index), CondoBorda, round 0 of every rule (the
   dictator rules in particular), the finished elections on which EVERY in-range get_profile /
   get_step query succeeds from every state ([replay_safe]), and "IndexError iff out of range"
   for them. *)
From Coq Require Import List ZArith QArith Bool Permutation Lia.
From VK Require Import Base Core STV Pairwise Rules PV Election Election2.
From VK.Spec Require Import STVSpec QuerySpec TieSpec ScoreSpec EditSpec PairwiseSpec ReplaySpec QuietSpec
  DrawFreeSpec.
From VK.Proofs Require Import Lib_sets Lib_condense Lib_condense12 C04_scoring Elect C10_script C10_quiet
  C09_queries STV_inv C20_validation C05_rating C12_edit C13_composite C06_tiers C09_replay C09_status
  C09_replay2 C09_drawfree.
Import ListNotations.

Section DrawFreeRules.
Variable cand : Type.
Variable ceqb : cand -> cand -> bool.
Hypothesis ceqb_spec : forall a b, reflect (a = b) (ceqb a b).

Notation cset := (cset cand).
Notation ranking := (ranking cand).
Notation ballot := (ballot cand).
Notation profile := (profile cand).
Notation scores := (scores cand).
Notation estate := (estate cand).
Notation mstate := (mstate cand).
Notation M := (M cand).
Notation flat := (flat cand).
Notation Local := (Local cand).
Notation run_rule := (run_rule cand ceqb).
Notation run_wrule := (run_wrule cand ceqb).
Notation run_stv := (run_stv cand ceqb).
Notation one_shot_step := (one_shot_step cand ceqb).
Notation round0 := (round0 cand ceqb).
Notation score_fn := (score_fn cand ceqb).
Notation score_rankings := (score_rankings cand ceqb).
Notation score_from_scores := (score_from_scores cand ceqb).
Notation first_place_votes := (first_place_votes cand ceqb).
Notation borda_scores := (borda_scores cand ceqb).
Notation dominating_tiers := (dominating_tiers cand ceqb).
Notation score_to_ranking := (score_to_ranking cand).
Notation remove_cand_prof := (remove_cand_prof cand ceqb).
Notation remove_cand_bs := (remove_cand_bs cand ceqb).
Notation strip := (strip cand ceqb).
Notation strip_scores := (strip_scores cand ceqb).
Notation scrub := (scrub cand ceqb).
Notation set_diff := (set_diff cand ceqb).
Notation elect_top_m := (elect_top_m cand ceqb).
Notation replay_step := (replay_step cand ceqb).
Notation replay_steps := (replay_steps cand ceqb).
Notation get_profile := (get_profile cand ceqb).
Notation get_step := (get_step cand ceqb).
Notation no_tiebreak := (no_tiebreak cand).
Notation untied_profile := (untied_profile cand).
Notation draw_free := (draw_free cand ceqb).
Notation wdraw_free := (wdraw_free cand ceqb).
Notation replay_safe := (replay_safe cand ceqb).

(* ------------------------------------------------------------------ *)
(** * removing EVERY candidate leaves the empty profile (when it can still be scored) *)

Lemma set_diff_all : forall (a b : cset), incl a b -> set_diff a b = [].
Proof.
  intros a b H. unfold Core.set_diff. apply filter_all_false. intros c Hc.
  apply negb_false_iff. apply (memb_In cand ceqb ceqb_spec). apply H. exact Hc.
Qed.

Lemma strip_all : forall (removed : cset) (r : ranking), incl (flat r) removed -> strip removed r = [].
Proof.
  intros removed r H.
  pose proof (strip_flat cand ceqb removed r) as Hf.
  assert (Hnil : flat (strip removed r) = []).
  { rewrite Hf. apply filter_all_false. intros c Hc. apply negb_false_iff.
    apply (memb_In cand ceqb ceqb_spec). apply H. exact Hc. }
  pose proof (strip_no_empty cand ceqb removed r) as Hne.
  destruct (strip removed r) as [|g rest]; [reflexivity|exfalso].
  inversion Hne as [|x l Hg _]; subst. rewrite (flat_cons cand) in Hnil.
  apply app_eq_nil in Hnil. apply Hg. exact (proj1 Hnil).
Qed.

Lemma strip_scores_all : forall (removed : cset) (d : scores), incl (map fst d) removed ->
  strip_scores removed d = [].
Proof.
  intros removed d H. unfold Core.strip_scores. apply filter_all_false. intros q Hq.
  apply negb_false_iff. apply (memb_In cand ceqb ceqb_spec). apply H. apply in_map. exact Hq.
Qed.

Lemma Forall2_in_l : forall {A B} (P : A -> B -> Prop) la lb a,
  Forall2 P la lb -> In a la -> exists b, In b lb /\ P a b.
Proof.
  intros A B P la lb a H. induction H as [|a0 b0 la lb Hab _ IH]; intros Ha.
  - destruct Ha.
  - destruct Ha as [<-|Ha].
    + exists b0. split; [left; reflexivity|exact Hab].
    + destruct (IH Ha) as [b [Hb HP]]. exists b. split; [right; exact Hb|exact HP].
Qed.

(* a profile that score_rankings accepts has a non-empty ranking of known candidates on every
   ballot *)
Lemma score_rankings_known : forall (p : profile) v d, score_rankings p v = inl d ->
  forall b, In b (ballots p) -> rk b <> [] /\ incl (flat (rk b)) (cands p).
Proof.
  intros p v d H b Hb.
  destruct (score_rankings_inv cand ceqb p v d H) as [p' [_ [Hadd [_ [Hknown _]]]]].
  pose proof (add_missing_cands cand ceqb p p' Hadd) as Hc.
  unfold Core.add_missing in Hadd.
  destruct (rmap (add_missing_ballot cand ceqb (cands p)) (ballots p)) as [bs|e] eqn:Hr;
    cbn [rbind] in Hadd; [|discriminate].
  unfold ok in Hadd. inversion Hadd as [Ep']. clear Hadd.
  pose proof (rmap_inv _ _ _ Hr) as HF.
  destruct (Forall2_in_l _ _ _ b HF Hb) as [b' [Hb' Hab]].
  destruct (add_missing_ballot_inv cand ceqb _ _ _ Hab) as [Hne [Hrk' _]].
  split; [exact Hne|].
  assert (Hsf : score_free cand bs).
  { unfold EditSpec.score_free. apply Forall_forall. intros x Hx.
    destruct (Forall2_in_r _ _ _ x HF Hx) as [a [_ Hax]].
    exact (proj2 (proj2 (proj2 (add_missing_ballot_inv cand ceqb _ _ _ Hax)))). }
  destruct (condense_rk_matched cand ceqb ceqb_spec bs b' Hsf Hb') as [k [Hk Heq]].
  unfold Core.all_known in Hknown. rewrite forallb_forall in Hknown.
  rewrite <- Ep' in Hknown. cbn [ballots cands] in Hknown.
  specialize (Hknown k Hk). apply (subsetb_incl cand ceqb ceqb_spec) in Hknown.
  rewrite (ranking_eqb_sym cand ceqb) in Heq.
  pose proof (ranking_eqb_flat_incl cand ceqb ceqb_spec _ _ Heq) as Hincl.
  intros c Hcin. apply Hknown. apply Hincl. rewrite Hrk', (flat_am_rank cand ceqb).
  apply in_or_app. left. exact Hcin.
Qed.

Lemma remove_everything : forall k (p np : profile) (removed : cset) d0 d,
  score_fn k p = inl d0 -> incl (cands p) removed ->
  remove_cand_prof removed true false p = inl np -> score_fn k np = inl d ->
  ballots np = [] /\ cands np = [].
Proof.
  intros k p np removed d0 d Hd0 Hincl Hnp Hd.
  unfold Core.remove_cand_prof, Core.mk_profile in Hnp.
  rewrite (set_diff_all _ _ Hincl) in Hnp.
  change (has_dup cand ceqb []) with false in Hnp. cbv iota in Hnp. unfold ok in Hnp.
  injection Hnp as Enp.
  change (mkProfile (remove_cand_bs removed true false (ballots p))
            (cast_cands cand ceqb (remove_cand_bs removed true false (ballots p))) = np) in Enp.
  remember (remove_cand_bs removed true false (ballots p)) as bs eqn:Ebs0.
  assert (Hbs : bs = []).
  { destruct bs as [|k0 rest]; [reflexivity|exfalso].
    assert (Hk0 : In k0 (remove_cand_bs removed true false (ballots p))).
    { rewrite <- Ebs0. left. reflexivity. }
    assert (Hk0np : In k0 (ballots np)).
    { rewrite <- Enp. cbn [ballots]. left. reflexivity. }
    unfold Core.remove_cand_bs in Hk0.
    destruct (condense_bs_origin cand ceqb _ k0 Hk0) as [b1 [Hb1 [Hrk Hsc]]].
    apply filter_In in Hb1. destruct Hb1 as [Hb1 _]. apply in_map_iff in Hb1.
    destruct Hb1 as [b [Eb1 Hb]]. subst b1.
    destruct (scrub_spec cand ceqb removed b) as [Srk [Ssc _]].
    assert (Hrank : forall v v' d0' d', score_rankings p v = inl d0' ->
                      score_rankings np v' = inl d' -> False).
    { intros v v' d0' d' H0 H1.
      destruct (score_rankings_known p v d0' H0 b Hb) as [_ Hknown].
      destruct (score_rankings_known np v' d' H1 k0 Hk0np) as [Hne _].
      apply Hne. rewrite Hrk, Srk. apply strip_all.
      intros c Hc. apply Hincl. apply Hknown. exact Hc. }
    destruct k; cbn [Rules.score_fn] in Hd0, Hd.
    - exact (Hrank _ _ _ _ Hd0 Hd).
    - exact (Hrank _ _ _ _ Hd0 Hd).
    - exact (Hrank _ _ _ _ Hd0 Hd).
    - destruct (score_from_scores_inv cand ceqb ceqb_spec p d0 Hd0) as [_ [_ Hknown]].
      destruct (score_from_scores_inv cand ceqb ceqb_spec np d Hd) as [_ [Hne _]].
      apply (Hne k0 Hk0np). rewrite Hsc, Ssc. apply strip_scores_all.
      intros c Hc. apply Hincl. apply (Hknown b Hb). exact Hc. }
  rewrite <- Enp, Hbs. split; reflexivity.
Qed.

(* ------------------------------------------------------------------ *)
(** * one-shot rules *)

Lemma get_profile_oneshot : forall r p k m tb, one_shot_kind cand r p = Some (k, m, tb) ->
  forall (sts : list estate) i,
    get_profile r p sts i
    = (do! j := mlift (norm_index (length sts) i) in replay_steps r p p (firstn j sts)).
Proof.
  intros r p k m tb Hk sts i. unfold Election.get_profile.
  destruct r; cbn [one_shot_kind] in Hk; try discriminate; reflexivity.
Qed.

Theorem oneshot_drawfree : forall r (p : profile) k m tb (s s' : mstate) sts,
  one_shot_kind cand r p = Some (k, m, tb) -> NoDup (cands p) ->
  run_rule r p s = inl (sts, s') -> lg s' = lg s ->
  s' = s /\
  exists s0 s1 np,
    sts = [s0; s1] /\
    remove_cand_prof (flat (elected s1)) true false p = inl np /\
    Z.of_nat (length (flat (elected s1))) = m /\
    forall i, in_range 2 i ->
      exists pr st,
        nth_error [p; np] (round_of 2 i) = Some pr /\
        nth_error sts (round_of 2 i) = Some st /\
        (forall s2 : mstate, get_profile r p sts i s2 = inl (pr, s2)) /\
        (forall s2 : mstate, get_step r p sts i s2 = inl ((pr, st), s2)) /\
        score_fn k pr = inl (escores st) /\
        Permutation (cands pr) (flat (remaining st)) /\ NoDup (cands pr) /\
        (flat (remaining st) = [] -> ballots pr = []).
Proof.
  intros r p k m tb s s' sts Hk Hnd Hrun Hlg.
  pose proof (local_quiet_log cand _ _ (Local_run_rule cand ceqb r p) s sts s' Hrun Hlg) as Es.
  subst s'. split; [reflexivity|].
  destruct (run_rule_one_shot_inv cand ceqb r p k m tb s s sts Hk Hrun) as [s0 [np [s1 [-> [H0 Hstep]]]]].
  destruct (C09_queries.one_shot_step_inv cand ceqb _ _ _ _ _ _ _ _ _ Hstep)
    as [el [rem [t [d [Hel [Hnp [Hd Hs1]]]]]]].
  unfold Rules.round0 in H0. destruct (score_fn k p) as [d0|e] eqn:Ed0; [|discriminate].
  cbn [rbind] in H0. unfold ok in H0. injection H0 as Es0.
  rewrite <- Es0 in Hel. cbn [remaining STV.state_of_scores] in Hel.
  pose proof (score_fn_keys cand ceqb k p d0 Ed0) as Hkeys.
  pose proof (elect_top_m_ok_range cand ceqb _ _ _ _ _ _ Hel) as Hrange.
  rewrite (ranking_size_scores cand) in Hrange.
  assert (Hne : d0 <> []) by (intros ->; cbn [length] in Hrange; lia).
  assert (Hfacts : Z.of_nat (length (flat el)) = m /\ Permutation (flat el ++ flat rem) (cands p)).
  { destruct (c04_top_m_proof cand ceqb ceqb_spec d0 m (Some p) tb s s el rem t Hne) as [F1 [F2 _]].
    - rewrite Hkeys. exact Hnd.
    - rewrite Hkeys. apply (tb_profile_ok_self cand). exact Hnd.
    - exact Hel.
    - split; [exact F1|]. rewrite <- Hkeys. exact F2. }
  destruct Hfacts as [Hcount Hperm].
  assert (Hel_all : forall s2 : mstate,
            elect_top_m (score_to_ranking d0 true) m (Some p) tb s2 = inl ((el, rem, t), s2)).
  { intros s2. exact (local_no_draw_state cand _ _ (Local_elect_top_m cand ceqb _ _ _ _) _ _ Hel s2). }
  exists s0, s1, np. split; [reflexivity|].
  assert (Eel : elected s1 = el) by (rewrite Hs1; reflexivity).
  split; [rewrite Eel; exact Hnp|]. split; [rewrite Eel; exact Hcount|].
  intros i Hin. destruct (norm_index_in 2 i Hin) as [En Hlt].
  assert (Hget : forall (pr : profile) (s2 : mstate),
            replay_steps r p p (firstn (round_of 2 i) [s0; s1]) s2 = inl (pr, s2) ->
            get_profile r p [s0; s1] i s2 = inl (pr, s2)).
  { intros pr s2 Hrep. rewrite (get_profile_oneshot r p k m tb Hk). cbn [length].
    rewrite mbind_mlift, En. exact Hrep. }
  assert (Hstep_of : forall (pr : profile) st,
            nth_error [s0; s1] (round_of 2 i) = Some st ->
            (forall s2 : mstate, get_profile r p [s0; s1] i s2 = inl (pr, s2)) ->
            forall s2 : mstate, get_step r p [s0; s1] i s2 = inl ((pr, st), s2)).
  { intros pr st Hst Hg s2. apply (get_step_ok_iff cand ceqb). split; [exact (Hg s2)|exact Hst]. }
  destruct (round_of 2 i) as [|[|j]] eqn:Er; [| |lia].
  - (* round 0 *)
    exists p, s0. split; [reflexivity|]. split; [reflexivity|].
    assert (Hg : forall s2 : mstate, get_profile r p [s0; s1] i s2 = inl (p, s2)).
    { intros s2. apply Hget. reflexivity. }
    split; [exact Hg|]. split; [apply Hstep_of; [reflexivity|exact Hg]|].
    rewrite <- Es0. cbn [escores remaining STV.state_of_scores].
    split; [exact Ed0|]. split.
    + rewrite <- Hkeys. apply Permutation_sym. apply score_to_ranking_flat_perm_all.
    + split; [exact Hnd|]. intros Hnil. exfalso.
      pose proof (Permutation_length (score_to_ranking_flat_perm_all cand d0)) as Hl.
      rewrite Hnil, map_length in Hl. cbn [length] in Hl. destruct d0; [apply Hne; reflexivity|discriminate].
  - (* round 1 *)
    exists np, s1. split; [reflexivity|]. split; [reflexivity|].
    assert (Hg : forall s2 : mstate, get_profile r p [s0; s1] i s2 = inl (np, s2)).
    { intros s2. apply Hget. cbn [firstn Election.replay_steps]. unfold Election.replay_step.
      rewrite Hk. rewrite <- Es0. cbn [remaining STV.state_of_scores].
      unfold mbind. rewrite Hel_all. cbv beta iota. unfold mlift. rewrite Hnp. reflexivity. }
    split; [exact Hg|]. split; [apply Hstep_of; [reflexivity|exact Hg]|].
    rewrite Hs1. cbn [escores remaining]. split; [exact Hd|].
    destruct (flat rem) as [|c0 rm] eqn:Erem.
    + rewrite app_nil_r in Hperm.
      assert (Hincl : incl (cands p) (flat el)).
      { intros c Hc. apply (Permutation_in _ (Permutation_sym Hperm)). exact Hc. }
      destruct (remove_everything k p np (flat el) d0 d Ed0 Hincl Hnp Hd) as [Hb Hc].
      rewrite Hc. split; [apply Permutation_refl|]. split; [constructor|]. intros _. exact Hb.
    + assert (Hne' : flat rem <> []) by (rewrite Erem; discriminate).
      rewrite <- Erem in Hperm |- *.
      destruct (removed_cands cand ceqb ceqb_spec p np (flat el) (flat rem) true false Hnd Hperm Hne' Hnp)
        as [P1 P2].
      split; [exact P1|]. split; [exact P2|]. intros E. contradiction.
Qed.

(* ------------------------------------------------------------------ *)
(** * CondoBorda *)

Theorem condo_drawfree : forall m (p : profile) (s s' : mstate) sts,
  untied_profile p -> run_rule (RCondoBorda m) p s = inl (sts, s') -> lg s' = lg s ->
  s' = s /\
  exists s0 s1 np,
    sts = [s0; s1] /\
    remove_cand_prof (flat (elected s1)) true false p = inl np /\
    Z.of_nat (length (flat (elected s1))) = m /\
    forall i, in_range 2 i ->
      exists pr st,
        nth_error [p; np] (round_of 2 i) = Some pr /\
        nth_error sts (round_of 2 i) = Some st /\
        (forall s2 : mstate, get_profile (RCondoBorda m) p sts i s2 = inl (pr, s2)) /\
        (forall s2 : mstate, get_step (RCondoBorda m) p sts i s2 = inl ((pr, st), s2)) /\
        borda_scores pr = inl (escores st) /\
        Permutation (cands pr) (flat (remaining st)) /\ NoDup (cands pr) /\
        (flat (remaining st) = [] -> ballots pr = []).
Proof.
  intros m p s s' sts Hdom Hrun Hlg.
  pose proof (local_quiet_log cand _ _ (Local_run_rule cand ceqb _ p) s sts s' Hrun Hlg) as Es.
  subst s'. split; [reflexivity|]. cbn [Rules.run_rule] in Hrun.
  destruct (C10_quiet.run_condo_inv cand ceqb m p s s sts Hrun) as [s0 [np [s1 [_ [H0 [Hstep ->]]]]]].
  destruct (C10_quiet.condo_step_inv cand ceqb m p s s np s1 Hstep)
    as [tiers [el [rem [t [d [Htiers [Hel [Hnp [Hd Es1]]]]]]]]].
  unfold Rules.round0 in H0. cbn [Rules.score_fn] in H0.
  destruct (borda_scores p) as [d0|e] eqn:Ed0; [|discriminate]. cbn [rbind] in H0.
  unfold ok in H0. inversion H0 as [Es0]. clear H0.
  destruct (c06_tiers_partition_proof cand ceqb ceqb_spec p Hdom tiers Htiers) as [Hflat [Htne _]].
  assert (Hperm0 : Permutation (flat tiers) (cands p)) by exact Hflat.
  assert (Hnd : NoDup (cands p)) by exact (proj1 Hdom).
  assert (Hndt : NoDup (flat tiers)).
  { eapply Permutation_NoDup; [apply Permutation_sym; exact Hperm0|exact Hnd]. }
  assert (Hok : tb_profile_ok cand (Some p) (Some TBBorda) (flat tiers)).
  { cbn [tb_profile_ok]. intros pr Hpr. injection Hpr as <-. split; [exact Hnd|].
    intros c Hc. eapply Permutation_in; [exact Hperm0|exact Hc]. }
  assert (Htne' : Forall (fun g : cset => g <> []) tiers) by (apply Forall_forall; exact Htne).
  destruct (elect_top_m_count_perm cand ceqb ceqb_spec tiers m (Some p) (Some TBBorda) s s el rem t
              Hndt Htne' Hok Hel) as [Hcount [Hpart _]].
  assert (Hperm : Permutation (flat el ++ flat rem) (cands p)).
  { eapply Permutation_trans; [exact Hpart|exact Hperm0]. }
  assert (Hel_all : forall s2 : mstate,
            elect_top_m tiers m (Some p) (Some TBBorda) s2 = inl ((el, rem, t), s2)).
  { intros s2. exact (local_no_draw_state cand _ _ (Local_elect_top_m cand ceqb _ _ _ _) _ _ Hel s2). }
  set (s0' := state_of_scores cand 0 (no_group cand) (no_group cand) [] d0) in *.
  exists s0', s1, np. split; [reflexivity|].
  assert (Eel : elected s1 = el) by (rewrite Es1; reflexivity).
  split; [rewrite Eel; exact Hnp|]. split; [rewrite Eel; exact Hcount|].
  intros i Hin. destruct (norm_index_in 2 i Hin) as [En Hlt].
  assert (Hgen : forall sx : mstate, get_profile (RCondoBorda m) p [s0'; s1] i sx
           = replay_steps (RCondoBorda m) p p (firstn (round_of 2 i) [s0'; s1]) sx).
  { intros sx. apply (get_profile_generic cand ceqb); [discriminate|discriminate|exact En]. }
  assert (Hstep_of : forall (pr : profile) st,
            nth_error [s0'; s1] (round_of 2 i) = Some st ->
            (forall s2 : mstate, get_profile (RCondoBorda m) p [s0'; s1] i s2 = inl (pr, s2)) ->
            forall s2 : mstate, get_step (RCondoBorda m) p [s0'; s1] i s2 = inl ((pr, st), s2)).
  { intros pr st Hst Hg s2. apply (get_step_ok_iff cand ceqb). split; [exact (Hg s2)|exact Hst]. }
  destruct (round_of 2 i) as [|[|j]] eqn:Er; [| |lia].
  - exists p, s0'. split; [reflexivity|]. split; [reflexivity|].
    assert (Hg : forall s2 : mstate, get_profile (RCondoBorda m) p [s0'; s1] i s2 = inl (p, s2)).
    { intros s2. rewrite Hgen. reflexivity. }
    split; [exact Hg|]. split; [apply Hstep_of; [reflexivity|exact Hg]|].
    unfold s0'. cbn [escores remaining STV.state_of_scores]. split; [exact Ed0|].
    pose proof (score_fn_keys cand ceqb SKBorda p d0 Ed0) as Hkeys.
    split; [rewrite <- Hkeys; apply Permutation_sym; apply score_to_ranking_flat_perm_all|].
    split; [exact Hnd|]. intros Hnil. exfalso.
    pose proof (Permutation_length (score_to_ranking_flat_perm_all cand d0)) as Hl.
    rewrite Hnil, map_length in Hl. cbn [length] in Hl.
    pose proof (elect_top_m_ok_range cand ceqb _ _ _ _ _ _ Hel) as Hrange.
    rewrite (Permutation_length Hperm0), <- Hkeys, map_length in Hrange. lia.
  - exists np, s1. split; [reflexivity|]. split; [reflexivity|].
    assert (Hg : forall s2 : mstate, get_profile (RCondoBorda m) p [s0'; s1] i s2 = inl (np, s2)).
    { intros s2. rewrite Hgen. cbn [firstn Election.replay_steps]. unfold Election.replay_step.
      cbn [one_shot_kind]. unfold mbind at 1. rewrite mbind_mlift, Htiers. unfold mbind at 1.
      rewrite Hel_all. unfold mlift. rewrite Hnp. reflexivity. }
    split; [exact Hg|]. split; [apply Hstep_of; [reflexivity|exact Hg]|].
    rewrite Es1. cbn [escores remaining]. split; [exact Hd|].
    destruct (flat rem) as [|c0 rm] eqn:Erem.
    + rewrite app_nil_r in Hperm.
      assert (Hincl : incl (cands p) (flat el)).
      { intros c Hc. apply (Permutation_in _ (Permutation_sym Hperm)). exact Hc. }
      destruct (remove_everything SKBorda p np (flat el) d0 d Ed0 Hincl Hnp Hd) as [Hb Hc].
      rewrite Hc. split; [apply Permutation_refl|]. split; [constructor|]. intros _. exact Hb.
    + assert (Hne' : flat rem <> []) by (rewrite Erem; discriminate).
      rewrite <- Erem in Hperm |- *.
      destruct (removed_cands cand ceqb ceqb_spec p np (flat el) (flat rem) true false Hnd Hperm Hne' Hnp)
        as [P1 P2].
      split; [exact P1|]. split; [exact P2|]. intros E. contradiction.
Qed.

(* ------------------------------------------------------------------ *)
(** * round 0 of every rule; the dictator rules *)

(* get_profile of round 0 is the input profile, from every state, for every finished election *)
Theorem round0_get_profile : forall r (p : profile) (s s' : mstate) sts,
  run_rule r p s = inl (sts, s') ->
  forall i, in_range (length sts) i -> round_of (length sts) i = 0%nat ->
  forall s2 : mstate, get_profile r p sts i s2 = inl (p, s2).
Proof.
  intros r p s s' sts Hrun i Hin Hr s2.
  destruct (norm_index_in _ _ Hin) as [En _]. rewrite Hr in En.
  unfold Election.get_profile. rewrite mbind_mlift, En.
  destruct r; try reflexivity.
  cbn [Rules.run_rule] in Hrun.
  destruct (C10_quiet.run_stv_inv cand ceqb _ _ _ _ _ Hrun) as [t [s0 [newer [Ht _]]]].
  rewrite mbind_mlift, Ht. reflexivity.
Qed.

Lemma dictator_loop_head : forall fuel boosted m (p : profile) prev older (s s' : mstate) out,
  dictator_loop cand ceqb fuel boosted m p (prev :: older) s = inl (out, s') ->
  exists tail, out = rev older ++ prev :: tail.
Proof.
  induction fuel as [|fuel IH]; intros boosted m p prev older s s' out H; cbn [Rules.dictator_loop] in H.
  - destruct (m <=? count_elected cand (prev :: older))%Z; [|discriminate].
    unfold mret, ok in H. inversion H; subst. exists []. reflexivity.
  - destruct (m <=? count_elected cand (prev :: older))%Z.
    + unfold mret, ok in H. inversion H; subst. exists []. reflexivity.
    + apply C10_quiet.mbind_ok_inv in H. destruct H as [[np st] [s1 [_ H]]].
      destruct (IH boosted m np st (prev :: older) s1 s' out H) as [tail Ht].
      exists (st :: tail). rewrite Ht. cbn [rev]. rewrite <- app_assoc. reflexivity.
Qed.

(* RandomDictator / BoostedRandomDictator: the record of round 0 reports the input profile, and
   get_profile(0) returns it from every state, although every later round draws *)
Theorem dictator_round0 : forall (boosted : bool) m (p : profile) (s s' : mstate) sts,
  run_rule (if boosted then RBoosted m else RRandomDictator m) p s = inl (sts, s') ->
  exists s0 rest,
    sts = s0 :: rest /\
    first_place_votes p = inl (escores s0) /\
    score_to_ranking (escores s0) true = remaining s0 /\
    Permutation (cands p) (flat (remaining s0)) /\
    forall i, in_range (length sts) i -> round_of (length sts) i = 0%nat ->
      (forall s2 : mstate,
         get_profile (if boosted then RBoosted m else RRandomDictator m) p sts i s2 = inl (p, s2)) /\
      (forall s2 : mstate,
         get_step (if boosted then RBoosted m else RRandomDictator m) p sts i s2 = inl ((p, s0), s2)).
Proof.
  intros boosted m p s s' sts Hrun.
  assert (Hd : run_dictator cand ceqb boosted m p s = inl (sts, s')).
  { destruct boosted; exact Hrun. }
  unfold Rules.run_dictator in Hd.
  apply C10_quiet.mbind_lift_inv in Hd. destruct Hd as [u [_ Hd]].
  apply C10_quiet.mbind_lift_inv in Hd. destruct Hd as [u' [_ Hd]].
  apply C10_quiet.mbind_lift_inv in Hd. destruct Hd as [s0 [H0 Hd]].
  destruct (dictator_loop_head _ _ _ _ _ _ _ _ _ Hd) as [tail Hout]. cbn [rev app] in Hout.
  destruct (round0_fpv cand ceqb p s0 H0) as [Hst0 _].
  exists s0, tail. split; [exact Hout|]. split; [exact (proj1 Hst0)|].
  split; [symmetry; exact (proj2 Hst0)|]. split; [apply (state_of_cands cand ceqb); exact Hst0|].
  intros i Hin Hr.
  assert (Hg : forall s2 : mstate,
            get_profile (if boosted then RBoosted m else RRandomDictator m) p sts i s2 = inl (p, s2)).
  { exact (round0_get_profile _ p s s' sts Hrun i Hin Hr). }
  split; [exact Hg|]. intros s2. apply (get_step_ok_iff cand ceqb). split; [exact (Hg s2)|].
  rewrite Hr, Hout. reflexivity.
Qed.

(* ------------------------------------------------------------------ *)
(** * every in-range query succeeds, from every state, on a [replay_safe] election *)

Lemma in_range_2_length : forall (sts : list estate) i, length sts = 2%nat ->
  (in_range (length sts) i <-> in_range 2 i) /\ round_of (length sts) i = round_of 2 i.
Proof. intros sts i ->. split; [tauto|reflexivity]. Qed.

Theorem replay_safe_total : forall r (p : profile) sts,
  replay_safe r p sts ->
  forall i, in_range (length sts) i ->
  exists pr st,
    nth_error sts (round_of (length sts) i) = Some st /\
    (forall s2 : mstate, get_profile r p sts i s2 = inl (pr, s2)) /\
    (forall s2 : mstate, get_step r p sts i s2 = inl ((pr, st), s2)).
Proof.
  intros r p sts [Hdf Hdom] i Hin.
  pose proof (draw_free_all cand ceqb r p sts Hdf (mkM [] [])) as Hrun.
  assert (Hstep_of : forall (pr : profile) st,
            nth_error sts (round_of (length sts) i) = Some st ->
            (forall s2 : mstate, get_profile r p sts i s2 = inl (pr, s2)) ->
            forall s2 : mstate, get_step r p sts i s2 = inl ((pr, st), s2)).
  { intros pr st Hst Hg s2. apply (get_step_ok_iff cand ceqb). split; [exact (Hg s2)|exact Hst]. }
  assert (Hone : forall k m tb, one_shot_kind cand r p = Some (k, m, tb) -> NoDup (cands p) ->
            exists pr st, nth_error sts (round_of (length sts) i) = Some st /\
              (forall s2 : mstate, get_profile r p sts i s2 = inl (pr, s2)) /\
              (forall s2 : mstate, get_step r p sts i s2 = inl ((pr, st), s2))).
  { intros k m tb Hk Hnd.
    destruct (oneshot_drawfree r p k m tb _ _ sts Hk Hnd Hrun eq_refl)
      as [_ [s0 [s1 [np [Hsts [_ [_ Hall]]]]]]].
    subst sts. destruct (Hall i Hin) as [pr [st [_ [Hst [Hg [Hgs _]]]]]].
    exists pr, st. split; [exact Hst|]. split; [exact Hg|exact Hgs]. }
  destruct r as [cfg|m tb|m v tb|m L k tb|m k tb|m k tb| |m|tb|m1 m2 cfg|m|m].
  - destruct (stv_get_profile_draw_free cand ceqb ceqb_spec cfg p sts Hdf i Hin)
      as [pr [st [Hst [Hg [Hgs _]]]]].
    exists pr, st. split; [exact Hst|]. split; [exact Hg|exact Hgs].
  - exact (Hone _ _ _ eq_refl Hdom).
  - exact (Hone _ _ _ eq_refl Hdom).
  - exact (Hone _ _ _ eq_refl Hdom).
  - exact (Hone _ _ _ eq_refl Hdom).
  - exact (Hone _ _ _ eq_refl Hdom).
  - destruct (dominating_get_profile cand ceqb ceqb_spec p _ _ sts Hdom Hrun)
      as [_ [s0 [s1 [top [rest [np [Hsts [_ [_ [_ [_ [_ [_ Hall]]]]]]]]]]]]].
    subst sts. destruct (Hall i Hin) as [pr [st [_ [Hst [Hg _]]]]].
    exists pr, st. split; [exact Hst|]. split; [exact Hg|apply Hstep_of; assumption].
  - destruct (condo_drawfree m p _ _ sts Hdom Hrun eq_refl) as [_ [s0 [s1 [np [Hsts [_ [_ Hall]]]]]]].
    subst sts. destruct (Hall i Hin) as [pr [st [_ [Hst [Hg [Hgs _]]]]]].
    exists pr, st. split; [exact Hst|]. split; [exact Hg|exact Hgs].
  - destruct Hdom as [Hnd Hq]. cbn [Rules.run_rule] in Hrun.
    destruct (toptwo_get_profile cand ceqb ceqb_spec tb p _ _ sts Hnd Hrun Hq)
      as [_ [s0 [s1 [s2 [p1 [p2 [Hsts [_ [_ Hall]]]]]]]]].
    subst sts. destruct (Hall i Hin) as [pr [st [_ [Hst [Hg _]]]]].
    exists pr, st. split; [exact Hst|]. split; [exact Hg|apply Hstep_of; assumption].
  - destruct Hdom as [Hk [Hnd Hq]]. cbn [Rules.run_rule] in Hrun.
    destruct (alaska_get_profile cand ceqb ceqb_spec m1 m2 cfg p _ _ sts Hk Hnd Hrun Hq)
      as [_ [s0 [s1 [p1 [ssts [t [ps [ss [_ [_ [_ [_ [_ [_ Hall]]]]]]]]]]]]]].
    destruct (Hall i Hin) as [pr [st [_ [Hst [Hg _]]]]].
    exists pr, st. split; [exact Hst|]. split; [exact Hg|apply Hstep_of; assumption].
  - destruct Hdom.
  - destruct Hdom.
Qed.

(* ------------------------------------------------------------------ *)
(** * B: the only exception is IndexError, raised exactly out of range *)

Lemma not_in_range_out : forall n i, ~ in_range n i <-> (i < - Z.of_nat n \/ Z.of_nat n - 1 < i)%Z.
Proof. intros n i. unfold in_range. lia. Qed.

(* whenever every in-range query succeeds *)
Lemma index_error_iff_of_total : forall r (p : profile) (sts : list estate),
  (forall i, in_range (length sts) i -> exists pr, forall s2 : mstate,
               get_profile r p sts i s2 = inl (pr, s2)) ->
  forall i (s2 : mstate) e,
    (get_profile r p sts i s2 = inr e <-> e = EIndex /\ ~ in_range (length sts) i) /\
    (get_step r p sts i s2 = inr e <-> e = EIndex /\ ~ in_range (length sts) i).
Proof.
  intros r p sts Htot i s2 e.
  assert (Hp : get_profile r p sts i s2 = inr e <-> e = EIndex /\ ~ in_range (length sts) i).
  { split.
    - intros H. destruct (in_range_dec (length sts) i) as [Hin|Hout].
      + destruct (Htot i Hin) as [pr Hg]. rewrite Hg in H. discriminate.
      + destruct (out_of_range cand ceqb sts i) as [_ [_ [_ [_ [_ [Ho _]]]]]].
        rewrite (Ho Hout r p s2) in H. inversion H. split; [reflexivity|].
        apply not_in_range_out. exact Hout.
    - intros [-> Hn]. apply not_in_range_out in Hn.
      destruct (out_of_range cand ceqb sts i) as [_ [_ [_ [_ [_ [Ho _]]]]]]. exact (Ho Hn r p s2). }
  split; [exact Hp|]. rewrite (get_step_err_iff cand ceqb). exact Hp.
Qed.

Theorem replay_safe_index_error : forall r (p : profile) sts,
  replay_safe r p sts ->
  forall i (s2 : mstate),
    (get_profile r p sts i s2 = inr EIndex <-> ~ in_range (length sts) i) /\
    (get_step r p sts i s2 = inr EIndex <-> ~ in_range (length sts) i) /\
    (forall e, get_profile r p sts i s2 = inr e -> e = EIndex) /\
    (forall e, get_step r p sts i s2 = inr e -> e = EIndex) /\
    (in_range (length sts) i ->
       exists pr st, get_profile r p sts i s2 = inl (pr, s2) /\
                     get_step r p sts i s2 = inl ((pr, st), s2)).
Proof.
  intros r p sts Hsafe i s2.
  assert (Htot : forall j, in_range (length sts) j -> exists pr, forall sx : mstate,
                   get_profile r p sts j sx = inl (pr, sx)).
  { intros j Hj. destruct (replay_safe_total r p sts Hsafe j Hj) as [pr [st [_ [Hg _]]]].
    exists pr. exact Hg. }
  pose proof (index_error_iff_of_total r p sts Htot i s2) as Hiff.
  split; [|split; [|split; [|split]]].
  - destruct (Hiff EIndex) as [H1 _]. rewrite H1. tauto.
  - destruct (Hiff EIndex) as [_ H2]. rewrite H2. tauto.
  - intros e H. exact (proj1 (proj1 (proj1 (Hiff e)) H)).
  - intros e H. exact (proj1 (proj1 (proj2 (Hiff e)) H)).
  - intros Hin. destruct (replay_safe_total r p sts Hsafe i Hin) as [pr [st [_ [Hg Hgs]]]].
    exists pr, st. split; [exact (Hg s2)|exact (Hgs s2)].
Qed.

End DrawFreeRules.
