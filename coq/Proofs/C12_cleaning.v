(* Proofs/C12_cleaning.v — C12, cleaning module: remove_empty_ballots, group_adjacent,
   merge_ballots / merge_adjacent, dedup_positions / deduplicate_profiles, remove_noncands
   (Model/Cleaning.v) against the vocabulary of Spec/CleanSpec.v and Spec/EditSpec.v. *)
From VK Require Import Base Core Cleaning EditSpec CleanSpec C11_profile Lib_sets Lib_rk Lib_condense12 C12_edit.
From Coq Require Import Permutation Lia Lqa Setoid Morphisms.

(* ---------- generic facts ---------- *)

Lemma subseq_refl : forall (A : Type) (l : list A), subseq l l.
Proof. induction l as [|a l IH]; constructor; exact IH. Qed.

Lemma subseq_trans : forall (A : Type) (l1 l2 l3 : list A), subseq l1 l2 -> subseq l2 l3 -> subseq l1 l3.
Proof.
  intros A l1 l2 l3 H12 H23. revert l1 H12. induction H23 as [|x l2 l3 H IH|x l2 l3 H IH]; intros l1 H12.
  - exact H12.
  - apply subseq_skip. apply IH. exact H12.
  - inversion H12 as [|y a b Hab|y a b Hab]; subst.
    + apply subseq_skip. apply IH. exact Hab.
    + apply subseq_keep. apply IH. exact Hab.
Qed.

Lemma subseq_In : forall (A : Type) (l1 l2 : list A) x, subseq l1 l2 -> In x l1 -> In x l2.
Proof.
  intros A l1 l2 x H. induction H as [|y l1 l2 H IH|y l1 l2 H IH]; intros Hx.
  - exact Hx.
  - right. apply IH. exact Hx.
  - destruct Hx as [<-|Hx]; [left; reflexivity|right; apply IH; exact Hx].
Qed.

Lemma subseq_filter : forall (A : Type) (p : A -> bool) (l : list A), subseq (filter p l) l.
Proof.
  intros A p l. induction l as [|a l IH]; cbn [filter]; [constructor|].
  destruct (p a); constructor; exact IH.
Qed.

Lemma subseq_app : forall (A : Type) (a b c d : list A), subseq a b -> subseq c d -> subseq (a ++ c) (b ++ d).
Proof.
  intros A a b c d Hab Hcd. induction Hab as [|x a b H IH|x a b H IH]; cbn [app].
  - exact Hcd.
  - apply subseq_skip. exact IH.
  - apply subseq_keep. exact IH.
Qed.

Lemma subseq_nil_l : forall (A : Type) (l : list A), subseq [] l.
Proof. induction l as [|a l IH]; constructor; exact IH. Qed.

Lemma subseq_concat : forall (A : Type) (l1 l2 : list (list A)), subseq l1 l2 -> subseq (concat l1) (concat l2).
Proof.
  intros A l1 l2 H. induction H as [|x l1 l2 H IH|x l1 l2 H IH]; cbn [concat].
  - constructor.
  - change (concat l1) with ([] ++ concat l1). apply subseq_app; [apply subseq_nil_l|exact IH].
  - apply subseq_app; [apply subseq_refl|exact IH].
Qed.

Lemma subseq_Forall : forall (A : Type) (P : A -> Prop) (l1 l2 : list A),
  subseq l1 l2 -> Forall P l2 -> Forall P l1.
Proof.
  intros A P l1 l2 H HF. rewrite Forall_forall in *. intros x Hx. apply HF.
  eapply subseq_In; eassumption.
Qed.

Lemma rmap_total_ex : forall (A B : Type) (f : A -> res B) (l : list A),
  (forall a, In a l -> exists b, f a = inl b) -> exists l', rmap f l = inl l'.
Proof.
  intros A B f l. induction l as [|a l IH]; intros H.
  - exists []. reflexivity.
  - destruct (H a (or_introl eq_refl)) as [b Hb].
    destruct IH as [l' Hl']; [intros x Hx; apply H; right; exact Hx|].
    exists (b :: l'). cbn [rmap]. rewrite Hb. cbn [rbind]. rewrite Hl'. reflexivity.
Qed.

Section WithCand.
Variable cand : Type.
Variable ceqb : cand -> cand -> bool.
Hypothesis ceqb_spec : forall a b, reflect (a = b) (ceqb a b).

Notation cset := (cset cand).
Notation ranking := (ranking cand).
Notation ballot := (ballot cand).
Notation profile := (profile cand).
Notation cset_eqb := (cset_eqb cand ceqb).
Notation ranking_eqb := (ranking_eqb cand ceqb).
Notation flat := (flat cand).
Notation total_wt := (total_wt cand).
Notation wtof_rk := (wtof_rk cand ceqb).
Notation wt_where := (wt_where cand).
Notation cast_cands := (cast_cands cand ceqb).
Notation mk_profile := (mk_profile cand ceqb).
Notation remove_empty_ballots := (remove_empty_ballots cand ceqb).
Notation group_adjacent := (group_adjacent cand ceqb).
Notation merge_ballots := (merge_ballots cand).
Notation merge_adjacent := (merge_adjacent cand ceqb).
Notation dedup_positions := (dedup_positions cand ceqb).
Notation deduplicate_ballot := (deduplicate_ballot cand ceqb).
Notation deduplicate_profiles := (deduplicate_profiles cand ceqb).
Notation remove_noncands_ballot := (remove_noncands_ballot cand ceqb).
Notation remove_noncands := (remove_noncands cand ceqb).
Notation untied := (untied cand).
Notation distinct_positions := (distinct_positions cand ceqb).
Notation noncand_pos := (noncand_pos cand ceqb).
Notation cleaned := (cleaned cand ceqb).
Notation rankless := (rankless cand).
Notation voter_of := (voter_of cand).
Notation merged_voters := (merged_voters cand).
Notation merged_from := (merged_from cand).

Let req_sym := ranking_eqb_sym cand ceqb ceqb_spec.
Let req_refl := ranking_eqb_refl cand ceqb ceqb_spec.
Let req_compat_r := ranking_eqb_compat_r cand ceqb ceqb_spec.
Let req_compat_l := ranking_eqb_compat_l cand ceqb ceqb_spec.
Let ceq_refl := Lib_sets.cset_eqb_refl cand ceqb ceqb_spec.
Let ceq_sym := Lib_sets.cset_eqb_sym cand ceqb.
Let ceq_trans := Lib_sets.cset_eqb_trans cand ceqb ceqb_spec.

(* ====================== group_adjacent ====================== *)

Lemma group_adjacent_cons : forall b rest,
  group_adjacent (b :: rest) =
  match group_adjacent rest with
  | (b' :: g) :: gs =>
      if ranking_eqb (rk b) (rk b') then (b :: b' :: g) :: gs else [b] :: (b' :: g) :: gs
  | gs => [b] :: gs
  end.
Proof. reflexivity. Qed.

Theorem group_adjacent_concat : forall bs, concat (group_adjacent bs) = bs.
Proof.
  induction bs as [|b rest IH]; [reflexivity|].
  rewrite group_adjacent_cons. destruct (group_adjacent rest) as [|[|b' g] gs].
  - cbn [concat app] in *. rewrite <- IH. reflexivity.
  - cbn [concat app] in *. rewrite <- IH. reflexivity.
  - destruct (ranking_eqb (rk b) (rk b')); cbn [concat app] in *; rewrite <- IH; reflexivity.
Qed.

(* all members of a group have equivalent rankings *)
Definition homog (g : list ballot) : Prop :=
  forall b b', In b g -> In b' g -> ranking_eqb (rk b) (rk b') = true.

(* consecutive groups have different rankings *)
Fixpoint adj_diff (gs : list (list ballot)) : Prop :=
  match gs with
  | g1 :: ((g2 :: _) as rest) =>
      (forall b1 b2, In b1 g1 -> In b2 g2 -> ranking_eqb (rk b1) (rk b2) = false) /\ adj_diff rest
  | _ => True
  end.

Lemma group_adjacent_inv : forall bs,
  Forall (fun g => g <> []) (group_adjacent bs) /\ Forall homog (group_adjacent bs) /\
  adj_diff (group_adjacent bs).
Proof.
  induction bs as [|b rest (Hne & Hh & Ha)].
  - cbn. repeat split; constructor.
  - rewrite group_adjacent_cons.
    assert (Hsingle : homog [b]).
    { intros x y [<-|[]] [<-|[]]. apply req_refl. }
    destruct (group_adjacent rest) as [|[|b' g] gs].
    + repeat split; repeat constructor; [discriminate|exact Hsingle].
    + inversion Hne as [|x l H _]; subst. contradiction H. reflexivity.
    + inversion Hh as [|x l Hg Hh']; subst. inversion Hne as [|x l _ Hne']; subst.
      destruct (ranking_eqb (rk b) (rk b')) eqn:E.
      * split; [constructor; [discriminate|exact Hne']|]. split.
        -- constructor; [|exact Hh']. intros x y Hx Hy.
           assert (Hb : forall z, In z (b :: b' :: g) -> ranking_eqb (rk b) (rk z) = true).
           { intros z [<-|Hz]; [apply req_refl|].
             rewrite <- (req_compat_r (rk b) _ _ (Hg b' z (or_introl eq_refl) Hz)). exact E. }
           rewrite (req_compat_l (rk y) _ _ (eq_trans (req_sym _ _) (Hb x Hx))). apply Hb. exact Hy.
        -- destruct gs as [|g2 gs']; [exact I|]. destruct Ha as [Ha1 Ha2]. split; [|exact Ha2].
           intros b1 b2 [<-|H1] H2; [|apply Ha1; assumption].
           rewrite (req_compat_l (rk b2) _ _ E). apply Ha1; [left; reflexivity|exact H2].
      * split; [constructor; [discriminate|constructor; [discriminate|exact Hne']]|]. split.
        -- constructor; [exact Hsingle|constructor; [exact Hg|exact Hh']].
        -- split; [|exact Ha]. intros b1 b2 [<-|[]] H2.
           rewrite <- (req_compat_r (rk b) _ _ (Hg b' b2 (or_introl eq_refl) H2)). exact E.
Qed.

Lemma adj_diff_split : forall pre g1 g2 post, adj_diff (pre ++ g1 :: g2 :: post) ->
  forall b1 b2, In b1 g1 -> In b2 g2 -> ranking_eqb (rk b1) (rk b2) = false.
Proof.
  induction pre as [|g pre IH]; intros g1 g2 post H.
  - cbn [app adj_diff] in H. apply H.
  - cbn [app] in H. destruct pre as [|g' pre'].
    + cbn [app] in *. destruct H as [_ H]. apply (IH g1 g2 post H).
    + cbn [app] in *. destruct H as [_ H]. apply (IH g1 g2 post H).
Qed.

Theorem group_adjacent_spec : forall bs,
  concat (group_adjacent bs) = bs /\
  Forall (fun g => g <> []) (group_adjacent bs) /\
  (forall g b0 rest, In g (group_adjacent bs) -> g = b0 :: rest ->
     Forall (fun b => ranking_eqb (rk b0) (rk b) = true) rest) /\
  (forall pre g1 g2 post, group_adjacent bs = pre ++ g1 :: g2 :: post ->
     forall b1 b2, In b1 g1 -> In b2 g2 -> ranking_eqb (rk b1) (rk b2) = false).
Proof.
  intros bs. destruct (group_adjacent_inv bs) as (Hne & Hh & Ha).
  split; [apply group_adjacent_concat|]. split; [exact Hne|]. split.
  - intros g b0 rest Hg ->. rewrite Forall_forall in Hh. apply Forall_forall. intros b Hb.
    apply (Hh _ Hg); [left; reflexivity|right; exact Hb].
  - intros pre g1 g2 post E. rewrite E in Ha. apply (adj_diff_split pre g1 g2 post Ha).
Qed.

(* ====================== merge_ballots / merge_adjacent ====================== *)

Lemma union_pos_In : forall b a x, In x (union_pos a b) <-> In x a \/ In x b.
Proof.
  induction b as [|y b IH]; intros a x; cbn [union_pos].
  - split; [auto|intros [H|[]]; exact H].
  - destruct (existsb (Pos.eqb y) a) eqn:E.
    + rewrite IH. cbn [In]. split; [intros [H|H]; auto|].
      intros [H|[<-|H]]; auto. left. apply existsb_exists in E. destruct E as (z & Hz & Hyz).
      apply Pos.eqb_eq in Hyz. subst. exact Hz.
    + rewrite IH, in_app_iff. cbn [In]. tauto.
Qed.

Lemma fold_union_In : forall rest s x,
  In x (fold_left union_pos rest s) <-> In x s \/ exists s', In s' rest /\ In x s'.
Proof.
  induction rest as [|t rest IH]; intros s x; cbn [fold_left].
  - split; [auto|intros [H|(s' & [] & _)]; exact H].
  - rewrite IH, union_pos_In. split.
    + intros [[H|H]|(s' & Hs' & Hx)].
      * left. exact H.
      * right. exists t. split; [left; reflexivity|exact H].
      * right. exists s'. split; [right; exact Hs'|exact Hx].
    + intros [H|(s' & [<-|Hs'] & Hx)].
      * left. left. exact H.
      * left. right. exact Hx.
      * right. exists s'. split; assumption.
Qed.

Definition voter_sets (g : list ballot) : list (list positive) :=
  concat (map (fun b : ballot => match vs b with Some (x :: l) => [x :: l] | _ => [] end) g).

Lemma voter_sets_In : forall g s,
  In s (voter_sets g) <-> exists b, In b g /\ vs b = Some s /\ s <> [].
Proof.
  intros g s. unfold voter_sets. rewrite in_concat. split.
  - intros (l & Hl & Hs). apply in_map_iff in Hl. destruct Hl as (b & <- & Hb).
    destruct (vs b) as [[|x l]|] eqn:E; try destruct Hs as [<-|[]]; try destruct Hs.
    exists b. split; [exact Hb|]. split; [exact E|discriminate].
  - intros (b & Hb & Hv & Hne). exists [s]. split; [|left; reflexivity].
    apply in_map_iff. exists b. split; [|exact Hb]. rewrite Hv.
    destruct s; [contradiction Hne; reflexivity|reflexivity].
Qed.

Lemma voter_of_sets : forall g x, voter_of g x <-> exists s, In s (voter_sets g) /\ In x s.
Proof.
  intros g x. unfold CleanSpec.voter_of. split.
  - intros (b & l & Hb & Hv & Hx). exists l. split; [|exact Hx]. apply voter_sets_In.
    exists b. split; [exact Hb|]. split; [exact Hv|]. intros ->. destruct Hx.
  - intros (s & Hs & Hx). apply voter_sets_In in Hs. destruct Hs as (b & Hb & Hv & _).
    exists b, s. auto.
Qed.

Lemma merge_ballots_spec : forall b0 rest,
  exists b, merge_ballots (b0 :: rest) = inl b /\ merged_from (b0 :: rest) b.
Proof.
  intros b0 rest. set (g := b0 :: rest). eexists. split; [reflexivity|].
  exists b0, rest. cbn [rk wt sc bid vs]. repeat split.
  fold (voter_sets g). unfold CleanSpec.merged_voters.
  destruct (voter_sets g) as [|s srest] eqn:E.
  - intros x Hx. apply voter_of_sets in Hx. destruct Hx as (s & Hs & _). rewrite E in Hs. destruct Hs.
  - split.
    + assert (Hs : In s (voter_sets g)) by (rewrite E; left; reflexivity).
      pose proof Hs as Hs'. apply voter_sets_In in Hs'. destruct Hs' as (b & _ & _ & Hne).
      destruct s as [|x s']; [contradiction Hne; reflexivity|].
      exists x. apply voter_of_sets. exists (x :: s'). split; [exact Hs|left; reflexivity].
    + intros x. rewrite fold_union_In, voter_of_sets, E. cbn [In]. split.
      * intros [H|(s' & Hs' & Hx)]; [exists s; auto|exists s'; auto].
      * intros (s' & [<-|Hs'] & Hx); [left; exact Hx|right; exists s'; auto].
Qed.

Lemma merge_ballots_nil : merge_ballots [] = inr EIndex.
Proof. reflexivity. Qed.

Lemma mk_profile_nil : forall bs : list ballot, mk_profile bs [] = inl (mkProfile bs (cast_cands bs)).
Proof. reflexivity. Qed.

Lemma merged_Forall2 : forall G out,
  Forall2 (fun g b => merge_ballots g = inl b) G out -> Forall2 merged_from G out.
Proof.
  intros G out H. induction H as [|g b G out Hgb _ IH]; constructor; [|exact IH].
  destruct g as [|b0 rest]; [discriminate|].
  destruct (merge_ballots_spec b0 rest) as (b' & Hb' & Hm). rewrite Hb' in Hgb.
  injection Hgb as <-. exact Hm.
Qed.

Theorem merge_adjacent_spec : forall bs,
  exists p, merge_adjacent bs = inl p /\ Forall2 merged_from (group_adjacent bs) (ballots p) /\
            cands p = cast_cands (ballots p).
Proof.
  intros bs. unfold Cleaning.merge_adjacent.
  destruct (group_adjacent_inv bs) as (Hne & _ & _).
  destruct (rmap_total_ex _ _ merge_ballots (group_adjacent bs)) as [out Hout].
  - intros g Hg. rewrite Forall_forall in Hne. specialize (Hne g Hg).
    destruct g as [|b0 rest]; [contradiction Hne; reflexivity|].
    destruct (merge_ballots_spec b0 rest) as (b & Hb & _). exists b. exact Hb.
  - rewrite Hout. cbn [rbind]. rewrite mk_profile_nil. eexists. split; [reflexivity|].
    cbn [ballots cands]. split; [|reflexivity]. apply merged_Forall2. apply rmap_ok_inv. exact Hout.
Qed.

Lemma homog_wtof : forall r b0 g,
  (forall b, In b g -> ranking_eqb (rk b0) (rk b) = true) ->
  wtof_rk r g == if ranking_eqb r (rk b0) then qsum (map wt g) else 0.
Proof.
  intros r b0 g. induction g as [|b g IH]; intros H.
  - rewrite wtof_rk_nil. destruct (ranking_eqb r (rk b0)); reflexivity.
  - rewrite (wtof_rk_cons cand ceqb). rewrite IH by (intros x Hx; apply H; right; exact Hx).
    rewrite <- (req_compat_r r _ _ (H b (or_introl eq_refl))).
    destruct (ranking_eqb r (rk b0)); cbn [map]; rewrite ?qsum_cons; ring.
Qed.

Lemma merged_wtof : forall G out, Forall2 merged_from G out -> Forall homog G ->
  forall r, wtof_rk r out == wtof_rk r (concat G).
Proof.
  intros G out H. induction H as [|g b G out Hgb _ IH]; intros Hh r.
  - reflexivity.
  - inversion Hh as [|x l Hg Hh']; subst. cbn [concat].
    rewrite (wtof_rk_cons cand ceqb), (wtof_rk_app cand ceqb), (IH Hh' r).
    destruct Hgb as (b0 & rest & -> & Hrk & Hwt & _).
    rewrite (homog_wtof r b0 (b0 :: rest)) by (intros x Hx; apply Hg; [left; reflexivity|exact Hx]).
    rewrite Hrk, Hwt. reflexivity.
Qed.

Lemma merged_total : forall G out, Forall2 merged_from G out -> total_wt out == total_wt (concat G).
Proof.
  intros G out H. induction H as [|g b G out Hgb _ IH].
  - reflexivity.
  - cbn [concat]. rewrite (Lib_condense12.total_wt_app cand), (Lib_condense12.total_wt_cons cand), IH.
    destruct Hgb as (b0 & rest & _ & _ & Hwt & _). rewrite Hwt. reflexivity.
Qed.

Theorem merge_adjacent_weights : forall bs p, merge_adjacent bs = inl p ->
  (forall r, wtof_rk r (ballots p) == wtof_rk r bs) /\ total_wt (ballots p) == total_wt bs.
Proof.
  intros bs p Hp. destruct (merge_adjacent_spec bs) as (p' & Hp' & HF & _).
  rewrite Hp in Hp'. injection Hp' as <-. destruct (group_adjacent_inv bs) as (_ & Hh & _). split.
  - intros r. rewrite (merged_wtof _ _ HF Hh r), group_adjacent_concat. reflexivity.
  - rewrite (merged_total _ _ HF), group_adjacent_concat. reflexivity.
Qed.

(* every output ranking is the ranking of an input ballot *)
Lemma merge_adjacent_rk_in : forall bs p b, merge_adjacent bs = inl p -> In b (ballots p) ->
  exists b0, In b0 bs /\ rk b = rk b0.
Proof.
  intros bs p b Hp Hb. destruct (merge_adjacent_spec bs) as (p' & Hp' & HF & _).
  rewrite Hp in Hp'. injection Hp' as <-.
  assert (H : forall G out, Forall2 merged_from G out -> In b out ->
                            exists b0, In b0 (concat G) /\ rk b = rk b0).
  { intros G out HF'. induction HF' as [|g x G out Hgx _ IH]; intros Hin; [destruct Hin|].
    cbn [concat]. destruct Hin as [->|Hin].
    - destruct Hgx as (b0 & rest & -> & Hrk & _). exists b0. split; [left; reflexivity|exact Hrk].
    - destruct (IH Hin) as (b0 & H0 & Hrk). exists b0. split; [apply in_or_app; right; exact H0|exact Hrk]. }
  destruct (H _ _ HF Hb) as (b0 & H0 & Hrk). rewrite group_adjacent_concat in H0. exists b0. auto.
Qed.

(* ====================== dedup_positions ====================== *)

Definition seen_in (seen : ranking) (s : cset) : bool := existsb (fun t => cset_eqb t s) seen.

Lemma dedup_positions_cons : forall seen s r,
  dedup_positions seen (s :: r) =
  if seen_in seen s then dedup_positions seen r else s :: dedup_positions (seen ++ [s]) r.
Proof. reflexivity. Qed.

Lemma seen_in_app : forall a b s, seen_in (a ++ b) s = seen_in a s || seen_in b s.
Proof. intros a b s. unfold seen_in. apply existsb_app. Qed.

Lemma seen_in_true : forall seen s, seen_in seen s = true <-> exists t, In t seen /\ cset_eqb t s = true.
Proof. intros seen s. unfold seen_in. apply existsb_exists. Qed.

Lemma seen_in_compat : forall seen s s', cset_eqb s s' = true -> seen_in seen s = seen_in seen s'.
Proof.
  intros seen s s' H.
  destruct (seen_in seen s) eqn:E1, (seen_in seen s') eqn:E2; try reflexivity.
  - apply seen_in_true in E1. destruct E1 as (t & Ht & Hts).
    assert (seen_in seen s' = true) by (apply seen_in_true; exists t; split; [exact Ht|eapply ceq_trans; eassumption]).
    congruence.
  - apply seen_in_true in E2. destruct E2 as (t & Ht & Hts).
    assert (seen_in seen s = true).
    { apply seen_in_true. exists t. split; [exact Ht|]. eapply ceq_trans; [exact Hts|].
      rewrite ceq_sym. exact H. }
    congruence.
Qed.

Lemma dp_subseq : forall r seen, subseq (dedup_positions seen r) r.
Proof.
  induction r as [|s r IH]; intros seen; [constructor|].
  rewrite dedup_positions_cons. destruct (seen_in seen s); constructor; apply IH.
Qed.

Lemma dp_not_seen : forall r seen s, In s (dedup_positions seen r) -> seen_in seen s = false.
Proof.
  induction r as [|a r IH]; intros seen s Hs; [destruct Hs|].
  rewrite dedup_positions_cons in Hs. destruct (seen_in seen a) eqn:E.
  - apply IH. exact Hs.
  - destruct Hs as [<-|Hs]; [exact E|]. apply IH in Hs. rewrite seen_in_app in Hs.
    apply orb_false_iff in Hs. apply Hs.
Qed.

Lemma dp_distinct : forall r seen, distinct_positions (dedup_positions seen r).
Proof.
  unfold CleanSpec.distinct_positions.
  induction r as [|a r IH]; intros seen; [constructor|].
  rewrite dedup_positions_cons. destruct (seen_in seen a) eqn:E; [apply IH|].
  constructor; [|apply IH]. apply Forall_forall. intros t Ht.
  apply dp_not_seen in Ht. rewrite seen_in_app in Ht. apply orb_false_iff in Ht.
  destruct Ht as [_ Ht]. unfold seen_in in Ht. cbn [existsb] in Ht. rewrite orb_false_r in Ht. exact Ht.
Qed.

(* every input position is represented: already seen, or equal (as a set) to a kept one *)
Lemma dp_complete : forall r seen s, In s r ->
  seen_in seen s = true \/ exists t, In t (dedup_positions seen r) /\ cset_eqb t s = true.
Proof.
  induction r as [|a r IH]; intros seen s Hs; [destruct Hs|].
  rewrite dedup_positions_cons. destruct (seen_in seen a) eqn:E.
  - destruct Hs as [<-|Hs]; [left; exact E|]. apply IH. exact Hs.
  - destruct Hs as [<-|Hs].
    + right. exists a. split; [left; reflexivity|apply ceq_refl].
    + destruct (IH (seen ++ [a]) s Hs) as [H|(t & Ht & Hts)].
      * rewrite seen_in_app in H. apply orb_true_iff in H. destruct H as [H|H]; [left; exact H|].
        right. exists a. split; [left; reflexivity|].
        unfold seen_in in H. cbn [existsb] in H. rewrite orb_false_r in H. exact H.
      * right. exists t. split; [right; exact Ht|exact Hts].
Qed.

(* the last position is kept iff no earlier position (nor a seen one) equals it *)
Lemma dp_snoc : forall pre seen s,
  dedup_positions seen (pre ++ [s]) =
  if seen_in (seen ++ pre) s then dedup_positions seen pre else dedup_positions seen pre ++ [s].
Proof.
  induction pre as [|a pre IH]; intros seen s.
  - cbn [app]. rewrite dedup_positions_cons, app_nil_r. destruct (seen_in seen s); reflexivity.
  - cbn [app]. rewrite !dedup_positions_cons. destruct (seen_in seen a) eqn:E.
    + rewrite IH.
      assert (Heq : seen_in (seen ++ a :: pre) s = seen_in (seen ++ pre) s).
      { rewrite !seen_in_app. change (a :: pre) with ([a] ++ pre). rewrite seen_in_app.
        destruct (seen_in seen s) eqn:E1; [reflexivity|]. cbn [orb].
        assert (Ha : seen_in [a] s = false); [|rewrite Ha; reflexivity].
        destruct (seen_in [a] s) eqn:E2; [|reflexivity].
        unfold seen_in in E2. cbn [existsb] in E2. rewrite orb_false_r in E2.
        rewrite (seen_in_compat seen a s E2) in E. congruence. }
      rewrite Heq. reflexivity.
    + rewrite IH. rewrite <- app_assoc. cbn [app].
      destruct (seen_in (seen ++ a :: pre) s); reflexivity.
Qed.

Lemma untied_distinct_NoDup : forall r, untied r -> distinct_positions r -> NoDup (flat r).
Proof.
  unfold CleanSpec.untied, CleanSpec.distinct_positions. intros r Hu Hd.
  induction Hd as [|s r Hs Hd IH]; [constructor|].
  inversion Hu as [|x l [c ->] Hu']; subst. unfold Core.flat. cbn [concat app]. constructor.
  - intros Hin. apply in_concat in Hin. destruct Hin as (t & Ht & Hc).
    rewrite Forall_forall in Hs, Hu'. destruct (Hu' t Ht) as [c' ->]. destruct Hc as [->|[]].
    specialize (Hs [c] Ht). rewrite ceq_refl in Hs. discriminate.
  - apply IH. exact Hu'.
Qed.

Theorem dedup_positions_spec : forall r,
  subseq (dedup_positions [] r) r /\
  distinct_positions (dedup_positions [] r) /\
  (forall s, In s r -> exists t, In t (dedup_positions [] r) /\ cset_eqb t s = true) /\
  (forall pre s, dedup_positions [] (pre ++ [s]) =
                 if existsb (fun t => cset_eqb t s) pre then dedup_positions [] pre
                 else dedup_positions [] pre ++ [s]) /\
  (untied r -> untied (dedup_positions [] r) /\ NoDup (flat (dedup_positions [] r)) /\
               subseq (flat (dedup_positions [] r)) (flat r) /\
               (forall c, In c (flat (dedup_positions [] r)) <-> In c (flat r))).
Proof.
  intros r. split; [apply dp_subseq|]. split; [apply dp_distinct|]. split; [|split].
  - intros s Hs. destruct (dp_complete r [] s Hs) as [H|H]; [discriminate|exact H].
  - intros pre s. rewrite dp_snoc. reflexivity.
  - intros Hu.
    assert (Hu' : untied (dedup_positions [] r)) by (eapply subseq_Forall; [apply dp_subseq|exact Hu]).
    split; [exact Hu'|]. split; [apply untied_distinct_NoDup; [exact Hu'|apply dp_distinct]|].
    split; [apply subseq_concat, dp_subseq|].
    intros c. split.
    + apply subseq_In. apply subseq_concat, dp_subseq.
    + intros Hc. apply in_concat in Hc. destruct Hc as (s & Hs & Hcs).
      destruct (dp_complete r [] s Hs) as [H|(t & Ht & Hts)]; [discriminate|].
      apply in_concat. exists t. split; [exact Ht|].
      apply (proj1 (Lib_sets.cset_eqb_iff cand ceqb ceqb_spec t s)) in Hts. apply Hts. exact Hcs.
Qed.

(* ====================== per-ballot editors followed by merge_adjacent ====================== *)

Definition edit (g : ranking -> ranking) (b : ballot) : ballot :=
  mkBallot (g (rk b)) (wt b) [] (bid b) (vs b).

Lemma rmap_guard : forall (f : ballot -> res ballot) g bs,
  (forall b, f b = if nonempty (rk b) then ok (edit g b) else err EType) ->
  ((forall b, In b bs -> rk b <> []) -> rmap f bs = inl (map (edit g) bs)) /\
  ((exists b, In b bs /\ rk b = []) -> rmap f bs = inr EType).
Proof.
  intros f g bs Hf. split.
  - intros H. apply rmap_total. intros b Hb. rewrite Hf.
    destruct (rk b) eqn:E; [contradiction (H b Hb)|reflexivity].
  - induction bs as [|a bs IH]; intros (b & Hb & Hrk); [destruct Hb|].
    cbn [rmap]. rewrite Hf. destruct (rk a) as [|s r] eqn:E; cbn [nonempty rbind]; [reflexivity|].
    destruct Hb as [->|Hb]; [congruence|].
    rewrite IH; [reflexivity|]. exists b. split; assumption.
Qed.

Lemma rankless_dec : forall bs : list ballot,
  (forall b, In b bs -> rk b <> []) \/ (exists b, In b bs /\ rk b = []).
Proof.
  induction bs as [|a bs [IH|(b & Hb & Hrk)]].
  - left. intros b [].
  - destruct (rk a) as [|s r] eqn:E.
    + right. exists a. split; [left; reflexivity|exact E].
    + left. intros b [<-|Hb]; [rewrite E; discriminate|apply IH; exact Hb].
  - right. exists b. split; [right; exact Hb|exact Hrk].
Qed.

Lemma wtof_rk_map_edit : forall g r bs,
  wtof_rk r (map (edit g) bs) == wt_where (fun b => ranking_eqb r (g (rk b))) bs.
Proof.
  intros g r bs. unfold EditSpec.wtof_rk, EditSpec.wt_where.
  rewrite filter_map_comm, map_map. reflexivity.
Qed.

Lemma wt_where_map_edit : forall g (q : ballot -> bool) bs,
  wt_where q (map (edit g) bs) == wt_where (fun b => q (edit g b)) bs.
Proof.
  intros g q bs. unfold EditSpec.wt_where. rewrite filter_map_comm, map_map. reflexivity.
Qed.

Lemma total_wt_map_edit : forall g bs, total_wt (map (edit g) bs) = total_wt bs.
Proof. intros g bs. unfold Core.total_wt. rewrite map_map. reflexivity. Qed.

Lemma wtof_rk_filter_ne : forall r' (l : list ballot), nonempty r' = true ->
  wtof_rk r' (filter (fun b => nonempty (rk b)) l) == wtof_rk r' l.
Proof.
  intros r' l Hne. unfold EditSpec.wtof_rk. rewrite filter_filter.
  rewrite (filter_ext_in _ (fun a : ballot => nonempty (rk a) && ranking_eqb r' (rk a))
                           (fun a => ranking_eqb r' (rk a))); [reflexivity|].
  intros a _. destruct (ranking_eqb r' (rk a)) eqn:E; [|apply andb_false_r].
  apply (ranking_eqb_nonempty cand ceqb) in E. rewrite <- E, Hne. reflexivity.
Qed.

(* ---------- deduplicate_profiles ---------- *)

Lemma deduplicate_ballot_eq : forall b,
  deduplicate_ballot b = if nonempty (rk b) then ok (edit (dedup_positions []) b) else err EType.
Proof. intros b. unfold Cleaning.deduplicate_ballot, edit. destruct (rk b); reflexivity. Qed.

Theorem deduplicate_profiles_spec : forall p : profile,
  (deduplicate_profiles p = inr EType <-> exists b, In b (ballots p) /\ rk b = []) /\
  (forall e, deduplicate_profiles p = inr e -> e = EType) /\
  ((forall b, In b (ballots p) -> rk b <> []) -> exists out, deduplicate_profiles p = inl out) /\
  (forall out, deduplicate_profiles p = inl out ->
     (forall r', wtof_rk r' (ballots out) ==
                 wt_where (fun b => ranking_eqb r' (dedup_positions [] (rk b))) (ballots p)) /\
     total_wt (ballots out) == total_wt (ballots p) /\
     (forall b', In b' (ballots out) ->
        exists b, In b (ballots p) /\ rk b' = dedup_positions [] (rk b)) /\
     cands out = cast_cands (ballots out)).
Proof.
  intros p. unfold Cleaning.deduplicate_profiles.
  destruct (rmap_guard deduplicate_ballot (dedup_positions []) (ballots p) deduplicate_ballot_eq)
    as [Hok Herr].
  destruct (rankless_dec (ballots p)) as [Hall|Hex].
  - rewrite (Hok Hall). cbn [rbind].
    destruct (merge_adjacent_spec (map (edit (dedup_positions [])) (ballots p))) as (out & Hout & HF & Hc).
    rewrite Hout. split; [|split; [|split]].
    + split; [discriminate|]. intros (b & Hb & Hrk). contradiction (Hall b Hb).
    + discriminate.
    + intros _. exists out. reflexivity.
    + intros out' E. injection E as <-.
      destruct (merge_adjacent_weights _ _ Hout) as [Hw Ht]. split; [|split; [|split]].
      * intros r'. rewrite Hw. apply wtof_rk_map_edit.
      * rewrite Ht, total_wt_map_edit. reflexivity.
      * intros b' Hb'. destruct (merge_adjacent_rk_in _ _ _ Hout Hb') as (b0 & H0 & Hrk).
        apply in_map_iff in H0. destruct H0 as (b & <- & Hb). exists b. split; [exact Hb|exact Hrk].
      * exact Hc.
  - rewrite (Herr Hex). cbn [rbind]. split; [|split; [|split]].
    + split; [intros _; exact Hex|reflexivity].
    + intros e E. injection E as <-. reflexivity.
    + intros Hall. destruct Hex as (b & Hb & Hrk). contradiction (Hall b Hb).
    + discriminate.
Qed.

(* ---------- remove_noncands ---------- *)

Lemma remove_noncands_ballot_eq : forall non b,
  remove_noncands_ballot non b = if nonempty (rk b) then ok (edit (cleaned non) b) else err EType.
Proof. intros non b. unfold Cleaning.remove_noncands_ballot, edit. destruct (rk b); reflexivity. Qed.

Theorem cleaned_spec : forall non r,
  subseq (cleaned non r) r /\
  distinct_positions (cleaned non r) /\
  (forall s, In s (cleaned non r) -> noncand_pos non s = false) /\
  (forall x, In x non -> ~ In [x] (cleaned non r)) /\
  (forall s, In s r -> noncand_pos non s = false ->
             exists t, In t (cleaned non r) /\ cset_eqb t s = true) /\
  (untied r -> untied (cleaned non r) /\ NoDup (flat (cleaned non r)) /\
               (forall c, In c (flat (cleaned non r)) <-> In c (flat r) /\ ~ In c non)).
Proof.
  intros non r. unfold CleanSpec.cleaned.
  set (kept := filter (fun s => negb (noncand_pos non s)) r).
  assert (Hsub : subseq (dedup_positions [] kept) r).
  { eapply subseq_trans; [apply dp_subseq|apply subseq_filter]. }
  assert (Hnon : forall s, In s (dedup_positions [] kept) -> noncand_pos non s = false).
  { intros s Hs. apply (subseq_In _ _ _ s (dp_subseq kept [])) in Hs.
    apply filter_In in Hs. destruct Hs as [_ Hs]. apply negb_true_iff in Hs. exact Hs. }
  assert (Hcompl : forall s, In s r -> noncand_pos non s = false ->
             exists t, In t (dedup_positions [] kept) /\ cset_eqb t s = true).
  { intros s Hs Hn. assert (Hk : In s kept) by (apply filter_In; split; [exact Hs|rewrite Hn; reflexivity]).
    destruct (dp_complete kept [] s Hk) as [H|H]; [discriminate|exact H]. }
  split; [exact Hsub|]. split; [apply dp_distinct|]. split; [exact Hnon|]. split; [|split].
  - intros x Hx Hin. apply Hnon in Hin. unfold CleanSpec.noncand_pos in Hin.
    assert (H : existsb (fun y => cset_eqb [x] [y]) non = true).
    { apply existsb_exists. exists x. split; [exact Hx|apply ceq_refl]. }
    congruence.
  - exact Hcompl.
  - intros Hu.
    assert (Hu' : untied (dedup_positions [] kept)) by (eapply subseq_Forall; [exact Hsub|exact Hu]).
    split; [exact Hu'|]. split; [apply untied_distinct_NoDup; [exact Hu'|apply dp_distinct]|].
    intros c. split.
    + intros Hc. split; [eapply subseq_In; [apply subseq_concat; exact Hsub|exact Hc]|].
      intros Hcn. apply in_concat in Hc. destruct Hc as (s & Hs & Hcs).
      pose proof (Hnon s Hs) as Hn. unfold CleanSpec.untied in Hu'. rewrite Forall_forall in Hu'.
      destruct (Hu' s Hs) as [c' ->]. destruct Hcs as [->|[]].
      unfold CleanSpec.noncand_pos in Hn.
      assert (H : existsb (fun y => cset_eqb [c] [y]) non = true).
      { apply existsb_exists. exists c. split; [exact Hcn|apply ceq_refl]. }
      congruence.
    + intros [Hc Hcn]. apply in_concat in Hc. destruct Hc as (s & Hs & Hcs).
      unfold CleanSpec.untied in Hu. rewrite Forall_forall in Hu.
      destruct (Hu s Hs) as [c' ->]. destruct Hcs as [->|[]].
      assert (Hn : noncand_pos non [c] = false).
      { unfold CleanSpec.noncand_pos. apply not_true_is_false. intros H.
        apply existsb_exists in H. destruct H as (y & Hy & Hcy).
        apply (proj1 (Lib_sets.cset_eqb_iff cand ceqb ceqb_spec [c] [y])) in Hcy.
        destruct Hcy as [Hcy _]. destruct (Hcy c (or_introl eq_refl)) as [->|[]]. contradiction. }
      destruct (Hcompl [c] Hs Hn) as (t & Ht & Htc).
      apply in_concat. exists t. split; [exact Ht|].
      apply (proj1 (Lib_sets.cset_eqb_iff cand ceqb ceqb_spec t [c])) in Htc. apply Htc. left. reflexivity.
Qed.

Theorem remove_noncands_spec : forall (p : profile) non,
  (remove_noncands p non = inr EType <-> exists b, In b (ballots p) /\ rk b = []) /\
  (forall e, remove_noncands p non = inr e -> e = EType) /\
  ((forall b, In b (ballots p) -> rk b <> []) -> exists out, remove_noncands p non = inl out) /\
  (forall out, remove_noncands p non = inl out ->
     (forall r', nonempty r' = true ->
        wtof_rk r' (ballots out) ==
        wt_where (fun b => ranking_eqb r' (cleaned non (rk b))) (ballots p)) /\
     total_wt (ballots p) - total_wt (ballots out) ==
       wt_where (fun b => negb (nonempty (cleaned non (rk b)))) (ballots p) /\
     (forall b', In b' (ballots out) ->
        rk b' <> [] /\ exists b, In b (ballots p) /\ rk b' = cleaned non (rk b)) /\
     cands out = cast_cands (ballots out)).
Proof.
  intros p non. unfold Cleaning.remove_noncands.
  destruct (rmap_guard (remove_noncands_ballot non) (cleaned non) (ballots p)
              (remove_noncands_ballot_eq non)) as [Hok Herr].
  destruct (rankless_dec (ballots p)) as [Hall|Hex].
  - rewrite (Hok Hall). cbn [rbind].
    set (l := map (edit (cleaned non)) (ballots p)).
    destruct (merge_adjacent_spec (filter (fun b : ballot => nonempty (rk b)) l)) as (out & Hout & HF & Hc).
    rewrite Hout. split; [|split; [|split]].
    + split; [discriminate|]. intros (b & Hb & Hrk). contradiction (Hall b Hb).
    + discriminate.
    + intros _. exists out. reflexivity.
    + intros out' E. injection E as <-.
      destruct (merge_adjacent_weights _ _ Hout) as [Hw Ht]. split; [|split; [|split]].
      * intros r' Hne. rewrite Hw, (wtof_rk_filter_ne r' l Hne). apply wtof_rk_map_edit.
      * assert (H1 : total_wt l = total_wt (ballots p)) by apply total_wt_map_edit.
        assert (H3 : wt_where (fun b => negb (nonempty (rk b))) l ==
                     wt_where (fun b => negb (nonempty (cleaned non (rk b)))) (ballots p)).
        { unfold l. rewrite wt_where_map_edit. reflexivity. }
        assert (H4 : wt_where (fun b => nonempty (rk b)) l =
                     total_wt (filter (fun b : ballot => nonempty (rk b)) l)) by reflexivity.
        rewrite Ht, <- H1, <- H3, <- H4.
        rewrite (wt_where_split cand (fun b => nonempty (rk b)) l). ring.
      * intros b' Hb'. destruct (merge_adjacent_rk_in _ _ _ Hout Hb') as (b0 & H0 & Hrk).
        apply filter_In in H0. destruct H0 as [H0 Hne].
        apply in_map_iff in H0. destruct H0 as (b & <- & Hb). split.
        -- rewrite Hrk. apply nonempty_true_iff. exact Hne.
        -- exists b. split; [exact Hb|exact Hrk].
      * exact Hc.
  - rewrite (Herr Hex). cbn [rbind]. split; [|split; [|split]].
    + split; [intros _; exact Hex|reflexivity].
    + intros e E. injection E as <-. reflexivity.
    + intros Hall. destruct Hex as (b & Hb & Hrk). contradiction (Hall b Hb).
    + discriminate.
Qed.

(* ====================== remove_empty_ballots ====================== *)

Theorem remove_empty_spec : forall (p : profile) keep,
  (forall q, remove_empty_ballots p keep = inl q ->
     ballots q = filter (fun b => nonempty (rk b)) (ballots p) /\
     cands q = (if keep then match cands p with [] => cast_cands (ballots q) | cs => cs end
                else cast_cands (ballots q)) /\
     total_wt (ballots p) - total_wt (ballots q) == wt_where rankless (ballots p)) /\
  (forall e, remove_empty_ballots p keep = inr e <-> e = EValue /\ keep = true /\ ~ NoDup (cands p)) /\
  (keep = false \/ NoDup (cands p) -> exists q, remove_empty_ballots p keep = inl q).
Proof.
  intros p keep. unfold Cleaning.remove_empty_ballots.
  set (bs := filter (fun b : ballot => nonempty (rk b)) (ballots p)).
  split; [|split].
  - intros q Hq. apply (mk_profile_ok cand ceqb ceqb_spec) in Hq.
    destruct Hq as (Hb & Hc1 & Hc2 & _). split; [exact Hb|]. split.
    + rewrite Hb. destruct keep.
      * destruct (cands p) as [|c cs] eqn:E; [apply Hc2; reflexivity|apply Hc1; discriminate].
      * apply Hc2. reflexivity.
    + rewrite Hb. rewrite (wt_where_split cand (fun b => nonempty (rk b)) (ballots p)).
      unfold bs, EditSpec.wt_where, Core.total_wt, CleanSpec.rankless. ring.
  - intros e. split.
    + intros He. apply (mk_profile_err cand ceqb ceqb_spec) in He. destruct He as [-> Hnd].
      split; [reflexivity|]. destruct keep; [split; [reflexivity|exact Hnd]|].
      exfalso. apply Hnd. constructor.
    + intros (-> & -> & Hnd). apply (mk_profile_dup_iff cand ceqb ceqb_spec). exact Hnd.
  - intros H. apply (mk_profile_total cand ceqb ceqb_spec).
    destruct H as [->|H]; [constructor|]. destruct keep; [exact H|constructor].
Qed.

End WithCand.
