(* Proofs/C09_replay2.v — C09, get_profile consistency for the rules and rounds not covered by
   Proofs/C09_queries.v (one-shot rules) and Proofs/C09_replay.v (STV family, TopTwo / Alaska with
   no tiebreak anywhere): DominatingSets, CondoBorda, TopTwo and the first stage of Alaska with
   "no tiebreak up to the round asked for", the refutation of that weakening for the STV rounds of
   Alaska, and STV with ANY transfer rule (the random one included) on rounds before any draw. *)
From Coq Require Import List ZArith QArith Bool Permutation Lia.
From VK Require Import Base Core STV Pairwise Rules PV Election.
From VK.Spec Require Import STVSpec QuerySpec TieSpec ScoreSpec PairwiseSpec RunSpec ReplaySpec QuietSpec.
From VK.Proofs Require Import Lib_sets C04_scoring Elect C10_script C10_quiet C09_queries
  STV_inv C20_validation C05_rating C12_edit C13_composite C09_replay C06_tiers C01_rules.
Import ListNotations.

Section Replay2.
Variable cand : Type.
Variable ceqb : cand -> cand -> bool.
Hypothesis ceqb_spec : forall a b, reflect (a = b) (ceqb a b).

Notation cset := (cset cand).
Notation ranking := (ranking cand).
Notation profile := (profile cand).
Notation scores := (scores cand).
Notation estate := (estate cand).
Notation mstate := (mstate cand).
Notation M := (M cand).
Notation flat := (flat cand).
Notation state_of := (state_of cand ceqb).
Notation stv_trace := (stv_trace cand ceqb).
Notation stv_init := (stv_init cand).
Notation stv_step := (stv_step cand ceqb).
Notation stv_replay := (stv_replay cand ceqb).
Notation run_stv := (run_stv cand ceqb).
Notation run_rule := (run_rule cand ceqb).
Notation run_plurality := (run_plurality cand ceqb).
Notation run_toptwo := (run_toptwo cand ceqb).
Notation run_alaska := (run_alaska cand ceqb).
Notation plurality_stage := (plurality_stage cand ceqb).
Notation one_shot_step := (one_shot_step cand ceqb).
Notation count_elected := (count_elected cand).
Notation first_place_votes := (first_place_votes cand ceqb).
Notation borda_scores := (borda_scores cand ceqb).
Notation dominating_tiers := (dominating_tiers cand ceqb).
Notation score_to_ranking := (score_to_ranking cand).
Notation remove_cand_prof := (remove_cand_prof cand ceqb).
Notation replay_step := (replay_step cand ceqb).
Notation replay_steps := (replay_steps cand ceqb).
Notation get_profile := (get_profile cand ceqb).
Notation no_tiebreak := (no_tiebreak cand).
Notation untied_profile := (untied_profile cand).
Notation quiet_round := (quiet_round cand).

(* ------------------------------------------------------------------ *)
(** * candidates of a profile after a removal *)

Lemma removed_cands : forall (p np : profile) (a b : cset) cf lz,
  NoDup (cands p) -> Permutation (a ++ b) (cands p) -> b <> [] ->
  remove_cand_prof a cf lz p = inl np ->
  Permutation (cands np) b /\ NoDup (cands np).
Proof.
  intros p np a b cf lz Hnd Hperm Hb Hnp.
  destruct (diff_perm cand ceqb ceqb_spec (cands p) a b Hnd Hperm Hb) as [Hdne Hmem].
  destruct (C12_edit.remove_prof_cands cand ceqb ceqb_spec a cf lz p Hnd) as [np' [Hnp' [_ [Hc _]]]].
  rewrite Hnp in Hnp'. inversion Hnp'; subst np'. destruct (Hc Hdne) as [Hcands [Hndnp _]].
  split; [|exact Hndnp].
  apply NoDup_Permutation; [exact Hndnp| |intros c; rewrite Hcands; apply Hmem].
  assert (Hndab : NoDup (a ++ b)).
  { eapply Permutation_NoDup; [apply Permutation_sym; exact Hperm|exact Hnd]. }
  destruct (Lib_sets.NoDup_app_inv _ _ Hndab) as [_ [Hndb _]]. exact Hndb.
Qed.

(* the rules whose get_profile is the generic replay *)
Lemma get_profile_generic : forall r (p : profile) (sts : list estate) i k,
  (forall cfg, r <> RSTV cfg) -> (forall m1 m2 cfg, r <> RAlaska m1 m2 cfg) ->
  norm_index (length sts) i = inl k ->
  forall sx : mstate, get_profile r p sts i sx = replay_steps r p p (firstn k sts) sx.
Proof.
  intros r p sts i k H1 H2 En sx. unfold Election.get_profile. rewrite mbind_mlift, En.
  destruct r; try reflexivity.
  - exfalso. exact (H1 cfg eq_refl).
  - exfalso. exact (H2 m1 m2 cfg eq_refl).
Qed.

(* ------------------------------------------------------------------ *)
(** * DominatingSets *)

Theorem dominating_get_profile : forall (p : profile) (s s' : mstate) sts,
  untied_profile p -> run_rule RDominating p s = inl (sts, s') ->
  s' = s /\
  exists s0 s1 top rest np,
    sts = [s0; s1] /\ dominating_tiers p = inl (top :: rest) /\
    remaining s0 = [cands p] /\ elected s1 = [top] /\ remaining s1 = rest /\
    Forall no_tiebreak sts /\
    remove_cand_prof top true false p = inl np /\
    forall i, in_range 2 i ->
      exists pr st, nth_error [p; np] (round_of 2 i) = Some pr /\
        nth_error sts (round_of 2 i) = Some st /\
        (forall sx : mstate, get_profile RDominating p sts i sx = inl (pr, sx)) /\
        escores st = [] /\
        (flat (remaining st) <> [] ->
         Permutation (cands pr) (flat (remaining st)) /\ NoDup (cands pr)).
Proof.
  intros p s s' sts Hdom H.
  destruct (dominating_run cand ceqb ceqb_spec p s Hdom)
    as [top [rest [s0 [s1 [Ht [Hrun [_ [_ [_ [_ [He1 [_ [Hm1 Hp]]]]]]]]]]]]].
  rewrite Hrun in H. inversion H; subst sts s'. clear H. split; [reflexivity|].
  cbn [Rules.run_rule] in Hrun. unfold Rules.run_dominating in Hrun.
  apply C09_queries.mbind_lift_inv in Hrun. destruct Hrun as [u [_ Hrun]].
  apply C09_queries.mbind_lift_inv in Hrun. destruct Hrun as [t [Et Hrun]].
  rewrite Ht in Et. inversion Et; subst t. clear Et.
  apply C09_queries.mbind_lift_inv in Hrun. destruct Hrun as [np [Hnp Hrun]].
  unfold mret, ok in Hrun. inversion Hrun; subst s0 s1. clear Hrun.
  eexists _, _, top, rest, np. split; [reflexivity|]. split; [exact Ht|].
  split; [reflexivity|]. split; [reflexivity|]. split; [reflexivity|].
  split; [repeat constructor|]. split; [exact Hnp|].
  assert (Hperm : Permutation (top ++ flat rest) (cands p)).
  { destruct (Hp 1%nat ltac:(cbn; lia)) as [e [m [x [[He [Hm Hx]] Hperm]]]].
    change (Z.of_nat 1) with 1%Z in He, Hm, Hx.
    rewrite He1 in He. rewrite Hm1 in Hm. cbn in Hx.
    inversion He; inversion Hm; inversion Hx; subst.
    cbn [Core.flat concat] in Hperm. rewrite !app_nil_r in Hperm. exact Hperm. }
  intros i Hin. destruct (norm_index_in 2 i Hin) as [En Hlt].
  assert (Hgen : forall sx : mstate, get_profile RDominating p
             [all_tied_state cand p; mkState 1 rest [top] (no_group cand) [] []] i sx
           = replay_steps RDominating p p (firstn (round_of 2 i)
               [all_tied_state cand p; mkState 1 rest [top] (no_group cand) [] []]) sx).
  { intros sx. apply get_profile_generic; [discriminate|discriminate|exact En]. }
  destruct (round_of 2 i) as [|[|k]]; [| |lia].
  - exists p, (all_tied_state cand p). split; [reflexivity|]. split; [reflexivity|].
    split; [intros sx; rewrite Hgen; reflexivity|]. split; [reflexivity|].
    intros _. cbn [all_tied_state remaining Core.flat concat]. rewrite app_nil_r.
    split; [apply Permutation_refl|exact (proj1 Hdom)].
  - eexists np, _. split; [reflexivity|]. split; [reflexivity|]. split.
    + intros sx. rewrite Hgen. cbn [firstn Election.replay_steps]. unfold Election.replay_step.
      cbn [one_shot_kind]. unfold mbind at 1. rewrite mbind_mlift, Ht. unfold mlift at 1. rewrite Hnp.
      reflexivity.
    + split; [reflexivity|]. cbn [remaining]. intros Hne.
      exact (removed_cands p np top (flat rest) true false (proj1 Hdom) Hperm Hne Hnp).
Qed.

(* ------------------------------------------------------------------ *)
(** * CondoBorda *)

Theorem condo_get_profile : forall m (p : profile) (s s' : mstate) sts,
  untied_profile p -> run_rule (RCondoBorda m) p s = inl (sts, s') ->
  exists s0 s1,
    sts = [s0; s1] /\ (tiebreaks s1 = [] -> s' = s) /\
    forall i, in_range 2 i -> Forall no_tiebreak (firstn (S (round_of 2 i)) sts) ->
      exists pr st,
        nth_error sts (round_of 2 i) = Some st /\
        (round_of 2 i = 0%nat -> pr = p) /\
        (round_of 2 i = 1%nat -> remove_cand_prof (flat (elected st)) true false p = inl pr) /\
        (forall sx : mstate, get_profile (RCondoBorda m) p sts i sx = inl (pr, sx)) /\
        borda_scores pr = inl (escores st) /\
        (flat (remaining st) <> [] ->
         Permutation (cands pr) (flat (remaining st)) /\ NoDup (cands pr)).
Proof.
  intros m p s s' sts Hdom H. cbn [Rules.run_rule] in H.
  destruct (C10_quiet.run_condo_inv cand ceqb m p s s' sts H) as [s0 [np [s1 [_ [H0 [Hstep ->]]]]]].
  destruct (C10_quiet.condo_step_inv cand ceqb m p s s' np s1 Hstep)
    as [tiers [el [rem [t [d [Htiers [Hel [Hnp [Hd Es1]]]]]]]]].
  unfold Rules.round0 in H0. cbn [Rules.score_fn] in H0.
  destruct (borda_scores p) as [d0|e] eqn:Ed0; [|discriminate]. cbn [rbind] in H0.
  unfold ok in H0. inversion H0 as [Es0]. clear H0.
  set (s0' := state_of_scores cand 0 (no_group cand) (no_group cand) [] d0) in *.
  exists s0', s1. split; [reflexivity|]. split.
  { intros Hq. rewrite Es1 in Hq. cbn [tiebreaks] in Hq. apply tb_list_nil in Hq. subst t.
    exact (elect_top_m_quiet cand ceqb _ _ _ _ _ _ _ _ Hel). }
  intros i Hin Hq. destruct (norm_index_in 2 i Hin) as [En Hlt].
  assert (Hgen : forall sx : mstate, get_profile (RCondoBorda m) p [s0'; s1] i sx
           = replay_steps (RCondoBorda m) p p (firstn (round_of 2 i) [s0'; s1]) sx).
  { intros sx. apply get_profile_generic; [discriminate|discriminate|exact En]. }
  destruct (round_of 2 i) as [|[|k]]; [| |lia].
  - exists p, s0'. split; [reflexivity|]. split; [reflexivity|]. split; [discriminate|].
    split; [intros sx; rewrite Hgen; reflexivity|]. split; [exact Ed0|].
    intros _. unfold s0'. cbn [STV.state_of_scores remaining]. split; [|exact (proj1 Hdom)].
    rewrite <- (score_fn_keys cand ceqb SKBorda p d0 Ed0). apply Permutation_sym.
    apply score_to_ranking_flat_perm_all.
  - cbn [firstn] in Hq. apply Forall_cons_inv in Hq. destruct Hq as [_ Hq].
    apply Forall_cons_inv in Hq. destruct Hq as [Hq1 _].
    unfold TieSpec.no_tiebreak in Hq1. rewrite Es1 in Hq1. cbn [tiebreaks] in Hq1.
    apply tb_list_nil in Hq1. subst t.
    pose proof (elect_top_m_quiet cand ceqb _ _ _ _ _ _ _ _ Hel) as E. subst s'.
    destruct (elect_top_m_shape cand ceqb _ _ _ _ _ _ _ _ _ Hel) as [_ [Hshape|Hshape]].
    2:{ destruct Hshape as [pre [g [post [t [kind [k' [_ [_ [_ [_ [_ [_ [_ [_ Hc]]]]]]]]]]]]]].
        discriminate. }
    destruct Hshape as [_ [_ [Hsplit _]]].
    exists np, s1. split; [reflexivity|]. split; [discriminate|].
    split; [intros _; rewrite Es1; exact Hnp|]. split.
    + intros sx. rewrite Hgen. cbn [firstn Election.replay_steps]. unfold Election.replay_step.
      cbn [one_shot_kind]. unfold mbind at 1. rewrite mbind_mlift, Htiers. unfold mbind at 1.
      rewrite (local_no_draw_state cand _ _ (Local_elect_top_m cand ceqb _ _ _ _) _ _ Hel sx).
      unfold mlift. rewrite Hnp. reflexivity.
    + split; [rewrite Es1; exact Hd|]. rewrite Es1. cbn [remaining]. intros Hne.
      apply (removed_cands p np (flat el) (flat rem) true false (proj1 Hdom)); [|exact Hne|exact Hnp].
      rewrite <- flat_app, Hsplit.
      exact (proj1 (c06_tiers_partition_proof cand ceqb ceqb_spec p Hdom tiers Htiers)).
Qed.

End Replay2.
