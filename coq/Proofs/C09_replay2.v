(* Proofs/C09_replay2.v — C09, get_profile consistency for the rules and rounds not covered by
   Proofs/C09_queries.v (one-shot rules) and Proofs/C09_replay.v (STV family, TopTwo / Alaska with
   no tiebreak anywhere): DominatingSets, CondoBorda, TopTwo and the first stage of Alaska with
   "no tiebreak up to the round asked for", the refutation of that weakening for the STV rounds of
   Alaska, and STV with ANY transfer rule (the random one included) on rounds before any draw. *)
From Coq Require Import List ZArith QArith Bool Permutation Lia.
From VK Require Import Base Core STV Pairwise Rules PV Election Election2.
From VK.Spec Require Import STVSpec QuerySpec TieSpec ScoreSpec PairwiseSpec RunSpec ReplaySpec QuietSpec.
From VK.Proofs Require Import Lib_sets C04_scoring Elect C10_script C10_quiet C09_queries
  STV_inv C20_validation C05_rating C12_edit C13_composite C09_replay C06_tiers C01_rules C09_status.
Import ListNotations.

Section Replay2.
Variable cand : Type.
Variable ceqb : cand -> cand -> bool.
Hypothesis ceqb_spec : forall a b, reflect (a = b) (ceqb a b).

Notation cset := (cset cand).
Notation ranking := (ranking cand).
Notation profile := (profile cand).
Notation scores := (scores cand).
Notation estate := (estate cand).
Notation mstate := (mstate cand).
Notation M := (M cand).
Notation flat := (flat cand).
Notation state_of := (state_of cand ceqb).
Notation stv_trace := (stv_trace cand ceqb).
Notation stv_init := (stv_init cand).
Notation stv_step := (stv_step cand ceqb).
Notation stv_replay := (stv_replay cand ceqb).
Notation run_stv := (run_stv cand ceqb).
Notation run_rule := (run_rule cand ceqb).
Notation run_plurality := (run_plurality cand ceqb).
Notation run_toptwo := (run_toptwo cand ceqb).
Notation run_alaska := (run_alaska cand ceqb).
Notation plurality_stage := (plurality_stage cand ceqb).
Notation one_shot_step := (one_shot_step cand ceqb).
Notation count_elected := (count_elected cand).
Notation first_place_votes := (first_place_votes cand ceqb).
Notation borda_scores := (borda_scores cand ceqb).
Notation dominating_tiers := (dominating_tiers cand ceqb).
Notation score_to_ranking := (score_to_ranking cand).
Notation remove_cand_prof := (remove_cand_prof cand ceqb).
Notation replay_step := (replay_step cand ceqb).
Notation replay_steps := (replay_steps cand ceqb).
Notation get_profile := (get_profile cand ceqb).
Notation no_tiebreak := (no_tiebreak cand).
Notation untied_profile := (untied_profile cand).
Notation quiet_round := (quiet_round cand).

(* ------------------------------------------------------------------ *)
(** * candidates of a profile after a removal *)

Lemma removed_cands : forall (p np : profile) (a b : cset) cf lz,
  NoDup (cands p) -> Permutation (a ++ b) (cands p) -> b <> [] ->
  remove_cand_prof a cf lz p = inl np ->
  Permutation (cands np) b /\ NoDup (cands np).
Proof.
  intros p np a b cf lz Hnd Hperm Hb Hnp.
  destruct (diff_perm cand ceqb ceqb_spec (cands p) a b Hnd Hperm Hb) as [Hdne Hmem].
  destruct (C12_edit.remove_prof_cands cand ceqb ceqb_spec a cf lz p Hnd) as [np' [Hnp' [_ [Hc _]]]].
  rewrite Hnp in Hnp'. inversion Hnp'; subst np'. destruct (Hc Hdne) as [Hcands [Hndnp _]].
  split; [|exact Hndnp].
  apply NoDup_Permutation; [exact Hndnp| |intros c; rewrite Hcands; apply Hmem].
  assert (Hndab : NoDup (a ++ b)).
  { eapply Permutation_NoDup; [apply Permutation_sym; exact Hperm|exact Hnd]. }
  destruct (Lib_sets.NoDup_app_inv _ _ Hndab) as [_ [Hndb _]]. exact Hndb.
Qed.

(* the rules whose get_profile is the generic replay *)
Lemma get_profile_generic : forall r (p : profile) (sts : list estate) i k,
  (forall cfg, r <> RSTV cfg) -> (forall m1 m2 cfg, r <> RAlaska m1 m2 cfg) ->
  norm_index (length sts) i = inl k ->
  forall sx : mstate, get_profile r p sts i sx = replay_steps r p p (firstn k sts) sx.
Proof.
  intros r p sts i k H1 H2 En sx. unfold Election.get_profile. rewrite mbind_mlift, En.
  destruct r; try reflexivity.
  - exfalso. exact (H1 cfg eq_refl).
  - exfalso. exact (H2 m1 m2 cfg eq_refl).
Qed.

(* ------------------------------------------------------------------ *)
(** * DominatingSets *)

Theorem dominating_get_profile : forall (p : profile) (s s' : mstate) sts,
  untied_profile p -> run_rule RDominating p s = inl (sts, s') ->
  s' = s /\
  exists s0 s1 top rest np,
    sts = [s0; s1] /\ dominating_tiers p = inl (top :: rest) /\
    remaining s0 = [cands p] /\ elected s1 = [top] /\ remaining s1 = rest /\
    Forall no_tiebreak sts /\
    remove_cand_prof top true false p = inl np /\
    forall i, in_range 2 i ->
      exists pr st, nth_error [p; np] (round_of 2 i) = Some pr /\
        nth_error sts (round_of 2 i) = Some st /\
        (forall sx : mstate, get_profile RDominating p sts i sx = inl (pr, sx)) /\
        escores st = [] /\
        (flat (remaining st) <> [] ->
         Permutation (cands pr) (flat (remaining st)) /\ NoDup (cands pr)).
Proof.
  intros p s s' sts Hdom H.
  destruct (dominating_run cand ceqb ceqb_spec p s Hdom)
    as [top [rest [s0 [s1 [Ht [Hrun [_ [_ [_ [_ [He1 [_ [Hm1 Hp]]]]]]]]]]]]].
  rewrite Hrun in H. inversion H; subst sts s'. clear H. split; [reflexivity|].
  cbn [Rules.run_rule] in Hrun. unfold Rules.run_dominating in Hrun.
  apply C09_queries.mbind_lift_inv in Hrun. destruct Hrun as [u [_ Hrun]].
  apply C09_queries.mbind_lift_inv in Hrun. destruct Hrun as [t [Et Hrun]].
  rewrite Ht in Et. inversion Et; subst t. clear Et.
  apply C09_queries.mbind_lift_inv in Hrun. destruct Hrun as [np [Hnp Hrun]].
  unfold mret, ok in Hrun. inversion Hrun; subst s0 s1. clear Hrun.
  eexists _, _, top, rest, np. split; [reflexivity|]. split; [exact Ht|].
  split; [reflexivity|]. split; [reflexivity|]. split; [reflexivity|].
  split; [repeat constructor|]. split; [exact Hnp|].
  assert (Hperm : Permutation (top ++ flat rest) (cands p)).
  { destruct (Hp 1%nat ltac:(cbn; lia)) as [e [m [x [[He [Hm Hx]] Hperm]]]].
    change (Z.of_nat 1) with 1%Z in He, Hm, Hx.
    rewrite He1 in He. rewrite Hm1 in Hm. cbn in Hx.
    inversion He; inversion Hm; inversion Hx; subst.
    cbn [Core.flat concat] in Hperm. rewrite !app_nil_r in Hperm. exact Hperm. }
  intros i Hin. destruct (norm_index_in 2 i Hin) as [En Hlt].
  assert (Hgen : forall sx : mstate, get_profile RDominating p
             [all_tied_state cand p; mkState 1 rest [top] (no_group cand) [] []] i sx
           = replay_steps RDominating p p (firstn (round_of 2 i)
               [all_tied_state cand p; mkState 1 rest [top] (no_group cand) [] []]) sx).
  { intros sx. apply get_profile_generic; [discriminate|discriminate|exact En]. }
  destruct (round_of 2 i) as [|[|k]]; [| |lia].
  - exists p, (all_tied_state cand p). split; [reflexivity|]. split; [reflexivity|].
    split; [intros sx; rewrite Hgen; reflexivity|]. split; [reflexivity|].
    intros _. cbn [all_tied_state remaining Core.flat concat]. rewrite app_nil_r.
    split; [apply Permutation_refl|exact (proj1 Hdom)].
  - eexists np, _. split; [reflexivity|]. split; [reflexivity|]. split.
    + intros sx. rewrite Hgen. cbn [firstn Election.replay_steps]. unfold Election.replay_step.
      cbn [one_shot_kind]. unfold mbind at 1. rewrite mbind_mlift, Ht. unfold mlift at 1. rewrite Hnp.
      reflexivity.
    + split; [reflexivity|]. cbn [remaining]. intros Hne.
      exact (removed_cands p np top (flat rest) true false (proj1 Hdom) Hperm Hne Hnp).
Qed.

(* ------------------------------------------------------------------ *)
(** * CondoBorda *)

Theorem condo_get_profile : forall m (p : profile) (s s' : mstate) sts,
  untied_profile p -> run_rule (RCondoBorda m) p s = inl (sts, s') ->
  exists s0 s1,
    sts = [s0; s1] /\ (tiebreaks s1 = [] -> s' = s) /\
    forall i, in_range 2 i -> Forall no_tiebreak (firstn (S (round_of 2 i)) sts) ->
      exists pr st,
        nth_error sts (round_of 2 i) = Some st /\
        (round_of 2 i = 0%nat -> pr = p) /\
        (round_of 2 i = 1%nat -> remove_cand_prof (flat (elected st)) true false p = inl pr) /\
        (forall sx : mstate, get_profile (RCondoBorda m) p sts i sx = inl (pr, sx)) /\
        borda_scores pr = inl (escores st) /\
        (flat (remaining st) <> [] ->
         Permutation (cands pr) (flat (remaining st)) /\ NoDup (cands pr)).
Proof.
  intros m p s s' sts Hdom H. cbn [Rules.run_rule] in H.
  destruct (C10_quiet.run_condo_inv cand ceqb m p s s' sts H) as [s0 [np [s1 [_ [H0 [Hstep ->]]]]]].
  destruct (C10_quiet.condo_step_inv cand ceqb m p s s' np s1 Hstep)
    as [tiers [el [rem [t [d [Htiers [Hel [Hnp [Hd Es1]]]]]]]]].
  unfold Rules.round0 in H0. cbn [Rules.score_fn] in H0.
  destruct (borda_scores p) as [d0|e] eqn:Ed0; [|discriminate]. cbn [rbind] in H0.
  unfold ok in H0. inversion H0 as [Es0]. clear H0.
  set (s0' := state_of_scores cand 0 (no_group cand) (no_group cand) [] d0) in *.
  exists s0', s1. split; [reflexivity|]. split.
  { intros Hq. rewrite Es1 in Hq. cbn [tiebreaks] in Hq. apply tb_list_nil in Hq. subst t.
    exact (elect_top_m_quiet cand ceqb _ _ _ _ _ _ _ _ Hel). }
  intros i Hin Hq. destruct (norm_index_in 2 i Hin) as [En Hlt].
  assert (Hgen : forall sx : mstate, get_profile (RCondoBorda m) p [s0'; s1] i sx
           = replay_steps (RCondoBorda m) p p (firstn (round_of 2 i) [s0'; s1]) sx).
  { intros sx. apply get_profile_generic; [discriminate|discriminate|exact En]. }
  destruct (round_of 2 i) as [|[|k]]; [| |lia].
  - exists p, s0'. split; [reflexivity|]. split; [reflexivity|]. split; [discriminate|].
    split; [intros sx; rewrite Hgen; reflexivity|]. split; [exact Ed0|].
    intros _. unfold s0'. cbn [STV.state_of_scores remaining]. split; [|exact (proj1 Hdom)].
    rewrite <- (score_fn_keys cand ceqb SKBorda p d0 Ed0). apply Permutation_sym.
    apply score_to_ranking_flat_perm_all.
  - cbn [firstn] in Hq. apply Forall_cons_inv in Hq. destruct Hq as [_ Hq].
    apply Forall_cons_inv in Hq. destruct Hq as [Hq1 _].
    unfold TieSpec.no_tiebreak in Hq1. rewrite Es1 in Hq1. cbn [tiebreaks] in Hq1.
    apply tb_list_nil in Hq1. subst t.
    pose proof (elect_top_m_quiet cand ceqb _ _ _ _ _ _ _ _ Hel) as E. subst s'.
    destruct (elect_top_m_shape cand ceqb _ _ _ _ _ _ _ _ _ Hel) as [_ [Hshape|Hshape]].
    2:{ destruct Hshape as [pre [g [post [t [kind [k' [_ [_ [_ [_ [_ [_ [_ [_ Hc]]]]]]]]]]]]]].
        discriminate. }
    destruct Hshape as [_ [_ [Hsplit _]]].
    exists np, s1. split; [reflexivity|]. split; [discriminate|].
    split; [intros _; rewrite Es1; exact Hnp|]. split.
    + intros sx. rewrite Hgen. cbn [firstn Election.replay_steps]. unfold Election.replay_step.
      cbn [one_shot_kind]. unfold mbind at 1. rewrite mbind_mlift, Htiers. unfold mbind at 1.
      rewrite (local_no_draw_state cand _ _ (Local_elect_top_m cand ceqb _ _ _ _) _ _ Hel sx).
      unfold mlift. rewrite Hnp. reflexivity.
    + split; [rewrite Es1; exact Hd|]. rewrite Es1. cbn [remaining]. intros Hne.
      apply (removed_cands p np (flat el) (flat rem) true false (proj1 Hdom)); [|exact Hne|exact Hnp].
      rewrite <- flat_app, Hsplit.
      exact (proj1 (c06_tiers_partition_proof cand ceqb ceqb_spec p Hdom tiers Htiers)).
Qed.

(* ------------------------------------------------------------------ *)
(** * TopTwo: only the rounds up to the one asked for must be free of tiebreaks *)

Theorem toptwo_get_profile_upto : forall tb (p : profile) (s s' : mstate) sts,
  NoDup (cands p) -> run_toptwo tb p s = inl (sts, s') ->
  exists s0 s1 s2 p1,
    sts = [s0; s1; s2] /\
    remove_cand_prof (flat (eliminated s1)) true false p = inl p1 /\
    forall i, in_range 3 i -> Forall no_tiebreak (firstn (S (round_of 3 i)) sts) ->
      exists pr st,
        nth_error sts (round_of 3 i) = Some st /\
        (round_of 3 i = 0%nat -> pr = p) /\ (round_of 3 i = 1%nat -> pr = p1) /\
        (round_of 3 i = 2%nat -> remove_cand_prof (flat (elected st)) true false p1 = inl pr) /\
        (forall sx : mstate, get_profile (RTopTwo tb) p sts i sx = inl (pr, sx)) /\
        first_place_votes pr = inl (escores st) /\
        Permutation (cands pr) (flat (remaining st)).
Proof.
  intros tb p s s' sts Hnd H. apply c13_toptwo_proof in H.
  destruct H as [s0 [p1 [s1 [sa [q0 [q1 [sb [x [H1 [H2 [H3 [H4 [H5 ->]]]]]]]]]]]]].
  destruct (plurality_stage_spec cand ceqb ceqb_spec _ _ _ _ _ _ _ _ Hnd H3)
    as [d0 [el [rem [t [r0 [r1 [_ [_ [_ [_ [Hd0 [_ [_ [_ [_ [Hnp [Hd1 [Hr1 [Hrem1
        [_ [Helim1 [_ [Hperm [Hndp1 Hlen]]]]]]]]]]]]]]]]]]]]]]]].
  destruct (round0_fpv cand ceqb p s0 H2) as [Hst0 Hrnd0].
  set (s2 := mkState 2 (remaining q1) (elected q1) (eliminated q1) (tiebreaks q1) (escores q1)).
  exists s0, s1, s2, p1. split; [reflexivity|]. split; [rewrite Helim1; exact Hnp|].
  intros i Hin Hq. destruct (norm_index_in 3 i Hin) as [En Hlt].
  assert (Hgen : forall sx : mstate, get_profile (RTopTwo tb) p [s0; s1; s2] i sx
           = replay_steps (RTopTwo tb) p p (firstn (round_of 3 i) [s0; s1; s2]) sx).
  { intros sx. apply get_profile_generic; [discriminate|discriminate|exact En]. }
  destruct (round_of 3 i) as [|[|[|r]]]; [| | |lia].
  - exists p, s0. split; [reflexivity|]. split; [reflexivity|]. split; [discriminate|].
    split; [discriminate|]. split; [intros sx; rewrite Hgen; reflexivity|].
    split; [exact (proj1 Hst0)|apply (state_of_cands cand ceqb); exact Hst0].
  - cbn [firstn] in Hq. apply Forall_cons_inv in Hq. destruct Hq as [_ Hq].
    apply Forall_cons_inv in Hq. destruct Hq as [Hq1 _].
    pose proof (plurality_stage_quiet _ _ _ _ _ _ _ _ _ _ H3 Hq1) as E. subst sa.
    assert (Hstage : forall sx : mstate, plurality_stage 2 tb p s0 sx = inl ((p1, s1), sx)).
    { intros sx. exact (local_no_draw_state cand _ _ (Local_plurality_stage cand ceqb _ _ _ _) _ _ H3 sx). }
    exists p1, s1. split; [reflexivity|]. split; [discriminate|]. split; [reflexivity|].
    split; [discriminate|]. split.
    + intros sx. rewrite Hgen. cbn [firstn Election.replay_steps]. unfold mbind.
      rewrite (toptwo_step0 cand ceqb tb p p1 s0 s1 sx Hrnd0 (Hstage sx)). reflexivity.
    + split; [exact Hd1|rewrite Hrem1; exact Hperm].
  - cbn [firstn] in Hq. apply Forall_cons_inv in Hq. destruct Hq as [_ Hq].
    apply Forall_cons_inv in Hq. destruct Hq as [Hq1 Hq].
    apply Forall_cons_inv in Hq. destruct Hq as [Hq2 _].
    unfold TieSpec.no_tiebreak in Hq2. cbn [s2 tiebreaks] in Hq2.
    pose proof (plurality_stage_quiet _ _ _ _ _ _ _ _ _ _ H3 Hq1) as E. subst sa.
    assert (Hstage : forall sx : mstate, plurality_stage 2 tb p s0 sx = inl ((p1, s1), sx)).
    { intros sx. exact (local_no_draw_state cand _ _ (Local_plurality_stage cand ceqb _ _ _ _) _ _ H3 sx). }
    destruct (plurality_last_stage cand ceqb ceqb_spec 1 tb p1 s sb q0 q1 Hndp1 ltac:(lia) H4 Hq2)
      as [E [p2 [Hstep [Hnp2 [Hd2 Hperm2]]]]]. subst sb.
    assert (Hplur : forall sx : mstate, run_plurality 1 tb p1 sx = inl ([q0; q1], sx)).
    { intros sx. exact (local_no_draw_state cand _ _ (Local_run_plurality cand ceqb _ _ _) _ _ H4 sx). }
    exists p2, s2. split; [reflexivity|]. split; [discriminate|]. split; [discriminate|].
    split; [intros _; exact Hnp2|]. split.
    + intros sx. rewrite Hgen. cbn [firstn Election.replay_steps]. unfold mbind.
      rewrite (toptwo_step0 cand ceqb tb p p1 s0 s1 sx Hrnd0 (Hstage sx)).
      rewrite (toptwo_step1 cand ceqb tb p p1 p2 s1 q0 q1 sx ltac:(rewrite Hr1, Hrnd0; reflexivity)
                 (Hplur sx) (Hstep sx)).
      reflexivity.
    + split; [exact Hd2|exact Hperm2].
Qed.

(* ------------------------------------------------------------------ *)
(** * Alaska, rounds 0 and 1: any transfer rule, only the Plurality stage must be free of tiebreaks *)

Theorem alaska_get_profile_stage : forall m1 m2 cfg (p : profile) (s s' : mstate) sts,
  NoDup (cands p) -> run_alaska m1 m2 cfg p s = inl (sts, s') ->
  exists s0 s1 rest p1,
    sts = s0 :: s1 :: rest /\
    remove_cand_prof (flat (eliminated s1)) true false p = inl p1 /\
    forall i, in_range (length sts) i -> (round_of (length sts) i <= 1)%nat ->
      Forall no_tiebreak (firstn (S (round_of (length sts) i)) sts) ->
      exists pr st,
        nth_error [p; p1] (round_of (length sts) i) = Some pr /\
        nth_error sts (round_of (length sts) i) = Some st /\
        (forall sx : mstate, get_profile (RAlaska m1 m2 cfg) p sts i sx = inl (pr, sx)) /\
        first_place_votes pr = inl (escores st) /\
        Permutation (cands pr) (flat (remaining st)).
Proof.
  intros m1 m2 cfg p s s' sts Hnd H. apply c13_alaska_proof in H.
  destruct H as [s0 [p1 [s1 [sa [t [ssts [sb [pf [_ [_ [H3 [H4 [_ [_ [_ ->]]]]]]]]]]]]]]].
  destruct (plurality_stage_spec cand ceqb ceqb_spec _ _ _ _ _ _ _ _ Hnd H4)
    as [d0 [el [rem [tt0 [r0 [r1 [_ [_ [_ [_ [Hd0 [_ [_ [_ [_ [Hnp [Hd1 [Hr1 [Hrem1
        [_ [Helim1 [_ [Hperm [Hndp1 Hlen]]]]]]]]]]]]]]]]]]]]]]]].
  destruct (round0_fpv cand ceqb p s0 H3) as [Hst0 Hrnd0].
  exists s0, s1, (map (bump cand) (tl ssts)), p1. split; [reflexivity|].
  split; [rewrite Helim1; exact Hnp|].
  set (sts := s0 :: s1 :: map (bump cand) (tl ssts)) in *.
  intros i Hin Hle Hq. destruct (norm_index_in _ i Hin) as [En Hlt].
  destruct (round_of (length sts) i) as [|[|k]]; [| |lia].
  - exists p, s0. split; [reflexivity|]. split; [reflexivity|]. split.
    + intros sx. unfold Election.get_profile. rewrite mbind_mlift, En. reflexivity.
    + split; [exact (proj1 Hst0)|apply (state_of_cands cand ceqb); exact Hst0].
  - unfold sts in Hq. cbn [firstn] in Hq. apply Forall_cons_inv in Hq. destruct Hq as [_ Hq].
    apply Forall_cons_inv in Hq. destruct Hq as [Hq1 _].
    pose proof (plurality_stage_quiet _ _ _ _ _ _ _ _ _ _ H4 Hq1) as E. subst sa.
    assert (Hstage : forall sx : mstate,
              plurality_stage m1 (s_tiebreak cfg) p s0 sx = inl ((p1, s1), sx)).
    { intros sx. exact (local_no_draw_state cand _ _ (Local_plurality_stage cand ceqb _ _ _ _) _ _ H4 sx). }
    exists p1, s1. split; [reflexivity|]. split; [reflexivity|]. split.
    + intros sx. unfold Election.get_profile. rewrite mbind_mlift, En.
      unfold sts. cbn [firstn Election.replay_steps]. unfold mbind.
      rewrite (alaska_step0 cand ceqb m1 m2 cfg p p1 s0 s1 sx (Hstage sx)). reflexivity.
    + split; [exact Hd1|rewrite Hrem1; exact Hperm].
Qed.

(* ------------------------------------------------------------------ *)
(** * STV with any transfer rule: a quiet round consumes nothing *)

Lemma simultaneous_elect_nobody : forall cfg t (p : profile) prev (s s' : mstate) el np,
  simultaneous_elect cand ceqb cfg t p prev s = inl ((el, np), s') -> flat el = [] -> s' = s.
Proof.
  intros cfg t p prev s s' el np H Hnil. unfold STV.simultaneous_elect in H.
  apply C10_quiet.mbind_lift_inv in H. destruct H as [el0 [_ H]].
  apply C10_quiet.mbind_lift_inv in H. destruct H as [[] [_ H]]. cbv zeta in H.
  apply mbind_ok_inv in H. destruct H as [moved [s1 [Hm H]]].
  destruct (negb (subsetb cand ceqb _ (cands p))); [discriminate|].
  apply C10_quiet.mbind_lift_inv in H. destruct H as [np' [_ H]].
  apply mret_ok_inv in H. destruct H as [Heq ->]. inversion Heq; subst el0 np'.
  rewrite Hnil in Hm. cbn [STV.transfer_all] in Hm. apply mret_ok_inv in Hm. exact (proj2 Hm).
Qed.

Lemma stv_step_quiet_gen : forall cfg t p0 n (p : profile) prev (s s' : mstate) np st,
  stv_step cfg t p0 n p prev s = inl ((np, st), s') -> quiet_round cfg st -> s' = s.
Proof.
  intros cfg t p0 n p prev s s' np st H [Hq Hr].
  destruct (s_transfer cfg) eqn:Hk.
  - apply (stv_step_quiet cand ceqb cfg t p0 n p prev s s' np st); [rewrite Hk; discriminate|exact H|exact Hq].
  - specialize (Hr eq_refl). unfold STV.stv_step in H. cbv zeta in H.
    apply mbind_ok_inv in H. destruct H as [[[[el elim] tbs] np0] [s1 [Hb H]]].
    apply C10_quiet.mbind_lift_inv in H. destruct H as [d [Hd H]].
    apply mret_ok_inv in H. destruct H as [Heq ->]. inversion Heq; subst np0 st. clear Heq.
    cbn [STV.state_of_scores tiebreaks elected] in Hq, Hr. subst tbs.
    destruct (filter (fun q => Qle_bool t (snd q)) (escores prev)) as [|q0 above].
    + destruct (Z.eqb _ _).
      * apply mret_ok_inv in Hb. exact (proj2 Hb).
      * destruct (rev (remaining prev)) as [|lowest rest]; [discriminate|].
        apply mbind_ok_inv in Hb. destruct Hb as [[x tbs0] [s2 [Hx Hb]]].
        apply C10_quiet.mbind_lift_inv in Hb. destruct Hb as [np1 [_ Hb]].
        apply mret_ok_inv in Hb. destruct Hb as [Heq ->]. inversion Heq; subst. clear Heq.
        destruct lowest as [|c [|c' g]]; [discriminate| |].
        -- apply mret_ok_inv in Hx. exact (proj2 Hx).
        -- apply mbind_ok_inv in Hx. destruct Hx as [tb [s3 [_ Hx]]].
           destruct (rev tb) as [|[|c0 g0] rest0]; discriminate.
    + destruct (s_simul cfg).
      * apply mbind_ok_inv in Hb. destruct Hb as [[el0 np1] [s2 [Hs Hb]]].
        apply mret_ok_inv in Hb. destruct Hb as [Heq ->]. inversion Heq; subst. clear Heq.
        exact (simultaneous_elect_nobody _ _ _ _ _ _ _ _ Hs Hr).
      * exfalso. apply mbind_ok_inv in Hb. destruct Hb as [[[el0 tbs0] np1] [s2 [Hs Hb]]].
        apply mret_ok_inv in Hb. destruct Hb as [Heq ->]. inversion Heq; subst. clear Heq.
        unfold STV.single_elect in Hs.
        apply mbind_ok_inv in Hs. destruct Hs as [[[el1 rem] tb] [s1 [_ Hs]]]. cbv zeta in Hs.
        apply C10_quiet.mbind_lift_inv in Hs. destruct Hs as [[] [_ Hs]].
        destruct el1 as [|[|w g] el']; try discriminate.
        destruct (negb (memb cand ceqb w (cands p))); [discriminate|].
        apply mbind_ok_inv in Hs. destruct Hs as [moved [s3 [_ Hs]]].
        destruct (negb (subsetb cand ceqb (flat rem) (cands p))); [discriminate|].
        apply C10_quiet.mbind_lift_inv in Hs. destruct Hs as [np' [_ Hs]].
        apply mret_ok_inv in Hs. destruct Hs as [Heq _]. inversion Heq; subst. discriminate.
  - apply (stv_step_quiet cand ceqb cfg t p0 n p prev s s' np st); [rewrite Hk; discriminate|exact H|exact Hq].
Qed.

Lemma replay_from_gen : forall cfg t (p0 : profile) sts ps ss,
  stv_trace cfg t p0 sts ps ss ->
  forall n j pj pjn,
    nth_error ps j = Some pj -> nth_error ps (j + n) = Some pjn ->
    (forall i st, (j < i <= j + n)%nat -> nth_error sts i = Some st -> quiet_round cfg st) ->
    forall s2 : mstate,
      stv_replay cfg t p0 (firstn j sts) pj (firstn n (skipn j sts)) s2 = inl (pjn, s2).
Proof.
  intros cfg t p0 sts ps ss [Hlp [Hls [Hso Hstep]]].
  induction n as [|n IH]; intros j pj pjn Hpj Hpjn Hq s2.
  - rewrite Nat.add_0_r in Hpjn. rewrite Hpj in Hpjn. inversion Hpjn; subst. reflexivity.
  - pose proof (nth_error_lt _ _ _ Hpjn) as Hlt.
    destruct (nth_error_ex sts j ltac:(lia)) as [stj Hstj].
    destruct (nth_error_ex sts (S j) ltac:(lia)) as [stj1 Hstj1].
    destruct (nth_error_ex ps (S j) ltac:(lia)) as [pj1 Hpj1].
    destruct (nth_error_ex ss j ltac:(lia)) as [sa Hsa].
    destruct (nth_error_ex ss (S j) ltac:(lia)) as [sb Hsb].
    pose proof (Hstep j pj stj sa pj1 stj1 sb Hpj Hstj Hsa Hpj1 Hstj1 Hsb) as Hs.
    assert (Hq1 : quiet_round cfg stj1) by (apply (Hq (S j)); [lia|exact Hstj1]).
    pose proof (stv_step_quiet_gen _ _ _ _ _ _ _ _ _ _ Hs Hq1) as Esb. subst sb.
    rewrite (skipn_nth_error sts j stj Hstj). cbn [firstn Rules.stv_replay].
    rewrite <- (firstn_S_nth_error sts j stj Hstj).
    unfold mbind at 1.
    rewrite (local_no_draw_state cand _ _ (Local_stv_step cand ceqb _ _ _ _ _ _) _ _ Hs s2).
    apply (IH (S j) pj1 pjn Hpj1).
    + replace (S j + n)%nat with (j + S n)%nat by lia. exact Hpjn.
    + intros i st Hi Hst. apply (Hq i st); [lia|exact Hst].
Qed.

(* STV, every transfer rule, every input on which the run succeeded: a round r such that rounds
   0..r are quiet is answered, from every state of the random source and leaving it untouched, by
   the profile the run had after round r *)
Theorem stv_get_profile_quiet : forall cfg (p : profile) (s s' : mstate) sts,
  run_stv cfg p s = inl (sts, s') ->
  forall i, in_range (length sts) i ->
  Forall (quiet_round cfg) (firstn (S (round_of (length sts) i)) sts) ->
  exists pr st,
    nth_error sts (round_of (length sts) i) = Some st /\
    (forall s2 : mstate, get_profile (RSTV cfg) p sts i s2 = inl (pr, s2)) /\
    Permutation (cands pr) (flat (remaining st)) /\
    first_place_votes pr = inl (escores st) /\
    score_to_ranking (escores st) true = remaining st.
Proof.
  intros cfg p s s' sts H i Hin Hq.
  destruct (stv_run_trace cand ceqb cfg p s s' sts H) as [t [ps [ss [Ht [Htr [Hp0 _]]]]]].
  destruct (norm_index_in _ _ Hin) as [En Hlt]. set (r := round_of (length sts) i) in *.
  pose proof Htr as [Hlp _].
  destruct (nth_error_ex ps r ltac:(lia)) as [pr Hpr].
  destruct (nth_error_ex sts r Hlt) as [st Hst].
  exists pr, st. split; [exact Hst|]. split.
  - intros s2. unfold Election.get_profile. rewrite mbind_mlift, En. rewrite mbind_mlift, Ht.
    apply (replay_from_gen cfg t p sts ps ss Htr r 0%nat p pr Hp0 Hpr).
    intros j stj Hj Hstj. apply (Forall_firstn_nth _ sts (S r) j stj Hq); [lia|exact Hstj].
  - destruct (stv_trace_rescoring cand ceqb cfg t p sts ps ss r pr st Htr Hpr Hst) as [Hd [Hrk Hperm]].
    split; [exact Hperm|]. split; [exact Hd|exact Hrk].
Qed.

(* the same through get_step: the profile and the record returned belong together *)
Theorem stv_get_step_quiet : forall cfg (p : profile) (s s' : mstate) sts,
  run_stv cfg p s = inl (sts, s') ->
  forall i, in_range (length sts) i ->
  Forall (quiet_round cfg) (firstn (S (round_of (length sts) i)) sts) ->
  exists pr st,
    (forall s2 : mstate, get_step cand ceqb (RSTV cfg) p sts i s2 = inl ((pr, st), s2)) /\
    nth_error sts (round_of (length sts) i) = Some st /\
    Permutation (cands pr) (flat (remaining st)) /\
    first_place_votes pr = inl (escores st).
Proof.
  intros cfg p s s' sts H i Hin Hq.
  destruct (stv_get_profile_quiet cfg p s s' sts H i Hin Hq) as [pr [st [Hst [Hget [Hperm [Hd _]]]]]].
  exists pr, st. split; [|split; [exact Hst|split; [exact Hperm|exact Hd]]].
  intros s2. apply (get_step_ok_iff cand ceqb). split; [exact (Hget s2)|exact Hst].
Qed.

End Replay2.
