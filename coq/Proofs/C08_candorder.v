(* Proofs/C08_candorder.v — property C08, "listing the candidates in a different order": every
   input domain is stable under permuting the candidate list, and the two profiles are equivalent,
   so candidate-order independence of each rule is a corollary of its anonymity theorem.
   Also: the concrete witnesses (computed) for the statements that fail at the edges. *)
From Coq Require Import List ZArith QArith Bool Permutation Lia Lqa Setoid Morphisms.
From VK Require Import Base Core STV Pairwise Rules PV.
From VK.Spec Require Import Content ScoreSpec EditSpec Anon AnonRules.
From VK.Proofs Require Import Lib_sets Lib_content Lib_condense C11_condense C04_scoring C12_edit
  C08_anon C08_stv C08_pairwise C08_rules C08_dictator C08_pv.
Import ListNotations.
Open Scope Q_scope.

Section CandOrder.
Variable cand : Type.
Variable ceqb : cand -> cand -> bool.
Hypothesis ceqb_spec : forall a b, reflect (a = b) (ceqb a b).

Notation cset := (cset cand).
Notation ballot := (ballot cand).
Notation profile := (profile cand).
Notation mstate := (mstate cand).
Notation flat := (flat cand).
Notation state_equiv := (state_equiv cand).
Notation profile_equiv := (profile_equiv cand ceqb).
Notation wf_profile := (wf_profile cand).
Notation dom := (one_shot_domain cand).
Notation stv_domain := (stv_domain cand).
Notation pw_domain := (pw_domain cand).
Notation rating_domain := (rating_domain cand).
Notation ddom := (dictator_domain cand).
Notation mres_equiv := (mres_equiv cand).
Notation mres_equiv_log := (mres_equiv_log cand ceqb).
Notation det_tiebreak := (det_tiebreak cand).

Lemma cand_order_equiv : forall (bs : list ballot) (cs cs' : cset), Permutation cs cs' ->
  profile_equiv (mkProfile bs cs) (mkProfile bs cs').
Proof. intros bs cs cs' H. split; [apply (dist_eq_refl cand ceqb)|exact H]. Qed.

Lemma wf_profile_perm : forall (bs : list ballot) cs cs', wf_profile (mkProfile bs cs) ->
  Permutation cs cs' -> wf_profile (mkProfile bs cs').
Proof.
  intros bs cs cs' [Hnd Hb] Hp. cbn [ballots cands] in *. split; cbn [ballots cands].
  - eapply Permutation_NoDup; eassumption.
  - rewrite Forall_forall in Hb |- *. intros b Hin. destruct (Hb b Hin) as [A [B [C D]]].
    repeat split; try assumption. intros c Hc. eapply Permutation_in; [exact Hp|apply D; exact Hc].
Qed.

Lemma dom_perm : forall k (bs : list ballot) cs cs', dom k (mkProfile bs cs) -> Permutation cs cs' ->
  dom k (mkProfile bs cs').
Proof.
  intros k bs cs cs' [Hn Hw] Hp. split; [exact Hn|]. cbn [ballots cands] in *.
  destruct k.
  1-3: destruct Hw as [Hwf Hsf]; split; [apply (wf_profile_perm bs cs cs' Hwf Hp)|exact Hsf].
  destruct Hw as [Hnd Hb]. split; cbn [ballots cands] in *; [eapply Permutation_NoDup; eassumption|].
  rewrite Forall_forall in Hb |- *. intros b Hin. destruct (Hb b Hin) as [A [B [C D]]].
  repeat split; try assumption. intros c Hc. eapply Permutation_in; [exact Hp|apply D; exact Hc].
Qed.

Lemma pw_domain_perm : forall (bs : list ballot) cs cs', pw_domain (mkProfile bs cs) -> Permutation cs cs' ->
  pw_domain (mkProfile bs cs').
Proof. intros bs cs cs' [Hw Hn] Hp. split; [apply (wf_profile_perm bs cs cs' Hw Hp)|exact Hn]. Qed.

Lemma stv_domain_perm : forall (bs : list ballot) cs cs', stv_domain (mkProfile bs cs) -> Permutation cs cs' ->
  stv_domain (mkProfile bs cs').
Proof.
  intros bs cs cs' [Hnd Hb] Hp. cbn [ballots cands] in *. split; cbn [ballots cands].
  - eapply Permutation_NoDup; eassumption.
  - apply (all_ok_weaken cand cs cs'); [|exact Hb]. intros c Hc. eapply Permutation_in; eassumption.
Qed.

Lemma rating_domain_perm : forall L k (bs : list ballot) cs cs', rating_domain L k (mkProfile bs cs) ->
  Permutation cs cs' -> rating_domain L k (mkProfile bs cs').
Proof. intros L k bs cs cs' [Hd Hz] Hp. split; [apply (dom_perm _ bs cs cs' Hd Hp)|exact Hz]. Qed.

Lemma ddom_perm : forall (bs : list ballot) cs cs', ddom (mkProfile bs cs) -> Permutation cs cs' ->
  ddom (mkProfile bs cs').
Proof. intros bs cs cs' [Hd Hz] Hp. split; [apply (dom_perm _ bs cs cs' Hd Hp)|exact Hz]. Qed.

(* ---- the corollaries ---- *)

Theorem pairwise_graph_cand_order : forall (bs : list ballot) cs cs',
  pw_domain (mkProfile bs cs) -> Permutation cs cs' ->
  res_equiv (pwc_equiv cand) (pairwise_graph cand ceqb (mkProfile bs cs))
                             (pairwise_graph cand ceqb (mkProfile bs cs')).
Proof.
  intros bs cs cs' Hd Hp. apply (pairwise_graph_anonymous cand ceqb ceqb_spec);
    [exact Hd|apply (pw_domain_perm bs cs cs' Hd Hp)|apply cand_order_equiv; exact Hp].
Qed.

Theorem dominating_cand_order : forall (bs : list ballot) cs cs' (s : mstate),
  pw_domain (mkProfile bs cs) -> Permutation cs cs' ->
  mres_equiv (Forall2 state_equiv) (run_rule cand ceqb RDominating (mkProfile bs cs) s)
                                   (run_rule cand ceqb RDominating (mkProfile bs cs') s).
Proof.
  intros bs cs cs' s Hd Hp. apply (dominating_anonymous cand ceqb ceqb_spec);
    [exact Hd|apply (pw_domain_perm bs cs cs' Hd Hp)|apply cand_order_equiv; exact Hp].
Qed.

Theorem condo_cand_order : forall m (bs : list ballot) cs cs' (s : mstate), scr s = [] ->
  dom SKBorda (mkProfile bs cs) -> Permutation cs cs' ->
  mres_equiv (Forall2 state_equiv) (run_rule cand ceqb (RCondoBorda m) (mkProfile bs cs) s)
                                   (run_rule cand ceqb (RCondoBorda m) (mkProfile bs cs') s).
Proof.
  intros m bs cs cs' s Hs Hd Hp. apply (condo_anonymous cand ceqb ceqb_spec);
    [exact Hs|exact Hd|apply (dom_perm _ bs cs cs' Hd Hp)|apply cand_order_equiv; exact Hp].
Qed.

Theorem one_shot_tiebreak_cand_order : forall k m tb (bs : list ballot) cs cs' (s : mstate),
  det_tiebreak k tb s -> dom k (mkProfile bs cs) -> Permutation cs cs' ->
  mres_equiv (Forall2 state_equiv) (run_one_shot cand ceqb k m tb (mkProfile bs cs) s)
                                   (run_one_shot cand ceqb k m tb (mkProfile bs cs') s).
Proof.
  intros k m tb bs cs cs' s Ht Hd Hp. apply (one_shot_tiebreak_anonymous cand ceqb ceqb_spec);
    [exact Ht|exact Hd|apply (dom_perm _ bs cs cs' Hd Hp)|apply cand_order_equiv; exact Hp].
Qed.

Theorem rating_cand_order : forall m L k (bs : list ballot) cs cs' (s : mstate),
  rating_domain L k (mkProfile bs cs) -> Permutation cs cs' ->
  mres_equiv (Forall2 state_equiv) (run_rule cand ceqb (RRating m L k None) (mkProfile bs cs) s)
                                   (run_rule cand ceqb (RRating m L k None) (mkProfile bs cs') s).
Proof.
  intros m L k bs cs cs' s Hd Hp. apply (rating_rule_anonymous cand ceqb ceqb_spec);
    [exact Hd|apply (rating_domain_perm L k bs cs cs' Hd Hp)|apply cand_order_equiv; exact Hp].
Qed.

Theorem toptwo_cand_order : forall tb (bs : list ballot) cs cs' (s : mstate),
  det_tiebreak SKFpv tb s -> dom SKFpv (mkProfile bs cs) -> Permutation cs cs' ->
  mres_equiv (Forall2 state_equiv) (run_rule cand ceqb (RTopTwo tb) (mkProfile bs cs) s)
                                   (run_rule cand ceqb (RTopTwo tb) (mkProfile bs cs') s).
Proof.
  intros tb bs cs cs' s Ht Hd Hp. apply (toptwo_anonymous cand ceqb ceqb_spec);
    [exact Ht|exact Hd|apply (dom_perm _ bs cs cs' Hd Hp)|apply cand_order_equiv; exact Hp].
Qed.

Theorem stv_cand_order : forall cfg (bs : list ballot) cs cs' (s : mstate),
  s_tiebreak cfg = None -> s_transfer cfg <> TRandom -> scr s = [] ->
  stv_domain (mkProfile bs cs) -> Permutation cs cs' ->
  mres_equiv (Forall2 state_equiv) (run_rule cand ceqb (RSTV cfg) (mkProfile bs cs) s)
                                   (run_rule cand ceqb (RSTV cfg) (mkProfile bs cs') s).
Proof.
  intros cfg bs cs cs' s H1 H2 H3 Hd Hp. apply (stv_rule_anonymous cand ceqb ceqb_spec); try assumption;
    [apply (stv_domain_perm bs cs cs' Hd Hp)|apply cand_order_equiv; exact Hp].
Qed.

Theorem alaska_cand_order : forall m1 m2 cfg (bs : list ballot) cs cs' (s : mstate),
  s_tiebreak cfg = None -> s_transfer cfg <> TRandom -> scr s = [] ->
  stv_domain (mkProfile bs cs) -> Permutation cs cs' ->
  mres_equiv (Forall2 state_equiv) (run_rule cand ceqb (RAlaska m1 m2 cfg) (mkProfile bs cs) s)
                                   (run_rule cand ceqb (RAlaska m1 m2 cfg) (mkProfile bs cs') s).
Proof.
  intros m1 m2 cfg bs cs cs' s H1 H2 H3 Hd Hp. apply (alaska_anonymous cand ceqb ceqb_spec); try assumption;
    [apply (stv_domain_perm bs cs cs' Hd Hp)|apply cand_order_equiv; exact Hp].
Qed.

Theorem dictator_cand_order : forall (boosted : bool) m (bs : list ballot) cs cs' (s : mstate),
  ddom (mkProfile bs cs) -> Permutation cs cs' ->
  mres_equiv_log (Forall2 state_equiv)
    (run_rule cand ceqb (if boosted then RBoosted m else RRandomDictator m) (mkProfile bs cs) s)
    (run_rule cand ceqb (if boosted then RBoosted m else RRandomDictator m) (mkProfile bs cs') s).
Proof.
  intros boosted m bs cs cs' s Hd Hp.
  destruct boosted;
    [apply (boosted_dictator_anonymous cand ceqb ceqb_spec)|apply (random_dictator_anonymous cand ceqb ceqb_spec)];
    try exact Hd; try (apply (ddom_perm bs cs cs' Hd Hp)); apply cand_order_equiv; exact Hp.
Qed.

End CandOrder.

(* ====================================================================== *)
(** * Witnesses (cand := positive), computed *)

Module C08Witness.

Definition rb (r : list positive) (w : Q) : ballot positive :=
  mkBallot (map (fun c => [c]) r) w [] None None.
Definition sb (d : list (positive * Q)) (w : Q) : ballot positive := mkBallot [] w d None None.
Definition fresh : mstate positive := mkM [] [].

(* ---- PluralityVeto: the same two voters in the other order, the same script (the voter at
   index 0 vetoes first): the other candidate wins ---- *)
Definition pv_p : profile positive := mkProfile [rb [1;2]%positive 1; rb [2;1]%positive 1] [1;2]%positive.
Definition pv_p' : profile positive := mkProfile [rb [2;1]%positive 1; rb [1;2]%positive 1] [1;2]%positive.
Definition pv_s : mstate positive := mkM [DIdxs [0%nat; 1%nat]] [].

Lemma pv_order_dependent :
  Permutation (ballots pv_p) (ballots pv_p') /\ cands pv_p = cands pv_p' /\
  exists a0 a1 a2 b0 b1 b2 s1,
    run_pv positive Pos.eqb 1 None pv_p pv_s = inl ([a0; a1; a2], s1) /\
    run_pv positive Pos.eqb 1 None pv_p' pv_s = inl ([b0; b1; b2], s1) /\
    escores a0 = escores b0 /\
    eliminated a1 = [[2%positive]] /\ elected a2 = [[1%positive]] /\
    eliminated b1 = [[1%positive]] /\ elected b2 = [[2%positive]].
Proof.
  split; [apply perm_swap|]. split; [reflexivity|].
  eexists. eexists. eexists. eexists. eexists. eexists. eexists. vm_compute. repeat split.
Qed.

(* with the script permuted accordingly (the voter 1>2 still vetoes first) the runs agree *)
Lemma pv_order_with_script :
  run_pv positive Pos.eqb 1 None pv_p' (mkM [DIdxs [1%nat; 0%nat]] [])
  = run_pv positive Pos.eqb 1 None pv_p pv_s.
Proof. vm_compute. reflexivity. Qed.

(* ---- PluralityVeto: a ballot of weight 1 split into two halves is rejected ---- *)
Definition pv_q : profile positive := mkProfile [rb [1;2]%positive 1] [1;2]%positive.
Definition pv_q' : profile positive := mkProfile [rb [1;2]%positive (1#2); rb [1;2]%positive (1#2)] [1;2]%positive.

Lemma pv_split_rejected :
  profile_equiv positive Pos.eqb pv_q pv_q' /\
  (exists sts s1, run_pv positive Pos.eqb 1 None pv_q (mkM [DIdxs [0%nat]] []) = inl (sts, s1)) /\
  run_pv positive Pos.eqb 1 None pv_q' (mkM [DIdxs [0%nat]] []) = inr EType.
Proof.
  split; [|split].
  - split; [|apply Permutation_refl].
    apply (dist_eq_split positive Pos.eqb Pos.eqb_spec [] (rb [1;2]%positive 1) [] [rb [1;2]%positive (1#2); rb [1;2]%positive (1#2)]).
    + repeat constructor.
    + vm_compute. reflexivity.
  - eexists. eexists. vm_compute. reflexivity.
  - vm_compute. reflexivity.
Qed.

(* ---- rating family: an invalid rating carried by a ballot of weight zero ---- *)
Definition rt_p : profile positive := mkProfile [sb [(1%positive, 1)] 2; sb [(2%positive, 5)] 0] [1;2]%positive.
Definition rt_p' : profile positive := mkProfile [sb [(1%positive, 1)] 2] [1;2]%positive.

Lemma drop_zero_equiv : forall (b z : ballot positive) cs, wt z == 0 ->
  profile_equiv positive Pos.eqb (mkProfile [b; z] cs) (mkProfile [b] cs).
Proof.
  intros b z cs Hz. split; [|apply Permutation_refl]. cbn [ballots]. intros k.
  rewrite !wtof_cons, wtof_nil. destruct (same_content positive Pos.eqb k z);
    destruct (same_content positive Pos.eqb k b); rewrite ?Hz; ring.
Qed.

Lemma rated_dom : forall bs, Forall (fun b => exists c q w, b = sb [(c, q)] w /\ In c [1;2]%positive /\ 0 <= w) bs ->
  one_shot_domain positive SKBallotScores (mkProfile bs [1;2]%positive).
Proof.
  intros bs H. rewrite Forall_forall in H. split; [|split]; cbn [ballots cands].
  - apply Forall_forall. intros b Hb. destruct (H b Hb) as [c [q [w [-> [_ Hw]]]]]. exact Hw.
  - repeat constructor; cbn; intuition discriminate.
  - apply Forall_forall. intros b Hb. destruct (H b Hb) as [c [q [w [-> [Hc _]]]]].
    split; [reflexivity|]. split; [discriminate|]. split; [repeat constructor; cbn; tauto|].
    intros x [<-|[]]. exact Hc.
Qed.

Lemma rating_zero_weight :
  profile_equiv positive Pos.eqb rt_p rt_p' /\
  one_shot_domain positive SKBallotScores rt_p /\ one_shot_domain positive SKBallotScores rt_p' /\
  run_rule positive Pos.eqb (RRating 1 1 None None) rt_p fresh = inr EType /\
  exists sts, run_rule positive Pos.eqb (RRating 1 1 None None) rt_p' fresh = inl (sts, fresh).
Proof.
  split; [apply drop_zero_equiv; reflexivity|]. split; [|split; [|split]].
  - apply rated_dom. repeat constructor.
    + exists 1%positive, 1, 2. repeat split; [left; reflexivity|discriminate].
    + exists 2%positive, 5, 0. repeat split; [right; left; reflexivity|discriminate].
  - apply rated_dom. repeat constructor. exists 1%positive, 1, 2. repeat split; [left; reflexivity|discriminate].
  - vm_compute. reflexivity.
  - eexists. vm_compute. reflexivity.
Qed.

(* ---- RandomDictator: no ballots vs one ballot of weight zero ---- *)
Definition rd_p : profile positive := mkProfile [] [1;2]%positive.
Definition rd_p' : profile positive := mkProfile [rb [1;2]%positive 0] [1;2]%positive.

Lemma dictator_zero_weight :
  profile_equiv positive Pos.eqb rd_p rd_p' /\
  one_shot_domain positive SKFpv rd_p /\ one_shot_domain positive SKFpv rd_p' /\
  run_rule positive Pos.eqb (RRandomDictator 1) rd_p fresh = inr EIndex /\
  run_rule positive Pos.eqb (RRandomDictator 1) rd_p' fresh = inr EValue.
Proof.
  split; [|split; [|split; [|split]]].
  - split; [|apply Permutation_refl]. cbn [ballots rd_p rd_p']. intros k.
    rewrite wtof_cons, !wtof_nil. destruct (same_content positive Pos.eqb k (rb [1; 2]%positive 0)); reflexivity.
  - split; [constructor|]. split; [split; [repeat constructor; cbn; intuition discriminate|constructor]|constructor].
  - split; [constructor; [cbn [wt rb]; lra|constructor]|]. split; [split|].
    + repeat constructor; cbn; intuition discriminate.
    + constructor; [|constructor]. cbn [rk rb map ballots cands rd_p'].
      split; [discriminate|]. split; [repeat constructor; discriminate|]. split.
      * cbn. repeat constructor; cbn; intuition discriminate.
      * cbn. intros x Hx. exact Hx.
    + repeat constructor.
  - vm_compute. reflexivity.
  - vm_compute. reflexivity.
Qed.

(* ---- the same, as closed existential statements ---- *)
Lemma pv_order_dependent_ex :
  exists (p p' : profile positive) (s : mstate positive),
    Permutation (ballots p) (ballots p') /\ cands p = cands p' /\
    exists a0 a1 a2 b0 b1 b2 s1,
      run_pv positive Pos.eqb 1 None p s = inl ([a0; a1; a2], s1) /\
      run_pv positive Pos.eqb 1 None p' s = inl ([b0; b1; b2], s1) /\
      escores a0 = escores b0 /\
      eliminated a1 = [[2%positive]] /\ elected a2 = [[1%positive]] /\
      eliminated b1 = [[1%positive]] /\ elected b2 = [[2%positive]].
Proof. exists pv_p, pv_p', pv_s. exact pv_order_dependent. Qed.

Lemma pv_split_rejected_ex :
  exists (p p' : profile positive) (s : mstate positive),
    profile_equiv positive Pos.eqb p p' /\
    (exists sts s1, run_pv positive Pos.eqb 1 None p s = inl (sts, s1)) /\
    run_pv positive Pos.eqb 1 None p' s = inr EType.
Proof. exists pv_q, pv_q', (mkM [DIdxs [0%nat]] []). exact pv_split_rejected. Qed.

Lemma rating_zero_weight_ex :
  exists (p p' : profile positive) (s : mstate positive),
    profile_equiv positive Pos.eqb p p' /\
    one_shot_domain positive SKBallotScores p /\ one_shot_domain positive SKBallotScores p' /\
    run_rule positive Pos.eqb (RRating 1 1 None None) p s = inr EType /\
    exists sts, run_rule positive Pos.eqb (RRating 1 1 None None) p' s = inl (sts, s).
Proof. exists rt_p, rt_p', fresh. exact rating_zero_weight. Qed.

Lemma dictator_zero_weight_ex :
  exists (p p' : profile positive) (s : mstate positive),
    profile_equiv positive Pos.eqb p p' /\
    one_shot_domain positive SKFpv p /\ one_shot_domain positive SKFpv p' /\
    run_rule positive Pos.eqb (RRandomDictator 1) p s = inr EIndex /\
    run_rule positive Pos.eqb (RRandomDictator 1) p' s = inr EValue.
Proof. exists rd_p, rd_p', fresh. exact dictator_zero_weight. Qed.

End C08Witness.
