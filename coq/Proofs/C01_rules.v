(* Proofs/C01_rules.v — C01 at run level for the rules that finish in one step: Plurality / SNTV,
   Borda, the rating family (GeneralRating, Limited, BlocPlurality), DominatingSets, CondoBorda.
   (TopTwo / Alaska: Proofs/C01_composite.v; the random dictators: Proofs/C01_dictator.v;
   PluralityVeto: Proofs/C01_pv.v.) *)
From VK Require Import Base Core STV Pairwise Rules PV Election.
From VK.Spec Require Import ScoreSpec EditSpec RatingSpec TopMSpec STVSpec Anon TieSpec PairwiseSpec RunSpec.
From VK.Proofs Require Import Lib_sets C04_scoring Elect C11_profile C12_edit C20_validation C05_rating
  C13_composite STV_tb STV_inv C08_anon C06_pairwise C06_tiers C01_lib.
From VK.Proofs Require C10_tiebreak.
From Coq Require Import Permutation Lia Lqa.

Section OneShot.
Variable cand : Type.
Variable ceqb : cand -> cand -> bool.
Hypothesis ceqb_spec : forall a b, reflect (a = b) (ceqb a b).

Notation cset := (cset cand).
Notation ranking := (ranking cand).
Notation ballot := (ballot cand).
Notation profile := (profile cand).
Notation scores := (scores cand).
Notation estate := (estate cand).
Notation mstate := (mstate cand).
Notation flat := (flat cand).
Notation real_groups := (real_groups cand).
Notation elected_upto := (elected_upto cand).
Notation eliminated_upto := (eliminated_upto cand).
Notation elected_in := (elected_in cand).
Notation eliminated_in := (eliminated_in cand).
Notation get_elected := (get_elected cand).
Notation get_eliminated := (get_eliminated cand).
Notation get_remaining := (get_remaining cand).
Notation partitions := (partitions cand).
Notation elects_exactly := (elects_exactly cand).
Notation numbered := (RunSpec.numbered cand).
Notation ranked_profile := (ranked_profile cand).
Notation straddles_seat := (straddles_seat cand).
Notation wf_profile := (wf_profile cand).
Notation wf_rated_profile := (wf_rated_profile cand).
Notation score_free := (EditSpec.score_free cand).
Notation score_ballot_ok := (score_ballot_ok cand).
Notation first_place_votes := (first_place_votes cand ceqb).
Notation borda_scores := (borda_scores cand ceqb).
Notation score_rankings := (score_rankings cand ceqb).
Notation score_from_scores := (score_from_scores cand ceqb).
Notation score_to_ranking := (score_to_ranking cand).
Notation remove_cand_prof := (remove_cand_prof cand ceqb).
Notation tiebreak_set := (tiebreak_set cand ceqb).
Notation elect_top_m := (elect_top_m cand ceqb).
Notation score_fn := (score_fn cand ceqb).
Notation run_one_shot := (run_one_shot cand ceqb).
Notation run_plurality := (run_plurality cand ceqb).
Notation run_rating := (run_rating cand ceqb).
Notation run_rule := (run_rule cand ceqb).
Notation run_dominating := (run_dominating cand ceqb).
Notation run_condo := (run_condo cand ceqb).
Notation ranking_validate := (ranking_validate cand).
Notation rating_validate := (rating_validate cand).
Notation dominating_tiers := (dominating_tiers cand ceqb).
Notation untied_profile := (untied_profile cand).
Notation no_group := (no_group cand).
Notation top_m_facts := (top_m_facts cand).
Notation borda_vec := (borda_vec cand).

(* ------------------------------------------------------------------ *)
(** * a successful one-shot election *)

Definition two_round_outcome (cs : cset) (m : Z) (sts : list estate) : Prop :=
  exists s0 s1, sts = [s0; s1] /\ rnd s0 = 0%Z /\ rnd s1 = 1%Z /\
    (1 <= m <= Z.of_nat (length cs))%Z /\
    get_elected sts 1 = inl (elected s1) /\ Z.of_nat (length (flat (elected s1))) = m /\
    elects_exactly sts m /\ partitions cs sts.

Lemma two_states_intro : forall (cs : cset) (m : Z) (d d1 : scores) (el rem : ranking) tbl,
  NoDup cs -> map fst d = cs ->
  (1 <= m <= Z.of_nat (length cs))%Z ->
  Z.of_nat (length (flat el)) = m -> Permutation (flat el ++ flat rem) cs ->
  two_round_outcome cs m [state_of_scores cand 0 no_group no_group [] d; mkState 1 rem el no_group tbl d1].
Proof.
  intros cs m d d1 el rem tbl Hnd Hkeys Hrange Hlen Hperm.
  assert (Hflat : flat el <> []).
  { intros E. rewrite E in Hlen. cbn [length] in Hlen. lia. }
  pose proof (real_groups_id cand el Hflat) as Hrg.
  assert (Hndall : NoDup (flat el ++ flat rem)).
  { eapply Permutation_NoDup; [apply Permutation_sym; exact Hperm|exact Hnd]. }
  unfold STV.no_group, STV.state_of_scores.
  eexists. eexists. split; [reflexivity|].
  cbn [rnd elected]. split; [reflexivity|]. split; [reflexivity|].
  split; [exact Hrange|]. split.
  { change 1%Z with (Z.of_nat 1).
    match goal with |- Rules.get_elected _ ?l _ = _ =>
      destruct (queries_upto cand l 1) as [Q _]; [cbn [length]; lia|] end.
    rewrite Q.
    unfold STVSpec.elected_upto. cbn [firstn map concat elected state_of_scores STV.real_groups].
    rewrite app_nil_r. cbn [app]. rewrite Hrg. reflexivity. }
  split; [exact Hlen|]. split.
  - apply (elects_exactly_intro cand ceqb); [discriminate| |].
    + cbn [map concat]. unfold STVSpec.elected_in at 1 2. cbn [elected state_of_scores STV.real_groups Core.flat concat app].
      rewrite app_nil_r. rewrite Hrg. exact Hlen.
    + cbn [map concat]. unfold STVSpec.elected_in at 1 2. cbn [elected state_of_scores STV.real_groups Core.flat concat app].
      rewrite app_nil_r. rewrite Hrg. apply (NoDup_app_inv _ _ Hndall).
  - apply partitions_intro. intros r st Hn. destruct r as [|[|r]]; cbn [nth_error] in Hn.
    + inversion Hn; subst st. unfold STVSpec.elected_upto, STVSpec.eliminated_upto.
      cbn [firstn map rev concat app elected eliminated remaining state_of_scores STV.real_groups Core.flat].
      rewrite app_nil_r. rewrite <- Hkeys. apply (score_to_ranking_flat_perm_all cand).
    + inversion Hn; subst st. unfold STVSpec.elected_upto, STVSpec.eliminated_upto.
      cbn [firstn map rev concat app elected eliminated remaining state_of_scores STV.real_groups].
      rewrite !app_nil_r. cbn [app]. rewrite Hrg.
      exact Hperm.
    + destruct r; discriminate.
Qed.

Theorem one_shot_run : forall k m tb (p : profile) s sts s',
  NoDup (cands p) -> run_one_shot k m tb p s = inl (sts, s') ->
  two_round_outcome (cands p) m sts.
Proof.
  intros k m tb p s sts s' Hnd H.
  destruct (one_shot_spec cand ceqb ceqb_spec _ _ _ _ _ _ _ Hnd H)
    as [d [el [rem [t [np [d1 [Hd [Hkeys [Hne [Hel [Hnp [Hd1 [-> [Hrange [F1 [F2 _]]]]]]]]]]]]]]]].
  apply two_states_intro; try assumption. rewrite <- Hkeys. exact F2.
Qed.

Theorem one_shot_rule_outcome : forall r (p : profile) k m tb s sts s',
  one_shot_params cand r p = Some (k, m, tb) ->
  NoDup (cands p) -> run_rule r p s = inl (sts, s') ->
  two_round_outcome (cands p) m sts.
Proof.
  intros r p k m tb s sts s' Hp Hnd H.
  apply (C10_tiebreak.one_shot_rule_run cand ceqb r p k m tb s s' sts Hp) in H.
  eapply one_shot_run; eassumption.
Qed.

(* ------------------------------------------------------------------ *)
(** * the errors of a one-shot election *)

(* valid input of a one-shot election that scores with [k] *)
Definition shot_dom (k : score_kind) (p : profile) : Prop :=
  match k with
  | SKBallotScores => wf_rated_profile p
  | SKVector v => valid_vector v /\ ranked_profile p
  | _ => ranked_profile p
  end.

Lemma shot_dom_nodup : forall k p, shot_dom k p -> NoDup (cands p).
Proof. intros k p H. destruct k; cbn [shot_dom] in H; apply H. Qed.

Lemma rated_scores : forall p : profile, wf_rated_profile p -> exists d, score_from_scores p = inl d.
Proof.
  intros p Hp. eexists. apply (C08_anon.score_from_scores_ok cand ceqb ceqb_spec p Hp).
Qed.

Lemma shot_dom_score : forall k p, shot_dom k p -> exists d, score_fn k p = inl d.
Proof.
  intros k p H. destruct k; cbn [shot_dom Rules.score_fn] in *.
  - apply (ranked_fpv cand ceqb ceqb_spec). apply H.
  - apply (ranked_borda cand ceqb ceqb_spec). apply H.
  - destruct H as [Hv [Hwf _]]. apply (c04_scored_proof cand ceqb ceqb_spec); assumption.
  - apply rated_scores. exact H.
Qed.

Lemma shot_dom_remove : forall k W p np, shot_dom k p ->
  remove_cand_prof W true false p = inl np -> shot_dom k np.
Proof.
  intros k W p np H Hnp. destruct k; cbn [shot_dom] in *.
  - eapply (ranked_remove cand ceqb ceqb_spec); eassumption.
  - eapply (ranked_remove cand ceqb ceqb_spec); eassumption.
  - destruct H as [Hv H]. split; [exact Hv|]. eapply (ranked_remove cand ceqb ceqb_spec); eassumption.
  - eapply (remove_wf_rated cand ceqb ceqb_spec); eassumption.
Qed.

(* on valid input only the election step can fail *)
Lemma one_shot_reduce : forall k m tb (p : profile) s, shot_dom k p ->
  exists d, score_fn k p = inl d /\ map fst d = cands p /\
    (forall e, run_one_shot k m tb p s = inr e <->
               elect_top_m (score_to_ranking d true) m (Some p) tb s = inr e) /\
    (forall x s1, elect_top_m (score_to_ranking d true) m (Some p) tb s = inl (x, s1) ->
               exists sts, run_one_shot k m tb p s = inl (sts, s1)).
Proof.
  intros k m tb p s Hdom. destruct (shot_dom_score k p Hdom) as [d Hd].
  exists d. split; [exact Hd|]. split; [exact (score_fn_keys cand ceqb k p d Hd)|].
  rewrite (run_one_shot_unfold cand ceqb), Hd.
  destruct (elect_top_m (score_to_ranking d true) m (Some p) tb s) as [[[[el rem] t] s1]|e0] eqn:Hel.
  - destruct (ranked_remove_ok cand ceqb ceqb_spec (flat el) p (shot_dom_nodup k p Hdom)) as [np Hnp].
    rewrite Hnp. destruct (shot_dom_score k np (shot_dom_remove k _ p np Hdom Hnp)) as [d1 Hd1].
    rewrite Hd1. split.
    + intros e. split; discriminate.
    + intros x s2 Hx. inversion Hx; subst. eexists. reflexivity.
  - split.
    + intros e. split; intros He; inversion He; reflexivity.
    + intros x s2 Hx. discriminate.
Qed.

(* without a tie-break rule: ValueError, exactly when the seat count is out of range or a group of
   the round-0 ranking straddles seat m; otherwise the election succeeds and draws nothing *)
Theorem one_shot_errors_none : forall k m (p : profile) s, shot_dom k p ->
  exists d, score_fn k p = inl d /\ map fst d = cands p /\
    (run_one_shot k m None p s = inr EValue <->
       (m < 1 \/ Z.of_nat (length (cands p)) < m)%Z \/ straddles_seat (score_to_ranking d true) m) /\
    (forall e, run_one_shot k m None p s = inr e -> e = EValue) /\
    ((exists sts, run_one_shot k m None p s = inl (sts, s)) \/ run_one_shot k m None p s = inr EValue).
Proof.
  intros k m p s Hdom. destruct (one_shot_reduce k m None p s Hdom) as [d [Hd [Hkeys [Herr Hok]]]].
  exists d. split; [exact Hd|]. split; [exact Hkeys|].
  assert (Hlen : length (flat (score_to_ranking d true)) = length (cands p)).
  { rewrite (ranking_size_scores cand), <- Hkeys. symmetry. apply map_length. }
  split; [|split].
  - rewrite Herr, (elect_top_m_none_error_iff cand ceqb), Hlen. unfold straddlesZ, RunSpec.straddles_seat. tauto.
  - intros e He. apply Herr in He. exact (elect_top_m_none_only_EValue cand ceqb _ _ _ _ _ He).
  - destruct (elect_top_m (score_to_ranking d true) m (Some p) None s) as [[x s1]|e] eqn:Hel.
    + left. destruct x as [[el rem] t].
      destruct (elect_top_m_shape cand ceqb _ _ _ _ _ _ _ _ _ Hel) as [_ [[_ [-> _]]|[pre [g [post [t0 [kind [j [Hc _]]]]]]]]];
        [|discriminate]. apply (Hok _ _ eq_refl).
    + right. apply Herr. rewrite (elect_top_m_none_only_EValue cand ceqb _ _ _ _ _ Hel). reflexivity.
Qed.

(* with any tie-break option, a ranked profile behind it: ValueError or a wrong replay script *)
Theorem one_shot_errors_ranked : forall k m tb (p : profile) s e, shot_dom k p -> wf_profile p ->
  run_one_shot k m tb p s = inr e ->
  exists d, score_fn k p = inl d /\
  ((e = EValue /\ ((m < 1 \/ Z.of_nat (length (cands p)) < m)%Z \/
                   (tb = None /\ straddles_seat (score_to_ranking d true) m) \/ tb = Some TBInvalid)) \/
   (e = EScript /\ tb <> None)).
Proof.
  intros k m tb p s e Hdom Hwf H. destruct (one_shot_reduce k m tb p s Hdom) as [d [Hd [Hkeys [Herr _]]]].
  exists d. split; [exact Hd|]. apply Herr in H.
  assert (Hlen : length (flat (score_to_ranking d true)) = length (cands p)).
  { rewrite (ranking_size_scores cand), <- Hkeys. symmetry. apply map_length. }
  apply (elect_top_m_err_ranked cand ceqb ceqb_spec _ _ _ _ _ _ Hwf) in H. rewrite Hlen in H. exact H.
Qed.

(* rated ballots: the first-place / Borda tie-breaks need rankings, so only the random tie-break
   (or none) is covered *)
Theorem one_shot_errors_rated : forall m tb (p : profile) s e, wf_rated_profile p ->
  tb = None \/ tb = Some TBRandom ->
  run_one_shot SKBallotScores m tb p s = inr e ->
  e = EValue \/ (e = EScript /\ tb = Some TBRandom).
Proof.
  intros m tb p s e Hdom Htb H.
  destruct (one_shot_reduce SKBallotScores m tb p s Hdom) as [d [Hd [Hkeys [Herr _]]]].
  apply Herr in H. apply (elect_top_m_err cand ceqb) in H.
  destruct H as [[-> _]|[[-> _]|[kind [g [Hk [_ Ht]]]]]]; [left; reflexivity|left; reflexivity|].
  destruct Htb as [-> | ->]; [discriminate|]. inversion Hk; subst kind.
  right. split; [|reflexivity]. unfold Core.tiebreak_set, mbind in Ht.
  destruct (draw_perm cand ceqb g s) as [[l s1]|e'] eqn:E; [discriminate|].
  injection Ht as <-. apply (draw_perm_err cand ceqb _ _ _ E).
Qed.

(* ------------------------------------------------------------------ *)
(** * Plurality / SNTV and Borda *)

Lemma run_plurality_ranked : forall m tb (p : profile) s, ranked_profile p ->
  run_plurality m tb p s = run_one_shot SKFpv m tb p s.
Proof.
  intros m tb p s [Hwf _]. rewrite (run_plurality_prologue cand ceqb).
  rewrite (wf_profile_ranking_validate cand p Hwf). reflexivity.
Qed.

Lemma run_borda_ranked : forall m v tb (p : profile) s, ranked_profile p ->
  valid_vector (borda_vec v p) ->
  run_rule (RBorda m v tb) p s = run_one_shot (SKVector (borda_vec v p)) m tb p s.
Proof.
  intros m v tb p s [Hwf _] Hv. rewrite (run_borda_prologue cand ceqb).
  rewrite (proj2 (proj2 (proj2 (validate_vector_err_iff (borda_vec v p)))) Hv).
  rewrite (wf_profile_ranking_validate cand p Hwf). reflexivity.
Qed.

Lemma default_borda_valid : forall p : profile, valid_vector (borda_vec None p).
Proof. intros p. cbn. apply borda_vector_valid. Qed.


(* the conclusion shared by the rule-level error theorems of the ranking rules *)
Definition ranked_shot_errors (k : score_kind) (m : Z) (p : profile) (d : scores)
  (run : option tb_kind -> mstate -> res (list estate * mstate)) : Prop :=
  score_fn k p = inl d /\ map fst d = cands p /\
  (forall s, run None s = inr EValue <->
     (m < 1 \/ Z.of_nat (length (cands p)) < m)%Z \/ straddles_seat (score_to_ranking d true) m) /\
  (forall s e, run None s = inr e -> e = EValue) /\
  (forall s, (exists sts, run None s = inl (sts, s)) \/ run None s = inr EValue) /\
  (forall tb s e, run tb s = inr e ->
     (e = EValue /\ ((m < 1 \/ Z.of_nat (length (cands p)) < m)%Z \/
                     (tb = None /\ straddles_seat (score_to_ranking d true) m) \/ tb = Some TBInvalid)) \/
     (e = EScript /\ tb <> None)).

Lemma ranked_shot_errors_intro : forall k m (p : profile), shot_dom k p -> wf_profile p ->
  exists d, ranked_shot_errors k m p d (fun tb s => run_one_shot k m tb p s).
Proof.
  intros k m p Hdom Hwf. destruct (shot_dom_score k p Hdom) as [d Hd]. exists d.
  split; [exact Hd|]. split; [exact (score_fn_keys cand ceqb k p d Hd)|].
  split; [|split; [|split]].
  - intros s. destruct (one_shot_errors_none k m p s Hdom) as [d' [Hd' [_ [H _]]]].
    rewrite Hd in Hd'. inversion Hd'; subst d'. exact H.
  - intros s e He. destruct (one_shot_errors_none k m p s Hdom) as [d' [_ [_ [_ [H _]]]]]. exact (H e He).
  - intros s. destruct (one_shot_errors_none k m p s Hdom) as [d' [_ [_ [_ [_ H]]]]]. exact H.
  - intros tb s e He. destruct (one_shot_errors_ranked k m tb p s e Hdom Hwf He) as [d' [Hd' H]].
    rewrite Hd in Hd'. inversion Hd'; subst d'. exact H.
Qed.

Theorem plurality_errors : forall m (p : profile), ranked_profile p ->
  exists d, ranked_shot_errors SKFpv m p d (fun tb s => run_rule (RPlurality m tb) p s).
Proof.
  intros m p Hr. destruct (ranked_shot_errors_intro SKFpv m p Hr (proj1 Hr)) as [d H]. exists d.
  unfold ranked_shot_errors in *. cbn [Rules.run_rule].
  destruct H as [H1 [H2 [H3 [H4 [H5 H6]]]]]. split; [exact H1|]. split; [exact H2|].
  split; [intros s; rewrite (run_plurality_ranked m None p s Hr); apply H3|].
  split; [intros s e; rewrite (run_plurality_ranked m None p s Hr); apply H4|].
  split; [intros s; rewrite (run_plurality_ranked m None p s Hr); apply H5|].
  intros tb s e. rewrite (run_plurality_ranked m tb p s Hr). apply H6.
Qed.

Theorem borda_errors : forall m v (p : profile), ranked_profile p -> valid_vector (borda_vec v p) ->
  exists d, ranked_shot_errors (SKVector (borda_vec v p)) m p d (fun tb s => run_rule (RBorda m v tb) p s).
Proof.
  intros m v p Hr Hv.
  destruct (ranked_shot_errors_intro (SKVector (borda_vec v p)) m p (conj Hv Hr) (proj1 Hr)) as [d H]. exists d.
  unfold ranked_shot_errors in *.
  destruct H as [H1 [H2 [H3 [H4 [H5 H6]]]]]. split; [exact H1|]. split; [exact H2|].
  split; [intros s; rewrite (run_borda_ranked m v None p s Hr Hv); apply H3|].
  split; [intros s e; rewrite (run_borda_ranked m v None p s Hr Hv); apply H4|].
  split; [intros s; rewrite (run_borda_ranked m v None p s Hr Hv); apply H5|].
  intros tb s e. rewrite (run_borda_ranked m v tb p s Hr Hv). apply H6.
Qed.

(* the rating family: GeneralRating accepted the arguments and every ballot *)
Lemma run_rating_accepted : forall m L k tb (p : profile) s,
  rating_args_ok m L k -> Forall (score_ballot_ok L k) (ballots p) ->
  run_rating m L k tb p s = run_one_shot SKBallotScores m tb p s.
Proof.
  intros m L k tb p s Ha Hb. destruct (c05_accept_iff_proof cand ceqb m L k tb p s) as [_ [_ [_ [H _]]]].
  apply H; assumption.
Qed.

Theorem rating_errors : forall m L k (p : profile),
  rating_args_ok m L k -> Forall (score_ballot_ok L k) (ballots p) -> wf_rated_profile p ->
  exists d, score_from_scores p = inl d /\ map fst d = cands p /\
    (forall s, run_rating m L k None p s = inr EValue <->
       (m < 1 \/ Z.of_nat (length (cands p)) < m)%Z \/ straddles_seat (score_to_ranking d true) m) /\
    (forall s e, run_rating m L k None p s = inr e -> e = EValue) /\
    (forall s, (exists sts, run_rating m L k None p s = inl (sts, s)) \/ run_rating m L k None p s = inr EValue) /\
    (forall s e, run_rating m L k (Some TBRandom) p s = inr e -> e = EValue \/ e = EScript).
Proof.
  intros m L k p Ha Hb Hp. destruct (shot_dom_score SKBallotScores p Hp) as [d Hd]. exists d.
  split; [exact Hd|]. split; [exact (score_fn_keys cand ceqb _ p d Hd)|].
  split; [|split; [|split]].
  - intros s. rewrite (run_rating_accepted m L k None p s Ha Hb).
    destruct (one_shot_errors_none SKBallotScores m p s Hp) as [d' [Hd' [_ [H _]]]].
    rewrite Hd in Hd'. inversion Hd'; subst d'. exact H.
  - intros s e. rewrite (run_rating_accepted m L k None p s Ha Hb).
    destruct (one_shot_errors_none SKBallotScores m p s Hp) as [d' [_ [_ [_ [H _]]]]]. apply H.
  - intros s. rewrite (run_rating_accepted m L k None p s Ha Hb).
    destruct (one_shot_errors_none SKBallotScores m p s Hp) as [d' [_ [_ [_ [_ H]]]]]. exact H.
  - intros s e. rewrite (run_rating_accepted m L k (Some TBRandom) p s Ha Hb). intros He.
    destruct (one_shot_errors_rated m (Some TBRandom) p s e Hp (or_intror eq_refl) He) as [H|[H _]];
      [left; exact H|right; exact H].
Qed.

(* the three rule constructors of the family in terms of GeneralRating *)
Lemma rating_family_runs : forall (p : profile) s,
  (forall m L k tb, run_rule (RRating m L k tb) p s = run_rating m L k tb p s) /\
  (forall m k tb, run_rule (RLimited m k tb) p s =
     if Qlt_bool (inject_Z m) k then inr EValue else run_rating m k (Some k) tb p s) /\
  (forall m k tb, run_rule (RBloc m k tb) p s =
     run_rating m 1 (Some (inject_Z (match k with
                                     | Some x => if Z.eqb x 0 then m else x
                                     | None => m
                                     end))) tb p s).
Proof.
  intros p s. split; [reflexivity|]. split.
  - intros m k tb. cbn [Rules.run_rule]. destruct (Qlt_bool (inject_Z m) k); reflexivity.
  - intros m k tb. reflexivity.
Qed.

(* ------------------------------------------------------------------ *)
(** * DominatingSets and CondoBorda *)

Theorem dominating_run : forall (p : profile) s, untied_profile p ->
  exists top rest s0 s1,
    dominating_tiers p = inl (top :: rest) /\
    run_rule RDominating p s = inl ([s0; s1], s) /\
    rnd s0 = 0%Z /\ rnd s1 = 1%Z /\ top <> [] /\ NoDup top /\
    get_elected [s0; s1] 1 = inl [top] /\ get_elected [s0; s1] (-1) = inl [top] /\
    get_remaining [s0; s1] 1 = inl rest /\
    partitions (cands p) [s0; s1].
Proof.
  intros p s Hp. destruct (c06_dominating_proof cand ceqb ceqb_spec p s Hp) as [top [rest [Ht Hrun]]].
  destruct (c06_tiers_partition_proof cand ceqb ceqb_spec p Hp _ Ht) as [Hperm [Hne _]].
  assert (Htop : top <> []) by (apply Hne; left; reflexivity).
  assert (Hrg : real_groups [top] = [top]).
  { destruct top; [contradiction Htop; reflexivity|reflexivity]. }
  assert (Hnd : NoDup (top ++ concat rest)).
  { cbn [concat] in Hperm. eapply Permutation_NoDup; [apply Permutation_sym; exact Hperm|apply Hp]. }
  exists top, rest. eexists. eexists. split; [exact Ht|]. cbn [Rules.run_rule].
  split; [exact Hrun|]. unfold Rules.all_tied_state, STV.no_group. cbn [rnd].
  split; [reflexivity|]. split; [reflexivity|]. split; [exact Htop|].
  split; [apply (NoDup_app_inv _ _ Hnd)|].
  assert (Q1 : get_elected [mkState 0 [cands p] [[]] [[]] [] []; mkState 1 rest [top] [[]] [] []] 1 = inl [top]).
  { change 1%Z with (Z.of_nat 1).
    match goal with |- Rules.get_elected _ ?l _ = _ =>
      destruct (queries_upto cand l 1) as [Q _]; [cbn [length]; lia|] end.
    rewrite Q. unfold STVSpec.elected_upto. cbn [firstn map concat elected].
    change (STV.real_groups cand [[]]) with (@nil cset). rewrite Hrg. reflexivity. }
  split; [exact Q1|]. split.
  { rewrite (get_elected_last cand ceqb) by discriminate. cbn [length Nat.sub].
    unfold STVSpec.elected_upto. cbn [firstn map concat elected].
    change (STV.real_groups cand [[]]) with (@nil cset). rewrite Hrg. reflexivity. }
  split.
  { change 1%Z with (Z.of_nat 1).
    match goal with |- Rules.get_remaining _ ?l _ = _ =>
      destruct (queries_upto cand l 1) as [_ [_ [st [Hn Q]]]]; [cbn [length]; lia|] end.
    cbn [nth_error] in Hn. inversion Hn; subst st. exact Q. }
  apply partitions_intro. intros r st Hn. destruct r as [|[|r]]; cbn [nth_error] in Hn.
  - inversion Hn; subst st. unfold STVSpec.elected_upto, STVSpec.eliminated_upto.
    cbn [firstn map rev concat app elected eliminated remaining STV.real_groups Core.flat].
    rewrite !app_nil_r. apply Permutation_refl.
  - inversion Hn; subst st. unfold STVSpec.elected_upto, STVSpec.eliminated_upto.
    cbn [firstn map rev app elected eliminated remaining].
    change (STV.real_groups cand [[]]) with (@nil cset). rewrite Hrg.
    cbn [rev concat app Core.flat]. rewrite !app_nil_r. exact Hperm.
  - destruct r; discriminate.
Qed.

Theorem condoborda_run : forall m (p : profile) s sts s', untied_profile p ->
  run_rule (RCondoBorda m) p s = inl (sts, s') ->
  two_round_outcome (cands p) m sts.
Proof.
  intros m p s sts s' Hp H. cbn [Rules.run_rule] in H.
  destruct (c06_condoborda_proof cand ceqb ceqb_spec m p s s' sts Hp H)
    as [ts [d0 [s1 [_ [Hd0 [-> [Hr1 [Hx1 [Hrange [Hlen [Hperm _]]]]]]]]]]].
  destruct s1 as [r1 rem1 el1 x1 tb1 d1]. cbn [rnd eliminated elected remaining] in *. subst r1 x1.
  apply two_states_intro; try assumption.
  - apply Hp.
  - unfold Core.borda_scores in Hd0. exact (score_rankings_keys cand ceqb p _ d0 Hd0).
Qed.


(* in particular the count always ends: EFuel ("the real code would not terminate") is impossible *)
Corollary plurality_borda_no_fuel : forall m tb (p : profile) s, ranked_profile p ->
  run_rule (RPlurality m tb) p s <> inr EFuel /\
  (forall v, valid_vector (borda_vec v p) -> run_rule (RBorda m v tb) p s <> inr EFuel).
Proof.
  intros m tb p s Hr. split.
  - intros H. destruct (plurality_errors m p Hr) as [d [_ [_ [_ [_ [_ H6]]]]]].
    destruct (H6 tb s EFuel H) as [[He _]|[He _]]; discriminate.
  - intros v Hv H. destruct (borda_errors m v p Hr Hv) as [d [_ [_ [_ [_ [_ H6]]]]]].
    destruct (H6 tb s EFuel H) as [[He _]|[He _]]; discriminate.
Qed.


Lemma untied_ranked : forall p : profile, untied_profile p -> score_free (ballots p) -> ranked_profile p.
Proof.
  intros p [Hnd [_ Hall]] Hsf. split; [split; [exact Hnd|]|exact Hsf].
  rewrite Forall_forall in Hall. apply Forall_forall. intros b Hb.
  destruct (Hall b Hb) as [Hne [Hsing [Hndl [Hincl _]]]].
  split; [exact Hne|]. split; [|split; [exact Hndl|exact Hincl]].
  eapply Forall_impl; [|exact Hsing]. intros g Hg E. rewrite E in Hg. discriminate.
Qed.

(* CondoBorda on untied score-free ballots: ValueError exactly for a seat count out of range
   (ties are always broken, by Borda score and then at random), EScript for a wrong replay script *)
Theorem condoborda_errors : forall m (p : profile) s e, untied_profile p -> score_free (ballots p) ->
  run_rule (RCondoBorda m) p s = inr e ->
  (e = EValue /\ (m < 1 \/ Z.of_nat (length (cands p)) < m)%Z) \/ e = EScript.
Proof.
  intros m p s e Hp Hsf H. pose proof (untied_ranked p Hp Hsf) as Hr.
  cbn [Rules.run_rule] in H. unfold Rules.run_condo in H.
  rewrite mbind_mlift, (untied_ranking_validate cand p Hp) in H.
  destruct (ranked_borda cand ceqb ceqb_spec p (proj1 Hr)) as [d0 Hd0].
  unfold Rules.round0 in H. cbn [Rules.score_fn] in H. rewrite Hd0 in H. cbn [rbind] in H.
  rewrite mbind_mlift in H. unfold ok in H. unfold mbind at 1 in H. unfold Rules.condo_step in H.
  destruct (c06_tiers_top_exists_proof cand ceqb ceqb_spec p Hp) as [T0 [rest Ht]].
  rewrite mbind_mlift, Ht in H.
  destruct (c06_tiers_partition_proof cand ceqb ceqb_spec p Hp _ Ht) as [Hperm _].
  unfold mbind at 1 in H.
  destruct (elect_top_m (T0 :: rest) m (Some p) (Some TBBorda) s) as [[[[el rem] t] s1]|e0] eqn:Hel.
  - exfalso.
    destruct (ranked_remove_ok cand ceqb ceqb_spec (flat el) p (proj1 Hp)) as [np Hnp].
    rewrite mbind_mlift, Hnp in H.
    destruct (ranked_borda cand ceqb ceqb_spec np (proj1 (ranked_remove cand ceqb ceqb_spec _ p np Hr Hnp))) as [d1 Hd1].
    rewrite mbind_mlift, Hd1 in H. discriminate.
  - inversion H; subst e0.
    destruct (elect_top_m_err_ranked cand ceqb ceqb_spec _ _ _ _ _ _ (proj1 Hr) Hel)
      as [[He [Hc|[[Hc _]|Hc]]]|[He _]]; try discriminate.
    + left. split; [exact He|]. unfold Core.flat in Hc. rewrite (Permutation_length Hperm) in Hc. exact Hc.
    + right. exact He.
Qed.

End OneShot.
