(* Proofs/C09_replay.v — C09, the multi-round part: get_profile(r) of a finished STV-family
   election (STV, IRV, SequentialRCV; then TopTwo and Alaska through their stages) replays the
   count, and — when the replayed rounds recorded no tiebreak — returns exactly the profile the
   run had after round r, from every state of the random source, consuming nothing.  That profile
   has the candidates remaining after round r and re-scores to the tallies recorded for round r. *)
From Coq Require Import List ZArith QArith Bool Permutation Lia.
From VK Require Import Base Core STV Pairwise Rules PV Election.
From VK.Spec Require Import STVSpec QuerySpec TieSpec ScoreSpec ReplaySpec.
From VK.Proofs Require Import Lib_sets C04_scoring Elect C10_script C10_quiet C09_queries
  STV_inv C20_validation C05_rating C12_edit C13_composite.
Import ListNotations.

(* ------------------------------------------------------------------ *)
(** * list bookkeeping *)

Lemma nth_error_ex : forall {A} (l : list A) n, (n < length l)%nat -> exists x, nth_error l n = Some x.
Proof.
  intros A l n H. destruct (nth_error l n) as [x|] eqn:E; [exists x; reflexivity|].
  apply nth_error_None in E. lia.
Qed.

Lemma nth_error_lt : forall {A} (l : list A) n x, nth_error l n = Some x -> (n < length l)%nat.
Proof. intros A l n x H. apply nth_error_Some. rewrite H. discriminate. Qed.

Lemma skipn_nth_error : forall {A} (l : list A) j x,
  nth_error l j = Some x -> skipn j l = x :: skipn (S j) l.
Proof.
  intros A l. induction l as [|a l IH]; intros j x H.
  - destruct j; discriminate.
  - destruct j as [|j].
    + cbn in H. inversion H; subst. reflexivity.
    + cbn [nth_error] in H. cbn [skipn]. rewrite (IH j x H). reflexivity.
Qed.

Lemma Forall_firstn_nth : forall {A} (P : A -> Prop) (l : list A) n i x,
  Forall P (firstn n l) -> (i < n)%nat -> nth_error l i = Some x -> P x.
Proof.
  intros A P l n i x H Hi Hx. rewrite Forall_forall in H. apply H.
  apply (nth_error_In (firstn n l) i). rewrite nth_error_firstn_lt by exact Hi. exact Hx.
Qed.

Lemma last_cons_default : forall {A} (a : A) l d, last (a :: l) d = last l a.
Proof.
  intros A a l. revert a. induction l as [|b l IH]; intros a d; [reflexivity|].
  change (last (a :: b :: l) d) with (last (b :: l) d). rewrite IH.
  change (last (b :: l) a) with (match l with [] => b | _ => last l a end).
  destruct l as [|c l]; [reflexivity|]. rewrite <- (IH b a). reflexivity.
Qed.

Section Replay.
Variable cand : Type.
Variable ceqb : cand -> cand -> bool.
Hypothesis ceqb_spec : forall a b, reflect (a = b) (ceqb a b).

Notation cset := (cset cand).
Notation ranking := (ranking cand).
Notation profile := (profile cand).
Notation scores := (scores cand).
Notation estate := (estate cand).
Notation mstate := (mstate cand).
Notation M := (M cand).
Notation flat := (flat cand).
Notation wf_stv0 := (wf_stv0 cand).
Notation state_of := (state_of cand ceqb).
Notation step_ctx := (step_ctx cand ceqb).
Notation stv_trace := (stv_trace cand ceqb).
Notation stv_init := (stv_init cand).
Notation stv_step := (stv_step cand ceqb).
Notation stv_replay := (stv_replay cand ceqb).
Notation run_stv := (run_stv cand ceqb).
Notation count_elected := (count_elected cand).
Notation first_place_votes := (first_place_votes cand ceqb).
Notation score_to_ranking := (score_to_ranking cand).
Notation get_profile := (get_profile cand ceqb).
Notation no_tiebreak := (no_tiebreak cand).
Notation steps := (steps cand ceqb).

(* ------------------------------------------------------------------ *)
(** * A round reports the tallies of the profile it returns *)

Lemma stv_step_state_of : forall cfg t p0 n (p : profile) prev (s s' : mstate) np st,
  stv_step cfg t p0 n p prev s = inl ((np, st), s') -> state_of np st.
Proof.
  intros cfg t p0 n p prev s s' np st H. unfold STV.stv_step in H. cbv zeta in H.
  apply mbind_inv in H. destruct H as [[[[el elim] tbs] np'] [s1 [_ H]]]. cbn beta iota in H.
  apply mbind_inv in H. destruct H as [d [s2 [Hd H]]].
  apply mlift_inv in Hd. destruct Hd as [Hd _].
  apply mret_inv in H. destruct H as [Heq _]. inversion Heq; subst np' st.
  split; [exact Hd|reflexivity].
Qed.

(* the candidates of a profile are those of the ranking in the state that reports it *)
Lemma state_of_cands : forall (pr : profile) st, state_of pr st ->
  Permutation (cands pr) (flat (remaining st)).
Proof.
  intros pr st [Hd Hr]. rewrite Hr. apply Permutation_sym.
  unfold Core.first_place_votes in Hd.
  rewrite <- (score_rankings_keys cand ceqb pr _ _ Hd).
  apply score_to_ranking_flat_perm_all.
Qed.

Lemma wf_no_cands_no_ballots : forall pr : profile, wf_stv0 pr -> cands pr = [] -> ballots pr = [].
Proof.
  intros pr [_ Hb] Hc. destruct (ballots pr) as [|b bs]; [reflexivity|exfalso].
  inversion Hb as [|x l Hwb _]; subst. destruct Hwb as [Hne [Hone [_ [Hincl _]]]].
  destruct (rk b) as [|g r]; [apply Hne; reflexivity|].
  inversion Hone as [|x l Hg _]; subst. destruct g as [|c g]; [discriminate|].
  rewrite Hc in Hincl. apply (Hincl c). left. reflexivity.
Qed.

(* ------------------------------------------------------------------ *)
(** * R1: the run as a trace *)

(* the loop's chain of rounds, remembering the profile and the state of the random source after
   each round ([sts] newest first, as the loop holds them) *)
Inductive tsteps (cfg : stv_cfg) (t : Q) (p0 : profile)
  : profile -> list estate -> mstate -> list (profile * estate * mstate) -> Prop :=
| ts_done : forall p sts s, tsteps cfg t p0 p sts s []
| ts_next : forall p prev sts s np st s1 more,
    stv_step cfg t p0 (count_elected (prev :: sts)) p prev s = inl ((np, st), s1) ->
    tsteps cfg t p0 np (st :: prev :: sts) s1 more ->
    tsteps cfg t p0 p (prev :: sts) s ((np, st, s1) :: more).

Definition profs (l : list (profile * estate * mstate)) : list profile := map (fun x => fst (fst x)) l.
Definition recs (l : list (profile * estate * mstate)) : list estate := map (fun x => snd (fst x)) l.
Definition rands (l : list (profile * estate * mstate)) : list mstate := map (fun x => snd x) l.

Lemma steps_tsteps : forall cfg t p0 p sts (s s' : mstate) newer,
  steps cfg t p0 p sts s newer s' ->
  exists more, recs more = newer /\ tsteps cfg t p0 p sts s more /\ last (rands more) s = s'.
Proof.
  intros cfg t p0 p sts s s' newer H.
  induction H as [p sts s Hc|p prev sts s np st s1 newer s' Hc Hs Hrest IH].
  - exists []. split; [reflexivity|]. split; [constructor|reflexivity].
  - destruct IH as [more [Hrec [Hts Hlast]]]. exists ((np, st, s1) :: more).
    split; [cbn [recs map fst snd]; fold (recs more); rewrite Hrec; reflexivity|].
    split; [constructor; assumption|].
    cbn [rands map snd]. fold (rands more). rewrite last_cons_default. exact Hlast.
Qed.

Lemma tsteps_state_of : forall cfg t p0 p sts (s : mstate) more,
  tsteps cfg t p0 p sts s more ->
  forall prev older, sts = prev :: older -> state_of p prev ->
  forall r pr st, nth_error (p :: profs more) r = Some pr ->
                  nth_error (prev :: recs more) r = Some st -> state_of pr st.
Proof.
  intros cfg t p0 p sts s more H.
  induction H as [p sts s|p prev0 sts s np st1 s1 more Hs Hrest IH];
    intros prev older Heq Hst r pr st Hp Hr.
  - destruct r as [|r]; [|destruct r; discriminate].
    cbn in Hp, Hr. inversion Hp; inversion Hr; subst. exact Hst.
  - inversion Heq; subst prev0 sts. destruct r as [|r].
    + cbn in Hp, Hr. inversion Hp; inversion Hr; subst. exact Hst.
    + cbn [profs recs map fst snd nth_error] in Hp, Hr.
      apply (IH st1 (prev :: older) eq_refl (stv_step_state_of _ _ _ _ _ _ _ _ _ _ Hs) r pr st Hp Hr).
Qed.

Lemma tsteps_steps : forall cfg t p0 p sts (s : mstate) more,
  tsteps cfg t p0 p sts s more ->
  forall prev older, sts = prev :: older ->
  forall r pr st sa pr' st' sb,
    nth_error (p :: profs more) r = Some pr -> nth_error (prev :: recs more) r = Some st ->
    nth_error (s :: rands more) r = Some sa ->
    nth_error (p :: profs more) (S r) = Some pr' -> nth_error (prev :: recs more) (S r) = Some st' ->
    nth_error (s :: rands more) (S r) = Some sb ->
    stv_step cfg t p0 (count_elected (rev older ++ firstn (S r) (prev :: recs more))) pr st sa
      = inl ((pr', st'), sb).
Proof.
  intros cfg t p0 p sts s more H.
  induction H as [p sts s|p prev0 sts s np st1 s1 more Hs Hrest IH];
    intros prev older Heq r pr st sa pr' st' sb Hp Hr Hm Hp' Hr' Hm'.
  - destruct r; discriminate.
  - inversion Heq; subst prev0 sts. destruct r as [|r].
    + cbn in Hp, Hr, Hm, Hp', Hr', Hm'.
      inversion Hp; inversion Hr; inversion Hm; inversion Hp'; inversion Hr'; inversion Hm'; subst.
      cbn [firstn]. change (rev older ++ [st]) with (rev (st :: older)).
      rewrite count_elected_rev. exact Hs.
    + cbn [profs recs rands map fst snd] in Hp, Hr, Hm, Hp', Hr', Hm' |- *.
      fold (profs more) in Hp, Hp'. fold (recs more) in Hr, Hr' |- *. fold (rands more) in Hm, Hm'.
      pose proof (IH st1 (prev :: older) eq_refl r pr st sa pr' st' sb Hp Hr Hm Hp' Hr' Hm') as Hgoal.
      cbn [rev] in Hgoal. rewrite <- app_assoc in Hgoal. exact Hgoal.
Qed.

Theorem stv_run_trace : forall cfg (p : profile) (s s' : mstate) sts,
  run_stv cfg p s = inl (sts, s') ->
  exists t ps ss,
    stv_init cfg p = inl t /\ stv_trace cfg t p sts ps ss /\
    nth_error ps 0 = Some p /\ nth_error ss 0 = Some s /\ last ss s = s'.
Proof.
  intros cfg p s s' sts H. apply C10_quiet.run_stv_inv in H.
  destruct H as [t [s0 [newer [Ht [H0 [-> Hsteps]]]]]].
  apply steps_tsteps in Hsteps. destruct Hsteps as [more [Hrec [Hts Hlast]]].
  exists t, (p :: profs more), (s :: rands more).
  split; [exact Ht|]. split.
  - subst newer. split; [unfold profs, recs; cbn [length]; rewrite !map_length; reflexivity|].
    split; [unfold rands, recs; cbn [length]; rewrite !map_length; reflexivity|].
    split.
    + intros r pr st Hp Hr.
      apply (tsteps_state_of _ _ _ _ _ _ _ Hts s0 [] eq_refl
               (proj1 (initial_state_inv cand ceqb p s0 H0)) r pr st Hp Hr).
    + intros r pr st sa pr' st' sb Hp Hr Hm Hp' Hr' Hm'.
      exact (tsteps_steps _ _ _ _ _ _ _ Hts s0 [] eq_refl r pr st sa pr' st' sb Hp Hr Hm Hp' Hr' Hm').
  - split; [reflexivity|]. split; [reflexivity|]. rewrite last_cons_default. exact Hlast.
Qed.

(* every profile of the trace of a valid input is valid-or-empty, over candidates of the input *)
Lemma trace_ctx : forall cfg t (p : profile) sts ps ss,
  s_transfer cfg <> TRandom -> wf_stv0 p ->
  stv_trace cfg t p sts ps ss -> nth_error ps 0 = Some p ->
  forall r pr st, nth_error ps r = Some pr -> nth_error sts r = Some st -> step_ctx p pr st.
Proof.
  intros cfg t p sts ps ss Hk Hwf [Hlp [Hls [Hso Hstep]]] Hp0.
  induction r as [|r IH]; intros pr st Hp Hr.
  - rewrite Hp0 in Hp. inversion Hp; subst pr.
    constructor; [exact Hwf|apply incl_refl|exact Hwf|exact (Hso 0%nat p st Hp0 Hr)].
  - pose proof (nth_error_lt _ _ _ Hp) as Hlt.
    destruct (nth_error_ex ps r ltac:(lia)) as [pr0 Hpr0].
    destruct (nth_error_ex sts r ltac:(lia)) as [st0 Hst0].
    destruct (nth_error_ex ss r ltac:(lia)) as [sa Hsa].
    destruct (nth_error_ex ss (S r) ltac:(lia)) as [sb Hsb].
    pose proof (Hstep r pr0 st0 sa pr st sb Hpr0 Hst0 Hsa Hp Hr Hsb) as Hs.
    pose proof (IH pr0 st0 Hpr0 Hst0) as Hctx.
    assert (Hscr : s_transfer cfg = TRandom -> script_ok cand sa) by (intros E; contradiction).
    destruct (stv_step_wf cand ceqb ceqb_spec cfg t p pr0 st0 Hctx _ sa sb pr st Hscr Hs)
      as [_ [_ [_ [_ [_ [_ Hctx']]]]]].
    exact Hctx'.
Qed.

(* ------------------------------------------------------------------ *)
(** * R2: the replay returns the profiles of the trace *)

Lemma replay_from : forall cfg t (p0 : profile) sts ps ss,
  s_transfer cfg <> TRandom -> stv_trace cfg t p0 sts ps ss ->
  forall n j pj pjn,
    nth_error ps j = Some pj -> nth_error ps (j + n) = Some pjn ->
    (forall i st, (j < i <= j + n)%nat -> nth_error sts i = Some st -> tiebreaks st = []) ->
    forall s2 : mstate,
      stv_replay cfg t p0 (firstn j sts) pj (firstn n (skipn j sts)) s2 = inl (pjn, s2).
Proof.
  intros cfg t p0 sts ps ss Hk [Hlp [Hls [Hso Hstep]]].
  induction n as [|n IH]; intros j pj pjn Hpj Hpjn Hq s2.
  - rewrite Nat.add_0_r in Hpjn. rewrite Hpj in Hpjn. inversion Hpjn; subst. reflexivity.
  - pose proof (nth_error_lt _ _ _ Hpjn) as Hlt.
    destruct (nth_error_ex sts j ltac:(lia)) as [stj Hstj].
    destruct (nth_error_ex sts (S j) ltac:(lia)) as [stj1 Hstj1].
    destruct (nth_error_ex ps (S j) ltac:(lia)) as [pj1 Hpj1].
    destruct (nth_error_ex ss j ltac:(lia)) as [sa Hsa].
    destruct (nth_error_ex ss (S j) ltac:(lia)) as [sb Hsb].
    pose proof (Hstep j pj stj sa pj1 stj1 sb Hpj Hstj Hsa Hpj1 Hstj1 Hsb) as Hs.
    assert (Hq1 : no_tiebreak stj1) by (apply (Hq (S j)); [lia|exact Hstj1]).
    pose proof (stv_step_quiet _ _ _ _ _ _ _ _ _ _ _ _ Hk Hs Hq1) as Esb. subst sb.
    rewrite (skipn_nth_error sts j stj Hstj). cbn [firstn Rules.stv_replay].
    rewrite <- (firstn_S_nth_error sts j stj Hstj).
    unfold mbind at 1.
    rewrite (local_no_draw_state cand _ _ (Local_stv_step cand ceqb _ _ _ _ _ _) _ _ Hs s2).
    apply (IH (S j) pj1 pjn Hpj1).
    + replace (S j + n)%nat with (j + S n)%nat by lia. exact Hpjn.
    + intros i st Hi Hst. apply (Hq i st); [lia|exact Hst].
Qed.

Theorem stv_replay_is_run : forall cfg t (p : profile) sts ps ss,
  s_transfer cfg <> TRandom -> stv_init cfg p = inl t ->
  stv_trace cfg t p sts ps ss -> nth_error ps 0 = Some p ->
  forall i, in_range (length sts) i ->
  Forall no_tiebreak (firstn (S (round_of (length sts) i)) sts) ->
  exists pr, nth_error ps (round_of (length sts) i) = Some pr /\
    forall s2 : mstate, get_profile (RSTV cfg) p sts i s2 = inl (pr, s2).
Proof.
  intros cfg t p sts ps ss Hk Ht Htr Hp0 i Hin Hq.
  destruct (norm_index_in _ _ Hin) as [En Hlt]. set (r := round_of (length sts) i) in *.
  pose proof Htr as [Hlp _].
  destruct (nth_error_ex ps r ltac:(lia)) as [pr Hpr]. exists pr. split; [exact Hpr|].
  intros s2. unfold Election.get_profile. rewrite mbind_mlift, En. rewrite mbind_mlift, Ht.
  apply (replay_from cfg t p sts ps ss Hk Htr r 0%nat p pr Hp0 Hpr).
  intros j st Hj Hst. apply (Forall_firstn_nth _ sts (S r) j st Hq); [lia|exact Hst].
Qed.

(* ------------------------------------------------------------------ *)
(** * R3: candidates and re-scoring of the trace profiles, and the combined statement *)

Theorem stv_trace_rescoring : forall cfg t (p0 : profile) sts ps ss r pr st,
  stv_trace cfg t p0 sts ps ss -> nth_error ps r = Some pr -> nth_error sts r = Some st ->
  first_place_votes pr = inl (escores st) /\ score_to_ranking (escores st) true = remaining st /\
  Permutation (cands pr) (flat (remaining st)).
Proof.
  intros cfg t p0 sts ps ss r pr st [_ [_ [Hso _]]] Hp Hr.
  pose proof (Hso r pr st Hp Hr) as Hst. destruct Hst as [H1 H2].
  split; [exact H1|]. split; [symmetry; exact H2|]. apply state_of_cands. split; assumption.
Qed.

Theorem stv_trace_cands : forall cfg t (p0 : profile) sts ps ss r pr st,
  stv_trace cfg t p0 sts ps ss -> nth_error ps r = Some pr -> nth_error sts r = Some st ->
  Permutation (cands pr) (flat (remaining st)).
Proof.
  intros cfg t p0 sts ps ss r pr st H Hp Hs.
  exact (proj2 (proj2 (stv_trace_rescoring cfg t p0 sts ps ss r pr st H Hp Hs))).
Qed.

Theorem stv_trace_fpv : forall cfg t (p0 : profile) sts ps ss r pr st,
  stv_trace cfg t p0 sts ps ss -> nth_error ps r = Some pr -> nth_error sts r = Some st ->
  first_place_votes pr = inl (escores st) /\ score_to_ranking (escores st) true = remaining st.
Proof.
  intros cfg t p0 sts ps ss r pr st H Hp Hs.
  destruct (stv_trace_rescoring cfg t p0 sts ps ss r pr st H Hp Hs) as [H1 [H2 _]].
  split; [exact H1|exact H2].
Qed.

Theorem stv_get_profile : forall cfg (p : profile) (s s' : mstate) sts,
  s_transfer cfg <> TRandom -> wf_stv0 p ->
  run_stv cfg p s = inl (sts, s') ->
  forall i, in_range (length sts) i ->
  Forall no_tiebreak (firstn (S (round_of (length sts) i)) sts) ->
  exists pr st,
    nth_error sts (round_of (length sts) i) = Some st /\
    (forall s2 : mstate, get_profile (RSTV cfg) p sts i s2 = inl (pr, s2)) /\
    wf_stv0 pr /\ incl (cands pr) (cands p) /\
    Permutation (cands pr) (flat (remaining st)) /\
    first_place_votes pr = inl (escores st) /\
    score_to_ranking (escores st) true = remaining st /\
    (flat (remaining st) = [] -> cands pr = [] /\ ballots pr = []).
Proof.
  intros cfg p s s' sts Hk Hwf H i Hin Hq.
  destruct (stv_run_trace cfg p s s' sts H) as [t [ps [ss [Ht [Htr [Hp0 _]]]]]].
  destruct (stv_replay_is_run cfg t p sts ps ss Hk Ht Htr Hp0 i Hin Hq) as [pr [Hpr Hget]].
  destruct (norm_index_in _ _ Hin) as [_ Hlt].
  destruct (nth_error_ex sts _ Hlt) as [st Hst].
  exists pr, st. split; [exact Hst|]. split; [exact Hget|].
  pose proof (trace_ctx cfg t p sts ps ss Hk Hwf Htr Hp0 _ pr st Hpr Hst) as Hctx.
  destruct (stv_trace_rescoring cfg t p sts ps ss _ pr st Htr Hpr Hst) as [Hd [Hrk Hperm]].
  split; [exact (ctx_p _ _ _ _ _ Hctx)|]. split; [exact (ctx_sub _ _ _ _ _ Hctx)|].
  split; [exact Hperm|]. split; [exact Hd|]. split; [exact Hrk|].
  intros Hnil. rewrite Hnil in Hperm. apply Permutation_sym, Permutation_nil in Hperm.
  split; [exact Hperm|]. apply wf_no_cands_no_ballots; [exact (ctx_p _ _ _ _ _ Hctx)|exact Hperm].
Qed.

(* ------------------------------------------------------------------ *)
(** * R4: the wrappers IRV and SequentialRCV *)

Lemma run_wrule_stv : forall w cfg (p : profile),
  expand w = Some (RSTV cfg) -> run_wrule cand ceqb w p = run_stv cfg p.
Proof.
  intros w cfg p H. destruct w; cbn [Election.expand] in H; try discriminate;
    inversion H; subst; reflexivity.
Qed.

Theorem wrapper_run_trace : forall w cfg (p : profile) (s s' : mstate) sts,
  expand w = Some (RSTV cfg) ->
  run_wrule cand ceqb w p s = inl (sts, s') ->
  exists t ps ss,
    stv_init cfg p = inl t /\ stv_trace cfg t p sts ps ss /\
    nth_error ps 0 = Some p /\ nth_error ss 0 = Some s /\ last ss s = s'.
Proof.
  intros w cfg p s s' sts Hw H. rewrite (run_wrule_stv w cfg p Hw) in H.
  exact (stv_run_trace cfg p s s' sts H).
Qed.

Theorem wrapper_get_profile : forall w cfg (p : profile) (s s' : mstate) sts,
  expand w = Some (RSTV cfg) -> s_transfer cfg <> TRandom -> wf_stv0 p ->
  run_wrule cand ceqb w p s = inl (sts, s') ->
  forall i, in_range (length sts) i ->
  Forall no_tiebreak (firstn (S (round_of (length sts) i)) sts) ->
  exists pr st,
    nth_error sts (round_of (length sts) i) = Some st /\
    (forall s2 : mstate, get_profile (RSTV cfg) p sts i s2 = inl (pr, s2)) /\
    wf_stv0 pr /\ incl (cands pr) (cands p) /\
    Permutation (cands pr) (flat (remaining st)) /\
    first_place_votes pr = inl (escores st) /\
    score_to_ranking (escores st) true = remaining st /\
    (flat (remaining st) = [] -> cands pr = [] /\ ballots pr = []).
Proof.
  intros w cfg p s s' sts Hw Hk Hwf H. rewrite (run_wrule_stv w cfg p Hw) in H.
  exact (stv_get_profile cfg p s s' sts Hk Hwf H).
Qed.

Theorem irv_get_profile : forall q tb (p : profile) (s s' : mstate) sts,
  wf_stv0 p ->
  run_wrule cand ceqb (WIRV q tb) p s = inl (sts, s') ->
  forall i, in_range (length sts) i ->
  Forall no_tiebreak (firstn (S (round_of (length sts) i)) sts) ->
  exists pr st,
    nth_error sts (round_of (length sts) i) = Some st /\
    (forall s2 : mstate,
       get_profile (RSTV (mkStv 1 q true TFractional tb)) p sts i s2 = inl (pr, s2)) /\
    wf_stv0 pr /\ incl (cands pr) (cands p) /\
    Permutation (cands pr) (flat (remaining st)) /\
    first_place_votes pr = inl (escores st) /\
    score_to_ranking (escores st) true = remaining st /\
    (flat (remaining st) = [] -> cands pr = [] /\ ballots pr = []).
Proof.
  intros q tb p s s' sts Hwf H.
  apply (wrapper_get_profile (WIRV q tb) (mkStv 1 q true TFractional tb) p s s' sts eq_refl);
    [discriminate|exact Hwf|exact H].
Qed.

Theorem seqrcv_get_profile : forall m q simul tb (p : profile) (s s' : mstate) sts,
  wf_stv0 p ->
  run_wrule cand ceqb (WSeqRCV m q simul tb) p s = inl (sts, s') ->
  forall i, in_range (length sts) i ->
  Forall no_tiebreak (firstn (S (round_of (length sts) i)) sts) ->
  exists pr st,
    nth_error sts (round_of (length sts) i) = Some st /\
    (forall s2 : mstate,
       get_profile (RSTV (mkStv m q simul TFullWeight tb)) p sts i s2 = inl (pr, s2)) /\
    wf_stv0 pr /\ incl (cands pr) (cands p) /\
    Permutation (cands pr) (flat (remaining st)) /\
    first_place_votes pr = inl (escores st) /\
    score_to_ranking (escores st) true = remaining st /\
    (flat (remaining st) = [] -> cands pr = [] /\ ballots pr = []).
Proof.
  intros m q simul tb p s s' sts Hwf H.
  apply (wrapper_get_profile (WSeqRCV m q simul tb) (mkStv m q simul TFullWeight tb) p s s' sts eq_refl);
    [discriminate|exact Hwf|exact H].
Qed.

(* ------------------------------------------------------------------ *)
(** * R5: TopTwo and Alaska, through their stages *)

Notation run_plurality := (run_plurality cand ceqb).
Notation run_toptwo := (run_toptwo cand ceqb).
Notation run_alaska := (run_alaska cand ceqb).
Notation plurality_stage := (plurality_stage cand ceqb).
Notation one_shot_step := (one_shot_step cand ceqb).
Notation remove_cand_prof := (remove_cand_prof cand ceqb).
Notation replay_step := (replay_step cand ceqb).
Notation replay_steps := (replay_steps cand ceqb).
Notation no_group := (no_group cand).

Lemma diff_perm : forall (cs a b : cset), NoDup cs -> Permutation (a ++ b) cs -> b <> [] ->
  set_diff cand ceqb cs a <> [] /\ forall c, In c (set_diff cand ceqb cs a) <-> In c b.
Proof.
  intros cs a b Hnd Hperm Hb.
  assert (Hndab : NoDup (a ++ b)).
  { eapply Permutation_NoDup; [apply Permutation_sym; exact Hperm|exact Hnd]. }
  destruct (Lib_sets.NoDup_app_inv _ _ Hndab) as [_ [_ Hdisj]].
  assert (Hmem : forall c, In c (set_diff cand ceqb cs a) <-> In c b).
  { intros c. rewrite (Lib_sets.set_diff_In cand ceqb ceqb_spec). split.
    - intros [Hc Hn]. apply (Permutation_in _ (Permutation_sym Hperm)) in Hc.
      apply in_app_or in Hc. destruct Hc as [Hc|Hc]; [contradiction|exact Hc].
    - intros Hc. split.
      + apply (Permutation_in _ Hperm). apply in_or_app. right. exact Hc.
      + intros Ha. exact (Hdisj c Ha Hc). }
  split; [|exact Hmem]. intros E. destruct b as [|c b]; [apply Hb; reflexivity|].
  assert (Hc : In c (set_diff cand ceqb cs a)) by (apply Hmem; left; reflexivity).
  rewrite E in Hc. destruct Hc.
Qed.

(* a Plurality(m) election with fewer seats than candidates and no recorded tiebreak: its single
   step is the same call from every state, and the profile it leaves has the remaining
   candidates and re-scores to the recorded tallies *)
Lemma plurality_last_stage : forall m tb (p1 : profile) (sa sb : mstate) q0 q1,
  NoDup (cands p1) -> (m < Z.of_nat (length (cands p1)))%Z ->
  run_plurality m tb p1 sa = inl ([q0; q1], sb) -> tiebreaks q1 = [] ->
  sb = sa /\ exists np,
    (forall sx : mstate, one_shot_step SKFpv m tb p1 q0 sx = inl ((np, q1), sx)) /\
    remove_cand_prof (flat (elected q1)) true false p1 = inl np /\
    first_place_votes np = inl (escores q1) /\
    Permutation (cands np) (flat (remaining q1)).
Proof.
  intros m tb p1 sa sb q0 q1 Hnd Hm Hrun Hq.
  apply C10_quiet.run_plurality_inv in Hrun. destruct Hrun as [_ Hrun].
  destruct (C05_rating.one_shot_spec cand ceqb ceqb_spec _ _ _ _ _ _ _ Hnd Hrun)
    as [d [el [rem [t [np [d1 [Hd [Hkeys [Hdne [Hel [Hnp [Hd1 [Hsts [Hrange Hfacts]]]]]]]]]]]]]].
  inversion Hsts; subst q0 q1. cbn [tiebreaks remaining elected escores] in *.
  assert (Ht : t = None) by (destruct t; [discriminate|reflexivity]). subst t.
  pose proof (elect_top_m_quiet _ _ _ _ _ _ _ _ _ _ Hel) as E. subst sb.
  split; [reflexivity|]. exists np. cbn [Rules.score_fn] in Hd1. split; [|split; [exact Hnp|split; [exact Hd1|]]].
  - intros sx. unfold Rules.one_shot_step, STV.state_of_scores. cbn [remaining].
    unfold mbind at 1.
    rewrite (local_no_draw_state cand _ _ (Local_elect_top_m cand ceqb _ _ _ _) _ _ Hel sx).
    rewrite mbind_mlift, Hnp, mbind_mlift. cbn [Rules.score_fn]. rewrite Hd1. reflexivity.
  - destruct Hfacts as [F1 [F2 _]]. rewrite Hkeys in F2.
    assert (Hrem : flat rem <> []).
    { intros E. pose proof (Permutation_length F2) as Hl. rewrite E, app_nil_r in Hl. lia. }
    destruct (diff_perm (cands p1) (flat el) (flat rem) Hnd F2 Hrem) as [Hdne' Hmem].
    destruct (C12_edit.remove_prof_cands cand ceqb ceqb_spec (flat el) true false p1 Hnd)
      as [np' [Hnp' [_ [Hc _]]]].
    rewrite Hnp in Hnp'. inversion Hnp'; subst np'. destruct (Hc Hdne') as [Hcands [Hndnp _]].
    apply NoDup_Permutation; [exact Hndnp| |intros c; rewrite Hcands; apply Hmem].
    assert (Hndab : NoDup (flat el ++ flat rem)).
    { eapply Permutation_NoDup; [apply Permutation_sym; exact F2|exact Hnd]. }
    destruct (Lib_sets.NoDup_app_inv _ _ Hndab) as [_ [Hndb _]]. exact Hndb.
Qed.

Lemma round0_fpv : forall (p : profile) s0, round0 cand ceqb SKFpv p = inl s0 ->
  state_of p s0 /\ rnd s0 = 0%Z.
Proof.
  intros p s0 H. unfold Rules.round0 in H. cbn [Rules.score_fn] in H.
  destruct (first_place_votes p) as [d|e] eqn:E; cbn [rbind] in H; [|discriminate].
  unfold ok in H. inversion H; subst s0. split; [split; [exact E|reflexivity]|reflexivity].
Qed.

(* the replayed first stage *)
Lemma toptwo_step0 : forall tb (p p1 : profile) s0 s1 (sx : mstate),
  rnd s0 = 0%Z -> plurality_stage 2 tb p s0 sx = inl ((p1, s1), sx) ->
  replay_step (RTopTwo tb) p p s0 sx = inl (p1, sx).
Proof.
  intros tb p p1 s0 s1 sx Hr H. unfold Election.replay_step. cbn [Election.one_shot_kind].
  rewrite Hr. cbn [Z.eqb]. unfold mbind. rewrite H. reflexivity.
Qed.

Lemma toptwo_step1 : forall tb (p p1 p2 : profile) s1 q0 q1 (sx : mstate),
  rnd s1 = 1%Z -> run_plurality 1 tb p1 sx = inl ([q0; q1], sx) ->
  one_shot_step SKFpv 1 tb p1 q0 sx = inl ((p2, q1), sx) ->
  replay_step (RTopTwo tb) p p1 s1 sx = inl (p2, sx).
Proof.
  intros tb p p1 p2 s1 q0 q1 sx Hr H1 H2. unfold Election.replay_step. cbn [Election.one_shot_kind].
  rewrite Hr. cbn [Z.eqb]. unfold mbind. rewrite H1, H2. reflexivity.
Qed.

Lemma alaska_step0 : forall m1 m2 cfg (p p1 : profile) s0 s1 (sx : mstate),
  plurality_stage m1 (s_tiebreak cfg) p s0 sx = inl ((p1, s1), sx) ->
  replay_step (RAlaska m1 m2 cfg) p p s0 sx = inl (p1, sx).
Proof.
  intros m1 m2 cfg p p1 s0 s1 sx H. unfold Election.replay_step. cbn [Election.one_shot_kind].
  unfold mbind. rewrite H. reflexivity.
Qed.

Theorem toptwo_get_profile : forall tb (p : profile) (s s' : mstate) sts,
  NoDup (cands p) -> run_toptwo tb p s = inl (sts, s') -> Forall no_tiebreak sts ->
  s' = s /\
  exists s0 s1 s2 p1 p2,
    sts = [s0; s1; s2] /\
    remove_cand_prof (flat (eliminated s1)) true false p = inl p1 /\
    remove_cand_prof (flat (elected s2)) true false p1 = inl p2 /\
    forall i, in_range 3 i ->
      exists pr st, nth_error [p; p1; p2] (round_of 3 i) = Some pr /\
        nth_error sts (round_of 3 i) = Some st /\
        (forall sx : mstate, get_profile (RTopTwo tb) p sts i sx = inl (pr, sx)) /\
        first_place_votes pr = inl (escores st) /\
        Permutation (cands pr) (flat (remaining st)).
Proof.
  intros tb p s s' sts Hnd H Hq. apply c13_toptwo_proof in H.
  destruct H as [s0 [p1 [s1 [sa [q0 [q1 [sb [x [H1 [H2 [H3 [H4 [H5 ->]]]]]]]]]]]]].
  apply Forall_cons_inv in Hq. destruct Hq as [_ Hq].
  apply Forall_cons_inv in Hq. destruct Hq as [Hq1 Hq].
  apply Forall_cons_inv in Hq. destruct Hq as [Hq2 _].
  unfold TieSpec.no_tiebreak in Hq2. cbn [tiebreaks] in Hq2.
  pose proof (plurality_stage_quiet _ _ _ _ _ _ _ _ _ _ H3 Hq1) as E. subst sa.
  destruct (plurality_stage_spec cand ceqb ceqb_spec _ _ _ _ _ _ _ _ Hnd H3)
    as [d0 [el [rem [t [r0 [r1 [_ [_ [_ [_ [Hd0 [_ [_ [_ [_ [Hnp [Hd1 [Hr1 [Hrem1
        [_ [Helim1 [_ [Hperm [Hndp1 Hlen]]]]]]]]]]]]]]]]]]]]]]]].
  destruct (round0_fpv p s0 H2) as [Hst0 Hrnd0].
  destruct (plurality_last_stage 1 tb p1 s sb q0 q1 Hndp1 ltac:(lia) H4 Hq2)
    as [E [p2 [Hstep [Hnp2 [Hd2 Hperm2]]]]]. subst sb.
  rewrite Hstep in H5. inversion H5; subst x s'. split; [reflexivity|].
  assert (Hstage : forall sx : mstate, plurality_stage 2 tb p s0 sx = inl ((p1, s1), sx)).
  { intros sx. exact (local_no_draw_state cand _ _ (Local_plurality_stage cand ceqb _ _ _ _) _ _ H3 sx). }
  assert (Hplur : forall sx : mstate, run_plurality 1 tb p1 sx = inl ([q0; q1], sx)).
  { intros sx. exact (local_no_draw_state cand _ _ (Local_run_plurality cand ceqb _ _ _) _ _ H4 sx). }
  eexists s0, s1, _, p1, p2. split; [reflexivity|]. cbn [eliminated elected].
  split; [rewrite Helim1; exact Hnp|]. split; [exact Hnp2|].
  intros i Hin. destruct (norm_index_in 3 i Hin) as [En Hlt].
  assert (Hget : forall (pr : profile) (sx : mstate),
            replay_steps (RTopTwo tb) p p (firstn (round_of 3 i) [s0; s1;
              mkState 2 (remaining q1) (elected q1) (eliminated q1) (tiebreaks q1) (escores q1)]) sx
              = inl (pr, sx) ->
            get_profile (RTopTwo tb) p [s0; s1;
              mkState 2 (remaining q1) (elected q1) (eliminated q1) (tiebreaks q1) (escores q1)] i sx
              = inl (pr, sx)).
  { intros pr sx Hrep. unfold Election.get_profile. cbn [length]. rewrite mbind_mlift, En. exact Hrep. }
  destruct (round_of 3 i) as [|[|[|r]]]; [| | |lia].
  - exists p, s0. split; [reflexivity|]. split; [reflexivity|]. split.
    + intros sx. apply Hget. reflexivity.
    + split; [exact (proj1 Hst0)|apply state_of_cands; exact Hst0].
  - exists p1, s1. split; [reflexivity|]. split; [reflexivity|]. split.
    + intros sx. apply Hget. cbn [firstn Election.replay_steps]. unfold mbind.
      rewrite (toptwo_step0 tb p p1 s0 s1 sx Hrnd0 (Hstage sx)). reflexivity.
    + split; [exact Hd1|rewrite Hrem1; exact Hperm].
  - eexists p2, _. split; [reflexivity|]. split; [reflexivity|]. cbn [escores remaining]. split.
    + intros sx. apply Hget. cbn [firstn Election.replay_steps]. unfold mbind.
      rewrite (toptwo_step0 tb p p1 s0 s1 sx Hrnd0 (Hstage sx)).
      rewrite (toptwo_step1 tb p p1 p2 s1 q0 q1 sx ltac:(rewrite Hr1, Hrnd0; reflexivity)
                 (Hplur sx) (Hstep sx)).
      reflexivity.
    + split; [exact Hd2|exact Hperm2].
Qed.

Theorem alaska_get_profile : forall m1 m2 cfg (p : profile) (s s' : mstate) sts,
  s_transfer cfg <> TRandom -> NoDup (cands p) ->
  run_alaska m1 m2 cfg p s = inl (sts, s') -> Forall no_tiebreak sts ->
  s' = s /\
  exists s0 s1 p1 ssts t ps ss,
    sts = s0 :: s1 :: map (bump cand) (tl ssts) /\
    remove_cand_prof (flat (eliminated s1)) true false p = inl p1 /\
    run_stv (with_m cfg m2) p1 s = inl (ssts, s) /\
    stv_init (with_m cfg m2) p1 = inl t /\
    stv_trace (with_m cfg m2) t p1 ssts ps ss /\ nth_error ps 0 = Some p1 /\
    forall i, in_range (length sts) i ->
      exists pr st, nth_error (p :: ps) (round_of (length sts) i) = Some pr /\
        nth_error sts (round_of (length sts) i) = Some st /\
        (forall sx : mstate, get_profile (RAlaska m1 m2 cfg) p sts i sx = inl (pr, sx)) /\
        first_place_votes pr = inl (escores st) /\
        Permutation (cands pr) (flat (remaining st)).
Proof.
  intros m1 m2 cfg p s s' sts Hk Hnd H Hq.
  split; [exact (run_alaska_quiet cand ceqb m1 m2 cfg p s s' sts Hk H Hq)|].
  apply c13_alaska_proof in H.
  destruct H as [s0 [p1 [s1 [sa [t [ssts [sb [pf [_ [_ [H3 [H4 [H5 [H6 [_ ->]]]]]]]]]]]]]]].
  apply Forall_cons_inv in Hq. destruct Hq as [_ Hq].
  apply Forall_cons_inv in Hq. destruct Hq as [Hq1 Hq]. apply Forall_map_bump in Hq.
  pose proof (plurality_stage_quiet _ _ _ _ _ _ _ _ _ _ H4 Hq1) as E. subst sa.
  assert (Hk2 : s_transfer (with_m cfg m2) <> TRandom) by exact Hk.
  destruct (C10_quiet.run_stv_inv _ _ _ _ _ _ _ H6) as [t' [q0 [newer [_ [Hq0 [Hssts _]]]]]].
  subst ssts. cbn [tl] in Hq |- *.
  assert (Hqall : Forall no_tiebreak (q0 :: newer)).
  { constructor; [exact (initial_state_no_tiebreak _ _ _ _ Hq0)|exact Hq]. }
  pose proof (run_stv_quiet _ _ _ _ _ _ _ Hk2 H6 Hqall) as E. subst sb.
  destruct (plurality_stage_spec cand ceqb ceqb_spec _ _ _ _ _ _ _ _ Hnd H4)
    as [d0 [el [rem [tt0 [r0 [r1 [_ [_ [_ [_ [Hd0 [_ [_ [_ [_ [Hnp [Hd1 [Hr1 [Hrem1
        [_ [Helim1 [_ [Hperm [Hndp1 Hlen]]]]]]]]]]]]]]]]]]]]]]]].
  destruct (round0_fpv p s0 H3) as [Hst0 Hrnd0].
  destruct (stv_run_trace _ _ _ _ _ H6) as [t2 [ps [ss [Ht2 [Htr [Hp0 _]]]]]].
  rewrite H5 in Ht2. inversion Ht2; subst t2. clear Ht2.
  assert (Hstage : forall sx : mstate,
            plurality_stage m1 (s_tiebreak cfg) p s0 sx = inl ((p1, s1), sx)).
  { intros sx. exact (local_no_draw_state cand _ _ (Local_plurality_stage cand ceqb _ _ _ _) _ _ H4 sx). }
  assert (Hrun : forall sx : mstate, run_stv (with_m cfg m2) p1 sx = inl (q0 :: newer, sx)).
  { intros sx. exact (local_no_draw_state cand _ _ (Local_run_stv cand ceqb _ _) _ _ H6 sx). }
  exists s0, s1, p1, (q0 :: newer), t, ps, ss. cbn [tl].
  split; [reflexivity|]. split; [rewrite Helim1; exact Hnp|]. split; [exact H6|].
  split; [exact H5|]. split; [exact Htr|]. split; [exact Hp0|].
  intros i Hin. destruct (norm_index_in _ i Hin) as [En Hlt].
  set (sts := s0 :: s1 :: map (bump cand) newer) in *.
  assert (Hlen_sts : length sts = S (S (length newer))).
  { unfold sts. cbn [length]. rewrite map_length. reflexivity. }
  assert (Hrs : forall sx : mstate,
            replay_steps (RAlaska m1 m2 cfg) p p (firstn 1 sts) sx = inl (p1, sx)).
  { intros sx. unfold sts. cbn [firstn Election.replay_steps]. unfold mbind.
    rewrite (alaska_step0 m1 m2 cfg p p1 s0 s1 sx (Hstage sx)). reflexivity. }
  destruct (round_of (length sts) i) as [|[|k]] eqn:Er.
  - exists p, s0. split; [reflexivity|]. split; [reflexivity|]. split.
    + intros sx. unfold Election.get_profile. rewrite mbind_mlift, En. reflexivity.
    + split; [exact (proj1 Hst0)|apply state_of_cands; exact Hst0].
  - exists p1, s1. split; [exact Hp0|]. split; [reflexivity|]. split.
    + intros sx. unfold Election.get_profile. rewrite mbind_mlift, En. apply Hrs.
    + split; [exact Hd1|rewrite Hrem1; exact Hperm].
  - assert (Hk_lt : (k < length newer)%nat) by lia.
    destruct (nth_error_ex newer k Hk_lt) as [stk Hstk].
    pose proof Htr as [Hlp _]. cbn [length] in Hlp.
    destruct (nth_error_ex ps (S k) ltac:(lia)) as [pr Hpr].
    exists pr, (bump cand stk). split; [exact Hpr|]. split.
    { unfold sts. cbn [nth_error]. rewrite nth_error_map, Hstk. reflexivity. }
    split.
    + intros sx. unfold Election.get_profile. rewrite mbind_mlift, En.
      rewrite (mbind_ok _ _ _ _ _ (Hrs sx)). cbv zeta. rewrite mbind_mlift, H5.
      rewrite (mbind_ok _ _ _ _ _ (Hrun sx)).
      replace (Z.of_nat (S (S k)) - 1)%Z with (Z.of_nat (S k)) by lia.
      rewrite mbind_mlift, (norm_index_nat (length (q0 :: newer)) (S k)) by (cbn [length]; lia).
      apply (replay_from (with_m cfg m2) t p1 (q0 :: newer) ps ss Hk2 Htr (S k) 0%nat p1 pr Hp0 Hpr).
      intros j st Hj Hst. rewrite Forall_forall in Hqall. apply Hqall.
      apply (nth_error_In _ j). exact Hst.
    + unfold Rules.bump. cbn [escores remaining].
      destruct (stv_trace_rescoring _ _ _ _ _ _ (S k) pr stk Htr Hpr Hstk) as [Hd [_ Hp]].
      split; [exact Hd|exact Hp].
Qed.

End Replay.
