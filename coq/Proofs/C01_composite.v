(* Proofs/C01_composite.v — C01 at run level for the two composite rules: TopTwo (Plurality(2),
   then Plurality(1) on the two survivors) and Alaska (Plurality(m1), then STV(m2) on the
   survivors). *)
From VK Require Import Base Core STV Pairwise Rules PV Election.
From VK.Spec Require Import ScoreSpec EditSpec RatingSpec TopMSpec STVSpec Anon TieSpec RunSpec.
From VK.Proofs Require Import Lib_sets C04_scoring Elect C11_profile C12_edit C20_validation C05_rating
  C13_composite STV_lib STV_tb STV_round STV_inv C08_anon C10_script C01_lib C01_rules C01_nofuel.
From VK.Proofs Require C10_quiet.
From Coq Require Import Permutation Lia Lqa.

Section Composite.
Variable cand : Type.
Variable ceqb : cand -> cand -> bool.
Hypothesis ceqb_spec : forall a b, reflect (a = b) (ceqb a b).

Notation cset := (cset cand).
Notation ranking := (ranking cand).
Notation ballot := (ballot cand).
Notation profile := (profile cand).
Notation scores := (scores cand).
Notation estate := (estate cand).
Notation mstate := (mstate cand).
Notation flat := (flat cand).
Notation real_groups := (real_groups cand).
Notation elected_upto := (elected_upto cand).
Notation eliminated_upto := (eliminated_upto cand).
Notation elected_in := (elected_in cand).
Notation eliminated_in := (eliminated_in cand).
Notation all_elected := (all_elected cand).
Notation count_elected := (count_elected cand).
Notation get_elected := (get_elected cand).
Notation get_eliminated := (get_eliminated cand).
Notation get_remaining := (get_remaining cand).
Notation partitions := (partitions cand).
Notation elects_exactly := (elects_exactly cand).
Notation numbered := (RunSpec.numbered cand).
Notation ranked_profile := (ranked_profile cand).
Notation straddles_seat := (straddles_seat cand).
Notation wf_profile := (wf_profile cand).
Notation wf_stv0 := (wf_stv0 cand).
Notation script_ok := (script_ok cand).
Notation no_tiebreak := (no_tiebreak cand).
Notation first_place_votes := (first_place_votes cand ceqb).
Notation score_to_ranking := (score_to_ranking cand).
Notation remove_cand_prof := (remove_cand_prof cand ceqb).
Notation elect_top_m := (elect_top_m cand ceqb).
Notation score_fn := (score_fn cand ceqb).
Notation run_one_shot := (run_one_shot cand ceqb).
Notation one_shot_step := (one_shot_step cand ceqb).
Notation run_plurality := (run_plurality cand ceqb).
Notation plurality_stage := (plurality_stage cand ceqb).
Notation run_toptwo := (run_toptwo cand ceqb).
Notation run_alaska := (run_alaska cand ceqb).
Notation run_stv := (run_stv cand ceqb).
Notation stv_init := (stv_init cand).
Notation stv_replay := (stv_replay cand ceqb).
Notation initial_state := (initial_state cand ceqb).
Notation round0 := (round0 cand ceqb).
Notation ranking_validate := (ranking_validate cand).
Notation no_group := (no_group cand).
Notation bump := (bump cand).
Notation top_m_facts := (top_m_facts cand).

(* ------------------------------------------------------------------ *)
(** * the partition read off the fields of the states *)

Definition fe (st : estate) : cset := flat (elected st).
Definition fx (st : estate) : cset := flat (eliminated st).

Lemma elected_in_fe : forall st, elected_in st = fe st.
Proof. intros st. unfold STVSpec.elected_in, fe. apply (flat_real_groups cand). Qed.

Lemma eliminated_in_fx : forall st, eliminated_in st = fx st.
Proof. intros st. unfold STVSpec.eliminated_in, fx. apply (flat_real_groups cand). Qed.

Lemma map_elected_in : forall l : list estate, map elected_in l = map fe l.
Proof. intros l. apply map_ext. exact elected_in_fe. Qed.

Lemma map_eliminated_in : forall l : list estate, map eliminated_in l = map fx l.
Proof. intros l. apply map_ext. exact eliminated_in_fx. Qed.

Lemma upto_fields : forall (sts : list estate) r (R : cset),
  Permutation (flat (elected_upto sts r) ++ R ++ flat (eliminated_upto sts r))
              (concat (map fe (firstn (S r) sts)) ++ R ++ concat (map fx (firstn (S r) sts))).
Proof.
  intros sts r R. rewrite (flat_elected_upto cand), map_elected_in.
  apply Permutation_app_head. apply Permutation_app_head.
  rewrite <- map_eliminated_in. apply (flat_eliminated_upto cand).
Qed.

Lemma partition_fields : forall (cs : cset) (sts : list estate) r (R : cset),
  Permutation (concat (map fe (firstn (S r) sts)) ++ R ++ concat (map fx (firstn (S r) sts))) cs ->
  Permutation (flat (elected_upto sts r) ++ R ++ flat (eliminated_upto sts r)) cs.
Proof. intros cs sts r R H. eapply Permutation_trans; [apply upto_fields|exact H]. Qed.

Lemma fields_partition : forall (cs : cset) (sts : list estate) r (R : cset),
  Permutation (flat (elected_upto sts r) ++ R ++ flat (eliminated_upto sts r)) cs ->
  Permutation (concat (map fe (firstn (S r) sts)) ++ R ++ concat (map fx (firstn (S r) sts))) cs.
Proof. intros cs sts r R H. eapply Permutation_trans; [apply Permutation_sym, upto_fields|exact H]. Qed.

Lemma fe_bump : forall st, fe (bump st) = fe st.
Proof. reflexivity. Qed.
Lemma fx_bump : forall st, fx (bump st) = fx st.
Proof. reflexivity. Qed.

Lemma map_fe_bump : forall l : list estate, map fe (map bump l) = map fe l.
Proof. intros l. rewrite map_map. reflexivity. Qed.
Lemma map_fx_bump : forall l : list estate, map fx (map bump l) = map fx l.
Proof. intros l. rewrite map_map. reflexivity. Qed.

Lemma wf_stv0_ranked : forall p : profile, wf_stv0 p -> ranked_profile p.
Proof.
  intros p H. split; [apply (wf_stv0_wf_profile cand p H)|].
  destruct H as [_ Hb]. exact (wf_ballots_sf cand (cands p) (ballots p) Hb).
Qed.

(* ------------------------------------------------------------------ *)
(** * TopTwo: a successful run *)

Theorem toptwo_run_outcome : forall tb (p : profile) s sts s',
  NoDup (cands p) -> run_toptwo tb p s = inl (sts, s') ->
  exists s0 s1 s2, sts = [s0; s1; s2] /\ rnd s0 = 0%Z /\ rnd s1 = 1%Z /\ rnd s2 = 2%Z /\
    (2 <= Z.of_nat (length (cands p)))%Z /\
    (* rounds 0 and 1: nobody elected; after round 1 the two Plurality winners remain and
       everybody else is eliminated *)
    elected s0 = [[]] /\ eliminated s0 = [[]] /\ elected s1 = [[]] /\
    Z.of_nat (length (flat (remaining s1))) = 2%Z /\
    Permutation (flat (remaining s1) ++ flat (eliminated s1)) (cands p) /\
    (* round 2: one of the two is elected, the other remains, nobody else is eliminated *)
    eliminated s2 = [[]] /\
    (exists w l, flat (elected s2) = [w] /\ flat (remaining s2) = [l] /\
                 Permutation [w; l] (flat (remaining s1))) /\
    elects_exactly sts 1 /\ partitions (cands p) sts.
Proof.
  intros tb p s sts s' Hnd H. apply (c13_toptwo_proof cand ceqb) in H.
  destruct H as [s0 [p1 [s1 [sa [q0 [q1 [sb [x [H1 [H2 [H3 [H4 [H5 Hsts]]]]]]]]]]]]].
  destruct (plurality_stage_spec cand ceqb ceqb_spec _ _ _ _ _ _ _ _ Hnd H3)
    as [d0 [el [rem [t [r0 [r1 [Hrun [_ [_ [_ [Hd0 [Hkeys0 [Hel [Hrange [Hfacts [Hnp [Hd1 [Hr1 [Hrem1
        [Hel1 [Helim1 [Htb1 [Hperm [Hndp1 Hlen]]]]]]]]]]]]]]]]]]]]]]]].
  assert (Hs0 : s0 = state_of_scores cand 0 no_group no_group [] d0).
  { unfold Rules.round0 in H2. cbn [Rules.score_fn] in H2. rewrite Hd0 in H2. cbn [rbind] in H2.
    unfold ok in H2. inversion H2. reflexivity. }
  pose proof H4 as H4'. rewrite (run_plurality_prologue cand ceqb) in H4'.
  destruct (ranking_validate p1) as [[]|e]; [|discriminate].
  destruct (one_shot_spec cand ceqb ceqb_spec _ _ _ _ _ _ _ Hndp1 H4')
    as [d [el2 [rem2 [t2 [np2 [d2 [Hd [Hkeys [Hne [Hel2 [_ [_ [Hq [_ Hfacts2]]]]]]]]]]]]]].
  inversion Hq; subst q0 q1. clear Hq.
  destruct Hfacts as [F1 [F2 _]]. destruct Hfacts2 as [G1 [G2 _]].
  rewrite Hkeys0 in F2. rewrite Hkeys in G2.
  destruct s1 as [n1 rm1 e1 x1 tb1 d1]. cbn [rnd remaining elected eliminated tiebreaks escores] in *.
  subst n1 rm1 e1 x1 s0. cbn [rnd state_of_scores] in *.
  assert (Hl2 : length (cands p1) = 2%nat) by lia.
  assert (Hle2 : length (flat el2) = 1%nat) by lia.
  assert (Hlr2 : length (flat rem2) = 1%nat).
  { pose proof (Permutation_length G2) as Hpl. rewrite app_length in Hpl. lia. }
  destruct (flat el2) as [|w [|w' lw]] eqn:Ew; try discriminate.
  destruct (flat rem2) as [|l [|l' ll]] eqn:El; try discriminate.
  assert (Hwl : Permutation [w; l] (flat el)).
  { eapply Permutation_trans; [exact G2|exact Hperm]. }
  eexists. eexists. eexists. split; [exact Hsts|]. subst sts.
  cbn [rnd elected eliminated remaining state_of_scores].
  split; [reflexivity|]. split; [reflexivity|]. split; [reflexivity|]. split; [lia|].
  split; [reflexivity|]. split; [reflexivity|]. split; [reflexivity|]. split; [exact F1|].
  split; [exact F2|]. split; [reflexivity|].
  split; [exists w, l; repeat split; assumption|].
  split.
  - apply (elects_exactly_intro cand ceqb); [discriminate| |].
    + rewrite map_elected_in. unfold fe. cbn [map concat elected state_of_scores].
      rewrite Ew. reflexivity.
    + rewrite map_elected_in. unfold fe. cbn [map concat elected state_of_scores].
      rewrite Ew. cbn. repeat constructor. intros [].
  - apply partitions_intro. intros r st Hn. destruct r as [|[|[|r]]]; cbn [nth_error] in Hn.
    + inversion Hn; subst st. apply partition_fields. unfold fe, fx.
      cbn [firstn map concat elected eliminated remaining state_of_scores app].
      unfold STV.no_group. cbn [Core.flat concat app]. rewrite app_nil_r. rewrite <- Hkeys0.
      apply (score_to_ranking_flat_perm_all cand).
    + inversion Hn; subst st. apply partition_fields. unfold fe, fx.
      cbn [firstn map concat elected eliminated remaining state_of_scores app].
      unfold STV.no_group. cbn [Core.flat concat app]. rewrite app_nil_r. exact F2.
    + inversion Hn; subst st. apply partition_fields. unfold fe, fx.
      cbn [firstn map concat elected eliminated remaining state_of_scores app].
      unfold STV.no_group. cbn [Core.flat concat app]. rewrite !app_nil_r.
      fold (flat el2). fold (flat rem2). fold (flat rem). rewrite Ew, El. cbn [app].
      eapply Permutation_trans; [|exact F2].
      change (w :: l :: flat rem) with ([w; l] ++ flat rem). apply Permutation_app_tail. exact Hwl.
    + destruct r; discriminate.
Qed.

(* ------------------------------------------------------------------ *)
(** * errors of Plurality, of the Plurality stage, of TopTwo *)

Lemma plurality_error_kinds : forall m tb (p : profile) s e, ranked_profile p ->
  run_plurality m tb p s = inr e -> e = EValue \/ (e = EScript /\ tb <> None).
Proof.
  intros m tb p s e Hr H. destruct (plurality_errors cand ceqb ceqb_spec m p Hr) as [d [_ [_ [_ [_ [_ H6]]]]]].
  cbn [Rules.run_rule] in H6. destruct (H6 tb s e H) as [[He _]|He]; [left; exact He|right; exact He].
Qed.

Lemma plurality_stage_errors : forall m tb (p : profile) prev s e, ranked_profile p ->
  plurality_stage m tb p prev s = inr e -> run_plurality m tb p s = inr e.
Proof.
  intros m tb p prev s e Hr H. unfold Rules.plurality_stage in H. unfold mbind at 1 in H.
  destruct (run_plurality m tb p s) as [[sts s1]|e0] eqn:Hrun; [|inversion H; reflexivity]. exfalso.
  pose proof Hrun as Hrun'. rewrite (run_plurality_ranked cand ceqb m tb p s Hr) in Hrun'.
  destruct (run_one_shot_inv cand ceqb _ _ _ _ _ _ _ Hrun') as [d [el [rem [t [np [d1 [_ [_ [_ [_ ->]]]]]]]]]].
  cbv zeta in H. cbn [remaining elected] in H.
  destruct (ranked_remove_ok cand ceqb ceqb_spec (flat rem) p (proj1 (proj1 Hr))) as [np1 Hnp1].
  rewrite mbind_mlift, Hnp1 in H.
  destruct (ranked_fpv cand ceqb ceqb_spec np1 (proj1 (ranked_remove cand ceqb ceqb_spec _ p np1 Hr Hnp1))) as [d2 Hd2].
  rewrite mbind_mlift, Hd2 in H. discriminate.
Qed.

Lemma plurality_stage_ranked : forall m tb (p : profile) prev s p1 s1 sa, ranked_profile p ->
  plurality_stage m tb p prev s = inl ((p1, s1), sa) -> ranked_profile p1.
Proof.
  intros m tb p prev s p1 s1 sa Hr H. apply (plurality_stage_iff cand ceqb) in H.
  destruct H as [q0 [q1 [d [_ [Hnp _]]]]]. eapply (ranked_remove cand ceqb ceqb_spec); eassumption.
Qed.

Lemma one_shot_step_error_kinds : forall k m tb (p : profile) prev s e, shot_dom cand k p -> wf_profile p ->
  one_shot_step k m tb p prev s = inr e -> e = EValue \/ (e = EScript /\ tb <> None).
Proof.
  intros k m tb p prev s e Hdom Hwf H. unfold Rules.one_shot_step in H. unfold mbind at 1 in H.
  destruct (elect_top_m (remaining prev) m (Some p) tb s) as [[[[el rem] t] s1]|e0] eqn:Hel.
  - exfalso.
    destruct (ranked_remove_ok cand ceqb ceqb_spec (flat el) p (shot_dom_nodup cand k p Hdom)) as [np Hnp].
    rewrite mbind_mlift, Hnp in H.
    destruct (shot_dom_score cand ceqb ceqb_spec k np (shot_dom_remove cand ceqb ceqb_spec k _ p np Hdom Hnp)) as [d1 Hd1].
    rewrite mbind_mlift, Hd1 in H. discriminate.
  - inversion H; subst e0.
    destruct (elect_top_m_err_ranked cand ceqb ceqb_spec _ _ _ _ _ _ Hwf Hel) as [[He _]|He];
      [left; exact He|right; exact He].
Qed.

Theorem toptwo_error_kinds : forall tb (p : profile) s e, ranked_profile p ->
  run_toptwo tb p s = inr e -> e = EValue \/ (e = EScript /\ tb <> None).
Proof.
  intros tb p s e Hr H. unfold Rules.run_toptwo in H.
  rewrite mbind_mlift, (wf_profile_ranking_validate cand p (proj1 Hr)) in H.
  destruct (ranked_fpv cand ceqb ceqb_spec p (proj1 Hr)) as [d0 Hd0].
  unfold Rules.round0 in H. cbn [Rules.score_fn] in H. rewrite Hd0 in H. cbn [rbind] in H.
  rewrite mbind_mlift in H. unfold ok in H.
  unfold mbind at 1 in H.
  destruct (plurality_stage 2 tb p _ s) as [[[p1 s1] sa]|e0] eqn:Hst.
  2:{ inversion H; subst e0. apply plurality_stage_errors in Hst; [|exact Hr].
      eapply plurality_error_kinds; eassumption. }
  pose proof (plurality_stage_ranked _ _ _ _ _ _ _ _ Hr Hst) as Hr1.
  unfold mbind at 1 in H.
  destruct (run_plurality 1 tb p1 sa) as [[qs sb]|e0] eqn:Hp1.
  2:{ inversion H; subst e0. eapply plurality_error_kinds; eassumption. }
  pose proof Hp1 as Hp1'. rewrite (run_plurality_ranked cand ceqb 1 tb p1 sa Hr1) in Hp1'.
  destruct (run_one_shot_inv cand ceqb _ _ _ _ _ _ _ Hp1') as [d [el [rem [t [np [d1 [_ [_ [_ [_ ->]]]]]]]]]].
  unfold mbind at 1 in H.
  match type of H with context [one_shot_step ?k ?m ?tb' ?pp ?prev ?ss] =>
    destruct (one_shot_step k m tb' pp prev ss) as [[x sc]|e0] eqn:Hrep end.
  - discriminate.
  - inversion H; subst e0.
    eapply (one_shot_step_error_kinds SKFpv); [exact Hr1|exact (proj1 Hr1)|exact Hrep].
Qed.

(* without a tie-break rule TopTwo fails, with ValueError, exactly when there are fewer than two
   candidates, when a first-place tie straddles the second seat, or when the two finalists tie
   head to head *)
Theorem toptwo_errors_none : forall (p : profile) s, ranked_profile p ->
  exists d0 s0, first_place_votes p = inl d0 /\ round0 SKFpv p = inl s0 /\
    (run_toptwo None p s = inr EValue <->
       (Z.of_nat (length (cands p)) < 2)%Z \/ straddles_seat (score_to_ranking d0 true) 2 \/
       (exists p1 s1 sa a b qa qb, plurality_stage 2 None p s0 s = inl ((p1, s1), sa) /\
          a <> b /\ In (a, qa) (escores s1) /\ In (b, qb) (escores s1) /\ qa == qb)) /\
    (forall e, run_toptwo None p s = inr e -> e = EValue).
Proof.
  intros p s Hr. destruct (ranked_fpv cand ceqb ceqb_spec p (proj1 Hr)) as [d0 Hd0].
  exists d0. eexists. split; [exact Hd0|]. split.
  { unfold Rules.round0. cbn [Rules.score_fn]. rewrite Hd0. reflexivity. }
  set (s0 := state_of_scores cand 0 no_group no_group [] d0).
  split.
  2:{ intros e He. destruct (toptwo_error_kinds None p s e Hr He) as [H|[_ H]]; [exact H|contradiction H; reflexivity]. }
  assert (Hv : ranking_validate p = inl tt) by exact (wf_profile_ranking_validate cand p (proj1 Hr)).
  assert (H0 : round0 SKFpv p = inl s0).
  { unfold Rules.round0. cbn [Rules.score_fn]. rewrite Hd0. reflexivity. }
  destruct (plurality_errors cand ceqb ceqb_spec 2 p Hr) as [d0' [Hd0' [Hk0 [Hiff [Honly [Htot _]]]]]].
  cbn [Rules.score_fn] in Hd0'. rewrite Hd0 in Hd0'. inversion Hd0'; subst d0'. clear Hd0'.
  cbn [Rules.run_rule] in Hiff, Honly, Htot.
  split.
  - intros H. unfold Rules.run_toptwo in H. rewrite mbind_mlift, Hv, mbind_mlift, H0 in H.
    unfold mbind at 1 in H.
    destruct (plurality_stage 2 None p s0 s) as [[[p1 s1] sa]|e0] eqn:Hst.
    + right. right.
      pose proof (plurality_stage_ranked _ _ _ _ _ _ _ _ Hr Hst) as Hr1.
      destruct (plurality_stage_spec cand ceqb ceqb_spec _ _ _ _ _ _ _ _ (proj1 (proj1 Hr)) Hst)
        as [d0' [el [rem [t [r0 [r1 [_ [_ [_ [_ [_ [_ [_ [_ [_ [_ [Hd1 [_ [_ [_ [_ [_ [_ [Hndp1 Hlen]]]]]]]]]]]]]]]]]]]]]]]].
      unfold mbind at 1 in H.
      destruct (run_plurality 1 None p1 sa) as [[qs sb]|e0] eqn:Hp1.
      * exfalso.
        pose proof Hp1 as Hp1'. rewrite (run_plurality_ranked cand ceqb 1 None p1 sa Hr1) in Hp1'.
        rewrite (run_one_shot_unfold cand ceqb) in Hp1'.
        destruct (score_fn SKFpv p1) as [d|] eqn:Hd; [|discriminate].
        destruct (elect_top_m (score_to_ranking d true) 1 (Some p1) None sa) as [[[[el2 rem2] t2] s2]|] eqn:Hel2;
          [|discriminate].
        destruct (remove_cand_prof (flat el2) true false p1) as [np2|] eqn:Hnp2; [|discriminate].
        destruct (score_fn SKFpv np2) as [d2|] eqn:Hd2; [|discriminate].
        inversion Hp1'; subst qs sb. clear Hp1'.
        unfold Rules.one_shot_step in H. cbn [remaining state_of_scores] in H.
        assert (Hs2 : s2 = sa).
        { destruct (elect_top_m_shape cand ceqb _ _ _ _ _ _ _ _ _ Hel2) as [_ [[_ [E _]]|[pre [g [post [t0 [kind [j [Hc _]]]]]]]]];
            [exact E|discriminate]. }
        subst s2. unfold mbind at 1 in H. unfold mbind at 1 in H. rewrite Hel2 in H.
        rewrite mbind_mlift, Hnp2, mbind_mlift, Hd2 in H. discriminate.
      * inversion H; subst e0.
        destruct (plurality_errors cand ceqb ceqb_spec 1 p1 Hr1) as [d [Hd [Hk [Hiff1 _]]]].
        cbn [Rules.run_rule Rules.score_fn] in Hiff1, Hd.
        assert (Hdd : d = escores s1) by congruence. subst d.
        apply Hiff1 in Hp1. destruct Hp1 as [[Hc|Hc]|Hstr]; [lia|lia|].
        destruct Hstr as [pre [g [post [Hrk [Hpre Hg]]]]].
        assert (Hnde : NoDup (map fst (escores s1))) by (rewrite Hk; exact Hndp1).
        assert (Hne : escores s1 <> []).
        { intros E. rewrite E in Hrk. cbn in Hrk. destruct pre as [|? [|? ?]]; inversion Hrk; subst; cbn in Hg; lia. }
        assert (Hpre0 : flat pre = []) by (destruct (flat pre); [reflexivity|cbn [length] in Hpre; lia]).
        rewrite Hpre0 in Hg. cbn [length] in Hg.
        assert (Hgnd : NoDup g).
        { pose proof (score_to_ranking_flat_perm_all cand (escores s1)) as Hfp.
          rewrite Hrk, (flat_app cand), (flat_cons cand) in Hfp.
          apply (Permutation_NoDup (Permutation_sym Hfp)) in Hnde.
          apply NoDup_app_inv in Hnde. destruct Hnde as [_ [Hnde _]].
          apply (NoDup_app_inv _ _ Hnde). }
        destruct g as [|a [|b g']]; [cbn in Hg; lia|cbn in Hg; lia|].
        assert (Hab : a <> b).
        { intros E. subst b. inversion Hgnd as [|x l Hnin _]; subst. apply Hnin. left. reflexivity. }
        assert (Hing : In (a :: b :: g') (score_to_ranking (escores s1) true)).
        { rewrite Hrk. apply in_or_app. right. left. reflexivity. }
        assert (Hina : In a (map fst (escores s1))).
        { eapply Permutation_in; [apply (score_to_ranking_flat_perm_all cand)|].
          apply in_concat_iff. exists (a :: b :: g'). split; [exact Hing|left; reflexivity]. }
        assert (Hinb : In b (map fst (escores s1))).
        { eapply Permutation_in; [apply (score_to_ranking_flat_perm_all cand)|].
          apply in_concat_iff. exists (a :: b :: g'). split; [exact Hing|right; left; reflexivity]. }
        apply in_map_iff in Hina. destruct Hina as [[a' qa] [Ea Hina]]. cbn [fst] in Ea. subst a'.
        apply in_map_iff in Hinb. destruct Hinb as [[b' qb] [Eb Hinb]]. cbn [fst] in Eb. subst b'.
        exists p1, s1, sa, a, b, qa, qb. split; [reflexivity|]. split; [exact Hab|].
        split; [exact Hina|]. split; [exact Hinb|].
        apply (score_to_ranking_same_group_iff cand (escores s1) a b qa qb Hne Hnde Hina Hinb).
        exists (a :: b :: g'). split; [exact Hing|]. split; [left; reflexivity|right; left; reflexivity].
    + inversion H; subst e0. apply plurality_stage_errors in Hst; [|exact Hr].
      apply Hiff in Hst. destruct Hst as [[Hc|Hc]|Hc]; [lia|left; exact Hc|right; left; exact Hc].
  - intros [Hn|[Hstr|Htie]].
    + assert (Hp : run_plurality 2 None p s = inr EValue) by (apply Hiff; left; right; exact Hn).
      unfold Rules.run_toptwo. rewrite mbind_mlift, Hv, mbind_mlift, H0.
      apply mbind_err. unfold Rules.plurality_stage. apply mbind_err. exact Hp.
    + assert (Hp : run_plurality 2 None p s = inr EValue) by (apply Hiff; right; exact Hstr).
      unfold Rules.run_toptwo. rewrite mbind_mlift, Hv, mbind_mlift, H0.
      apply mbind_err. unfold Rules.plurality_stage. apply mbind_err. exact Hp.
    + destruct Htie as [p1 [s1 [sa [a [b [qa [qb [Hst [Hab [Ha [Hb Heq]]]]]]]]]]].
      exact (proj2 (c13_toptwo_tie_proof cand ceqb ceqb_spec p s s0 p1 s1 sa a b qa qb
                      (proj1 (proj1 Hr)) Hv H0 Hst Hab Ha Hb Heq)).
Qed.


(* ------------------------------------------------------------------ *)
(** * Alaska: a successful run *)

Lemma stage_profile_wf_stv : forall W (p p1 : profile), wf_stv0 p ->
  remove_cand_prof W true false p = inl p1 -> wf_stv0 p1.
Proof.
  intros W p p1 [Hnd Hb] H. unfold Core.remove_cand_prof in H.
  destruct (next_profile_ok cand ceqb ceqb_spec (cands p) W (ballots p) Hnd Hb) as [E Hwf].
  rewrite E in H. inversion H; subst. exact Hwf.
Qed.

Lemma stage_script_ok : forall m tb (p : profile) prev s x sa,
  plurality_stage m tb p prev s = inl (x, sa) -> script_ok s -> script_ok sa.
Proof.
  intros m tb p prev s x sa H Hs.
  destruct (local_prefix cand _ _ (Local_plurality_stage cand ceqb m tb p prev) s x sa H)
    as [used [calls [Hu _]]].
  apply (script_ok_suffix cand s sa); [exists used; exact Hu|exact Hs].
Qed.

Lemma perm_insert : forall (A R X Y C1 C : cset),
  Permutation (A ++ R ++ X) C1 -> Permutation (C1 ++ Y) C -> Permutation (A ++ R ++ Y ++ X) C.
Proof.
  intros A R X Y C1 C H1 H2. eapply Permutation_trans; [|exact H2].
  eapply Permutation_trans; [|apply Permutation_app_tail; exact H1].
  rewrite <- !app_assoc. apply Permutation_app_head. apply Permutation_app_head.
  apply Permutation_app_comm.
Qed.

Lemma initial_state_fields : forall (p : profile) q0, initial_state p = inl q0 ->
  elected q0 = [[]] /\ eliminated q0 = [[]].
Proof.
  intros p q0 H. unfold STV.initial_state in H.
  destruct (first_place_votes p) as [d|e]; [|discriminate]. cbn [rbind] in H. unfold ok in H.
  inversion H. split; reflexivity.
Qed.

Theorem alaska_run_outcome : forall m1 m2 cfg (p : profile) s sts s',
  wf_stv0 p -> (s_transfer cfg = TRandom -> script_ok s) ->
  run_alaska m1 m2 cfg p s = inl (sts, s') ->
  (1 <= m2 <= m1)%Z /\ (m1 <= Z.of_nat (length (cands p)))%Z /\ numbered sts /\
  (* rounds 0 and 1: nobody elected; after round 1 the m1 Plurality winners remain and everybody
     else is eliminated *)
  (exists s0 s1 rest, sts = s0 :: s1 :: rest /\ rest <> [] /\
     elected s0 = [[]] /\ eliminated s0 = [[]] /\ elected s1 = [[]] /\
     Z.of_nat (length (flat (remaining s1))) = m1 /\
     Permutation (flat (remaining s1) ++ flat (eliminated s1)) (cands p)) /\
  elects_exactly sts m2 /\ partitions (cands p) sts.
Proof.
  intros m1 m2 cfg p s sts s' Hwf Hscr H.
  destruct (c13_alaska_states_proof cand ceqb ceqb_spec m1 m2 cfg p s sts s' (proj1 Hwf) H)
    as [s0 [p1 [s1 [sa [ssts [sb [d [el [rem [t [Hargs [H0 [Hr0 [Hes0 [Hd [Hst [Hel [Hfacts [Hnp [Hr1
       [Hrem1 [Hel1 [Helim1 [Htb1 [Hd1 [Hperm [Hlen [Hrun [[q0 [Hq0 [Hssts Hesq0]]] [Hsts [Hnum Hlensts]]]]]]]]]]]]]]]]]]]]]]]]]]]]]]].
  assert (Hs0 : s0 = state_of_scores cand 0 no_group no_group [] d).
  { unfold Rules.round0 in H0. cbn [Rules.score_fn] in H0. rewrite Hd in H0. cbn [rbind] in H0.
    unfold ok in H0. inversion H0. reflexivity. }
  assert (Hkeys : map fst d = cands p).
  { unfold Core.first_place_votes in Hd. exact (score_rankings_keys cand ceqb p _ d Hd). }
  destruct Hfacts as [F1 [F2 _]]. rewrite Hkeys in F2.
  pose proof (stage_profile_wf_stv _ _ _ Hwf Hnp) as Hwf1.
  assert (Hscr1 : s_transfer (with_m cfg m2) = TRandom -> script_ok sa).
  { intros E. eapply stage_script_ok; [exact Hst|apply Hscr; exact E]. }
  pose proof (run_stv_partition cand ceqb ceqb_spec _ _ _ _ _ Hwf1 Hscr1 Hrun) as Hpart.
  destruct (run_stv_count cand ceqb ceqb_spec _ _ _ _ _ Hwf1 Hscr1 Hrun) as [Hcount Hndel].
  destruct (initial_state_fields p1 q0 Hq0) as [Hq0e Hq0x].
  set (T := tl ssts) in *.
  destruct s1 as [n1 rm1 e1 x1 tb1 d1]. cbn [rnd remaining elected eliminated tiebreaks escores] in *.
  subst n1 rm1 e1 x1.
  assert (Hfe0 : fe s0 = []) by (rewrite Hs0; reflexivity).
  assert (Hfx0 : fx s0 = []) by (rewrite Hs0; reflexivity).
  assert (Hfeq : fe q0 = []) by (unfold fe; rewrite Hq0e; reflexivity).
  assert (Hfxq : fx q0 = []) by (unfold fx; rewrite Hq0x; reflexivity).
  assert (HT : T <> []).
  { intros E. rewrite Hssts, E in Hcount. rewrite (count_elected_all cand) in Hcount.
    unfold STVSpec.all_elected in Hcount. cbn [map concat] in Hcount.
    rewrite elected_in_fe, Hfeq in Hcount. cbn in Hcount. cbn [with_m s_m] in Hcount. lia. }
  split; [exact Hargs|]. split.
  { pose proof (Permutation_length F2) as Hl. rewrite app_length in Hl. lia. }
  split; [exact Hnum|]. split.
  { eexists. eexists. eexists. split; [exact Hsts|]. cbn [elected eliminated remaining].
    split; [destruct T; [contradiction HT; reflexivity|discriminate]|].
    split; [rewrite Hs0; reflexivity|]. split; [rewrite Hs0; reflexivity|].
    split; [reflexivity|]. split; [exact F1|exact F2]. }
  assert (Hall : concat (map elected_in sts) = all_elected ssts).
  { rewrite Hsts, Hssts. unfold STVSpec.all_elected. rewrite !map_elected_in. cbn [map concat].
    rewrite Hfe0, Hfeq, map_fe_bump. reflexivity. }
  split.
  - apply (elects_exactly_intro cand ceqb).
    + rewrite Hsts. discriminate.
    + rewrite Hall, <- (count_elected_all cand). exact Hcount.
    + rewrite Hall. exact Hndel.
  - apply partitions_intro. intros r st Hn. rewrite Hsts in Hn |- *.
    destruct r as [|[|i]]; cbn [nth_error] in Hn.
    + inversion Hn; subst st. apply partition_fields. rewrite firstn_cons, firstn_O. cbn [map concat].
      rewrite Hfe0, Hfx0.
      cbn [app]. rewrite app_nil_r. rewrite Hs0. cbn [remaining state_of_scores]. rewrite <- Hkeys.
      apply (score_to_ranking_flat_perm_all cand).
    + inversion Hn; subst st. apply partition_fields. rewrite !firstn_cons, firstn_O. cbn [map concat].
      rewrite Hfe0, Hfx0.
      unfold fe at 1. unfold fx at 1. cbn [elected eliminated remaining]. cbn [Core.flat concat app].
      rewrite app_nil_r. exact F2.
    + rewrite nth_error_map in Hn. destruct (nth_error T i) as [x|] eqn:Hx; [|discriminate].
      cbn [option_map] in Hn. inversion Hn; subst st. clear Hn.
      assert (Hx' : nth_error ssts (S i) = Some x) by (rewrite Hssts; exact Hx).
      pose proof (fields_partition _ _ _ _ (Hpart (S i) x Hx')) as P.
      rewrite Hssts in P. rewrite firstn_cons in P. cbn [map concat] in P. rewrite Hfeq, Hfxq in P. cbn [app] in P.
      apply partition_fields. rewrite (firstn_cons (S (S i))), (firstn_cons (S i)). cbn [map concat].
      rewrite firstn_map, map_fe_bump, map_fx_bump.
      rewrite Hfe0, Hfx0. unfold fe at 1. unfold fx at 1. cbn [elected eliminated]. cbn [Core.flat concat app].
      change (remaining (bump x)) with (remaining x).
      eapply perm_insert; [exact P|].
      eapply Permutation_trans; [apply Permutation_app_tail; exact Hperm|exact F2].
Qed.

(* ------------------------------------------------------------------ *)
(** * Alaska: errors *)

(* the get_profile replay made at the end cannot fail when the STV stage did not use the random
   transfer and recorded no tiebreak: it then repeats the very calls of the run and draws nothing *)
Theorem alaska_replay_ok : forall cfg (p1 : profile) sa ssts sb t,
  s_transfer cfg <> TRandom ->
  run_stv cfg p1 sa = inl (ssts, sb) -> stv_init cfg p1 = inl t ->
  Forall no_tiebreak ssts ->
  forall s2, exists pf, stv_replay cfg t p1 [] p1 (removelast ssts) s2 = inl (pf, s2).
Proof.
  intros cfg p1 sa ssts sb t Hk Hrun Ht Hq s2.
  destruct (C10_quiet.run_stv_inv cand ceqb _ _ _ _ _ Hrun) as [t' [q0 [newer [Ht' [_ [-> Hsteps]]]]]].
  rewrite Ht in Ht'. inversion Ht'; subst t'.
  inversion Hq as [|a l _ Hq']; subst.
  destruct (C10_quiet.steps_replay cand ceqb _ _ _ _ _ _ _ _ Hk Hsteps Hq' q0 [] eq_refl s2) as [pf Hrep].
  exists pf. exact Hrep.
Qed.

Theorem alaska_errors : forall m1 m2 cfg (p : profile) s e,
  wf_stv0 p -> s_quota cfg = QDroop -> s_transfer cfg <> TFullWeight ->
  (s_transfer cfg = TRandom -> script_ok s) ->
  run_alaska m1 m2 cfg p s = inr e ->
  e = EValue \/ e = EScript \/ (s_transfer cfg = TRandom /\ e = EType) \/
  (* the error was raised by the get_profile replay of an STV stage that had succeeded but had
     recorded a tiebreak (or used the random transfer) *)
  (exists s0 p1 s1 sa ssts sb t,
     plurality_stage m1 (s_tiebreak cfg) p s0 s = inl ((p1, s1), sa) /\
     run_stv (with_m cfg m2) p1 sa = inl (ssts, sb) /\ stv_init (with_m cfg m2) p1 = inl t /\
     stv_replay (with_m cfg m2) t p1 [] p1 (removelast ssts) sb = inr e /\
     (s_transfer cfg = TRandom \/ ~ Forall no_tiebreak ssts)).
Proof.
  intros m1 m2 cfg p s e Hwf Hq Hk Hscr H.
  pose proof (wf_stv0_ranked p Hwf) as Hr.
  unfold Rules.run_alaska in H. rewrite mbind_mlift in H.
  destruct (alaska_args m1 m2) as [[]|e0] eqn:Ha.
  2:{ inversion H; subst e0. left. exact (proj1 (proj2 (alaska_args_iff m1 m2)) e Ha). }
  rewrite mbind_mlift, (wf_profile_ranking_validate cand p (proj1 Hr)) in H.
  destruct (ranked_fpv cand ceqb ceqb_spec p (proj1 Hr)) as [d0 Hd0].
  unfold Rules.round0 in H. cbn [Rules.score_fn] in H. rewrite Hd0 in H. cbn [rbind] in H.
  rewrite mbind_mlift in H. unfold ok in H. unfold mbind at 1 in H.
  destruct (plurality_stage m1 (s_tiebreak cfg) p _ s) as [[[p1 s1] sa]|e0] eqn:Hst.
  2:{ inversion H; subst e0. apply plurality_stage_errors in Hst; [|exact Hr].
      destruct (plurality_error_kinds _ _ _ _ _ Hr Hst) as [He|[He _]]; [left; exact He|right; left; exact He]. }
  cbv zeta in H.
  assert (Hwf1 : wf_stv0 p1).
  { pose proof Hst as Hst'. apply (plurality_stage_iff cand ceqb) in Hst'.
    destruct Hst' as [q0 [q1 [d [_ [Hnp _]]]]]. eapply stage_profile_wf_stv; eassumption. }
  assert (Hscr1 : s_transfer (with_m cfg m2) = TRandom -> script_ok sa).
  { intros E. eapply stage_script_ok; [exact Hst|apply Hscr; exact E]. }
  rewrite mbind_mlift in H.
  destruct (stv_init (with_m cfg m2) p1) as [t|e0] eqn:Hinit.
  2:{ inversion H; subst e0.
      destruct (stv_init_err_gen cand _ _ _ Hwf1 Hinit) as [(He & Ht & _)|(He & _)].
      - right. right. left. split; [exact Ht|exact He].
      - left. exact He. }
  unfold mbind at 1 in H.
  destruct (run_stv (with_m cfg m2) p1 sa) as [[ssts sb]|e0] eqn:Hrun.
  2:{ inversion H; subst e0.
      destruct (droop_run_errors cand ceqb ceqb_spec (with_m cfg m2) p1 sa e Hwf1 Hq Hk Hscr1 Hrun)
        as [[He _]|[He|[[He _]|[Ht [He|He]]]]].
      - left. exact He.
      - right. left. exact He.
      - left. exact He.
      - right. right. left. split; [exact Ht|exact He].
      - left. exact He. }
  unfold mbind at 1 in H.
  destruct (stv_replay (with_m cfg m2) t p1 [] p1 (removelast ssts) sb) as [[pf sc]|e0] eqn:Hrep;
    [discriminate|].
  inversion H; subst e0. right. right. right.
  eexists. exists p1, s1, sa, ssts, sb, t. split; [exact Hst|]. split; [exact Hrun|].
  split; [exact Hinit|]. split; [exact Hrep|].
  destruct (s_transfer cfg) eqn:Etr.
  - right. intros Hquiet.
    assert (Hk2 : s_transfer (with_m cfg m2) <> TRandom) by (cbn [with_m s_transfer]; rewrite Etr; discriminate).
    destruct (alaska_replay_ok (with_m cfg m2) p1 sa ssts sb t Hk2 Hrun Hinit Hquiet sb) as [pf Hok].
    rewrite Hok in Hrep. discriminate.
  - left. reflexivity.
  - contradiction Hk. reflexivity.
Qed.


(* hence Alaska always terminates on valid input (Droop quota, quota-preserving transfer): the
   inner STV count does (Properties/C01_stv.v) and the replay contains no loop *)
Theorem alaska_no_fuel : forall m1 m2 cfg (p : profile) s,
  wf_stv0 p -> s_quota cfg = QDroop -> s_transfer cfg <> TFullWeight ->
  (s_transfer cfg = TRandom -> script_ok s) ->
  run_alaska m1 m2 cfg p s <> inr EFuel.
Proof.
  intros m1 m2 cfg p s Hwf Hq Hk Hscr H.
  destruct (alaska_errors m1 m2 cfg p s EFuel Hwf Hq Hk Hscr H)
    as [He|[He|[[_ He]|[s0 [p1 [s1 [sa [ssts [sb [t [_ [_ [_ [Hrep _]]]]]]]]]]]]]]; try discriminate.
  exact (stv_replay_no_fuel cand ceqb _ _ _ _ _ _ _ Hrep).
Qed.

(* the rules without a loop never report non-termination, whatever the input *)
Theorem loop_free_no_fuel : forall (p : profile) s,
  (forall m tb, run_rule cand ceqb (RPlurality m tb) p s <> inr EFuel) /\
  (forall m v tb, run_rule cand ceqb (RBorda m v tb) p s <> inr EFuel) /\
  (forall m L k tb, run_rule cand ceqb (RRating m L k tb) p s <> inr EFuel) /\
  (forall m k tb, run_rule cand ceqb (RLimited m k tb) p s <> inr EFuel) /\
  (forall m k tb, run_rule cand ceqb (RBloc m k tb) p s <> inr EFuel) /\
  run_rule cand ceqb RDominating p s <> inr EFuel /\
  (forall m, run_rule cand ceqb (RCondoBorda m) p s <> inr EFuel) /\
  (forall tb, run_rule cand ceqb (RTopTwo tb) p s <> inr EFuel).
Proof.
  intros p s.
  split; [intros m tb; apply (run_plurality_no_fuel cand ceqb)|].
  split.
  { intros m v tb. rewrite (run_borda_prologue cand ceqb).
    destruct (validate_vector (borda_vec cand v p)) as [[]|e] eqn:Hv.
    - destruct (ranking_validate p) as [[]|e] eqn:Hr.
      + apply (one_shot_no_fuel cand ceqb).
      + intros H. inversion H; subst e.
        pose proof (proj1 (proj2 (ranking_validate_iff cand p)) _ Hr). discriminate.
    - intros H. inversion H; subst e.
      pose proof (proj1 (proj2 (validate_vector_err_iff _)) _ Hv). discriminate. }
  cbn [Rules.run_rule].
  split; [intros m L k tb; apply (run_rating_no_fuel cand ceqb)|].
  split.
  { intros m k tb. destruct (Qlt_bool (inject_Z m) k); [discriminate|apply (run_rating_no_fuel cand ceqb)]. }
  split; [intros m k tb; apply (run_rating_no_fuel cand ceqb)|].
  split; [apply (run_dominating_no_fuel cand ceqb)|].
  split; [intros m; apply (run_condo_no_fuel cand ceqb)|].
  intros tb. apply (run_toptwo_no_fuel cand ceqb).
Qed.

End Composite.
