(* Proofs/C20_more.v — C20, forward directions and the laziness of some checks:
   - requests refused by the up-front checks are refused whatever the random script is;
   - seat counts out of range: CondoBorda, Alaska (with the order of the checks);
   - an unknown tiebreak name is a ValueError exactly when the tiebreak is consulted (STV round,
     TopTwo / Alaska first stage, PluralityVeto veto loop; the one-shot rules are in
     Proofs/C05_tiebreaks.v);
   - the random transfer: since the fix "refuse non-integer weights up front" the constructor
     (stv_init) raises TypeError for any non-integral weight; the old lazy check (made on a pile
     when that pile is transferred) is still in the transfer function but no run reaches it. *)
From VK Require Import Base Core STV Pairwise Rules PV Election.
From VK.Spec Require Import ScoreSpec EditSpec RatingSpec TopMSpec STVSpec Anon TieSpec PairwiseSpec RunSpec
  OneShotSpec UpfrontSpec.
From VK.Proofs Require Import Lib_sets C04_scoring Elect C11_profile C12_edit C03_transfer C20_validation
  C05_rating C10_script C10_quiet C10_tiebreak C13_composite STV_threshold STV_tb STV_lib STV_step STV_round STV_weights
  STV_inv C06_pairwise C06_tiers C08_anon C01_lib C01_rules C01_composite C05_tiebreaks.
From Coq Require Import Permutation Lia Lqa.

Section More.
Variable cand : Type.
Variable ceqb : cand -> cand -> bool.
Hypothesis ceqb_spec : forall a b, reflect (a = b) (ceqb a b).

Notation cset := (cset cand).
Notation ranking := (ranking cand).
Notation ballot := (ballot cand).
Notation profile := (profile cand).
Notation scores := (scores cand).
Notation estate := (estate cand).
Notation mstate := (mstate cand).
Notation flat := (flat cand).
Notation memb := (memb cand ceqb).
Notation wf_profile := (wf_profile cand).
Notation ranked_profile := (ranked_profile cand).
Notation straddles_seat := (straddles_seat cand).
Notation untied_profile := (untied_profile cand).
Notation score_free := (EditSpec.score_free cand).
Notation wf_stv0 := (wf_stv0 cand).
Notation integral_weights := (integral_weights cand).
Notation script_ok := (script_ok cand).
Notation step_ctx := (step_ctx cand ceqb).
Notation tally := (tally cand ceqb).
Notation first_place_votes := (first_place_votes cand ceqb).
Notation borda_scores := (borda_scores cand ceqb).
Notation score_to_ranking := (score_to_ranking cand).
Notation dominating_tiers := (dominating_tiers cand ceqb).
Notation tiebreak_set := (tiebreak_set cand ceqb).
Notation elect_top_m := (elect_top_m cand ceqb).
Notation ranking_validate := (ranking_validate cand).
Notation run_plurality := (run_plurality cand ceqb).
Notation plurality_stage := (plurality_stage cand ceqb).
Notation run_toptwo := (run_toptwo cand ceqb).
Notation run_alaska := (run_alaska cand ceqb).
Notation run_condo := (run_condo cand ceqb).
Notation run_stv := (run_stv cand ceqb).
Notation stv_step := (stv_step cand ceqb).
Notation stv_loop := (stv_loop cand ceqb).
Notation stv_init := (stv_init cand).
Notation run_rule := (run_rule cand ceqb).
Notation run_pv := (run_pv cand ceqb).
Notation upfront := (upfront cand).
Notation pv_upfront := (pv_upfront cand).
Notation round0 := (round0 cand ceqb).
Notation pile := (pile cand ceqb).

(* ------------------------------------------------------------------ *)
(** * (d) the up-front checks do not depend on the random script *)

Theorem upfront_rejects : forall r (p : profile) e,
  upfront r p = inr e -> forall s : mstate, run_rule r p s = inr e.
Proof.
  intros r p e H s. destruct r; cbn [UpfrontSpec.upfront] in H.
  - cbn [Rules.run_rule]. unfold STV.run_stv. rewrite mbind_mlift.
    destruct (stv_init cfg p) as [t|e0]; [discriminate|]. inversion H; reflexivity.
  - cbn [Rules.run_rule]. rewrite (run_plurality_prologue cand ceqb), H. reflexivity.
  - rewrite (run_borda_prologue cand ceqb). unfold borda_vec.
    destruct (validate_vector (match v with Some (x :: l) => x :: l | _ => default_borda cand p end))
      as [[]|e0]; [|inversion H; reflexivity].
    cbn [rbind] in H. rewrite H. reflexivity.
  - cbn [Rules.run_rule]. rewrite (run_rating_prologue cand ceqb).
    destruct (rating_args m L k) as [[]|e0]; [|inversion H; reflexivity]. cbn [rbind] in H.
    rewrite H. reflexivity.
  - cbn [Rules.run_rule]. destruct (Qlt_bool (inject_Z m) k); [inversion H; reflexivity|].
    rewrite (run_rating_prologue cand ceqb).
    destruct (rating_args m k (Some k)) as [[]|e0]; [|inversion H; reflexivity]. cbn [rbind] in H.
    rewrite H. reflexivity.
  - cbn [Rules.run_rule]. cbv zeta. unfold OneShotSpec.bloc_budget in H.
    rewrite (run_rating_prologue cand ceqb).
    destruct (rating_args m 1 (Some (inject_Z match k with
                                              | Some x => if (x =? 0)%Z then m else x
                                              | None => m
                                              end))) as [[]|e0]; [|inversion H; reflexivity].
    cbn [rbind] in H. rewrite H. reflexivity.
  - cbn [Rules.run_rule]. apply (run_dominating_invalid cand ceqb). exact H.
  - cbn [Rules.run_rule]. apply (run_condo_invalid cand ceqb). exact H.
  - cbn [Rules.run_rule]. apply (run_toptwo_invalid cand ceqb). exact H.
  - cbn [Rules.run_rule]. destruct (run_alaska_prologue cand ceqb m1 m2 cfg p s) as [H1 H2].
    destruct (alaska_args m1 m2) as [[]|e0]; [|apply H1; inversion H; reflexivity].
    cbn [rbind] in H. apply H2; [reflexivity|exact H].
  - cbn [Rules.run_rule]. destruct (run_dictator_prologue cand ceqb false m p s) as [H1 H2].
    destruct (dictator_args cand m p) as [[]|e0]; [|apply H1; inversion H; reflexivity].
    cbn [rbind] in H. apply H2; [reflexivity|exact H].
  - cbn [Rules.run_rule]. destruct (run_dictator_prologue cand ceqb true m p s) as [H1 H2].
    destruct (dictator_args cand m p) as [[]|e0]; [|apply H1; inversion H; reflexivity].
    cbn [rbind] in H. apply H2; [reflexivity|exact H].
Qed.

Theorem pv_upfront_rejects : forall m tb (p : profile) e,
  pv_upfront m p = inr e -> forall s : mstate, run_pv m tb p s = inr e.
Proof.
  intros m tb p e H s. unfold UpfrontSpec.pv_upfront in H. unfold PV.run_pv. rewrite mbind_mlift.
  destruct (pv_validate cand p) as [[]|e0]; [|inversion H; reflexivity]. cbn [rbind] in H.
  destruct (m <=? 0)%Z; [inversion H; reflexivity|].
  destruct (Z.of_nat (length (cands p)) <? m)%Z; [inversion H; reflexivity|discriminate].
Qed.

(* an exception other than EScript raised with NO random source at hand was raised before any draw:
   the same exception is raised from every script *)
Theorem error_before_any_draw : forall r (p : profile) l0 e,
  run_rule r p (mkM [] l0) = inr e -> e <> EScript ->
  forall s : mstate, run_rule r p s = inr e.
Proof.
  intros r p l0 e H Hne s.
  destruct (local_error cand _ _ (Local_run_rule cand ceqb r p) _ _ H) as [used [rest0 [Hu [Hall|[_ He]]]]];
    [|contradiction].
  cbn [scr] in Hu. symmetry in Hu. apply app_eq_nil in Hu. destruct Hu as [-> _].
  apply (Hall s (scr s)). reflexivity.
Qed.

(* ------------------------------------------------------------------ *)
(** * (a) seat counts out of range: CondoBorda and Alaska *)

Lemma untied_wf : forall p : profile, untied_profile p -> wf_profile p.
Proof.
  intros p [Hnd [_ Hall]]. split; [exact Hnd|].
  rewrite Forall_forall in Hall. apply Forall_forall. intros b Hb.
  destruct (Hall b Hb) as [Hne [Hsing [Hndl [Hincl _]]]].
  split; [exact Hne|]. split; [|split; [exact Hndl|exact Hincl]].
  eapply Forall_impl; [|exact Hsing]. intros g Hg E. rewrite E in Hg. discriminate.
Qed.

Theorem condoborda_m_range : forall m (p : profile) (s : mstate), untied_profile p ->
  (m < 1 \/ Z.of_nat (length (cands p)) < m)%Z -> run_rule (RCondoBorda m) p s = inr EValue.
Proof.
  intros m p s Hp Hm. cbn [Rules.run_rule]. unfold Rules.run_condo.
  rewrite mbind_mlift, (untied_ranking_validate cand p Hp).
  destruct (ranked_borda cand ceqb ceqb_spec p (untied_wf p Hp)) as [d0 Hd0].
  unfold Rules.round0. cbn [Rules.score_fn]. rewrite Hd0. cbn [rbind].
  rewrite mbind_mlift. unfold ok. unfold mbind at 1. unfold Rules.condo_step.
  destruct (c06_tiers_top_exists_proof cand ceqb ceqb_spec p Hp) as [T0 [rest Ht]].
  rewrite mbind_mlift, Ht.
  destruct (c06_tiers_partition_proof cand ceqb ceqb_spec p Hp _ Ht) as [Hperm _].
  unfold mbind at 1. rewrite (elect_top_m_range cand ceqb); [reflexivity|].
  unfold Core.flat. rewrite (Permutation_length Hperm). exact Hm.
Qed.

Theorem condoborda_m_range_iff : forall m (p : profile) (s : mstate),
  untied_profile p -> score_free (ballots p) ->
  (run_rule (RCondoBorda m) p s = inr EValue <-> (m < 1 \/ Z.of_nat (length (cands p)) < m)%Z).
Proof.
  intros m p s Hp Hsf. split.
  - intros H. destruct (condoborda_errors cand ceqb ceqb_spec m p s EValue Hp Hsf H) as [[_ Hm]|He];
      [exact Hm|discriminate].
  - apply condoborda_m_range. exact Hp.
Qed.

Lemma plurality_stage_fwd_err : forall m tb (p : profile) prev (s : mstate) e,
  run_plurality m tb p s = inr e -> plurality_stage m tb p prev s = inr e.
Proof. intros m tb p prev s e H. unfold Rules.plurality_stage. unfold mbind at 1. rewrite H. reflexivity. Qed.

(* the part of run_alaska before the first stage, on a ranked profile *)
Lemma run_alaska_ranked : forall m1 m2 cfg (p : profile) (s : mstate), wf_profile p ->
  (1 <= m2 <= m1)%Z ->
  exists s0, round0 SKFpv p = inl s0 /\
    forall e, plurality_stage m1 (s_tiebreak cfg) p s0 s = inr e -> run_alaska m1 m2 cfg p s = inr e.
Proof.
  intros m1 m2 cfg p s Hwf Hm.
  destruct (ranked_fpv cand ceqb ceqb_spec p Hwf) as [d Hd].
  exists (state_of_scores cand 0 (no_group cand) (no_group cand) [] d).
  assert (H0 : round0 SKFpv p = inl (state_of_scores cand 0 (no_group cand) (no_group cand) [] d)).
  { unfold Rules.round0. cbn [Rules.score_fn]. rewrite Hd. reflexivity. }
  split; [exact H0|]. intros e He. unfold Rules.run_alaska.
  rewrite mbind_mlift, (proj2 (proj2 (proj2 (alaska_args_iff m1 m2))) Hm).
  rewrite mbind_mlift, (wf_profile_ranking_validate cand p Hwf).
  rewrite mbind_mlift, H0. unfold mbind at 1. rewrite He. reflexivity.
Qed.

Theorem alaska_sizes : forall m1 m2 cfg (p : profile) (s : mstate),
  (* stage sizes not ordered: ValueError, for every profile *)
  ((m1 <= 0 \/ m2 <= 0 \/ m1 < m2)%Z -> run_alaska m1 m2 cfg p s = inr EValue) /\
  (* then the profile: TypeError for a ballot without ranking *)
  ((1 <= m2 <= m1)%Z -> (exists b, In b (ballots p) /\ rk b = []) ->
     run_alaska m1 m2 cfg p s = inr EType) /\
  (* then the first stage: more seats than candidates *)
  ((1 <= m2 <= m1)%Z -> wf_profile p -> (Z.of_nat (length (cands p)) < m1)%Z ->
     run_alaska m1 m2 cfg p s = inr EValue) /\
  (* hence on a well-formed ranked profile: ValueError unless 1 <= m2 <= m1 <= n *)
  (wf_profile p -> ~ ((1 <= m2 <= m1)%Z /\ (m1 <= Z.of_nat (length (cands p)))%Z) ->
     run_alaska m1 m2 cfg p s = inr EValue).
Proof.
  intros m1 m2 cfg p s.
  assert (A1 : (m1 <= 0 \/ m2 <= 0 \/ m1 < m2)%Z -> run_alaska m1 m2 cfg p s = inr EValue).
  { intros Hm. apply (proj1 (run_alaska_prologue cand ceqb m1 m2 cfg p s)). apply (proj2 (proj1 (alaska_args_iff m1 m2))). exact Hm. }
  assert (A3 : (1 <= m2 <= m1)%Z -> wf_profile p -> (Z.of_nat (length (cands p)) < m1)%Z ->
               run_alaska m1 m2 cfg p s = inr EValue).
  { intros Hm Hwf Hn. destruct (run_alaska_ranked m1 m2 cfg p s Hwf Hm) as [s0 [_ Hfwd]].
    apply Hfwd. apply plurality_stage_fwd_err.
    apply (c20_plurality_m_range_proof cand ceqb ceqb_spec m1 _ p s Hwf). right. exact Hn. }
  split; [exact A1|]. split; [|split; [exact A3|]].
  - intros Hm Hb. destruct (c20_ranking_required_proof cand ceqb p) as [_ [_ Hall]].
    destruct (Hall Hb) as [_ [_ [_ [_ [_ [Hal _]]]]]]. rewrite (Hal m1 m2 cfg s).
    rewrite (proj2 (proj2 (proj2 (alaska_args_iff m1 m2))) Hm). reflexivity.
  - intros Hwf Hn. destruct (Z_le_gt_dec m1 0) as [H1|H1]; [apply A1; left; exact H1|].
    destruct (Z_le_gt_dec m2 0) as [H2|H2]; [apply A1; right; left; exact H2|].
    destruct (Z_lt_le_dec m1 m2) as [H3|H3]; [apply A1; right; right; exact H3|].
    apply A3; [lia|exact Hwf|lia].
Qed.

(* with sizes in range an error is never a size error: it is the error of the first-stage
   Plurality election (a tie at seat m1 that cannot be broken, or a wrong script), or the first
   stage has succeeded *)
Theorem alaska_sizes_ok_errors : forall m1 m2 cfg (p : profile) (s : mstate) e,
  ranked_profile p -> (1 <= m2 <= m1)%Z -> (m1 <= Z.of_nat (length (cands p)))%Z ->
  run_alaska m1 m2 cfg p s = inr e ->
  exists s0 d, round0 SKFpv p = inl s0 /\ first_place_votes p = inl d /\
    ((plurality_stage m1 (s_tiebreak cfg) p s0 s = inr e /\
      ((e = EValue /\ ((s_tiebreak cfg = None /\ straddles_seat (score_to_ranking d true) m1) \/
                       s_tiebreak cfg = Some TBInvalid)) \/
       (e = EScript /\ s_tiebreak cfg <> None))) \/
     (exists p1 s1 sa, plurality_stage m1 (s_tiebreak cfg) p s0 s = inl ((p1, s1), sa))).
Proof.
  intros m1 m2 cfg p s e Hr Hm Hn H.
  destruct (plurality_errors cand ceqb ceqb_spec m1 p Hr) as [d [Hd [_ [_ [_ [_ H6]]]]]].
  cbn [Rules.score_fn] in Hd. cbn [Rules.run_rule] in H6.
  destruct (ranked_fpv cand ceqb ceqb_spec p (proj1 Hr)) as [d' Hd']. rewrite Hd in Hd'. inversion Hd'; subst d'.
  exists (state_of_scores cand 0 (no_group cand) (no_group cand) [] d), d.
  assert (H0 : round0 SKFpv p = inl (state_of_scores cand 0 (no_group cand) (no_group cand) [] d)).
  { unfold Rules.round0. cbn [Rules.score_fn]. rewrite Hd. reflexivity. }
  split; [exact H0|]. split; [exact Hd|].
  unfold Rules.run_alaska in H.
  rewrite mbind_mlift, (proj2 (proj2 (proj2 (alaska_args_iff m1 m2))) Hm) in H.
  rewrite mbind_mlift, (wf_profile_ranking_validate cand p (proj1 Hr)) in H.
  rewrite mbind_mlift, H0 in H. unfold mbind at 1 in H.
  destruct (plurality_stage m1 (s_tiebreak cfg) p _ s) as [[[p1 s1] sa]|e0] eqn:Hst.
  - right. exists p1, s1, sa. reflexivity.
  - left. inversion H; subst e0. split; [reflexivity|].
    pose proof (plurality_stage_errors cand ceqb ceqb_spec m1 _ p _ s e Hr Hst) as Hrun.
    destruct (H6 (s_tiebreak cfg) s e Hrun) as [[He [Hc|[Hc|Hc]]]|He].
    + lia.
    + left. split; [exact He|left; exact Hc].
    + left. split; [exact He|right; exact Hc].
    + right. exact He.
Qed.

(* ------------------------------------------------------------------ *)
(** * (c) an unknown tiebreak name outside the one-shot rules *)

Definition with_tb (cfg : stv_cfg) (tb : option tb_kind) : stv_cfg :=
  mkStv (s_m cfg) (s_quota cfg) (s_simul cfg) (s_transfer cfg) tb.

(* an STV round consults the tiebreak option only in one-by-one mode, when somebody reaches the
   threshold and the top group has two or more members: then an unknown name is a ValueError *)
Theorem stv_round_invalid_tiebreak : forall cfg t p0 n (p : profile) prev (s : mstate) g rest,
  filter (fun q => Qle_bool t (snd q)) (escores prev) <> [] ->
  s_simul cfg = false -> s_tiebreak cfg = Some TBInvalid ->
  remaining prev = g :: rest -> (2 <= length g)%nat ->
  stv_step cfg t p0 n p prev s = inr EValue.
Proof.
  intros cfg t p0 n p prev s g rest Ha Hs Htb Hr Hg.
  rewrite (stv_step_single cand ceqb cfg t p0 n p prev s Ha Hs).
  unfold STV.single_elect. unfold mbind at 1. rewrite Hr, Htb.
  rewrite (elect_top_1_eq cand ceqb g rest (Some p) (Some TBInvalid) s)
    by (destruct g; [cbn in Hg; lia|discriminate]).
  assert (Hl : Nat.leb (length g) 1 = false) by (apply Nat.leb_gt; lia).
  rewrite Hl. reflexivity.
Qed.

Lemma elect_single_top : forall {B} c rest (p : profile) tb1 tb2 (K : _ -> M cand B) (s : mstate),
  mbind (elect_top_m ([c] :: rest) 1 (Some p) tb1) K s = mbind (elect_top_m ([c] :: rest) 1 (Some p) tb2) K s.
Proof.
  intros B c rest p tb1 tb2 K s. unfold mbind.
  rewrite !(elect_top_1_eq cand ceqb [c] rest (Some p) _ s) by discriminate. reflexivity.
Qed.

(* ... and in every other situation the round does not depend on the tiebreak option at all *)
Lemma single_elect_top : forall cfg tb' t (p : profile) prev c rest (s : mstate),
  remaining prev = [c] :: rest ->
  single_elect cand ceqb cfg t p prev s = single_elect cand ceqb (with_tb cfg tb') t p prev s.
Proof.
  intros cfg tb' t p prev c rest s Hr. unfold STV.single_elect, with_tb. cbn [s_tiebreak s_transfer].
  rewrite Hr. apply elect_single_top.
Qed.

Theorem stv_round_tiebreak_unused : forall cfg tb' t p0 n (p : profile) prev (s : mstate),
  s_simul cfg = true \/ filter (fun q => Qle_bool t (snd q)) (escores prev) = [] \/
  (exists c rest, remaining prev = [c] :: rest) ->
  stv_step cfg t p0 n p prev s = stv_step (with_tb cfg tb') t p0 n p prev s.
Proof.
  intros cfg tb' t p0 n p prev s H.
  destruct (filter (fun q => Qle_bool t (snd q)) (escores prev)) as [|a l] eqn:Ea.
  - unfold STV.stv_step. rewrite Ea. reflexivity.
  - assert (Ha : filter (fun q => Qle_bool t (snd q)) (escores prev) <> []) by (rewrite Ea; discriminate).
    destruct (s_simul cfg) eqn:Es.
    + rewrite !(stv_step_simul cand ceqb _ t p0 n p prev s Ha) by (try exact Es; reflexivity).
      reflexivity.
    + destruct H as [H|[H|[c [rest Hr]]]]; [discriminate|rewrite H in Ea; discriminate|].
      rewrite (stv_step_single cand ceqb cfg t p0 n p prev s Ha Es).
      rewrite (stv_step_single cand ceqb (with_tb cfg tb') t p0 n p prev s Ha Es).
      rewrite <- (single_elect_top cfg tb' t p prev c rest s Hr). reflexivity.
Qed.

(* TopTwo and Alaska: the first stage is a Plurality election for 2 (for m1) seats *)
Theorem toptwo_alaska_invalid_tiebreak : forall (p : profile) (s : mstate), ranked_profile p ->
  exists d, first_place_votes p = inl d /\
    ((Z.of_nat (length (cands p)) < 2)%Z \/ straddles_seat (score_to_ranking d true) 2 ->
       run_toptwo (Some TBInvalid) p s = inr EValue) /\
    (forall m1 m2 cfg, s_tiebreak cfg = Some TBInvalid -> (1 <= m2 <= m1)%Z ->
       (Z.of_nat (length (cands p)) < m1)%Z \/ straddles_seat (score_to_ranking d true) m1 ->
       run_alaska m1 m2 cfg p s = inr EValue).
Proof.
  intros p s Hr.
  destruct (ranked_fpv cand ceqb ceqb_spec p (proj1 Hr)) as [d Hd]. exists d. split; [exact Hd|].
  assert (Hplur : forall m, (Z.of_nat (length (cands p)) < m)%Z \/ straddles_seat (score_to_ranking d true) m ->
            run_plurality m (Some TBInvalid) p s = inr EValue).
  { intros m Hm.
    destruct (one_shot_invalid_tiebreak cand ceqb ceqb_spec (RPlurality m (Some TBInvalid)) p SKFpv m d s
                eq_refl Hr Hd) as [Hiff _].
    cbn [Rules.run_rule] in Hiff. apply Hiff. destruct Hm as [Hm|Hm]; [left; right; exact Hm|right; exact Hm]. }
  assert (H0 : round0 SKFpv p = inl (state_of_scores cand 0 (no_group cand) (no_group cand) [] d)).
  { unfold Rules.round0. cbn [Rules.score_fn]. rewrite Hd. reflexivity. }
  split.
  - intros Hm. unfold Rules.run_toptwo.
    rewrite mbind_mlift, (wf_profile_ranking_validate cand p (proj1 Hr)).
    rewrite mbind_mlift, H0. unfold mbind at 1.
    rewrite (plurality_stage_fwd_err 2 _ p _ s EValue (Hplur 2%Z Hm)). reflexivity.
  - intros m1 m2 cfg Htb Hm Hc.
    destruct (run_alaska_ranked m1 m2 cfg p s (proj1 Hr) Hm) as [s0 [_ Hfwd]].
    apply Hfwd. rewrite Htb. apply plurality_stage_fwd_err. apply Hplur. exact Hc.
Qed.

(* PluralityVeto: the veto loop consults the tiebreak when the last position of the ballot at hand
   holds two or more candidates *)
Theorem pv_veto_invalid_tiebreak : forall bi order idx (bs : list ballot) (p : profile) d tbs (s : mstate)
    b lastg others,
  nth_error bs bi = Some b -> rev (rk b) = lastg :: others -> (2 <= length lastg)%nat ->
  veto_loop cand ceqb (bi :: order) idx bs p (Some TBInvalid) d tbs s = inr EValue.
Proof.
  intros bi order idx bs p d tbs s b lastg others Hn Hr Hl. cbn [PV.veto_loop]. rewrite Hn, Hr.
  destruct lastg as [|a [|a' g']]; [cbn in Hl; lia|cbn in Hl; lia|]. reflexivity.
Qed.

(* ------------------------------------------------------------------ *)
(** * (b) the random transfer and non-integral weights *)

Lemma is_integral_of_eq : forall q z, q == inject_Z z -> is_integral q = true.
Proof.
  intros q z H. unfold is_integral. apply Qeq_bool_iff.
  assert (Ht : Qtrunc q = z).
  { unfold Qtrunc. unfold Qeq in H. cbn [inject_Z Qnum Qden] in H. rewrite Z.mul_1_r in H. rewrite H.
    apply Z.quot_mul. discriminate. }
  rewrite Ht. symmetry. exact H.
Qed.

Lemma is_integral_plus : forall a b, is_integral a = true -> is_integral b = true ->
  is_integral (a + b) = true.
Proof.
  intros a b Ha Hb. apply (is_integral_of_eq _ (Qtrunc a + Qtrunc b)).
  rewrite inject_Z_plus, (Qtrunc_integral a Ha), (Qtrunc_integral b Hb). reflexivity.
Qed.

Definition int_bs (bs : list ballot) : Prop := Forall (fun b => is_integral (wt b) = true) bs.

Lemma acc_add_int : forall (acc : list ballot) b, int_bs acc -> is_integral (wt b) = true ->
  int_bs (acc_add cand ceqb acc b).
Proof.
  induction acc as [|a acc IH]; intros b Hacc Hb.
  - cbn [Core.acc_add]. constructor; [exact Hb|constructor].
  - inversion Hacc as [|x l Ha Hl]; subst. cbn [Core.acc_add]. destruct (key_match cand ceqb a b).
    + constructor; [cbn [wt]; apply is_integral_plus; assumption|exact Hl].
    + constructor; [exact Ha|apply IH; assumption].
Qed.

Lemma fold_acc_add_int : forall (bs acc : list ballot), int_bs acc -> int_bs bs ->
  int_bs (fold_left (acc_add cand ceqb) bs acc).
Proof.
  induction bs as [|b bs IH]; intros acc Hacc Hbs; [exact Hacc|].
  inversion Hbs as [|x l Hb Hl]; subst. cbn [fold_left]. apply IH; [apply acc_add_int; assumption|exact Hl].
Qed.

Lemma condense_int : forall bs : list ballot, int_bs bs -> int_bs (condense_bs cand ceqb bs).
Proof. intros bs H. unfold Core.condense_bs. apply fold_acc_add_int; [constructor|exact H]. Qed.

Lemma filter_int : forall (f : ballot -> bool) bs, int_bs bs -> int_bs (filter f bs).
Proof.
  intros f bs H. unfold int_bs in *. rewrite Forall_forall in *. intros b Hb.
  apply filter_In in Hb. apply H. apply Hb.
Qed.

Lemma scrub_int : forall W (b : ballot), is_integral (wt b) = true ->
  is_integral (wt (scrub cand ceqb W b)) = true.
Proof.
  intros W b H. unfold Core.scrub.
  destruct (strip cand ceqb W (rk b)); destruct (strip_scores cand ceqb W (sc b)); cbn [wt];
    try exact H. reflexivity.
Qed.

Lemma remove_cand_bs_int : forall W (bs : list ballot), int_bs bs ->
  int_bs (remove_cand_bs cand ceqb W true false bs).
Proof.
  intros W bs H. unfold Core.remove_cand_bs. apply condense_int. apply filter_int.
  unfold int_bs in *. rewrite Forall_forall in *. intros k Hk. apply in_map_iff in Hk.
  destruct Hk as [b [<- Hb]]. apply scrub_int. apply H. exact Hb.
Qed.

Lemma rt_out_int : forall w (bs : list ballot) l, int_bs bs -> int_bs (rt_out cand ceqb w bs l).
Proof.
  intros w bs l H. unfold rt_out. apply condense_int. apply filter_int. apply Forall_app. split.
  - unfold rt_others, int_bs in *. rewrite Forall_forall in *. intros k Hk. apply in_map_iff in Hk.
    destruct Hk as [b [<- Hb]]. cbn [wt]. apply H. apply filter_In in Hb. apply Hb.
  - unfold int_bs. rewrite Forall_forall. intros k Hk. apply in_map_iff in Hk.
    destruct Hk as [r [<- _]]. reflexivity.
Qed.

(* every pile handed to the random transfer had only integral weights, and so has what comes back *)
Lemma transfers_int : forall (p : profile) d t ws (s s' : mstate) mvs,
  transfers cand ceqb TRandom p d t ws s mvs s' ->
  int_bs (concat mvs) /\
  (forall w b, In w ws -> In b (pile p w) -> is_integral (wt b) = true).
Proof.
  intros p d t ws s s' mvs H. induction H as [s|w ws s a s1 mvs s2 Hw Hd Htr [IH1 IH2]].
  - split; [constructor|intros w b []].
  - cbn [STV.do_transfer] in Hd.
    destruct (rand_ok_inv cand ceqb w _ _ t s a s1 Hd) as [Hgood [_ [l [_ [_ [_ Ha]]]]]].
    assert (Hpile : int_bs (pile p w)).
    { unfold int_bs. apply Forall_forall. intros b Hb. apply (Hgood b Hb). }
    split.
    + cbn [concat]. apply Forall_app. split; [rewrite Ha; apply rt_out_int; exact Hpile|exact IH1].
    + intros w' b [<-|Hw'] Hb; [apply (Hgood b Hb)|apply (IH2 w' b Hw' Hb)].
Qed.

Section Step.
Variable cfg : stv_cfg.
Variable t : Q.
Variables p0 p : profile.
Variable prev : estate.
Hypothesis Hctx : step_ctx p0 p prev.

Lemma pile_int : forall w, integral_weights p -> int_bs (pile p w).
Proof.
  intros w H. unfold int_bs, STVSpec.integral_weights in *. rewrite Forall_forall in *.
  intros b Hb. apply H. apply (pile_in cand ceqb) in Hb. apply Hb.
Qed.

(* integral weights are kept by a round of the random transfer *)
Theorem step_integral : forall n (s s' : mstate) np st,
  s_transfer cfg = TRandom -> script_ok s -> integral_weights p ->
  stv_step cfg t p0 n p prev s = inl ((np, st), s') -> integral_weights np.
Proof.
  intros n s s' np st Hk Hscr Hint H.
  destruct (stv_step_ok_inv cand ceqb ceqb_spec cfg t p0 p prev Hctx n s s' np st (fun _ => Hscr) H)
    as [[_ (W & others & mvs & s1 & Hr)]|[(_ & _ & _ & Hd)|(_ & _ & x & Hx)]].
  - destruct Hr as [_ _ _ _ _ _ _ _ _ Htr Hnp _ _ _]. rewrite Hk in Htr.
    destruct (transfers_int p _ t W s1 s' mvs Htr) as [Hmv _].
    rewrite Hnp. unfold STVSpec.integral_weights. cbn [ballots].
    apply remove_cand_bs_int. apply Forall_app. split; [exact Hmv|].
    apply (concat_Forall (fun b => is_integral (wt b) = true)). apply Forall_forall. intros l Hl.
    apply in_map_iff in Hl. destruct Hl as [c [<- _]]. apply pile_int. exact Hint.
  - destruct Hd as [Hnp _ _ _ _ _ _]. rewrite Hnp. constructor.
  - destruct Hx as [_ _ _ _ _ Hnp _ _ _]. rewrite Hnp. unfold STVSpec.integral_weights. cbn [ballots].
    apply remove_cand_bs_int. exact Hint.
Qed.

(* a successful election round of the random transfer only ever elects candidates whose whole pile
   has integral weights *)
Theorem step_elected_pile_integral : forall n (s s' : mstate) np st,
  s_transfer cfg = TRandom -> script_ok s ->
  stv_step cfg t p0 n p prev s = inl ((np, st), s') ->
  (exists c, In c (cands p) /\ t <= tally c (ballots p)) ->
  forall w b, In w (flat (elected st)) -> In b (ballots p) -> first_is cand ceqb w b = true ->
    is_integral (wt b) = true.
Proof.
  intros n s s' np st Hk Hscr H Hreach w b Hw Hb Hf.
  destruct (stv_step_ok_inv cand ceqb ceqb_spec cfg t p0 p prev Hctx n s s' np st (fun _ => Hscr) H)
    as [[_ (W & others & mvs & s1 & Hr)]|[(Hnone & _)|(Hnone & _)]].
  - destruct Hr as [HW _ _ _ _ _ _ _ _ Htr _ _ _ _]. rewrite Hk in Htr.
    destruct (transfers_int p _ t W s1 s' mvs Htr) as [_ Hp].
    apply (Hp w b); [rewrite <- HW; exact Hw|]. apply (pile_in cand ceqb). split; assumption.
  - exfalso. destruct Hreach as [c [Hc Ht]]. pose proof (Hnone c Hc). lra.
  - exfalso. destruct Hreach as [c [Hc Ht]]. pose proof (Hnone c Hc). lra.
Qed.

(* TypeError in a round: only with the random transfer, only in a round where some candidate w
   reaches the threshold, and only because a ballot of w's pile has a non-integral weight *)
Theorem step_type_error : forall n (s : mstate),
  (s_transfer cfg = TRandom -> script_ok s) ->
  stv_step cfg t p0 n p prev s = inr EType ->
  s_transfer cfg = TRandom /\
  exists w b, In w (cands p) /\ t <= tally w (ballots p) /\
    In b (ballots p) /\ first_is cand ceqb w b = true /\ is_integral (wt b) = false.
Proof.
  intros n s Hscr H. pose proof (ctx_wf cand ceqb p0 p prev Hctx) as Hwf.
  destruct (stv_step_err_inv cand ceqb ceqb_spec cfg t p0 p prev Hctx n s EType Hscr H)
    as [(_ & _ & g & rest & _ & _ & Hcase)|[(w & s1 & Hw & Hreach & _ & Hd)|[(_ & low & Htb)|(_ & He & _)]]].
  - exfalso. destruct Hcase as [[_ He]|(kind & _ & Ht)]; [discriminate|].
    destruct (tiebreak_set_err cand ceqb ceqb_spec g p kind s EType Hwf Ht) as [He|[_ He]]; discriminate.
  - destruct (s_transfer cfg) eqn:Ek; cbn [STV.do_transfer] in Hd.
    + exfalso. unfold mlift in Hd.
      destruct (frac_transfer cand ceqb w _ (pile p w) t) as [a|e'] eqn:E; [discriminate|].
      injection Hd as ->.
      destruct (frac_errors cand ceqb w (lookup0 cand ceqb w (escores prev)) (pile p w) t) as (_ & Hty & _).
      apply Hty in E. destruct E as [_ (b & Hb & Hrk)]. apply (pile_in cand ceqb) in Hb.
      destruct Hwf as [_ Hwfb]. rewrite Forall_forall in Hwfb. apply (proj1 (Hwfb b (proj1 Hb))). exact Hrk.
    + split; [reflexivity|].
      destruct (rand_errors cand ceqb w (lookup0 cand ceqb w (escores prev)) (pile p w) t s1) as (Hty & _ & _).
      apply Hty in Hd. destruct Hd as (b & Hb & Hbad). apply (pile_in cand ceqb) in Hb. destruct Hb as [Hb Hf].
      exists w, b. split; [exact Hw|]. split; [exact Hreach|]. split; [exact Hb|]. split; [exact Hf|].
      destruct Hbad as [Hbad|Hrk]; [exact Hbad|]. exfalso.
      destruct Hwf as [_ Hwfb]. rewrite Forall_forall in Hwfb. apply (proj1 (Hwfb b Hb)). exact Hrk.
    + discriminate.
  - exfalso.
    destruct (tiebreak_set_err cand ceqb ceqb_spec low p0 TBFirstPlace s EType (ctx_p0 cand ceqb p0 p prev Hctx) Htb)
      as [He|[_ He]]; discriminate.
  - discriminate.
Qed.

(* conversely: when the top group is the single candidate w, w reaches the threshold and a ballot
   of w's pile has a non-integral weight, w's pile is the first to be transferred: TypeError *)
Theorem step_first_transfer_type_error : forall n (s : mstate) w rest,
  s_transfer cfg = TRandom -> remaining prev = [w] :: rest -> t <= tally w (ballots p) ->
  (exists b, In b (ballots p) /\ first_is cand ceqb w b = true /\ is_integral (wt b) = false) ->
  stv_step cfg t p0 n p prev s = inr EType.
Proof.
  intros n s w rest Hk Hr Ht [b [Hb [Hf Hbad]]].
  pose proof (ctx_wf cand ceqb p0 p prev Hctx) as Hwf.
  assert (Hw : In w (cands p)).
  { apply (ctx_group_in cand ceqb p0 p prev Hctx [w] w); [rewrite Hr; left; reflexivity|left; reflexivity]. }
  assert (Ha : above cand t (escores prev) <> []).
  { apply (above_ne_iff cand ceqb ceqb_spec p0 p prev Hctx t). exists w. split; assumption. }
  assert (Hrand : forall s1 : mstate,
            do_transfer cand ceqb (s_transfer cfg) w (lookup0 cand ceqb w (escores prev)) (pile p w) t s1
            = inr EType).
  { intros s1. rewrite Hk. cbn [STV.do_transfer].
    apply (rand_errors cand ceqb w _ (pile p w) t s1). exists b. split; [|left; exact Hbad].
    apply (pile_in cand ceqb). split; assumption. }
  assert (Hmemb : memb w (cands p) = true) by (apply (memb_In cand ceqb ceqb_spec); exact Hw).
  destruct (s_simul cfg) eqn:Es.
  - rewrite (stv_step_simul cand ceqb cfg t p0 n p prev s Ha Es).
    unfold STV.simultaneous_elect. rewrite mbind_mlift, Hr. cbn [STV.quota_groups].
    rewrite (proj2 (score_ge_tally cand ceqb ceqb_spec p0 p prev Hctx t w Hw) Ht).
    assert (Hne : Forall (fun g : cset => g <> []) rest).
    { assert (Hcs : cands p <> []) by (intros E; rewrite E in Hw; destruct Hw).
      pose proof (ctx_groups_ne cand ceqb p0 p prev Hctx Hcs) as Hall. rewrite Hr in Hall.
      inversion Hall; assumption. }
    destruct (quota_groups_prefix cand ceqb rest (escores prev) t Hne) as (el' & rest' & Hq & _).
    rewrite Hq. cbn [rbind ok]. rewrite mbind_mlift, (bbfc_ok cand ceqb ceqb_spec p Hwf).
    unfold mbind at 1. change (flat ([w] :: el')) with (w :: flat el').
    cbn [STV.transfer_all]. rewrite Hmemb. cbn [negb]. unfold mbind at 1. rewrite Hrand. reflexivity.
  - rewrite (stv_step_single cand ceqb cfg t p0 n p prev s Ha Es).
    unfold STV.single_elect. unfold mbind at 1. rewrite Hr.
    rewrite (elect_top_1_eq cand ceqb [w] rest (Some p) _ s) by discriminate. cbn [length Nat.leb].
    rewrite mbind_mlift, (bbfc_ok cand ceqb ceqb_spec p Hwf). rewrite Hmemb. cbn [negb].
    unfold mbind at 1. rewrite Hrand. reflexivity.
Qed.

End Step.

(* run level: on a valid profile TypeError never escapes from STV unless the random transfer meets
   a non-integral weight; with integral weights it never does *)
Lemma stv_loop_no_type_error : forall fuel cfg t N (p0 p : profile) sts (s : mstate),
  STVSpec.stv_inv cand ceqb cfg t N p0 p sts ->
  (s_transfer cfg = TRandom -> script_ok s) -> (s_transfer cfg = TRandom -> integral_weights p) ->
  stv_loop fuel cfg t p0 p sts s <> inr EType.
Proof.
  induction fuel as [|fuel IH]; intros cfg t N p0 p sts s Hinv Hscr Hint; rewrite (stv_loop_unfold cand ceqb).
  - destruct (Z.eqb (count_elected cand sts) (s_m cfg)); discriminate.
  - destruct (Z.eqb (count_elected cand sts) (s_m cfg)); [discriminate|].
    pose proof Hinv as Hinv0.
    destruct Hinv as [(prev & older & -> & Hctx) _ _ _ _ _].
    destruct (stv_step cfg t p0 (count_elected cand (prev :: older)) p prev s) as [[[np st] s1]|e] eqn:Es.
    + destruct (stv_inv_step cand ceqb ceqb_spec cfg t N p0 p prev older s s1 np st Hinv0 Hscr Es) as [Hinv' Hsuf].
      apply (IH cfg t N p0 np (st :: prev :: older) s1 Hinv').
      * intros Hk. apply (script_ok_suffix cand s s1 Hsuf). apply Hscr. exact Hk.
      * intros Hk. apply (step_integral cfg t p0 p prev Hctx _ s s1 np st Hk (Hscr Hk) (Hint Hk) Es).
    + intros He. injection He as ->.
      destruct (step_type_error cfg t p0 p prev Hctx _ s Hscr Es) as [Hk [w [b [_ [_ [Hb [_ Hbad]]]]]]].
      specialize (Hint Hk). unfold STVSpec.integral_weights in Hint. rewrite Forall_forall in Hint.
      rewrite (Hint b Hb) in Hbad. discriminate.
Qed.

Theorem run_stv_no_type_error : forall cfg (p : profile) (s : mstate),
  wf_stv0 p -> (s_transfer cfg = TRandom -> script_ok s /\ integral_weights p) ->
  run_stv cfg p s <> inr EType.
Proof.
  intros cfg p s Hwf Hk. rewrite (run_stv_unfold cand ceqb).
  destruct (stv_init cfg p) as [t|e] eqn:Ei.
  - destruct (initial_state_ok cand ceqb ceqb_spec p Hwf) as [s0 E0]. rewrite E0.
    apply (stv_loop_no_type_error _ cfg t _ p p [s0] s (stv_inv_init cand ceqb cfg p t s0 Hwf Ei E0)).
    + intros H. apply (Hk H).
    + intros H. apply (Hk H).
  - intros He. injection He as ->.
    destruct (stv_init_err cand cfg p EType Hwf (fun H => proj2 (Hk H)) Ei). discriminate.
Qed.

(* ---- the up-front check of the random transfer (STV.__init__) ---- *)

Lemma nonint_forallb : forall bs : list ballot,
  (exists b, In b bs /\ is_integral (wt b) = false) <->
  forallb (fun b => is_integral (wt b)) bs = false.
Proof. intros bs. symmetry. apply (forallb_integral_false_iff cand). Qed.

(* with the random transfer, EVERY profile that passes the ranking / no-tie validation and has a
   non-integral weight is refused with TypeError by the constructor — whatever the seat count, the
   quota name, the other options and the script of draws — hence by the run and by the rule *)
Theorem random_nonintegral_type_error : forall cfg (p : profile),
  stv_validate cand p = inl tt -> s_transfer cfg = TRandom ->
  (exists b, In b (ballots p) /\ is_integral (wt b) = false) ->
  stv_init cfg p = inr EType /\ upfront (RSTV cfg) p = inr EType /\
  forall s : mstate, run_stv cfg p s = inr EType /\ run_rule (RSTV cfg) p s = inr EType.
Proof.
  intros cfg p Hv Hk Hb. apply nonint_forallb in Hb.
  pose proof (stv_init_random_nonint cand cfg p Hv Hk Hb) as Hi.
  assert (Hu : upfront (RSTV cfg) p = inr EType).
  { cbn [UpfrontSpec.upfront]. rewrite Hi. reflexivity. }
  split; [exact Hi|]. split; [exact Hu|]. intros s.
  pose proof (upfront_rejects (RSTV cfg) p EType Hu s) as Hr. split; exact Hr.
Qed.

(* the check exactly: TypeError iff some weight is not integral; and the constructor goes on to
   the seat-count / quota checks, as with any other transfer, iff all weights are integral *)
Theorem random_upfront_iff : forall cfg (p : profile),
  stv_validate cand p = inl tt -> s_transfer cfg = TRandom ->
  ((exists b, In b (ballots p) /\ is_integral (wt b) = false) <-> stv_init cfg p = inr EType) /\
  ((forall b, In b (ballots p) -> is_integral (wt b) = true) <->
   stv_init cfg p =
   if ((s_m cfg <=? 0) || (Z.of_nat (length (cands p)) <? s_m cfg))%Z then inr EValue
   else threshold (s_quota cfg) (s_m cfg) (total_wt cand (ballots p))).
Proof.
  intros cfg p Hv Hk.
  assert (Hrest : (if ((s_m cfg <=? 0) || (Z.of_nat (length (cands p)) <? s_m cfg))%Z
                   then inr EValue
                   else threshold (s_quota cfg) (s_m cfg) (total_wt cand (ballots p))) <> inr EType).
  { destruct ((s_m cfg <=? 0) || (Z.of_nat (length (cands p)) <? s_m cfg))%Z; [discriminate|].
    unfold threshold. destruct (s_quota cfg); discriminate. }
  destruct (forallb (fun b => is_integral (wt b)) (ballots p)) eqn:Ef.
  - assert (Hpast : stv_init cfg p =
              if ((s_m cfg <=? 0) || (Z.of_nat (length (cands p)) <? s_m cfg))%Z then inr EValue
              else threshold (s_quota cfg) (s_m cfg) (total_wt cand (ballots p))).
    { apply (stv_init_past_check cand cfg p Hv). rewrite Ef, andb_false_r. reflexivity. }
    split; split.
    + intros Hb. apply nonint_forallb in Hb. congruence.
    + intros Hi. rewrite Hi in Hpast. exfalso. apply Hrest. symmetry. exact Hpast.
    + intros _. exact Hpast.
    + intros _. rewrite forallb_forall in Ef. exact Ef.
  - pose proof (stv_init_random_nonint cand cfg p Hv Hk Ef) as Hi.
    split; split.
    + intros _. exact Hi.
    + intros _. apply nonint_forallb. exact Ef.
    + intros Hall. exfalso. apply (proj2 (forallb_forall _ _)) in Hall. congruence.
    + intros Hp. exfalso. rewrite Hi in Hp. apply Hrest. symmetry. exact Hp.
Qed.

(* success of the constructor / of the run with the random transfer implies integral weights *)
Theorem random_success_integral : forall cfg (p : profile),
  s_transfer cfg = TRandom ->
  (forall t, stv_init cfg p = inl t -> integral_weights p) /\
  (forall (s s' : mstate) sts, run_stv cfg p s = inl (sts, s') -> integral_weights p).
Proof.
  intros cfg p Hk. split.
  - intros t Hi. exact (stv_init_ok_integral cand cfg p t Hi Hk).
  - intros s s' sts H. rewrite (run_stv_unfold cand ceqb) in H.
    destruct (stv_init cfg p) as [t|e] eqn:Ei; [|discriminate].
    exact (stv_init_ok_integral cand cfg p t Ei Hk).
Qed.

(* run level, valid profile: TypeError iff random transfer and a non-integral weight; so the lazy
   check of the transfer function is never what a run reports: once the constructor has succeeded
   no round raises TypeError *)
Theorem run_stv_type_error_iff : forall cfg (p : profile) (s : mstate),
  wf_stv0 p -> (s_transfer cfg = TRandom -> script_ok s) ->
  (run_stv cfg p s = inr EType <-> s_transfer cfg = TRandom /\ ~ integral_weights p).
Proof.
  intros cfg p s Hwf Hscr. split.
  - intros H. destruct (s_transfer cfg) eqn:Ek.
    + exfalso. apply (run_stv_no_type_error cfg p s Hwf); [rewrite Ek; discriminate|exact H].
    + split; [reflexivity|]. intros Hint.
      apply (run_stv_no_type_error cfg p s Hwf); [|exact H].
      intros _. split; [apply Hscr; reflexivity|exact Hint].
    + exfalso. apply (run_stv_no_type_error cfg p s Hwf); [rewrite Ek; discriminate|exact H].
  - intros [Hk Hn].
    destruct (forallb (fun b => is_integral (wt b)) (ballots p)) eqn:Ef.
    + exfalso. apply Hn. apply (integral_weights_forallb cand). exact Ef.
    + apply (random_nonintegral_type_error cfg p (stv_validate_ok cand p Hwf) Hk).
      apply nonint_forallb. exact Ef.
Qed.

Theorem run_stv_rounds_no_type_error : forall cfg (p : profile) (s : mstate) t,
  wf_stv0 p -> (s_transfer cfg = TRandom -> script_ok s) ->
  stv_init cfg p = inl t -> run_stv cfg p s <> inr EType.
Proof.
  intros cfg p s t Hwf Hscr Hi H.
  apply (run_stv_type_error_iff cfg p s Hwf Hscr) in H. destruct H as [Hk Hn].
  apply Hn. exact (stv_init_ok_integral cand cfg p t Hi Hk).
Qed.

(* Alaska: the STV stage runs on the profile p1 left by the first stage; the same check refuses
   it (the condensed weights of p1 are what is tested, as in Python) *)
Theorem alaska_stage_random_nonintegral : forall m1 m2 cfg (p : profile) (s sa : mstate) s0 p1 s1,
  alaska_args m1 m2 = inl tt -> ranking_validate p = inl tt -> round0 SKFpv p = inl s0 ->
  plurality_stage m1 (s_tiebreak cfg) p s0 s = inl ((p1, s1), sa) ->
  stv_validate cand p1 = inl tt -> s_transfer cfg = TRandom ->
  (exists b, In b (ballots p1) /\ is_integral (wt b) = false) ->
  run_alaska m1 m2 cfg p s = inr EType.
Proof.
  intros m1 m2 cfg p s sa s0 p1 s1 Ha Hv H0 Hst Hv1 Hk Hb.
  unfold Rules.run_alaska. rewrite mbind_mlift, Ha. rewrite mbind_mlift, Hv. rewrite mbind_mlift, H0.
  unfold mbind at 1. rewrite Hst. cbv zeta. rewrite mbind_mlift.
  assert (Hk2 : s_transfer (with_m cfg m2) = TRandom) by exact Hk.
  rewrite (proj1 (random_nonintegral_type_error (with_m cfg m2) p1 Hv1 Hk2 Hb)). reflexivity.
Qed.

End More.
