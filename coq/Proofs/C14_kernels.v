(* Proofs/C14_kernels.v — property C14, the per-ballot kernels of Model/Generators.v:
   Plackett-Luce ballots, cumulative ballots, table samplers, AlternatingCrossover,
   spatial sorting, ballot_pool_to_profile, the MCMC chains. *)
From VK Require Import Base Core GenValidation PrefInterval Generators Content GenSpec BTSpec.
From VK Require Import Lib_rk Lib_sets C12_expand C15_bt C15_slate C11_profile C14_wf.
From Coq Require Import Permutation Lia Lqa Setoid Morphisms Sorting.Sorted.

(* ------------------------------------------------------------------ *)
(** * A1. Plackett-Luce ballots (short_name_PlackettLuce / name_PlackettLuce) *)

Lemma pl_counts_spec : forall iv bl,
  pl_counts iv bl = (Nat.min bl (length (pi_int iv)), (bl - length (pi_int iv))%nat).
Proof.
  intros iv bl. unfold pl_counts. destruct (Nat.ltb_spec (length (pi_int iv)) bl) as [H|H].
  - rewrite Nat.min_r by lia. reflexivity.
  - rewrite Nat.min_l by lia. replace (bl - length (pi_int iv))%nat with O by lia. reflexivity.
Qed.

Lemma flat_rank_of : forall o t, flat pcand (rank_of o t) = o ++ t.
Proof.
  intros o t. unfold rank_of. rewrite (flat_app pcand), (flat_singletons pcand).
  destruct t as [|c t]; [reflexivity|].
  unfold flat. cbn [concat]. rewrite app_nil_r. reflexivity.
Qed.

(* the raw case analysis of the kernel *)
Lemma pl_ballot_inv : forall iv bl d b calls,
  pl_ballot iv bl d = inl (b, calls) ->
  let k := Nat.min bl (length (pi_int iv)) in
  let tied := (bl - length (pi_int iv))%nat in
  valid_sample (map fst (pi_int iv)) k (fst d) = true /\
  ((tied = O /\ b = unit_ballot (rank_of (fst d) []) /\ calls = [GPL (pi_int iv) k]) \/
   ((0 < tied)%nat /\ (tied <= length (pi_zero iv))%nat /\
    valid_sample (pi_zero iv) tied (snd d) = true /\
    b = unit_ballot (rank_of (fst d) (snd d)) /\
    calls = [GPL (pi_int iv) k; GUniSub (pi_zero iv) tied])).
Proof.
  intros iv bl d b calls H k tied. unfold pl_ballot in H. rewrite pl_counts_spec in H.
  fold k tied in H.
  destruct (valid_sample (map fst (pi_int iv)) k (fst d)) eqn:Ev; cbn [negb] in H; [|discriminate].
  split; [reflexivity|].
  destruct tied as [|t] eqn:Et.
  - left. injection H as <- <-. repeat split.
  - right. destruct (Nat.ltb_spec (length (pi_zero iv)) (S t)) as [Hlt|Hge]; [discriminate|].
    destruct (valid_sample (pi_zero iv) (S t) (snd d)) eqn:Ez; cbn [negb] in H; [|discriminate].
    injection H as <- <-. repeat split; lia.
Qed.

Theorem pl_ballot_wf : forall iv bl d b calls,
  pl_ballot iv bl d = inl (b, calls) ->
  let k := Nat.min bl (length (pi_int iv)) in
  let tied := (bl - length (pi_int iv))%nat in
  wt b == 1 /\ sc b = [] /\
  (exists order tail,
     order = fst d /\ (tied <> O -> tail = snd d) /\
     rk b = singletons pcand order ++ (match tail with [] => [] | _ => [tail] end) /\
     length order = k /\ NoDup order /\ incl order (map fst (pi_int iv)) /\
     length tail = tied /\ NoDup tail /\ incl tail (pi_zero iv)) /\
  calls = GPL (pi_int iv) k :: (if Nat.eqb tied 0 then [] else [GUniSub (pi_zero iv) tied]) /\
  length (flat pcand (rk b)) = bl /\
  incl (flat pcand (rk b)) (pi_cands iv) /\
  ((forall c, In c (map fst (pi_int iv)) -> ~ In c (pi_zero iv)) -> NoDup (flat pcand (rk b))).
Proof.
  intros iv bl d b calls H k tied. apply pl_ballot_inv in H. fold k tied in H.
  destruct H as (Hv & Hcase). apply valid_sample_iff in Hv. destruct Hv as (Hl & Hnd & Hin).
  destruct Hcase as [(Ht & -> & ->)|(Ht & Hle & Hz & -> & ->)].
  - split; [reflexivity|]. split; [reflexivity|]. split.
    { exists (fst d), []. rewrite Ht.
      split; [reflexivity|]. split; [intros Hc; contradiction|].
      split; [cbn [unit_ballot plain_ballot rk]; unfold rank_of; reflexivity|].
      split; [exact Hl|]. split; [exact Hnd|]. split; [exact Hin|].
      split; [reflexivity|]. split; [constructor|]. intros c []. }
    split; [rewrite Ht; reflexivity|].
    cbn [unit_ballot plain_ballot rk]. rewrite flat_rank_of, app_nil_r.
    split; [unfold k, tied in *; lia|].
    split; [intros c Hc; unfold pi_cands; apply in_or_app; left; apply Hin; exact Hc|].
    intros _. exact Hnd.
  - apply valid_sample_iff in Hz. destruct Hz as (Hzl & Hznd & Hzin).
    split; [reflexivity|]. split; [reflexivity|]. split.
    { exists (fst d), (snd d).
      split; [reflexivity|]. split; [intros _; reflexivity|].
      split; [cbn [unit_ballot plain_ballot rk]; unfold rank_of; reflexivity|].
      split; [exact Hl|]. split; [exact Hnd|]. split; [exact Hin|].
      split; [exact Hzl|]. split; [exact Hznd|]. exact Hzin. }
    split.
    { destruct tied as [|t]; [lia|]. reflexivity. }
    cbn [unit_ballot plain_ballot rk]. rewrite flat_rank_of.
    split; [rewrite app_length; unfold k, tied in *; lia|].
    split.
    { intros c Hc. unfold pi_cands. apply in_app_or in Hc. apply in_or_app.
      destruct Hc as [Hc|Hc]; [left; apply Hin|right; apply Hzin]; exact Hc. }
    intros Hdisj. apply Lib_sets.NoDup_app_intro; try assumption.
    intros c Hc Hc'. apply (Hdisj c); [apply Hin|apply Hzin]; assumption.
Qed.

(* name_PlackettLuce: ballot length = number of candidates *)
Theorem pl_complete : forall iv d b calls,
  NoDup (pi_cands iv) ->
  pl_ballot iv (length (pi_cands iv)) d = inl (b, calls) ->
  exists order tail,
    rk b = singletons pcand order ++ (match tail with [] => [] | _ => [tail] end) /\
    Permutation order (map fst (pi_int iv)) /\
    Permutation tail (pi_zero iv) /\
    Permutation (flat pcand (rk b)) (pi_cands iv).
Proof.
  intros iv d b calls Hnd H. apply pl_ballot_wf in H.
  destruct H as (_ & _ & (order & tail & _ & _ & Hrk & Hl & Hndo & Hino & Hlt & Hndt & Hint) & _).
  unfold pi_cands in *. rewrite app_length, map_length in *.
  apply Lib_sets.NoDup_app_inv in Hnd. destruct Hnd as (Hk & Hz & Hdisj).
  assert (Po : Permutation order (map fst (pi_int iv))).
  { apply NoDup_incl_length_perm; try assumption. rewrite map_length. lia. }
  assert (Pt : Permutation tail (pi_zero iv)).
  { apply NoDup_incl_length_perm; try assumption. lia. }
  exists order, tail. split; [exact Hrk|]. split; [exact Po|]. split; [exact Pt|].
  rewrite Hrk. change (singletons pcand order ++ match tail with [] => [] | _ :: _ => [tail] end)
    with (rank_of order tail). rewrite flat_rank_of. apply Permutation_app; assumption.
Qed.

Theorem pl_ballot_errors : forall iv bl d,
  let k := Nat.min bl (length (pi_int iv)) in
  let tied := (bl - length (pi_int iv))%nat in
  (forall e, pl_ballot iv bl d = inr e -> e = EScript \/ e = EValue) /\
  (pl_ballot iv bl d = inr EValue <->
   valid_sample (map fst (pi_int iv)) k (fst d) = true /\ (length (pi_zero iv) < tied)%nat).
Proof.
  intros iv bl d k tied. unfold pl_ballot. rewrite pl_counts_spec. fold k tied.
  destruct (valid_sample (map fst (pi_int iv)) k (fst d)) eqn:Ev; cbn [negb].
  - destruct tied as [|t].
    + split; [intros e He; discriminate|]. split; [discriminate|intros [_ Hc]; lia].
    + destruct (Nat.ltb_spec (length (pi_zero iv)) (S t)) as [Hlt|Hge].
      * split; [intros e He; injection He as <-; right; reflexivity|].
        split; [intros _; split; [reflexivity|exact Hlt]|reflexivity].
      * destruct (valid_sample (pi_zero iv) (S t) (snd d)); cbn [negb].
        -- split; [intros e He; discriminate|]. split; [discriminate|intros [_ Hc]; lia].
        -- split; [intros e He; injection He as <-; left; reflexivity|].
           split; [discriminate|intros [_ Hc]; lia].
  - split; [intros e He; injection He as <-; left; reflexivity|].
    split; [discriminate|intros [Hc _]; discriminate].
Qed.
