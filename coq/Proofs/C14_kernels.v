(* Proofs/C14_kernels.v — property C14, the per-ballot kernels of Model/Generators.v:
   Plackett-Luce ballots, cumulative ballots, table samplers, AlternatingCrossover,
   spatial sorting, ballot_pool_to_profile, the MCMC chains. *)
From VK Require Import Base Core GenValidation PrefInterval Generators Content GenSpec BTSpec.
From VK Require Import Lib_rk Lib_sets C12_expand C15_bt C15_slate C11_profile C14_wf.
From Coq Require Import Permutation Lia Lqa Setoid Morphisms Sorting.Sorted.

(* ------------------------------------------------------------------ *)
(** * A1. Plackett-Luce ballots (short_name_PlackettLuce / name_PlackettLuce) *)

Lemma pl_counts_spec : forall iv bl,
  pl_counts iv bl = (Nat.min bl (length (pi_int iv)), (bl - length (pi_int iv))%nat).
Proof.
  intros iv bl. unfold pl_counts. destruct (Nat.ltb_spec (length (pi_int iv)) bl) as [H|H].
  - rewrite Nat.min_r by lia. reflexivity.
  - rewrite Nat.min_l by lia. replace (bl - length (pi_int iv))%nat with O by lia. reflexivity.
Qed.

Lemma flat_rank_of : forall o t, flat pcand (rank_of o t) = o ++ t.
Proof.
  intros o t. unfold rank_of. rewrite (flat_app pcand), (flat_singletons pcand).
  destruct t as [|c t]; [reflexivity|].
  unfold flat. cbn [concat]. rewrite app_nil_r. reflexivity.
Qed.

(* the raw case analysis of the kernel *)
Lemma pl_ballot_inv : forall iv bl d b calls,
  pl_ballot iv bl d = inl (b, calls) ->
  let k := Nat.min bl (length (pi_int iv)) in
  let tied := (bl - length (pi_int iv))%nat in
  valid_sample (map fst (pi_int iv)) k (fst d) = true /\
  ((tied = O /\ b = unit_ballot (rank_of (fst d) []) /\ calls = [GPL (pi_int iv) k]) \/
   ((0 < tied)%nat /\ (tied <= length (pi_zero iv))%nat /\
    valid_sample (pi_zero iv) tied (snd d) = true /\
    b = unit_ballot (rank_of (fst d) (snd d)) /\
    calls = [GPL (pi_int iv) k; GUniSub (pi_zero iv) tied])).
Proof.
  intros iv bl d b calls H k tied. unfold pl_ballot in H. rewrite pl_counts_spec in H.
  fold k tied in H.
  destruct (valid_sample (map fst (pi_int iv)) k (fst d)) eqn:Ev; cbn [negb] in H; [|discriminate].
  split; [reflexivity|].
  destruct tied as [|t] eqn:Et.
  - left. injection H as <- <-. repeat split.
  - right. destruct (Nat.ltb_spec (length (pi_zero iv)) (S t)) as [Hlt|Hge]; [discriminate|].
    destruct (valid_sample (pi_zero iv) (S t) (snd d)) eqn:Ez; cbn [negb] in H; [|discriminate].
    injection H as <- <-. repeat split; lia.
Qed.

Theorem pl_ballot_wf : forall iv bl d b calls,
  pl_ballot iv bl d = inl (b, calls) ->
  let k := Nat.min bl (length (pi_int iv)) in
  let tied := (bl - length (pi_int iv))%nat in
  wt b == 1 /\ sc b = [] /\
  (exists order tail,
     order = fst d /\ (tied <> O -> tail = snd d) /\
     rk b = singletons pcand order ++ (match tail with [] => [] | _ => [tail] end) /\
     length order = k /\ NoDup order /\ incl order (map fst (pi_int iv)) /\
     length tail = tied /\ NoDup tail /\ incl tail (pi_zero iv)) /\
  calls = GPL (pi_int iv) k :: (if Nat.eqb tied 0 then [] else [GUniSub (pi_zero iv) tied]) /\
  length (flat pcand (rk b)) = bl /\
  incl (flat pcand (rk b)) (pi_cands iv) /\
  ((forall c, In c (map fst (pi_int iv)) -> ~ In c (pi_zero iv)) -> NoDup (flat pcand (rk b))).
Proof.
  intros iv bl d b calls H k tied. apply pl_ballot_inv in H. fold k tied in H.
  destruct H as (Hv & Hcase). apply valid_sample_iff in Hv. destruct Hv as (Hl & Hnd & Hin).
  destruct Hcase as [(Ht & -> & ->)|(Ht & Hle & Hz & -> & ->)].
  - split; [reflexivity|]. split; [reflexivity|]. split.
    { exists (fst d), []. rewrite Ht.
      split; [reflexivity|]. split; [intros Hc; contradiction|].
      split; [cbn [unit_ballot plain_ballot rk]; unfold rank_of; reflexivity|].
      split; [exact Hl|]. split; [exact Hnd|]. split; [exact Hin|].
      split; [reflexivity|]. split; [constructor|]. intros c []. }
    split; [rewrite Ht; reflexivity|].
    cbn [unit_ballot plain_ballot rk]. rewrite flat_rank_of, app_nil_r.
    split; [unfold k, tied in *; lia|].
    split; [intros c Hc; unfold pi_cands; apply in_or_app; left; apply Hin; exact Hc|].
    intros _. exact Hnd.
  - apply valid_sample_iff in Hz. destruct Hz as (Hzl & Hznd & Hzin).
    split; [reflexivity|]. split; [reflexivity|]. split.
    { exists (fst d), (snd d).
      split; [reflexivity|]. split; [intros _; reflexivity|].
      split; [cbn [unit_ballot plain_ballot rk]; unfold rank_of; reflexivity|].
      split; [exact Hl|]. split; [exact Hnd|]. split; [exact Hin|].
      split; [exact Hzl|]. split; [exact Hznd|]. exact Hzin. }
    split.
    { destruct tied as [|t]; [lia|]. reflexivity. }
    cbn [unit_ballot plain_ballot rk]. rewrite flat_rank_of.
    split; [rewrite app_length; unfold k, tied in *; lia|].
    split.
    { intros c Hc. unfold pi_cands. apply in_app_or in Hc. apply in_or_app.
      destruct Hc as [Hc|Hc]; [left; apply Hin|right; apply Hzin]; exact Hc. }
    intros Hdisj. apply Lib_sets.NoDup_app_intro; try assumption.
    intros c Hc Hc'. apply (Hdisj c); [apply Hin|apply Hzin]; assumption.
Qed.

(* name_PlackettLuce: ballot length = number of candidates *)
Theorem pl_complete : forall iv d b calls,
  NoDup (pi_cands iv) ->
  pl_ballot iv (length (pi_cands iv)) d = inl (b, calls) ->
  exists order tail,
    rk b = singletons pcand order ++ (match tail with [] => [] | _ => [tail] end) /\
    Permutation order (map fst (pi_int iv)) /\
    Permutation tail (pi_zero iv) /\
    Permutation (flat pcand (rk b)) (pi_cands iv).
Proof.
  intros iv d b calls Hnd H. apply pl_ballot_wf in H.
  destruct H as (_ & _ & (order & tail & _ & _ & Hrk & Hl & Hndo & Hino & Hlt & Hndt & Hint) & _).
  unfold pi_cands in *. rewrite app_length, map_length in *.
  apply Lib_sets.NoDup_app_inv in Hnd. destruct Hnd as (Hk & Hz & Hdisj).
  assert (Po : Permutation order (map fst (pi_int iv))).
  { apply NoDup_incl_length_perm; try assumption. rewrite map_length. lia. }
  assert (Pt : Permutation tail (pi_zero iv)).
  { apply NoDup_incl_length_perm; try assumption. lia. }
  exists order, tail. split; [exact Hrk|]. split; [exact Po|]. split; [exact Pt|].
  rewrite Hrk. change (singletons pcand order ++ match tail with [] => [] | _ :: _ => [tail] end)
    with (rank_of order tail). rewrite flat_rank_of. apply Permutation_app; assumption.
Qed.

Theorem pl_ballot_errors : forall iv bl d,
  let k := Nat.min bl (length (pi_int iv)) in
  let tied := (bl - length (pi_int iv))%nat in
  (forall e, pl_ballot iv bl d = inr e -> e = EScript \/ e = EValue) /\
  (pl_ballot iv bl d = inr EValue <->
   valid_sample (map fst (pi_int iv)) k (fst d) = true /\ (length (pi_zero iv) < tied)%nat).
Proof.
  intros iv bl d k tied. unfold pl_ballot. rewrite pl_counts_spec. fold k tied.
  destruct (valid_sample (map fst (pi_int iv)) k (fst d)) eqn:Ev; cbn [negb].
  - destruct tied as [|t].
    + split; [intros e He; discriminate|]. split; [discriminate|intros [_ Hc]; lia].
    + destruct (Nat.ltb_spec (length (pi_zero iv)) (S t)) as [Hlt|Hge].
      * split; [intros e He; injection He as <-; right; reflexivity|].
        split; [intros _; split; [reflexivity|exact Hlt]|reflexivity].
      * destruct (valid_sample (pi_zero iv) (S t) (snd d)); cbn [negb].
        -- split; [intros e He; discriminate|]. split; [discriminate|intros [_ Hc]; lia].
        -- split; [intros e He; injection He as <-; left; reflexivity|].
           split; [discriminate|intros [_ Hc]; lia].
  - split; [intros e He; injection He as <-; left; reflexivity|].
    split; [discriminate|intros [Hc _]; discriminate].
Qed.

(* ------------------------------------------------------------------ *)
(** * A2. Cumulative ballots (name_Cumulative) *)

Definition cs_upd (c : pcand) (p : pcand * Q) : pcand * Q :=
  if Pos.eqb c (fst p) then (fst p, snd p + 1) else p.
Definition cs_step (c : pcand) (acc : list (pcand * Q)) : list (pcand * Q) :=
  if pmem c (map fst acc) then map (cs_upd c) acc else acc ++ [(c, 1)].

Lemma count_scores_cons : forall c l acc, count_scores (c :: l) acc = count_scores l (cs_step c acc).
Proof. reflexivity. Qed.

Lemma cs_upd_fst : forall c p, fst (cs_upd c p) = fst p.
Proof. intros c p. unfold cs_upd. destruct (Pos.eqb c (fst p)); reflexivity. Qed.

Lemma cs_step_keys : forall c acc,
  map fst (cs_step c acc) = if pmem c (map fst acc) then map fst acc else map fst acc ++ [c].
Proof.
  intros c acc. unfold cs_step. destruct (pmem c (map fst acc)).
  - rewrite map_map. apply map_ext. apply cs_upd_fst.
  - rewrite map_app. reflexivity.
Qed.

Lemma cs_step_In : forall c acc c',
  In c' (map fst (cs_step c acc)) <-> In c' (map fst acc) \/ c' = c.
Proof.
  intros c acc c'. rewrite cs_step_keys. destruct (pmem c (map fst acc)) eqn:E.
  - apply pmem_In in E. split; [intros H; left; exact H|]. intros [H| ->]; assumption.
  - rewrite in_app_iff. cbn [In]. split.
    + intros [H|[<-|[]]]; [left; exact H|right; reflexivity].
    + intros [H| ->]; [left; exact H|right; left; reflexivity].
Qed.

Lemma cs_step_NoDup : forall c acc, NoDup (map fst acc) -> NoDup (map fst (cs_step c acc)).
Proof.
  intros c acc H. rewrite cs_step_keys. destruct (pmem c (map fst acc)) eqn:E; [exact H|].
  apply pmem_false in E. apply Lib_sets.NoDup_app_intro.
  - exact H.
  - constructor; [intros []|constructor].
  - intros a Ha [<-|[]]. apply E. exact Ha.
Qed.

Lemma cs_upd_sum : forall c acc, NoDup (map fst acc) ->
  qsum (map snd (map (cs_upd c) acc)) == qsum (map snd acc) + (if pmem c (map fst acc) then 1 else 0).
Proof.
  intros c acc. induction acc as [|[a v] acc IH]; intros Hnd.
  - cbn [map pmem existsb]. rewrite qsum_nil. ring.
  - cbn [map fst] in Hnd. inversion Hnd as [|x l Hnotin Hnd']; subst.
    cbn [map]. rewrite !qsum_cons, (IH Hnd'). unfold cs_upd at 1. cbn [fst snd].
    unfold pmem. cbn [existsb]. fold (pmem c (map fst acc)).
    destruct (Pos.eqb_spec c a) as [->|Hne]; cbn [orb snd].
    + apply pmem_false in Hnotin. rewrite Hnotin. ring.
    + ring.
Qed.

Lemma cs_step_sum : forall c acc, NoDup (map fst acc) ->
  qsum (map snd (cs_step c acc)) == qsum (map snd acc) + 1.
Proof.
  intros c acc Hnd. unfold cs_step. destruct (pmem c (map fst acc)) eqn:E.
  - rewrite (cs_upd_sum c acc Hnd), E. reflexivity.
  - rewrite map_app, qsum_app. cbn [map snd]. rewrite qsum_cons, qsum_nil. ring.
Qed.

Lemma lookupP_cons : forall a v (acc : list (pcand * Q)) c,
  lookupP ((a, v) :: acc) c = if Pos.eqb c a then v else lookupP acc c.
Proof.
  intros a v acc c. unfold lookupP. cbn [find fst]. destruct (Pos.eqb c a); reflexivity.
Qed.

Lemma lookupP_not_in : forall (acc : list (pcand * Q)) c, ~ In c (map fst acc) -> lookupP acc c = 0.
Proof.
  induction acc as [|[a v] acc IH]; intros c H; [reflexivity|].
  rewrite lookupP_cons. cbn [map fst In] in H. destruct (Pos.eqb_spec c a) as [->|Hne].
  - exfalso. apply H. left. reflexivity.
  - apply IH. intros Hc. apply H. right. exact Hc.
Qed.

Lemma cs_upd_lookup : forall c acc c',
  lookupP (map (cs_upd c) acc) c' ==
  lookupP acc c' + (if Pos.eqb c' c && pmem c (map fst acc) then 1 else 0).
Proof.
  intros c acc c'. induction acc as [|[a v] acc IH].
  - cbn [map pmem existsb]. rewrite andb_false_r. unfold lookupP. cbn [find]. ring.
  - cbn [map]. unfold cs_upd at 1. cbn [fst snd]. unfold pmem. cbn [existsb].
    fold (pmem c (map fst acc)).
    destruct (Pos.eqb c a) eqn:Eca; cbn [orb]; rewrite !lookupP_cons;
      destruct (Pos.eqb c' a) eqn:Ec'a.
    + apply Pos.eqb_eq in Eca. apply Pos.eqb_eq in Ec'a. subst. rewrite Pos.eqb_refl. cbn [andb]. ring.
    + rewrite IH. apply Pos.eqb_eq in Eca. subst. rewrite Ec'a. cbn [andb]. ring.
    + apply Pos.eqb_eq in Ec'a. subst. rewrite Pos.eqb_sym, Eca. cbn [andb]. ring.
    + exact IH.
Qed.

Lemma cs_step_lookup : forall c acc c',
  lookupP (cs_step c acc) c' == lookupP acc c' + (if Pos.eqb c' c then 1 else 0).
Proof.
  intros c acc c'. unfold cs_step. destruct (pmem c (map fst acc)) eqn:E.
  - rewrite cs_upd_lookup, E, andb_true_r. reflexivity.
  - apply pmem_false in E. induction acc as [|[a v] acc IH].
    + cbn [app]. rewrite lookupP_cons. unfold lookupP. cbn [find].
      destruct (Pos.eqb c' c); ring.
    + cbn [app]. rewrite !lookupP_cons. cbn [map fst In] in E.
      destruct (Pos.eqb_spec c' a) as [->|Hne'].
      * destruct (Pos.eqb_spec a c) as [->|_]; [exfalso; apply E; left; reflexivity|ring].
      * apply IH. intros Hc. apply E. right. exact Hc.
Qed.

Lemma cs_step_whole_pos : forall c acc,
  (forall c' v, In (c', v) acc -> whole_pos v) ->
  forall c' v, In (c', v) (cs_step c acc) -> whole_pos v.
Proof.
  intros c acc H c' v Hin. unfold cs_step in Hin. destruct (pmem c (map fst acc)).
  - apply in_map_iff in Hin. destruct Hin as ([a v0] & E & Hp). unfold cs_upd in E. cbn [fst snd] in E.
    destruct (Pos.eqb c a).
    + injection E as _ <-. destruct (H a v0 Hp) as (n & Hn & Hv). exists (S n). split; [lia|].
      rewrite Qnat_S, Hv. reflexivity.
    + injection E as _ <-. exact (H a v0 Hp).
  - apply in_app_or in Hin. destruct Hin as [Hin|[E|[]]]; [exact (H c' v Hin)|].
    injection E as _ <-. apply whole_pos_1. reflexivity.
Qed.

Lemma draw_count_cons : forall x l c,
  draw_count (x :: l) c = ((if Pos.eqb c x then 1 else 0) + draw_count l c)%nat.
Proof.
  intros x l c. unfold draw_count. cbn [count_occ].
  destruct (Pos.eq_dec x c) as [->|Hne].
  - rewrite Pos.eqb_refl. reflexivity.
  - destruct (Pos.eqb_spec c x) as [->|_]; [contradiction|reflexivity].
Qed.

Lemma count_scores_inv : forall l acc,
  NoDup (map fst acc) -> (forall c v, In (c, v) acc -> whole_pos v) ->
  NoDup (map fst (count_scores l acc)) /\
  (forall c v, In (c, v) (count_scores l acc) -> whole_pos v) /\
  qsum (map snd (count_scores l acc)) == qsum (map snd acc) + Qnat (length l) /\
  (forall c, In c (map fst (count_scores l acc)) <-> In c (map fst acc) \/ In c l) /\
  (forall c, lookupP (count_scores l acc) c == lookupP acc c + Qnat (draw_count l c)).
Proof.
  induction l as [|x l IH]; intros acc Hnd Hwp.
  - cbn [count_scores length]. split; [exact Hnd|]. split; [exact Hwp|].
    split; [rewrite Qnat_0; ring|]. split; [intros c; cbn [In]; tauto|].
    intros c. unfold draw_count. cbn [count_occ]. rewrite Qnat_0. ring.
  - rewrite count_scores_cons.
    destruct (IH (cs_step x acc) (cs_step_NoDup x acc Hnd) (cs_step_whole_pos x acc Hwp))
      as (H1 & H2 & H3 & H4 & H5).
    split; [exact H1|]. split; [exact H2|]. split.
    { rewrite H3, (cs_step_sum x acc Hnd). cbn [length]. rewrite Qnat_S. ring. }
    split.
    { intros c. rewrite H4, cs_step_In. cbn [In]. split.
      - intros [[H| ->]|H]; [left; exact H|right; left; reflexivity|right; right; exact H].
      - intros [H|[<-|H]]; [left; left; exact H|left; right; reflexivity|right; exact H]. }
    intros c. rewrite H5, cs_step_lookup, draw_count_cons, Qnat_plus.
    destruct (Pos.eqb c x); [change (Qnat 1) with 1|rewrite Qnat_0]; ring.
Qed.

Theorem cumulative_ballot_wf : forall iv nv d b calls,
  cumulative_ballot iv nv d = inl (b, calls) ->
  rk b = [] /\ wt b == 1 /\
  length d = nv /\ incl d (map fst (pi_int iv)) /\
  NoDup (map fst (sc b)) /\
  (forall c, In c (map fst (sc b)) <-> In c d) /\
  incl (map fst (sc b)) (map fst (pi_int iv)) /\
  (forall c v, In (c, v) (sc b) -> whole_pos v /\ v == Qnat (draw_count d c)) /\
  qsum (map snd (sc b)) == Qnat nv /\
  calls = [GIID (pi_int iv) nv].
Proof.
  intros iv nv d b calls H. unfold cumulative_ballot in H.
  destruct (valid_iid (map fst (pi_int iv)) nv d) eqn:Ev; cbn [negb] in H; [|discriminate].
  injection H as <- <-. cbn [rk wt sc]. apply valid_iid_iff in Ev. destruct Ev as (Hl & Hin).
  destruct (count_scores_inv d [] (NoDup_nil _) (fun c v (F : In (c, v) []) => match F with end))
    as (H1 & H2 & H3 & H4 & H5).
  split; [reflexivity|]. split; [reflexivity|]. split; [exact Hl|]. split; [exact Hin|].
  split; [exact H1|].
  assert (Hk : forall c, In c (map fst (count_scores d [])) <-> In c d).
  { intros c. rewrite H4. cbn [map In]. tauto. }
  split; [exact Hk|]. split; [intros c Hc; apply Hin; apply Hk; exact Hc|].
  split.
  { intros c v Hcv. split; [exact (H2 c v Hcv)|].
    rewrite <- (lookupP_spec _ c v H1 Hcv), H5. cbn. ring. }
  split; [|reflexivity]. rewrite H3, Hl. cbn [map]. rewrite qsum_nil. ring.
Qed.

(* ------------------------------------------------------------------ *)
(** * A7. ballot_pool_to_profile *)

Definition getn (acc : list (list pcand * nat)) (r : list pcand) : nat :=
  match find (fun x => list_peqb (fst x) r) acc with Some x => snd x | None => O end.

Lemma getn_cons : forall a n acc r,
  getn ((a, n) :: acc) r = if list_peqb a r then n else getn acc r.
Proof. intros a n acc r. unfold getn. cbn [find fst]. destruct (list_peqb a r); reflexivity. Qed.

Lemma list_peqb_refl : forall a, list_peqb a a = true.
Proof. intros a. apply list_peqb_true_iff. reflexivity. Qed.

Lemma list_peqb_false_iff : forall a b, list_peqb a b = false <-> a <> b.
Proof.
  intros a b. rewrite <- list_peqb_true_iff. destruct (list_peqb a b); split; intros H;
    try reflexivity; try discriminate; try (intros H'; discriminate). exfalso. apply H. reflexivity.
Qed.

Lemma pool_add_keys : forall acc r r',
  In r' (map fst (pool_add acc r)) <-> In r' (map fst acc) \/ r' = r.
Proof.
  induction acc as [|[a n] acc IH]; intros r r'; cbn [pool_add].
  - cbn [map fst In]. split; [intros [<-|[]]; right; reflexivity|intros [[]| ->]; left; reflexivity].
  - destruct (list_peqb a r) eqn:E.
    + apply list_peqb_true_iff in E. subst a. cbn [map fst In]. split.
      * intros H. left. exact H.
      * intros [H| ->]; [exact H|left; reflexivity].
    + cbn [map fst In]. rewrite IH. tauto.
Qed.

Lemma pool_add_NoDup : forall acc r, NoDup (map fst acc) -> NoDup (map fst (pool_add acc r)).
Proof.
  induction acc as [|[a n] acc IH]; intros r H; cbn [pool_add].
  - cbn [map fst]. constructor; [intros []|constructor].
  - cbn [map fst] in H. inversion H as [|x l Hnotin Hnd]; subst.
    destruct (list_peqb a r) eqn:E.
    + cbn [map fst]. constructor; assumption.
    + cbn [map fst]. constructor; [|apply IH; exact Hnd].
      rewrite pool_add_keys. intros [Hc| ->]; [contradiction|].
      apply list_peqb_false_iff in E. apply E. reflexivity.
Qed.

Lemma pool_add_getn : forall acc r r',
  getn (pool_add acc r) r' = (getn acc r' + if list_peqb r r' then 1 else 0)%nat.
Proof.
  induction acc as [|[a n] acc IH]; intros r r'; cbn [pool_add].
  - rewrite getn_cons. unfold getn. cbn [find]. destruct (list_peqb r r'); reflexivity.
  - destruct (list_peqb a r) eqn:E.
    + apply list_peqb_true_iff in E. subst a. rewrite !getn_cons.
      destruct (list_peqb r r'); lia.
    + rewrite !getn_cons. destruct (list_peqb a r') eqn:E'.
      * apply list_peqb_true_iff in E'. subst a.
        apply list_peqb_false_iff in E.
        destruct (list_peqb r r') eqn:E2; [apply list_peqb_true_iff in E2; congruence|lia].
      * apply IH.
Qed.

Lemma pool_add_pos : forall acc r,
  (forall a n, In (a, n) acc -> (0 < n)%nat) -> forall a n, In (a, n) (pool_add acc r) -> (0 < n)%nat.
Proof.
  induction acc as [|[a0 n0] acc IH]; intros r H a n Hin; cbn [pool_add] in Hin.
  - destruct Hin as [E|[]]. injection E as _ <-. lia.
  - destruct (list_peqb a0 r).
    + destruct Hin as [E|Hin]; [injection E as _ <-; lia|]. apply (H a n). right. exact Hin.
    + destruct Hin as [E|Hin]; [injection E as <- <-; apply (H a0 n0); left; reflexivity|].
      apply (IH r (fun a' n' H' => H a' n' (or_intror H')) a n Hin).
Qed.

Lemma list_sum_cons : forall x l, list_sum (x :: l) = (x + list_sum l)%nat.
Proof. reflexivity. Qed.

Lemma pool_add_sum : forall acc r,
  list_sum (map snd (pool_add acc r)) = S (list_sum (map snd acc)).
Proof.
  induction acc as [|[a n] acc IH]; intros r; cbn [pool_add].
  - reflexivity.
  - destruct (list_peqb a r); cbn [map snd]; rewrite ?list_sum_cons; [cbn [map snd]; lia|]. rewrite IH. lia.
Qed.

Lemma pool_count_cons : forall x l r,
  pool_count (x :: l) r = ((if list_peqb x r then 1 else 0) + pool_count l r)%nat.
Proof.
  intros x l r. unfold pool_count, list_peqb. cbn [count_occ].
  destruct (list_eq_dec Pos.eq_dec x r); reflexivity.
Qed.

Lemma pool_fold_inv : forall pool acc,
  NoDup (map fst acc) -> (forall a n, In (a, n) acc -> (0 < n)%nat) ->
  NoDup (map fst (fold_left pool_add pool acc)) /\
  (forall a n, In (a, n) (fold_left pool_add pool acc) -> (0 < n)%nat) /\
  (forall r, getn (fold_left pool_add pool acc) r = (getn acc r + pool_count pool r)%nat) /\
  (forall r, In r (map fst (fold_left pool_add pool acc)) <-> In r (map fst acc) \/ In r pool) /\
  list_sum (map snd (fold_left pool_add pool acc)) = (list_sum (map snd acc) + length pool)%nat.
Proof.
  induction pool as [|x pool IH]; intros acc Hnd Hpos; cbn [fold_left].
  - split; [exact Hnd|]. split; [exact Hpos|]. split; [intros r; unfold pool_count; cbn; lia|].
    split; [intros r; cbn [In]; tauto|]. cbn [length]. lia.
  - destruct (IH (pool_add acc x) (pool_add_NoDup acc x Hnd) (pool_add_pos acc x Hpos))
      as (H1 & H2 & H3 & H4 & H5).
    split; [exact H1|]. split; [exact H2|]. split.
    { intros r. rewrite H3, pool_add_getn, pool_count_cons. lia. }
    split.
    { intros r. rewrite H4, pool_add_keys. cbn [In]. split.
      - intros [[H| ->]|H]; [left; exact H|right; left; reflexivity|right; right; exact H].
      - intros [H|[<-|H]]; [left; left; exact H|left; right; reflexivity|right; exact H]. }
    rewrite H5, pool_add_sum. cbn [length]. lia.
Qed.

Lemma getn_In : forall acc r n, NoDup (map fst acc) -> In (r, n) acc -> getn acc r = n.
Proof.
  induction acc as [|[a m] acc IH]; intros r n Hnd Hin; [destruct Hin|].
  cbn [map fst] in Hnd. inversion Hnd as [|x l Hnotin Hnd']; subst. rewrite getn_cons.
  destruct Hin as [E|Hin].
  - injection E as -> ->. rewrite list_peqb_refl. reflexivity.
  - destruct (list_peqb a r) eqn:E.
    + apply list_peqb_true_iff in E. subst a. exfalso. apply Hnotin.
      apply in_map_iff. exists (r, n). split; [reflexivity|exact Hin].
    + apply IH; assumption.
Qed.

Theorem pool_to_profile_ok : forall pool cs p,
  pool_to_profile pool cs = inl p ->
  NoDup cs /\ (cs <> [] -> cands p = cs) /\
  (forall b, In b (ballots p) ->
     exists r, In r pool /\ rk b = singletons pcand r /\ sc b = [] /\
               wt b = Qnat (pool_count pool r) /\ (0 < pool_count pool r)%nat) /\
  (forall r, In r pool -> exists b, In b (ballots p) /\ rk b = singletons pcand r) /\
  NoDup (map rk (ballots p)) /\
  total_wt pcand (ballots p) == Qnat (length pool) /\
  whole_pos_weights (ballots p).
Proof.
  intros pool cs p H. unfold pool_to_profile in H.
  apply (mk_profile_ok pcand Pos.eqb Pos.eqb_spec) in H. destruct H as (Hb & Hc & _ & Hnd).
  destruct (pool_fold_inv pool [] (NoDup_nil _) (fun a n (F : In (a, n) []) => match F with end))
    as (H1 & H2 & H3 & H4 & H5).
  set (counted := fold_left pool_add pool []) in *.
  assert (Hb' : forall b, In b (ballots p) ->
     exists r, In r pool /\ rk b = singletons pcand r /\ sc b = [] /\
               wt b = Qnat (pool_count pool r) /\ (0 < pool_count pool r)%nat).
  { intros b Hin. rewrite Hb in Hin. apply in_map_iff in Hin. destruct Hin as ([r n] & <- & Hrn).
    cbn [fst snd plain_ballot rk sc wt]. exists r.
    assert (Hn : n = pool_count pool r).
    { rewrite <- (getn_In counted r n H1 Hrn), H3. unfold getn. cbn [find]. lia. }
    split.
    { assert (Hk : In r (map fst counted)) by (apply in_map_iff; exists (r, n); split; [reflexivity|exact Hrn]).
      apply H4 in Hk. destruct Hk as [[]|Hk]. exact Hk. }
    split; [reflexivity|]. split; [reflexivity|]. split; [rewrite Hn; reflexivity|].
    rewrite <- Hn. exact (H2 r n Hrn). }
  split; [exact Hnd|]. split; [exact Hc|]. split; [exact Hb'|]. split.
  { intros r Hr. assert (Hk : In r (map fst counted)) by (apply H4; right; exact Hr).
    apply in_map_iff in Hk. destruct Hk as ([r' n] & E & Hrn). cbn [fst] in E. subst r'.
    exists (plain_ballot pcand (singletons pcand r) (Qnat n)). split; [|reflexivity].
    rewrite Hb. apply in_map_iff. exists (r, n). split; [reflexivity|exact Hrn]. }
  split.
  { rewrite Hb, map_map. cbn [plain_ballot rk].
    rewrite <- (map_map fst (singletons pcand)). apply NoDup_map_inj; [|exact H1].
    intros a b _ _ E. apply (singletons_inj pcand). exact E. }
  split.
  { rewrite Hb. unfold total_wt. rewrite map_map. cbn [plain_ballot wt].
    rewrite qsum_map_Qnat_length, H5. cbn [map list_sum]. reflexivity. }
  intros b Hin. destruct (Hb' b Hin) as (r & _ & _ & _ & -> & Hpos). apply whole_pos_Qnat. exact Hpos.
Qed.

Theorem pool_to_profile_errors : forall pool cs,
  (forall e, pool_to_profile pool cs = inr e -> e = EValue) /\
  (pool_to_profile pool cs = inr EValue <-> ~ NoDup cs) /\
  (NoDup cs -> exists p, pool_to_profile pool cs = inl p).
Proof.
  intros pool cs. unfold pool_to_profile.
  destruct (mk_profile_dup_full pcand Pos.eqb Pos.eqb_spec
              (map (fun rn : list pcand * nat =>
                      plain_ballot pcand (singletons pcand (fst rn)) (Qnat (snd rn)))
                   (fold_left pool_add pool [])) cs) as (H1 & H2 & H3).
  split; [exact H2|]. split; [exact H1|exact H3].
Qed.

(* ------------------------------------------------------------------ *)
(** * A6. Spatial models: stable sort by distance *)

Definition dle (a b : pcand * Q) : Prop := snd a <= snd b.
Definition sortp (l : list (pcand * Q)) : list (pcand * Q) := fold_right insert_by [] l.

Lemma insert_by_perm : forall x l, Permutation (insert_by x l) (x :: l).
Proof.
  intros x l. induction l as [|y l IH]; cbn [insert_by]; [apply Permutation_refl|].
  destruct (Qle_bool (snd x) (snd y)); [apply Permutation_refl|].
  eapply Permutation_trans; [apply perm_skip; exact IH|apply perm_swap].
Qed.

Lemma insert_by_sorted : forall x l, StronglySorted dle l -> StronglySorted dle (insert_by x l).
Proof.
  intros x l H. induction H as [|y l Hs IH Hall]; cbn [insert_by].
  - constructor; [constructor|constructor].
  - destruct (Qle_bool (snd x) (snd y)) eqn:E.
    + apply Qle_bool_iff in E. constructor; [constructor; assumption|].
      constructor; [exact E|]. rewrite Forall_forall in Hall |- *. intros z Hz.
      unfold dle in *. apply Qle_trans with (snd y); [exact E|apply Hall; exact Hz].
    + constructor; [exact IH|]. rewrite Forall_forall in Hall |- *. intros z Hz.
      apply (Permutation_in _ (insert_by_perm x l)) in Hz. destruct Hz as [<-|Hz].
      * unfold dle. destruct (Qlt_le_dec (snd y) (snd x)) as [Hlt|Hle].
        -- apply Qlt_le_weak. exact Hlt.
        -- apply Qle_bool_iff in Hle. congruence.
      * apply Hall. exact Hz.
Qed.

Lemma insert_by_filter : forall q x l,
  filter (fun p : pcand * Q => Qeq_bool (snd p) q) (insert_by x l) =
  (if Qeq_bool (snd x) q then [x] else []) ++ filter (fun p : pcand * Q => Qeq_bool (snd p) q) l.
Proof.
  intros q x l. induction l as [|y l IH]; cbn [insert_by].
  - cbn [filter]. destruct (Qeq_bool (snd x) q); reflexivity.
  - destruct (Qle_bool (snd x) (snd y)) eqn:E.
    + cbn [filter]. destruct (Qeq_bool (snd x) q); reflexivity.
    + cbn [filter]. rewrite IH. destruct (Qeq_bool (snd x) q) eqn:Ex; [|reflexivity].
      destruct (Qeq_bool (snd y) q) eqn:Ey; [|reflexivity].
      exfalso. apply Qeq_bool_iff in Ex. apply Qeq_bool_iff in Ey.
      assert (Hle : snd x <= snd y) by (rewrite Ex, Ey; apply Qle_refl).
      apply Qle_bool_iff in Hle. congruence.
Qed.

Lemma sortp_perm : forall l, Permutation (sortp l) l.
Proof.
  induction l as [|x l IH]; [apply Permutation_refl|]. unfold sortp in *. cbn [fold_right].
  eapply Permutation_trans; [apply insert_by_perm|apply perm_skip; exact IH].
Qed.

Lemma sortp_sorted : forall l, StronglySorted dle (sortp l).
Proof.
  induction l as [|x l IH]; [constructor|]. unfold sortp in *. cbn [fold_right].
  apply insert_by_sorted. exact IH.
Qed.

Lemma sortp_stable : forall q l,
  filter (fun p : pcand * Q => Qeq_bool (snd p) q) (sortp l) =
  filter (fun p : pcand * Q => Qeq_bool (snd p) q) l.
Proof.
  intros q l. induction l as [|x l IH]; [reflexivity|]. unfold sortp in *. cbn [fold_right].
  rewrite insert_by_filter, IH. cbn [filter]. destruct (Qeq_bool (snd x) q); reflexivity.
Qed.

Lemma map_fst_combine : forall (A B : Type) (a : list A) (b : list B),
  length a = length b -> map fst (combine a b) = a.
Proof.
  intros A B a. induction a as [|x a IH]; intros [|y b] H; cbn in H; try discriminate; [reflexivity|].
  cbn [combine map fst]. rewrite IH; [reflexivity|lia].
Qed.

Theorem sort_by_distance_ok : forall cs dists,
  length cs = length dists ->
  exists sorted : list (pcand * Q),
    sort_by_distance cs dists = map fst sorted /\
    Permutation sorted (combine cs dists) /\
    StronglySorted (fun a b => snd a <= snd b) sorted /\
    (forall q, at_distance q sorted = at_distance q (combine cs dists)) /\
    Permutation (sort_by_distance cs dists) cs.
Proof.
  intros cs dists Hl. exists (sortp (combine cs dists)).
  split; [reflexivity|]. split; [apply sortp_perm|]. split; [apply sortp_sorted|].
  split; [intros q; unfold at_distance; rewrite sortp_stable; reflexivity|].
  unfold sort_by_distance. fold (sortp (combine cs dists)).
  rewrite <- (map_fst_combine _ _ cs dists Hl) at 2. apply Permutation_map. apply sortp_perm.
Qed.

(* ------------------------------------------------------------------ *)
(** * A3. Table samplers *)

Theorem table_bloc_ok : forall tbl zero n draws bs calls,
  table_bloc tbl zero n draws = inl (bs, calls) ->
  length draws = n /\ length bs = n /\ calls = [GTable tbl n] /\
  bs = map (fun r => unit_ballot (rank_of r zero)) draws /\
  (forall r, In r draws -> exists v, In (r, v) tbl /\ 0 < v).
Proof.
  intros tbl zero n draws bs calls H. unfold table_bloc in H.
  destruct (Nat.eqb_spec (length draws) n) as [Hl|Hl]; cbn [negb] in H; [|discriminate].
  match type of H with (if negb ?c then _ else _) = _ => destruct c eqn:Ef end;
    cbn [negb] in H; [|discriminate].
  injection H as <- <-. split; [exact Hl|]. split; [rewrite map_length; exact Hl|].
  split; [reflexivity|]. split; [reflexivity|].
  intros r Hr. rewrite forallb_forall in Ef. specialize (Ef r Hr). apply existsb_exists in Ef.
  destruct Ef as ([r' v] & Hin & E). cbn [fst snd] in E. apply andb_true_iff in E. destruct E as [E1 E2].
  apply list_peqb_true_iff in E1. subst r'. apply Lib_rk.Qlt_bool_iff in E2. exists v. split; assumption.
Qed.

Theorem table_bloc_bt : forall d zero n draws bs calls,
  (forall c s, In (c, s) d -> 0 < s) ->
  table_bloc (bt_pdf d) zero n draws = inl (bs, calls) ->
  length bs = n /\ calls = [GTable (bt_pdf d) n] /\
  forall b, In b bs ->
    exists r, Permutation r (map fst d) /\
      rk b = singletons pcand r ++ (match zero with [] => [] | _ => [zero] end) /\
      wt b == 1 /\ sc b = [] /\ flat pcand (rk b) = r ++ zero.
Proof.
  intros d zero n draws bs calls Hpos H. apply table_bloc_ok in H.
  destruct H as (_ & Hn & Hc & -> & Hd). split; [exact Hn|]. split; [exact Hc|].
  intros b Hb. apply in_map_iff in Hb. destruct Hb as (r & <- & Hr). exists r.
  destruct (Hd r Hr) as (v & Hv & _).
  split; [exact (proj1 (bt_pdf_calc_prob d Hpos r v Hv))|].
  split; [reflexivity|]. split; [reflexivity|]. split; [reflexivity|].
  cbn [unit_ballot plain_ballot rk]. apply flat_rank_of.
Qed.

(* ------------------------------------------------------------------ *)
(** * A9. MCMC kernels keep the multiset of the seed *)

Lemma swap_adj_perm : forall (A : Type) j (l : list A), Permutation (swap_adj j l) l.
Proof.
  intros A j. induction j as [|j IH]; intros l.
  - destruct l as [|x [|y l]]; cbn [swap_adj]; try apply Permutation_refl. apply perm_swap.
  - destruct l as [|x l]; cbn [swap_adj]; [apply Permutation_refl|]. apply perm_skip. apply IH.
Qed.

Lemma swap_adj_length : forall (A : Type) j (l : list A), length (swap_adj j l) = length l.
Proof. intros A j l. apply Permutation_length. apply swap_adj_perm. Qed.

Lemma bt_mcmc_step_perm : forall iv cur s, Permutation (bt_mcmc_step iv cur s) cur.
Proof.
  intros iv cur s. unfold bt_mcmc_step.
  destruct (Qlt_bool (snd s) (bt_accept iv cur (fst s))); [apply swap_adj_perm|apply Permutation_refl].
Qed.

Theorem bt_mcmc_run_perm : forall iv steps cur r,
  In r (bt_mcmc_run iv cur steps) -> Permutation r cur.
Proof.
  intros iv steps. induction steps as [|s steps IH]; intros cur r H; [destruct H|].
  cbn [bt_mcmc_run] in H. destruct H as [<-|H]; [apply bt_mcmc_step_perm|].
  eapply Permutation_trans; [apply (IH _ _ H)|apply bt_mcmc_step_perm].
Qed.

Lemma bt_mcmc_run_length : forall iv steps cur, length (bt_mcmc_run iv cur steps) = length steps.
Proof.
  intros iv steps. induction steps as [|s steps IH]; intros cur; [reflexivity|].
  cbn [bt_mcmc_run length]. rewrite IH. reflexivity.
Qed.

Theorem bt_mcmc_bloc_ok : forall iv seed steps bs,
  bt_mcmc_bloc iv seed steps = inl bs ->
  length seed = length (pi_int iv) /\ NoDup seed /\ incl seed (map fst (pi_int iv)) /\
  (NoDup (map fst (pi_int iv)) -> Permutation seed (map fst (pi_int iv))) /\
  length bs = length steps /\
  forall b, In b bs ->
    exists r, Permutation r seed /\
      rk b = singletons pcand r ++ (match pi_zero iv with [] => [] | _ => [pi_zero iv] end) /\
      wt b == 1 /\ sc b = [] /\ flat pcand (rk b) = r ++ pi_zero iv.
Proof.
  intros iv seed steps bs H. unfold bt_mcmc_bloc in H.
  destruct (valid_sample (map fst (pi_int iv)) (length (pi_int iv)) seed) eqn:Ev; cbn [negb] in H;
    [|discriminate].
  match type of H with (if negb ?c then _ else _) = _ => destruct c end; cbn [negb] in H; [|discriminate].
  injection H as <-. apply valid_sample_iff in Ev. destruct Ev as (Hl & Hnd & Hin).
  split; [exact Hl|]. split; [exact Hnd|]. split; [exact Hin|]. split.
  { intros Hk. apply NoDup_incl_length_perm; try assumption. rewrite map_length. exact Hl. }
  split; [rewrite map_length; apply bt_mcmc_run_length|].
  intros b Hb. apply in_map_iff in Hb. destruct Hb as (r & <- & Hr). exists r.
  split; [apply (bt_mcmc_run_perm _ _ _ _ Hr)|].
  split; [reflexivity|]. split; [reflexivity|]. split; [reflexivity|].
  cbn [unit_ballot plain_ballot rk]. apply flat_rank_of.
Qed.

Lemma slate_mcmc_step_perm : forall own c cur s, Permutation (slate_mcmc_step own c cur s) cur.
Proof.
  intros own c cur s. unfold slate_mcmc_step.
  destruct (Qlt_bool (snd s) (slate_accept own c cur (fst s))); [apply swap_adj_perm|apply Permutation_refl].
Qed.

Theorem slate_mcmc_run_perm : forall own c steps cur t,
  In t (slate_mcmc_run own c cur steps) ->
  Permutation t cur /\ forall b, count_bloc b t = count_bloc b cur.
Proof.
  intros own c steps. induction steps as [|s steps IH]; intros cur t H; [destruct H|].
  cbn [slate_mcmc_run] in H.
  assert (P : Permutation t cur).
  { destruct H as [<-|H]; [apply slate_mcmc_step_perm|].
    eapply Permutation_trans; [apply (proj1 (IH _ _ H))|apply slate_mcmc_step_perm]. }
  split; [exact P|]. intros b. apply count_bloc_perm. exact P.
Qed.

(* ------------------------------------------------------------------ *)
(** * A5. AlternatingCrossover ballots *)

Lemma interleave_length : forall a b,
  length (interleave a b) = (2 * Nat.min (length a) (length b))%nat.
Proof.
  induction a as [|x a IH]; intros [|y b]; cbn [interleave length Nat.min]; try reflexivity.
  rewrite IH. lia.
Qed.

Lemma interleave_incl : forall a b, incl (interleave a b) (a ++ b).
Proof.
  unfold incl. induction a as [|x a IH]; intros [|y b] z Hz; cbn [interleave] in Hz;
    try (destruct Hz; fail).
  destruct Hz as [E|[E|Hz]].
  - left. exact E.
  - apply in_or_app. right. left. exact E.
  - apply IH in Hz. apply in_app_or in Hz. destruct Hz as [Hz|Hz].
    + right. apply in_or_app. left. exact Hz.
    + apply in_or_app. right. right. exact Hz.
Qed.

Lemma interleave_perm : forall a b, length a = length b -> Permutation (interleave a b) (a ++ b).
Proof.
  induction a as [|x a IH]; intros [|y b] H; cbn in H; try discriminate; [apply Permutation_refl|].
  cbn [interleave app]. apply perm_skip.
  eapply Permutation_trans; [apply perm_skip; apply IH; lia|]. apply Permutation_middle.
Qed.

Theorem ac_ballot_wf : forall cross bo oo,
  wt (ac_ballot cross bo oo) == 1 /\ sc (ac_ballot cross bo oo) = [] /\
  rk (ac_ballot cross bo oo) = singletons pcand (if cross then interleave oo bo else bo ++ oo) /\
  flat pcand (rk (ac_ballot cross bo oo)) = (if cross then interleave oo bo else bo ++ oo) /\
  incl (flat pcand (rk (ac_ballot cross bo oo))) (bo ++ oo) /\
  (cross = false -> flat pcand (rk (ac_ballot cross bo oo)) = bo ++ oo) /\
  (cross = true ->
     (Permutation (flat pcand (rk (ac_ballot cross bo oo))) (bo ++ oo) <-> length bo = length oo)).
Proof.
  intros cross bo oo. unfold ac_ballot, unit_ballot, plain_ballot. cbn [wt sc rk].
  rewrite (flat_singletons pcand).
  split; [reflexivity|]. split; [reflexivity|]. split; [reflexivity|]. split; [reflexivity|].
  split.
  { destruct cross; [|apply incl_refl]. intros c Hc. apply interleave_incl in Hc.
    apply in_app_or in Hc. apply in_or_app. tauto. }
  split; [intros ->; reflexivity|]. intros ->. split.
  - intros P. apply Permutation_length in P. rewrite interleave_length, app_length in P. lia.
  - intros Hl. eapply Permutation_trans; [apply interleave_perm; lia|apply Permutation_app_comm].
Qed.

Theorem ac_truncates : forall bo oo,
  length bo <> length oo ->
  length (flat pcand (rk (ac_ballot true bo oo))) = (2 * Nat.min (length bo) (length oo))%nat /\
  (length (flat pcand (rk (ac_ballot true bo oo))) < length bo + length oo)%nat.
Proof.
  intros bo oo H. unfold ac_ballot, unit_ballot, plain_ballot. cbn [rk].
  rewrite (flat_singletons pcand), interleave_length. lia.
Qed.

Theorem ac_bloc_ok : forall draws n_cross i pb po p_bloc p_opp bs calls,
  ac_bloc n_cross i pb po p_bloc p_opp draws = inl (bs, calls) ->
  length bs = length draws /\
  (forall k d, nth_error draws k = Some d ->
     nth_error bs k = Some (ac_ballot (Nat.ltb (i + k) n_cross) (fst d) (snd d)) /\
     Permutation (fst d) pb /\ Permutation (snd d) po).
Proof.
  induction draws as [|[bo oo] draws IH]; intros n_cross i pb po p_bloc p_opp bs calls H;
    cbn [ac_bloc] in H.
  - injection H as <- <-. split; [reflexivity|]. intros [|k] d Hk; discriminate.
  - destruct (valid_sample pb (length pb) bo) eqn:E1; cbn [andb negb] in H; [|discriminate].
    destruct (valid_sample po (length po) oo) eqn:E2; cbn [negb] in H; [|discriminate].
    destruct (ac_bloc n_cross (S i) bo oo p_bloc p_opp draws) as [[bs' cs']|e] eqn:Er;
      cbn [rbind] in H; [|discriminate].
    injection H as <- <-. destruct (IH _ _ _ _ _ _ _ _ Er) as (Hl & Hk).
    apply valid_sample_iff in E1. destruct E1 as (L1 & N1 & I1).
    apply valid_sample_iff in E2. destruct E2 as (L2 & N2 & I2).
    assert (P1 : Permutation bo pb).
    { apply NoDup_Permutation_bis; try assumption. lia. }
    assert (P2 : Permutation oo po).
    { apply NoDup_Permutation_bis; try assumption. lia. }
    split; [cbn [length]; rewrite Hl; reflexivity|].
    intros [|k] d Hd; cbn [nth_error] in Hd |- *.
    + injection Hd as <-. cbn [fst snd]. rewrite Nat.add_0_r. repeat split; assumption.
    + destruct (Hk k d Hd) as (Hb & Q1 & Q2). replace (i + S k)%nat with (S i + k)%nat by lia.
      split; [exact Hb|]. split.
      * eapply Permutation_trans; [exact Q1|exact P1].
      * eapply Permutation_trans; [exact Q2|exact P2].
Qed.
