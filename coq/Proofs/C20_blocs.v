(* Proofs/C20_blocs.v — C20, generator side: exact characterisation of
   [bloc_checks] (BallotGenerator.__init__) and [combine_checks] (combine_preference_intervals):
   one clause per error cause, the order in which the checks fire, success iff no cause applies. *)
From VK Require Import Base GenValidation PrefInterval.
From VK.Spec Require Import BlocSpec.
From VK.Proofs Require Import Lib_sets Lib_rk C15_interval C20_validation.
From Coq Require Import Bool List Lia QArith ListDec.
Import ListNotations.

(* ------------------------------------------------------------------ *)
(** * the two primitive tests *)

Lemma bool_false_iff : forall (b : bool) (P : Prop), (b = true <-> P) -> (b = false <-> ~ P).
Proof.
  intros b P H. destruct b.
  - split; [discriminate|]. intros Hn. exfalso. apply Hn. apply H. reflexivity.
  - split; [|reflexivity]. intros _ HP. apply H in HP. discriminate.
Qed.

Lemma rounds_to_one_true_iff : forall q, rounds_to_one q = true <-> sums_to_one q.
Proof. intros q. unfold sums_to_one. apply rounds_to_one_iff. Qed.

Lemma rounds_to_one_false_iff : forall q, rounds_to_one q = false <-> ~ sums_to_one q.
Proof.
  intros q. apply bool_false_iff. apply rounds_to_one_true_iff.
Qed.

Lemma sums_to_one_dec : forall q, sums_to_one q \/ ~ sums_to_one q.
Proof.
  intros q. destruct (rounds_to_one q) eqn:E.
  - left. apply rounds_to_one_true_iff. exact E.
  - right. apply rounds_to_one_false_iff. exact E.
Qed.

(* what fails the sum test: the total is at least 5e-9 away from 1 *)
Lemma not_sums_to_one_iff : forall q,
  ~ sums_to_one q <-> (q <= 1 - (5 # 1000000000) \/ 1 + (5 # 1000000000) <= q).
Proof.
  intros q. unfold sums_to_one. split.
  - intros H. destruct (Qlt_le_dec (1 - (5 # 1000000000)) q) as [H1|H1]; [|left; exact H1].
    destruct (Qlt_le_dec q (1 + (5 # 1000000000))) as [H2|H2]; [|right; exact H2].
    exfalso. apply H. split; assumption.
  - intros [H|H] [H1 H2].
    + exact (Qlt_not_le _ _ H1 H).
    + exact (Qlt_not_le _ _ H2 H).
Qed.

Lemma pos_subset_iff : forall a b, pos_subset a b = true <-> incl a b.
Proof.
  intros a b. unfold pos_subset. rewrite forallb_forall. split.
  - intros H x Hx. specialize (H x Hx). apply existsb_exists in H. destruct H as [y [Hy E]].
    apply Pos.eqb_eq in E. subst. exact Hy.
  - intros H x Hx. apply existsb_exists. exists x. split; [apply H; exact Hx|apply Pos.eqb_refl].
Qed.

Lemma same_keys_true_iff : forall a b, same_keys a b = true <-> same_names a b.
Proof.
  intros a b. unfold same_keys, same_names. rewrite andb_true_iff, !pos_subset_iff. split.
  - intros [H1 H2] x. split; [apply H1|apply H2].
  - intros H. split; intros x Hx; apply H; exact Hx.
Qed.

Lemma same_keys_false_iff : forall a b, same_keys a b = false <-> ~ same_names a b.
Proof.
  intros a b. apply bool_false_iff. apply same_keys_true_iff.
Qed.

Lemma same_names_dec : forall a b, same_names a b \/ ~ same_names a b.
Proof.
  intros a b. destruct (same_keys a b) eqn:E.
  - left. apply same_keys_true_iff. exact E.
  - right. apply same_keys_false_iff. exact E.
Qed.

(* a name mismatch is witnessed by a name present on one side only *)
Lemma not_same_names_iff : forall a b,
  ~ same_names a b <-> exists x, (In x a /\ ~ In x b) \/ (In x b /\ ~ In x a).
Proof.
  intros a b. split.
  - intros H. apply same_keys_false_iff in H. unfold same_keys in H. apply andb_false_iff in H.
    assert (Hw : forall u v, pos_subset u v = false -> exists x, In x u /\ ~ In x v).
    { intros u v Hs. unfold pos_subset in Hs.
      induction u as [|x u IH]; cbn [forallb] in Hs; [discriminate|].
      apply andb_false_iff in Hs. destruct Hs as [Hs|Hs].
      - exists x. split; [left; reflexivity|]. intros Hin.
        assert (Ht : existsb (Pos.eqb x) v = true).
        { apply existsb_exists. exists x. split; [exact Hin|apply Pos.eqb_refl]. }
        congruence.
      - destruct (IH Hs) as [y [Hy Hn]]. exists y. split; [right; exact Hy|exact Hn]. }
    destruct H as [H|H]; destruct (Hw _ _ H) as [x Hx]; exists x; [left|right]; exact Hx.
  - intros [x [[H1 H2]|[H1 H2]]] Hs; apply H2; apply Hs; exact H1.
Qed.

Lemma same_names_trans : forall a b c, same_names a b -> same_names a c -> same_names b c.
Proof.
  intros a b c H1 H2 x. rewrite <- (H1 x). apply H2.
Qed.

(* ------------------------------------------------------------------ *)
(** * bloc_checks *)

Definition row_check (row : positive * list (positive * Q)) : res unit :=
  if rounds_to_one (qsum (map snd (snd row))) then ok tt else err EValue.

Lemma row_check_bad : forall row, row_check row = inr EValue <-> ~ row_ok row.
Proof.
  intros row. unfold row_check, row_ok, dict_total. rewrite <- rounds_to_one_false_iff.
  destruct (rounds_to_one _); unfold ok, err; split; intros H; try reflexivity; discriminate.
Qed.

Lemma row_check_only : forall row e, row_check row = inr e -> e = EValue.
Proof.
  intros row e. unfold row_check. destruct (rounds_to_one _); unfold ok, err; intros H;
    [discriminate|]. injection H as <-. reflexivity.
Qed.

Lemma rows_loop :
  forall coh,
    (rfirst_err row_check coh = inr EValue <-> exists row, In row coh /\ ~ row_ok row) /\
    (forall e, rfirst_err row_check coh = inr e -> e = EValue) /\
    (rfirst_err row_check coh = inl tt <-> rows_ok coh).
Proof.
  intros coh.
  destruct (rfirst_err_uniform row_check EValue (fun row => ~ row_ok row) row_check_bad row_check_only coh)
    as (H1 & H2 & H3).
  split; [exact H1|]. split; [exact H2|]. rewrite H3. unfold rows_ok. split.
  - intros H row Hin. destruct (sums_to_one_dec (dict_total (snd row))) as [Hy|Hn]; [exact Hy|].
    exfalso. exact (H row Hin Hn).
  - intros H row Hin Hn. exact (Hn (H row Hin)).
Qed.

(* the code, with the boolean tests replaced by their meaning; the fourth test (interval names
   against cohesion names) is kept here as the code has it *)
Lemma bloc_checks_unfold : forall props ik coh,
  bloc_checks props ik coh =
  if negb (rounds_to_one (qsum (map snd props))) then err EValue
  else if negb (same_keys (map fst props) ik) then err EValue
  else if negb (same_keys (map fst props) (map fst coh)) then err EValue
  else if negb (same_keys ik (map fst coh)) then err EValue
  else rfirst_err row_check coh.
Proof. intros props ik coh. reflexivity. Qed.

(* order of the checks: each clause assumes that the earlier checks passed *)
Lemma bloc_checks_staged : forall props ik coh,
  (~ props_ok props -> bloc_checks props ik coh = inr EValue) /\
  (props_ok props -> ~ names_pi_ok props ik -> bloc_checks props ik coh = inr EValue) /\
  (props_ok props -> names_pi_ok props ik -> ~ names_coh_ok props coh ->
     bloc_checks props ik coh = inr EValue) /\
  (props_ok props -> names_pi_ok props ik -> names_coh_ok props coh ->
     bloc_checks props ik coh = rfirst_err row_check coh).
Proof.
  intros props ik coh. rewrite bloc_checks_unfold.
  unfold props_ok, names_pi_ok, names_coh_ok, dict_total.
  split; [|split; [|split]].
  - intros H. apply rounds_to_one_false_iff in H. rewrite H. reflexivity.
  - intros H1 H2. apply rounds_to_one_true_iff in H1. apply same_keys_false_iff in H2.
    rewrite H1, H2. reflexivity.
  - intros H1 H2 H3. apply rounds_to_one_true_iff in H1. apply same_keys_true_iff in H2.
    apply same_keys_false_iff in H3. rewrite H1, H2, H3. reflexivity.
  - intros H1 H2 H3. pose proof (same_names_trans _ _ _ H2 H3) as H4.
    apply rounds_to_one_true_iff in H1. apply same_keys_true_iff in H2.
    apply same_keys_true_iff in H3. apply same_keys_true_iff in H4.
    rewrite H1, H2, H3, H4. reflexivity.
Qed.

Lemma bloc_checks_only : forall props ik coh e, bloc_checks props ik coh = inr e -> e = EValue.
Proof.
  intros props ik coh e. rewrite bloc_checks_unfold.
  destruct (negb (rounds_to_one _)); [unfold err; intros H; injection H as <-; reflexivity|].
  destruct (negb (same_keys (map fst props) ik)); [unfold err; intros H; injection H as <-; reflexivity|].
  destruct (negb (same_keys (map fst props) (map fst coh)));
    [unfold err; intros H; injection H as <-; reflexivity|].
  destruct (negb (same_keys ik (map fst coh))); [unfold err; intros H; injection H as <-; reflexivity|].
  apply (proj1 (proj2 (rows_loop coh))).
Qed.

Lemma bloc_checks_ok_iff : forall props ik coh,
  bloc_checks props ik coh = inl tt <->
  props_ok props /\ names_pi_ok props ik /\ names_coh_ok props coh /\ rows_ok coh.
Proof.
  intros props ik coh.
  destruct (bloc_checks_staged props ik coh) as (S1 & S2 & S3 & S4).
  split.
  - intros H.
    destruct (sums_to_one_dec (dict_total props)) as [P1|P1]; [|rewrite (S1 P1) in H; discriminate].
    destruct (same_names_dec (map fst props) ik) as [P2|P2]; [|rewrite (S2 P1 P2) in H; discriminate].
    destruct (same_names_dec (map fst props) (map fst coh)) as [P3|P3];
      [|rewrite (S3 P1 P2 P3) in H; discriminate].
    rewrite (S4 P1 P2 P3) in H. apply (proj2 (proj2 (rows_loop coh))) in H.
    split; [exact P1|split; [exact P2|split; [exact P3|exact H]]].
  - intros (P1 & P2 & P3 & P4). rewrite (S4 P1 P2 P3). apply (proj2 (proj2 (rows_loop coh))). exact P4.
Qed.

Lemma bloc_checks_err_iff : forall props ik coh,
  bloc_checks props ik coh = inr EValue <->
  ~ props_ok props \/ ~ names_pi_ok props ik \/ ~ names_coh_ok props coh \/
  (exists row, In row coh /\ ~ row_ok row).
Proof.
  intros props ik coh.
  destruct (bloc_checks_staged props ik coh) as (S1 & S2 & S3 & S4).
  destruct (sums_to_one_dec (dict_total props)) as [P1|P1].
  2:{ split; [intros _; left; exact P1|intros _; exact (S1 P1)]. }
  destruct (same_names_dec (map fst props) ik) as [P2|P2].
  2:{ split; [intros _; right; left; exact P2|intros _; exact (S2 P1 P2)]. }
  destruct (same_names_dec (map fst props) (map fst coh)) as [P3|P3].
  2:{ split; [intros _; right; right; left; exact P3|intros _; exact (S3 P1 P2 P3)]. }
  rewrite (S4 P1 P2 P3), (proj1 (rows_loop coh)). split.
  - intros H. right; right; right. exact H.
  - intros [H|[H|[H|H]]]; [contradiction|contradiction|contradiction|exact H].
Qed.

(* total: a value or ValueError *)
Lemma bloc_checks_total : forall props ik coh,
  bloc_checks props ik coh = inl tt \/ bloc_checks props ik coh = inr EValue.
Proof.
  intros props ik coh. destruct (bloc_checks props ik coh) as [[]|e] eqn:E; [left; reflexivity|right].
  rewrite (bloc_checks_only _ _ _ _ E). reflexivity.
Qed.

(* one cause at a time: with the other three preconditions met, the call fails iff the
   remaining one is violated *)
Lemma bloc_checks_single_cause : forall props ik coh,
  (names_pi_ok props ik -> names_coh_ok props coh -> rows_ok coh ->
     (bloc_checks props ik coh = inr EValue <-> ~ props_ok props)) /\
  (props_ok props -> names_coh_ok props coh -> rows_ok coh ->
     (bloc_checks props ik coh = inr EValue <-> ~ names_pi_ok props ik)) /\
  (props_ok props -> names_pi_ok props ik -> rows_ok coh ->
     (bloc_checks props ik coh = inr EValue <-> ~ names_coh_ok props coh)) /\
  (props_ok props -> names_pi_ok props ik -> names_coh_ok props coh ->
     (bloc_checks props ik coh = inr EValue <-> exists row, In row coh /\ ~ row_ok row)).
Proof.
  intros props ik coh. rewrite bloc_checks_err_iff.
  split; [|split; [|split]].
  - intros P2 P3 P4. split; [|intros H; left; exact H].
    intros [H|[H|[H|[row [Hin H]]]]]; [exact H|contradiction|contradiction|].
    exfalso. exact (H (P4 row Hin)).
  - intros P1 P3 P4. split; [|intros H; right; left; exact H].
    intros [H|[H|[H|[row [Hin H]]]]]; [contradiction|exact H|contradiction|].
    exfalso. exact (H (P4 row Hin)).
  - intros P1 P2 P4. split; [|intros H; right; right; left; exact H].
    intros [H|[H|[H|[row [Hin H]]]]]; [contradiction|contradiction|exact H|].
    exfalso. exact (H (P4 row Hin)).
  - intros P1 P2 P3. split; [|intros H; right; right; right; exact H].
    intros [H|[H|[H|H]]]; [contradiction|contradiction|contradiction|exact H].
Qed.

(* the cohesion loop stops at the FIRST offending row, in dictionary order *)
Lemma bloc_checks_first_row : forall props ik coh,
  props_ok props -> names_pi_ok props ik -> names_coh_ok props coh ->
  (bloc_checks props ik coh = inr EValue <->
   exists pre row post, coh = pre ++ row :: post /\ (forall r, In r pre -> row_ok r) /\ ~ row_ok row).
Proof.
  intros props ik coh P1 P2 P3.
  destruct (bloc_checks_staged props ik coh) as (_ & _ & _ & S4). rewrite (S4 P1 P2 P3).
  rewrite rfirst_err_first. split.
  - intros (pre & row & post & Hl & Hpre & Hrow). exists pre, row, post. split; [exact Hl|]. split.
    + intros r Hr. specialize (Hpre r Hr).
      destruct (sums_to_one_dec (dict_total (snd r))) as [Hy|Hn]; [exact Hy|].
      apply row_check_bad in Hn. congruence.
    + apply row_check_bad. exact Hrow.
  - intros (pre & row & post & Hl & Hpre & Hrow). exists pre, row, post. split; [exact Hl|]. split.
    + intros r Hr. specialize (Hpre r Hr). unfold row_check. unfold row_ok, dict_total in Hpre.
      apply rounds_to_one_true_iff in Hpre. rewrite Hpre. reflexivity.
    + apply row_check_bad. exact Hrow.
Qed.

(* the fourth test of the code can never be the one that fires *)
Lemma bloc_checks_fourth_dead : forall props ik coh,
  names_pi_ok props ik -> names_coh_ok props coh -> same_names ik (map fst coh).
Proof. intros props ik coh H1 H2. exact (same_names_trans _ _ _ H1 H2). Qed.

(* ------------------------------------------------------------------ *)
(** * combine_checks *)

Lemma nodup_pos_dec : forall l : list positive, NoDup l \/ ~ NoDup l.
Proof. intros l. destruct (NoDup_dec Pos.eq_dec l) as [H|H]; [left|right]; exact H. Qed.

Lemma share_dec : forall a b : list positive,
  (exists x, In x a /\ In x b) \/ (forall x, In x a -> ~ In x b).
Proof.
  intros a b. induction a as [|x a IH].
  - right. intros x [].
  - destruct (in_dec Pos.eq_dec x b) as [Hx|Hx].
    + left. exists x. split; [left; reflexivity|exact Hx].
    + destruct IH as [[y [Hy1 Hy2]]|IH].
      * left. exists y. split; [right; exact Hy1|exact Hy2].
      * right. intros y [<-|Hy]; [exact Hx|apply IH; exact Hy].
Qed.

Lemma overlapping_cons : forall l ls,
  overlapping (l :: ls) <-> (exists x, In x l /\ In x (concat ls)) \/ overlapping ls.
Proof.
  intros l ls. unfold overlapping. split.
  - intros (i & j & x & Hij & Hi & Hj). destruct i as [|i].
    + left. destruct j as [|j]; [lia|]. cbn [nth] in Hi, Hj. exists x. split; [exact Hi|].
      apply in_concat. exists (nth j ls []). split; [|exact Hj]. apply nth_In.
      cbn [length] in Hij. lia.
    + right. destruct j as [|j]; [lia|]. cbn [nth] in Hi, Hj. exists i, j, x.
      cbn [length] in Hij. split; [lia|]. split; assumption.
  - intros [(x & Hx & Hc)|(i & j & x & Hij & Hi & Hj)].
    + apply in_concat in Hc. destruct Hc as [g [Hg Hxg]].
      destruct (In_nth _ _ [] Hg) as [j [Hj Hnth]].
      exists 0%nat, (S j), x. cbn [length nth]. split; [lia|]. split; [exact Hx|].
      rewrite Hnth. exact Hxg.
    + exists (S i), (S j), x. cbn [length nth]. split; [lia|]. split; assumption.
Qed.

Lemma self_repeating_cons : forall l ls,
  self_repeating (l :: ls) <-> ~ NoDup l \/ self_repeating ls.
Proof.
  intros l ls. unfold self_repeating. split.
  - intros (g & [<-|Hg] & Hn); [left; exact Hn|right; exists g; split; assumption].
  - intros [H|(g & Hg & Hn)]; [exists l; split; [left; reflexivity|exact H]|].
    exists g. split; [right; exact Hg|exact Hn].
Qed.

Lemma concat_nodup_iff : forall ls : list (list positive),
  NoDup (concat ls) <-> ~ self_repeating ls /\ ~ overlapping ls.
Proof.
  induction ls as [|l ls IH].
  - cbn [concat]. split; [|intros _; constructor]. intros _. split.
    + intros (g & [] & _).
    + intros (i & j & x & Hij & _). cbn [length] in Hij. lia.
  - cbn [concat]. rewrite self_repeating_cons, overlapping_cons. split.
    + intros H. apply NoDup_app_inv in H. destruct H as (H1 & H2 & H3).
      apply IH in H2. destruct H2 as [H2a H2b]. split.
      * intros [H|H]; [exact (H H1)|exact (H2a H)].
      * intros [(x & Hx & Hc)|H]; [exact (H3 x Hx Hc)|exact (H2b H)].
    + intros [Ha Hb]. apply NoDup_app_intro.
      * destruct (nodup_pos_dec l) as [H|H]; [exact H|]. exfalso. apply Ha. left. exact H.
      * apply IH. split; [intros H; apply Ha; right; exact H|intros H; apply Hb; right; exact H].
      * intros x Hx Hc. apply Hb. left. exists x. split; assumption.
Qed.

Lemma concat_not_nodup_iff : forall ls : list (list positive),
  ~ NoDup (concat ls) <-> self_repeating ls \/ overlapping ls.
Proof.
  induction ls as [|l ls IH].
  - cbn [concat]. split; [intros H; exfalso; apply H; constructor|].
    intros [(g & [] & _)|(i & j & x & Hij & _)]. cbn [length] in Hij. lia.
  - rewrite self_repeating_cons, overlapping_cons. cbn [concat]. split.
    + intros H. destruct (nodup_pos_dec l) as [H1|H1]; [|left; left; exact H1].
      destruct (nodup_pos_dec (concat ls)) as [H2|H2].
      * destruct (share_dec l (concat ls)) as [H3|H3]; [right; left; exact H3|].
        exfalso. apply H. apply NoDup_app_intro; assumption.
      * apply IH in H2. destruct H2 as [H2|H2]; [left; right; exact H2|right; right; exact H2].
    + intros Hc Hnd. apply NoDup_app_inv in Hnd. destruct Hnd as (H1 & H2 & H3).
      destruct Hc as [[H|H]|[(x & Hx & Hxc)|H]].
      * exact (H H1).
      * apply (proj2 IH); [left; exact H|exact H2].
      * exact (H3 x Hx Hxc).
      * apply (proj2 IH); [right; exact H|exact H2].
Qed.

Lemma combine_checks_unfold : forall ics props,
  combine_checks ics props =
  if has_dup_pos (concat ics) then err EValue
  else if negb (rounds_to_one (qsum props)) then err EValue else ok tt.
Proof. reflexivity. Qed.

Lemma has_dup_pos_true_iff : forall l, has_dup_pos l = true <-> ~ NoDup l.
Proof.
  intros l. destruct (has_dup_pos l) eqn:E.
  - split; [|reflexivity]. intros _ Hn. apply has_dup_pos_false_iff in Hn. congruence.
  - split; [discriminate|]. intros Hn. exfalso. apply Hn. apply has_dup_pos_false_iff. exact E.
Qed.

Lemma combine_checks_staged : forall ics props,
  (~ NoDup (concat ics) -> combine_checks ics props = inr EValue) /\
  (NoDup (concat ics) -> ~ sums_to_one (qsum props) -> combine_checks ics props = inr EValue) /\
  (NoDup (concat ics) -> sums_to_one (qsum props) -> combine_checks ics props = inl tt).
Proof.
  intros ics props. rewrite combine_checks_unfold. split; [|split].
  - intros H. apply has_dup_pos_true_iff in H. rewrite H. reflexivity.
  - intros H1 H2. apply has_dup_pos_false_iff in H1. apply rounds_to_one_false_iff in H2.
    rewrite H1, H2. reflexivity.
  - intros H1 H2. apply has_dup_pos_false_iff in H1. apply rounds_to_one_true_iff in H2.
    rewrite H1, H2. reflexivity.
Qed.

Lemma combine_checks_iff : forall ics props,
  (combine_checks ics props = inr EValue <->
     self_repeating ics \/ overlapping ics \/ ~ sums_to_one (qsum props)) /\
  (forall e, combine_checks ics props = inr e -> e = EValue) /\
  (combine_checks ics props = inl tt <->
     ~ self_repeating ics /\ ~ overlapping ics /\ sums_to_one (qsum props)).
Proof.
  intros ics props. destruct (combine_checks_staged ics props) as (S1 & S2 & S3).
  destruct (nodup_pos_dec (concat ics)) as [N|N].
  - pose proof (proj1 (concat_nodup_iff ics) N) as [Na Nb].
    destruct (sums_to_one_dec (qsum props)) as [P|P].
    + rewrite (S3 N P). split; [|split].
      * split; [discriminate|]. intros [H|[H|H]]; contradiction.
      * intros e H. discriminate.
      * split; [intros _; split; [exact Na|split; [exact Nb|exact P]]|reflexivity].
    + rewrite (S2 N P). split; [|split].
      * split; [intros _; right; right; exact P|reflexivity].
      * intros e H. injection H as <-. reflexivity.
      * split; [discriminate|]. intros (_ & _ & H). contradiction.
  - rewrite (S1 N). pose proof (proj1 (concat_not_nodup_iff ics) N) as Hc. split; [|split].
    + split; [|reflexivity]. intros _. destruct Hc as [H|H]; [left; exact H|right; left; exact H].
    + intros e H. injection H as <-. reflexivity.
    + split; [discriminate|]. intros (Ha & Hb & _). destruct Hc as [H|H]; contradiction.
Qed.

(* the checks are the first thing combine_preference_intervals does *)
Lemma combine_intervals_checks_first : forall is props,
  combine_checks (map pi_cands is) props = inr EValue -> combine_intervals is props = inr EValue.
Proof.
  intros is props H. unfold combine_intervals. rewrite H. reflexivity.
Qed.

(* ------------------------------------------------------------------ *)
(** * packaged forms used by Properties/C20_blocs.v *)

Lemma sum_test : forall q,
  (rounds_to_one q = true <-> 1 - (5 # 1000000000) < q /\ q < 1 + (5 # 1000000000)) /\
  (rounds_to_one q = false <-> (q <= 1 - (5 # 1000000000) \/ 1 + (5 # 1000000000) <= q)).
Proof.
  intros q. split; [apply rounds_to_one_true_iff|].
  rewrite rounds_to_one_false_iff. apply not_sums_to_one_iff.
Qed.

Lemma names_test : forall a b : list positive,
  (same_keys a b = true <-> forall x, In x a <-> In x b) /\
  (same_keys a b = false <-> exists x, (In x a /\ ~ In x b) \/ (In x b /\ ~ In x a)).
Proof.
  intros a b. split; [apply same_keys_true_iff|].
  rewrite same_keys_false_iff. apply not_same_names_iff.
Qed.

Lemma bloc_checks_only_total : forall props ik coh,
  (forall e, bloc_checks props ik coh = inr e -> e = EValue) /\
  (bloc_checks props ik coh = inl tt \/ bloc_checks props ik coh = inr EValue).
Proof. intros props ik coh. split; [apply bloc_checks_only|apply bloc_checks_total]. Qed.

Lemma bloc_checks_order : forall props ik coh,
  (~ props_ok props -> bloc_checks props ik coh = inr EValue) /\
  (props_ok props -> ~ names_pi_ok props ik -> bloc_checks props ik coh = inr EValue) /\
  (props_ok props -> names_pi_ok props ik -> ~ names_coh_ok props coh ->
     bloc_checks props ik coh = inr EValue) /\
  (props_ok props -> names_pi_ok props ik -> names_coh_ok props coh ->
     (bloc_checks props ik coh = inr EValue <->
      exists pre row post, coh = pre ++ row :: post /\ (forall r, In r pre -> row_ok r) /\ ~ row_ok row)).
Proof.
  intros props ik coh. destruct (bloc_checks_staged props ik coh) as (S1 & S2 & S3 & _).
  split; [exact S1|]. split; [exact S2|]. split; [exact S3|]. apply bloc_checks_first_row.
Qed.

Lemma fourth_test_dead : forall (props : list (positive * Q)) ik
                                (coh : list (positive * list (positive * Q))),
  same_keys (map fst props) ik = true -> same_keys (map fst props) (map fst coh) = true ->
  same_keys ik (map fst coh) = true.
Proof.
  intros props ik coh H1 H2. apply same_keys_true_iff in H1. apply same_keys_true_iff in H2.
  apply same_keys_true_iff. exact (same_names_trans _ _ _ H1 H2).
Qed.

Lemma overlap_meaning : forall ls : list (list positive),
  (~ NoDup (concat ls) <-> self_repeating ls \/ overlapping ls) /\
  (NoDup (concat ls) <-> ~ self_repeating ls /\ ~ overlapping ls).
Proof. intros ls. split; [apply concat_not_nodup_iff|apply concat_nodup_iff]. Qed.
